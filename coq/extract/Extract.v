(* Extraction of the executable models (ExtrOcamlBasic only: bool, option, list, prod, unit,
   sumbool are mapped to OCaml's; Z, positive, N, nat, Q, string stay the extracted Coq datatypes). *)
Require Extraction.
Require Import ExtrOcamlBasic ExtrOcamlZBigInt.
From Coq Require Import ZArith QArith String.
From GMGP Require Import Scalar GridDefs TridiagDefs SparseLUDefs ObjectsDefs InterpDefs StencilDefs SmootherDefs CycleDefs GridGenDefs ParDefs KernelDefs StopDefs.
From GMGPGen Require Import GridIndexGen SpecialMembersGen ParRegionsGen.

Extraction Language OCaml.
Set Extraction Optimize.

(* our own directives (on top of ExtrOcamlBasic / ExtrOcamlZBigInt): the gcd used by Qred.
   Coq's binary ggcd on emulated positives dominated the run time of the exact-rational models. *)
Extract Constant Z.gcd => "Big_int_Z.gcd_big_int".
Extract Constant Z.ggcd =>
  "(fun a b -> let g = Big_int_Z.gcd_big_int a b in
    if Big_int_Z.sign_big_int g = 0 then (g, (a, b))
    else (g, (Big_int_Z.div_big_int a g, Big_int_Z.div_big_int b g)))".

Definition q_split_explicit := split_explicit Q Qltb.

(* Q instances of the scalar-polymorphic models *)
Definition q_solve_tri := @solve_tri Qsc.
Definition q_solve_cyc := @solve_cyc Qsc.
Definition q_matvec_tri := @matvec_tri Qsc.
Definition q_matvec_cyc := @matvec_cyc Qsc.
Definition q_diag_solve := @diag_solve Qsc.
Definition q_tri_solve := @tri_solve Qsc.
Definition q_tri_default := @tri_default Qsc.
Definition q_mkTri := @mkTri Qsc.
Definition q_obj_of_tri := @obj_of_tri Qsc.
Definition q_tri_of_obj := @tri_of_obj Qsc.
Definition q_apply_target := @apply_target Qsc.
Definition q_apply_source := @apply_source Qsc.
Definition q_lu_factor := @lu_factor Qsc.
Definition q_lu_solve := @lu_solve Qsc.
Definition q_csr_apply := @csr_apply Qsc.
Definition q_pivots := @pivots Qsc.
Definition q_csr_of_triplets := @csr_of_triplets Qsc.
Definition q_csr_of_arrays := @csr_of_arrays Qsc.

Definition q_P_row := @P_row Qsc.
Definition q_R_row := @R_row Qsc.
Definition q_Pex_row := @Pex_row Qsc.
Definition q_Rex_row := @Rex_row Qsc.
Definition q_Inj_row := @Inj_row Qsc.
Definition q_FMG_row := @FMG_row Qsc.

Definition q_A_take_row := @A_take_row Qsc.
Definition q_A_give_row := @A_give_row Qsc.
Definition q_rhs_weight := @rhs_weight Qsc.

Definition q_block_update := @block_update Qsc.
Definition q_resid := @resid Qsc.
Definition q_smoother_blocks := smoother_blocks.
Definition q_ext_smoother_blocks := ext_smoother_blocks.

Definition q_stop_decision := @stop_decision Qsc.
Definition q_k_dot := @k_dot Qsc.
Definition q_k_l1 := @k_l1 Qsc.
Definition q_k_l2sq := @k_l2sq Qsc.
Definition q_k_inf := @k_inf Qsc.
Definition q_gen_radii_uniform := @gen_radii_uniform Qsc.
Definition q_gen_angles := @gen_angles Qsc.
Definition q_radii_valid_b := @radii_valid_b Qsc.
Definition q_close_b := @close_b Qsc.
Definition q_increasing_b := @increasing_b Qsc.
Definition q_midpoints_b := @midpoints_b Qsc.

Extraction "model"
  Qsc Qltb Qred Qplus Qminus Qmult Qdiv Qopp Qle_bool Qeq_bool
  Z.add Z.sub Z.mul Z.opp Z.pow Z.ltb Z.eqb Z.of_nat Z.to_nat Pos.add Pos.mul
  mkGrid spec_wrap spec_index spec_multi gen_pow2flag gen_ncn gen_wrap gen_index gen_fast_index
  gen_multi_r gen_multi_t q_split_explicit split_auto every_second coarse_nr coarse_nth
  nb_theta_m1 nb_theta_p1
  q_solve_tri q_solve_cyc q_matvec_tri q_matvec_cyc q_diag_solve q_tri_solve q_tri_default q_mkTri
  q_obj_of_tri q_tri_of_obj q_apply_target q_apply_source
  inv_SymmetricTridiagonalSolver gen_SymmetricTridiagonalSolver_copy_ctor
  gen_SymmetricTridiagonalSolver_copy_assign gen_SymmetricTridiagonalSolver_move_ctor
  gen_SymmetricTridiagonalSolver_move_assign
  q_lu_factor q_lu_solve q_csr_apply q_pivots q_csr_of_triplets q_csr_of_arrays
  q_P_row q_R_row q_Pex_row q_Rex_row q_Inj_row q_FMG_row wrap1
  q_A_take_row q_A_give_row q_rhs_weight
  q_block_update q_resid q_smoother_blocks q_ext_smoother_blocks
  cyc ecyc top_cycle init_ops solve_loop live_in all_writes ev_reads ev_writes
  aniso_indices aniso_accept aniso_in_bounds choose_levels gen_nr gen_ntheta
  q_gen_radii_uniform q_gen_angles q_radii_valid_b q_close_b q_increasing_b q_midpoints_b
  q_stop_decision q_k_dot q_k_l1 q_k_l2sq q_k_inf threads_on_level
  find_race observed_write_ok observed_read_ok mkDims
  gen_residual_give gen_residual_take gen_direct_give_assembly gen_direct_take_assembly gen_smoother_give gen_smoother_take gen_ext_smoother_give gen_ext_smoother_take.
