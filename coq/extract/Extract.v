(* Extraction of the executable models (ExtrOcamlBasic only: bool, option, list, prod, unit,
   sumbool are mapped to OCaml's; Z, positive, N, nat, Q stay the extracted Coq datatypes). *)
Require Extraction.
Require Import ExtrOcamlBasic.
From Coq Require Import ZArith QArith.
From GMGP Require Import Scalar GridDefs.
From GMGPGen Require Import GridIndexGen.

Extraction Language OCaml.
Set Extraction Optimize.

Definition q_split_explicit := split_explicit Q Qltb.

Extraction "model"
  Qsc Qltb Qred Z.add Z.sub Z.mul Z.opp Z.pow Z.ltb Z.eqb Z.of_nat Z.to_nat Pos.add Pos.mul
  mkGrid spec_wrap spec_index spec_multi gen_pow2flag gen_ncn gen_wrap gen_index gen_fast_index
  gen_multi_r gen_multi_t q_split_explicit split_auto every_second coarse_nr coarse_nth
  nb_theta_m1 nb_theta_p1.
