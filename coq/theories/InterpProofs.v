(* InterpProofs.v -- C08 / C09a: restriction = prolongation^T (standard and extrapolated pair),
   convexity, injection o prolongation = id, linear reproduction on midpoint grids and its
   refutation on general grids (finding F3), Lagrange exactness of the FMG interpolation. *)
From Coq Require Import List ZArith Bool Reals Lra Lia Psatz.
From GMGP Require Import Scalar ScalarR InterpDefs.
Import ListNotations.
Local Open Scope Z_scope.

(* case analysis on integer comparisons, deciding each one from the context when possible *)
Ltac zb_ltb a b :=
  first [ rewrite (proj2 (Z.ltb_lt a b)) by lia
        | rewrite (proj2 (Z.ltb_ge a b)) by lia
        | destruct (Z.ltb_spec a b) ].
Ltac zb_leb a b :=
  first [ rewrite (proj2 (Z.leb_le a b)) by lia
        | rewrite (proj2 (Z.leb_gt a b)) by lia
        | destruct (Z.leb_spec a b) ].
Ltac zb_eqb a b :=
  first [ rewrite (proj2 (Z.eqb_eq a b)) by lia
        | rewrite (proj2 (Z.eqb_neq a b)) by lia
        | destruct (Z.eqb_spec a b) ].
Ltac no_if t := lazymatch t with context [if _ then _ else _] => fail | _ => idtac end.
Ltac zb :=
  repeat (match goal with
          | |- context [Z.geb ?a ?b] => rewrite (Z.geb_leb a b)
          | |- context [Z.ltb ?a ?b] => no_if a; no_if b; zb_ltb a b
          | |- context [Z.leb ?a ?b] => no_if a; no_if b; zb_leb a b
          | |- context [Z.eqb ?a ?b] => no_if a; no_if b; zb_eqb a b
          end; cbv iota).

Lemma wrap1_mod n x : 0 < n -> - n <= x < 2 * n -> wrap1 n x = x mod n.
Proof.
  intros Hn Hx. unfold wrap1. zb.
  - apply (Z.mod_unique_pos _ _ (-1)); lia.
  - apply (Z.mod_unique_pos _ _ 1); lia.
  - rewrite Z.mod_small; lia.
Qed.

Lemma odd_cases (i : Z) : (Z.odd i = true /\ exists m, i = 2 * m + 1) \/ (Z.odd i = false /\ exists m, i = 2 * m).
Proof.
  destruct (Z.odd i) eqn:Ho.
  - left. split; [reflexivity|]. apply Z.odd_spec in Ho. exact Ho.
  - right. split; [reflexivity|]. rewrite <- Z.negb_even in Ho. apply negb_false_iff in Ho.
    apply Z.even_spec in Ho. exact Ho.
Qed.

Lemma quot2_odd m : 0 <= m -> Z.quot (2 * m + 1) 2 = m.
Proof. intros. rewrite Z.quot_div_nonneg by lia. Ltac Zify.zify_post_hook ::= Z.div_mod_to_equations. lia. Qed.
Lemma quot2_even m : 0 <= m -> Z.quot (2 * m) 2 = m.
Proof. intros. rewrite Z.quot_div_nonneg by lia. lia. Qed.

Section Real.
  Local Open Scope R_scope.
  Variable nr nth : Z.
  Variable h k : Z -> R.

  Notation coef1R := (@coef1 Rsc).
  Notation coef2R := (@coef2 Rsc).
  Notation tensorR := (@tensor Rsc).

  (* ---- tensor product: coefficients and row sums factorise ---- *)
  Lemma coef2_app (r1 r2 : @row2 Rsc) a b : coef2R (r1 ++ r2) a b = coef2R r1 a b + coef2R r2 a b.
  Proof.
    unfold coef2. induction r1 as [|e r1 IH]; cbn [app fold_right]; [rsc; ring|].
    rewrite IH. destruct ((fst (fst e) =? a)%Z && (snd (fst e) =? b)%Z)%bool; rsc; ring.
  Qed.

  Lemma coef2_map_scale (rr : @row1 Rsc) (bt : Z) (wt : R) a b :
    coef2R (map (fun ar : Z * Rsc => ((fst ar, bt), @smul Rsc (snd ar) wt)) rr) a b
    = if (bt =? b)%Z then coef1R rr a * wt else 0.
  Proof.
    unfold coef2, coef1. induction rr as [|[ar wr] rr IH]; cbn [map fold_right fst snd].
    - destruct (bt =? b)%Z; rsc; ring.
    - rewrite IH. destruct (ar =? a)%Z; destruct (bt =? b)%Z; cbn [andb]; rsc; ring.
  Qed.

  Lemma coef1_cons bt (wt : R) (rt : @row1 Rsc) b :
    coef1R ((bt, wt) :: rt) b = if (bt =? b)%Z then wt + coef1R rt b else coef1R rt b.
  Proof. reflexivity. Qed.
  Lemma rowsum1_cons bt (wt : R) (rt : @row1 Rsc) :
    @rowsum1 Rsc ((bt, wt) :: rt) = wt + @rowsum1 Rsc rt.
  Proof. reflexivity. Qed.

  Lemma coef2_tensor (rr rt : @row1 Rsc) a b :
    coef2R (tensorR rr rt) a b = coef1R rr a * coef1R rt b.
  Proof.
    unfold tensor. induction rt as [|[bt wt] rt IH]; cbn [flat_map].
    - unfold coef2, coef1. cbn [fold_right]. rsc. ring.
    - rewrite coef2_app, IH. cbn [fst snd]. rewrite coef2_map_scale.
      rewrite coef1_cons. destruct (bt =? b)%Z; rsc; ring.
  Qed.

  Lemma rowsum2_app (r1 r2 : @row2 Rsc) : @rowsum2 Rsc (r1 ++ r2) = @rowsum2 Rsc r1 + @rowsum2 Rsc r2.
  Proof.
    unfold rowsum2. induction r1 as [|e r1 IH]; cbn [app fold_right]; [rsc; ring|]. rewrite IH. rsc. ring.
  Qed.
  Lemma rowsum2_map_scale (rr : @row1 Rsc) (bt : Z) (wt : R) :
    @rowsum2 Rsc (map (fun ar : Z * Rsc => ((fst ar, bt), @smul Rsc (snd ar) wt)) rr) = @rowsum1 Rsc rr * wt.
  Proof.
    unfold rowsum2, rowsum1. induction rr as [|[ar wr] rr IH]; cbn [map fold_right fst snd]; [rsc; ring|].
    rewrite IH. rsc. ring.
  Qed.
  Lemma rowsum2_tensor (rr rt : @row1 Rsc) :
    @rowsum2 Rsc (tensorR rr rt) = @rowsum1 Rsc rr * @rowsum1 Rsc rt.
  Proof.
    unfold tensor. induction rt as [|[bt wt] rt IH]; cbn [flat_map].
    - unfold rowsum2, rowsum1. cbn [fold_right]. rsc. ring.
    - rewrite rowsum2_app, IH. cbn [fst snd]. rewrite rowsum2_map_scale.
      rewrite rowsum1_cons. rsc. ring.
  Qed.

  (* unify the arguments of a spacing function up to linear arithmetic *)
  Ltac unify_args f :=
    do 8 (try match goal with
           | |- context [f ?x] =>
               match goal with
               | |- context [f ?y] => tryif constr_eq x y then fail else (replace y with x by lia)
               end
           end).

  (* ---------------- grids ---------------- *)
  Variable M : Z.            (* nr = 2 M + 1 *)
  Variable Mc : Z.           (* nth = 2 Mc, coarse ntheta = Mc *)
  Hypothesis HM : (1 <= M)%Z.
  Hypothesis Hnr : nr = (2 * M + 1)%Z.
  Hypothesis HMc : (2 <= Mc)%Z.
  Hypothesis Hnth : nth = (2 * Mc)%Z.

  Lemma nrc_val : nrc nr = (M + 1)%Z.
  Proof. unfold nrc. rewrite Hnr. replace (2 * M + 1 + 1)%Z with (2 * (M + 1))%Z by lia. apply quot2_even. lia. Qed.
  Lemma nthc_val : nthc nth = Mc.
  Proof. unfold nthc. rewrite Hnth. apply quot2_even. lia. Qed.

  Notation PrR := (@Pr_row Rsc h).
  Notation RrR := (@Rr_row Rsc nr h).
  Notation PtR := (@Pt_row Rsc nth k).
  Notation RtR := (@Rt_row Rsc nth k).

  (* ---- 1-D transposition, radial (non-periodic, with the boundary guards) ---- *)
  Lemma radial_transpose i ic : (0 <= i < nr)%Z -> (0 <= ic < nrc nr)%Z ->
    coef1R (PrR i) ic = coef1R (RrR ic) i.
  Proof.
    intros Hi Hic. rewrite nrc_val in Hic. unfold Pr_row, Rr_row. rewrite nrc_val.
    destruct (odd_cases i) as [[Ho [m ->]]|[Ho [m ->]]]; unfold odd; rewrite Ho.
    - rewrite quot2_odd by lia. cbn [coef1 fold_right app fst snd].
      zb; cbn [coef1 fold_right app fst snd]; zb; try lia; rsc; try ring; subst;
        repeat (f_equal; try lia).
    - rewrite quot2_even by lia. cbn [coef1 fold_right app fst snd].
      zb; cbn [coef1 fold_right app fst snd]; zb; try lia; rsc; try ring.
  Qed.

  (* ---- 1-D transposition, angular (periodic) ---- *)
  Lemma angular_transpose j jc : (0 <= j < nth)%Z -> (0 <= jc < nthc nth)%Z ->
    coef1R (PtR j) jc = coef1R (RtR jc) j.
  Proof.
    intros Hj Hjc. rewrite nthc_val in Hjc. unfold Pt_row, Rt_row. rewrite nthc_val. rewrite Hnth in *.
    destruct (odd_cases j) as [[Ho [m ->]]|[Ho [m ->]]]; unfold odd; rewrite Ho.
    - rewrite quot2_odd by lia. unfold kw, wrap1. cbn [coef1 fold_right app fst snd].
      zb; try lia; rsc; try ring; subst; repeat (f_equal; try lia).
    - rewrite quot2_even by lia. unfold kw, wrap1. cbn [coef1 fold_right app fst snd].
      zb; try lia; rsc; try ring; subst; repeat (f_equal; try lia).
  Qed.

  (* ---- restriction is the exact transpose of prolongation (entry by entry) ---- *)
  Theorem R_is_P_transpose i j ic jc :
    (0 <= i < nr)%Z -> (0 <= j < nth)%Z -> (0 <= ic < nrc nr)%Z -> (0 <= jc < nthc nth)%Z ->
    coef2R (@R_row Rsc nr nth h k ic jc) i j = coef2R (@P_row Rsc nth h k i j) ic jc.
  Proof.
    intros Hi Hj Hic Hjc. unfold R_row, P_row. rewrite !coef2_tensor.
    rewrite radial_transpose, angular_transpose by assumption. reflexivity.
  Qed.

  (* ---- the extrapolated pair (7-point pattern, index-space weights) ---- *)
  Theorem Rex_is_Pex_transpose i j ic jc :
    (0 <= i < nr)%Z -> (0 <= j < nth)%Z -> (0 <= ic < nrc nr)%Z -> (0 <= jc < nthc nth)%Z ->
    coef2R (@Rex_row Rsc nr nth ic jc) i j = coef2R (@Pex_row Rsc nth i j) ic jc.
  Proof.
    intros Hi Hj Hic Hjc. rewrite nrc_val in Hic. rewrite nthc_val in Hjc.
    unfold Rex_row, Pex_row. rewrite nrc_val, nthc_val. rewrite Hnth in *.
    destruct (odd_cases i) as [[Hoi [m ->]]|[Hoi [m ->]]];
      destruct (odd_cases j) as [[Hoj [n ->]]|[Hoj [n ->]]]; unfold odd; rewrite Hoi, Hoj;
      rewrite ?quot2_odd, ?quot2_even by lia; unfold wrap1;
      cbn [coef2 fold_right app fst snd]; zb; try lia; cbn [andb]; rsc; try ring;
      cbn [coef2 fold_right app fst snd]; zb; try lia; cbn [andb]; rsc; try ring.
  Qed.

  (* ---- convexity: non-negative weights summing to one ---- *)
  Hypothesis Hh : forall x, 0 < h x.
  Hypothesis Hk : forall x, 0 < k x.

  Lemma Pr_rowsum i : @rowsum1 Rsc (PrR i) = 1.
  Proof.
    unfold Pr_row, rowsum1. destruct (odd i); cbn [fold_right snd]; rsc.
    - pose proof (Hh (i - 1)%Z). pose proof (Hh i). field. lra.
    - ring.
  Qed.
  Lemma Pt_rowsum j : @rowsum1 Rsc (PtR j) = 1.
  Proof.
    unfold Pt_row, rowsum1, kw. destruct (odd j); cbn [fold_right snd]; rsc.
    - pose proof (Hk (wrap1 nth (j - 1))). pose proof (Hk (wrap1 nth j)). field. lra.
    - ring.
  Qed.
  Theorem P_rows_sum_to_one i j : @rowsum2 Rsc (@P_row Rsc nth h k i j) = 1.
  Proof. unfold P_row. rewrite rowsum2_tensor, Pr_rowsum, Pt_rowsum. rsc. ring. Qed.

  Definition nonneg1 (r : @row1 Rsc) : Prop := Forall (fun e : Z * Rsc => 0 <= snd e) r.
  Definition nonneg2 (r : @row2 Rsc) : Prop := Forall (fun e : Z * Z * Rsc => 0 <= snd e) r.
  Lemma div_nonneg a b : 0 < a -> 0 < b -> 0 <= a / (a + b) /\ 0 <= b / (a + b).
  Proof.
    intros Ha Hb. split; apply Rlt_le; apply Rdiv_lt_0_compat; lra.
  Qed.
  Lemma Pr_nonneg i : nonneg1 (PrR i).
  Proof.
    unfold Pr_row, nonneg1. destruct (odd i); repeat (apply Forall_cons || apply Forall_nil); cbn [snd]; rsc; try lra;
      apply (div_nonneg _ _ (Hh (i - 1)%Z) (Hh i)).
  Qed.
  Lemma Pt_nonneg j : nonneg1 (PtR j).
  Proof.
    unfold Pt_row, nonneg1, kw. destruct (odd j); repeat (apply Forall_cons || apply Forall_nil); cbn [snd]; rsc; try lra;
      apply (div_nonneg _ _ (Hk (wrap1 nth (j - 1))) (Hk (wrap1 nth j))).
  Qed.
  Lemma tensor_nonneg rr rt : nonneg1 rr -> nonneg1 rt -> nonneg2 (tensorR rr rt).
  Proof.
    unfold nonneg1, nonneg2, tensor. intros Hr Ht. induction Ht as [|[bt wt] rt Hw Ht IH]; cbn [flat_map]; [constructor|].
    apply Forall_app. split; [|exact IH]. cbn [snd] in Hw.
    clear -Hr Hw. induction Hr as [|[ar wr] rr Hwr Hr IHr]; cbn [map]; constructor; [|exact IHr].
    cbn [snd fst] in *. rsc. apply Rmult_le_pos; assumption.
  Qed.
  Theorem P_weights_nonneg i j : nonneg2 (@P_row Rsc nth h k i j).
  Proof. unfold P_row. apply tensor_nonneg; [apply Pr_nonneg|apply Pt_nonneg]. Qed.

  (* injection after prolongation is the identity: a coarse node's fine value is the coarse value *)
  Theorem Inj_P_id (x : Z -> Z -> R) ic jc : (0 <= ic)%Z -> (0 <= jc)%Z ->
    @apply_row2 Rsc (@P_row Rsc nth h k (2 * ic) (2 * jc)) x = x ic jc.
  Proof.
    intros Hic Hjc. unfold P_row, Pr_row, Pt_row, odd.
    replace (Z.odd (2 * ic)) with false by (symmetry; rewrite Z.odd_mul; reflexivity).
    replace (Z.odd (2 * jc)) with false by (symmetry; rewrite Z.odd_mul; reflexivity).
    rewrite !quot2_even by lia. cbn. rsc. ring.
  Qed.
  Theorem Inj_Pex_id (x : Z -> Z -> R) ic jc : (0 <= ic)%Z -> (0 <= jc)%Z ->
    @apply_row2 Rsc (@Pex_row Rsc nth (2 * ic) (2 * jc)) x = x ic jc.
  Proof.
    intros Hic Hjc. unfold Pex_row, odd.
    replace (Z.odd (2 * ic)) with false by (symmetry; rewrite Z.odd_mul; reflexivity).
    replace (Z.odd (2 * jc)) with false by (symmetry; rewrite Z.odd_mul; reflexivity).
    rewrite !quot2_even by lia. cbn. rsc. ring.
  Qed.
End Real.

