(* StopProofs.v -- C01: the stopping decision regenerated from GMGPolar::converged (translator T10) is the tolerance test. *)
From Coq Require Import Reals Bool Lra.
From GMGP Require Import Scalar ScalarR StopDefs.
From GMGPGen Require Import ConvergedGen.
Local Open Scope R_scope.

Theorem gen_converged_is_stop_decision : forall (S : Sc) atol rtol rn reln,
  @gen_converged S atol rtol rn reln = @stop_decision S atol rtol rn reln.
Proof. intros. reflexivity. Qed.

(* a reported convergence means that an ENABLED tolerance is met by the norm it is defined for *)
Theorem converged_iff_tolerance_met : forall (atol rtol : option R) (rn reln : R),
  @gen_converged Rsc atol rtol rn reln = true <->
  (exists t, rtol = Some t /\ reln <= t) \/ (exists t, atol = Some t /\ rn <= t).
Proof.
  intros atol rtol rn reln. rewrite gen_converged_is_stop_decision. unfold stop_decision. rewrite orb_true_iff. split.
  - intros [H|H].
    + left. destruct rtol as [t|]; [|discriminate]. exists t. split; [reflexivity|].
      cbn [sltb Rsc] in H. destruct (Rlt_dec t reln); [discriminate|lra].
    + right. destruct atol as [t|]; [|discriminate]. exists t. split; [reflexivity|].
      cbn [sltb Rsc] in H. destruct (Rlt_dec t rn); [discriminate|lra].
  - intros [[t [-> H]]|[t [-> H]]]; [left|right]; cbn [sltb Rsc]; destruct (Rlt_dec _ _); try reflexivity; lra.
Qed.
