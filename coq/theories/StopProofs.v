(* StopProofs.v -- C01: the stopping decision regenerated from GMGPolar::converged (translator T10) is the tolerance test. *)
From Coq Require Import Reals Bool Lra.
From GMGP Require Import Scalar ScalarR StopDefs.
From GMGPGen Require Import ConvergedGen.
Local Open Scope R_scope.

Theorem gen_converged_is_stop_decision : forall (S : Sc) atol rtol rn reln,
  @gen_converged S atol rtol rn reln = @stop_decision S atol rtol rn reln.
Proof. intros. reflexivity. Qed.

(* a reported convergence means that an ENABLED tolerance is met by the norm it is defined for *)
Theorem converged_iff_tolerance_met : forall (atol rtol : option R) (rn reln : R),
  @gen_converged Rsc atol rtol rn reln = true <->
  (exists t, rtol = Some t /\ reln <= t) \/ (exists t, atol = Some t /\ rn <= t).
Proof.
  intros atol rtol rn reln. rewrite gen_converged_is_stop_decision. unfold stop_decision. rewrite orb_true_iff. split.
  - intros [H|H].
    + left. destruct rtol as [t|]; [|discriminate]. exists t. split; [reflexivity|].
      cbn [sltb Rsc] in H. destruct (Rlt_dec t reln); [discriminate|lra].
    + right. destruct atol as [t|]; [|discriminate]. exists t. split; [reflexivity|].
      cbn [sltb Rsc] in H. destruct (Rlt_dec t rn); [discriminate|lra].
  - intros [[t [-> H]]|[t [-> H]]]; [left|right]; cbn [sltb Rsc]; destruct (Rlt_dec _ _); try reflexivity; lra.
Qed.

(* ---- conditional iteration bound: IF every cycle contracts the tested norm by a factor rho < 1, the stop test regenerated
   from converged() fires within the budget, and the reported mean reduction factor is at most rho.  The premise (contraction
   for every configuration) is analysis and is NOT proved; see DESIGN.md section 8. ---- *)
Lemma contraction_power (r : nat -> R) (rho : R) : 0 <= rho ->
  (forall k, r (S k) <= rho * r k) -> forall k, r k <= rho ^ k * r 0%nat.
Proof.
  intros Hrho Hc. induction k as [|k IH]; cbn [pow]; [lra|].
  specialize (Hc k). assert (rho * r k <= rho * (rho ^ k * r 0%nat)) by (apply Rmult_le_compat_l; assumption). lra.
Qed.

Theorem stop_within_budget_if_contraction : forall (r : nat -> R) (rho rtol : R) (atol : option R) (K : nat),
  0 <= rho -> 0 < r 0%nat -> (forall k, r (S k) <= rho * r k) -> rho ^ K <= rtol ->
  @gen_converged Rsc atol (Some rtol) (r K) (r K / r 0%nat) = true.
Proof.
  intros r rho rtol atol K Hrho H0 Hc HK.
  apply converged_iff_tolerance_met. left. exists rtol. split; [reflexivity|].
  pose proof (contraction_power r rho Hrho Hc K) as HP.
  apply (Rmult_le_reg_r (r 0%nat)); [exact H0|].
  replace (r K / r 0%nat * r 0%nat) with (r K) by (field; lra).
  assert (rho ^ K * r 0%nat <= rtol * r 0%nat) by (apply Rmult_le_compat_r; lra). lra.
Qed.

(* the k-th power of the reported mean reduction factor (r_k / r_0)^(1/k) is at most rho^k, i.e. the factor is at most rho *)
Theorem mean_factor_power_bound : forall (r : nat -> R) (rho : R) (k : nat),
  0 <= rho -> 0 < r 0%nat -> (forall j, r (S j) <= rho * r j) -> r k / r 0%nat <= rho ^ k.
Proof.
  intros r rho k Hrho H0 Hc. pose proof (contraction_power r rho Hrho Hc k) as HP.
  apply (Rmult_le_reg_r (r 0%nat)); [exact H0|]. replace (r k / r 0%nat * r 0%nat) with (r k) by (field; lra). exact HP.
Qed.
