(* TridiagProofs.v -- C14: the tridiagonal line solvers are exact in exact arithmetic for every
   dimension, and repeated solves return identical results. *)
From Coq Require Import List ZArith Bool Reals Lra Lia.
From GMGP Require Import Scalar ScalarR TridiagDefs.
Import ListNotations.

(* ================================================================== *)
(* law-free part: holds for ANY scalar operations (hence for IEEE-754) *)
(* ================================================================== *)
Section LawFree.
  Context {S : Sc}.
  Local Open Scope sc_scope.

  Lemma ldlt_cons (d : S) ds ss : exists D L, ldlt d ds ss = (d :: D, L).
  Proof.
    destruct ds as [|d1 ds]; [exists [], ss; reflexivity|].
    destruct ss as [|s ss]; [exists (d1 :: ds), []; reflexivity|].
    cbn [ldlt]. destruct (ldlt _ ds ss) as [D L]. eexists; eexists; reflexivity.
  Qed.

  Lemma forward_cons (l : S) (L : list S) (b0 b1 : S) (bs : list S) :
    forward (l :: L) (b0 :: b1 :: bs) = b0 :: forward L ((b1 - l * b0) :: bs).
  Proof. reflexivity. Qed.

  (* the three in-place sweeps compute exactly the recursive elimination, operation for operation *)
  Theorem sweeps_eq_rec : forall ds (d : S) ss b0 bs,
    length ss = length ds -> length bs = length ds ->
    let '(D, L) := ldlt d ds ss in sweeps D L (b0 :: bs) = solve_rec d ds ss b0 bs.
  Proof.
    induction ds as [|d1 ds IH]; intros d ss b0 bs Hs Hb.
    - destruct ss; [|discriminate]. destruct bs; [|discriminate]. reflexivity.
    - destruct ss as [|s ss]; [discriminate|]. destruct bs as [|b1 bs]; [discriminate|].
      cbn [length] in *. injection Hs as Hs. injection Hb as Hb.
      cbn [ldlt solve_rec].
      specialize (IH (d1 - s / d * (s / d) * d) ss (b1 - s / d * b0) bs Hs Hb).
      destruct (ldlt (d1 - s / d * (s / d) * d) ds ss) as [D L] eqn:E.
      destruct (ldlt_cons (d1 - s / d * (s / d) * d) ds ss) as [D' [L' E']].
      rewrite E in E'. injection E' as -> ->.
      unfold sweeps in *. rewrite forward_cons.
      remember (forward L' ((b1 - s / d * b0) :: bs)) as Y eqn:HY.
      assert (HYc : exists y Ys, Y = y :: Ys) by (subst Y; cbn [forward]; eexists; eexists; reflexivity).
      destruct HYc as [y [Ys ->]].
      cbn [scale]. cbn [scale] in IH.
      remember ((y / (d1 - s / d * (s / d) * d)) :: scale D' Ys) as Zs eqn:HZ.
      rewrite <- IH. subst Zs. reflexivity.
  Qed.

  Theorem solve_tri_eq_rec (d : S) ds ss b0 bs :
    length ss = length ds -> length bs = length ds ->
    solve_tri (d :: ds) ss (b0 :: bs) = solve_rec d ds ss b0 bs.
  Proof.
    intros Hs Hb. unfold solve_tri, factor. pose proof (sweeps_eq_rec ds d ss b0 bs Hs Hb) as H.
    destruct (ldlt d ds ss) as [D L]. exact H.
  Qed.

  (* repeated solves: after the first solve the object is a fixed point of the factorisation step,
     and every later solve with the same right-hand side returns the identical value *)
  Theorem repeated_solves_identical (t : tri) (b : list S) :
    let '(t1, x1) := tri_solve t b in
    tri_solve t1 b = (t1, x1).
  Proof.
    unfold tri_solve. destruct (t_cyclic t) eqn:Hc; destruct (t_fact t) eqn:Hf.
    - rewrite Hc, Hf. reflexivity.
    - destruct (factor _ _) as [D L]. cbn. reflexivity.
    - rewrite Hc, Hf. reflexivity.
    - destruct (factor _ _) as [D L]. cbn. reflexivity.
  Qed.

  Theorem solve_marks_factorized (t : tri) (b : list S) : t_fact (fst (tri_solve t b)) = true.
  Proof.
    unfold tri_solve. destruct (t_cyclic t); destruct (t_fact t) eqn:Hf; cbn; try assumption;
      destruct (factor _ _); reflexivity.
  Qed.
End LawFree.

(* ================================================================== *)
(* exact arithmetic (R)                                                *)
(* ================================================================== *)
Local Open Scope R_scope.

Notation ldltR := (@ldlt Rsc).
Notation solve_recR := (@solve_rec Rsc).
Notation matvec_fromR := (@matvec_tri_from Rsc).

Fixpoint pivots_ok (d : R) (ds ss : list R) : Prop :=
  d <> 0 /\
  match ds, ss with
  | d1 :: ds', s :: ss' => pivots_ok (d1 - s / d * (s / d) * d) ds' ss'
  | _, _ => True
  end.

Fixpoint pivots_pos (d : R) (ds ss : list R) : Prop :=
  0 < d /\
  match ds, ss with
  | d1 :: ds', s :: ss' => pivots_pos (d1 - s / d * (s / d) * d) ds' ss'
  | _, _ => True
  end.

Lemma pivots_pos_ok d ds ss : pivots_pos d ds ss -> pivots_ok d ds ss.
Proof.
  revert d ss. induction ds as [|d1 ds IH]; intros d ss [Hd H]; cbn; (split; [lra|]); [exact I|].
  destruct ss as [|s ss]; [exact I|]. apply IH, H.
Qed.

Lemma solve_rec_cons d ds ss b0 bs : exists x xs, solve_recR d ds ss b0 bs = x :: xs.
Proof.
  destruct ds as [|d1 ds]; [eexists; eexists; reflexivity|].
  destruct ss as [|s ss]; [eexists; eexists; reflexivity|].
  destruct bs as [|b1 bs]; eexists; eexists; reflexivity.
Qed.

Definition nexts (ss xs : list R) : R := match ss, xs with s :: _, x1 :: _ => s * x1 | _, _ => 0 end.
Definition tailpart (x : R) (ds ss xs : list R) : list R :=
  match ss, xs with s :: ss', _ :: _ => matvec_fromR s x ds ss' xs | _, _ => [] end.

Lemma matvec_from_head sp xp d ds ss x xs :
  matvec_fromR sp xp (d :: ds) ss (x :: xs) = (sp * xp + d * x + nexts ss xs) :: tailpart x ds ss xs.
Proof.
  cbn [matvec_tri_from]. destruct ss as [|s ss]; destruct xs as [|x1 xs]; cbn [nexts tailpart];
    f_equal; cbn; ring.
Qed.

Theorem solve_rec_correct : forall ds d ss b0 bs sp xp,
  length ss = length ds -> length bs = length ds -> pivots_ok d ds ss ->
  matvec_fromR sp xp (d :: ds) ss (solve_recR d ds ss b0 bs) = (sp * xp + b0) :: bs.
Proof.
  induction ds as [|d1 ds IH]; intros d ss b0 bs sp xp Hs Hb Hp.
  - destruct ss; [|discriminate]. destruct bs; [|discriminate]. destruct Hp as [Hd _].
    cbn. f_equal. field. exact Hd.
  - destruct ss as [|s ss]; [discriminate|]. destruct bs as [|b1 bs]; [discriminate|].
    cbn [length] in *. injection Hs as Hs. injection Hb as Hb. destruct Hp as [Hd Hp].
    cbn [solve_rec].
    set (l := @sdiv Rsc s d) in *. set (d1' := @ssub Rsc d1 (@smul Rsc (@smul Rsc l l) d)) in *.
    set (b1' := @ssub Rsc b1 (@smul Rsc l b0)).
    pose proof (IH d1' ss b1' bs 0 0 Hs Hb Hp) as IH0.
    destruct (solve_rec_cons d1' ds ss b1' bs) as [x1 [xs' E]]. rewrite E in *.
    cbn [hd].
    rewrite matvec_from_head in IH0. injection IH0 as Hhead Htail.
    rewrite matvec_from_head. cbn [nexts tailpart].
    rewrite matvec_from_head. rewrite Htail.
    subst l d1' b1'. cbn [sdiv ssub smul Rsc] in *.
    f_equal; [field; exact Hd|]. f_equal.
    assert (Hn : nexts ss xs' = b1 - s / d * b0 - (d1 - s / d * (s / d) * d) * x1) by lra.
    rewrite Hn. apply (f_equal (fun v => cons v bs)). change (T Rsc) with R. field. exact Hd.
Qed.

(* the statement about the code's three-sweep algorithm *)
Theorem ldlt_solve_correct d ds ss b0 bs :
  length ss = length ds -> length bs = length ds -> pivots_ok d ds ss ->
  @matvec_tri Rsc (d :: ds) ss (@solve_tri Rsc (d :: ds) ss (b0 :: bs)) = b0 :: bs.
Proof.
  intros Hs Hb Hp. rewrite (@solve_tri_eq_rec Rsc) by assumption.
  unfold matvec_tri. rewrite solve_rec_correct by assumption. cbn. f_equal. ring.
Qed.

(* strict diagonal dominance (positive diagonal) => every pivot is positive *)
Fixpoint dom_rest (sprev : R) (ds ss : list R) : Prop :=
  match ds with
  | [] => True
  | d1 :: ds' =>
      match ss with
      | s1 :: ss' => Rabs sprev + Rabs s1 < d1 /\ dom_rest s1 ds' ss'
      | [] => Rabs sprev < d1
      end
  end.

Lemma sq_over_lt (s d : R) : Rabs s < d -> s / d * (s / d) * d <= Rabs s.
Proof.
  intros H. assert (Hd : 0 < d) by (pose proof (Rabs_pos s); lra).
  replace (s / d * (s / d) * d) with (s * s / d) by (field; lra).
  apply (Rmult_le_reg_r d); [exact Hd|].
  replace (s * s / d * d) with (s * s) by (field; lra).
  assert (Hss : s * s = Rabs s * Rabs s) by (pose proof (Rsqr_abs s) as H0; unfold Rsqr in H0; exact H0).
  rewrite Hss. pose proof (Rabs_pos s). nra.
Qed.

Theorem pivots_positive_of_dominant : forall ds d ss,
  length ss = length ds ->
  Rabs (hd 0 ss) < d -> dom_rest (hd 0 ss) ds (tl ss) -> pivots_pos d ds ss.
Proof.
  induction ds as [|d1 ds IH]; intros d ss Hs Hd Hdom.
  - cbn. split; [pose proof (Rabs_pos (hd 0 ss)); lra | exact I].
  - destruct ss as [|s ss]; [discriminate|]. cbn [length] in Hs. injection Hs as Hs.
    cbn [hd tl] in *. cbn [pivots_pos]. split; [pose proof (Rabs_pos s); lra|].
    pose proof (sq_over_lt s d Hd) as Hq.
    apply IH; [assumption| |].
    + cbn [dom_rest] in Hdom. destruct ss as [|s1 ss]; cbn [hd].
      * rewrite Rabs_R0. lra.
      * destruct Hdom as [H1 _]. lra.
    + cbn [dom_rest] in Hdom. destruct ss as [|s1 ss]; cbn [hd tl].
      * destruct ds; [exact I | discriminate Hs].
      * destruct Hdom as [_ H2]. exact H2.
Qed.

Lemma abs_m1 : Rabs (-1) = 1.
Proof. unfold Rabs. destruct (Rcase_abs (-1)); lra. Qed.

(* a concrete instance meeting the premises: tridiag(-1,4,-1), n = 4 *)
Example dominant_example : pivots_pos 4 [4; 4; 4] [-1; -1; -1].
Proof.
  apply pivots_positive_of_dominant; [reflexivity| |]; cbn.
  - rewrite abs_m1. lra.
  - rewrite !abs_m1. repeat split; lra.
Qed.
