(* InterpDefs.v -- executable model of the grid-transfer operators (C08, C09a): bilinear
   prolongation / full-weighting restriction, the extrapolated pair, injection and the FMG
   (4-point Lagrange) interpolation.  Operators are given by their ROWS in (i_r, i_theta)
   coordinates: the list of (source node, weight) pairs a target node receives from.
   Transcribed from src/Interpolation/{prolongation,restriction,extrapolated_prolongation,
   extrapolated_restriction,injection,fmg_interpolation}.cpp. *)
From Coq Require Import List ZArith Bool.
From GMGP Require Import Scalar.
Import ListNotations.
Local Open Scope Z_scope.

(* periodic wrap for offsets of at most one period (what every transfer operator needs) *)
Definition wrap1 (n x : Z) : Z := if x <? 0 then x + n else if x >=? n then x - n else x.

Section Interp.
  Context {S : Sc}.
  Local Open Scope sc_scope.

  (* fine grid: nr, ntheta, radial spacings h 0..nr-2, angular spacings k 0..ntheta-1 *)
  Variable nr nth : Z.
  Variable h k : Z -> S.
  Definition kw (x : Z) : S := k (wrap1 nth x).
  Definition nrc : Z := Z.quot (nr + 1)%Z 2.
  Definition nthc : Z := Z.quot nth 2.
  Definition odd (x : Z) : bool := Z.odd x.

  Definition row1 := list (Z * S).
  Definition row2 := list ((Z * Z) * S).

  (* tensor product of a radial and an angular 1-D row (angular index outer, radial inner) *)
  Definition tensor (rr rt : row1) : row2 :=
    flat_map (fun bt => map (fun ar => ((fst ar, fst bt), snd ar * snd bt)) rr) rt.

  (* ---------------- bilinear prolongation ---------------- *)
  (* radial: fine i from coarse i/2 (and i/2+1 when i is odd).  NOTE the code's weights:
     (h1 * x_left + h2 * x_right) / (h1 + h2) with h1 = h(i-1) the distance to the LEFT node *)
  Definition Pr_row (i : Z) : row1 :=
    let ic := Z.quot i 2 in
    if odd i then
      let h1 := h (i - 1) in let h2 := h i in
      [(ic, h1 / (h1 + h2)); ((ic + 1)%Z, h2 / (h1 + h2))]
    else [(ic, s1)].
  Definition Pt_row (j : Z) : row1 :=
    let jc := Z.quot j 2 in
    if odd j then
      let k1 := kw (j - 1) in let k2 := kw j in
      [(jc, k1 / (k1 + k2)); (wrap1 nthc (jc + 1)%Z, k2 / (k1 + k2))]
    else [(jc, s1)].
  Definition P_row (i j : Z) : row2 := tensor (Pr_row i) (Pt_row j).

  (* ---------------- full-weighting restriction ---------------- *)
  Definition Rr_row (ic : Z) : row1 :=
    let i := (2 * ic)%Z in
    [(i, s1)]
    ++ (if 0 <? ic then [((i - 1)%Z, h (i - 1) / (h (i - 2) + h (i - 1)))] else [])
    ++ (if ic <? nrc - 1 then [((i + 1)%Z, h i / (h i + h (i + 1)))] else []).
  Definition Rt_row (jc : Z) : row1 :=
    let j := (2 * jc)%Z in
    [(j, s1);
     (wrap1 nth (j - 1), kw (j - 1) / (kw (j - 2) + kw (j - 1)));
     (wrap1 nth (j + 1), kw j / (kw j + kw (j + 1)))].
  Definition R_row (ic jc : Z) : row2 := tensor (Rr_row ic) (Rt_row jc).

  (* ---------------- extrapolated pair (index-space 1/2 weights, 7-point pattern) ---------------- *)
  Definition Pex_row (i j : Z) : row2 :=
    let ic := Z.quot i 2 in let jc := Z.quot j 2 in
    let jc1 := wrap1 nthc (jc + 1) in
    if odd i then
      if odd j then [(((ic + 1)%Z, jc), shalf); ((ic, jc1), shalf)]
      else [((ic, jc), shalf); (((ic + 1)%Z, jc), shalf)]
    else
      if odd j then [((ic, jc), shalf); ((ic, jc1), shalf)]
      else [((ic, jc), s1)].

  Definition Rex_row (ic jc : Z) : row2 :=
    let i := (2 * ic)%Z in let j := (2 * jc)%Z in
    let jm := wrap1 nth (j - 1) in let jp := wrap1 nth (j + 1) in
    [((i, j), s1); ((i, jm), shalf); ((i, jp), shalf)]
    ++ (if 0 <? ic then [(((i - 1)%Z, j), shalf); (((i - 1)%Z, jp), shalf)] else [])
    ++ (if ic <? nrc - 1 then [(((i + 1)%Z, j), shalf); (((i + 1)%Z, jm), shalf)] else []).

  (* ---------------- injection ---------------- *)
  Definition Inj_row (ic jc : Z) : row2 := [(((2 * ic)%Z, (2 * jc)%Z), s1)].

  (* ---------------- FMG interpolation ---------------- *)
  (* 4-point Lagrange weights at the point between nodes 1 and 2; spacings k0 k1 | k2 k3 *)
  Definition lag4 (k0 k1 k2 k3 : S) : S * S * S * S :=
    (- k1 / k0 * k2 / (k0 + k1 + k2) * (k2 + k3) / (k0 + k1 + k2 + k3),
     (k0 + k1) / k0 * k2 / (k1 + k2) * (k2 + k3) / (k1 + k2 + k3),
     (k0 + k1) / (k0 + k1 + k2) * k1 / (k1 + k2) * (k2 + k3) / k3,
     - (k0 + k1) / (k0 + k1 + k2 + k3) * k1 / (k1 + k2 + k3) * k2 / k3).

  (* coarse spacings *)
  Definition hc (ic : Z) : S := h (2 * ic) + h (2 * ic + 1).
  Definition kc (jc : Z) : S := let j := wrap1 nthc jc in kw (2 * j) + kw (2 * j + 1).

  Definition Ft_row (j : Z) : row1 :=
    let jc := Z.quot j 2 in
    if odd j then
      let '(w0, w1, w2, w3) := lag4 (kc (jc - 1)) (kw (j - 1)) (kw j) (kc (jc + 1)) in
      [(wrap1 nthc (jc - 1), w0); (jc, w1); (wrap1 nthc (jc + 1), w2); (wrap1 nthc (jc + 2), w3)]
    else [(jc, s1)].
  Definition Fr_row (i : Z) : row1 :=
    let ic := Z.quot i 2 in
    if (i =? 0) || (i =? nr - 1) then [(ic, s1)]
    else if (i =? 1) || (i =? nr - 2) then
      (* linear fall-back next to the boundaries (same weight orientation as Pr_row) *)
      let h1 := h (i - 1) in let h2 := h i in
      [(ic, h1 / (h1 + h2)); ((ic + 1)%Z, h2 / (h1 + h2))]
    else if odd i then
      let '(w0, w1, w2, w3) := lag4 (hc (ic - 1)) (h (i - 1)) (h i) (hc (ic + 1)) in
      [((ic - 1)%Z, w0); (ic, w1); ((ic + 1)%Z, w2); ((ic + 2)%Z, w3)]
    else [(ic, s1)].
  Definition FMG_row (i j : Z) : row2 := tensor (Fr_row i) (Ft_row j).

  (* ---------------- coefficient extraction and application ---------------- *)
  Definition coef1 (r : row1) (a : Z) : S :=
    fold_right (fun e acc => if fst e =? a then snd e + acc else acc) s0 r.
  Definition coef2 (r : row2) (a b : Z) : S :=
    fold_right (fun e acc => if (fst (fst e) =? a) && (snd (fst e) =? b) then snd e + acc else acc) s0 r.
  Definition rowsum1 (r : row1) : S := fold_right (fun e acc => snd e + acc) s0 r.
  Definition rowsum2 (r : row2) : S := fold_right (fun e acc => snd e + acc) s0 r.
  Definition apply_row2 (r : row2) (x : Z -> Z -> S) : S :=
    fold_right (fun e acc => snd e * x (fst (fst e)) (snd (fst e)) + acc) s0 r.
  Definition apply_row1 (r : row1) (x : Z -> S) : S :=
    fold_right (fun e acc => snd e * x (fst e) + acc) s0 r.
End Interp.
