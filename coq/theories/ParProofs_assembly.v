(* C11: race freedom of the direct-solver matrix assembly regions (CSR rows as cells) for all grid sizes. *)
From Coq Require Import List ZArith Bool Lia ZifyBool.
From GMGP Require Import ParDefs ParProofs.
From GMGPGen Require Import ParRegionsGen.
Import ListNotations.
Local Open Scope Z_scope.
Ltac Zify.zify_post_hook ::= Z.to_euclidean_division_equations.

Theorem direct_give_assembly_race_free d : valid d -> race_free gen_direct_give_assembly d.
Proof.
  intros [V1 [V2 V3]] it1 it2 Hin t1 t2 H1 H2 c. unfold gen_direct_give_assembly in Hin.
  region_solve Hin H1 H2.
Qed.

Theorem direct_take_assembly_race_free d : valid d -> race_free gen_direct_take_assembly d.
Proof.
  intros [V1 [V2 V3]] it1 it2 Hin t1 t2 H1 H2 c. unfold gen_direct_take_assembly in Hin.
  region_solve Hin H1 H2.
Qed.
