(* TridiagCyclicSPD.v -- C14: for a symmetric positive definite CYCLIC tridiagonal matrix A (corner entry c) the matrix
   B = A - u v^T that solveSymmetricCyclicTridiagonal factorises (gamma = -a_00) is itself positive definite, for every dimension:
       x^T B x = x^T A x + a_00 (x_0 - c / a_00 x_{n-1})^2,
   so all its LDL^T pivots are positive and the first premise of cyclic_solve_correct holds for every SPD cyclic system.
   (Any other choice of gamma must re-establish this: with gamma = -c the form picks up c (x_0 - x_{n-1})^2, which is
   indefinite for c < 0 -- seeded change C14_4.) *)
From Coq Require Import List ZArith Bool Reals Lra Lia.
From GMGP Require Import Scalar ScalarR TridiagDefs TridiagProofs TridiagCyclic TridiagSPD.
Import ListNotations.
Local Open Scope R_scope.

(* x^T A x for the cyclic matrix: the corner entry couples x_0 and x_{n-1} (for n = 2 it adds to the sub-diagonal entry, as in matvec_cyc) *)
Definition qcyc (d : R) (ds ss : list R) (c x0 : R) (xs : list R) : R := qform d ds ss x0 xs + 2 * c * x0 * last xs 0.
Definition spd_cyc (d : R) (ds ss : list R) (c : R) : Prop :=
  forall x0 xs, length xs = length ds -> nonzero x0 xs -> 0 < qcyc d ds ss c x0 xs.

Lemma qform_cons d d1 ds s ss x0 x1 xs :
  qform d (d1 :: ds) (s :: ss) x0 (x1 :: xs) = d * x0 * x0 + 2 * s * x0 * x1 + qform d1 ds ss x1 xs.
Proof. cbn [qform]. ring. Qed.

Lemma qform_upd_last (f : R -> R) (e : R) : (forall v, f v = v + e) ->
  forall ds d ss x0 xs, ds <> [] -> length ss = length ds -> length xs = length ds ->
  qform d (@upd_last Rsc f ds) ss x0 xs = qform d ds ss x0 xs + e * last xs 0 * last xs 0.
Proof.
  intros Hf. induction ds as [|d1 ds IH]; intros d ss x0 xs Hne Hs Hx; [contradiction|].
  destruct ss as [|s ss]; [discriminate|]. destruct xs as [|x1 xs]; [discriminate|].
  cbn [length] in Hs, Hx. injection Hs as Hs. injection Hx as Hx.
  destruct ds as [|d2 ds].
  - destruct ss; [|discriminate]. destruct xs; [|discriminate]. cbn [upd_last qform last]. rewrite Hf. ring.
  - change (@upd_last Rsc f (d1 :: d2 :: ds)) with (d1 :: @upd_last Rsc f (d2 :: ds)).
    rewrite !qform_cons. rewrite IH by (try discriminate; assumption).
    destruct xs as [|x2 xs]; [discriminate|]. change (last (x1 :: x2 :: xs) 0) with (last (x2 :: xs) 0). ring.
Qed.

Lemma last_repeat0 n : last (repeat 0 n) 0 = 0.
Proof. induction n as [|n IH]; [reflexivity|]. cbn [repeat]. destruct n; [reflexivity|]. exact IH. Qed.

Lemma spd_cyc_first_positive d ds ss c : spd_cyc d ds ss c -> 0 < d.
Proof.
  intros H. specialize (H 1 (repeat 0 (length ds)) (repeat_length _ _)).
  unfold qcyc in H. rewrite qform_zero_tail, last_repeat0 in H.
  assert (G : nonzero 1 (repeat 0 (length ds))) by (exists 1; split; [left; reflexivity|lra]).
  specialize (H G). lra.
Qed.

Theorem spd_cyc_modified_spd d0 ds ss c : ds <> [] -> length ss = length ds -> spd_cyc d0 ds ss c ->
  match @cyc_modified_diag Rsc (d0 :: ds) c with [] => False | e :: es => spd e es ss end.
Proof.
  intros Hne Hs Hspd. pose proof (spd_cyc_first_positive _ _ _ _ Hspd) as Hd.
  unfold cyc_modified_diag, cyc_gamma, upd_first. cbn [hd].
  destruct ds as [|d1 ds]; [contradiction|].
  change (@upd_last Rsc ?f (?a :: d1 :: ds)) with (a :: @upd_last Rsc f (d1 :: ds)).
  intros x0 xs Hx Hnz.
  assert (Lu : forall f, length (@upd_last Rsc f (d1 :: ds)) = length (d1 :: ds)) by (intros f; apply length_upd_last).
  rewrite Lu in Hx.
  rewrite (qform_upd_last _ (c * c / d0)); [|intros v; rsc; field; lra|discriminate|exact Hs|exact Hx].
  specialize (Hspd x0 xs Hx Hnz). unfold qcyc in Hspd. rsc.
  replace (d0 - - d0) with (d0 + d0) by ring. rewrite qform_shift.
  set (l := last xs 0) in *. set (q := qform d0 (d1 :: ds) ss x0 xs) in *.
  assert (Hsq : 0 <= d0 * (x0 - c / d0 * l) * (x0 - c / d0 * l)).
  { replace (d0 * (x0 - c / d0 * l) * (x0 - c / d0 * l)) with (d0 * ((x0 - c / d0 * l) * (x0 - c / d0 * l))) by ring.
    apply Rmult_le_pos; [lra|]. apply Rle_0_sqr. }
  replace (d0 * x0 * x0 + q + c * c / d0 * l * l) with (q + 2 * c * x0 * l + d0 * (x0 - c / d0 * l) * (x0 - c / d0 * l)) by (field; lra).
  lra.
Qed.

(* hence the pivots of the matrix the cyclic solver factorises are positive, in particular non-zero *)
Theorem spd_cyc_modified_pivots_positive d0 ds ss c : ds <> [] -> length ss = length ds -> spd_cyc d0 ds ss c ->
  match @cyc_modified_diag Rsc (d0 :: ds) c with [] => False | e :: es => pivots_pos e es ss end.
Proof.
  intros Hne Hs Hspd. pose proof (spd_cyc_modified_spd d0 ds ss c Hne Hs Hspd) as H.
  assert (L : length (@cyc_modified_diag Rsc (d0 :: ds) c) = length (d0 :: ds)).
  { unfold cyc_modified_diag, upd_first. rewrite length_upd_last. reflexivity. }
  destruct (@cyc_modified_diag Rsc (d0 :: ds) c) as [|e es]; [exact H|].
  apply spd_pivots_positive; [|exact H]. cbn [length] in L. injection L as L. rewrite Hs. symmetry. exact L.
Qed.

Theorem spd_cyc_modified_spd_and_pivots : forall d0 ds ss c, ds <> [] -> length ss = length ds -> spd_cyc d0 ds ss c ->
  match @cyc_modified_diag Rsc (d0 :: ds) c with [] => False | e :: es => spd e es ss /\ pivots_pos e es ss end.
Proof.
  intros d0 ds ss c Hne Hs H. pose proof (spd_cyc_modified_spd d0 ds ss c Hne Hs H) as H1.
  pose proof (spd_cyc_modified_pivots_positive d0 ds ss c Hne Hs H) as H2.
  destruct (@cyc_modified_diag Rsc (d0 :: ds) c); [exact H1|split; assumption].
Qed.

(* ---- the Sherman-Morrison denominator 1 + v^T B^-1 u cannot vanish for an SPD cyclic system ----
   with z = B^-1 u and t = v^T z = z_0 + c / gamma z_{n-1}:   z^T B z = z^T u = gamma t   and   z^T B z = z^T A z + a_00 t^2,
   hence z^T A z = - a_00 t (1 + t): if 1 + t = 0 then t = -1, z <> 0 and z^T A z = 0, contradicting definiteness. *)
Lemma qform_modified d0 d1 ds ss c x0 xs : d0 <> 0 -> length ss = length (d1 :: ds) -> length xs = length (d1 :: ds) ->
  match @cyc_modified_diag Rsc (d0 :: d1 :: ds) c with
  | [] => False
  | e :: es => qform e es ss x0 xs = qcyc d0 (d1 :: ds) ss c x0 xs + d0 * (x0 - c / d0 * last xs 0) * (x0 - c / d0 * last xs 0)
  end.
Proof.
  intros Hd Hs Hx. unfold cyc_modified_diag, cyc_gamma, upd_first. cbn [hd].
  change (@upd_last Rsc ?f (?a :: d1 :: ds)) with (a :: @upd_last Rsc f (d1 :: ds)). cbv iota.
  rewrite (qform_upd_last _ (c * c / d0)); [|intros v; rsc; field; exact Hd|discriminate|exact Hs|exact Hx].
  unfold qcyc. rsc. replace (d0 - - d0) with (d0 + d0) by ring. rewrite qform_shift. field. exact Hd.
Qed.

Lemma dotR_upd_last_repeat c : forall zs, zs <> [] ->
  dotR zs (@upd_last Rsc (fun _ => c) (repeat 0 (length zs))) = c * last zs 0.
Proof.
  induction zs as [|z1 zs IH]; intros Hne; [contradiction|]. destruct zs as [|z2 zs].
  - cbn. ring.
  - change (repeat 0 (length (z1 :: z2 :: zs))) with (0 :: repeat 0 (length (z2 :: zs))).
    change (@upd_last Rsc (fun _ => c) (0 :: repeat 0 (length (z2 :: zs)))) with (0 :: @upd_last Rsc (fun _ => c) (repeat 0 (length (z2 :: zs)))).
    set (w := @upd_last Rsc (fun _ => c) (repeat 0 (length (z2 :: zs)))) in *.
    change (dotR (z1 :: z2 :: zs) (0 :: w)) with (z1 * 0 + dotR (z2 :: zs) w).
    rewrite IH by discriminate. change (last (z1 :: z2 :: zs) 0) with (last (z2 :: zs) 0). ring.
Qed.

Theorem spd_cyc_denominator_nonzero d0 ds ss c : ds <> [] -> length ss = length ds -> spd_cyc d0 ds ss c ->
  1 + (hd 0 (@solve_tri Rsc (@cyc_modified_diag Rsc (d0 :: ds) c) ss (@cyc_u Rsc (length (d0 :: ds)) (- d0) c))
       + c / - d0 * last (@solve_tri Rsc (@cyc_modified_diag Rsc (d0 :: ds) c) ss (@cyc_u Rsc (length (d0 :: ds)) (- d0) c)) 0) <> 0.
Proof.
  intros Hne Hs Hspd. pose proof (spd_cyc_first_positive _ _ _ _ Hspd) as Hd.
  pose proof (spd_cyc_modified_pivots_positive d0 ds ss c Hne Hs Hspd) as Hpp.
  destruct ds as [|d1 ds]; [contradiction|].
  pose proof (fun x0 xs => qform_modified d0 d1 ds ss c x0 xs ltac:(lra) Hs) as Hq.
  assert (LB : length (@cyc_modified_diag Rsc (d0 :: d1 :: ds) c) = length (d0 :: d1 :: ds)).
  { unfold cyc_modified_diag, upd_first. rewrite length_upd_last. reflexivity. }
  destruct (@cyc_modified_diag Rsc (d0 :: d1 :: ds) c) as [|e es]; [contradiction|].
  cbn [length] in LB. injection LB as LB.
  assert (Hes : length ss = length es) by exact (eq_trans Hs (eq_sym LB)).
  set (m := length (d1 :: ds)) in *.
  change (length (d0 :: d1 :: ds)) with (S m).
  unfold cyc_u. set (us := @upd_last Rsc (fun _ => c) (repeat (@s0 Rsc) m)).
  assert (Lus : length us = length es).
  { unfold us. rewrite length_upd_last, repeat_length. symmetry. exact LB. }
  pose proof (ldlt_solve_correct e es ss (- d0) us Hes Lus (pivots_pos_ok _ _ _ Hpp)) as Hsol.
  pose proof (@solve_tri_eq_rec Rsc e es ss (- d0) us Hes Lus) as Erec.
  pose proof (length_solve_rec es e ss (- d0) us Hes Lus) as Lz.
  rewrite <- Erec in Lz.
  change (T Rsc) with R in *.
  match goal with |- context [hd 0 ?t] => set (z := t) in * end.
  destruct z as [|z0 zs]; [cbn [length] in Lz; discriminate|].
  cbn [length] in Lz. injection Lz as Lz. cbn [hd].
  change (T Rsc) with R in *.
  assert (Hzne : zs <> []) by (intros ->; cbn [length] in Lz; unfold m in LB; cbn [length] in LB; lia).
  assert (Llast : last (z0 :: zs) 0 = last zs 0) by (destruct zs; [contradiction|reflexivity]).
  rewrite Llast. set (l := last zs 0) in *.
  intros Hzero.
  (* z^T B z two ways *)
  pose proof (qform_is_xAx e es ss z0 zs Hes Lz) as HxAx. rewrite Hsol in HxAx.
  assert (Hdot : dotR (z0 :: zs) (- d0 :: us) = - d0 * z0 + c * l).
  { cbn [dotR]. unfold us, l. replace m with (length zs) by (rewrite Lz; exact LB).
    change (@s0 Rsc) with 0. rewrite dotR_upd_last_repeat by exact Hzne. ring. }
  rewrite Hdot in HxAx.
  assert (Lzs : length zs = length (d1 :: ds)) by (rewrite Lz; exact LB).
  specialize (Hq z0 zs Lzs). fold l in Hq. rewrite HxAx in Hq.
  (* t = z0 - c / d0 * l = -1 *)
  assert (Ht : z0 - c / d0 * l = -1) by (replace (z0 - c / d0 * l) with (z0 + c / - d0 * l) by (field; lra); lra).
  rewrite Ht in Hq.
  assert (Hz : nonzero z0 zs).
  { destruct (Req_dec z0 0) as [E0|N0].
    - exists l. split; [right; unfold l; destruct zs as [|a zs']; [contradiction|]; apply (@exists_last _ (a :: zs')) in Hzne as [l' [a' El]];
                        rewrite El, last_last; apply in_or_app; right; left; reflexivity|].
      intros El. rewrite E0, El in Ht. lra.
    - exists z0. split; [left; reflexivity|exact N0]. }
  specialize (Hspd z0 zs Lzs Hz). fold l in Hspd.
  assert (Hz0 : - d0 * z0 + c * l = d0) by (replace (- d0 * z0 + c * l) with (- d0 * (z0 - c / d0 * l)) by (field; lra); rewrite Ht; ring).
  lra.
Qed.

(* every SPD cyclic system, of every dimension n >= 2: the Sherman-Morrison solve of the code (gamma = -a_00) returns the exact solution;
   both premises of cyclic_solve_correct are consequences of definiteness *)
Theorem spd_cyclic_solve_correct d0 ds ss c b0 bs : ds <> [] -> length ss = length ds -> length bs = length ds -> spd_cyc d0 ds ss c ->
  @matvec_cyc Rsc (d0 :: ds) ss c (@solve_cyc Rsc (d0 :: ds) ss c (b0 :: bs)) = b0 :: bs.
Proof.
  intros Hne Hs Hb Hspd. pose proof (spd_cyc_first_positive _ _ _ _ Hspd) as Hd.
  apply cyclic_solve_correct.
  - destruct ds; [contradiction|]. cbn [length]. lia.
  - exact Hs.
  - exact Hb.
  - lra.
  - pose proof (spd_cyc_modified_pivots_positive d0 ds ss c Hne Hs Hspd) as Hpp.
    destruct (@cyc_modified_diag Rsc (d0 :: ds) c) as [|e es]; [exact Hpp|]. apply pivots_pos_ok. exact Hpp.
  - apply spd_cyc_denominator_nonzero; assumption.
Qed.

(* [qcyc] is x^T (A x) with the dense cyclic reference product the correctness theorem is stated with (ties [spd_cyc] to matvec_cyc) *)
Lemma dotR_upd_last (f : R -> R) (a : R) : (forall v, f v = v + a) ->
  forall xs ys, length xs = length ys -> xs <> [] -> dotR xs (@upd_last Rsc f ys) = dotR xs ys + last xs 0 * a.
Proof.
  intros Hf. induction xs as [|x1 xs IH]; intros ys Hl Hne; [contradiction|].
  destruct ys as [|y1 ys]; [discriminate|]. cbn [length] in Hl. injection Hl as Hl.
  destruct xs as [|x2 xs].
  - destruct ys; [|discriminate]. cbn [upd_last dotR last]. rewrite Hf. ring.
  - destruct ys as [|y2 ys]; [discriminate|].
    change (@upd_last Rsc f (y1 :: y2 :: ys)) with (y1 :: @upd_last Rsc f (y2 :: ys)).
    change (dotR (x1 :: x2 :: xs) (y1 :: @upd_last Rsc f (y2 :: ys))) with (x1 * y1 + dotR (x2 :: xs) (@upd_last Rsc f (y2 :: ys))).
    rewrite IH by (try discriminate; exact Hl).
    change (dotR (x1 :: x2 :: xs) (y1 :: y2 :: ys)) with (x1 * y1 + dotR (x2 :: xs) (y2 :: ys)).
    change (last (x1 :: x2 :: xs) 0) with (last (x2 :: xs) 0). ring.
Qed.

Theorem qcyc_is_xAx d0 ds ss c x0 xs : ds <> [] -> length ss = length ds -> length xs = length ds ->
  qcyc d0 ds ss c x0 xs = dotR (x0 :: xs) (@matvec_cyc Rsc (d0 :: ds) ss c (x0 :: xs)).
Proof.
  intros Hne Hs Hx. unfold qcyc. rewrite (qform_is_xAx d0 ds ss x0 xs Hs Hx). unfold matvec_cyc.
  assert (Ly : length (@matvec_tri Rsc (d0 :: ds) ss (x0 :: xs)) = length (d0 :: ds)).
  { unfold matvec_tri. apply length_mvfrom; cbn [length]; f_equal; assumption. }
  destruct (@matvec_tri Rsc (d0 :: ds) ss (x0 :: xs)) as [|y0 ys]; [discriminate|].
  cbn [upd_first hd]. rsc.
  rewrite (dotR_upd_last _ (c * x0)); [|intros v; reflexivity|cbn [length] in *; injection Ly as Ly; f_equal; exact (eq_trans Hx (eq_sym Ly))|discriminate].
  assert (Llast : last (x0 :: xs) 0 = last xs 0).
  { destruct xs as [|x1 xs']; [destruct ds; [contradiction|discriminate]|reflexivity]. }
  rewrite Llast. cbn [dotR]. ring.
Qed.

(* the premise is satisfiable: a 3x3 cyclic matrix that is positive definite but NOT diagonally dominant in row 0 (2 < 1 + 1.2) *)
Example spd_cyc_example : spd_cyc 2 [2; 2] [1; 1] (12/10) /\ [2; 2] <> @nil R.
Proof.
  split; [|discriminate]. intros x0 xs Hl [v [Hin Hv]].
  destruct xs as [|x1 [|x2 [|x3 xs]]]; try discriminate. unfold qcyc. cbn [qform last].
  replace (2 * x0 * x0 + (2 * 1 * x0 * x1 + (2 * x1 * x1 + (2 * 1 * x1 * x2 + (2 * x2 * x2 + 0)))) + 2 * (12 / 10) * x0 * x2)
    with (2 * ((x0 + x1 / 2 + 3 * x2 / 5) * (x0 + x1 / 2 + 3 * x2 / 5)) + 3 / 2 * ((x1 + 4 * x2 / 15) * (x1 + 4 * x2 / 15)) + 88 / 75 * (x2 * x2)) by field.
  pose proof (Rle_0_sqr (x0 + x1 / 2 + 3 * x2 / 5)) as Ha. pose proof (Rle_0_sqr (x1 + 4 * x2 / 15)) as Hb. pose proof (Rle_0_sqr x2) as Hc.
  unfold Rsqr in *.
  destruct (Req_dec x2 0) as [E2|N2].
  - subst x2. destruct (Req_dec x1 0) as [E1|N1].
    + subst x1. assert (N0 : x0 <> 0) by (cbn [In] in Hin; destruct Hin as [<-|[<-|[<-|[]]]]; auto; lra).
      assert (0 < x0 * x0) by nra. nra.
    + assert (0 < (x1 + 4 * 0 / 15) * (x1 + 4 * 0 / 15)) by nra. nra.
  - assert (0 < x2 * x2) by nra. nra.
Qed.
