(* InputFnProofs.v -- C19: the symbolic derivative is the derivative (by induction over the expression, for
   every expression the translator can produce), and what the reified elliptic operator means. *)
From Coq Require Import Reals ZArith List Lra Lia.
From Coquelicot Require Import Coquelicot.
From GMGP Require Import InputFnDefs.
Local Open Scope R_scope.

(* ---- tanh ---- *)
Lemma exp_opp_mul x : exp x * exp (- x) = 1.
Proof. rewrite <- exp_plus, Rplus_opp_r. apply exp_0. Qed.

Lemma cosh_pos x : 0 < cosh x.
Proof. unfold cosh. pose proof (exp_pos x). pose proof (exp_pos (- x)). lra. Qed.

Lemma cosh2_sinh2 x : cosh x * cosh x - sinh x * sinh x = 1.
Proof. unfold cosh, sinh. pose proof (exp_opp_mul x) as H. nra. Qed.

Lemma is_derive_tanh x : is_derive tanh x (1 - tanh x ^ 2).
Proof.
  unfold tanh. evar_last.
  - apply (is_derive_div sinh cosh x (cosh x) (sinh x)).
    + apply is_derive_Reals. apply derivable_pt_lim_sinh.
    + apply is_derive_Reals. apply derivable_pt_lim_cosh.
    + pose proof (cosh_pos x). lra.
  - pose proof (cosh_pos x) as Hc. pose proof (cosh2_sinh2 x) as H.
    field_simplify_eq; [|lra]. nra.
Qed.

(* ---- correctness of D ---- *)
Lemma upd_same env i x : upd env i x i = x.
Proof. unfold upd. rewrite Nat.eqb_refl. reflexivity. Qed.

Theorem D_correct : forall (e : ex) (env : nat -> R) (i : nat) (t : R),
  defined (upd env i t) e ->
  is_derive (fun x => eval (upd env i x) e) t (eval (upd env i t) (D i e)).
Proof.
  induction e as [j|n d| |a IHa b IHb|a IHa b IHb|a IHa b IHb|a IHa b IHb|a IHa|a IHa n|a IHa|a IHa|a IHa|a IHa|a IHa|a IHa];
    intros env i t Hd; cbn [eval D defined] in *.
  - unfold upd. destruct (Nat.eqb i j) eqn:E; cbn [eval E0 E1].
    + evar_last; [apply (is_derive_id t)|]. unfold one; cbn. field.
    + evar_last; [apply is_derive_const|]. unfold zero; cbn. field.
  - evar_last; [apply is_derive_const|]. unfold zero; cbn. field.
  - evar_last; [apply is_derive_const|]. unfold zero; cbn. field.
  - destruct Hd as [Ha Hb]. apply (is_derive_plus (fun x => eval (upd env i x) a) (fun x => eval (upd env i x) b)); auto.
  - destruct Hd as [Ha Hb]. apply (is_derive_minus (fun x => eval (upd env i x) a) (fun x => eval (upd env i x) b)); auto.
  - destruct Hd as [Ha Hb].
    apply (Derive.is_derive_mult (fun x => eval (upd env i x) a) (fun x => eval (upd env i x) b)); auto.
  - destruct Hd as [Ha [Hb Hnz]].
    evar_last; [apply (is_derive_div (fun x => eval (upd env i x) a) (fun x => eval (upd env i x) b)); [apply IHa; exact Ha|apply IHb; exact Hb|exact Hnz]|].
    reflexivity.
  - apply (is_derive_opp (fun x => eval (upd env i x) a)). auto.
  - evar_last; [apply (is_derive_pow (fun x => eval (upd env i x) a) n t); apply IHa; exact Hd|].
    rewrite INR_IZR_INZ. field.
  - evar_last; [apply (is_derive_comp sin (fun x => eval (upd env i x) a)); [apply is_derive_sin|apply IHa; exact Hd]|].
    reflexivity.
  - evar_last; [apply (is_derive_comp cos (fun x => eval (upd env i x) a)); [apply is_derive_cos|apply IHa; exact Hd]|].
    reflexivity.
  - evar_last; [apply (is_derive_comp exp (fun x => eval (upd env i x) a)); [apply is_derive_exp|apply IHa; exact Hd]|].
    reflexivity.
  - evar_last; [apply (is_derive_comp tanh (fun x => eval (upd env i x) a)); [apply is_derive_tanh|apply IHa; exact Hd]|].
    cbn [eval E1]. unfold scal; cbn. unfold mult; cbn. field.
  - destruct Hd as [Ha Hpos].
    evar_last; [apply (is_derive_sqrt (fun x => eval (upd env i x) a)); [apply IHa; exact Ha|exact Hpos]|].
    cbn [eval E2]. field. apply Rgt_not_eq. apply sqrt_lt_R0. exact Hpos.
  - evar_last; [apply (is_derive_comp atan (fun x => eval (upd env i x) a)); [apply is_derive_atan|apply IHa; exact Hd]|].
    cbn [eval E1]. unfold scal; cbn. unfold mult; cbn. rewrite Rsqr_pow2. field.
    pose proof (pow2_ge_0 (eval (upd env i t) a)). lra.
Qed.

(* partial derivatives at a point of the environment itself *)
Lemma upd_id env i : forall j, upd env i (env i) j = env j.
Proof. intros j. unfold upd. destruct (Nat.eqb i j) eqn:E; [apply Nat.eqb_eq in E; subst; reflexivity|reflexivity]. Qed.

Lemma eval_ext e : forall env1 env2, (forall j, env1 j = env2 j) -> eval env1 e = eval env2 e.
Proof. induction e; intros env1 env2 H; cbn [eval]; rewrite ?(IHe env1 env2 H), ?(IHe1 env1 env2 H), ?(IHe2 env1 env2 H); auto. Qed.

Lemma defined_ext e : forall env1 env2, (forall j, env1 j = env2 j) -> defined env1 e -> defined env2 e.
Proof.
  induction e; intros env1 env2 H Hd; cbn [defined] in *; auto;
    try (destruct Hd as [Ha Hb]; split; [eapply IHe1; eauto|eapply IHe2; eauto]); try (eapply IHe; eauto).
  - destruct Hd as [Ha [Hb Hnz]]. split; [eapply IHe1; eauto|split; [eapply IHe2; eauto|]].
    rewrite <- (eval_ext e2 env1 env2 H). exact Hnz.
  - destruct Hd as [Ha Hp]. split; [eapply IHe; eauto|]. rewrite <- (eval_ext e env1 env2 H). exact Hp.
Qed.

Theorem D_is_partial_derivative e env i : defined env e ->
  is_derive (fun x => eval (upd env i x) e) (env i) (eval env (D i e)).
Proof.
  intros Hd. rewrite <- (eval_ext (D i e) (upd env i (env i)) env (upd_id env i)).
  apply D_correct. apply (defined_ext e env); [intros j; symmetry; apply upd_id|exact Hd].
Qed.

(* ---- what [pde] denotes: with the true partial derivatives u_r, u_t of u and the true Jacobian of the mapping,
   the fluxes are differentiable and  pde = -(d_r flux_r + d_t flux_t)/det + beta u ---- *)
Theorem pde_meaning g alpha beta u env :
  defined env (flux_r g alpha u) -> defined env (flux_t g alpha u) ->
  is_derive (fun x => eval (upd env 0 x) (flux_r g alpha u)) (env 0%nat) (eval env (D 0 (flux_r g alpha u))) /\
  is_derive (fun x => eval (upd env 1 x) (flux_t g alpha u)) (env 1%nat) (eval env (D 1 (flux_t g alpha u))) /\
  eval env (pde g alpha beta u) =
    - ((eval env (D 0 (flux_r g alpha u)) + eval env (D 1 (flux_t g alpha u))) / eval env (gdet g)) + eval env beta * eval env u.
Proof.
  intros H1 H2. split; [apply D_is_partial_derivative; exact H1|split; [apply D_is_partial_derivative; exact H2|reflexivity]].
Qed.
