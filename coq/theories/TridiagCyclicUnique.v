(* TridiagCyclicUnique.v -- C14 / C06: an SPD CYCLIC tridiagonal system (the circle-line blocks) has at most one solution, every n >= 2. *)
From Coq Require Import List ZArith Bool Reals Lra Lia.
From GMGP Require Import Scalar ScalarR TridiagDefs TridiagProofs TridiagCyclic TridiagSPD TridiagCyclicSPD TridiagUnique.
Import ListNotations.
Local Open Scope R_scope.

Lemma upd_last_vsubR (p q : R) : forall a b : list R, length a = length b ->
  @upd_last Rsc (fun v => v + (p - q)) (vsubR a b) = vsubR (@upd_last Rsc (fun v => v + p) a) (@upd_last Rsc (fun v => v + q) b).
Proof.
  induction a as [|a0 a IH]; intros b Hl; [reflexivity|]. destruct b as [|b0 b]; [discriminate|].
  cbn [length] in Hl. injection Hl as Hl. destruct a as [|a1 a].
  - destruct b; [|discriminate]. cbn [vsubR upd_last]. f_equal. ring.
  - destruct b as [|b1 b]; [discriminate|].
    change (vsubR (a0 :: a1 :: a) (b0 :: b1 :: b)) with ((a0 - b0) :: vsubR (a1 :: a) (b1 :: b)).
    change (vsubR (a1 :: a) (b1 :: b)) with ((a1 - b1) :: vsubR a b) at 1.
    change (@upd_last Rsc ?f ((a0 - b0) :: (a1 - b1) :: vsubR a b)) with ((a0 - b0) :: @upd_last Rsc f ((a1 - b1) :: vsubR a b)).
    change ((a1 - b1) :: vsubR a b) with (vsubR (a1 :: a) (b1 :: b)).
    rewrite IH by exact Hl.
    change (@upd_last Rsc ?f (a0 :: a1 :: a)) with (a0 :: @upd_last Rsc f (a1 :: a)).
    change (@upd_last Rsc ?f (b0 :: b1 :: b)) with (b0 :: @upd_last Rsc f (b1 :: b)).
    destruct (@upd_last Rsc (fun v => v + p) (a1 :: a)) eqn:Ea; destruct (@upd_last Rsc (fun v => v + q) (b1 :: b)) eqn:Eb; reflexivity.
Qed.

Lemma last_vsubR : forall a b : list R, length a = length b -> last (vsubR a b) 0 = last a 0 - last b 0.
Proof.
  induction a as [|a0 a IH]; intros b Hl.
  - destruct b; [cbn; ring|discriminate].
  - destruct b as [|b0 b]; [discriminate|]. cbn [length] in Hl. injection Hl as Hl. destruct a as [|a1 a].
    + destruct b; [reflexivity|discriminate].
    + destruct b as [|b1 b]; [discriminate|].
      change (last (vsubR (a0 :: a1 :: a) (b0 :: b1 :: b)) 0) with (last (vsubR (a1 :: a) (b1 :: b)) 0).
      rewrite IH by exact Hl. reflexivity.
Qed.

Lemma matvec_cyc_sub d0 ds ss c x0 xs y0 ys : length ss = length ds -> length xs = length ds -> length ys = length ds ->
  @matvec_cyc Rsc (d0 :: ds) ss c (vsubR (x0 :: xs) (y0 :: ys))
  = vsubR (@matvec_cyc Rsc (d0 :: ds) ss c (x0 :: xs)) (@matvec_cyc Rsc (d0 :: ds) ss c (y0 :: ys)).
Proof.
  intros Hs Hx Hy. unfold matvec_cyc, matvec_tri. change (@s0 Rsc) with (0 : R).
  replace (0 : R) with (0 - 0) at 2 by ring.
  rewrite mvfrom_sub by (cbn [length]; f_equal; assumption).
  assert (Lx : length (@matvec_tri_from Rsc 0 0 (d0 :: ds) ss (x0 :: xs)) = length (d0 :: ds)) by (apply length_mvfrom; cbn [length]; f_equal; assumption).
  assert (Ly : length (@matvec_tri_from Rsc 0 0 (d0 :: ds) ss (y0 :: ys)) = length (d0 :: ds)) by (apply length_mvfrom; cbn [length]; f_equal; assumption).
  rewrite last_vsubR by (cbn [length]; f_equal; exact (eq_trans Hx (eq_sym Hy))).
  destruct (@matvec_tri_from Rsc 0 0 (d0 :: ds) ss (x0 :: xs)) as [|a0 a]; [discriminate|].
  destruct (@matvec_tri_from Rsc 0 0 (d0 :: ds) ss (y0 :: ys)) as [|b0 b]; [discriminate|].
  cbn [vsubR upd_first hd]. rsc.
  replace (c * (x0 - y0)) with (c * x0 - c * y0) by ring.
  replace (a0 - b0 + c * (last (x0 :: xs) 0 - last (y0 :: ys) 0)) with ((a0 + c * last (x0 :: xs) 0) - (b0 + c * last (y0 :: ys) 0)) by ring.
  change (((a0 + c * last (x0 :: xs) 0) - (b0 + c * last (y0 :: ys) 0)) :: vsubR a b)
    with (vsubR ((a0 + c * last (x0 :: xs) 0) :: a) ((b0 + c * last (y0 :: ys) 0) :: b)).
  apply upd_last_vsubR. cbn [length] in *. congruence.
Qed.

Theorem spd_cyc_solution_unique d0 ds ss c x0 xs y0 ys : ds <> [] ->
  length ss = length ds -> length xs = length ds -> length ys = length ds -> spd_cyc d0 ds ss c ->
  @matvec_cyc Rsc (d0 :: ds) ss c (x0 :: xs) = @matvec_cyc Rsc (d0 :: ds) ss c (y0 :: ys) -> x0 :: xs = y0 :: ys.
Proof.
  intros Hne Hs Hx Hy Hspd HA.
  apply vsubR_zero_eq; [cbn [length]; f_equal; exact (eq_trans Hx (eq_sym Hy))|]. intros Hnz.
  change (vsubR (x0 :: xs) (y0 :: ys)) with ((x0 - y0) :: vsubR xs ys) in Hnz.
  assert (Lw : length (vsubR xs ys) = length ds) by (rewrite length_vsubR; [exact Hx|exact (eq_trans Hx (eq_sym Hy))]).
  specialize (Hspd (x0 - y0) (vsubR xs ys) Lw Hnz).
  rewrite (qcyc_is_xAx d0 ds ss c _ _ Hne Hs Lw) in Hspd.
  change ((x0 - y0) :: vsubR xs ys) with (vsubR (x0 :: xs) (y0 :: ys)) in Hspd.
  rewrite matvec_cyc_sub in Hspd by assumption.
  change (T Rsc) with R in *. rewrite HA in Hspd.
  rewrite dotR_vsubR_self in Hspd; [lra|].
  rewrite length_vsubR by (cbn [length]; f_equal; exact (eq_trans Hx (eq_sym Hy))).
  unfold matvec_cyc. rewrite length_upd_last, length_upd_first. unfold matvec_tri.
  rewrite length_mvfrom by (cbn [length]; f_equal; assumption). cbn [length]. f_equal. exact Hx.
Qed.
