(* Properties_C16.v -- statements only.  C16 (PARTIAL, see DESIGN.md section 5/C16):
   proved here: the row container has finite-map semantics, so the matrix the solver
   factorises does not depend on the storage order inside a row nor on explicitly stored zeros.
   NOT proved: (I+L)U = A and A (solve b) = b for the row-by-row hashed elimination; that part
   is covered by the exact-rational correspondence (K-solve) only.
   (* FULL: forall A b, pivots_nonzero A -> csr_apply A (lu_solve (lu_factor A) b) = b *) *)
From Coq Require Import List ZArith Bool Permutation.
From GMGP Require Import Scalar SparseLUDefs SparseLUProofs.
Import ListNotations.

Theorem C16_row_map_overwrite : forall (S : Sc) j (v : S) r, get0 j (set_entry j v r) = v.
Proof. exact @get0_set_same. Qed.
Theorem C16_row_map_frame : forall (S : Sc) j k (v : S) r, j <> k -> get0 k (set_entry j v r) = get0 k r.
Proof. exact @get0_set_other. Qed.
Theorem C16_load_last_wins : forall (S : Sc) j (es : list (Z * S)), lookup j (load es) = last_value j es None.
Proof. exact @load_lookup. Qed.
Theorem C16_storage_order_irrelevant_partial : forall (S : Sc) j (es es' : list (Z * S)),
  NoDup (map fst es) -> Permutation es es' -> get0 j (load es) = get0 j (load es').
Proof. exact @storage_order_irrelevant. Qed.
Theorem C16_stored_zero_irrelevant_partial : forall (S : Sc) j k (es : list (Z * S)),
  ~ In k (map fst es) -> get0 j (load (es ++ [(k, s0)])) = get0 j (load es).
Proof. exact @stored_zero_irrelevant. Qed.

Print Assumptions C16_storage_order_irrelevant_partial.
Print Assumptions C16_stored_zero_irrelevant_partial.
