(* Properties_C16.v -- statements only.  C16 (PARTIAL, see DESIGN.md section 5/C16):
   proved here: the row container has finite-map semantics, so the matrix the solver
   factorises does not depend on the storage order inside a row nor on explicitly stored zeros.
   Proved as well (SparseLUElim.v): every elimination step is the dense row operation in ANY arithmetic (fill-in is
   created on demand, storage order irrelevant), and with non-vanishing pivots the stored factors satisfy
   A = (I + L) U row by row, for every matrix size (exact arithmetic).
   The FULL statement is proved too (SparseLUSolve.v): with non-vanishing pivots, A (solve b) = b for every matrix size.
   What remains outside: floating-point rounding (K-solve measures a row-wise backward error) and finding F4. *)
From Coq Require Import List ZArith Bool Permutation Reals.
From GMGP Require Import Scalar ScalarR SparseLUDefs SparseLUProofs SparseLUElim SparseLUSolve.
Import ListNotations.

Theorem C16_row_map_overwrite : forall (S : Sc) j (v : S) r, get0 j (set_entry j v r) = v.
Proof. exact @get0_set_same. Qed.
Theorem C16_row_map_frame : forall (S : Sc) j k (v : S) r, j <> k -> get0 k (set_entry j v r) = get0 k r.
Proof. exact @get0_set_other. Qed.
Theorem C16_load_last_wins : forall (S : Sc) j (es : list (Z * S)), lookup j (load es) = last_value j es None.
Proof. exact @load_lookup. Qed.
Theorem C16_storage_order_irrelevant_partial : forall (S : Sc) j (es es' : list (Z * S)),
  NoDup (map fst es) -> Permutation es es' -> get0 j (load es) = get0 j (load es').
Proof. exact @storage_order_irrelevant. Qed.
Theorem C16_stored_zero_irrelevant_partial : forall (S : Sc) j k (es : list (Z * S)),
  ~ In k (map fst es) -> get0 j (load (es ++ [(k, s0)])) = get0 j (load es).
Proof. exact @stored_zero_irrelevant. Qed.

Print Assumptions C16_storage_order_irrelevant_partial.
Print Assumptions C16_stored_zero_irrelevant_partial.

(* ---- the factorisation ---- *)
(* one elimination step = the dense row operation, entry by entry, in ANY arithmetic (so also for doubles), whatever is stored *)
Theorem C16_elimination_step_is_row_operation : forall (S : Sc) j (Uj r : @row S), NoDup (map fst Uj) ->
  forall k, get0 k (elim_step j Uj r) =
    match lookup j r with
    | None => get0 k r
    | Some a =>
        let m := sdiv a (get0 j Uj) in
        if Z.eqb k j then m
        else match lookup k Uj with
             | Some u => if Z.ltb j k then ssub (get0 k r) (smul m u) else get0 k r
             | None => get0 k r
             end
    end.
Proof. exact @elim_step_entries. Qed.

(* with non-vanishing pivots (on the algorithm's own intermediate values) the stored factors satisfy
   row_i(A) = sum_{t<i} L_it row_t(U) + row_i(U), U is upper triangular with unique columns and non-zero diagonal *)
Theorem C16_lu_identity : forall rows : list (list (Z * R)), pivots_nonzero 0 rows [] ->
  exists Ls Us, @lu_factor Rsc rows = (Ls, Us) /\ length Ls = length rows /\ length Us = length rows /\ U_ok 0 Us /\
    forall n a, nth_error rows n = Some a ->
      exists Li Ui, nth_error Ls n = Some Li /\ nth_error Us n = Some Ui /\ row_identity a Li Ui (firstn n Us).
Proof. exact lu_factor_identity. Qed.

(* the solve: for every n x n matrix given as CSR rows in any storage order (columns inside the matrix), with non-vanishing
   pivots, the vector returned by solveInPlace satisfies A x = b exactly (exact arithmetic) *)
Theorem C16_solve_correct : forall (rows : list (list (Z * R))) (b : list R),
  let n := length rows in
  length b = n ->
  (forall a, In a rows -> forall e, In e a -> (0 <= fst e < Z.of_nat n)%Z) ->
  pivots_nonzero 0 rows [] ->
  @csr_apply Rsc rows (@lu_solve Rsc (@lu_factor Rsc rows) b) = b.
Proof. exact lu_solve_correct. Qed.

Print Assumptions C16_elimination_step_is_row_operation.
Print Assumptions C16_solve_correct.
Print Assumptions C16_lu_identity.
