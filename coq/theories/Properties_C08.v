(* Properties_C08.v -- statements only.  C08: grid transfer.
   Rows are in (i_r, i_theta) coordinates (the storage permutation is C17).  Grid premises:
   nr = 2M+1 (M >= 1), ntheta = 2 Mc with Mc >= 2 (the coarse grid needs antipodal partners, so
   every admissible pair has ntheta divisible by 4), positive spacings.
   F3: "reproduces functions linear in r on EVERY pair" is refuted (C08_P_linear_refuted); it holds
   exactly where the fine node is the midpoint of its coarse neighbours (C08_P_linear_iff_midpoint). *)
From Coq Require Import List ZArith Bool Reals.
From GMGP Require Import Scalar ScalarR InterpDefs InterpProofs InterpProofs2.
Import ListNotations.
From GMGP Require Import StencilTie InterpTie.
From GMGPGen Require Import StencilGen.
Local Open Scope R_scope.

Theorem C08_R_is_P_transpose : forall nr nth h k M Mc,
  (1 <= M)%Z -> nr = (2 * M + 1)%Z -> (2 <= Mc)%Z -> nth = (2 * Mc)%Z ->
  forall i j ic jc, (0 <= i < nr)%Z -> (0 <= j < nth)%Z -> (0 <= ic < nrc nr)%Z -> (0 <= jc < nthc nth)%Z ->
  @coef2 Rsc (@R_row Rsc nr nth h k ic jc) i j = @coef2 Rsc (@P_row Rsc nth h k i j) ic jc.
Proof. exact R_is_P_transpose. Qed.

Theorem C08_Rex_is_Pex_transpose : forall nr nth M Mc,
  (1 <= M)%Z -> nr = (2 * M + 1)%Z -> (2 <= Mc)%Z -> nth = (2 * Mc)%Z ->
  forall i j ic jc, (0 <= i < nr)%Z -> (0 <= j < nth)%Z -> (0 <= ic < nrc nr)%Z -> (0 <= jc < nthc nth)%Z ->
  @coef2 Rsc (@Rex_row Rsc nr nth ic jc) i j = @coef2 Rsc (@Pex_row Rsc nth i j) ic jc.
Proof. intros nr nth. exact (Rex_is_Pex_transpose nr nth (fun _ => 0) (fun _ => 0)). Qed.

Theorem C08_P_rows_sum_to_one : forall nth h k, (forall x, 0 < h x) -> (forall x, 0 < k x) ->
  forall i j, @rowsum2 Rsc (@P_row Rsc nth h k i j) = 1.
Proof. exact P_rows_sum_to_one. Qed.
Theorem C08_P_weights_nonneg : forall nth h k, (forall x, 0 < h x) -> (forall x, 0 < k x) ->
  forall i j, nonneg2 (@P_row Rsc nth h k i j).
Proof. exact P_weights_nonneg. Qed.

Theorem C08_Inj_P_id : forall nth h k, (forall x, 0 < h x) -> (forall x, 0 < k x) ->
  forall (x : Z -> Z -> R) ic jc, (0 <= ic)%Z -> (0 <= jc)%Z ->
  @apply_row2 Rsc (@P_row Rsc nth h k (2 * ic) (2 * jc)) x = x ic jc.
Proof. exact Inj_P_id. Qed.
Theorem C08_Inj_Pex_id : forall nth (x : Z -> Z -> R) ic jc, (0 <= ic)%Z -> (0 <= jc)%Z ->
  @apply_row2 Rsc (@Pex_row Rsc nth (2 * ic) (2 * jc)) x = x ic jc.
Proof. intros nth. exact (Inj_Pex_id nth (fun _ => 1) (fun _ => 1) (fun _ => Rlt_0_1) (fun _ => Rlt_0_1)). Qed.

Theorem C08_P_linear_midpoint : forall rad, (forall i, rad i < rad (i + 1)%Z) -> forall m, (0 <= m)%Z ->
  rad (2 * m + 1)%Z - rad (2 * m)%Z = rad (2 * m + 2)%Z - rad (2 * m + 1)%Z ->
  @apply_row1 Rsc (@Pr_row Rsc (fun i => rad (i + 1)%Z - rad i) (2 * m + 1)) (fun ic => rad (2 * ic)%Z) = rad (2 * m + 1)%Z.
Proof. exact Pr_linear_midpoint. Qed.
Theorem C08_P_linear_iff_midpoint : forall rad, (forall i, rad i < rad (i + 1)%Z) -> forall m, (0 <= m)%Z ->
  (@apply_row1 Rsc (@Pr_row Rsc (fun i => rad (i + 1)%Z - rad i) (2 * m + 1)) (fun ic => rad (2 * ic)%Z) = rad (2 * m + 1)%Z
   <-> rad (2 * m + 1)%Z - rad (2 * m)%Z = rad (2 * m + 2)%Z - rad (2 * m + 1)%Z).
Proof. exact Pr_linear_iff_midpoint. Qed.
(* the full statement is FALSE of the faithful model: finding F3 *)
Theorem C08_P_linear_refuted :
  exists (rad : Z -> R), (forall i, (rad i < rad (i + 1)%Z)%R) /\
    @apply_row1 Rsc (@Pr_row Rsc (fun i => (rad (i + 1)%Z - rad i)%R) 1) (fun ic => rad (2 * ic)%Z) <> rad 1%Z.
Proof. exact P_linear_refuted. Qed.

(* ---- the optimised prolongation as translator T3 regenerates it from the macro FINE_NODE_PROLONGATION: for every fine node exactly
   one write, result[(i,j)] := (row (i,j) of the model P) . x -- so the theorems above (R = P^T, convexity, P = P0, linear exactness)
   are statements about what src/Interpolation/prolongation.cpp says now (even ntheta, positive spacings). ---- *)
Theorem C08_generated_prolongation_is_model :
  forall (nr nth : Z) (h k : Z -> R), (2 <= nth)%Z -> Z.even nth = true -> (forall x, 0 < h x)%R -> (forall x, 0 < k x)%R ->
  forall (x : Z -> Z -> R) (i j : Z), (0 <= i < nr)%Z -> (0 <= j < nth)%Z ->
  @gen_prolongation Rsc nth (Z.quot nth 2) h k x i j =
  [ (((i, j), W_result_WAssign), @apply_row2 Rsc (@P_row Rsc nth h k i j) x) ].
Proof. exact gen_prolongation_is_model. Qed.

(* the same for the extrapolated prolongation (macro FINE_NODE_EXTRAPOLATED_PROLONGATION) and the model row Pex_row *)
Theorem C08_generated_extrapolated_prolongation_is_model :
  forall (nr nth : Z) (h k : Z -> R), (2 <= nth)%Z -> Z.even nth = true -> (forall x, 0 < h x)%R -> (forall x, 0 < k x)%R ->
  forall (x : Z -> Z -> R) (i j : Z), (0 <= i < nr)%Z -> (0 <= j < nth)%Z ->
  @gen_extrapolated_prolongation Rsc nth (Z.quot nth 2) x i j =
  [ (((i, j), W_result_WAssign), @apply_row2 Rsc (@Pex_row Rsc nth i j) x) ].
Proof. exact gen_extrapolated_prolongation_is_model. Qed.

Print Assumptions C08_R_is_P_transpose.
Print Assumptions C08_Rex_is_Pex_transpose.
Print Assumptions C08_P_linear_refuted.
