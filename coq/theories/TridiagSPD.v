(* TridiagSPD.v -- C14: every symmetric positive definite tridiagonal matrix has positive LDL^T pivots, for every dimension
   (hence, with ldlt_solve_correct, the in-place solve returns the exact solution of every SPD system).
   SPD is stated through the quadratic form  x^T A x = sum_i d_i x_i^2 + 2 sum_i s_i x_i x_{i+1}.
   Proof: induction over the dimension with the Schur complement: the first pivot is the form at e_1; eliminating x_0
   (x_0 := - s y_1 / d) turns the form of A into the form of the reduced matrix, whose first diagonal entry is the next pivot. *)
From Coq Require Import List ZArith Bool Reals Lra Lia.
From GMGP Require Import Scalar ScalarR TridiagDefs TridiagProofs.
Import ListNotations.
Local Open Scope R_scope.

(* x^T A x for A = tridiag(diagonal d :: ds, sub-diagonal ss) and x = x0 :: xs *)
Fixpoint qform (d : R) (ds ss : list R) (x0 : R) (xs : list R) : R :=
  d * x0 * x0 +
  match ds, ss, xs with
  | d1 :: ds', s :: ss', x1 :: xs' => 2 * s * x0 * x1 + qform d1 ds' ss' x1 xs'
  | _, _, _ => 0
  end.

Definition nonzero (x0 : R) (xs : list R) : Prop := exists v, In v (x0 :: xs) /\ v <> 0.

Definition spd (d : R) (ds ss : list R) : Prop :=
  forall x0 xs, length xs = length ds -> nonzero x0 xs -> 0 < qform d ds ss x0 xs.

Lemma qform_shift d e ds ss x0 xs : qform (d + e) ds ss x0 xs = e * x0 * x0 + qform d ds ss x0 xs.
Proof. destruct ds, ss, xs; cbn [qform]; ring. Qed.

Lemma qform_zero_tail d ds ss x0 : qform d ds ss x0 (repeat 0 (length ds)) = d * x0 * x0.
Proof.
  revert d ss x0. induction ds as [|d1 ds IH]; intros d ss x0; cbn [qform repeat length]; [ring|].
  destruct ss as [|s ss]; [ring|]. rewrite IH. ring.
Qed.

Theorem spd_pivots_positive : forall ds d ss, length ss = length ds -> spd d ds ss -> pivots_pos d ds ss.
Proof.
  induction ds as [|d1 ds IH]; intros d ss Hlen Hspd.
  - (* 1 x 1 *)
    cbn [pivots_pos]. split; [|exact I].
    specialize (Hspd 1 [] eq_refl). cbn [qform] in Hspd.
    assert (nonzero 1 []) by (exists 1; split; [left; reflexivity|lra]).
    specialize (Hspd H). lra.
  - destruct ss as [|s ss]; [discriminate|]. cbn [length] in Hlen. injection Hlen as Hlen.
    assert (Hd : 0 < d).
    { specialize (Hspd 1 (repeat 0 (length (d1 :: ds)))).
      rewrite qform_zero_tail in Hspd. rewrite repeat_length in Hspd.
      assert (nonzero 1 (repeat 0 (length (d1 :: ds)))) by (exists 1; split; [left; reflexivity|lra]).
      specialize (Hspd eq_refl H). lra. }
    cbn [pivots_pos]. split; [exact Hd|].
    apply IH; [exact Hlen|].
    (* the reduced matrix is SPD: eliminate x0 *)
    intros y1 ys Hys Hnz.
    specialize (Hspd (- s * y1 / d) (y1 :: ys)).
    assert (Hl : length (y1 :: ys) = length (d1 :: ds)) by (cbn [length]; rewrite Hys; reflexivity).
    assert (Hn : nonzero (- s * y1 / d) (y1 :: ys)).
    { destruct Hnz as [v [Hin Hv]]. exists v. split; [right; exact Hin|exact Hv]. }
    specialize (Hspd Hl Hn). cbn [qform] in Hspd.
    replace (d1 - s / d * (s / d) * d) with (d1 + - (s * s / d)) by (field; lra).
    rewrite qform_shift.
    replace (d * (- s * y1 / d) * (- s * y1 / d) + (2 * s * (- s * y1 / d) * y1 + qform d1 ds ss y1 ys))
      with (- (s * s / d) * y1 * y1 + qform d1 ds ss y1 ys) in Hspd by (field; lra).
    exact Hspd.
Qed.

(* consequently the in-place LDL^T solve returns the exact solution of every SPD tridiagonal system *)
Theorem spd_solve_correct : forall d ds ss b0 bs,
  length ss = length ds -> length bs = length ds -> spd d ds ss ->
  @matvec_tri Rsc (d :: ds) ss (@solve_tri Rsc (d :: ds) ss (b0 :: bs)) = b0 :: bs.
Proof.
  intros d ds ss b0 bs H1 H2 Hs. apply ldlt_solve_correct; try assumption.
  apply pivots_pos_ok. apply spd_pivots_positive; assumption.
Qed.

(* the quadratic form is x^T (A x) with the dense reference product the correctness theorem uses (ties [spd] to matvec_tri) *)
Fixpoint dotR (a b : list R) : R := match a, b with x :: a', y :: b' => x * y + dotR a' b' | _, _ => 0 end.

Lemma qform_is_xAx_from : forall ds d ss x0 xs sp xp, length ss = length ds -> length xs = length ds ->
  dotR (x0 :: xs) (@matvec_tri_from Rsc sp xp (d :: ds) ss (x0 :: xs)) = sp * xp * x0 + qform d ds ss x0 xs.
Proof.
  induction ds as [|d1 ds IH]; intros d ss x0 xs sp xp Hs Hx.
  - destruct ss; [|discriminate]. destruct xs; [|discriminate]. cbn. ring.
  - destruct ss as [|s ss]; [discriminate|]. destruct xs as [|x1 xs]; [discriminate|].
    cbn [length] in Hs, Hx. injection Hs as Hs. injection Hx as Hx.
    change (@matvec_tri_from Rsc sp xp (d :: d1 :: ds) (s :: ss) (x0 :: x1 :: xs))
      with ((sp * xp + d * x0 + s * x1) :: @matvec_tri_from Rsc s x0 (d1 :: ds) ss (x1 :: xs)).
    pose proof (IH d1 ss x1 xs s x0 Hs Hx) as E. cbn [dotR qform] in E |- *. rewrite E. ring.
Qed.

Theorem qform_is_xAx d ds ss x0 xs : length ss = length ds -> length xs = length ds ->
  qform d ds ss x0 xs = dotR (x0 :: xs) (@matvec_tri Rsc (d :: ds) ss (x0 :: xs)).
Proof.
  intros Hs Hx. unfold matvec_tri. rewrite (qform_is_xAx_from ds d ss x0 xs _ _ Hs Hx). cbn [s0 Rsc]. ring.
Qed.

(* not vacuous: [[1, 1], [1, 2]] is SPD but not strictly diagonally dominant *)
Example spd_not_dominant_2x2 : spd 1 [2] [1] /\ ~ (Rabs 1 < 1).
Proof.
  split; [|intros H; rewrite Rabs_R1 in H; lra].
  intros x0 xs Hl [v [Hin Hv]]. destruct xs as [|x1 [|? ?]]; try discriminate. cbn [qform].
  replace (1 * x0 * x0 + (2 * 1 * x0 * x1 + (2 * x1 * x1 + 0))) with ((x0 + x1) * (x0 + x1) + x1 * x1) by ring.
  pose proof (Rle_0_sqr (x0 + x1)) as A. pose proof (Rle_0_sqr x1) as B. unfold Rsqr in A, B.
  destruct Hin as [<-|[<-|[]]].
  - destruct (Req_dec x1 0) as [E|E].
    + subst x1. pose proof (Rsqr_pos_lt x0 Hv) as P. unfold Rsqr in P. replace ((x0 + 0) * (x0 + 0)) with (x0 * x0) by ring. lra.
    + pose proof (Rsqr_pos_lt x1 E) as P. unfold Rsqr in P. lra.
  - pose proof (Rsqr_pos_lt x1 Hv) as P. unfold Rsqr in P. lra.
Qed.
