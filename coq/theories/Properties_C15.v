(* Properties_C15.v -- statements only.  C15: copies and moves of linear-algebra objects behave
   like the original.  gen_* tables are regenerated from include/LinearAlgebra/*.h on every run. *)
From Coq Require Import String List ZArith Bool.
From GMGP Require Import Scalar TridiagDefs ObjectsDefs ObjectsProofs.
From GMGPGen Require Import SpecialMembersGen.
Import ListNotations.

(* generic: a complete table makes the target equal to the source, for every source state and
   every previous target state, under any observation (law-free: any scalar type) *)
Theorem C15_copy_observationally_equal : forall (S : Sc) O (observe : @obj S -> O) inv rules src dst,
  copy_complete inv rules = true -> length src = length rules -> length dst = length rules ->
  observe (apply_target inv false rules src dst) = observe src.
Proof. exact @complete_copy_observationally_equal. Qed.
Theorem C15_move_observationally_equal : forall (S : Sc) O (observe : @obj S -> O) inv rules src dst,
  move_complete inv rules = true -> length src = length rules -> length dst = length rules ->
  observe (apply_target inv true rules src dst) = observe src.
Proof. exact @complete_move_observationally_equal. Qed.
Theorem C15_copy_leaves_source : forall (S : Sc) rules (src : @obj S),
  forallb (fun r => match r_src r with SKeep => true | _ => false end) rules = true ->
  length src = length rules -> apply_source rules src = src.
Proof. exact @keep_source_unchanged. Qed.
Theorem C15_copy_after_solve_solves_same : forall (S : Sc) inv rules (t : @tri S) (b0 b : list S) (dst : @obj S),
  forallb (transfers inv false) rules = true -> length rules = 7%nat -> length dst = 7%nat ->
  let t1 := fst (tri_solve t b0) in
  let t2 := tri_of_obj (apply_target inv false rules (obj_of_tri t1) dst) in
  snd (tri_solve t2 b) = snd (tri_solve t1 b) /\ t2 = t1.
Proof. exact @copy_after_solve_solves_same. Qed.

(* the tables the headers define NOW are complete (24 finite obligations, by computation) *)
Ltac table := vm_compute; reflexivity.
Theorem C15_Vector_copy_ctor : copy_complete inv_Vector gen_Vector_copy_ctor = true. Proof. table. Qed.
Theorem C15_Vector_copy_assign : copy_complete inv_Vector gen_Vector_copy_assign
  && realloc_guarded inv_Vector gen_Vector_copy_assign_realloc_vars = true. Proof. table. Qed.
Theorem C15_Vector_move_ctor : move_complete inv_Vector gen_Vector_move_ctor = true. Proof. table. Qed.
Theorem C15_Vector_move_assign : move_complete inv_Vector gen_Vector_move_assign = true. Proof. table. Qed.

Theorem C15_COO_copy_ctor : copy_complete inv_SparseMatrixCOO gen_SparseMatrixCOO_copy_ctor = true. Proof. table. Qed.
Theorem C15_COO_copy_assign : copy_complete inv_SparseMatrixCOO gen_SparseMatrixCOO_copy_assign
  && realloc_guarded inv_SparseMatrixCOO gen_SparseMatrixCOO_copy_assign_realloc_vars = true. Proof. table. Qed.
Theorem C15_COO_move_ctor : move_complete inv_SparseMatrixCOO gen_SparseMatrixCOO_move_ctor = true. Proof. table. Qed.
Theorem C15_COO_move_assign : move_complete inv_SparseMatrixCOO gen_SparseMatrixCOO_move_assign = true. Proof. table. Qed.

Theorem C15_CSR_copy_ctor : copy_complete inv_SparseMatrixCSR gen_SparseMatrixCSR_copy_ctor = true. Proof. table. Qed.
Theorem C15_CSR_copy_assign : copy_complete inv_SparseMatrixCSR gen_SparseMatrixCSR_copy_assign
  && realloc_guarded inv_SparseMatrixCSR gen_SparseMatrixCSR_copy_assign_realloc_vars = true. Proof. table. Qed.
Theorem C15_CSR_move_ctor : move_complete inv_SparseMatrixCSR gen_SparseMatrixCSR_move_ctor = true. Proof. table. Qed.
Theorem C15_CSR_move_assign : move_complete inv_SparseMatrixCSR gen_SparseMatrixCSR_move_assign = true. Proof. table. Qed.

Theorem C15_LU_copy_ctor : copy_complete inv_SparseLUSolver gen_SparseLUSolver_copy_ctor = true. Proof. table. Qed.
Theorem C15_LU_copy_assign : copy_complete inv_SparseLUSolver gen_SparseLUSolver_copy_assign = true. Proof. table. Qed.
Theorem C15_LU_move_ctor : move_complete inv_SparseLUSolver gen_SparseLUSolver_move_ctor = true. Proof. table. Qed.
Theorem C15_LU_move_assign : move_complete inv_SparseLUSolver gen_SparseLUSolver_move_assign = true. Proof. table. Qed.

Theorem C15_Tridiag_copy_ctor :
  copy_complete inv_SymmetricTridiagonalSolver gen_SymmetricTridiagonalSolver_copy_ctor = true. Proof. table. Qed.
Theorem C15_Tridiag_copy_assign :
  copy_complete inv_SymmetricTridiagonalSolver gen_SymmetricTridiagonalSolver_copy_assign
  && realloc_guarded inv_SymmetricTridiagonalSolver gen_SymmetricTridiagonalSolver_copy_assign_realloc_vars = true.
Proof. table. Qed.
Theorem C15_Tridiag_move_ctor :
  move_complete inv_SymmetricTridiagonalSolver gen_SymmetricTridiagonalSolver_move_ctor = true. Proof. table. Qed.
Theorem C15_Tridiag_move_assign :
  move_complete inv_SymmetricTridiagonalSolver gen_SymmetricTridiagonalSolver_move_assign = true. Proof. table. Qed.

Theorem C15_Diagonal_copy_ctor : copy_complete inv_DiagonalSolver gen_DiagonalSolver_copy_ctor = true. Proof. table. Qed.
Theorem C15_Diagonal_copy_assign : copy_complete inv_DiagonalSolver gen_DiagonalSolver_copy_assign
  && realloc_guarded inv_DiagonalSolver gen_DiagonalSolver_copy_assign_realloc_vars = true. Proof. table. Qed.
Theorem C15_Diagonal_move_ctor : move_complete inv_DiagonalSolver gen_DiagonalSolver_move_ctor = true. Proof. table. Qed.
Theorem C15_Diagonal_move_assign : move_complete inv_DiagonalSolver gen_DiagonalSolver_move_assign = true. Proof. table. Qed.

Print Assumptions C15_copy_observationally_equal.
Print Assumptions C15_copy_after_solve_solves_same.
Print Assumptions C15_Tridiag_copy_ctor.
