(* Properties_C17.v -- statements only.  C17: grid node numbering is a bijection consistent
   with geometry and periodicity.  Objects named gen_* are regenerated from
   include/PolarGrid/polargrid.inl on every run (translate/t1_gridindex.py). *)
From Coq Require Import ZArith Bool List Lia.
From GMGP Require Import GridDefs GridProofs.
From GMGPGen Require Import GridIndexGen.
Local Open Scope Z_scope.

(* the constructor's bit trick really detects powers of two (so the mask path is only taken
   when it is correct) *)
Theorem C17_pow2flag_sound : forall n, 1 <= n -> gen_pow2flag n = true -> exists k, 0 <= k /\ n = 2 ^ k.
Proof. exact pow2flag_sound. Qed.
Theorem C17_pow2flag_complete : forall k, 0 <= k -> gen_pow2flag (2 ^ k) = true.
Proof. exact pow2flag_complete. Qed.

(* angular indices wrap periodically for ANY integer offset, on both code paths *)
Theorem C17_wrap : forall g x, wf g -> gen_wrap g x = x mod ntheta g.
Proof. exact gen_wrap_spec. Qed.
Theorem C17_wrap_range : forall g x, wf g -> 0 <= spec_wrap g x < ntheta g.
Proof. exact wrap_range. Qed.
Theorem C17_wrap_periodic : forall g x m, wf g -> spec_wrap g (x + m * ntheta g) = spec_wrap g x.
Proof. exact wrap_periodic. Qed.

(* code = specification *)
Theorem C17_index_is_spec : forall g i j, wf g -> gen_index g i j = spec_index g i j.
Proof. exact gen_index_spec. Qed.
Theorem C17_fast_eq_reference : forall g i j, wf g -> 0 <= j < ntheta g -> gen_fast_index g i j = gen_index g i j.
Proof. exact gen_fast_index_spec. Qed.
Theorem C17_multiindex_is_spec : forall g k, wf g -> 0 <= k < nnodes g ->
  (gen_multi_r g k, gen_multi_t g k) = spec_multi g k.
Proof. exact gen_multi_spec. Qed.

(* mutually inverse bijections onto 0..N-1 *)
Theorem C17_index_range : forall g i j, wf g -> 0 <= i < nr g -> 0 <= spec_index g i j < nnodes g.
Proof. exact index_range. Qed.
Theorem C17_multi_of_index : forall g i j, wf g -> in_grid g i j -> spec_multi g (spec_index g i j) = (i, j).
Proof. exact multi_of_index. Qed.
Theorem C17_index_of_multi : forall g k, wf g -> 0 <= k < nnodes g ->
  spec_index g (fst (spec_multi g k)) (snd (spec_multi g k)) = k.
Proof. exact index_of_multi. Qed.
Theorem C17_multi_range : forall g k, wf g -> 0 <= k < nnodes g ->
  in_grid g (fst (spec_multi g k)) (snd (spec_multi g k)).
Proof. exact multi_range. Qed.
Theorem C17_index_periodic : forall g i j m, wf g -> spec_index g i (j + m * ntheta g) = spec_index g i j.
Proof. exact index_periodic. Qed.

(* the circle / radial split partitions the nodes exactly *)
Theorem C17_split_partition : forall g i j, wf g -> 0 <= i < nr g ->
  (spec_index g i j < nsc g * ntheta g <-> i < nsc g).
Proof. exact split_partition. Qed.
Theorem C17_split_explicit_bounds : forall T ltb radii rho,
  0 <= split_explicit T ltb radii rho <= Z.of_nat (length radii).
Proof. exact split_explicit_bounds. Qed.
Theorem C17_split_explicit_prefix : forall T ltb radii rho d k,
  Z.of_nat k < count_lt T ltb radii rho -> ltb (List.nth k radii d) rho = true.
Proof. exact count_lt_prefix. Qed.
Theorem C17_split_explicit_stop : forall T ltb radii rho d,
  count_lt T ltb radii rho < Z.of_nat (length radii) ->
  ltb (List.nth (Z.to_nat (count_lt T ltb radii rho)) radii d) rho = false.
Proof. exact count_lt_stop. Qed.
Theorem C17_split_auto_bounds : forall nr_ q, 5 <= nr_ ->
  2 <= split_auto nr_ q <= nr_ - 2 /\ (5 < nr_ -> 3 <= split_auto nr_ q) /\ 3 <= nr_ - split_auto nr_ q
  \/ nr_ = 5 /\ split_auto nr_ q = 2.
Proof. exact split_auto_bounds. Qed.

(* neighbour queries agree with the periodic wrap *)
Theorem C17_neighbours : forall g j, wf g -> 0 <= j < ntheta g ->
  nb_theta_m1 g j = spec_wrap g (j - 1) /\ nb_theta_p1 g j = spec_wrap g (j + 1).
Proof. exact nb_theta_consistent. Qed.

(* coarsening keeps every second node, including both boundaries *)
Theorem C17_coarsen_length : forall A (l : list A),
  Z.of_nat (length (every_second l)) = Z.quot (Z.of_nat (length l) + 1) 2.
Proof. exact @every_second_length. Qed.
Theorem C17_coarsen_nth : forall A (l : list A) d i, List.nth i (every_second l) d = List.nth (2 * i) l d.
Proof. exact @every_second_nth. Qed.
Theorem C17_coarsen_last : forall A (l : list A) d, Nat.odd (length l) = true -> last (every_second l) d = last l d.
Proof. exact @every_second_last. Qed.

Print Assumptions C17_pow2flag_sound.
Print Assumptions C17_pow2flag_complete.
Print Assumptions C17_wrap.
Print Assumptions C17_wrap_range.
Print Assumptions C17_wrap_periodic.
Print Assumptions C17_index_is_spec.
Print Assumptions C17_fast_eq_reference.
Print Assumptions C17_multiindex_is_spec.
Print Assumptions C17_index_range.
Print Assumptions C17_multi_of_index.
Print Assumptions C17_index_of_multi.
Print Assumptions C17_multi_range.
Print Assumptions C17_index_periodic.
Print Assumptions C17_split_partition.
Print Assumptions C17_split_explicit_bounds.
Print Assumptions C17_split_explicit_prefix.
Print Assumptions C17_split_explicit_stop.
Print Assumptions C17_split_auto_bounds.
Print Assumptions C17_neighbours.
Print Assumptions C17_coarsen_length.
Print Assumptions C17_coarsen_nth.
Print Assumptions C17_coarsen_last.
