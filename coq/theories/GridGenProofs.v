(* GridGenProofs.v -- C18: index safety of the anisotropic division under its real precondition (and the
   refutation without it: finding F5), soundness of the level count, validity and nesting of the
   uniformly generated / refined divisions. *)
From Coq Require Import List ZArith Bool Reals Lra Lia.
From GMGP Require Import Scalar ScalarR GridGenDefs.
Import ListNotations.
Local Open Scope Z_scope.

(* ------------------------------------------------------------------ *)
(* anisotropic division: every index is in bounds iff the refined window fits *)
(* ------------------------------------------------------------------ *)
Lemma quot_pow2 a : 1 <= a -> Z.quot (2 ^ a) 2 = 2 ^ (a - 1).
Proof.
  intros Ha. replace a with (1 + (a - 1)) at 1 by lia. rewrite Z.pow_add_r by lia.
  rewrite Z.quot_div_nonneg by (try apply Z.mul_nonneg_nonneg; try apply Z.pow_nonneg; lia).
  change (2 ^ 1) with 2. rewrite Z.mul_comm, Z.div_mul by lia. reflexivity.
Qed.

Theorem aniso_indices_in_bounds nr_exp a p x :
  1 <= a -> aniso_indices nr_exp a p = Some x ->
  Z.quot (an_nref x) 2 <= p -> p <= an_nr x - 1 ->
  aniso_in_bounds x = true.
Proof.
  intros Ha H Hlo Hhi. unfold aniso_indices in H.
  destruct ((a <? 0) || (2 ^ nr_exp - 2 ^ a <=? 0))%bool eqn:E; [discriminate|].
  apply orb_false_iff in E. destruct E as [_ E2]. apply Z.leb_gt in E2.
  set (nequi := if Z.odd a then 2 ^ nr_exp - 2 ^ a + 1 else 2 ^ nr_exp - 2 ^ a) in *.
  assert (Hne : 0 < nequi) by (unfold nequi; destruct (Z.odd a); lia).
  destruct (nequi + 1 - Z.quot (2 ^ a) 2 <? p) eqn:Ec; injection H as <-; cbn [an_nref an_nr an_se an_ee an_nequi] in *;
    unfold aniso_in_bounds; cbn [an_nref an_nr an_se an_ee an_nequi].
  - (* clamped window: nref = 2^(log2 (nr - p) + 1) *)
    pose proof (Z.log2_nonneg (nequi + 1 - p)) as Hk0.
    destruct (Z.log2_spec (nequi + 1 - p) ltac:(lia)) as [Hl1 Hl2].
    set (kk := Z.log2 (nequi + 1 - p)) in *.
    rewrite quot_pow2 in * by lia. replace (kk + 1 - 1) with kk in * by lia.
    replace (2 ^ (kk + 1)) with (2 * 2 ^ kk) in * by (rewrite Z.pow_add_r by lia; change (2 ^ 1) with 2; lia).
    set (P := 2 ^ kk) in *.
    apply andb_true_iff; split; [apply andb_true_iff; split; [apply andb_true_iff; split|]|]; apply Z.leb_le; lia.
  - apply Z.ltb_ge in Ec. rewrite quot_pow2 in * by lia.
    replace (2 ^ a) with (2 * 2 ^ (a - 1)) in * by (replace a with (1 + (a - 1)) at 2 by lia; rewrite Z.pow_add_r by lia; change (2 ^ 1) with 2; lia).
    assert (0 < 2 ^ (a - 1)) by (apply Z.pow_pos_nonneg; lia).
    set (P := 2 ^ (a - 1)) in *.
    apply andb_true_iff; split; [apply andb_true_iff; split; [apply andb_true_iff; split|]|]; apply Z.leb_le; lia.
Qed.

(* the guarded function: every accepted parameter triple keeps all reads in bounds -- no side condition *)
Theorem aniso_accept_in_bounds nr_exp a p x : aniso_accept nr_exp a p = Some x -> aniso_in_bounds x = true.
Proof.
  unfold aniso_accept. destruct (aniso_indices nr_exp a p) as [y|] eqn:E; [|discriminate].
  destruct ((an_se y <? 0) || (an_nr y <? an_ee y))%bool eqn:G; [discriminate|]. intros H. injection H as <-.
  apply orb_false_iff in G. destruct G as [G1 G2]. apply Z.ltb_ge in G1. apply Z.ltb_ge in G2.
  unfold aniso_indices in E.
  destruct ((a <? 0) || (2 ^ nr_exp - 2 ^ a <=? 0))%bool eqn:E0; [discriminate|].
  apply orb_false_iff in E0. destruct E0 as [Ea _]. apply Z.ltb_ge in Ea.
  set (nequi := if Z.odd a then 2 ^ nr_exp - 2 ^ a + 1 else 2 ^ nr_exp - 2 ^ a) in *.
  assert (Hp : 0 < 2 ^ a) by (apply Z.pow_pos_nonneg; lia).
  assert (Hq : 0 < 2 ^ (Z.log2 (nequi + 1 - p) + 1)) by (apply Z.pow_pos_nonneg; [lia|pose proof (Z.log2_nonneg (nequi + 1 - p)); lia]).
  destruct (nequi + 1 - Z.quot (2 ^ a) 2 <? p); injection E as <-; cbn [an_nref an_nr an_se an_ee an_nequi] in *;
    unfold aniso_in_bounds; cbn [an_nref an_nr an_se an_ee an_nequi];
    (apply andb_true_iff; split; [apply andb_true_iff; split; [apply andb_true_iff; split|]|]; apply Z.leb_le; lia).
Qed.

(* the three output segments tile r_temp exactly: every entry is written once, none outside *)
Theorem aniso_output_partition nr_exp a p x s : aniso_accept nr_exp a p = Some x -> 0 <= s ->
  0 <= an_se x /\ 0 <= an_nequi x - an_ee x + 1 /\
  an_se x + s + (an_nequi x - an_ee x + 1) = aniso_out_size x s.
Proof.
  intros H Hs. pose proof (aniso_accept_in_bounds _ _ _ _ H) as B. unfold aniso_in_bounds in B.
  apply andb_true_iff in B. destruct B as [B B4]. apply andb_true_iff in B. destruct B as [B B3].
  apply andb_true_iff in B. destruct B as [B1 B2].
  apply Z.leb_le in B1, B2, B3, B4.
  unfold aniso_accept in H. destruct (aniso_indices nr_exp a p) as [y|] eqn:E; [|discriminate].
  destruct ((an_se y <? 0) || (an_nr y <? an_ee y))%bool; [discriminate|]. injection H as <-.
  assert (Hee : an_ee y = an_se y + an_nref y).
  { unfold aniso_indices in E. destruct ((a <? 0) || (2 ^ nr_exp - 2 ^ a <=? 0))%bool; [discriminate|].
    injection E as <-. reflexivity. }
  unfold aniso_out_size. lia.
Qed.

(* F5: without the precondition the window starts at a negative index.  (a) the command-line default
   refinement radius 0 < R0 gives p = -1; (b) a refinement radius INSIDE the domain but close to R0. *)
Theorem aniso_oob_refuted :
  (exists x, aniso_indices 4 2 (-1) = Some x /\ an_se x = -3 /\ aniso_in_bounds x = false) /\
  (exists x, aniso_indices 4 3 1 = Some x /\ an_se x = -3 /\ aniso_in_bounds x = false).
Proof. split; eexists; vm_compute; repeat split. Qed.

(* ------------------------------------------------------------------ *)
(* level count: every coarsening step the reported number of levels needs is defined *)
(* ------------------------------------------------------------------ *)
Theorem radial_levels_sound : forall fuel nr lev k, 0 <= nr ->
  Z.of_nat k <= radial_levels fuel nr lev - lev ->
  (forall j, (j < k)%nat -> Z.odd (coarsen_nr j nr) = true /\ 5 <= coarsen_nr (S j) nr).
Proof.
  induction fuel as [|f IH]; intros nr lev k Hnr Hk j Hj; cbn [radial_levels] in Hk; [lia|].
  destruct ((5 <=? Z.quot (nr + 1) 2) && (Z.rem (nr + 1) 2 =? 0))%bool eqn:E; [|lia].
  apply andb_prop in E. destruct E as [E1 E2]. apply Z.leb_le in E1. apply Z.eqb_eq in E2.
  destruct j as [|j'].
  - cbn [coarsen_nr]. split; [|exact E1].
    rewrite Z.rem_mod_nonneg in E2 by lia.
    rewrite <- Z.negb_even. apply negb_true_iff. destruct (Z.even nr) eqn:Ev; [|reflexivity].
    apply Z.even_spec in Ev. destruct Ev as [m ->]. exfalso.
    replace (2 * m + 1) with (1 + m * 2) in E2 by lia. rewrite Z.mod_add in E2 by lia. discriminate.
  - cbn [coarsen_nr]. destruct k as [|k']; [lia|].
    apply (IH (Z.quot (nr + 1) 2) (lev + 1) k' ltac:(lia) ltac:(lia) j' ltac:(lia)).
Qed.

Theorem angular_levels_sound : forall fuel nt lev k,
  Z.of_nat k <= angular_levels fuel nt lev - lev ->
  (forall j, (j < k)%nat -> Z.rem (coarsen_nt j nt) 2 = 0 /\ 4 <= coarsen_nt (S j) nt /\ Z.rem (coarsen_nt (S j) nt) 2 = 0).
Proof.
  induction fuel as [|f IH]; intros nt lev k Hk j Hj; cbn [angular_levels] in Hk; [lia|].
  destruct ((4 <=? Z.quot nt 2) && (Z.rem nt 2 =? 0) && (Z.rem (Z.quot nt 2) 2 =? 0))%bool eqn:E; [|lia].
  apply andb_prop in E. destruct E as [E12 E3]. apply andb_prop in E12. destruct E12 as [E1 E2].
  apply Z.leb_le in E1. apply Z.eqb_eq in E2. apply Z.eqb_eq in E3.
  destruct j as [|j'].
  - cbn [coarsen_nt]. auto.
  - cbn [coarsen_nt]. destruct k as [|k']; [lia|].
    apply (IH (Z.quot nt 2) (lev + 1) k' ltac:(lia) j' ltac:(lia)).
Qed.

(* the number of levels setup() reports is admitted by the grid: L-1 coarsenings are all defined, every
   level has an odd number of radii >= 5 after the first and an even number of angles >= 4 *)
Theorem levels_admitted nr nt maxl L : 0 <= nr -> choose_levels nr nt maxl = Some L ->
  2 <= L /\
  forall j, (Z.of_nat j < L - 1) ->
    (Z.odd (coarsen_nr j nr) = true /\ 5 <= coarsen_nr (S j) nr) /\
    (Z.rem (coarsen_nt j nt) 2 = 0 /\ 4 <= coarsen_nt (S j) nt /\ Z.rem (coarsen_nt (S j) nt) 2 = 0).
Proof.
  unfold choose_levels. intros Hnr H.
  set (lr := radial_levels 64 nr 1) in *. set (la := angular_levels 64 nt 1) in *.
  set (l := if 0 <? maxl then Z.min maxl (Z.min lr la) else Z.min lr la) in *.
  destruct (l <? 2) eqn:E; [discriminate|]. injection H as <-. apply Z.ltb_ge in E. split; [exact E|].
  intros j Hj.
  assert (Hl : l <= lr /\ l <= la) by (unfold l; destruct (0 <? maxl); lia).
  split.
  - apply (radial_levels_sound 64 nr 1 (S j)); [exact Hnr|fold lr; lia|lia].
  - apply (angular_levels_sound 64 nt 1 (S j)); [fold la; lia|lia].
Qed.

(* ------------------------------------------------------------------ *)
(* uniform division, midpoint refinement, divideVector (exact arithmetic) *)
(* ------------------------------------------------------------------ *)
Section Divisions.
  Local Open Scope R_scope.

  Lemma of_nat_INR n : @of_nat Rsc n = INR n.
  Proof. induction n as [|n IH]; [reflexivity|]. cbn [of_nat]. rewrite S_INR, <- IH. reflexivity. Qed.

  Lemma nth_map_seq {A} (f : nat -> A) (d : A) n i : (i < n)%nat -> nth i (map f (seq 0 n)) d = f i.
  Proof.
    intros Hi. rewrite (nth_indep _ d (f 0%nat)) by (rewrite map_length, seq_length; exact Hi).
    rewrite (map_nth f (seq 0 n) 0%nat i). rewrite seq_nth by exact Hi. reflexivity.
  Qed.

  Lemma uniform_radii_nth R0 R n i : (2 <= n)%nat ->
    nth i (@uniform_radii Rsc R0 R n) 0 =
    if (i <? n - 1)%nat then R0 + INR i * ((R - R0) / INR (n - 1)) else if (i =? n - 1)%nat then R else 0.
  Proof.
    intros Hn. unfold uniform_radii. destruct (i <? n - 1)%nat eqn:E.
    - apply Nat.ltb_lt in E. rewrite app_nth1 by (rewrite map_length, seq_length; exact E).
      rewrite nth_map_seq by exact E. rewrite !of_nat_INR. reflexivity.
    - apply Nat.ltb_ge in E. rewrite app_nth2 by (rewrite map_length, seq_length; exact E).
      rewrite map_length, seq_length. destruct (i =? n - 1)%nat eqn:E2.
      + apply Nat.eqb_eq in E2. rewrite E2, Nat.sub_diag. reflexivity.
      + apply Nat.eqb_neq in E2. destruct (i - (n - 1))%nat as [|[|m]] eqn:E3; [lia|reflexivity|reflexivity].
  Qed.

  (* the generated radii increase strictly, start exactly at R0 and end exactly at Rmax *)
  Theorem uniform_grid_valid R0 R n : R0 < R -> (2 <= n)%nat ->
    nth 0 (@uniform_radii Rsc R0 R n) 0 = R0 /\
    last (@uniform_radii Rsc R0 R n) 0 = R /\
    (forall i, (i + 1 < n)%nat -> nth i (@uniform_radii Rsc R0 R n) 0 < nth (i + 1) (@uniform_radii Rsc R0 R n) 0).
  Proof.
    intros HR Hn. assert (Hd : 0 < (R - R0) / INR (n - 1)).
    { apply Rdiv_lt_0_compat; [lra|]. apply lt_0_INR. lia. }
    split; [|split].
    - rewrite uniform_radii_nth by exact Hn. replace (0 <? n - 1)%nat with true by (symmetry; apply Nat.ltb_lt; lia). cbn. ring.
    - unfold uniform_radii. rewrite last_last. reflexivity.
    - intros i Hi. rewrite !uniform_radii_nth by exact Hn.
      replace (i <? n - 1)%nat with true by (symmetry; apply Nat.ltb_lt; lia).
      destruct (i + 1 <? n - 1)%nat eqn:E.
      + rewrite plus_INR. cbn [INR]. nra.
      + apply Nat.ltb_ge in E. replace (i + 1 =? n - 1)%nat with true by (symmetry; apply Nat.eqb_eq; lia).
        assert (Ei : INR i = INR (n - 1) - 1).
        { replace (n - 1)%nat with (i + 1)%nat by lia. rewrite plus_INR. cbn [INR]. ring. }
        assert (Hpos : 0 < INR (n - 1)) by (apply lt_0_INR; lia).
        rewrite Ei. assert (E2 : (INR (n - 1) - 1) * ((R - R0) / INR (n - 1)) = (R - R0) - (R - R0) / INR (n - 1)) by (field; lra).
        rewrite E2. lra.
  Qed.

  (* midpoint refinement: even positions keep the old nodes, odd positions are their midpoints *)
  Theorem refine_mid_nth : forall (r : list R) i, (i + 1 < length r)%nat ->
    nth (2 * i) (@refine_mid Rsc r) 0 = nth i r 0 /\
    nth (2 * i + 1) (@refine_mid Rsc r) 0 = (nth i r 0 + nth (i + 1) r 0) / 2.
  Proof.
    induction r as [|a [|b rest] IH]; intros i Hi; cbn [length] in Hi; try lia.
    destruct i as [|i'].
    - cbn. rsc. split; [reflexivity|field].
    - cbn [refine_mid]. replace (2 * S i')%nat with (S (S (2 * i'))) by lia.
      replace (S (S (2 * i')) + 1)%nat with (S (S (2 * i' + 1))) by lia. cbn [nth].
      replace (S i' + 1)%nat with (S (i' + 1)) by lia. cbn [nth].
      apply (IH i'). cbn [length]. lia.
  Qed.

  Lemma refine_mid_cons2 (a b : R) rest :
    @refine_mid Rsc (a :: b :: rest) = a :: @smul Rsc (@shalf Rsc) (@sadd Rsc a b) :: @refine_mid Rsc (b :: rest).
  Proof. reflexivity. Qed.

  Lemma refine_mid_length (r : list R) : (1 <= length r)%nat -> length (@refine_mid Rsc r) = (2 * length r - 1)%nat.
  Proof.
    induction r as [|a [|b rest] IH]; intros H; [cbn [length] in H; lia|reflexivity|].
    rewrite refine_mid_cons2. change (length (a :: b :: rest)) with (S (length (b :: rest))).
    cbn [length] in IH |- *. rewrite IH by lia. lia.
  Qed.

  Definition increasing (l : list R) : Prop := forall i, (i + 1 < length l)%nat -> nth i l 0 < nth (i + 1) l 0.

  (* strict monotonicity and both end points survive the refinement *)
  Theorem refine_mid_increasing (r : list R) : (1 <= length r)%nat -> increasing r ->
    increasing (@refine_mid Rsc r) /\ nth 0 (@refine_mid Rsc r) 0 = nth 0 r 0 /\
    last (@refine_mid Rsc r) 0 = last r 0.
  Proof.
    intros Hl Hinc. split; [|split].
    - intros k Hk. rewrite refine_mid_length in Hk by exact Hl.
      destruct (Nat.even k) eqn:Ev.
      + apply Nat.even_spec in Ev. destruct Ev as [i ->].
        destruct (refine_mid_nth r i ltac:(lia)) as [E1 E2]. change (T Rsc) with R in *. rewrite E1, E2.
        pose proof (Hinc i ltac:(lia)). lra.
      + assert (Ho : Nat.odd k = true) by (rewrite <- Nat.negb_even, Ev; reflexivity).
        apply Nat.odd_spec in Ho. destruct Ho as [i ->].
        destruct (refine_mid_nth r i ltac:(lia)) as [_ E2]. change (T Rsc) with R in *. rewrite E2.
        replace (2 * i + 1 + 1)%nat with (2 * (i + 1))%nat by lia.
        destruct (Nat.eq_dec (i + 2) (length r)) as [Elast|Ne].
        * (* the last old node: position 2 (i+1) = length - 1 of the refined list *)
          assert (Hn : nth (2 * (i + 1)) (@refine_mid Rsc r) 0 = nth (i + 1) r 0).
          { clear -Elast. revert i Elast. induction r as [|a [|b rest] IH]; intros i E; cbn [length] in E; try lia.
            destruct i as [|i'].
            - destruct rest; [reflexivity|cbn [length] in E; lia].
            - cbn [refine_mid]. replace (2 * (S i' + 1))%nat with (S (S (2 * (i' + 1)))) by lia.
              replace (S i' + 1)%nat with (S (i' + 1)) by lia. cbn [nth]. apply IH. cbn [length]. lia. }
          change (T Rsc) with R in *. rewrite Hn. pose proof (Hinc i ltac:(lia)). lra.
        * destruct (refine_mid_nth r (i + 1) ltac:(lia)) as [E1 _]. change (T Rsc) with R in *. rewrite E1.
          pose proof (Hinc i ltac:(lia)). lra.
    - destruct r as [|a [|b rest]]; reflexivity.
    - clear Hinc. induction r as [|a [|b rest] IH]; cbn [length] in Hl; try lia; [reflexivity|].
      rewrite refine_mid_cons2. change (last (a :: b :: rest) 0) with (last (b :: rest) 0). rewrite <- IH by (cbn [length]; lia).
      pose proof (refine_mid_length (b :: rest) ltac:(cbn [length]; lia)) as L.
      destruct (@refine_mid Rsc (b :: rest)) eqn:E.
      + cbn [length] in L. lia.
      + reflexivity.
  Qed.

  (* the executable order check used on the implementation's output means what it should *)
  Lemma increasing_b_sound (l : list R) : @increasing_b Rsc l = true -> increasing l.
  Proof.
    induction l as [|a [|b rest] IH]; intros H i Hi; cbn [length] in Hi; try lia.
    cbn [increasing_b] in H. apply andb_prop in H. destruct H as [H1 H2].
    destruct i as [|i'].
    - cbn [nth Nat.add]. cbn [sltb Rsc] in H1. destruct (Rlt_dec a b) as [Hlt|]; [exact Hlt|discriminate].
    - replace (S i' + 1)%nat with (S (i' + 1)) by lia. cbn [nth]. apply (IH H2 i'). cbn [length]. lia.
  Qed.

  (* the angular division: uniform, ending exactly at the full turn, and every angle has its antipodal
     partner half the (even) number of divisions further on *)
  Theorem uniform_angles_antipodal (tau : R) n i : (0 < n)%nat -> Nat.even n = true -> (i < n / 2)%nat ->
    nth (i + n / 2) (@uniform_angles Rsc tau n) 0 = nth i (@uniform_angles Rsc tau n) 0 + tau / 2 /\
    nth n (@uniform_angles Rsc tau n) 0 = tau /\
    (forall j, (j < n)%nat -> nth j (@uniform_angles Rsc tau n) 0 = INR j * (tau / INR n)).
  Proof.
    intros Hn Hev Hi. apply Nat.even_spec in Hev. destruct Hev as [m Em].
    assert (Hm : (n / 2 = m)%nat) by (rewrite Em, Nat.mul_comm, Nat.div_mul; lia). rewrite Hm in *.
    assert (Hj : forall j, (j < n)%nat -> nth j (@uniform_angles Rsc tau n) 0 = INR j * (tau / INR n)).
    { intros j Hjn. unfold uniform_angles. rewrite app_nth1 by (rewrite map_length, seq_length; exact Hjn).
      rewrite nth_map_seq by exact Hjn. rewrite !of_nat_INR. reflexivity. }
    split; [|split; [|exact Hj]].
    - rewrite !Hj by lia. rewrite plus_INR. assert (En : INR n = 2 * INR m) by (rewrite Em, mult_INR; cbn [INR]; ring).
      rewrite En. assert (0 < INR m) by (apply lt_0_INR; lia). rsc. field. lra.
    - unfold uniform_angles. rewrite app_nth2 by (rewrite map_length, seq_length; lia).
      rewrite map_length, seq_length, Nat.sub_diag. reflexivity.
  Qed.

  (* divideVector: the points of one more bisection contain the previous ones at every second
     position, and the new ones are midpoints of their neighbours *)
  Theorem div_segment_nested a b d j : (j < 2 ^ d)%nat ->
    nth (2 * j) (@div_segment Rsc a b (S d)) 0 = nth j (@div_segment Rsc a b d) 0 /\
    nth (2 * j + 1) (@div_segment Rsc a b (S d)) 0 =
      (nth j (@div_segment Rsc a b d) 0 + (if (j + 1 <? 2 ^ d)%nat then nth (j + 1) (@div_segment Rsc a b d) 0 else b)) / 2.
  Proof.
    intros Hj. unfold div_segment.
    assert (Hp : (2 ^ S d = 2 * 2 ^ d)%nat) by (cbn; lia).
    rewrite !nth_map_seq by lia. rewrite !of_nat_INR.
    assert (P2 : forall m, @pow2s Rsc m = 2 ^ m) by (induction m as [|m IHm]; [reflexivity|cbn [pow2s]; rewrite IHm; rsc; cbn; ring]).
    rewrite !P2. assert (Hnz : 2 ^ d <> 0) by (apply pow_nonzero; lra).
    rsc. split.
    - rewrite mult_INR. cbn [INR]. replace (2 ^ S d) with (2 * 2 ^ d) by (cbn; ring). field. exact Hnz.
    - destruct (j + 1 <? 2 ^ d)%nat eqn:E.
      + apply Nat.ltb_lt in E. rewrite nth_map_seq by exact E. rewrite ?of_nat_INR, ?P2.
        rewrite !plus_INR, mult_INR. cbn [INR]. replace (2 ^ S d) with (2 * 2 ^ d) by (cbn; ring). rsc. field. exact Hnz.
      + apply Nat.ltb_ge in E. assert (Ej : INR j = 2 ^ d - 1).
        { assert ((j + 1 = 2 ^ d)%nat) by lia. apply (f_equal INR) in H. rewrite plus_INR, pow_INR in H. replace (INR 2) with 2 in H by (cbn; ring). replace (INR 1) with 1 in H by reflexivity. lra. }
        rewrite !plus_INR, mult_INR. cbn [INR]. rewrite Ej. replace (2 ^ S d) with (2 * 2 ^ d) by (cbn; ring). field. exact Hnz.
  Qed.
End Divisions.
