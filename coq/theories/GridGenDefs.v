(* GridGenDefs.v -- executable model of the parametric grid constructor (C18): uniform radial division,
   the INDEX ARITHMETIC of RadialAnisotropicDivision, midpoint refinement, divideVector, the level count
   of setup() and the decision part of checkParameters.
   Transcribed from src/PolarGrid/polargrid.cpp, src/PolarGrid/anisotropic_division.cpp,
   src/GMGPolar/setup.cpp (chooseNumberOfLevels). *)
From Coq Require Import List ZArith Bool.
From GMGP Require Import Scalar.
Import ListNotations.
Local Open Scope Z_scope.

Section GridGen.
  Context {S : Sc}.
  Local Open Scope sc_scope.

  Fixpoint of_nat (n : nat) : S := match n with O => s0 | Datatypes.S m => of_nat m + s1 end.
  Fixpoint pow2s (d : nat) : S := match d with O => s1 | Datatypes.S m => s2 * pow2s m end.

  (* constructRadialDivisions, anisotropic_factor == 0:  nr = 2^(nr_exp-1) + 1 nodes,
     r_i = R0 + i * (R - R0)/(nr-1) for i < nr-1, last node assigned R *)
  Definition uniform_radii (R0 R : S) (n : nat) : list S :=       (* n = nr >= 2 *)
    let dist := (R - R0) / of_nat (n - 1) in
    map (fun i => R0 + of_nat i * dist) (seq 0 (n - 1)) ++ [R].

  (* "refine division in the middle": radii[2i] = r[i], radii[2i+1] = (r[i] + r[i+1]) / 2 *)
  Fixpoint refine_mid (r : list S) : list S :=
    match r with
    | a :: ((b :: _) as rest) => a :: shalf * (a + b) :: refine_mid rest
    | _ => r
    end.

  (* divideVector(vec, d): between consecutive entries insert j/2^d points, j = 1 .. 2^d - 1 *)
  Definition div_segment (a b : S) (d : nat) : list S :=
    map (fun j => a + of_nat j * (b - a) / pow2s d) (seq 0 (Nat.pow 2 d)).
  Fixpoint divide_vector (v : list S) (d : nat) : list S :=
    match v with
    | a :: ((b :: _) as rest) => div_segment a b d ++ divide_vector rest d
    | _ => v
    end.

  (* angular division: ntheta uniform steps, last entry assigned 2 pi (passed in as tau) *)
  Definition uniform_angles (tau : S) (n : nat) : list S :=
    map (fun i => of_nat i * (tau / of_nat n)) (seq 0 n) ++ [tau].

  (* the constructor's radial output for anisotropic_factor = 0 *)
  Definition gen_radii_uniform (R0 R : S) (nr_exp dv : nat) : list S :=
    divide_vector (refine_mid (uniform_radii R0 R (Nat.pow 2 (nr_exp - 1) + 1))) dv.
  Definition gen_angles (tau : S) (n dv : nat) : list S := divide_vector (uniform_angles tau n) dv.

  (* ---- executable validity predicates, evaluated on the implementation's output (as exact rationals) ---- *)
  Definition sle_abs (x eps : S) : bool := negb (sltb eps (sabs x)).
  Fixpoint increasing_b (l : list S) : bool :=
    match l with a :: ((b :: _) as rest) => sltb a b && increasing_b rest | _ => true end.
  Fixpoint midpoints_b (eps : S) (l : list S) : bool :=
    match l with
    | a :: m :: ((b :: _) as rest2) => sle_abs (m - shalf * (a + b)) eps && midpoints_b eps rest2
    | _ => true
    end.
  Fixpoint close_b (eps : S) (l1 l2 : list S) : bool :=
    match l1, l2 with
    | [], [] => true
    | x :: r1, y :: r2 => sle_abs (x - y) eps && close_b eps r1 r2
    | _, _ => false
    end.
  Definition radii_valid_b (R0 R eps : S) (l : list S) : bool :=
    match l with
    | [] => false
    | a :: _ => seqb a R0 && seqb (last l s0) R && increasing_b l && midpoints_b eps l
    end.
End GridGen.

(* ---- integer part of RadialAnisotropicDivision ----
   inputs: nr_exp, anisotropic_factor a, p = floor(nr * percentage) (computed in floating point by the code) *)
Record aniso := mkAniso { an_nequi : Z; an_nr : Z; an_nref : Z; an_se : Z; an_ee : Z }.

Definition aniso_indices (nr_exp a p : Z) : option aniso :=
  let nequi0 := 2 ^ nr_exp - 2 ^ a in
  if (a <? 0) || (nequi0 <=? 0) then None          (* throws: "choose anisotropy factor such that 2^a < 2^nr_exp" *)
  else
    let nequi := if Z.odd a then nequi0 + 1 else nequi0 in
    let nr := nequi + 1 in
    let nref0 := 2 ^ a in
    (* "fix a memory error": if floor(nr*percentage) > nr - nref/2 then nref := 2^(log2(nr - p) + 1) *)
    let nref := if nr - Z.quot nref0 2 <? p then 2 ^ (Z.log2 (nr - p) + 1) else nref0 in
    let se := p - Z.quot nref 2 in
    Some (mkAniso nequi nr nref se (se + nref)).

(* the function as it is now: the window must fit (std::invalid_argument otherwise) *)
Definition aniso_accept (nr_exp a p : Z) : option aniso :=
  match aniso_indices nr_exp a p with
  | Some x => if (an_se x <? 0) || (an_nr x <? an_ee x) then None else Some x
  | None => None
  end.

(* size of the result for a refined set of [s] points, and the three output segments:
   r_temp[0 .. se), r_temp[se .. se+s), r_temp[se+s .. se+s + (nequi-ee+1)) *)
Definition aniso_out_size (x : aniso) (s : Z) : Z := an_nequi x - an_nref x + s + 1.

(* every index the three copy loops and the set-filling loops use:
   reads  r_temp2[se + i], 0 <= i < nref;  r_temp2[ee + i], 0 <= i <= nequi - ee;  r_temp2[i], 0 <= i < se
   r_temp2 has nr = nequi + 1 entries *)
Definition aniso_in_bounds (x : aniso) : bool :=
  (0 <=? an_se x) && (an_se x + an_nref x <=? an_nr x) && (0 <=? an_ee x) && (an_ee x <=? an_nequi x + 1).

(* ---- chooseNumberOfLevels ---- *)
Fixpoint radial_levels (fuel : nat) (nr lev : Z) : Z :=
  match fuel with
  | O => lev
  | S f => if (5 <=? Z.quot (nr + 1) 2) && (Z.rem (nr + 1) 2 =? 0) then radial_levels f (Z.quot (nr + 1) 2) (lev + 1) else lev
  end.
Fixpoint angular_levels (fuel : nat) (nt lev : Z) : Z :=
  match fuel with
  | O => lev
  | S f => if (4 <=? Z.quot nt 2) && (Z.rem nt 2 =? 0) && (Z.rem (Z.quot nt 2) 2 =? 0) then angular_levels f (Z.quot nt 2) (lev + 1) else lev
  end.
Definition choose_levels (nr nt max_levels : Z) : option Z :=
  let l0 := Z.min (radial_levels 64 nr 1) (angular_levels 64 nt 1) in
  let l := if 0 <? max_levels then Z.min max_levels l0 else l0 in
  if l <? 2 then None else Some l.

(* the grid after k coarsenings *)
Fixpoint coarsen_nr (k : nat) (nr : Z) : Z := match k with O => nr | S j => coarsen_nr j (Z.quot (nr + 1) 2) end.
Fixpoint coarsen_nt (k : nat) (nt : Z) : Z := match k with O => nt | S j => coarsen_nt j (Z.quot nt 2) end.

(* sizes produced by the constructor *)
Definition gen_nr (nr_temp divide : Z) : Z := ((2 * nr_temp - 1) - 1) * 2 ^ divide + 1.
Definition gen_ntheta (ntheta_exp nr_mid divide : Z) : Z :=
  (if ntheta_exp <? 0 then 2 ^ (Z.log2_up nr_mid) else 2 ^ ntheta_exp) * 2 ^ divide.
