(* Properties_C03.v -- statements only.  C03: one discrete operator.
   Rows/columns are (i_r, i_theta) pairs (storage permutation: C17).  A_take_row is the documented
   9-point / 7-point stencil (gather form, transcribed from NODE_APPLY_RESIDUAL_TAKE); A_give_row is
   everything NODE_APPLY_A_GIVE scatters into a row.  Premises: nr >= 4, ntheta = 2 Mc with Mc >= 2,
   pi-periodic angular spacings (what checkParameters' antipodal test guarantees).
   The cached / uncached / coarse-level parts of the property are tied by the correspondence K-matrix
   (coarse caches are copies: checked bitwise against a fresh evaluation on every run). *)
From Coq Require Import List ZArith Bool Reals.
From GMGP Require Import Scalar ScalarR InterpDefs StencilDefs StencilProofs StencilProofs2 StencilTie.
From GMGPGen Require Import StencilGen.
Import ListNotations.
Local Open Scope R_scope.

(* for every grid size, every coefficient array, both boundary modes, every vector x and every row:
   what the give kernel accumulates in the row equals what the take kernel gathers *)
Theorem C03_give_eq_take :
  forall (nr nth : Z) (h k : Z -> R) (R0 : R) (arr att art det : Z -> Z -> R) (beta : Z -> R) (dirbc : bool) (Mc : Z),
  (4 <= nr)%Z -> (2 <= Mc)%Z -> nth = (2 * Mc)%Z ->
  (forall j : Z, (0 <= j < Mc)%Z -> k (j + Mc)%Z = k j) ->
  forall (x : Z -> Z -> R) (i j : Z), (0 <= i < nr)%Z -> (0 <= j < nth)%Z ->
  @apply_row2 Rsc (@A_give_row Rsc nr nth h k R0 arr att art det beta dirbc i j) x =
  @apply_row2 Rsc (@A_take_row Rsc nr nth h k R0 arr att art det beta dirbc i j) x.
Proof. exact give_row_eq_take_row. Qed.

(* Dirichlet rows are the identity *)
Theorem C03_dirichlet_rows_identity :
  forall (nr nth : Z) (h k : Z -> R) (R0 : R) (arr att art det : Z -> Z -> R) (beta : Z -> R) (dirbc : bool),
  (4 <= nr)%Z -> forall j : Z,
  @A_take_row Rsc nr nth h k R0 arr att art det beta dirbc (nr - 1) j = [(((nr - 1)%Z, j), 1)] /\
  (dirbc = true -> @A_take_row Rsc nr nth h k R0 arr att art det beta dirbc 0 j = [((0%Z, j), 1)]).
Proof. exact dirichlet_rows_identity. Qed.

(* the coefficients returned by compute_jacobian_elements are admissible for every invertible Jacobian *)
Theorem C03_coefficients_admissible : forall Jrr Jrt Jtr Jtt alpha : R,
  detJ Jrr Jrt Jtr Jtt <> 0 -> 0 < alpha ->
  0 < arrJ Jrr Jrt Jtr Jtt alpha /\ 0 < attJ Jrr Jrt Jtr Jtt alpha /\
  artJ Jrr Jrt Jtr Jtt alpha ^ 2 <= 4 * arrJ Jrr Jrt Jtr Jtt alpha * attJ Jrr Jrt Jtr Jtt alpha.
Proof. exact coefficients_admissible. Qed.

(* ---- the tie to the source: translator T3 regenerates gen/StencilGen.v from the two macro bodies on every run ---- *)

(* NODE_APPLY_RESIDUAL_TAKE, as the source says now, performs exactly one write for node (i,j):
   result[(i,j)] := rhs(i,j) - (row (i,j) of the documented stencil) . x      (every grid size, every coefficient array) *)
Theorem C03_generated_take_is_documented_stencil :
  forall (nr nth : Z) (h k rad : Z -> R) (arr att art det : Z -> Z -> R) (beta : Z -> R) (dirbc : bool),
  (4 <= nr)%Z -> (2 <= nth)%Z ->
  forall (rhs x : Z -> Z -> R) (i j : Z), (0 <= i < nr)%Z -> (0 <= j < nth)%Z ->
  @gen_resid_take Rsc nr nth h k rad arr att art det beta dirbc rhs x i j =
  [ (((i, j), W_result_WAssign),
     rhs i j - @apply_row2 Rsc (@A_take_row Rsc nr nth h k (rad 0%Z) arr att art det beta dirbc i j) x) ].
Proof. exact gen_take_is_model. Qed.

(* NODE_APPLY_A_GIVE, as the source says now: for every test vector y the y-weighted sum of what the macro subtracts from
   `result` for node (i,j) is the bilinear form of that node's scatter block in the model ... *)
Theorem C03_generated_give_is_model :
  forall (nr nth : Z) (h k rad : Z -> R) (arr att art det : Z -> Z -> R) (beta : Z -> R) (dirbc : bool),
  (4 <= nr)%Z -> (2 <= nth)%Z ->
  forall (x y : Z -> Z -> R) (i j : Z), (0 <= i < nr)%Z -> (0 <= j < nth)%Z ->
  gen_bil (@gen_apply_a_give Rsc nr nth h k rad arr att art det beta dirbc x i j) y =
  @bil Rsc nr nth h k (rad 0%Z) arr att art det beta dirbc i j x y.
Proof. exact gen_give_is_model. Qed.

(* ... and every write of it is a `-=` into `result` *)
Theorem C03_generated_give_writes_are_sub :
  forall (nr nth : Z) (h k rad : Z -> R) (arr att art det : Z -> Z -> R) (beta : Z -> R) (dirbc : bool)
         (x : Z -> Z -> R) (i j : Z),
  Forall (fun w => snd (fst w) = W_result_WSub) (@gen_apply_a_give Rsc nr nth h k rad arr att art det beta dirbc x i j).
Proof. exact gen_give_writes_are_sub. Qed.

Print Assumptions C03_give_eq_take.
Print Assumptions C03_generated_take_is_documented_stencil.
Print Assumptions C03_generated_give_is_model.
Print Assumptions C03_dirichlet_rows_identity.
