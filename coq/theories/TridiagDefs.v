(* TridiagDefs.v -- executable model of SymmetricTridiagonalSolver (C14) and DiagonalSolver,
   polymorphic in the scalar.  Transcribed from include/LinearAlgebra/symmetricTridiagonalSolver.h:
   in-place LDL^T (factorised lazily on the first solve), forward / scaling / backward sweeps,
   Sherman-Morrison for the cyclic corner with gamma = -d0. *)
From Coq Require Import List ZArith Bool.
From GMGP Require Import Scalar.
Import ListNotations.
Local Open Scope sc_scope.

Section Tridiag.
  Context {S : Sc}.

  (* ---- LDL^T, in place:  for i = 1..n-1:  s[i-1] /= d[i-1];  d[i] -= s[i-1]*s[i-1]*d[i-1] ---- *)
  Fixpoint ldlt (d : S) (ds ss : list S) : list S * list S :=
    match ds, ss with
    | d1 :: ds', s :: ss' =>
        let l := s / d in
        let d1' := d1 - l * l * d in
        let '(D, L) := ldlt d1' ds' ss' in
        (d :: D, l :: L)
    | _, _ => (d :: ds, ss)     (* end of the loop (ds = [], ss = []) *)
    end.

  Definition factor (dg sb : list S) : list S * list S :=
    match dg with
    | [] => ([], sb)
    | d :: ds => ldlt d ds sb
    end.

  (* forward substitution  x[i] -= l[i-1] * x[i-1]  (ascending) *)
  Fixpoint fwd (prev : S) (ls xs : list S) : list S :=
    match ls, xs with
    | l :: ls', x :: xs' => let y := x - l * prev in y :: fwd y ls' xs'
    | _, _ => xs
    end.
  Definition forward (ls xs : list S) : list S :=
    match xs with [] => [] | x0 :: xs' => x0 :: fwd x0 ls xs' end.

  (* diagonal scaling  x[i] /= d[i] *)
  Fixpoint scale (ds xs : list S) : list S :=
    match ds, xs with
    | d :: ds', x :: xs' => (x / d) :: scale ds' xs'
    | _, _ => xs
    end.

  (* backward substitution  x[i] -= l[i] * x[i+1]  (descending) *)
  Fixpoint backward (ls xs : list S) : list S :=
    match xs with
    | [] => []
    | x :: xs' =>
        match ls, xs' with
        | l :: ls', _ :: _ =>
            let r := backward ls' xs' in
            (x - l * hd s0 r) :: r
        | _, _ => xs
        end
    end.

  (* the three sweeps on a stored factor (D, L) *)
  Definition sweeps (D L b : list S) : list S := backward L (scale D (forward L b)).

  (* non-cyclic solve from raw entries *)
  Definition solve_tri (dg sb b : list S) : list S :=
    let '(D, L) := factor dg sb in sweeps D L b.

  (* recursive (one elimination step at a time) form, used by the correctness proof *)
  Fixpoint solve_rec (d : S) (ds ss : list S) (b0 : S) (bs : list S) : list S :=
    match ds, ss, bs with
    | d1 :: ds', s :: ss', b1 :: bs' =>
        let l := s / d in
        let xs := solve_rec (d1 - l * l * d) ds' ss' (b1 - l * b0) bs' in
        (b0 / d - l * hd s0 xs) :: xs
    | _, _, _ => [b0 / d]
    end.

  (* dense reference: (A x)_i = s_{i-1} x_{i-1} + d_i x_i + s_i x_{i+1} *)
  Fixpoint matvec_tri_from (sprev xprev : S) (ds ss xs : list S) : list S :=
    match ds, xs with
    | d :: ds', x :: xs' =>
        match ss, xs' with
        | s :: ss', x1 :: _ => (sprev * xprev + d * x + s * x1) :: matvec_tri_from s x ds' ss' xs'
        | _, _ => [sprev * xprev + d * x]
        end
    | _, _ => []
    end.
  Definition matvec_tri (dg sb x : list S) : list S := matvec_tri_from s0 s0 dg sb x.

  (* ---- cyclic: Sherman-Morrison, A = B + u v^T, u = (gamma,0,..,0,c), v = (1,0,..,0,c/gamma) ---- *)
  Fixpoint upd_last (f : S -> S) (l : list S) : list S :=
    match l with
    | [] => []
    | [x] => [f x]
    | x :: r => x :: upd_last f r
    end.
  Definition upd_first (f : S -> S) (l : list S) : list S :=
    match l with [] => [] | x :: r => f x :: r end.

  Definition cyc_gamma (dg : list S) : S := - (hd s0 dg).
  Definition cyc_modified_diag (dg : list S) (c : S) : list S :=
    let g := cyc_gamma dg in
    upd_last (fun d => d - c * c / g) (upd_first (fun d => d - g) dg).
  (* right-hand side of the auxiliary system: u[0] = gamma, u[i] = 0, u[n-1] = c  (n >= 2) *)
  Definition cyc_u (n : nat) (g c : S) : list S :=
    match n with
    | O => []
    | Datatypes.S m => g :: upd_last (fun _ => c) (repeat s0 m)
    end.

  Definition vsub_scaled (f : S) (x u : list S) : list S := map (fun p => fst p - f * snd p) (combine x u).

  (* the solve on a stored factor (D, L, gamma, c) *)
  Definition cyc_sweeps (D L : list S) (g c : S) (b : list S) : list S :=
    let x := sweeps D L b in
    let u := sweeps D L (cyc_u (length b) g c) in
    let dxv := hd s0 x + c / g * last x s0 in
    let duv := hd s0 u + c / g * last u s0 in
    let f := dxv / (s1 + duv) in
    vsub_scaled f x u.

  Definition solve_cyc (dg sb : list S) (c : S) (b : list S) : list S :=
    let g := cyc_gamma dg in
    let '(D, L) := factor (cyc_modified_diag dg c) sb in
    cyc_sweeps D L g c b.

  (* dense reference for the cyclic matrix; corner entries ADD to whatever else addresses (0,n-1),
     which matters for n = 2 where sub-diagonal and corner are the same entry *)
  Definition matvec_cyc (dg sb : list S) (c : S) (x : list S) : list S :=
    let y := matvec_tri dg sb x in
    upd_last (fun v => v + c * hd s0 x) (upd_first (fun v => v + c * last x s0) y).

  (* ---- the solver object: lazily factorised state ---- *)
  Record tri := mkTri {
    t_dim  : Z;
    t_main : option (list S);     (* None = null pointer (default constructed / moved from) *)
    t_sub  : option (list S);
    t_corner : S;
    t_cyclic : bool;
    t_fact : bool;
    t_gamma : S
  }.

  Definition tri_new (n : nat) : tri :=
    mkTri (Z.of_nat n) (Some (repeat s0 n)) (Some (repeat s0 (n - 1))) s0 true false s0.

  Definition olist (o : option (list S)) : list S := match o with Some l => l | None => [] end.

  (* solveInPlace: returns the new object state and the solution *)
  Definition tri_solve (t : tri) (b : list S) : tri * list S :=
    let dg := olist (t_main t) in
    let sb := olist (t_sub t) in
    if t_cyclic t then
      if t_fact t then (t, cyc_sweeps dg sb (t_gamma t) (t_corner t) b)
      else
        let g := cyc_gamma dg in
        let '(D, L) := factor (cyc_modified_diag dg (t_corner t)) sb in
        (mkTri (t_dim t) (Some D) (Some L) (t_corner t) true true g, cyc_sweeps D L g (t_corner t) b)
    else
      if t_fact t then (t, sweeps dg sb b)
      else
        let '(D, L) := factor dg sb in
        (mkTri (t_dim t) (Some D) (Some L) (t_corner t) false true (t_gamma t), sweeps D L b).

  (* DiagonalSolver::solveInPlace *)
  Definition diag_solve (dg b : list S) : list S := scale dg b.
End Tridiag.
