(* Properties_C04.v -- statements only.  C04 (PARTIAL).
   What a theorem decides here: the operator both direct solvers are meant to assemble is ONE operator:
   the give-assembly target (A_give_row) and the take-assembly target (A_take_row) are the same linear
   functional on every row; the correspondence then checks on every run that the CSR matrices the real
   solvers assemble equal these rows, and that the real solve has zero residual under the independent
   residual operator.
   NOT proved: A (solve b) = b for the sparse LU (see Properties_C16.v) and rounding.
   (* FULL: forall b, residual (solve b) = 0 up to rounding, and solve_give b = solve_take b *) *)
From Coq Require Import List ZArith Bool Reals.
From GMGP Require Import Scalar ScalarR InterpDefs StencilDefs StencilProofs SparseLUDefs SparseLUProofs.
Import ListNotations.
Local Open Scope R_scope.

Theorem C04_both_strategies_assemble_one_operator_partial :
  forall (nr nth : Z) (h k : Z -> R) (R0 : R) (arr att art det : Z -> Z -> R) (beta : Z -> R) (dirbc : bool) (Mc : Z),
  (4 <= nr)%Z -> (2 <= Mc)%Z -> nth = (2 * Mc)%Z ->
  (forall j : Z, (0 <= j < Mc)%Z -> k (j + Mc)%Z = k j) ->
  forall (x : Z -> Z -> R) (i j : Z), (0 <= i < nr)%Z -> (0 <= j < nth)%Z ->
  @apply_row2 Rsc (@A_give_row Rsc nr nth h k R0 arr att art det beta dirbc i j) x =
  @apply_row2 Rsc (@A_take_row Rsc nr nth h k R0 arr att art det beta dirbc i j) x.
Proof. exact give_row_eq_take_row. Qed.

(* the matrix the LU factorises does not depend on the order in which a row's entries are stored
   (the two assemblies store the stencil slots in different orders) *)
Theorem C04_storage_order_irrelevant_partial : forall (S : Sc) j (es es' : list (Z * S)),
  NoDup (map fst es) -> Permutation.Permutation es es' -> get0 j (load es) = get0 j (load es').
Proof. exact @storage_order_irrelevant. Qed.

Print Assumptions C04_both_strategies_assemble_one_operator_partial.
