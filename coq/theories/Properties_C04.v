(* Properties_C04.v -- statements only.  C04 (PARTIAL).
   What a theorem decides here: the operator both direct solvers are meant to assemble is ONE operator:
   the give-assembly target (A_give_row) and the take-assembly target (A_take_row) are the same linear
   functional on every row; the correspondence then checks on every run that the CSR matrices the real
   solvers assemble equal these rows, and that the real solve has zero residual under the independent
   residual operator.
   Proved as well: the sparse LU both solvers use returns x with A x = b in exact arithmetic for every matrix whose pivots do
   not vanish (SparseLUSolve.v; also stated in Properties_C16.v).  NOT proved: rounding, and that no pivot vanishes for A.
   (* FULL: forall b, residual (solve b) = 0 up to rounding, and solve_give b = solve_take b *) *)
From Coq Require Import List ZArith Bool Reals.
From GMGP Require Import Scalar ScalarR InterpDefs StencilDefs StencilProofs SparseLUDefs SparseLUProofs SparseLUElim SparseLUSolve StencilTie.
From GMGPGen Require Import StencilGen.
Import ListNotations.
Local Open Scope R_scope.

Theorem C04_both_strategies_assemble_one_operator_partial :
  forall (nr nth : Z) (h k : Z -> R) (R0 : R) (arr att art det : Z -> Z -> R) (beta : Z -> R) (dirbc : bool) (Mc : Z),
  (4 <= nr)%Z -> (2 <= Mc)%Z -> nth = (2 * Mc)%Z ->
  (forall j : Z, (0 <= j < Mc)%Z -> k (j + Mc)%Z = k j) ->
  forall (x : Z -> Z -> R) (i j : Z), (0 <= i < nr)%Z -> (0 <= j < nth)%Z ->
  @apply_row2 Rsc (@A_give_row Rsc nr nth h k R0 arr att art det beta dirbc i j) x =
  @apply_row2 Rsc (@A_take_row Rsc nr nth h k R0 arr att art det beta dirbc i j) x.
Proof. exact give_row_eq_take_row. Qed.

(* the matrix the LU factorises does not depend on the order in which a row's entries are stored
   (the two assemblies store the stencil slots in different orders) *)
Theorem C04_storage_order_irrelevant_partial : forall (S : Sc) j (es es' : list (Z * S)),
  NoDup (map fst es) -> Permutation.Permutation es es' -> get0 j (load es) = get0 j (load es').
Proof. exact @storage_order_irrelevant. Qed.

(* the in-place coarse solve inverts the matrix it was given: A x = b exactly (exact arithmetic), for every size *)
Theorem C04_coarse_solve_inverts_the_assembled_matrix : forall (rows : list (list (Z * R))) (b : list R),
  let n := length rows in
  length b = n ->
  (forall a, In a rows -> forall e, In e a -> (0 <= fst e < Z.of_nat n)%Z) ->
  pivots_nonzero 0 rows [] ->
  @csr_apply Rsc rows (@lu_solve Rsc (@lu_factor Rsc rows) b) = b.
Proof. exact lu_solve_correct. Qed.

(* ---- the take assembly as translator T3 regenerates it (NODE_BUILD_SOLVER_MATRIX_TAKE, UPDATE_MATRIX_ELEMENT, the slot tables
   of directSolverTakeCustomLU.h, getStencil and getStencilSize of matrixStencil.cpp) ---- *)
(* for every node the macro writes only into that node's CSR row, and the (column, value) pairs it stores are, entry for
   entry, the row of the operator the residual applies (the documented stencil, A_take_row) *)
Theorem C04_generated_take_assembly_is_the_residual_operator :
  forall (nr nth : Z) (h k rad : Z -> R) (arr att art det : Z -> Z -> R) (beta : Z -> R) (dirbc : bool),
  (4 <= nr)%Z -> (2 <= nth)%Z -> forall i j, (0 <= i < nr)%Z -> (0 <= j < nth)%Z ->
  Forall (fun w => mw_row w = (i, j)) (@gen_build_solver_matrix_take Rsc nr nth h k rad arr att art det beta dirbc i j) /\
  map (fun w => (mw_col w, mw_val w)) (@gen_build_solver_matrix_take Rsc nr nth h k rad arr att art det beta dirbc i j)
  = @A_take_row Rsc nr nth h k (rad 0%Z) arr att art det beta dirbc i j.
Proof. exact gen_asm_take_is_model. Qed.

(* the slots (offsets inside the CSR row) the macro uses are pairwise distinct, lie inside the row's allocation, and fill it *)
Theorem C04_generated_take_assembly_slots :
  forall (nr nth : Z) (h k rad : Z -> R) (arr att art det : Z -> Z -> R) (beta : Z -> R) (dirbc : bool),
  (4 <= nr)%Z -> forall i j, (0 <= i < nr)%Z -> (0 <= j < nth)%Z ->
  NoDup (map mw_slot (@gen_build_solver_matrix_take Rsc nr nth h k rad arr att art det beta dirbc i j)) /\
  Forall (fun w => (0 <= mw_slot w < @gen_take_get_stencil_size nr dirbc i)%Z)
         (@gen_build_solver_matrix_take Rsc nr nth h k rad arr att art det beta dirbc i j) /\
  Z.of_nat (length (@gen_build_solver_matrix_take Rsc nr nth h k rad arr att art det beta dirbc i j)) = @gen_take_get_stencil_size nr dirbc i.
Proof. exact gen_asm_take_slots. Qed.

(* ---- the give assembly as T3 regenerates it (NODE_BUILD_SOLVER_MATRIX_GIVE; UPDATE_MATRIX_ELEMENT accumulates with +=): for all
   x, y the sum of value * x(column) * y(row) over everything a node contributes to the CSR matrix is the bilinear form of
   that node's scatter block -- the block the give residual applies (C03_generated_give_is_model) and whose row sums are the
   take rows (C04_both_strategies_assemble_one_operator_partial).  The slot bookkeeping of the give assembly (which offset of
   the target row an entry lands in) is NOT covered by this theorem; it is compared entry by entry on the real CSR matrix. *)
Theorem C04_generated_give_assembly_is_the_residual_operator :
  forall (nr nth : Z) (h k rad : Z -> R) (arr att art det : Z -> Z -> R) (beta : Z -> R) (dirbc : bool),
  (4 <= nr)%Z -> (2 <= nth)%Z -> forall (x y : Z -> Z -> R) i j, (0 <= i < nr)%Z -> (0 <= j < nth)%Z ->
  mw_bil (@gen_build_solver_matrix_give Rsc nr nth h k rad arr att art det beta dirbc i j) x y =
  @bil Rsc nr nth h k (rad 0%Z) arr att art det beta dirbc i j x y.
Proof. exact gen_asm_give_is_model. Qed.

Print Assumptions C04_both_strategies_assemble_one_operator_partial.
Print Assumptions C04_generated_take_assembly_is_the_residual_operator.
Print Assumptions C04_coarse_solve_inverts_the_assembled_matrix.
