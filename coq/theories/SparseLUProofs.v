(* SparseLUProofs.v -- C16: finite-map semantics of the row container; storage order and
   explicitly stored zeros do not change the matrix the solver factorises. *)
From Coq Require Import List ZArith Bool Lia Permutation.
From GMGP Require Import Scalar SparseLUDefs.
Import ListNotations.

Section MapLaws.
  Context {S : Sc}.

  Lemma lookup_set_same j (v : S) r : lookup j (set_entry j v r) = Some v.
  Proof.
    induction r as [|[k w] r IH]; cbn [set_entry lookup].
    - rewrite Z.eqb_refl. reflexivity.
    - destruct (Z.eqb k j) eqn:E; cbn [lookup]; rewrite E; [reflexivity|exact IH].
  Qed.

  Lemma lookup_set_other j k (v : S) r : j <> k -> lookup k (set_entry j v r) = lookup k r.
  Proof.
    intros Hne. induction r as [|[a w] r IH]; cbn [set_entry lookup].
    - destruct (Z.eqb j k) eqn:E; [apply Z.eqb_eq in E; contradiction|reflexivity].
    - destruct (Z.eqb a j) eqn:E; cbn [lookup].
      + apply Z.eqb_eq in E. subst a. destruct (Z.eqb j k) eqn:E2; [apply Z.eqb_eq in E2; contradiction|reflexivity].
      + destruct (Z.eqb a k); [reflexivity|exact IH].
  Qed.

  Lemma get0_set_same j (v : S) r : get0 j (set_entry j v r) = v.
  Proof. unfold get0. rewrite lookup_set_same. reflexivity. Qed.
  Lemma get0_set_other j k (v : S) r : j <> k -> get0 k (set_entry j v r) = get0 k r.
  Proof. intros. unfold get0. rewrite lookup_set_other by assumption. reflexivity. Qed.

  (* keys stay unique: set_entry never duplicates a column *)
  Lemma set_entry_keys j (v : S) r :
    NoDup (map fst r) -> NoDup (map fst (set_entry j v r)) /\
    (forall k, In k (map fst (set_entry j v r)) <-> k = j \/ In k (map fst r)).
  Proof.
    induction r as [|[a w] r IH]; intros Hnd; cbn [set_entry map fst].
    - split; [constructor; [intros []|constructor]|]. intros k; cbn; intuition.
    - inversion Hnd as [|? ? Hni Hnd']; subst. destruct (IH Hnd') as [IH1 IH2].
      destruct (Z.eqb a j) eqn:E; cbn [map fst].
      + apply Z.eqb_eq in E. subst a. split; [constructor; assumption|]. intros k; cbn; intuition.
      + apply Z.eqb_neq in E. split.
        * constructor; [|exact IH1]. intros Hin. apply IH2 in Hin. destruct Hin as [->|Hin]; [congruence|contradiction].
        * intros k; cbn. rewrite IH2. intuition.
  Qed.

  (* the loaded row: the LAST stored value of a column wins, absent columns read as zero *)
  Fixpoint last_value (j : Z) (es : list (Z * S)) (acc : option S) : option S :=
    match es with
    | [] => acc
    | (k, v) :: es' => last_value j es' (if Z.eqb k j then Some v else acc)
    end.

  Lemma load_fold_lookup j es r :
    lookup j (fold_left (fun r e => set_entry (fst e) (snd e) r) es r) = last_value j es (lookup j r).
  Proof.
    revert r. induction es as [|[k v] es IH]; intros r; cbn [fold_left last_value fst snd]; [reflexivity|].
    rewrite IH. destruct (Z.eqb k j) eqn:E.
    - apply Z.eqb_eq in E. subst k. rewrite lookup_set_same. reflexivity.
    - apply Z.eqb_neq in E. rewrite lookup_set_other by assumption. reflexivity.
  Qed.

  Theorem load_lookup j es : lookup j (load es) = last_value j es None.
  Proof. unfold load. rewrite load_fold_lookup. reflexivity. Qed.

  (* with distinct columns in the stored row the value is order independent *)
  Lemma last_value_nodup j es acc :
    NoDup (map fst es) ->
    last_value j es acc = match find (fun e => Z.eqb (fst e) j) es with Some e => Some (snd e) | None => acc end.
  Proof.
    revert acc. induction es as [|[k v] es IH]; intros acc Hnd; cbn [last_value find fst snd]; [reflexivity|].
    inversion Hnd as [|? ? Hni Hnd']; subst. rewrite IH by assumption.
    destruct (Z.eqb k j) eqn:E; [|reflexivity].
    apply Z.eqb_eq in E. subst k.
    destruct (find (fun e => Z.eqb (fst e) j) es) as [[k' v']|] eqn:F; [|reflexivity].
    apply find_some in F. destruct F as [Hin He]. cbn in He. apply Z.eqb_eq in He. subst k'.
    exfalso. apply Hni. apply (in_map fst) in Hin. exact Hin.
  Qed.

  Lemma find_perm_nodup j (es es' : list (Z * S)) :
    NoDup (map fst es) -> Permutation es es' ->
    match find (fun e => Z.eqb (fst e) j) es with Some e => Some (snd e) | None => None end =
    match find (fun e => Z.eqb (fst e) j) es' with Some e => Some (snd e) | None => None end.
  Proof.
    intros Hnd Hp. revert Hnd. induction Hp as [| [k v] l l' Hp IH | [k1 v1] [k2 v2] l | l l' l'' Hp1 IH1 Hp2 IH2]; intros Hnd.
    - reflexivity.
    - cbn [find fst]. inversion Hnd; subst. destruct (Z.eqb k j); [reflexivity|apply IH; assumption].
    - cbn [find fst]. cbn [map fst] in Hnd. inversion Hnd as [|? ? Hni Hnd']; subst.
      destruct (Z.eqb k1 j) eqn:E1; destruct (Z.eqb k2 j) eqn:E2; try reflexivity.
      apply Z.eqb_eq in E1. apply Z.eqb_eq in E2. subst. exfalso. apply Hni. left. reflexivity.
    - rewrite IH1 by assumption. apply IH2.
      eapply Permutation_NoDup; [apply Permutation_map; exact Hp1|assumption].
  Qed.

  Theorem storage_order_irrelevant j (es es' : list (Z * S)) :
    NoDup (map fst es) -> Permutation es es' -> get0 j (load es) = get0 j (load es').
  Proof.
    intros Hnd Hp. unfold get0. rewrite !load_lookup.
    assert (Hnd' : NoDup (map fst es')) by (eapply Permutation_NoDup; [apply Permutation_map; exact Hp|assumption]).
    rewrite !last_value_nodup by assumption. rewrite (find_perm_nodup j es es' Hnd Hp). reflexivity.
  Qed.

  (* an explicitly stored zero in a fresh column does not change any entry of the dense row *)
  Theorem stored_zero_irrelevant j k (es : list (Z * S)) :
    ~ In k (map fst es) -> get0 j (load (es ++ [(k, s0)])) = get0 j (load es).
  Proof.
    intros Hni. unfold get0, load. rewrite fold_left_app. cbn [fold_left fst snd].
    destruct (Z.eq_dec k j) as [->|Hne].
    - rewrite lookup_set_same. fold (load es). rewrite load_lookup.
      assert (H : last_value j es None = None).
      { clear -Hni. assert (G : forall acc, last_value j es acc = acc).
        { induction es as [|[a v] es IH]; intros acc; cbn [last_value]; [reflexivity|].
          cbn [map fst] in Hni. destruct (Z.eqb a j) eqn:E.
          - apply Z.eqb_eq in E. subst a. exfalso. apply Hni. left. reflexivity.
          - apply IH. intros H. apply Hni. right. exact H. }
        apply G. }
      rewrite H. reflexivity.
    - rewrite lookup_set_other by assumption. reflexivity.
  Qed.
End MapLaws.
