(* StencilDefinite.v -- C05: STRICT positive definiteness of the interior operator.
   <A x, x> = form all_nodes x x is a sum of non-negative node blocks (StencilProofs.bil_nonneg).  If it vanishes then every
   block vanishes; the block of an outer-boundary node is c * x(nr-2, j)^2 with c > 0, and the block of a node 1 <= i <= nr-2
   is mass * x^2 + (local energy form), whose vanishing forces x(i-1, j) = x(i, j) when the mixed coefficient is strictly
   dominated (art^2 < 4 arr att, i.e. alpha > 0 for an invertible mapping: coefficients_discriminant).  Induction from the outer
   boundary inwards gives x = 0 on the whole grid.  Across the origin the statement inherits the premise art(0, .) = 0 of
   bil_nonneg (observation F9). *)
From Coq Require Import List ZArith Bool Reals Lia Lra.
From GMGP Require Import Scalar ScalarR InterpDefs StencilDefs StencilProofs.
Import ListNotations.
Local Open Scope R_scope.

(* a vanishing local energy form has vanishing radial differences (strict discriminant) *)
Lemma local_form_zero h1 h2 k1 k2 a t m dr1 dr2 dt1 dt2 :
  0 < h1 -> 0 < h2 -> 0 < k1 -> 0 < k2 -> 0 < a -> 0 < t -> m ^ 2 < 4 * a * t ->
  / 2 * (k1 + k2) / h1 * a * dr1 ^ 2 + / 2 * (k1 + k2) / h2 * a * dr2 ^ 2
  + / 2 * (h1 + h2) / k1 * t * dt1 ^ 2 + / 2 * (h1 + h2) / k2 * t * dt2 ^ 2
  + / 2 * m * (dr1 + dr2) * (dt1 + dt2) <= 0 ->
  dr1 = 0 /\ dr2 = 0.
Proof.
  intros H1 H2 K1 K2 Ha Ht Hm HL.
  set (a' := (a + m ^ 2 / (4 * t)) / 2).
  assert (Hq : 0 <= m ^ 2 / (4 * t)).
  { apply Rmult_le_pos; [apply pow2_ge_0|]. apply Rlt_le, Rinv_0_lt_compat. lra. }
  assert (Hlt : m ^ 2 / (4 * t) < a).
  { apply (Rmult_lt_reg_r (4 * t)); [lra|]. replace (m ^ 2 / (4 * t) * (4 * t)) with (m ^ 2) by (field; lra). lra. }
  assert (Ha' : 0 < a') by (unfold a'; lra).
  assert (Haa : a' < a) by (unfold a'; lra).
  assert (Hm' : m ^ 2 <= 4 * a' * t).
  { unfold a'. replace (4 * ((a + m ^ 2 / (4 * t)) / 2) * t) with (2 * a * t + m ^ 2 / 2) by (field; lra). lra. }
  pose proof (local_form_nonneg h1 h2 k1 k2 a' t m dr1 dr2 dt1 dt2 H1 H2 K1 K2 Ha' Ht Hm') as Hn.
  (* the difference of the two forms is (a - a') * /2 (k1+k2) (dr1^2/h1 + dr2^2/h2) *)
  assert (D : (a - a') * (/ 2 * (k1 + k2) / h1 * dr1 ^ 2 + / 2 * (k1 + k2) / h2 * dr2 ^ 2) <= 0) by nra.
  assert (P1 : 0 < / 2 * (k1 + k2) / h1) by (apply Rdiv_lt_0_compat; lra).
  assert (P2 : 0 < / 2 * (k1 + k2) / h2) by (apply Rdiv_lt_0_compat; lra).
  assert (S1 : 0 <= dr1 ^ 2) by apply pow2_ge_0. assert (S2 : 0 <= dr2 ^ 2) by apply pow2_ge_0.
  assert (Z : / 2 * (k1 + k2) / h1 * dr1 ^ 2 + / 2 * (k1 + k2) / h2 * dr2 ^ 2 <= 0).
  { assert (0 < a - a') by lra. nra. }
  assert (Z1 : dr1 ^ 2 = 0) by nra. assert (Z2 : dr2 ^ 2 = 0) by nra.
  split; nra.
Qed.

Lemma sum_nodes_zero (f : Z -> Z -> R) (nodes : list (Z * Z)) :
  (forall p, In p nodes -> 0 <= f (fst p) (snd p)) -> @sum_nodes Rsc f nodes = 0 ->
  forall p, In p nodes -> f (fst p) (snd p) = 0.
Proof.
  induction nodes as [|q nodes IH]; intros Hpos Hsum p Hin; [contradiction|].
  cbn [sum_nodes] in Hsum. rsc.
  assert (Hq : 0 <= f (fst q) (snd q)) by (apply Hpos; left; reflexivity).
  assert (Hrest : 0 <= @sum_nodes Rsc f nodes).
  { clear -Hpos. induction nodes as [|r nodes IH]; cbn [sum_nodes]; rsc; [lra|].
    assert (0 <= f (fst r) (snd r)) by (apply Hpos; right; left; reflexivity).
    assert (0 <= @sum_nodes Rsc f nodes) by (apply IH; intros s Hs; apply Hpos; destruct Hs as [Hs|Hs]; [left; exact Hs|right; right; exact Hs]).
    lra. }
  destruct Hin as [<-|Hin]; [lra|].
  apply IH; [intros r Hr; apply Hpos; right; exact Hr|lra|exact Hin].
Qed.

Section Definite.
  Variable nr nth : Z.
  Variable h k : Z -> R.
  Variable R0 : R.
  Variable arr att art det : Z -> Z -> R.
  Variable beta : Z -> R.
  Variable dirbc : bool.
  Hypothesis Hnr : (4 <= nr)%Z.
  Hypothesis Hh : forall x, 0 < h x.
  Hypothesis Hk : forall x, 0 < k x.
  Hypothesis HR0 : 0 < R0.
  Hypothesis Harr : forall i j, 0 < arr i j.
  Hypothesis Hatt : forall i j, 0 < att i j.
  Hypothesis Hdisc : forall i j, art i j ^ 2 < 4 * arr i j * att i j.       (* strict: alpha > 0 *)
  Hypothesis Hbeta : forall i, 0 <= beta i.
  Hypothesis Hart0 : dirbc = false -> forall j, art 0%Z j = 0.

  Notation bilR := (@bil Rsc nr nth h k R0 arr att art det beta dirbc).
  Notation kkR := (@kk Rsc nth k).

  Let Hdisc' : forall i j, art i j ^ 2 <= 4 * arr i j * att i j.
  Proof. intros i j. apply Rlt_le, Hdisc. Qed.

  Ltac blocks := unfold bil, A_give, give_center, give_left, give_right, give_bottom, give_top.

  (* the block of an outer-boundary node *)
  Lemma bil_outer j x : vanishes_on_dirichlet nr dirbc x ->
    bilR (nr - 1)%Z j x x = / 2 * (kkR (j - 1) + kkR j) / h (nr - 1 - 1)%Z * arr (nr - 1)%Z j * x (nr - 1 - 1)%Z j ^ 2.
  Proof.
    intros [Hx Hx0]. blocks.
    replace ((1 <? nr - 1) && (nr - 1 <? nr - 2))%Z with false by (symmetry; apply andb_false_iff; right; apply Z.ltb_ge; lia).
    replace (nr - 1 =? 0)%Z with false by (symmetry; apply Z.eqb_neq; lia).
    replace (nr - 1 =? 1)%Z with false by (symmetry; apply Z.eqb_neq; lia).
    replace (nr - 1 =? nr - 2)%Z with false by (symmetry; apply Z.eqb_neq; lia).
    rewrite Z.eqb_refl. unfold c1. cbn [fold_right app fst snd]. rsc.
    rewrite (Hx j), (Hx (wt nth (j + 1))), (Hx (wt nth (j - 1))). pose proof (Hh (nr - 1 - 1)%Z). field. lra.
  Qed.

  (* the block of a node 1 <= i <= nr-2: mass term + local energy form in the four one-sided differences *)
  Lemma bil_inner i j x : (1 <= i <= nr - 2)%Z -> vanishes_on_dirichlet nr dirbc x ->
    bilR i j x x =
      @mass Rsc nth h k det beta (h (i - 1)) i j * x i j ^ 2 +
      (/ 2 * (kkR (j - 1) + kkR j) / h (i - 1) * arr i j * (x i j - x (i - 1)%Z j) ^ 2 +
       / 2 * (kkR (j - 1) + kkR j) / h i * arr i j * (x (i + 1)%Z j - x i j) ^ 2 +
       / 2 * (h (i - 1) + h i) / kkR (j - 1) * att i j * (x i j - x i (wt nth (j - 1))) ^ 2 +
       / 2 * (h (i - 1) + h i) / kkR j * att i j * (x i (wt nth (j + 1)) - x i j) ^ 2 +
       / 2 * art i j * (x i j - x (i - 1)%Z j + (x (i + 1)%Z j - x i j)) *
       (x i j - x i (wt nth (j - 1)) + (x i (wt nth (j + 1)) - x i j))).
  Proof.
    intros Hi [Hx Hx0].
    pose proof (Hh i). pose proof (Hh (i - 1)%Z). pose proof (Hk (wt nth (j - 1))). pose proof (Hk (wt nth j)).
    destruct ((1 <? i) && (i <? nr - 2))%Z eqn:E1.
    - blocks. rewrite E1. unfold c1, c2, c3, c4, kk. cbn [fold_right app fst snd]. rsc. field. repeat split; lra.
    - destruct (Z.eq_dec i 1) as [->|N1].
      + blocks. rewrite E1. cbn [Z.eqb Pos.eqb]. unfold c1, c2, c3, c4, kk.
        destruct (Bool.bool_dec dirbc true) as [Ed|Ed]; [|apply Bool.not_true_is_false in Ed]; rewrite Ed.
        * cbn [fold_right app fst snd]. rsc. replace (1 - 1)%Z with 0%Z in * by lia. rewrite (Hx0 Ed j). field. repeat split; lra.
        * cbn [fold_right app fst snd]. rsc. field. repeat split; lra.
      + assert (E2 : i = (nr - 2)%Z).
        { apply andb_false_iff in E1. destruct E1 as [E1|E1]; apply Z.ltb_ge in E1; lia. }
        blocks. rewrite E1.
        replace (i =? 0)%Z with false by (symmetry; apply Z.eqb_neq; lia).
        replace (i =? 1)%Z with false by (symmetry; apply Z.eqb_neq; lia).
        replace (i =? nr - 2)%Z with true by (symmetry; apply Z.eqb_eq; exact E2).
        unfold c1, c2, c3, c4, kk. cbn [fold_right app fst snd]. rsc.
        replace (i + 1)%Z with (nr - 1)%Z by lia. rewrite (Hx j). field. repeat split; lra.
  Qed.

  (* <A x, x> = 0 forces x = 0 on the whole grid *)
  Theorem form_zero_iff_zero nodes x :
    (forall p, In p nodes -> (0 <= fst p < nr)%Z) ->
    (forall i j, (0 <= i < nr)%Z -> (0 <= j < nth)%Z -> In (i, j) nodes) ->
    vanishes_on_dirichlet nr dirbc x ->
    @form Rsc nr nth h k R0 arr att art det beta dirbc nodes x x = 0 ->
    forall i j, (0 <= i < nr)%Z -> (0 <= j < nth)%Z -> x i j = 0.
  Proof.
    intros Hn Hall Hx Hz.
    assert (Hb : forall p, In p nodes -> bilR (fst p) (snd p) x x = 0).
    { apply (sum_nodes_zero (fun i j => bilR i j x x)); [|exact Hz].
      intros p Hp. apply (bil_nonneg nr nth h k R0 arr att art det beta dirbc); auto. }
    (* induction from the outer boundary inwards: P d := x (nr-1-d) j = 0 *)
    assert (P : forall d : nat, (Z.of_nat d <= nr - 1)%Z -> forall j, (0 <= j < nth)%Z -> x (nr - 1 - Z.of_nat d)%Z j = 0).
    { induction d as [|d IH]; intros Hd j Hj.
      - replace (nr - 1 - Z.of_nat 0)%Z with (nr - 1)%Z by lia. apply (proj1 Hx).
      - destruct d as [|d'].
        + (* row nr-2 from the block of (nr-1, j) *)
          pose proof (Hb (nr - 1, j)%Z (Hall (nr - 1)%Z j ltac:(lia) Hj)) as B. cbn [fst snd] in B.
          rewrite (bil_outer j x Hx) in B.
          replace (nr - 1 - Z.of_nat 1)%Z with (nr - 1 - 1)%Z by lia.
          pose proof (Hh (nr - 1 - 1)%Z). pose proof (Hk (wt nth (j - 1))). pose proof (Hk (wt nth j)). pose proof (Harr (nr - 1)%Z j).
          assert (0 < / 2 * (kkR (j - 1) + kkR j) / h (nr - 1 - 1)%Z * arr (nr - 1)%Z j).
          { apply Rmult_lt_0_compat; [|assumption]. apply Rdiv_lt_0_compat; [unfold kk; lra|assumption]. }
          assert (0 <= x (nr - 1 - 1)%Z j ^ 2) by apply pow2_ge_0.
          assert (Z1 : x (nr - 1 - 1)%Z j ^ 2 = 0) by nra. nra.
        + (* row i-1 from the block of (i, j), i = nr-1-(d'+1) in 1..nr-2 *)
          set (i := (nr - 1 - Z.of_nat (S d'))%Z).
          assert (Hi : (1 <= i <= nr - 2)%Z) by (unfold i; lia).
          pose proof (Hb (i, j) (Hall i j ltac:(lia) Hj)) as B. cbn [fst snd] in B.
          rewrite (bil_inner i j x Hi Hx) in B.
          pose proof (mass_nonneg nth h k det beta Hh Hk Hbeta (h (i - 1)) i j (Hh _)) as Hm.
          pose proof (local_form_nonneg (h (i - 1)) (h i) (kkR (j - 1)) (kkR j) (arr i j) (att i j) (art i j)
                        (x i j - x (i - 1)%Z j) (x (i + 1)%Z j - x i j)
                        (x i j - x i (wt nth (j - 1))) (x i (wt nth (j + 1)) - x i j)
                        (Hh _) (Hh _) (Hk _) (Hk _) (Harr _ _) (Hatt _ _) (Hdisc' _ _)) as Hl.
          assert (0 <= x i j ^ 2) by apply pow2_ge_0.
          destruct (local_form_zero (h (i - 1)) (h i) (kkR (j - 1)) (kkR j) (arr i j) (att i j) (art i j)
                        (x i j - x (i - 1)%Z j) (x (i + 1)%Z j - x i j)
                        (x i j - x i (wt nth (j - 1))) (x i (wt nth (j + 1)) - x i j)
                        (Hh _) (Hh _) (Hk _) (Hk _) (Harr _ _) (Hatt _ _) (Hdisc _ _)) as [D1 _]; [nra|].
          assert (Hxi : x i j = 0) by (unfold i; apply IH; [lia|exact Hj]).
          replace (nr - 1 - Z.of_nat (S (S d')))%Z with (i - 1)%Z by (unfold i; lia). lra. }
    intros i j Hi Hj. replace i with (nr - 1 - Z.of_nat (Z.to_nat (nr - 1 - i)))%Z by lia. apply P; [lia|exact Hj].
  Qed.

  (* hence <A x, x> > 0 for every x that vanishes on the Dirichlet nodes and is non-zero somewhere on the grid *)
  Theorem form_positive_definite nodes x :
    (forall p, In p nodes -> (0 <= fst p < nr)%Z) ->
    (forall i j, (0 <= i < nr)%Z -> (0 <= j < nth)%Z -> In (i, j) nodes) ->
    vanishes_on_dirichlet nr dirbc x ->
    (exists i j, (0 <= i < nr)%Z /\ (0 <= j < nth)%Z /\ x i j <> 0) ->
    0 < @form Rsc nr nth h k R0 arr att art det beta dirbc nodes x x.
  Proof.
    intros Hn Hall Hx [i [j [Hi [Hj Hne]]]].
    assert (H0 : 0 <= @form Rsc nr nth h k R0 arr att art det beta dirbc nodes x x) by (apply form_nonneg; assumption).
    destruct (Req_dec (@form Rsc nr nth h k R0 arr att art det beta dirbc nodes x x) 0) as [E|E]; [|lra].
    exfalso. apply Hne. eapply form_zero_iff_zero; eassumption.
  Qed.
End Definite.
