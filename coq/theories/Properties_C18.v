(* Properties_C18.v -- statements only.  C18: generated grids are valid, nested and coarsenable.
   Model: GridGenDefs.v (hand-written from src/PolarGrid/polargrid.cpp, anisotropic_division.cpp,
   src/GMGPolar/setup.cpp); tie: K-gridgen (window indices through the guarded trace hook, sizes, level
   counts and every generated radius / angle compared with the extracted model). *)
From Coq Require Import ZArith Bool List Reals Lia.
From GMGP Require Import Scalar ScalarR GridGenDefs GridGenProofs.
Local Open Scope Z_scope.

(* ---- anisotropic division: index safety for EVERY accepted parameter triple (no side condition) ---- *)
Theorem C18_aniso_accepted_reads_in_bounds : forall nr_exp a p x,
  aniso_accept nr_exp a p = Some x -> aniso_in_bounds x = true.
Proof. exact aniso_accept_in_bounds. Qed.

(* the three copy loops write every entry of the result exactly once and nothing else *)
Theorem C18_aniso_output_partition : forall nr_exp a p x s, aniso_accept nr_exp a p = Some x -> 0 <= s ->
  0 <= an_se x /\ 0 <= an_nequi x - an_ee x + 1 /\
  an_se x + s + (an_nequi x - an_ee x + 1) = aniso_out_size x s.
Proof. exact aniso_output_partition. Qed.

(* the window arithmetic alone (before the guard) is safe exactly under this precondition ... *)
Theorem C18_aniso_window_in_bounds : forall nr_exp a p x,
  1 <= a -> aniso_indices nr_exp a p = Some x ->
  Z.quot (an_nref x) 2 <= p -> p <= an_nr x - 1 -> aniso_in_bounds x = true.
Proof. exact aniso_indices_in_bounds. Qed.

(* ... and NOT without it (finding F5, repaired by the guard): the command-line default refinement
   radius and a refinement radius inside the domain close to R0 *)
Theorem C18_aniso_unguarded_window_refuted :
  (exists x, aniso_indices 4 2 (-1) = Some x /\ an_se x = -3 /\ aniso_in_bounds x = false) /\
  (exists x, aniso_indices 4 3 1 = Some x /\ an_se x = -3 /\ aniso_in_bounds x = false).
Proof. exact aniso_oob_refuted. Qed.
Example C18_aniso_accept_nonvacuous :
  (exists x, aniso_accept 4 2 8 = Some x) /\ aniso_accept 4 2 (-1) = None /\ aniso_accept 4 3 1 = None.
Proof. vm_compute. split; [eexists; reflexivity|split; reflexivity]. Qed.

(* ---- the number of levels setup() reports is admitted by the grid ---- *)
Theorem C18_levels_admitted : forall nr nt maxl L, 0 <= nr -> choose_levels nr nt maxl = Some L ->
  2 <= L /\
  forall j, (Z.of_nat j < L - 1) ->
    (Z.odd (coarsen_nr j nr) = true /\ 5 <= coarsen_nr (S j) nr) /\
    (Z.rem (coarsen_nt j nt) 2 = 0 /\ 4 <= coarsen_nt (S j) nt /\ Z.rem (coarsen_nt (S j) nt) 2 = 0).
Proof. exact levels_admitted. Qed.
Example C18_levels_nonvacuous : choose_levels 33 64 (-1) = Some 4 /\ choose_levels 33 64 2 = Some 2 /\ choose_levels 4 8 (-1) = None.
Proof. vm_compute. repeat split. Qed.

(* ---- validity of the generated divisions (exact arithmetic) ---- *)
Local Open Scope R_scope.
Theorem C18_uniform_radii_valid : forall R0 R n, R0 < R -> (2 <= n)%nat ->
  nth 0 (@uniform_radii Rsc R0 R n) 0 = R0 /\
  last (@uniform_radii Rsc R0 R n) 0 = R /\
  (forall i, (i + 1 < n)%nat -> nth i (@uniform_radii Rsc R0 R n) 0 < nth (i + 1) (@uniform_radii Rsc R0 R n) 0).
Proof. exact uniform_grid_valid. Qed.

Theorem C18_refinement_is_midpoint_nested : forall (r : list R) i, (i + 1 < length r)%nat ->
  nth (2 * i) (@refine_mid Rsc r) 0 = nth i r 0 /\
  nth (2 * i + 1) (@refine_mid Rsc r) 0 = (nth i r 0 + nth (i + 1) r 0) / 2.
Proof. exact refine_mid_nth. Qed.

Theorem C18_refinement_keeps_order_and_ends : forall (r : list R), (1 <= length r)%nat -> increasing r ->
  increasing (@refine_mid Rsc r) /\ nth 0 (@refine_mid Rsc r) 0 = nth 0 r 0 /\
  last (@refine_mid Rsc r) 0 = last r 0.
Proof. exact refine_mid_increasing. Qed.

Theorem C18_divide_nested : forall a b d j, (j < 2 ^ d)%nat ->
  nth (2 * j) (@div_segment Rsc a b (S d)) 0 = nth j (@div_segment Rsc a b d) 0 /\
  nth (2 * j + 1) (@div_segment Rsc a b (S d)) 0 =
    (nth j (@div_segment Rsc a b d) 0 + (if (j + 1 <? 2 ^ d)%nat then nth (j + 1) (@div_segment Rsc a b d) 0 else b)) / 2.
Proof. exact div_segment_nested. Qed.

Theorem C18_angles_uniform_antipodal : forall (tau : R) n i, (0 < n)%nat -> Nat.even n = true -> (i < n / 2)%nat ->
  nth (i + n / 2) (@uniform_angles Rsc tau n) 0 = nth i (@uniform_angles Rsc tau n) 0 + tau / 2 /\
  nth n (@uniform_angles Rsc tau n) 0 = tau /\
  (forall j, (j < n)%nat -> nth j (@uniform_angles Rsc tau n) 0 = INR j * (tau / INR n)).
Proof. exact uniform_angles_antipodal. Qed.

(* the order check evaluated on the implementation's radii (K-gridgen) is sound *)
Theorem C18_order_check_sound : forall (l : list R), @increasing_b Rsc l = true -> increasing l.
Proof. exact increasing_b_sound. Qed.
