(* InputFnDefs.v -- C19: reified real expressions for the shipped input functions (geometry mappings, Jacobians,
   exact solutions, boundary data, profile coefficients, source terms), their evaluation, a symbolic partial
   derivative and the polar-coordinate form of  -div(alpha grad u) + beta u  for a mapped domain.
   The expressions themselves are regenerated from the C++ sources by translate/t7_input_functions.py
   (gen/InputFunctionsGen.v). *)
From Coq Require Import Reals ZArith List.
Local Open Scope R_scope.

Inductive ex : Type :=
| EVar (i : nat)                  (* 0 = r, 1 = theta, 2.. = class parameters (Rmax, kappa, ...) *)
| ECst (n : Z) (d : positive)     (* the decimal literal n / d *)
| EPi
| EAdd (a b : ex) | ESub (a b : ex) | EMul (a b : ex) | EDiv (a b : ex) | ENeg (a : ex)
| EPow (a : ex) (n : nat)
| ESin (a : ex) | ECos (a : ex) | EExp (a : ex) | ETanh (a : ex) | ESqrt (a : ex) | EAtan (a : ex).

Fixpoint eval (env : nat -> R) (e : ex) : R :=
  match e with
  | EVar i => env i
  | ECst n d => IZR n / IZR (Zpos d)
  | EPi => PI
  | EAdd a b => eval env a + eval env b
  | ESub a b => eval env a - eval env b
  | EMul a b => eval env a * eval env b
  | EDiv a b => eval env a / eval env b
  | ENeg a => - eval env a
  | EPow a n => eval env a ^ n
  | ESin a => sin (eval env a)
  | ECos a => cos (eval env a)
  | EExp a => exp (eval env a)
  | ETanh a => tanh (eval env a)
  | ESqrt a => sqrt (eval env a)
  | EAtan a => atan (eval env a)
  end.

Definition E0 := ECst 0 1.
Definition E1 := ECst 1 1.
Definition E2 := ECst 2 1.

(* symbolic partial derivative with respect to variable i *)
Fixpoint D (i : nat) (e : ex) : ex :=
  match e with
  | EVar j => if Nat.eqb i j then E1 else E0
  | ECst _ _ => E0
  | EPi => E0
  | EAdd a b => EAdd (D i a) (D i b)
  | ESub a b => ESub (D i a) (D i b)
  | EMul a b => EAdd (EMul (D i a) b) (EMul a (D i b))
  | EDiv a b => EDiv (ESub (EMul (D i a) b) (EMul a (D i b))) (EPow b 2)
  | ENeg a => ENeg (D i a)
  | EPow a n => EMul (EMul (ECst (Z.of_nat n) 1) (D i a)) (EPow a (pred n))
  | ESin a => EMul (D i a) (ECos a)
  | ECos a => EMul (D i a) (ENeg (ESin a))
  | EExp a => EMul (D i a) (EExp a)
  | ETanh a => EMul (D i a) (ESub E1 (EPow (ETanh a) 2))
  | ESqrt a => EDiv (D i a) (EMul E2 (ESqrt a))
  | EAtan a => EDiv (D i a) (EAdd E1 (EPow a 2))
  end.

(* the points at which an expression (and hence its symbolic derivative) is meaningful *)
Fixpoint defined (env : nat -> R) (e : ex) : Prop :=
  match e with
  | EVar _ | ECst _ _ | EPi => True
  | EAdd a b | ESub a b | EMul a b => defined env a /\ defined env b
  | EDiv a b => defined env a /\ defined env b /\ eval env b <> 0
  | ENeg a | EPow a _ | ESin a | ECos a | EExp a | ETanh a | EAtan a => defined env a
  | ESqrt a => defined env a /\ 0 < eval env a
  end.

Definition upd (env : nat -> R) (i : nat) (x : R) : nat -> R := fun j => if Nat.eqb i j then x else env j.

(* ---- the elliptic operator on a domain mapped by (Fx, Fy)(r, theta) ----
   DF = [Jrr Jrt; Jtr Jtt],  det = Jrr Jtt - Jrt Jtr,  DF^T DF = [arr art; art att],
   -div(alpha grad u) + beta u
     = -(1/det) [ d/dr ( alpha (att u_r - art u_t) / det ) + d/dt ( alpha (arr u_t - art u_r) / det ) ] + beta u *)
Record geometry := { gFx : ex; gFy : ex }.

Definition Jrr g := D 0 (gFx g).
Definition Jrt g := D 1 (gFx g).
Definition Jtr g := D 0 (gFy g).
Definition Jtt g := D 1 (gFy g).
Definition gdet g := ESub (EMul (Jrr g) (Jtt g)) (EMul (Jrt g) (Jtr g)).
Definition garr g := EAdd (EPow (Jrr g) 2) (EPow (Jtr g) 2).
Definition gart g := EAdd (EMul (Jrr g) (Jrt g)) (EMul (Jtr g) (Jtt g)).
Definition gatt g := EAdd (EPow (Jrt g) 2) (EPow (Jtt g) 2).

Definition flux_r g (alpha u : ex) : ex :=
  EDiv (EMul alpha (ESub (EMul (gatt g) (D 0 u)) (EMul (gart g) (D 1 u)))) (gdet g).
Definition flux_t g (alpha u : ex) : ex :=
  EDiv (EMul alpha (ESub (EMul (garr g) (D 1 u)) (EMul (gart g) (D 0 u)))) (gdet g).
Definition pde g (alpha beta u : ex) : ex :=
  EAdd (ENeg (EDiv (EAdd (D 0 (flux_r g alpha u)) (D 1 (flux_t g alpha u))) (gdet g))) (EMul beta u).
