(* InputFnClosed.v -- C19: Jacobians of the three closed-form geometries are the partial derivatives of their
   mappings; gyro profiles have beta = 1/alpha; boundary data are the exact solutions.  All objects named gen_*
   are regenerated from the C++ sources on every run (translate/t7_input_functions.py). *)
From Coq Require Import Reals ZArith Lra.
From Coquelicot Require Import Coquelicot.
From Interval Require Import Tactic.
From GMGP Require Import InputFnDefs InputFnProofs InputFnTactics.
From GMGPGen Require Import InputFunctionsGen.
Local Open Scope R_scope.

(* [partials Fx Fy a b c d env]: a, b are the r- and theta-derivatives of Fx, c, d those of Fy, at the point env *)
Definition partials (Fx Fy dxr dxt dyr dyt : ex) (env : nat -> R) : Prop :=
  is_derive (fun x => eval (upd env 0 x) Fx) (env 0%nat) (eval env dxr) /\
  is_derive (fun x => eval (upd env 1 x) Fx) (env 1%nat) (eval env dxt) /\
  is_derive (fun x => eval (upd env 0 x) Fy) (env 0%nat) (eval env dyr) /\
  is_derive (fun x => eval (upd env 1 x) Fy) (env 1%nat) (eval env dyt).

Lemma partials_of_D Fx Fy dxr dxt dyr dyt env :
  defined env Fx -> defined env Fy ->
  eval env (D 0 Fx) = eval env dxr -> eval env (D 1 Fx) = eval env dxt ->
  eval env (D 0 Fy) = eval env dyr -> eval env (D 1 Fy) = eval env dyt ->
  partials Fx Fy dxr dxt dyr dyt env.
Proof.
  intros H1 H2 E1 E2 E3 E4. unfold partials. rewrite <- E1, <- E2, <- E3, <- E4.
  repeat split; apply D_is_partial_derivative; assumption.
Qed.

(* ---- circular ---- *)
Theorem jacobian_circular env : env 2%nat <> 0 ->
  partials gen_CircularGeometry_Fx gen_CircularGeometry_Fy gen_CircularGeometry_dFx_dr gen_CircularGeometry_dFx_dt
           gen_CircularGeometry_dFy_dr gen_CircularGeometry_dFy_dt env.
Proof.
  intros H. apply partials_of_D; cbn; try (repeat split; exact H); field; exact H.
Qed.

(* ---- Shafranov (all kappa, delta) ---- *)
Theorem jacobian_shafranov env : env 2%nat <> 0 ->
  partials gen_ShafranovGeometry_Fx gen_ShafranovGeometry_Fy gen_ShafranovGeometry_dFx_dr gen_ShafranovGeometry_dFx_dt
           gen_ShafranovGeometry_dFy_dr gen_ShafranovGeometry_dFy_dt env.
Proof.
  intros H. apply partials_of_D; cbn; try (repeat split; exact H); field; exact H.
Qed.

(* ---- Czarny ---- *)
Definition czA (env : nat -> R) : R := 1 + env 3%nat * (env 3%nat + 2 * (env 0%nat / env 2%nat) * cos (env 1%nat)).

(* the side conditions follow from the documented parameter ranges *)
Lemma czarny_ranges env : 0 < env 2%nat -> 0 <= env 0%nat <= env 2%nat -> 0 < env 3%nat < 1 ->
  env 2%nat <> 0 /\ env 3%nat <> 0 /\ 0 < czA env /\ sqrt (czA env) <> 2 /\ 0 < 1 - env 3%nat * env 3%nat / 4.
Proof.
  intros HR Hr He. unfold czA.
  set (rho := env 0%nat / env 2%nat).
  assert (Hrho : 0 <= rho <= 1).
  { unfold rho. split.
    - apply Rmult_le_pos; [lra|]. apply Rlt_le, Rinv_0_lt_compat; exact HR.
    - apply (Rmult_le_reg_r (env 2%nat)); [exact HR|]. unfold Rdiv. rewrite Rmult_assoc, Rinv_l by lra. lra. }
  pose proof (COS_bound (env 1%nat)) as [Hc1 Hc2].
  set (c := cos (env 1%nat)) in *. set (e := env 3%nat) in *.
  assert (Hp : -1 <= rho * c <= 1) by nra.
  assert (HA1 : (1 - e) * (1 - e) <= 1 + e * (e + 2 * rho * c)) by nra.
  assert (HA2 : 1 + e * (e + 2 * rho * c) < 2 * 2) by nra.
  assert (HA0 : 0 < 1 + e * (e + 2 * rho * c)) by nra.
  repeat split; try lra; try nra.
  intros Hs. assert (Hlt : sqrt (1 + e * (e + 2 * rho * c)) < sqrt (2 * 2)) by (apply sqrt_lt_1; lra).
  rewrite sqrt_square in Hlt by lra. lra.
Qed.

Theorem jacobian_czarny env :
  env 2%nat <> 0 -> env 3%nat <> 0 -> 0 < czA env -> sqrt (czA env) <> 2 -> 0 < 1 - env 3%nat * env 3%nat / 4 ->
  partials gen_CzarnyGeometry_Fx gen_CzarnyGeometry_Fy gen_CzarnyGeometry_dFx_dr gen_CzarnyGeometry_dFx_dt
           gen_CzarnyGeometry_dFy_dr gen_CzarnyGeometry_dFy_dt env.
Proof.
  intros HR He HA HS Hx. unfold czA in *.
  apply partials_of_D; cbn;
    replace (0 / 1) with 0 by field; replace (1 / 1) with 1 by field; replace (2 / 1) with 2 by field; replace (4 / 1) with 4 by field;
    set (A1 := 1 + env 3%nat * (env 3%nat + 2 * (env 0%nat / env 2%nat) * cos (env 1%nat))) in *;
    try replace (env 3%nat * (2 * (env 0%nat / env 2%nat) * cos (env 1%nat) + env 3%nat) + 1) with A1 by (unfold A1; ring);
    assert (HS0 : sqrt A1 <> 0) by (apply Rgt_not_eq, sqrt_lt_R0; exact HA);
    assert (HX0 : sqrt (1 - env 3%nat * env 3%nat / 4) <> 0) by (apply Rgt_not_eq, sqrt_lt_R0; exact Hx);
    set (S := sqrt A1) in *; set (X := sqrt (1 - env 3%nat * env 3%nat / 4)) in *;
    assert (HS2 : 1 + (1 - S) <> 0) by lra; assert (HS3 : 2 - S <> 0) by lra;
    try (repeat split; try assumption; try lra; exact I); try (field; repeat split; assumption).
Qed.

Theorem jacobian_czarny_documented_ranges env :
  0 < env 2%nat -> 0 <= env 0%nat <= env 2%nat -> 0 < env 3%nat < 1 ->
  partials gen_CzarnyGeometry_Fx gen_CzarnyGeometry_Fy gen_CzarnyGeometry_dFx_dr gen_CzarnyGeometry_dFx_dt
           gen_CzarnyGeometry_dFy_dr gen_CzarnyGeometry_dFy_dt env.
Proof.
  intros HR Hr He. destruct (czarny_ranges env HR Hr He) as [H1 [H2 [H3 [H4 H5]]]].
  apply jacobian_czarny; assumption.
Qed.

(* ---- gyro profiles: beta = 1 / alpha ---- *)
Theorem gyro_zoni env : env 2%nat <> 0 ->
  eval env gen_ZoniGyroCoefficients_alpha * eval env gen_ZoniGyroCoefficients_beta = 1.
Proof. intros H. cbn. rewrite <- exp_plus, Rplus_opp_l. apply exp_0. Qed.

Theorem gyro_zoni_shifted env : env 2%nat <> 0 ->
  eval env gen_ZoniShiftedGyroCoefficients_alpha * eval env gen_ZoniShiftedGyroCoefficients_beta = 1.
Proof. intros H. cbn. rewrite <- exp_plus, Rplus_opp_l. apply exp_0. Qed.

Theorem gyro_sonnendrucker env : eval env gen_SonnendruckerGyroCoefficients_alpha <> 0 ->
  eval env gen_SonnendruckerGyroCoefficients_alpha * eval env gen_SonnendruckerGyroCoefficients_beta = 1.
Proof. cbn. intros H. match goal with H : ?a <> 0 |- _ => set (x := a) in * end. field. exact H. Qed.

Lemma sonnendrucker_alpha_pos rho : 0 <= rho <= 1 ->
  0 < 113240418118467 / 250000000000000 - 348432055749129 / 1000000000000000 *
      atan (36111111111111 / 2500000000000 * rho - 111111111111111 / 10000000000000).
Proof. intros H. interval. Qed.

(* on the domain 0 <= r <= Rmax the Sonnendrucker alpha is positive (interval arithmetic), so beta = 1/alpha there *)
Theorem gyro_sonnendrucker_on_domain env : 0 < env 2%nat -> 0 <= env 0%nat <= env 2%nat ->
  0 < eval env gen_SonnendruckerGyroCoefficients_alpha /\
  eval env gen_SonnendruckerGyroCoefficients_alpha * eval env gen_SonnendruckerGyroCoefficients_beta = 1.
Proof.
  intros HR Hr.
  assert (Hrho : 0 <= env 0%nat / env 2%nat <= 1).
  { split.
    - apply Rmult_le_pos; [lra|]. apply Rlt_le, Rinv_0_lt_compat; exact HR.
    - apply (Rmult_le_reg_r (env 2%nat)); [exact HR|]. unfold Rdiv. rewrite Rmult_assoc, Rinv_l by lra. lra. }
  assert (Hpos : 0 < eval env gen_SonnendruckerGyroCoefficients_alpha) by (cbn; apply sonnendrucker_alpha_pos; exact Hrho).
  split; [exact Hpos|]. apply gyro_sonnendrucker. lra.
Qed.

(* non-gyro profiles have beta = 0 *)
Theorem nongyro_beta_zero env :
  eval env gen_PoissonCoefficients_beta = 0 /\ eval env gen_ZoniCoefficients_beta = 0 /\
  eval env gen_ZoniShiftedCoefficients_beta = 0 /\ eval env gen_SonnendruckerCoefficients_beta = 0.
Proof. cbn. repeat split; field. Qed.

(* ---- boundary data are the exact solutions (as expressions, hence at every point) ---- *)
Theorem boundary_is_exact :
  gen_CartesianR2_Boundary_CircularGeometry_u_D = gen_CartesianR2_CircularGeometry_exact_solution /\
  gen_CartesianR2_Boundary_CircularGeometry_u_D_Interior = gen_CartesianR2_CircularGeometry_exact_solution /\
  gen_CartesianR2_Boundary_ShafranovGeometry_u_D = gen_CartesianR2_ShafranovGeometry_exact_solution /\
  gen_CartesianR2_Boundary_ShafranovGeometry_u_D_Interior = gen_CartesianR2_ShafranovGeometry_exact_solution /\
  gen_CartesianR2_Boundary_CzarnyGeometry_u_D = gen_CartesianR2_CzarnyGeometry_exact_solution /\
  gen_CartesianR2_Boundary_CzarnyGeometry_u_D_Interior = gen_CartesianR2_CzarnyGeometry_exact_solution /\
  gen_CartesianR6_Boundary_CircularGeometry_u_D = gen_CartesianR6_CircularGeometry_exact_solution /\
  gen_CartesianR6_Boundary_CircularGeometry_u_D_Interior = gen_CartesianR6_CircularGeometry_exact_solution /\
  gen_CartesianR6_Boundary_ShafranovGeometry_u_D = gen_CartesianR6_ShafranovGeometry_exact_solution /\
  gen_CartesianR6_Boundary_ShafranovGeometry_u_D_Interior = gen_CartesianR6_ShafranovGeometry_exact_solution /\
  gen_CartesianR6_Boundary_CzarnyGeometry_u_D = gen_CartesianR6_CzarnyGeometry_exact_solution /\
  gen_CartesianR6_Boundary_CzarnyGeometry_u_D_Interior = gen_CartesianR6_CzarnyGeometry_exact_solution /\
  gen_PolarR6_Boundary_CircularGeometry_u_D = gen_PolarR6_CircularGeometry_exact_solution /\
  gen_PolarR6_Boundary_CircularGeometry_u_D_Interior = gen_PolarR6_CircularGeometry_exact_solution /\
  gen_PolarR6_Boundary_ShafranovGeometry_u_D = gen_PolarR6_ShafranovGeometry_exact_solution /\
  gen_PolarR6_Boundary_ShafranovGeometry_u_D_Interior = gen_PolarR6_ShafranovGeometry_exact_solution /\
  gen_PolarR6_Boundary_CzarnyGeometry_u_D = gen_PolarR6_CzarnyGeometry_exact_solution /\
  gen_PolarR6_Boundary_CzarnyGeometry_u_D_Interior = gen_PolarR6_CzarnyGeometry_exact_solution /\
  gen_Refined_Boundary_CircularGeometry_u_D = gen_Refined_CircularGeometry_exact_solution /\
  gen_Refined_Boundary_CircularGeometry_u_D_Interior = gen_Refined_CircularGeometry_exact_solution /\
  gen_Refined_Boundary_ShafranovGeometry_u_D = gen_Refined_ShafranovGeometry_exact_solution /\
  gen_Refined_Boundary_ShafranovGeometry_u_D_Interior = gen_Refined_ShafranovGeometry_exact_solution /\
  gen_Refined_Boundary_CzarnyGeometry_u_D = gen_Refined_CzarnyGeometry_exact_solution /\
  gen_Refined_Boundary_CzarnyGeometry_u_D_Interior = gen_Refined_CzarnyGeometry_exact_solution.
Proof. repeat split; reflexivity. Qed.
