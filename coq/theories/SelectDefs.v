(* SelectDefs.v -- C19: what GMGPolar::selectTestCase must select for an accepted option combination.
   The shipped classes are named  <Problem>_<Profile>_<Geometry>Geometry (source term),  <Problem>_<Geometry>Geometry (exact
   solution),  <Problem>_Boundary_<Geometry>Geometry,  <Profile>Coefficients,  <Geometry>Geometry; the C19 theorems about
   source terms / boundary data are stated per class, i.e. per (problem, profile, geometry) name triple.  A combination is
   consistent when all five selected classes carry the names of the same triple and receive the geometry's parameters in the
   order (Rmax, kappa_eps, delta_e) their constructors declare. *)
From Coq Require Import List ZArith String Bool.
Import ListNotations.
Local Open Scope string_scope.

Definition sel := option (string * string).

Definition geo_name (g : Z) : string :=
  match g with 0%Z => "Circular" | 1%Z => "Shafranov" | 2%Z => "Czarny" | 3%Z => "Culham" | _ => "?" end.
Definition geo_args (g : Z) : string :=
  match g with 1%Z | 2%Z => "Rmax_, kappa_eps_, delta_e_" | _ => "Rmax_" end.
Definition prob_name (p : Z) : string :=
  match p with 0%Z => "CartesianR2" | 1%Z => "CartesianR6" | 2%Z => "PolarR6" | 3%Z => "Refined" | _ => "?" end.
Definition gyro (b : Z) : string := match b with 1%Z => "Gyro" | _ => "" end.
Definition prof_name (a b : Z) : string :=
  match a with
  | 0%Z => "Poisson"
  | 1%Z => "Sonnendrucker" ++ gyro b
  | 2%Z => "Zoni" ++ gyro b
  | 3%Z => "ZoniShifted" ++ gyro b
  | _ => "?"
  end.

Definition expected (g p a b : Z) : sel * sel * sel * sel * sel :=
  (Some (geo_name g ++ "Geometry", geo_args g),
   Some (prof_name a b ++ "Coefficients", "Rmax_, alpha_jump_"),
   Some (prob_name p ++ "_" ++ geo_name g ++ "Geometry", geo_args g),
   Some (prob_name p ++ "_Boundary_" ++ geo_name g ++ "Geometry", geo_args g),
   Some (prob_name p ++ "_" ++ prof_name a b ++ "_" ++ geo_name g ++ "Geometry", geo_args g)).

Definition sel_eqb (x y : sel) : bool :=
  match x, y with
  | Some (a, b), Some (c, d) => String.eqb a c && String.eqb b d
  | None, None => true
  | _, _ => false
  end.
Definition sel5_eqb (x y : sel * sel * sel * sel * sel) : bool :=
  let '(a1, a2, a3, a4, a5) := x in let '(b1, b2, b3, b4, b5) := y in
  sel_eqb a1 b1 && sel_eqb a2 b2 && sel_eqb a3 b3 && sel_eqb a4 b4 && sel_eqb a5 b5.

Definition row_ok (row : (Z * Z * Z * Z) * option (sel * sel * sel * sel * sel)) : bool :=
  let '(g, p, a, b) := fst row in
  match snd row with
  | None => true
  | Some s => sel5_eqb s (expected g p a b)
  end.

Definition all_combinations : list (Z * Z * Z * Z) :=
  flat_map (fun g => flat_map (fun p => flat_map (fun a => map (fun b => (g, p, a, b)) [0; 1]%Z) [0; 1; 2; 3]%Z) [0; 1; 2; 3]%Z) [0; 1; 2; 3]%Z.

Lemma sel_eqb_eq x y : sel_eqb x y = true -> x = y.
Proof.
  destruct x as [[a b]|], y as [[c d]|]; cbn; try discriminate; try reflexivity.
  intros H. apply andb_true_iff in H. destruct H as [H1 H2]. apply String.eqb_eq in H1, H2. subst. reflexivity.
Qed.
Lemma sel5_eqb_eq x y : sel5_eqb x y = true -> x = y.
Proof.
  destruct x as [[[[a1 a2] a3] a4] a5], y as [[[[b1 b2] b3] b4] b5]. cbn.
  rewrite !andb_true_iff. intros [[[[H1 H2] H3] H4] H5].
  apply sel_eqb_eq in H1, H2, H3, H4, H5. subst. reflexivity.
Qed.
