(* InterpTie.v -- C08: the optimised bilinear prolongation (macro FINE_NODE_PROLONGATION of src/Interpolation/prolongation.cpp) as
   translator T3 regenerates it is the row model InterpDefs.P_row the C08 theorems (R = P^T, convexity, linear exactness,
   P = reference P0) are about: for every fine node it performs exactly one write, result[(i,j)] := (row (i,j) of P) . x. *)
From Coq Require Import List ZArith Bool Reals Lia Lra.
From GMGP Require Import Scalar ScalarR InterpDefs StencilTie.
From GMGPGen Require Import StencilGen.
Import ListNotations.

Section ProlongationTie.
  Variable nr nth : Z.
  Variable h k : Z -> R.
  Hypothesis Hnth : (2 <= nth)%Z.
  Hypothesis Heven : Z.even nth = true.
  Hypothesis Hh : forall x, (0 < h x)%R.
  Hypothesis Hk : forall x, (0 < k x)%R.

  Let nthc := Z.quot nth 2.

  Lemma nthc_facts : (nth = 2 * nthc)%Z /\ (1 <= nthc)%Z.
  Proof.
    unfold nthc. pose proof Heven as He. apply Z.even_spec in He. destruct He as [m Hm].
    assert (Z.quot nth 2 = m) by (rewrite Hm, Z.mul_comm; apply Z.quot_mul; lia). lia.
  Qed.

  Lemma half_bounds j : (0 <= j < nth)%Z -> (0 <= Z.quot j 2 < nthc)%Z.
  Proof.
    intros Hj. destruct nthc_facts as [E _]. rewrite Z.quot_div_nonneg by lia.
    split; [apply Z.div_pos; lia|apply Z.div_lt_upper_bound; lia].
  Qed.

  Theorem gen_prolongation_is_model : forall (x : Z -> Z -> R) (i j : Z), (0 <= i < nr)%Z -> (0 <= j < nth)%Z ->
    @gen_prolongation Rsc nth nthc h k x i j =
    [ (((i, j), W_result_WAssign), @apply_row2 Rsc (@P_row Rsc nth h k i j) x) ].
  Proof.
    intros x i j Hi Hj. destruct nthc_facts as [E Hc]. pose proof (half_bounds j Hj) as Hq.
    unfold gen_prolongation, P_row, Pr_row, Pt_row, tensor, kw, odd, InterpDefs.nthc. fold nthc. cbv zeta.
    rewrite ?wrapT_idem. rewrite ?(wrapT_small nth j Hj). rewrite ?(wrapT_small nthc (Z.quot j 2) Hq).
    rewrite ?(wrapT_wrap1 nth (j - 1)) by lia. rewrite ?(wrap1_small nth j Hj).
    rewrite ?(wrapT_wrap1 nthc (Z.quot j 2 + 1)) by lia.
    pose proof (Hh (i - 1)%Z). pose proof (Hh i). pose proof (Hk (wrap1 nth (j - 1))). pose proof (Hk j).
    destruct (Z.odd i); destruct (Z.odd j); cbn [app flat_map map fst snd apply_row2 fold_right];
      rewrite ?app_nil_r; f_equal; f_equal; rsc; field; lra.
  Qed.

  (* the extrapolated prolongation (macro FINE_NODE_EXTRAPOLATED_PROLONGATION): index-space 1/2 weights on the 7-point pattern *)
  Theorem gen_extrapolated_prolongation_is_model : forall (x : Z -> Z -> R) (i j : Z), (0 <= i < nr)%Z -> (0 <= j < nth)%Z ->
    @gen_extrapolated_prolongation Rsc nth nthc x i j =
    [ (((i, j), W_result_WAssign), @apply_row2 Rsc (@Pex_row Rsc nth i j) x) ].
  Proof.
    intros x i j Hi Hj. destruct nthc_facts as [E Hc]. pose proof (half_bounds j Hj) as Hq.
    unfold gen_extrapolated_prolongation, Pex_row, odd, InterpDefs.nthc. fold nthc. cbv zeta.
    rewrite ?wrapT_idem. rewrite ?(wrapT_small nth j Hj). rewrite ?(wrapT_small nthc (Z.quot j 2) Hq).
    rewrite ?(wrapT_wrap1 nthc (Z.quot j 2 + 1)) by lia.
    destruct (Z.odd i); destruct (Z.odd j); cbn [app fst snd apply_row2 fold_right];
      rewrite ?app_nil_r; f_equal; f_equal; rsc; field.
  Qed.
End ProlongationTie.

(* ---- the optimised full-weighting restriction (the two loop nests of Interpolation::applyRestriction) as T3 regenerates them:
   one write per coarse node, result[(ic,jc)] := (row (ic,jc) of the model R) . x; with C08_R_is_P_transpose this makes
   "restriction = prolongation^T" a statement about the two source files as they are now ---- *)
Section RestrictionTie.
  Variable nr nth nscc : Z.
  Variable h k : Z -> R.
  Hypothesis Hnth : (2 <= nth)%Z.
  Hypothesis Heven : Z.even nth = true.
  Hypothesis Hnr : (3 <= nr)%Z.
  Hypothesis Hodd : Z.odd nr = true.
  Hypothesis Hh : forall x, (0 < h x)%R.
  Hypothesis Hk : forall x, (0 < k x)%R.

  Let nthc := Z.quot nth 2.
  Let nrc := Z.quot (nr + 1) 2.
  Hypothesis Hnscc : (0 <= nscc <= nrc)%Z.      (* the coarse grid's circle / radial split *)

  Lemma nthc_facts' : (nth = 2 * nthc)%Z /\ (1 <= nthc)%Z.
  Proof.
    unfold nthc. pose proof Heven as He. apply Z.even_spec in He. destruct He as [m Hm].
    assert (Z.quot nth 2 = m) by (rewrite Hm, Z.mul_comm; apply Z.quot_mul; lia). lia.
  Qed.
  Lemma nrc_facts : (nr = 2 * nrc - 1)%Z.
  Proof.
    unfold nrc. pose proof Hodd as Ho. apply Z.odd_spec in Ho. destruct Ho as [m Hm].
    assert (Z.quot (nr + 1) 2 = m + 1)%Z by (replace (nr + 1)%Z with ((m + 1) * 2)%Z by lia; apply Z.quot_mul; lia). lia.
  Qed.

  Ltac rwraps jc :=
    rewrite ?wrapT_idem;
    rewrite ?(wrapT_small nthc jc) by lia;
    rewrite ?(wrapT_small nth (2 * jc)) by lia;
    rewrite ?(wrapT_wrap1 nth (2 * jc - 2)) by lia;
    rewrite ?(wrapT_wrap1 nth (2 * jc - 1)) by lia;
    rewrite ?(wrapT_wrap1 nth (2 * jc + 1)) by lia;
    rewrite ?(wrap1_small nth (2 * jc)) by lia.

  Theorem gen_restriction_is_model : forall (x : Z -> Z -> R) (ic jc : Z), (0 <= ic < nrc)%Z -> (0 <= jc < nthc)%Z ->
    (ic < nscc -> @gen_restriction_circle Rsc nth nthc nrc nscc h k x ic jc =
                  [ (((ic, jc), W_result_WAssign), @apply_row2 Rsc (@R_row Rsc nr nth h k ic jc) x) ])%Z /\
    (nscc <= ic -> @gen_restriction_radial Rsc nth nthc nrc nscc h k x ic jc =
                  [ (((ic, jc), W_result_WAssign), @apply_row2 Rsc (@R_row Rsc nr nth h k ic jc) x) ])%Z.
  Proof.
    intros x ic jc Hi Hj. destruct nthc_facts' as [E Hc]. pose proof nrc_facts as En.
    pose proof (Hh (2 * ic - 2)%Z). pose proof (Hh (2 * ic - 1)%Z). pose proof (Hh (2 * ic)%Z). pose proof (Hh (2 * ic + 1)%Z).
    pose proof (Hk (wrap1 nth (2 * jc - 2))). pose proof (Hk (wrap1 nth (2 * jc - 1))). pose proof (Hk (2 * jc)%Z). pose proof (Hk (wrap1 nth (2 * jc + 1))).
    split; intros Hs;
      [unfold gen_restriction_circle|unfold gen_restriction_radial];
      unfold R_row, Rr_row, Rt_row, tensor, kw, InterpDefs.nrc; fold nrc; cbv zeta;
      replace (ic * 2)%Z with (2 * ic)%Z by lia; replace (jc * 2)%Z with (2 * jc)%Z by lia; rwraps jc;
      (destruct (Z.ltb_spec 0 ic); destruct (Z.ltb_spec ic (nscc - 1)); destruct (Z.ltb_spec nscc ic); destruct (Z.ltb_spec ic (nrc - 1));
       try lia; cbn [andb app flat_map map fst snd apply_row2 fold_right]; rewrite ?app_nil_r; f_equal; f_equal; rsc; field; lra).
  Qed.

  (* the extrapolated restriction (index-space 1/2 weights on the 7-point pattern): model row Rex_row *)
  Theorem gen_extrapolated_restriction_is_model : forall (x : Z -> Z -> R) (ic jc : Z), (0 <= ic < nrc)%Z -> (0 <= jc < nthc)%Z ->
    (ic < nscc -> @gen_extrapolated_restriction_circle Rsc nth nthc nrc nscc x ic jc =
                  [ (((ic, jc), W_result_WAssign), @apply_row2 Rsc (@Rex_row Rsc nr nth ic jc) x) ])%Z /\
    (nscc <= ic -> @gen_extrapolated_restriction_radial Rsc nth nthc nrc nscc x ic jc =
                  [ (((ic, jc), W_result_WAssign), @apply_row2 Rsc (@Rex_row Rsc nr nth ic jc) x) ])%Z.
  Proof.
    intros x ic jc Hi Hj. destruct nthc_facts' as [E Hc]. pose proof nrc_facts as En.
    split; intros Hs;
      [unfold gen_extrapolated_restriction_circle|unfold gen_extrapolated_restriction_radial];
      unfold Rex_row, InterpDefs.nrc; fold nrc; cbv zeta;
      replace (ic * 2)%Z with (2 * ic)%Z by lia; replace (jc * 2)%Z with (2 * jc)%Z by lia; rwraps jc;
      (destruct (Z.ltb_spec 0 ic); destruct (Z.ltb_spec ic (nscc - 1)); destruct (Z.ltb_spec nscc ic); destruct (Z.ltb_spec ic (nrc - 1));
       try lia; cbn [andb app fst snd apply_row2 fold_right]; rewrite ?app_nil_r; f_equal; f_equal; rsc; field).
  Qed.

  (* injection: the coarse node takes the value of the fine node it coincides with (model row Inj_row, a single unit entry) *)
  Theorem gen_injection_is_model : forall (x : Z -> Z -> R) (ic jc : Z), (0 <= ic < nrc)%Z -> (0 <= jc < nthc)%Z ->
    @gen_injection_circle Rsc nth nthc x ic jc = [ (((ic, jc), W_result_WAssign), @apply_row2 Rsc (@Inj_row Rsc ic jc) x) ] /\
    @gen_injection_radial Rsc nth nthc x ic jc = [ (((ic, jc), W_result_WAssign), @apply_row2 Rsc (@Inj_row Rsc ic jc) x) ].
  Proof.
    intros x ic jc Hi Hj. destruct nthc_facts' as [E Hc].
    unfold gen_injection_circle, gen_injection_radial, Inj_row. cbv zeta.
    replace (ic * 2)%Z with (2 * ic)%Z by lia. replace (jc * 2)%Z with (2 * jc)%Z by lia. rwraps jc.
    cbn [apply_row2 fold_right fst snd]. split; f_equal; f_equal; rsc; ring.
  Qed.
End RestrictionTie.


(* ---- the FMG interpolation (macro FINE_NODE_FMG_INTERPOLATION) as T3 regenerates it: one write per fine node,
   result[(i,j)] := (row (i,j) of the model FMG_row) . x, where the coarse grid's own spacing arrays (hcf, kcf) are the sums of
   the two fine spacings they span (coarsening keeps every second node, C17) ---- *)
Section FMGTie.
  Variable nr nth : Z.
  Variable h k hcf kcf : Z -> R.
  Hypothesis Hnth : (4 <= nth)%Z.
  Hypothesis Heven : Z.even nth = true.
  Hypothesis Hnr : (5 <= nr)%Z.
  Hypothesis Hodd : Z.odd nr = true.
  Hypothesis Hh : forall x, (0 < h x)%R.
  Hypothesis Hk : forall x, (0 < k x)%R.
  Let nthc := Z.quot nth 2.
  Hypothesis Hhc : forall c, hcf c = (h (2 * c) + h (2 * c + 1))%R.
  Hypothesis Hkc : forall c, (0 <= c < nthc)%Z -> kcf c = (k (2 * c) + k (2 * c + 1))%R.

  Lemma nthc_facts'' : (nth = 2 * nthc)%Z /\ (2 <= nthc)%Z.
  Proof.
    unfold nthc. pose proof Heven as He. apply Z.even_spec in He. destruct He as [m Hm].
    assert (Z.quot nth 2 = m) by (rewrite Hm, Z.mul_comm; apply Z.quot_mul; lia). lia.
  Qed.

  Lemma wrap1_range n x : (0 < n)%Z -> (- n <= x < 2 * n)%Z -> (0 <= wrap1 n x < n)%Z.
  Proof. intros Hn Hx. unfold wrap1. destruct (Z.ltb_spec x 0); [lia|]. destruct (Z.geb_spec x n); lia. Qed.

  Lemma kc_model c : (- nthc <= c < 2 * nthc)%Z -> @kc Rsc nth k c = kcf (wrap1 nthc c).
  Proof.
    intros Hc. destruct nthc_facts'' as [E H2]. unfold kc, kw, InterpDefs.nthc. fold nthc. cbv zeta.
    pose proof (wrap1_range nthc c ltac:(lia) Hc) as Hr.
    rewrite (Hkc _ Hr). rewrite (wrap1_small nth (2 * wrap1 nthc c)) by lia. rewrite (wrap1_small nth (2 * wrap1 nthc c + 1)) by lia. reflexivity.
  Qed.

  Theorem gen_fmg_interpolation_is_model : forall (x : Z -> Z -> R) (i j : Z), (0 <= i < nr)%Z -> (0 <= j < nth)%Z ->
    @gen_fmg_interpolation Rsc nr nth nthc h k hcf kcf x i j =
    [ (((i, j), W_result_WAssign), @apply_row2 Rsc (@FMG_row Rsc nr nth h k i j) x) ].
  Proof.
    intros x i j Hi Hj. destruct nthc_facts'' as [E H2].
    assert (Hq : (0 <= Z.quot j 2 < nthc)%Z).
    { rewrite Z.quot_div_nonneg by lia. split; [apply Z.div_pos; lia|apply Z.div_lt_upper_bound; lia]. }
    unfold gen_fmg_interpolation, FMG_row, Fr_row, Ft_row, tensor, odd, lag4, hc. cbv zeta.
    rewrite !(kc_model (Z.quot j 2 - 1)) by lia. rewrite !(kc_model (Z.quot j 2 + 1)) by lia.
    unfold kw, InterpDefs.nthc. fold nthc.
    rewrite ?wrapT_idem. rewrite ?(wrapT_small nth j Hj). rewrite ?(wrapT_small nthc (Z.quot j 2) Hq).
    rewrite ?(wrapT_wrap1 nth (j - 1)) by lia. rewrite ?(wrap1_small nth j Hj).
    rewrite ?(wrapT_wrap1 nthc (Z.quot j 2 + 1)) by lia. rewrite ?(wrapT_wrap1 nthc (Z.quot j 2 - 1)) by lia.
    rewrite ?(wrapT_wrap1 nthc (Z.quot j 2 + 2)) by lia.
    rewrite !Hhc.
    pose proof (Hh (i - 1)%Z). pose proof (Hh i). pose proof (Hk (wrap1 nth (j - 1))). pose proof (Hk j).
    pose proof (Hh (2 * (Z.quot i 2 - 1))%Z). pose proof (Hh (2 * (Z.quot i 2 - 1) + 1)%Z).
    pose proof (Hh (2 * (Z.quot i 2 + 1))%Z). pose proof (Hh (2 * (Z.quot i 2 + 1) + 1)%Z).
    pose proof (wrap1_range nthc (Z.quot j 2 - 1) ltac:(lia) ltac:(lia)) as R1.
    pose proof (wrap1_range nthc (Z.quot j 2 + 1) ltac:(lia) ltac:(lia)) as R2.
    rewrite !(Hkc _ R1), !(Hkc _ R2).
    pose proof (Hk (2 * wrap1 nthc (Z.quot j 2 - 1))%Z). pose proof (Hk (2 * wrap1 nthc (Z.quot j 2 - 1) + 1)%Z).
    pose proof (Hk (2 * wrap1 nthc (Z.quot j 2 + 1))%Z). pose proof (Hk (2 * wrap1 nthc (Z.quot j 2 + 1) + 1)%Z).
    destruct (Z.eqb_spec i 0); destruct (Z.eqb_spec i (nr - 1)); destruct (Z.eqb_spec i 1); destruct (Z.eqb_spec i (nr - 2));
      try lia; cbn [orb]; destruct (Z.odd i); destruct (Z.odd j);
      cbn [app flat_map map fst snd apply_row2 fold_right]; rewrite ?app_nil_r; f_equal; f_equal; rsc; try ring;
      (* every weight is a product of quotients with the same denominators on both sides: abstract the inverses, then a polynomial identity *)
      unfold Rdiv; repeat match goal with |- context [(/ ?t)%R] => let v := fresh "v" in generalize (/ t)%R; intro v end; ring.
  Qed.
End FMGTie.
