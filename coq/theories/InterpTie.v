(* InterpTie.v -- C08: the optimised bilinear prolongation (macro FINE_NODE_PROLONGATION of src/Interpolation/prolongation.cpp) as
   translator T3 regenerates it is the row model InterpDefs.P_row the C08 theorems (R = P^T, convexity, linear exactness,
   P = reference P0) are about: for every fine node it performs exactly one write, result[(i,j)] := (row (i,j) of P) . x. *)
From Coq Require Import List ZArith Bool Reals Lia Lra.
From GMGP Require Import Scalar ScalarR InterpDefs StencilTie.
From GMGPGen Require Import StencilGen.
Import ListNotations.

Section ProlongationTie.
  Variable nr nth : Z.
  Variable h k : Z -> R.
  Hypothesis Hnth : (2 <= nth)%Z.
  Hypothesis Heven : Z.even nth = true.
  Hypothesis Hh : forall x, (0 < h x)%R.
  Hypothesis Hk : forall x, (0 < k x)%R.

  Let nthc := Z.quot nth 2.

  Lemma nthc_facts : (nth = 2 * nthc)%Z /\ (1 <= nthc)%Z.
  Proof.
    unfold nthc. pose proof Heven as He. apply Z.even_spec in He. destruct He as [m Hm].
    assert (Z.quot nth 2 = m) by (rewrite Hm, Z.mul_comm; apply Z.quot_mul; lia). lia.
  Qed.

  Lemma half_bounds j : (0 <= j < nth)%Z -> (0 <= Z.quot j 2 < nthc)%Z.
  Proof.
    intros Hj. destruct nthc_facts as [E _]. rewrite Z.quot_div_nonneg by lia.
    split; [apply Z.div_pos; lia|apply Z.div_lt_upper_bound; lia].
  Qed.

  Theorem gen_prolongation_is_model : forall (x : Z -> Z -> R) (i j : Z), (0 <= i < nr)%Z -> (0 <= j < nth)%Z ->
    @gen_prolongation Rsc nth nthc h k x i j =
    [ (((i, j), W_result_WAssign), @apply_row2 Rsc (@P_row Rsc nth h k i j) x) ].
  Proof.
    intros x i j Hi Hj. destruct nthc_facts as [E Hc]. pose proof (half_bounds j Hj) as Hq.
    unfold gen_prolongation, P_row, Pr_row, Pt_row, tensor, kw, odd, InterpDefs.nthc. fold nthc. cbv zeta.
    rewrite ?wrapT_idem. rewrite ?(wrapT_small nth j Hj). rewrite ?(wrapT_small nthc (Z.quot j 2) Hq).
    rewrite ?(wrapT_wrap1 nth (j - 1)) by lia. rewrite ?(wrap1_small nth j Hj).
    rewrite ?(wrapT_wrap1 nthc (Z.quot j 2 + 1)) by lia.
    pose proof (Hh (i - 1)%Z). pose proof (Hh i). pose proof (Hk (wrap1 nth (j - 1))). pose proof (Hk j).
    destruct (Z.odd i); destruct (Z.odd j); cbn [app flat_map map fst snd apply_row2 fold_right];
      rewrite ?app_nil_r; f_equal; f_equal; rsc; field; lra.
  Qed.

  (* the extrapolated prolongation (macro FINE_NODE_EXTRAPOLATED_PROLONGATION): index-space 1/2 weights on the 7-point pattern *)
  Theorem gen_extrapolated_prolongation_is_model : forall (x : Z -> Z -> R) (i j : Z), (0 <= i < nr)%Z -> (0 <= j < nth)%Z ->
    @gen_extrapolated_prolongation Rsc nth nthc x i j =
    [ (((i, j), W_result_WAssign), @apply_row2 Rsc (@Pex_row Rsc nth i j) x) ].
  Proof.
    intros x i j Hi Hj. destruct nthc_facts as [E Hc]. pose proof (half_bounds j Hj) as Hq.
    unfold gen_extrapolated_prolongation, Pex_row, odd, InterpDefs.nthc. fold nthc. cbv zeta.
    rewrite ?wrapT_idem. rewrite ?(wrapT_small nth j Hj). rewrite ?(wrapT_small nthc (Z.quot j 2) Hq).
    rewrite ?(wrapT_wrap1 nthc (Z.quot j 2 + 1)) by lia.
    destruct (Z.odd i); destruct (Z.odd j); cbn [app fst snd apply_row2 fold_right];
      rewrite ?app_nil_r; f_equal; f_equal; rsc; field.
  Qed.
End ProlongationTie.
