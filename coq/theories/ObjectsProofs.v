(* ObjectsProofs.v -- C15: when the generated transfer tables are complete, a copied / moved
   object IS the source (every member, hidden ones included), for every source state. *)
From Coq Require Import String List ZArith Bool.
From GMGP Require Import Scalar TridiagDefs ObjectsDefs.
Import ListNotations.

Section Generic.
  Context {S : Sc}.

  Definition names_match (rules : list rule) (o : @obj S) : Prop :=
    map r_name rules = map fst o.

  (* the target equals the source member for member, whatever the target held before *)
  Theorem complete_target_is_source inv is_move : forall rules (src dst : @obj S),
    forallb (transfers inv is_move) rules = true ->
    length src = length rules -> length dst = length rules ->
    apply_target inv is_move rules src dst = src.
  Proof.
    induction rules as [|r rs IH]; intros src dst Hc Hs Hd.
    - destruct src; [reflexivity|discriminate].
    - destruct src as [|[n sv] src]; [discriminate|]. destruct dst as [|[m dv] dst]; [discriminate|].
      cbn [forallb] in Hc. apply andb_prop in Hc. destruct Hc as [Hr Hc].
      cbn [apply_target]. unfold target_value. rewrite Hr. f_equal.
      apply IH; [assumption| |]; cbn [length] in *; congruence.
  Qed.

  (* a copy leaves the source untouched (all rules SKeep) *)
  Theorem keep_source_unchanged : forall rules (src : @obj S),
    forallb (fun r => match r_src r with SKeep => true | _ => false end) rules = true ->
    length src = length rules -> apply_source rules src = src.
  Proof.
    induction rules as [|r rs IH]; intros src Hk Hs.
    - destruct src; [reflexivity|discriminate].
    - destruct src as [|[n sv] src]; [discriminate|].
      cbn [forallb] in Hk. apply andb_prop in Hk. destruct Hk as [Hr Hk].
      cbn [apply_source]. unfold source_value. destruct (r_src r); try discriminate.
      f_equal. apply IH; [assumption|]. cbn [length] in Hs. congruence.
  Qed.

  (* observational equality: ANY observation of the target equals that of the source *)
  Corollary complete_copy_observationally_equal {O} (observe : @obj S -> O) inv rules src dst :
    copy_complete inv rules = true -> length src = length rules -> length dst = length rules ->
    observe (apply_target inv false rules src dst) = observe src.
  Proof. intros. unfold copy_complete in *. rewrite complete_target_is_source; auto. Qed.

  Corollary complete_move_observationally_equal {O} (observe : @obj S -> O) inv rules src dst :
    move_complete inv rules = true -> length src = length rules -> length dst = length rules ->
    observe (apply_target inv true rules src dst) = observe src.
  Proof.
    intros H ? ?. unfold move_complete in H. apply andb_prop in H. destruct H as [H _].
    rewrite complete_target_is_source; auto.
  Qed.

  (* tri <-> obj round trip: the object representation loses nothing *)
  Lemma tri_obj_roundtrip (t : @tri S) : tri_of_obj (obj_of_tri t) = t.
  Proof. destruct t; reflexivity. Qed.

  (* the statement the property singles out: a line solver copied after it has already solved a
     system solves the same system as the original (for any complete rule table) *)
  Theorem copy_after_solve_solves_same inv rules (t : @tri S) (b0 b : list S) (dst : @obj S) :
    forallb (transfers inv false) rules = true ->
    length rules = 7%nat -> length dst = 7%nat ->
    let t1 := fst (tri_solve t b0) in
    let t2 := tri_of_obj (apply_target inv false rules (obj_of_tri t1) dst) in
    snd (tri_solve t2 b) = snd (tri_solve t1 b) /\ t2 = t1.
  Proof.
    intros Hc Hl Hd t1 t2. assert (E : t2 = t1).
    { subst t2. rewrite complete_target_is_source; [apply tri_obj_roundtrip|assumption| |congruence].
      rewrite Hl. reflexivity. }
    rewrite E. split; reflexivity.
  Qed.
End Generic.
