(* Scalar.v -- the scalar interface the numeric models are polymorphic in, and its
   executable instance over exact rationals (every finite double is a rational). *)
From Coq Require Import ZArith QArith Qreduction Bool.

Record Sc := mkSc {
  T    :> Type;
  s0   : T;
  s1   : T;
  sadd : T -> T -> T;
  ssub : T -> T -> T;
  smul : T -> T -> T;
  sdiv : T -> T -> T;
  sneg : T -> T;
  sltb : T -> T -> bool;      (* strict less-than *)
  seqb : T -> T -> bool
}.

Arguments s0 {_}. Arguments s1 {_}. Arguments sadd {_}. Arguments ssub {_}. Arguments smul {_}.
Arguments sdiv {_}. Arguments sneg {_}. Arguments sltb {_}. Arguments seqb {_}.

Declare Scope sc_scope.
Delimit Scope sc_scope with sc.
Infix "+" := sadd : sc_scope.
Infix "-" := ssub : sc_scope.
Infix "*" := smul : sc_scope.
Infix "/" := sdiv : sc_scope.
Notation "- x" := (sneg x) : sc_scope.

Definition Qltb (a b : Q) : bool := negb (Qle_bool b a).

Definition Qsc : Sc := {|
  T := Q; s0 := 0%Q; s1 := 1%Q;
  sadd := fun a b => Qred (Qplus a b);
  ssub := fun a b => Qred (Qminus a b);
  smul := fun a b => Qred (Qmult a b);
  sdiv := fun a b => Qred (Qdiv a b);
  sneg := fun a => Qopp a;
  sltb := Qltb;
  seqb := Qeq_bool
|}.

(* small helpers used by several models *)
Section Helpers.
  Context {S : Sc}.
  Definition s2 : S := sadd s1 s1.
  Definition s3 : S := sadd s2 s1.
  Definition s4 : S := sadd s2 s2.
  Definition shalf : S := sdiv s1 s2.
  Definition squarter : S := sdiv s1 s4.
  Definition sabs (x : S) : S := if sltb x s0 then sneg x else x.
End Helpers.
