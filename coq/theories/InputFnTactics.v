(* InputFnTactics.v -- C19: the proof script shared by the per-class source-term identities. *)
From Coq Require Import Reals ZArith Lra.
From GMGP Require Import InputFnDefs.
Local Open Scope R_scope.

Lemma cos2_as_sin2 t : cos t ^ 2 = 1 - sin t ^ 2.
Proof. pose proof (sin2_cos2 t) as H. rewrite !Rsqr_pow2 in H. lra. Qed.

(* circular geometry: the Jacobian determinant is r / Rmax^2 *)
Lemma circ_det_nonzero r t : 0 < r -> cos t * (r * cos t) - r * - sin t * sin t <> 0.
Proof.
  intros Hr. replace (cos t * (r * cos t) - r * - sin t * sin t) with (r * (cos t ^ 2 + sin t ^ 2)) by ring.
  rewrite cos2_as_sin2. replace (1 - sin t ^ 2 + sin t ^ 2) with 1 by ring. lra.
Qed.

Ltac pde_circular HR Hr :=
  cbn -[pow];
  let Hc := fresh "Hc" in
  match goal with env : nat -> R |- _ => pose proof (cos2_as_sin2 (env 1%nat)) as Hc end;
  field_simplify_eq [Hc];
  [ try reflexivity; try ring; try (ring [Hc])
  | repeat split; try exact HR; try (apply circ_det_nonzero; exact Hr); try (apply Rgt_not_eq; exact Hr) ].
