(* GridGenTie.v -- C18 / C20: the level-count function regenerated from src/GMGPolar/setup.cpp (translator T9,
   gen/LevelsGen.v) IS the hand-written model the theorems are about, for all arguments. *)
From Coq Require Import List ZArith Bool Lia.
From GMGP Require Import GridGenDefs.
From GMGPGen Require Import LevelsGen.
Local Open Scope Z_scope.

Lemma gen_radial_levels_eq : forall fuel n lev, gen_radial_levels fuel n lev = radial_levels fuel n lev.
Proof.
  induction fuel as [|f IH]; intros n lev; cbn [gen_radial_levels radial_levels]; [reflexivity|].
  rewrite Z.geb_leb, IH. reflexivity.
Qed.

Lemma gen_angular_levels_eq : forall fuel n lev, gen_angular_levels fuel n lev = angular_levels fuel n lev.
Proof.
  induction fuel as [|f IH]; intros n lev; cbn [gen_angular_levels angular_levels]; [reflexivity|].
  rewrite Z.geb_leb, IH. reflexivity.
Qed.

Theorem gen_choose_levels_eq : forall nr nt maxl, gen_choose_levels nr nt maxl = choose_levels nr nt maxl.
Proof.
  intros nr nt maxl. unfold gen_choose_levels, choose_levels.
  rewrite gen_radial_levels_eq, gen_angular_levels_eq. reflexivity.
Qed.

From GMGP Require Import GridGenProofs.

(* the theorems about the model, restated for the function the source defines *)
Theorem gen_levels_admitted nr nt maxl L : 0 <= nr -> gen_choose_levels nr nt maxl = Some L ->
  2 <= L /\
  forall j, (Z.of_nat j < L - 1) ->
    (Z.odd (coarsen_nr j nr) = true /\ 5 <= coarsen_nr (S j) nr) /\
    (Z.rem (coarsen_nt j nt) 2 = 0 /\ 4 <= coarsen_nt (S j) nt /\ Z.rem (coarsen_nt (S j) nt) 2 = 0).
Proof. rewrite gen_choose_levels_eq. apply levels_admitted. Qed.

(* a level cap of 1 is rejected whatever the grid; every accepted count is at least 2 and at most the cap *)
Theorem gen_level_cap_respected nr nt maxl :
  (maxl = 1 -> gen_choose_levels nr nt maxl = None) /\
  (forall L, gen_choose_levels nr nt maxl = Some L -> 2 <= L /\ (0 < maxl -> L <= maxl)).
Proof.
  rewrite gen_choose_levels_eq. unfold choose_levels.
  set (l0 := Z.min (radial_levels 64 nr 1) (angular_levels 64 nt 1)). split.
  - intros ->. cbn [Z.ltb Z.compare]. destruct (Z.min 1 l0 <? 2) eqn:E; [reflexivity|]. apply Z.ltb_ge in E. lia.
  - intros L H. destruct (0 <? maxl) eqn:Em.
    + destruct (Z.min maxl l0 <? 2) eqn:E; [discriminate|]. injection H as <-. apply Z.ltb_ge in E. split; [exact E|]. intros _. lia.
    + destruct (l0 <? 2) eqn:E; [discriminate|]. injection H as <-. apply Z.ltb_ge in E. apply Z.ltb_ge in Em. split; [exact E|lia].
Qed.
