(* GridDefs.v -- hand-written specification of the PolarGrid node numbering (C17).
   The generated counterpart (what the code says now) is gen/GridIndexGen.v. *)
From Coq Require Import ZArith Bool List Lia.
Import ListNotations.
Local Open Scope Z_scope.

(* The integer state of a PolarGrid that the index functions read. *)
Record grid := mkGrid {
  nr   : Z;      (* nr_ *)
  ntheta : Z;      (* ntheta_ *)
  nsc  : Z;      (* number_smoother_circles_ *)
  lenr : Z;      (* length_smoother_radial_ *)
  ncn  : Z;      (* number_circular_smoother_nodes_ *)
  pow2 : bool    (* is_ntheta_PowerOfTwo_ *)
}.

Definition nnodes (g : grid) : Z := nr g * ntheta g.

(* ---- specification ---- *)
Definition spec_wrap (g : grid) (x : Z) : Z := x mod ntheta g.

Definition spec_index (g : grid) (i j : Z) : Z :=
  if i <? nsc g then (j mod ntheta g) + ntheta g * i
  else nsc g * ntheta g + (i - nsc g) + (nr g - nsc g) * (j mod ntheta g).

Definition spec_multi (g : grid) (k : Z) : Z * Z :=
  if k <? nsc g * ntheta g then (k / ntheta g, k mod ntheta g)
  else (nsc g + (k - nsc g * ntheta g) mod (nr g - nsc g), (k - nsc g * ntheta g) / (nr g - nsc g)).

(* Well-formed integer state, as every constructor leaves it
   (flag_sound: what the constructor's bit trick must guarantee). *)
Record wf (g : grid) : Prop := mkWf {
  wf_nr   : 2 <= nr g;
  wf_nth  : 2 <= ntheta g;
  wf_nsc  : 0 <= nsc g <= nr g;
  wf_lenr : lenr g = nr g - nsc g;
  wf_ncn  : ncn g = nsc g * ntheta g;
  wf_pow2 : pow2 g = true -> exists k, 0 <= k /\ ntheta g = 2 ^ k
}.

Definition in_grid (g : grid) (i j : Z) : Prop := 0 <= i < nr g /\ 0 <= j < ntheta g.

(* ---- circle / radial split (initializeLineSplitting), over an abstract ordered scalar ---- *)
Section Split.
  Variable T : Type.
  Variable ltb : T -> T -> bool.   (* strict less-than on radii *)

  (* std::lower_bound(radii, rho) - begin  =  number of radii < rho (sorted input) *)
  Fixpoint count_lt (radii : list T) (rho : T) : Z :=
    match radii with
    | [] => 0
    | r :: rs => if ltb r rho then 1 + count_lt rs rho else 0
    end.

  (* explicit splitting radius: returns number_smoother_circles_ *)
  Definition split_explicit (radii : list T) (rho : T) : Z :=
    match radii with
    | [] => 0
    | r0 :: _ => if ltb rho r0 then 0 else count_lt radii rho
    end.
End Split.

(* automatic split: the loop "for i_r = 2 .. nr-3: if q(i_r) then nsc := i_r, break",
   followed by the "nsc >= 3 if nr > 5" adjustment.  [q] is the floating-point test
   (uniform_theta_k / h) * r > 1 evaluated by the caller. *)
Fixpoint first_hit (q : Z -> bool) (i : Z) (fuel : nat) : option Z :=
  match fuel with
  | O => None
  | S f => if q i then Some i else first_hit q (i + 1) f
  end.

Definition split_auto (nr_ : Z) (q : Z -> bool) : Z :=
  let n0 := match first_hit q 2 (Z.to_nat (nr_ - 4)) with Some i => i | None => 2 end in
  if (n0 <? 3) && (5 <? nr_) then 3 else n0.

(* ---- coarsening: keep every second entry ---- *)
Fixpoint every_second {A} (l : list A) : list A :=
  match l with
  | [] => []
  | x :: [] => [x]
  | x :: _ :: rest => x :: every_second rest
  end.

Definition coarse_nr (nr_ : Z) : Z := Z.quot (nr_ + 1) 2.
Definition coarse_nth (nth_ : Z) : Z := Z.quot nth_ 2.

(* ---- neighbour queries (unoptimised API) ---- *)
Definition nb_theta_m1 (g : grid) (j : Z) : Z := if j - 1 <? 0 then j - 1 + ntheta g else j - 1.
Definition nb_theta_p1 (g : grid) (j : Z) : Z := if j + 1 >=? ntheta g then j + 1 - ntheta g else j + 1.
