(* InputFnPde_CartesianR2.v -- C19: the shipped source term IS -div(alpha grad u) + beta u of the shipped exact solution,
   circular geometry, profiles with exactly representable constants.  Statements over the regenerated gen_* expressions. *)
From Coq Require Import Reals ZArith Lra.
From GMGP Require Import InputFnDefs InputFnTactics.
From GMGPGen Require Import InputFunctionsGen.
Local Open Scope R_scope.

Definition geo_circular := {| gFx := gen_CircularGeometry_Fx; gFy := gen_CircularGeometry_Fy |}.

Theorem pde_CartesianR2_Poisson_CircularGeometry env : env 2%nat <> 0 -> 0 < env 0%nat ->
  eval env gen_CartesianR2_Poisson_CircularGeometry_rhs_f =
  eval env (pde geo_circular gen_PoissonCoefficients_alpha gen_PoissonCoefficients_beta gen_CartesianR2_CircularGeometry_exact_solution).
Proof. intros HR Hr. pde_circular HR Hr. Qed.

Theorem pde_CartesianR2_Zoni_CircularGeometry env : env 2%nat <> 0 -> 0 < env 0%nat ->
  eval env gen_CartesianR2_Zoni_CircularGeometry_rhs_f =
  eval env (pde geo_circular gen_ZoniCoefficients_alpha gen_ZoniCoefficients_beta gen_CartesianR2_CircularGeometry_exact_solution).
Proof. intros HR Hr. pde_circular HR Hr. Qed.

Theorem pde_CartesianR2_ZoniShifted_CircularGeometry env : env 2%nat <> 0 -> 0 < env 0%nat ->
  eval env gen_CartesianR2_ZoniShifted_CircularGeometry_rhs_f =
  eval env (pde geo_circular gen_ZoniShiftedCoefficients_alpha gen_ZoniShiftedCoefficients_beta gen_CartesianR2_CircularGeometry_exact_solution).
Proof. intros HR Hr. pde_circular HR Hr. Qed.

Theorem pde_CartesianR2_ZoniGyro_CircularGeometry env : env 2%nat <> 0 -> 0 < env 0%nat ->
  eval env gen_CartesianR2_ZoniGyro_CircularGeometry_rhs_f =
  eval env (pde geo_circular gen_ZoniGyroCoefficients_alpha gen_ZoniGyroCoefficients_beta gen_CartesianR2_CircularGeometry_exact_solution).
Proof. intros HR Hr. pde_circular HR Hr. Qed.

Theorem pde_CartesianR2_ZoniShiftedGyro_CircularGeometry env : env 2%nat <> 0 -> 0 < env 0%nat ->
  eval env gen_CartesianR2_ZoniShiftedGyro_CircularGeometry_rhs_f =
  eval env (pde geo_circular gen_ZoniShiftedGyroCoefficients_alpha gen_ZoniShiftedGyroCoefficients_beta gen_CartesianR2_CircularGeometry_exact_solution).
Proof. intros HR Hr. pde_circular HR Hr. Qed.
