(* Properties_C09.v -- statements only.  C09 part (a): FMG interpolation.  Part (b), the
   nested-iteration start-up, is in the cycle model (see below when built). *)
From Coq Require Import List ZArith Bool Reals.
From GMGP Require Import Scalar ScalarR InterpDefs InterpProofs InterpProofs2 StencilTie InterpTie.
From GMGPGen Require Import StencilGen.
Import ListNotations.
Local Open Scope R_scope.

(* the four weights reproduce 1, x, x^2, x^3 for ALL positive spacings *)
Theorem C09_lagrange4_exact_for_cubics : forall k0 k1 k2 k3, 0 < k0 -> 0 < k1 -> 0 < k2 -> 0 < k3 ->
  forall a b c d, let p x := a + b * x + c * x ^ 2 + d * x ^ 3 in
  w0 k0 k1 k2 k3 * p (- (k0 + k1)) + w1 k0 k1 k2 k3 * p (- k1) + w2 k0 k1 k2 k3 * p k2 + w3 k0 k1 k2 k3 * p (k2 + k3) = p 0.
Proof. exact lagrange4_exact_for_cubics. Qed.

(* cubic exactness in r at the radially interior odd lines of the real rows, all spacings *)
Theorem C09_FMG_cubic_in_r : forall nr rad, (forall i, rad i < rad (i + 1)%Z) ->
  forall m a b c d, (1 <= m)%Z -> (2 * m + 1 <= nr - 3)%Z ->
  let p x := a + b * x + c * x ^ 2 + d * x ^ 3 in
  @apply_row1 Rsc (@Fr_row Rsc nr (fun i => rad (i + 1)%Z - rad i) (2 * m + 1)) (fun ic => p (rad (2 * ic)%Z)) = p (rad (2 * m + 1)%Z).
Proof. intros nr rad Hinc. exact (Fr_cubic_exact nr rad (fun _ => 1) Hinc (fun _ => Rlt_0_1) 0%Z). Qed.

Theorem C09_FMG_coarse_identity : forall nr nth rad k, (forall i, rad i < rad (i + 1)%Z) -> (forall x, 0 < k x) ->
  forall M, (2 <= M)%Z -> nr = (2 * M + 1)%Z ->
  forall (x : Z -> Z -> R) ic jc, (0 <= ic)%Z -> (2 * ic < nr)%Z -> (0 <= jc)%Z ->
  @apply_row2 Rsc (@FMG_row Rsc nr nth (fun i => rad (i + 1)%Z - rad i) k (2 * ic) (2 * jc)) x = x ic jc.
Proof. exact FMG_coarse_identity. Qed.

Theorem C09_FMG_constants : forall nr nth rad k, (forall i, rad i < rad (i + 1)%Z) -> (forall x, 0 < k x) ->
  forall i j, (0 <= i < nr)%Z -> @rowsum2 Rsc (@FMG_row Rsc nr nth (fun i => rad (i + 1)%Z - rad i) k i j) = 1.
Proof. exact FMG_rows_sum_to_one. Qed.

Theorem C09_FMG_fallback_only_next_to_boundary : forall nr rad i, (0 <= i < nr)%Z ->
  let h := fun i => rad (i + 1)%Z - rad i in
  @Fr_row Rsc nr h i =
    if ((i =? 0) || (i =? nr - 1))%Z then [(Z.quot i 2, 1)]
    else if ((i =? 1) || (i =? nr - 2))%Z
         then [(Z.quot i 2, h (i - 1)%Z / (h (i - 1)%Z + h i)); ((Z.quot i 2 + 1)%Z, h i / (h (i - 1)%Z + h i))]
         else if Z.odd i
              then let '(a, b, c, d) := @lag4 Rsc (@hc Rsc h (Z.quot i 2 - 1)) (h (i - 1)%Z) (h i) (@hc Rsc h (Z.quot i 2 + 1)) in
                   [((Z.quot i 2 - 1)%Z, a); (Z.quot i 2, b); ((Z.quot i 2 + 1)%Z, c); ((Z.quot i 2 + 2)%Z, d)]
              else [(Z.quot i 2, 1)].
Proof. exact FMG_fallback_only_next_to_boundary. Qed.

(* ---- the FMG interpolation as translator T3 regenerates it from the macro FINE_NODE_FMG_INTERPOLATION: one write per fine node,
   result[(i,j)] := (row (i,j) of the model FMG_row) . x, where the coarse grid's spacing arrays (hcf, kcf) are the sums of the two fine
   spacings they span (coarsening keeps every second node, C17).  So the theorems of this file (coarse identity, constants, cubic
   exactness, linear fall-back only next to the boundaries) are statements about what fmg_interpolation.cpp says now. ---- *)
Theorem C09_generated_fmg_interpolation_is_model :
  forall (nr nth : Z) (h k hcf kcf : Z -> R),
  (4 <= nth)%Z -> Z.even nth = true -> (5 <= nr)%Z ->
  (forall x, 0 < h x)%R -> (forall x, 0 < k x)%R ->
  (forall c : Z, hcf c = (h (2 * c)%Z + h (2 * c + 1)%Z)%R) ->
  (forall c : Z, (0 <= c < Z.quot nth 2)%Z -> kcf c = (k (2 * c)%Z + k (2 * c + 1)%Z)%R) ->
  forall (x : Z -> Z -> R) (i j : Z), (0 <= i < nr)%Z -> (0 <= j < nth)%Z ->
  @gen_fmg_interpolation Rsc nr nth (Z.quot nth 2) h k hcf kcf x i j =
  [ (((i, j), W_result_WAssign), @apply_row2 Rsc (@FMG_row Rsc nr nth h k i j) x) ].
Proof. exact gen_fmg_interpolation_is_model. Qed.

Print Assumptions C09_lagrange4_exact_for_cubics.
Print Assumptions C09_FMG_cubic_in_r.
Print Assumptions C09_FMG_constants.

(* ---- part (b): the FMG start-up is nested iteration from the coarsest level ---- *)
From GMGP Require Import CycleDefs CycleProofs.
Local Close Scope R_scope.
Local Open Scope nat_scope.

(* init_ops true ... IS the nested-iteration specification (solve coarsest; for cl = L-1..1: interpolate,
   then the configured cycles); the op-trace correspondence checks that solve() executes exactly it.
   The start depends on the right-hand sides only: no work vector's previous content is ever read. *)
Theorem C09_fmg_start_depends_on_data_only : forall fmg fk iters pre post extrap fgs (L : nat), (2 <= L)%nat ->
  rd_ok (rhs_bufs L) [] (init_ops fmg fk iters pre post extrap fgs L).
Proof. exact init_rd_ok. Qed.

Theorem C09_two_levels_zero_cycles : forall fk pre post extrap fgs,
  init_ops true fk 0 pre post extrap fgs 2 =
  [mkEv OCopy 1 [(1, Sol); (1, Rhs)]; mkEv ODirect 1 [(1, Sol)]; mkEv OFMG 1 [(0, Sol); (1, Sol)]].
Proof. exact fmg_two_level_zero_cycles. Qed.

Print Assumptions C09_fmg_start_depends_on_data_only.
