(* SmootherProofs.v -- C06 / C07: properties of block Gauss-Seidel relaxation, for ANY operator with
   local rows, any block list and any vectors; then the facts about A_take_row that instantiate them
   for the zebra line smoother (same-colour lines are mutually independent). *)
From Coq Require Import List ZArith Bool Reals Lra Lia.
From GMGP Require Import Scalar ScalarR InterpDefs InterpProofs StencilDefs SmootherDefs.
Import ListNotations.

Section Spec.
  Variable node : Type.
  Variable V : Type.                                   (* values: any type (no law of arithmetic used) *)
  Variable Aapp : (node -> V) -> node -> V.            (* (A x)_p *)
  Variable deps : node -> list node.                   (* the columns row p reads *)
  Hypothesis Alocal : forall x y p, (forall q, In q (deps p) -> x q = y q) -> Aapp x p = Aapp y p.

  (* one block update: everything outside U frozen, the rows of U solved exactly *)
  Definition block_solved (U : list node) (x f x' : node -> V) : Prop :=
    (forall q, ~ In q U -> x' q = x q) /\ (forall p, In p U -> Aapp x' p = f p).

  Inductive bgs_rel : list (list node) -> (node -> V) -> (node -> V) -> (node -> V) -> Prop :=
  | bgs_nil : forall x f, bgs_rel [] x f x
  | bgs_cons : forall U rest x f x1 x', block_solved U x f x1 -> bgs_rel rest x1 f x' -> bgs_rel (U :: rest) x f x'.

  (* (C07) a node that is an unknown of no block is never modified: bit for bit, any arithmetic *)
  Theorem bgs_frame blocks x f x' q :
    bgs_rel blocks x f x' -> (forall U, In U blocks -> ~ In q U) -> x' q = x q.
  Proof.
    intros H. induction H as [|U rest x f x1 x' Hb Hr IH]; intros Hq; [reflexivity|].
    rewrite IH by (intros U' HU'; apply Hq; right; exact HU').
    destruct Hb as [Hfr _]. apply Hfr. apply Hq. left. reflexivity.
  Qed.

  (* right after its update the residual of a block vanishes *)
  Theorem block_residual_zero U x f x1 p : block_solved U x f x1 -> In p U -> Aapp x1 p = f p.
  Proof. intros [_ H] Hp. apply H. exact Hp. Qed.

  (* ... and it stays zero while only blocks it does not depend on are updated *)
  Definition independent (U W : list node) : Prop := forall p q, In p U -> In q (deps p) -> ~ In q W.

  Theorem residual_stays_zero rest : forall U x1 f x' p,
    (forall W, In W rest -> independent U W) ->
    In p U -> Aapp x1 p = f p -> bgs_rel rest x1 f x' -> Aapp x' p = f p.
  Proof.
    induction rest as [|W rest IH]; intros U x1 f x' p Hind Hp Hres Hrel; inversion Hrel; subst; [exact Hres|].
    match goal with Hb : block_solved W x1 f ?x2, Hr : bgs_rel rest ?x2 f x' |- _ =>
      apply (IH U x2 f x' p); [intros W' HW'; apply Hind; right; exact HW' | exact Hp | | exact Hr];
      rewrite <- Hres; apply Alocal; intros q Hq; destruct Hb as [Hfr _]; apply Hfr;
      apply (Hind W (or_introl eq_refl) p q Hp Hq)
    end.
  Qed.

  (* the colour updated last: every one of its blocks has zero residual after the sweep *)
  Theorem last_colour_residual_zero : forall pre col x f x' U p,
    (forall U1 U2, In U1 col -> In U2 col -> U1 <> U2 -> independent U1 U2) ->
    NoDup col ->
    bgs_rel (pre ++ col) x f x' -> In U col -> In p U -> Aapp x' p = f p.
  Proof.
    induction pre as [|P pre IH]; intros col x f x' U p Hind Hnd Hrel HU Hp.
    - cbn [app] in Hrel. revert x Hrel. induction col as [|W col IHc]; intros x Hrel; [contradiction|].
      inversion Hrel; subst. inversion Hnd as [|? ? Hni Hnd']; subst.
      destruct HU as [->|HU].
      + match goal with Hb : block_solved U x f ?x2, Hr : bgs_rel col ?x2 f x' |- _ =>
          apply (residual_stays_zero col U x2 f x' p); [|exact Hp|apply (block_residual_zero U x f x2 p Hb Hp)|exact Hr] end.
        intros W HW. apply Hind; [left; reflexivity|right; exact HW|]. intros ->. contradiction.
      + match goal with Hr : bgs_rel col ?x2 f x' |- _ => apply (IHc (fun U1 U2 H1 H2 => Hind U1 U2 (or_intror H1) (or_intror H2)) Hnd' HU x2 Hr) end.
    - cbn [app] in Hrel. inversion Hrel; subst.
      match goal with Hr : bgs_rel (pre ++ col) ?x2 f x' |- _ => apply (IH col x2 f x' U p Hind Hnd Hr HU Hp) end.
  Qed.

  (* the exact discrete solution is a fixed point, whenever each block system has a unique solution *)
  Definition block_unique (U : list node) : Prop :=
    forall x f y1 y2, block_solved U x f y1 -> block_solved U x f y2 -> forall q, y1 q = y2 q.

  Theorem sweep_fixes_solution blocks : forall u f x',
    (forall U, In U blocks -> block_unique U) ->
    (forall p, Aapp u p = f p) -> bgs_rel blocks u f x' -> forall q, x' q = u q.
  Proof.
    induction blocks as [|U rest IH]; intros u f x' Hun Hu Hrel q; inversion Hrel; subst; [reflexivity|].
    match goal with Hb : block_solved U u f ?x2, Hr : bgs_rel rest ?x2 f x' |- _ =>
      assert (E : forall q, x2 q = u q) by
        (apply (Hun U (or_introl eq_refl) u f x2 u Hb); split; [intros; reflexivity|intros p _; apply Hu]);
      assert (Hu2 : forall p, Aapp x2 p = f p) by (intros p; rewrite <- Hu; apply Alocal; intros q' _; apply E);
      rewrite (IH x2 f x' (fun U' H' => Hun U' (or_intror H')) Hu2 Hr q); apply E
    end.
  Qed.

  (* a node whose row is the identity holds the prescribed data after its block has been updated,
     provided no later block contains it *)
  Theorem identity_row_gets_data blocks : forall x f x' U p,
    (forall y, Aapp y p = y p) ->
    bgs_rel (U :: blocks) x f x' -> In p U -> (forall W, In W blocks -> ~ In p W) -> x' p = f p.
  Proof.
    intros x f x' U p Hid Hrel Hp Hlater. inversion Hrel; subst.
    match goal with Hb : block_solved U x f ?x2, Hr : bgs_rel blocks ?x2 f x' |- _ =>
      rewrite (bgs_frame blocks x2 f x' p Hr Hlater); rewrite <- (Hid x2); apply (block_residual_zero U x f x2 p Hb Hp) end.
  Qed.
End Spec.

(* ================================================================== *)
(* instantiation for the operator A and the zebra line order           *)
(* ================================================================== *)
Section Zebra.
  Local Open Scope R_scope.
  Variable nr nth nsc : Z.
  Variable h k : Z -> R.
  Variable R0 : R.
  Variable arr att art det : Z -> Z -> R.
  Variable beta : Z -> R.
  Variable dirbc : bool.
  Variable Mc : Z.
  Hypothesis HMc : (2 <= Mc)%Z.
  Hypothesis Hnth : nth = (2 * Mc)%Z.
  Hypothesis Hnsc : (1 <= nsc)%Z.

  Notation take := (@A_take_row Rsc nr nth h k R0 arr att art det beta dirbc).
  Notation W := (wt nth).

  Definition nodeZ := (Z * Z)%type.
  Definition AappZ (x : nodeZ -> R) (p : nodeZ) : R := @apply_row2 Rsc (take (fst p) (snd p)) (fun a b => x (a, b)).
  Definition depsZ (p : nodeZ) : list nodeZ := map fst (take (fst p) (snd p)).

  Lemma apply_row2_ext (r : list (Z * Z * R)) (x y : Z -> Z -> R) :
    (forall q, In q (map fst r) -> x (fst q) (snd q) = y (fst q) (snd q)) -> @apply_row2 Rsc r x = @apply_row2 Rsc r y.
  Proof.
    unfold apply_row2. induction r as [|e r IH]; intros H; cbn [fold_right]; [reflexivity|].
    f_equal; [f_equal; apply (H (fst e)); left; reflexivity|].
    apply IH. intros q Hq. apply H. right. exact Hq.
  Qed.

  Lemma AappZ_local x y p : (forall q, In q (depsZ p) -> x q = y q) -> AappZ x p = AappZ y p.
  Proof.
    intros H. unfold AappZ. apply apply_row2_ext. intros q Hq. cbn beta.
    specialize (H q Hq). destruct q; exact H.
  Qed.

  (* every column of a row away from the origin lies on the same or a neighbouring angular line *)
  Lemma take_row_theta i j q : (1 <= i)%Z -> In q (depsZ (i, j)) ->
    snd q = j \/ snd q = W (j - 1) \/ snd q = W (j + 1).
  Proof.
    intros Hi. unfold depsZ, A_take_row. cbn [fst snd].
    destruct ((0 <? i)%Z && (i <? nr - 1)%Z)%bool.
    - cbn [map fst In]. intros H. repeat (destruct H as [<-|H]; [cbn; auto|]). contradiction.
    - replace (i =? 0)%Z with false by (symmetry; apply Z.eqb_neq; lia).
      cbn [map fst In]. intros [<-|[]]. cbn. auto.
  Qed.

  (* two distinct radial lines of the same colour never read each other *)
  Lemma same_parity_not_neighbour j j' : (0 <= j < nth)%Z -> (0 <= j' < nth)%Z ->
    Z.odd j = Z.odd j' -> j <> j' -> j' <> W (j - 1) /\ j' <> W (j + 1).
  Proof.
    intros Hj Hj' Hp Hne. unfold wt, wrap1. rewrite Hnth in *.
    destruct (odd_cases j) as [[Ho [m ->]]|[Ho [m ->]]]; destruct (odd_cases j') as [[Ho' [m' ->]]|[Ho' [m' ->]]];
      rewrite Ho, Ho' in Hp; try discriminate; zb; lia.
  Qed.

  Definition radial (j : Z) : list nodeZ := @radial_line nr nsc j.

  Lemma zrange_lower n : forall a i, In i (zrange a n) -> (a <= i)%Z.
  Proof.
    induction n as [|n IH]; intros a i Hi; cbn in Hi; [contradiction|].
    destruct Hi as [<-|Hi]; [lia|]. specialize (IH (a + 1)%Z i Hi). lia.
  Qed.

  Lemma radial_line_nodes j p : In p (radial j) -> snd p = j /\ (nsc <= fst p)%Z.
  Proof.
    unfold radial, radial_line. intros H. apply in_map_iff in H. destruct H as [i [<- Hi]]. cbn [fst snd].
    split; [reflexivity|]. apply (zrange_lower _ _ _ Hi).
  Qed.

  Theorem radial_lines_independent j j' : (0 <= j < nth)%Z -> (0 <= j' < nth)%Z ->
    Z.odd j = Z.odd j' -> j <> j' -> independent nodeZ depsZ (radial j) (radial j').
  Proof.
    intros Hj Hj' Hp Hne p q Hin Hq Hq'.
    destruct (radial_line_nodes j p Hin) as [Ej Ei]. destruct (radial_line_nodes j' q Hq') as [Ej' _].
    destruct p as [i jj]. cbn [fst snd] in *. subst jj.
    destruct (take_row_theta i j q ltac:(lia) Hq) as [E|[E|E]];
      destruct (same_parity_not_neighbour j j' Hj Hj' Hp Hne) as [N1 N2]; congruence.
  Qed.

  (* C06: after a sweep the residual vanishes on every line of the colour updated last (white radial lines),
     for ANY list of white lines, any preceding blocks, any grid size and any data *)
  Theorem zebra_last_colour_residual_zero (pre : list (list nodeZ)) (whites : list Z) x f x' j p :
    NoDup whites -> (forall w, In w whites -> (0 <= w < nth)%Z /\ Z.odd w = true) ->
    bgs_rel nodeZ R AappZ (pre ++ map radial whites) x f x' ->
    In j whites -> In p (radial j) -> AappZ x' p = f p.
  Proof.
    intros Hnd Hw Hrel Hj Hp.
    assert (Hinj : forall a b, In a whites -> In b whites -> radial a = radial b -> a = b).
    { intros a b Ha Hb E. unfold radial, radial_line in E.
      destruct (Z.to_nat (nr - nsc)) eqn:En.
      - (* empty lines: no node p can exist *) exfalso. unfold radial, radial_line in Hp. rewrite En in Hp. exact Hp.
      - cbn in E. injection E as E _. exact E. }
    apply (last_colour_residual_zero nodeZ R AappZ depsZ AappZ_local pre (map radial whites) x f x' (radial j) p); try assumption.
    - intros U1 U2 H1 H2 Hne. apply in_map_iff in H1. destruct H1 as [a [<- Ha]]. apply in_map_iff in H2. destruct H2 as [b [<- Hb]].
      destruct (Hw a Ha) as [Ra Oa]. destruct (Hw b Hb) as [Rb Ob].
      apply radial_lines_independent; try assumption; [congruence|]. intros ->. apply Hne. reflexivity.
    - clear -Hnd Hinj. induction whites as [|a l IH]; cbn [map]; constructor.
      + inversion Hnd as [|? ? Hni Hnd']; subst. intros Hin. apply in_map_iff in Hin. destruct Hin as [b [E Hb]].
        apply Hni. rewrite (Hinj a b (or_introl eq_refl) (or_intror Hb) (eq_sym E)). exact Hb.
      + inversion Hnd; subst. apply IH; [assumption|]. intros a' b' Ha' Hb'. apply Hinj; right; assumption.
    - apply in_map. exact Hj.
  Qed.

  (* C07: the blocks of the extrapolated smoother contain no node of the next coarser grid *)
  Theorem fine_only_has_no_coarse_node U p : In p (fine_only U) -> is_coarse p = false.
  Proof. unfold fine_only. intros H. apply filter_In in H. destruct H as [_ H]. apply negb_true_iff in H. exact H. Qed.

  Theorem ext_blocks_have_no_coarse_node U p :
    In U (@ext_smoother_blocks nr nth nsc) -> In p U -> is_coarse p = false.
  Proof.
    unfold ext_smoother_blocks. intros HU Hp. apply filter_In in HU. destruct HU as [HU _].
    apply in_map_iff in HU. destruct HU as [L [<- _]]. apply (fine_only_has_no_coarse_node L p Hp).
  Qed.

  (* hence (with bgs_frame, for ANY value type) an extrapolated sweep returns coarse nodes unchanged *)
  Theorem ext_sweep_keeps_coarse_nodes (V : Type) (Aapp : (nodeZ -> V) -> nodeZ -> V) (x f x' : nodeZ -> V) p :
    bgs_rel nodeZ V Aapp (@ext_smoother_blocks nr nth nsc) x f x' -> is_coarse p = true -> x' p = x p.
  Proof.
    intros Hrel Hc. apply (bgs_frame nodeZ V Aapp _ x f x' p Hrel).
    intros U HU Hin. rewrite (ext_blocks_have_no_coarse_node U p HU Hin) in Hc. discriminate.
  Qed.
End Zebra.
