(* ParProofs.v -- C11: race freedom of the regenerated work-sharing regions, for every grid size and (hence) every
   thread count and schedule. *)
From Coq Require Import List ZArith Bool Lia ZifyBool.
From GMGP Require Import ParDefs.
From GMGPGen Require Import ParRegionsGen.
Import ListNotations.
Local Open Scope Z_scope.
Ltac Zify.zify_post_hook ::= Z.to_euclidean_division_equations.

(* ---- the iteration values of a loop ---- *)
Lemma range_fuel_In : forall fuel s b k v, 0 < k -> In v (range_fuel fuel s b k) ->
  s <= v < b /\ (v - s) mod k = 0.
Proof.
  induction fuel as [|f IH]; intros s b k v Hk H; cbn [range_fuel] in H; [contradiction|].
  destruct (s <? b) eqn:E; [|contradiction]. apply Z.ltb_lt in E.
  destruct H as [<-|H].
  - split; [lia|]. rewrite Z.sub_diag. apply Z.mod_0_l. lia.
  - destruct (IH _ _ _ _ Hk H) as [H1 H2]. split; [lia|].
    replace (v - s) with ((v - (s + k)) + 1 * k) by lia. rewrite Z.mod_add by lia. exact H2.
Qed.

Lemma range_step_In s b k v : 0 < k -> In v (range_step s b k) -> s <= v < b /\ (v - s) mod k = 0.
Proof. intros Hk. apply range_fuel_In. exact Hk. Qed.

(* values of a loop come out in increasing order: pairs of distinct iterations are pairs of different values *)
Lemma range_fuel_lower : forall fuel s b k v, 0 < k -> In v (range_fuel fuel s b k) -> s <= v.
Proof. intros fuel s b k v Hk H. apply (range_fuel_In fuel s b k v Hk) in H. lia. Qed.

Lemma distinct_pairs_map_range {A} (f : Z -> A) : forall fuel s b k x y, 0 < k ->
  In (x, y) (distinct_pairs (map f (range_fuel fuel s b k))) ->
  exists v1 v2, x = f v1 /\ y = f v2 /\ v1 < v2 /\
                (s <= v1 < b /\ (v1 - s) mod k = 0) /\ (s <= v2 < b /\ (v2 - s) mod k = 0).
Proof.
  induction fuel as [|fu IH]; intros s b k x y Hk H; cbn [range_fuel] in H; [contradiction|].
  destruct (s <? b) eqn:E; [|contradiction]. apply Z.ltb_lt in E.
  cbn [map distinct_pairs] in H. apply in_app_or in H. destruct H as [H|H].
  - apply in_map_iff in H. destruct H as [z [Hz Hin]]. injection Hz as <- <-.
    apply in_map_iff in Hin. destruct Hin as [v2 [<- Hv2]].
    pose proof (range_fuel_In _ _ _ _ _ Hk Hv2) as [R1 R2].
    exists s, v2. repeat split; try lia.
    + rewrite Z.sub_diag. apply Z.mod_0_l. lia.
    + replace (v2 - s) with ((v2 - (s + k)) + 1 * k) by lia. rewrite Z.mod_add by lia. exact R2.
  - destruct (IH _ _ _ _ _ Hk H) as [v1 [v2 [E1 [E2 [Hlt [[A1 A2] [B1 B2]]]]]]].
    exists v1, v2. repeat split; try assumption; try lia.
    + replace (v1 - s) with ((v1 - (s + k)) + 1 * k) by lia. rewrite Z.mod_add by lia. exact A2.
    + replace (v2 - s) with ((v2 - (s + k)) + 1 * k) by lia. rewrite Z.mod_add by lia. exact B2.
Qed.

Lemma list_prod_map_range {A} (f g : Z -> A) s1 b1 k1 s2 b2 k2 x y : 0 < k1 -> 0 < k2 ->
  In (x, y) (list_prod (map f (range_step s1 b1 k1)) (map g (range_step s2 b2 k2))) ->
  exists v1 v2, x = f v1 /\ y = g v2 /\ (s1 <= v1 < b1 /\ (v1 - s1) mod k1 = 0) /\ (s2 <= v2 < b2 /\ (v2 - s2) mod k2 = 0).
Proof.
  intros H1 H2 H. apply in_prod_iff in H. destruct H as [Hx Hy].
  apply in_map_iff in Hx. destruct Hx as [v1 [<- Hv1]]. apply in_map_iff in Hy. destruct Hy as [v2 [<- Hv2]].
  exists v1, v2. repeat split; try (apply (range_step_In _ _ _ _ H1 Hv1)); try (apply (range_step_In _ _ _ _ H2 Hv2)).
Qed.

Lemma distinct_pairs_map_range_step {A} (f : Z -> A) s b k x y : 0 < k ->
  In (x, y) (distinct_pairs (map f (range_step s b k))) ->
  exists v1 v2, x = f v1 /\ y = f v2 /\ v1 < v2 /\
                (s <= v1 < b /\ (v1 - s) mod k = 0) /\ (s <= v2 < b /\ (v2 - s) mod k = 0).
Proof. intros Hk. unfold range_step. apply distinct_pairs_map_range. exact Hk. Qed.

(* ---- no conflict between two task calls: unfold to integer arithmetic ---- *)
Ltac unfold_conf :=
  unfold conflict_at, touches, writes, footprint, box_has, rows_has, ths_has, circ_rows_below, wr, white_row, white_line;
  cbn [existsb f_w f_r b_arr b_rows b_ths arr_eqb filter app Bool.eqb].

Ltac split_ifs :=
  repeat match goal with
         | |- context [if ?b then _ else _] => destruct b eqn:?
         end.

Ltac noconf :=
  match goal with |- conflict_at _ _ _ ?c = false => destruct c as [[?a ?r] ?t] end;
  unfold_conf;
  match goal with a : arr |- _ => destruct a end; cbn [arr_eqb andb orb existsb]; try reflexivity;
  split_ifs; cbn [existsb arr_eqb andb orb]; try reflexivity;
  repeat match goal with H : context [if ?b then _ else _] |- _ => destruct b eqn:? end;
  lia.

(* destructs the membership of a task in the (small, explicit) list of calls of one iteration *)
Ltac in_iteration H :=
  repeat rewrite app_nil_r in H;
  repeat match type of H with
         | In _ (if ?b then _ else _) => destruct b eqn:?
         | In _ (_ ++ _) => apply in_app_or in H
         | In _ (_ :: _) => cbn [In] in H
         | In _ [] => contradiction
         | _ \/ _ => destruct H as [H|H]
         | False => contradiction
         end;
  try subst.

(* ---- regions ---- *)
Definition valid (d : dims) : Prop := 1 <= d_nsc d /\ d_nsc d < d_nr d /\ 3 <= d_nt d.

Ltac region_cases Hin :=
  cbn [concurrent_iterations later_concurrent ph_iters ph_nowait] in Hin;
  repeat (apply in_app_or in Hin; destruct Hin as [Hin|Hin]);
  try (cbn [In] in Hin; contradiction).

Theorem residual_take_race_free d : valid d -> race_free gen_residual_take d.
Proof.
  intros [V1 [V2 V3]] it1 it2 Hin t1 t2 H1 H2 c. unfold gen_residual_take in Hin. region_cases Hin.
  - apply distinct_pairs_map_range_step in Hin; [|lia]. destruct Hin as [v1 [v2 [-> [-> [Hlt [[A1 A2] [B1 B2]]]]]]].
    in_iteration H1. in_iteration H2. noconf.
  - apply list_prod_map_range in Hin; try lia. destruct Hin as [v1 [v2 [-> [-> [[A1 A2] [B1 B2]]]]]].
    in_iteration H1. in_iteration H2. noconf.
  - apply distinct_pairs_map_range_step in Hin; [|lia]. destruct Hin as [v1 [v2 [-> [-> [Hlt [[A1 A2] [B1 B2]]]]]]].
    in_iteration H1. in_iteration H2. noconf.
Qed.

Ltac region_solve Hin H1 H2 :=
  region_cases Hin;
  (first [ apply distinct_pairs_map_range_step in Hin; [|lia];
           let v1 := fresh "v" in let v2 := fresh "w" in
           destruct Hin as [v1 [v2 [-> [-> [?Hlt [[?A1 ?A2] [?B1 ?B2]]]]]]]
         | apply list_prod_map_range in Hin; [|lia|lia];
           let v1 := fresh "v" in let v2 := fresh "w" in
           destruct Hin as [v1 [v2 [-> [-> [[?A1 ?A2] [?B1 ?B2]]]]]] ]);
  in_iteration H1; in_iteration H2; noconf.

Theorem residual_give_race_free d : valid d -> race_free gen_residual_give d.
Proof.
  intros [V1 [V2 V3]] it1 it2 Hin t1 t2 H1 H2 c. unfold gen_residual_give in Hin.
  Time region_solve Hin H1 H2.
Qed.
