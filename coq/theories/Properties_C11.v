(* Properties_C11.v -- statements only.  C11: no data race in the work-sharing regions of the residual and the smoothers,
   for every grid size and therefore (the model lets ANY two iterations of a loop, and any two iterations of loops not
   separated by a barrier, run concurrently) for every thread count and every schedule.
   gen_* regions are regenerated from the C++ sources on every run (translate/t2_regions.py): loop bounds, strides,
   nowait clauses, loop bodies, and whether the solver scratch vectors are private.  The footprints of the task
   functions (ParDefs.footprint) are validated against the implementation by the K-footprint correspondence. *)
From Coq Require Import List ZArith Bool Lia String.
From GMGP Require Import ParDefs ParProofs ParProofs_smoother_take ParProofs_ext_smoother_take
  ParProofs_smoother_give ParProofs_ext_smoother_give ParProofs_assembly ParProofs_smoother_build_give ParProofs_smoother_build_take
  ParOwnerDefs ParOwnerProofs.
From GMGPGen Require Import ParRegionsGen ParOwnerGen.
Import ListNotations.
Local Open Scope Z_scope.

(* valid d := 1 <= nsc < nr /\ 3 <= ntheta *)
Theorem C11_residual_give_race_free : forall d, valid d -> race_free gen_residual_give d.
Proof. exact residual_give_race_free. Qed.
Theorem C11_residual_take_race_free : forall d, valid d -> race_free gen_residual_take d.
Proof. exact residual_take_race_free. Qed.

(* direct-solver matrix assembly (cells = CSR rows) *)
Theorem C11_direct_give_assembly_race_free : forall d, valid d -> race_free gen_direct_give_assembly d.
Proof. exact direct_give_assembly_race_free. Qed.
Theorem C11_direct_take_assembly_race_free : forall d, valid d -> race_free gen_direct_take_assembly d.
Proof. exact direct_take_assembly_race_free. Qed.

(* line-matrix assembly of the four smoothers (cells = the matrix row of a node; the give variants update the rows of the
   neighbouring lines as well, which is why their loops are 3-coloured) *)
Theorem C11_smoother_give_build_race_free : forall d, valid d -> race_free gen_smoother_give_build d.
Proof. exact smoother_give_build_race_free. Qed.
Theorem C11_smoother_take_build_race_free : forall d, valid d -> race_free gen_smoother_take_build d.
Proof. exact smoother_take_build_race_free. Qed.
Theorem C11_ext_smoother_give_build_race_free : forall d, valid d -> race_free gen_ext_smoother_give_build d.
Proof. exact ext_smoother_give_build_race_free. Qed.
Theorem C11_ext_smoother_take_build_race_free : forall d, valid d -> race_free gen_ext_smoother_take_build d.
Proof. exact ext_smoother_take_build_race_free. Qed.

(* the smoothers colour the radial lines alternately: ntheta even (every grid PolarGrid accepts) *)
Theorem C11_smoother_give_race_free : forall d, valid d -> d_nt d mod 2 = 0 -> race_free gen_smoother_give d.
Proof. exact smoother_give_race_free. Qed.
Theorem C11_smoother_take_race_free : forall d, valid d -> d_nt d mod 2 = 0 -> race_free gen_smoother_take d.
Proof. exact smoother_take_race_free. Qed.
Theorem C11_ext_smoother_give_race_free : forall d, valid d -> d_nt d mod 2 = 0 -> race_free gen_ext_smoother_give d.
Proof. exact ext_smoother_give_race_free. Qed.
Theorem C11_ext_smoother_take_race_free : forall d, valid d -> d_nt d mod 2 = 0 -> race_free gen_ext_smoother_take d.
Proof. exact ext_smoother_take_race_free. Qed.

(* every "owner computes" region translator T2b regenerates from the sources -- the five grid transfers and the injection
   (reference and optimised versions), the FMG interpolation, the six loops of the two LevelCache constructors, build_rhs_f and
   discretize_rhs_f, computeExactError, extrapolatedResidual, the vector kernels, Vector and COO copies: 34 regions -- is race
   free: two iterations that may run concurrently never write the same element, and never write an element the other may
   read.  [race_free_owner] lets any two iterations of one work-shared loop, and any two iterations of loops with only
   `nowait` between them, overlap.  The theorem is stated over the whole generated list, so a region that is added to one of
   the translated files is covered (or breaks the proof) without an edit here. *)
Theorem C11_owner_regions_race_free : forall d, valid d ->
  Forall (fun r => race_free_owner (snd r) d) gen_owner_regions.
Proof. exact all_owner_regions_race_free. Qed.

(* the sufficient condition the proof goes through, for any region of this shape *)
Theorem C11_owner_condition_sound : forall region d, region_ok region d -> race_free_owner region d.
Proof. exact region_ok_race_free. Qed.

(* not vacuous: a loop that writes through a shared scalar, or two nowait loops with overlapping row ranges, do clash *)
Example C11_owner_negative :
  owner_find_race [mkOloop false false (fun _ => 0) (fun d => d_nsc d) (fun _ => 0) (fun d => d_nt d)
                     [("result"%string, T2 VO VN); ("i_r_coarse"%string, TScalar)] [] []] (mkDims 9 8 5) <> None /\
  owner_find_race [mkOloop true false (fun _ => 0) (fun d => d_nsc d + 1) (fun _ => 0) (fun d => d_nt d) [("result"%string, T2 VO VN)] [] [];
                   mkOloop true false (fun _ => 0) (fun d => d_nt d) (fun d => d_nsc d) (fun d => d_nr d) [("result"%string, T2 VN VO)] [] []]
                  (mkDims 9 8 5) <> None /\
  forallb (fun r => match owner_find_race (snd r) (mkDims 9 8 5) with None => true | Some _ => false end) gen_owner_regions = true.
Proof. split; [vm_compute; discriminate|split; [vm_compute; discriminate|vm_compute; reflexivity]]. Qed.

(* the hypotheses are met by real grids, and the statement is not vacuous: there ARE concurrent pairs *)
Example C11_nonvacuous :
  valid (mkDims 9 8 5) /\ 8 mod 2 = 0 /\
  (List.length (concurrent_iterations gen_smoother_give (mkDims 9 8 5)) > 20)%nat /\
  (List.length (concurrent_iterations gen_residual_give (mkDims 9 8 5)) > 5)%nat.
Proof. unfold valid. cbn [d_nsc d_nr d_nt]. repeat split; try lia; vm_compute; lia. Qed.

(* a region that shares the solver scratch between threads is NOT race free (what the private-scratch bit is for) *)
Example C11_shared_scratch_races :
  find_race [mkPhase false (fun d => map (fun v => [SolveCircle false v]) (range_step 0 (d_nsc d) 2))] (mkDims 9 8 5) <> None.
Proof. vm_compute. discriminate. Qed.
