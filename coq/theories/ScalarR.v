(* ScalarR.v -- the real-number instance of the scalar interface (used by the algebraic theorems). *)
From Coq Require Import Reals.
From GMGP Require Import Scalar.

Definition Rsc : Sc := {|
  T := R; s0 := 0%R; s1 := 1%R;
  sadd := Rplus; ssub := Rminus; smul := Rmult; sdiv := Rdiv; sneg := Ropp;
  sltb := fun a b => if Rlt_dec a b then true else false;
  seqb := fun a b => if Req_EM_T a b then true else false
|}.
