(* ScalarR.v -- the real-number instance of the scalar interface (used by the algebraic theorems). *)
From Coq Require Import Reals.
From GMGP Require Import Scalar.

Definition Rsc : Sc := {|
  T := R; s0 := 0%R; s1 := 1%R;
  sadd := Rplus; ssub := Rminus; smul := Rmult; sdiv := Rdiv; sneg := Ropp;
  sltb := fun a b => if Rlt_dec a b then true else false;
  seqb := fun a b => if Req_EM_T a b then true else false
|}.

(* expose the real-number operations hidden behind the record projections *)
Ltac rsc :=
  unfold shalf, squarter, sabs in *; unfold s4 in *; unfold s3 in *; unfold s2 in *;
  cbn [T s0 s1 sadd ssub smul sdiv sneg sltb seqb Rsc] in *;
  change (T Rsc) with R in *;
  try match goal with |- @eq ?A ?a ?b => tryif constr_eq A R then idtac else change (@eq R a b) end.
