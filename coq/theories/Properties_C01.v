(* Properties_C01.v -- statements only.  C01 (PARTIAL).
   Second half (a reported convergence is true) -- PROVED on the control-flow model: whenever the loop
   stops before the iteration limit, the last thing it did was the stop test on the iterate it returns;
   the stop test reads only that iterate and the right-hand sides and writes none of them.  (That the
   vector the stop test computes is the specified (extrapolated) residual is the operator-level content
   of C03/C08 and is re-checked on the implementation by an independent recomputation.)
   First half (contraction with mean factor < 1 for every configuration) is analytic multigrid
   convergence theory and is NOT a theorem here.
   (* FULL: forall configurations, exists k <= max_iterations, ||r_k|| <= tol, with mean factor < 1 *) *)
From Coq Require Import List Arith Bool.
From GMGP Require Import CycleDefs CycleProofs.
Import ListNotations.
From Coq Require Import Reals.
From GMGP Require Scalar ScalarR StopDefs StopProofs.
From GMGPGen Require ConvergedGen.

Theorem C01_stop_is_on_fresh_residual_partial :
  forall maxit k L pre post extrap combined has_exact fgs it oracle evs itf fgsf,
  solve_loop k L pre post extrap combined has_exact true fgs it maxit oracle = (evs, itf, fgsf) ->
  maxit <= length oracle -> itf < it + maxit ->
  exists pre_evs, evs = pre_evs ++ stop_test extrap has_exact ++ [mkEv OConverged itf [(0, Sol)]].
Proof. exact stop_is_true. Qed.

Theorem C01_stop_test_footprint : forall extrap has_exact b,
  (In b (all_writes (stop_test extrap has_exact)) -> b = (0, Res) \/ b = (1, Sol) \/ b = (1, Res)) /\
  rd_ok [(0, Sol); (0, Rhs); (1, Rhs)] [] (stop_test extrap has_exact).
Proof. exact stop_test_footprint. Qed.

(* no cycle ever modifies a right-hand side: the problem data the independent residual uses is intact *)
Theorem C01_cycles_keep_rhs : forall rem k d pre post x f r b,
  In b (all_writes (cyc k rem d pre post x f r)) -> b = x \/ b = r \/ (d < fst b /\ snd b <> Rhs).
Proof. exact cyc_writes. Qed.

(* conditional half of the first clause: IF the tested norm contracts by rho < 1 per cycle, the regenerated stop test fires within
   any budget K with rho^K <= rtol, and the mean reduction factor reported after k cycles is at most rho (its k-th power is at
   most rho^k).  The premise -- contraction for every supported configuration -- is multigrid convergence analysis and is NOT a
   theorem here; the check searches the configuration set for a run that uses its whole budget. *)
Theorem C01_stop_within_budget_if_contraction_partial : forall (r : nat -> R) (rho rtol : R) (atol : option R) (K : nat),
  (0 <= rho)%R -> (0 < r 0%nat)%R -> (forall k, (r (S k) <= rho * r k)%R) -> (rho ^ K <= rtol)%R ->
  @ConvergedGen.gen_converged ScalarR.Rsc atol (Some rtol) (r K) (r K / r 0%nat)%R = true.
Proof. exact StopProofs.stop_within_budget_if_contraction. Qed.
Theorem C01_mean_factor_bound_if_contraction_partial : forall (r : nat -> R) (rho : R) (k : nat),
  (0 <= rho)%R -> (0 < r 0%nat)%R -> (forall j, (r (S j) <= rho * r j)%R) -> (r k / r 0%nat <= rho ^ k)%R.
Proof. exact StopProofs.mean_factor_power_bound. Qed.

Print Assumptions C01_stop_is_on_fresh_residual_partial.
Print Assumptions C01_stop_test_footprint.

(* the decision itself, regenerated from GMGPolar::converged by translator T10: it reports convergence exactly when an ENABLED
   tolerance is met by the norm that tolerance is defined for (relative: ||r_k|| / ||r_0||, absolute: ||r_k||) *)
Theorem C01_converged_iff_tolerance_met : forall (atol rtol : option R) (rn reln : R),
  @ConvergedGen.gen_converged ScalarR.Rsc atol rtol rn reln = true <->
  (exists t, rtol = Some t /\ (reln <= t)%R) \/ (exists t, atol = Some t /\ (rn <= t)%R).
Proof. exact StopProofs.converged_iff_tolerance_met. Qed.
Print Assumptions C01_converged_iff_tolerance_met.
