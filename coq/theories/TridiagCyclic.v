(* TridiagCyclic.v -- C14: the cyclic (Sherman-Morrison) solve is exact in exact arithmetic for every dimension n >= 2:
   A = B + u v^T with u = (gamma, 0, .., 0, c), v = (1, 0, .., 0, c/gamma), gamma = -a_00; the code factorises B once,
   solves B x = b and B z = u and returns x - (v.x)/(1 + v.z) z. *)
From Coq Require Import List ZArith Bool Reals Lra Lia Arith.
From GMGP Require Import Scalar ScalarR TridiagDefs TridiagProofs.
Import ListNotations.
Local Open Scope R_scope.

Notation mvfrom := (@matvec_tri_from Rsc).
Notation mvtri := (@matvec_tri Rsc).

(* ---- entries of the tridiagonal product ---- *)
Definition tri_ent (sp xp : R) (ds ss xs : list R) (i : nat) : R :=
  (match i with O => sp * xp | S j => nth j ss 0 * nth j xs 0 end) + nth i ds 0 * nth i xs 0 + nth i ss 0 * nth (S i) xs 0.

Lemma nth_mvfrom : forall (ds : list R) (sp xp : R) (ss xs : list R) i, length xs = length ds -> S (length ss) = length ds -> (i < length ds)%nat ->
  nth i (mvfrom sp xp ds ss xs) 0 = tri_ent sp xp ds ss xs i.
Proof.
  induction ds as [|d ds IH]; intros sp xp ss xs i Hx Hs Hi; [cbn in Hi; lia|].
  destruct xs as [|x xs]; [discriminate|]. cbn [length] in *. injection Hx as Hx. injection Hs as Hs.
  cbn [matvec_tri_from].
  destruct ss as [|s ss].
  - (* last row *) destruct ds; [|discriminate]. destruct xs; [|discriminate]. destruct i; [|cbn [length] in Hi; lia].
    unfold tri_ent. cbn. ring.
  - destruct xs as [|x1 xs]; [destruct ds; discriminate|].
    destruct i as [|i].
    + unfold tri_ent. cbn. ring.
    + cbn [nth]. cbn [length] in Hx, Hs, Hi. rewrite (IH s x ss (x1 :: xs) i); [|cbn [length]; exact Hx|exact Hs|apply Nat.succ_lt_mono; exact Hi]. unfold tri_ent. cbn [nth]. destruct i; reflexivity.
Qed.

Lemma length_mvfrom : forall (ds : list R) (sp xp : R) (ss xs : list R), length xs = length ds -> S (length ss) = length ds ->
  length (mvfrom sp xp ds ss xs) = length ds.
Proof.
  induction ds as [|d ds IH]; intros sp xp ss xs Hx Hs; [reflexivity|].
  destruct xs as [|x xs]; [discriminate|]. cbn [length] in *. injection Hx as Hx. injection Hs as Hs.
  cbn [matvec_tri_from]. destruct ss as [|s ss].
  - destruct ds; [reflexivity|discriminate].
  - destruct xs as [|x1 xs]; [destruct ds; discriminate|]. cbn [length]. f_equal. apply IH; cbn [length] in *; lia.
Qed.

(* ---- first / last updates ---- *)
Lemma length_upd_first (f : R -> R) (l : list R) : length (@upd_first Rsc f l) = length l.
Proof. destruct l; reflexivity. Qed.
Lemma length_upd_last (f : R -> R) : forall l : list R, length (@upd_last Rsc f l) = length l.
Proof. induction l as [|x [|y r] IH]; cbn [upd_last length] in *; auto. Qed.

Lemma nth_upd_first (f : R -> R) (l : list R) i : (0 < length l)%nat ->
  nth i (@upd_first Rsc f l) 0 = if (i =? 0)%nat then f (nth 0 l 0) else nth i l 0.
Proof. destruct l; [cbn; lia|]. intros _. destruct i; reflexivity. Qed.

Lemma nth_upd_last (f : R -> R) : forall (l : list R) i, (i < length l)%nat ->
  nth i (@upd_last Rsc f l) 0 = if (i =? length l - 1)%nat then f (nth i l 0) else nth i l 0.
Proof.
  induction l as [|x [|y r] IH]; intros i Hi; [cbn in Hi; lia| |].
  - destruct i; [reflexivity|cbn in Hi; lia].
  - cbn [upd_last]. destruct i as [|i]; [reflexivity|].
    cbn [nth]. rewrite IH by (cbn [length] in *; lia). cbn [length]. replace (S (S (length r)) - 1)%nat with (S (S (length r) - 1)) by lia.
    reflexivity.
Qed.

Lemma last_nth (l : list R) : last l 0 = nth (length l - 1) l 0.
Proof. induction l as [|x [|y r] IH]; [reflexivity|reflexivity|]. change (last (x :: y :: r) 0) with (last (y :: r) 0). rewrite IH. cbn [length]. replace (S (S (length r)) - 1)%nat with (S (S (length r) - 1)) by lia. reflexivity. Qed.

Lemma hd_nth (l : list R) : hd 0 l = nth 0 l 0.
Proof. destruct l; reflexivity. Qed.

(* ---- the three ingredients ---- *)
Lemma nth_vsub_scaled f : forall x u i, length u = length x -> (i < length x)%nat ->
  nth i (@vsub_scaled Rsc f x u) 0 = nth i x 0 - f * nth i u 0.
Proof.
  unfold vsub_scaled. induction x as [|a x IH]; intros u i Hl Hi; [cbn in Hi; lia|].
  destruct u as [|b u]; [discriminate|]. destruct i as [|i]; [reflexivity|].
  cbn [combine map nth]. apply IH; cbn [length] in *; lia.
Qed.

Lemma length_vsub_scaled f x u : length u = length x -> length (@vsub_scaled Rsc f x u) = length x.
Proof. intros H. unfold vsub_scaled. rewrite map_length, combine_length, H. apply Nat.min_id. Qed.

Lemma length_solve_rec : forall (ds : list R) (d : R) (ss : list R) (b0 : R) (bs : list R), length ss = length ds -> length bs = length ds ->
  length (@solve_rec Rsc d ds ss b0 bs) = S (length ds).
Proof.
  induction ds as [|d1 ds IH]; intros d ss b0 bs Hs Hb.
  - destruct ss; [|discriminate]. destruct bs; [|discriminate]. reflexivity.
  - destruct ss as [|s ss]; [discriminate|]. destruct bs as [|b1 bs]; [discriminate|].
    cbn [solve_rec length]. f_equal. apply IH; cbn [length] in *; lia.
Qed.

(* nth with a default beyond the end *)
Lemma nth_beyond (l : list R) i : (length l <= i)%nat -> nth i l 0 = 0.
Proof. apply nth_overflow. Qed.

(* ---- Sherman-Morrison ---- *)
Ltac nlia := change (T Rsc) with R in *; lia.

Ltac rring := change (T Rsc) with R in *; ring.
Ltac rfield := change (T Rsc) with R in *; field.

Section SM.
  Variables (d0 : R) (ds ss : list R) (c : R) (b0 : R) (bs : list R).
  Let dg : list R := d0 :: ds.
  Let b : list R := b0 :: bs.
  Let n := length dg.
  Hypothesis Hn : (2 <= n)%nat.
  Hypothesis Hss : length ss = length ds.
  Hypothesis Hbs : length bs = length ds.
  Hypothesis Hd0 : d0 <> 0.
  Let g := - d0.
  Let Bdg := @cyc_modified_diag Rsc dg c.
  (* the factorisation of the modified matrix exists *)
  Hypothesis HpivB : match Bdg with e :: es => pivots_ok e es ss | [] => False end.
  Let u := @cyc_u Rsc n g c.
  Let x := @solve_tri Rsc Bdg ss b.
  Let z := @solve_tri Rsc Bdg ss u.
  Let dxv := hd 0 x + c / g * last x 0.
  Let duv := hd 0 z + c / g * last z 0.
  Hypothesis Hden : 1 + duv <> 0.

  Lemma Bdg_length : length Bdg = n.
  Proof. unfold Bdg, cyc_modified_diag. rewrite length_upd_last, length_upd_first. reflexivity. Qed.

  Lemma Bdg_nth i : (i < n)%nat ->
    nth i Bdg 0 = nth i dg 0 - (if (i =? 0)%nat then g else 0) - (if (i =? n - 1)%nat then c * c / g else 0).
  Proof.
    intros Hi. unfold Bdg, cyc_modified_diag. fold dg.
    rewrite nth_upd_last by (rewrite length_upd_first; exact Hi). rewrite length_upd_first. fold n.
    rewrite nth_upd_first by (fold n; nlia). unfold cyc_gamma. fold dg. cbn [hd dg]. fold g.
    destruct (i =? 0)%nat eqn:E0; destruct (i =? n - 1)%nat eqn:E1; cbn [ssub smul sdiv sneg Rsc]; unfold g.
    - apply Nat.eqb_eq in E0. apply Nat.eqb_eq in E1. nlia.
    - apply Nat.eqb_eq in E0. subst i. rring.
    - rfield. exact Hd0.
    - rring.
  Qed.

  Lemma u_length : length u = n.
  Proof. unfold u, cyc_u, n, dg. cbn [length]. f_equal. rewrite length_upd_last, repeat_length. reflexivity. Qed.

  Lemma u_nth i : (i < n)%nat -> nth i u 0 = if (i =? 0)%nat then g else if (i =? n - 1)%nat then c else 0.
  Proof.
    intros Hi. unfold u, cyc_u. unfold n, dg in *. cbn [length] in *. destruct i as [|i]; [reflexivity|].
    change (S i =? 0)%nat with false. cbv iota. cbn [nth]. rewrite nth_upd_last by (rewrite repeat_length; nlia). rewrite repeat_length.
    replace (S (length ds) - 1)%nat with (length ds) by nlia.
    destruct (Nat.eqb_spec i (length ds - 1)); destruct (Nat.eqb_spec (S i) (length ds)); try nlia; [reflexivity|].
    apply nth_repeat.
  Qed.

  (* B x = b and B z = u *)
  Lemma Bdg_cons : exists e es, Bdg = e :: es /\ length es = length ds.
  Proof.
    pose proof Bdg_length as L. destruct Bdg as [|e es] eqn:E; [unfold n, dg in L; cbn [length] in L; discriminate|].
    exists e, es. split; [reflexivity|]. unfold n, dg in L. cbn [length] in L. injection L as L. exact L.
  Qed.

  Lemma solve_b : mvtri Bdg ss x = b /\ length x = n.
  Proof.
    destruct Bdg_cons as [e [es [E Les]]]. unfold x, b. rewrite E in *. split.
    - apply ldlt_solve_correct; [exact (eq_trans Hss (eq_sym Les))|exact (eq_trans Hbs (eq_sym Les))|exact HpivB].
    - rewrite (@solve_tri_eq_rec Rsc); [|exact (eq_trans Hss (eq_sym Les))|exact (eq_trans Hbs (eq_sym Les))].
      rewrite length_solve_rec; [|exact (eq_trans Hss (eq_sym Les))|exact (eq_trans Hbs (eq_sym Les))].
      unfold n, dg. cbn [length]. f_equal. exact Les.
  Qed.

  Lemma u_cons : exists u0 us, u = u0 :: us /\ length us = length ds.
  Proof.
    pose proof u_length as L. destruct u as [|u0 us] eqn:E; [unfold n, dg in L; cbn [length] in L; discriminate|].
    exists u0, us. split; [reflexivity|]. unfold n, dg in L. cbn [length] in L. injection L as L. exact L.
  Qed.

  Lemma solve_u : mvtri Bdg ss z = u /\ length z = n.
  Proof.
    destruct Bdg_cons as [e [es [E Les]]]. destruct u_cons as [u0 [us [Eu Lus]]]. unfold z. rewrite E, Eu in *. split.
    - apply ldlt_solve_correct; [exact (eq_trans Hss (eq_sym Les))|exact (eq_trans Lus (eq_sym Les))|exact HpivB].
    - rewrite (@solve_tri_eq_rec Rsc); [|exact (eq_trans Hss (eq_sym Les))|exact (eq_trans Lus (eq_sym Les))].
      rewrite length_solve_rec; [|exact (eq_trans Hss (eq_sym Les))|exact (eq_trans Lus (eq_sym Les))].
      unfold n, dg. cbn [length]. f_equal. exact Les.
  Qed.

  Let f := dxv / (1 + duv).
  Let y := @vsub_scaled Rsc f x z.

  Lemma y_is_solve_cyc : @solve_cyc Rsc dg ss c b = y.
  Proof.
    unfold solve_cyc, y, x, z, f, dxv, duv, x, z, solve_tri. fold Bdg. unfold cyc_gamma. cbn [hd dg]. fold g.
    destruct (@factor Rsc Bdg ss) as [D L] eqn:EF. unfold cyc_sweeps.
    assert (Hlen : length b = n) by (unfold b, n, dg; cbn [length]; f_equal; exact Hbs).
    unfold u. rewrite <- Hlen. unfold g. reflexivity.
  Qed.

  Theorem cyclic_solve_correct : @matvec_cyc Rsc dg ss c (@solve_cyc Rsc dg ss c b) = b.
  Proof.
    rewrite y_is_solve_cyc.
    destruct solve_b as [Hxb Lx]. destruct solve_u as [Hzu Lz].
    assert (Ly : length y = n) by (unfold y; rewrite length_vsub_scaled; nlia).
    assert (Lss : S (length ss) = length dg) by (unfold dg; cbn [length]; nlia).
    assert (LB : S (length ss) = length Bdg) by (rewrite Bdg_length; exact Lss).
    (* entries of B x and B z *)
    assert (Hx : forall i, (i < n)%nat -> tri_ent 0 0 Bdg ss x i = nth i b 0).
    { intros i Hi. rewrite <- Hxb. unfold matvec_tri. symmetry. apply nth_mvfrom; rewrite ?Bdg_length; nlia. }
    assert (Hz : forall i, (i < n)%nat -> tri_ent 0 0 Bdg ss z i = nth i u 0).
    { intros i Hi. rewrite <- Hzu. unfold matvec_tri. symmetry. apply nth_mvfrom; rewrite ?Bdg_length; nlia. }
    assert (Hy : forall i, nth i y 0 = nth i x 0 - f * nth i z 0).
    { intros i. destruct (Nat.lt_ge_cases i n) as [Hi|Hi].
      - unfold y. apply nth_vsub_scaled; nlia.
      - rewrite !nth_beyond by nlia. rring. }
    (* v . y = 0 after the correction *)
    assert (Hv : nth 0 y 0 + c / g * nth (n - 1) y 0 - f = 0).
    { assert (Hg0 : g <> 0) by (unfold g; lra).
      assert (Hduv : duv = nth 0 z 0 + c / g * nth (n - 1) z 0).
      { unfold duv. rewrite hd_nth, last_nth. change (T Rsc) with R in *. rewrite Lz. reflexivity. }
      assert (Hdxv : dxv = nth 0 x 0 + c / g * nth (n - 1) x 0).
      { unfold dxv. rewrite hd_nth, last_nth. change (T Rsc) with R in *. rewrite Lx. reflexivity. }
      assert (Hden' : 1 + (nth 0 z 0 + c / g * nth (n - 1) z 0) <> 0) by (rewrite <- Hduv; exact Hden).
      rewrite !Hy. unfold f. rewrite Hdxv, Hduv. change (T Rsc) with R in *.
      field. split; [exact Hg0|].
      intro H. apply Hden'. apply (Rmult_eq_reg_l g); [|exact Hg0]. rewrite Rmult_0_r.
      transitivity (g + (nth 0 z 0 * g + c * nth (n - 1) z 0)); [field; exact Hg0|exact H]. }
    apply (nth_ext _ _ 0 0).
    - unfold matvec_cyc. rewrite length_upd_last, length_upd_first. unfold matvec_tri. rewrite length_mvfrom by nlia.
      unfold b, dg. cbn [length]. nlia.
    - intros i Hi. unfold matvec_cyc in Hi |- *. rewrite length_upd_last, length_upd_first in Hi. unfold matvec_tri in Hi |- *.
      rewrite length_mvfrom in Hi by nlia. fold n in Hi.
      rewrite nth_upd_last by (rewrite length_upd_first, length_mvfrom by nlia; exact Hi).
      rewrite length_upd_first, length_mvfrom by nlia. fold n.
      rewrite nth_upd_first by (rewrite length_mvfrom by nlia; fold n; nlia).
      rewrite !nth_mvfrom by (fold n; nlia).
      rewrite hd_nth, last_nth. change (T Rsc) with R in *. rewrite Ly. cbn [ssub sadd smul sdiv s0 s1 Rsc].
      (* relate the product with A to the product with B *)
      assert (HAB : tri_ent 0 0 dg ss y i = tri_ent 0 0 Bdg ss y i + (if (i =? 0)%nat then g else 0) * nth i y 0
                                            + (if (i =? n - 1)%nat then c * c / g else 0) * nth i y 0).
      { pose proof (Bdg_nth i Hi) as HB. change (T Rsc) with R in HB. unfold tri_ent. rewrite HB. destruct i; rring. }
      assert (HBy : tri_ent 0 0 Bdg ss y i = nth i b 0 - f * nth i u 0).
      { rewrite <- (Hx i Hi), <- (Hz i Hi). unfold tri_ent. rewrite !Hy. destruct i; [rring|]. rewrite !Hy. rring. }
      assert (Hg : g <> 0) by (unfold g; lra).
      pose proof (u_nth i Hi) as HU. change (T Rsc) with R in HU. rewrite HU in HBy.
      destruct (i =? 0)%nat eqn:E0; destruct (i =? n - 1)%nat eqn:E1.
      + apply Nat.eqb_eq in E0. apply Nat.eqb_eq in E1. nlia.
      + apply Nat.eqb_eq in E0. subst i. rewrite HAB, HBy.
        replace (nth 0 b 0 - f * g + g * nth 0 y 0 + 0 * nth 0 y 0 + c * nth (n - 1) y 0)
          with (nth 0 b 0 + g * (nth 0 y 0 + c / g * nth (n - 1) y 0 - f)) by (field; exact Hg).
        rewrite Hv. ring.
      + apply Nat.eqb_eq in E1. rewrite HAB, HBy. rewrite E1.
        replace (nth (n - 1) b 0 - f * c + 0 * nth (n - 1) y 0 + c * c / g * nth (n - 1) y 0 + c * nth 0 y 0)
          with (nth (n - 1) b 0 + c * (nth 0 y 0 + c / g * nth (n - 1) y 0 - f)) by (field; exact Hg).
        rewrite Hv. ring.
      + rewrite HAB, HBy. ring.
  Qed.
End SM.

