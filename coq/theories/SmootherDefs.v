(* SmootherDefs.v -- executable model of the smoothers (C06, C07) as block Gauss-Seidel relaxations of
   the operator A (StencilDefs.A_take_row):
     standard smoother      blocks = whole lines            (zebra: black circles, white circles,
                                                             black radial lines, white radial lines)
     extrapolated smoother  blocks = the fine-only nodes of each line (nodes of the next coarser grid
                                                             are never unknowns)
   A block update solves the rows of the block exactly for the block's unknowns, everything else
   frozen.  Transcribed from src/Smoother/*/smootherSolver.cpp and src/ExtrapolatedSmoother/*/
   smootherSolver.cpp (colour order, "outermost circle is black", line membership). *)
From Coq Require Import List ZArith Bool.
From GMGP Require Import Scalar SparseLUDefs.
Import ListNotations.
Local Open Scope Z_scope.

Section BGS.
  Context {S : Sc}.
  Local Open Scope sc_scope.

  Variable nr nth nsc : Z.
  Variable rowA : Z -> Z -> list ((Z * Z) * S).      (* the operator, row by row *)

  Definition node := (Z * Z)%type.
  Definition node_eqb (p q : node) : bool := (fst p =? fst q) && (snd p =? snd q).

  (* vectors: row-major lists, entry i * nth + j *)
  Definition vidx (p : node) : nat := Z.to_nat (fst p * nth + snd p).
  Definition vat (x : list S) (p : node) : S := nth_default s0 x (vidx p).
  Fixpoint lset (x : list S) (n : nat) (v : S) : list S :=
    match x, n with
    | [], _ => []
    | _ :: r, O => v :: r
    | a :: r, Datatypes.S m => a :: lset r m v
    end.

  Fixpoint pos_in (p : node) (U : list node) (n : Z) : option Z :=
    match U with
    | [] => None
    | q :: r => if node_eqb p q then Some n else pos_in p r (n + 1)
    end.

  (* local system of one block: for each unknown p in U a row over local indices (entries with the
     same local column are added) and a right-hand side  f_p - sum_{q not in U} a_pq x_q *)
  Definition add_entry (j : Z) (v : S) (r : list (Z * S)) : list (Z * S) := set_entry j (get0 j r + v) r.
  Definition local_row (U : list node) (x : list S) (fp : S) (row : list ((Z * Z) * S)) : list (Z * S) * S :=
    fold_left (fun acc e =>
                 match pos_in (fst e) U 0 with
                 | Some c => (add_entry c (snd e) (fst acc), snd acc)
                 | None => (fst acc, snd acc - snd e * vat x (fst e))
                 end) row ([], fp).

  Definition block_update (U : list node) (x f : list S) : list S :=
    let sys := map (fun p => local_row U x (vat f p) (rowA (fst p) (snd p))) U in
    let u := lu_solve (lu_factor (map fst sys)) (map snd sys) in
    fold_left (fun acc pu => lset acc (vidx (fst pu)) (snd pu)) (combine U u) x.

  Definition bgs (blocks : list (list node)) (x f : list S) : list S :=
    fold_left (fun acc U => block_update U acc f) blocks x.

  (* residual f - A x at a node, and the largest-index helper the driver uses to certify each update *)
  Definition apply_rowA (x : list S) (p : node) : S :=
    fold_left (fun acc e => acc + snd e * vat x (fst e)) (rowA (fst p) (snd p)) s0.
  Definition resid (x f : list S) (p : node) : S := vat f p - apply_rowA x p.

  (* ---- lines and colours ---- *)
  Fixpoint zrange (a : Z) (n : nat) : list Z :=
    match n with O => [] | Datatypes.S m => a :: zrange (a + 1) m end.
  Definition circle_line (i : Z) : list node := map (fun j => (i, j)) (zrange 0 (Z.to_nat nth)).
  Definition radial_line (j : Z) : list node := map (fun i => (i, j)) (zrange nsc (Z.to_nat (nr - nsc))).

  (* the outermost circle (nsc - 1) is black; black before white; even radial lines are black *)
  Definition start_black : Z := if Z.even nsc then 1 else 0.
  Definition start_white : Z := if Z.even nsc then 0 else 1.
  Fixpoint every2 (a : Z) (bound : Z) (fuel : nat) : list Z :=
    match fuel with
    | O => []
    | Datatypes.S m => if a <? bound then a :: every2 (a + 2) bound m else []
    end.
  Definition lines_in_order : list (list node) :=
    map circle_line (every2 start_black nsc (Z.to_nat nsc))
    ++ map circle_line (every2 start_white nsc (Z.to_nat nsc))
    ++ map radial_line (every2 0 nth (Z.to_nat nth))
    ++ map radial_line (every2 1 nth (Z.to_nat nth)).

  Definition is_coarse (p : node) : bool := Z.even (fst p) && Z.even (snd p).
  Definition fine_only (U : list node) : list node := filter (fun p => negb (is_coarse p)) U.

  Definition smoother_blocks : list (list node) := lines_in_order.
  Definition ext_smoother_blocks : list (list node) :=
    filter (fun U => match U with [] => false | _ => true end) (map fine_only lines_in_order).

  Definition sweep (x f : list S) : list S := bgs smoother_blocks x f.
  Definition ext_sweep (x f : list S) : list S := bgs ext_smoother_blocks x f.
End BGS.
