(* Properties_C14.v -- statements only.  C14: tridiagonal line solvers.
   Proved: exact-arithmetic correctness of the in-place LDL^T three-sweep solve for EVERY
   dimension (non-cyclic), positivity of all pivots for strictly diagonally dominant systems AND for every symmetric
   positive definite system (Schur-complement induction), hence A x = b for every SPD tridiagonal system,
   bit-identical repeated solves (any arithmetic).
   and of the cyclic (Sherman-Morrison) solve for every dimension n >= 2 under its two non-degeneracy
   conditions (the modified matrix factorises, 1 + v.z <> 0).
   PARTIAL: floating-point backward stability is covered by the exact-rational correspondence (K-solve), not by a theorem. *)
From Coq Require Import List ZArith Bool Reals.
From GMGP Require Import Scalar ScalarR TridiagDefs TridiagProofs TridiagCyclic TridiagSPD TridiagCyclicSPD TridiagCyclicDom TridiagUnique TridiagCyclicUnique.
Import ListNotations.
Local Open Scope R_scope.

(* the code's three sweeps on the stored factor equal the elimination, operation for operation
   (law-free: holds for floating point) *)
Theorem C14_sweeps_are_elimination : forall (S : Sc) (d : S) ds ss b0 bs,
  length ss = length ds -> length bs = length ds ->
  solve_tri (d :: ds) ss (b0 :: bs) = solve_rec d ds ss b0 bs.
Proof. exact @solve_tri_eq_rec. Qed.

(* A x = b for every dimension n >= 1 when no pivot vanishes *)
Theorem C14_ldlt_solve_correct : forall d ds ss b0 bs,
  length ss = length ds -> length bs = length ds -> pivots_ok d ds ss ->
  @matvec_tri Rsc (d :: ds) ss (@solve_tri Rsc (d :: ds) ss (b0 :: bs)) = b0 :: bs.
Proof. exact ldlt_solve_correct. Qed.

(* cyclic systems: A x = b for every n >= 2, with gamma = -a_00, B = A - u v^T the matrix the code factorises, z = B^-1 u *)
Theorem C14_cyclic_solve_correct : forall (d0 : R) (ds ss : list R) (c b0 : R) (bs : list R),
  (2 <= length (d0 :: ds))%nat -> length ss = length ds -> length bs = length ds -> d0 <> 0 ->
  match @cyc_modified_diag Rsc (d0 :: ds) c with [] => False | e :: es => pivots_ok e es ss end ->
  1 + (hd 0 (@solve_tri Rsc (@cyc_modified_diag Rsc (d0 :: ds) c) ss (@cyc_u Rsc (length (d0 :: ds)) (- d0) c))
       + c / - d0 * last (@solve_tri Rsc (@cyc_modified_diag Rsc (d0 :: ds) c) ss (@cyc_u Rsc (length (d0 :: ds)) (- d0) c)) 0) <> 0 ->
  @matvec_cyc Rsc (d0 :: ds) ss c (@solve_cyc Rsc (d0 :: ds) ss c (b0 :: bs)) = b0 :: bs.
Proof. exact cyclic_solve_correct. Qed.

(* strictly diagonally dominant with positive diagonal (zero sub-diagonals allowed): all pivots > 0 *)
Theorem C14_pivots_positive_of_dominant : forall ds d ss,
  length ss = length ds -> Rabs (hd 0 ss) < d -> dom_rest (hd 0 ss) ds (tl ss) -> pivots_pos d ds ss.
Proof. exact pivots_positive_of_dominant. Qed.
Theorem C14_pivots_pos_ok : forall d ds ss, pivots_pos d ds ss -> pivots_ok d ds ss.
Proof. exact pivots_pos_ok. Qed.

(* every symmetric positive definite tridiagonal matrix (x^T A x > 0 for x <> 0, with x^T A x taken from the dense reference
   product) has positive pivots, for every dimension; so the in-place solve returns the exact solution of every SPD system *)
Theorem C14_qform_is_xAx : forall d ds ss x0 xs, length ss = length ds -> length xs = length ds ->
  qform d ds ss x0 xs = dotR (x0 :: xs) (@matvec_tri Rsc (d :: ds) ss (x0 :: xs)).
Proof. exact qform_is_xAx. Qed.
Theorem C14_pivots_positive_of_spd : forall ds d ss, length ss = length ds -> spd d ds ss -> pivots_pos d ds ss.
Proof. exact spd_pivots_positive. Qed.
Theorem C14_spd_solve_correct : forall d ds ss b0 bs,
  length ss = length ds -> length bs = length ds -> spd d ds ss ->
  @matvec_tri Rsc (d :: ds) ss (@solve_tri Rsc (d :: ds) ss (b0 :: bs)) = b0 :: bs.
Proof. exact spd_solve_correct. Qed.

(* CYCLIC systems (the circle lines of the smoothers): every symmetric positive definite cyclic tridiagonal matrix, of every dimension
   n >= 2, dominant or not -- x^T A x is taken from the dense cyclic reference product -- makes the matrix B = A - u v^T that the code
   factorises (gamma = -a_00) positive definite, so its pivots are positive, the Sherman-Morrison denominator cannot vanish, and the
   solve returns the exact solution: both premises of C14_cyclic_solve_correct are consequences of definiteness *)
Theorem C14_qcyc_is_xAx : forall d0 ds ss c x0 xs, ds <> [] -> length ss = length ds -> length xs = length ds ->
  qcyc d0 ds ss c x0 xs = dotR (x0 :: xs) (@matvec_cyc Rsc (d0 :: ds) ss c (x0 :: xs)).
Proof. exact qcyc_is_xAx. Qed.
Theorem C14_cyclic_modified_matrix_is_spd : forall d0 ds ss c, ds <> [] -> length ss = length ds -> spd_cyc d0 ds ss c ->
  match @cyc_modified_diag Rsc (d0 :: ds) c with [] => False | e :: es => spd e es ss /\ pivots_pos e es ss end.
Proof. exact spd_cyc_modified_spd_and_pivots. Qed.
Theorem C14_cyclic_denominator_nonzero : forall d0 ds ss c, ds <> [] -> length ss = length ds -> spd_cyc d0 ds ss c ->
  1 + (hd 0 (@solve_tri Rsc (@cyc_modified_diag Rsc (d0 :: ds) c) ss (@cyc_u Rsc (length (d0 :: ds)) (- d0) c))
       + c / - d0 * last (@solve_tri Rsc (@cyc_modified_diag Rsc (d0 :: ds) c) ss (@cyc_u Rsc (length (d0 :: ds)) (- d0) c)) 0) <> 0.
Proof. exact spd_cyc_denominator_nonzero. Qed.
Theorem C14_spd_cyclic_solve_correct : forall d0 ds ss c b0 bs,
  ds <> [] -> length ss = length ds -> length bs = length ds -> spd_cyc d0 ds ss c ->
  @matvec_cyc Rsc (d0 :: ds) ss c (@solve_cyc Rsc (d0 :: ds) ss c (b0 :: bs)) = b0 :: bs.
Proof. exact spd_cyclic_solve_correct. Qed.

(* "in particular every strictly diagonally dominant" cyclic system: row-wise strict dominance (|s_{i-1}| + |s_i| < d_i, the corner counting
   in rows 0 and n-1, zero sub-diagonals and corners of either sign allowed) implies positive definiteness, for every n >= 2 *)
Theorem C14_dominant_cyclic_is_spd : forall d0 ds ss c, ds <> [] -> length ss = length ds ->
  cdom (Rabs c) (Rabs c) d0 ds ss -> spd_cyc d0 ds ss c.
Proof. exact dominant_cyclic_is_spd. Qed.
Theorem C14_dominant_cyclic_solve_correct : forall d0 ds ss c b0 bs,
  ds <> [] -> length ss = length ds -> length bs = length ds -> cdom (Rabs c) (Rabs c) d0 ds ss ->
  @matvec_cyc Rsc (d0 :: ds) ss c (@solve_cyc Rsc (d0 :: ds) ss c (b0 :: bs)) = b0 :: bs.
Proof. exact dominant_cyclic_solve_correct. Qed.

(* an SPD tridiagonal system has at most one solution, for every dimension: what the solver returns is THE solution (this is the
   uniqueness premise of the block Gauss-Seidel fixed-point theorems of C06 / C07 for positive definite line blocks) *)
Theorem C14_spd_solution_unique : forall d ds ss x0 xs y0 ys,
  length ss = length ds -> length xs = length ds -> length ys = length ds -> spd d ds ss ->
  @matvec_tri Rsc (d :: ds) ss (x0 :: xs) = @matvec_tri Rsc (d :: ds) ss (y0 :: ys) -> x0 :: xs = y0 :: ys.
Proof. exact spd_solution_unique. Qed.

Theorem C14_spd_cyclic_solution_unique : forall d0 ds ss c x0 xs y0 ys, ds <> [] ->
  length ss = length ds -> length xs = length ds -> length ys = length ds -> spd_cyc d0 ds ss c ->
  @matvec_cyc Rsc (d0 :: ds) ss c (x0 :: xs) = @matvec_cyc Rsc (d0 :: ds) ss c (y0 :: ys) -> x0 :: xs = y0 :: ys.
Proof. exact spd_cyc_solution_unique. Qed.

(* repeated solves with the same object and right-hand side return identical results (bit for bit:
   no law of arithmetic is used), the first solve included *)
Theorem C14_repeated_solves_identical : forall (S : Sc) (t : @tri S) (b : list S),
  let '(t1, x1) := tri_solve t b in tri_solve t1 b = (t1, x1).
Proof. exact @repeated_solves_identical. Qed.
Theorem C14_solve_marks_factorized : forall (S : Sc) (t : @tri S) (b : list S), t_fact (fst (tri_solve t b)) = true.
Proof. exact @solve_marks_factorized. Qed.

Print Assumptions C14_sweeps_are_elimination.
Print Assumptions C14_ldlt_solve_correct.
Print Assumptions C14_pivots_positive_of_dominant.
Print Assumptions C14_repeated_solves_identical.
Print Assumptions C14_cyclic_solve_correct.
Print Assumptions C14_spd_solve_correct.
Print Assumptions C14_spd_cyclic_solve_correct.
Print Assumptions C14_dominant_cyclic_solve_correct.
Print Assumptions C14_spd_solution_unique.
Print Assumptions C14_spd_cyclic_solution_unique.
