(* Properties_C02.v -- statements only.  C02 (PARTIAL): the order of convergence itself is asymptotic
   analysis and is NOT a theorem here.  Proved: the discrete identities the order rests on.
   (* FULL: ||u_h - u|| = O(h^2), and O(h^p), p > 3, with implicit extrapolation *) *)
From Coq Require Import List ZArith Bool Reals.
From GMGP Require Import Scalar ScalarR InterpDefs StencilDefs StencilProofs StencilProofs2.
Import ListNotations.
Local Open Scope R_scope.

(* the weight discretize_rhs_f multiplies f by is the weight of the beta*u term of the same row *)
Theorem C02_rhs_weight_is_mass_weight :
  forall (nr nth : Z) (h k : Z -> R) (R0 : R) (det : Z -> Z -> R) (beta : Z -> R) (dirbc : bool) (i j : Z),
  (0 < i < nr - 1)%Z ->
  @rhs_weight Rsc nr nth h k R0 det dirbc i j * beta i = @mass Rsc nth h k det beta (h (i - 1)%Z) i j.
Proof. intros nr nth h k R0 det. exact (rhs_weight_is_mass_weight nr nth h k R0 det det det det). Qed.
Theorem C02_rhs_weight_is_mass_weight_across :
  forall (nr nth : Z) (h k : Z -> R) (R0 : R) (det : Z -> Z -> R) (beta : Z -> R) (dirbc : bool) (j : Z),
  dirbc = false -> @rhs_weight Rsc nr nth h k R0 det dirbc 0 j * beta 0%Z = @mass Rsc nth h k det beta (2 * R0) 0 j.
Proof. exact rhs_weight_is_mass_weight_across. Qed.

(* with beta = 0 every interior row sums to zero: constants are in the kernel of the diffusion part *)
Theorem C02_interior_row_sum :
  forall (nr nth : Z) (h k : Z -> R) (R0 : R) (arr att art det : Z -> Z -> R) (beta : Z -> R) (dirbc : bool) (i j : Z),
  (0 < i < nr - 1)%Z ->
  @rowsum2 Rsc (@A_take_row Rsc nr nth h k R0 arr att art det beta dirbc i j) = @mass Rsc nth h k det beta (h (i - 1)%Z) i j.
Proof. exact interior_row_sum. Qed.
(* across the origin the diffusion part annihilates constants only if art(0,j-1) = art(0,j+1) *)
Theorem C02_across_row_sum :
  forall (nr nth : Z) (h k : Z -> R) (R0 : R) (arr att art det : Z -> Z -> R) (beta : Z -> R) (dirbc : bool) (j : Z),
  dirbc = false ->
  @rowsum2 Rsc (@A_take_row Rsc nr nth h k R0 arr att art det beta dirbc 0 j) =
  @mass Rsc nth h k det beta (2 * R0) 0 j + / 4 * (art 0%Z (wt nth (j - 1)) - art 0%Z (wt nth (j + 1))).
Proof. exact across_row_sum. Qed.

Theorem C02_richardson_algebra : forall u c uh u2h dh d2h hh : R,
  uh = u + c * hh ^ 2 + dh -> u2h = u + 4 * c * hh ^ 2 + d2h -> (4 * uh - u2h) / 3 - u = (4 * dh - d2h) / 3.
Proof. exact richardson_algebra. Qed.

Print Assumptions C02_interior_row_sum.
Print Assumptions C02_richardson_algebra.
