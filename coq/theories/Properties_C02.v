(* Properties_C02.v -- statements only.  C02 (PARTIAL): the order of convergence itself is asymptotic
   analysis and is NOT a theorem here.  Proved: the discrete identities the order rests on.
   (* FULL: ||u_h - u|| = O(h^2), and O(h^p), p > 3, with implicit extrapolation *) *)
From Coq Require Import List ZArith Bool Reals.
From GMGP Require Import Scalar ScalarR InterpDefs StencilDefs StencilProofs StencilProofs2 StencilTie.
From GMGP Require Import CycleDefs CycleRhs.
From GMGPGen Require Import StencilGen.
Import ListNotations.
Local Open Scope R_scope.

(* the weight discretize_rhs_f multiplies f by is the weight of the beta*u term of the same row *)
Theorem C02_rhs_weight_is_mass_weight :
  forall (nr nth : Z) (h k : Z -> R) (R0 : R) (det : Z -> Z -> R) (beta : Z -> R) (dirbc : bool) (i j : Z),
  (0 < i < nr - 1)%Z ->
  @rhs_weight Rsc nr nth h k R0 det dirbc i j * beta i = @mass Rsc nth h k det beta (h (i - 1)%Z) i j.
Proof. intros nr nth h k R0 det. exact (rhs_weight_is_mass_weight nr nth h k R0 det det det det). Qed.
Theorem C02_rhs_weight_is_mass_weight_across :
  forall (nr nth : Z) (h k : Z -> R) (R0 : R) (det : Z -> Z -> R) (beta : Z -> R) (dirbc : bool) (j : Z),
  dirbc = false -> @rhs_weight Rsc nr nth h k R0 det dirbc 0 j * beta 0%Z = @mass Rsc nth h k det beta (2 * R0) 0 j.
Proof. exact rhs_weight_is_mass_weight_across. Qed.

(* with beta = 0 every interior row sums to zero: constants are in the kernel of the diffusion part *)
Theorem C02_interior_row_sum :
  forall (nr nth : Z) (h k : Z -> R) (R0 : R) (arr att art det : Z -> Z -> R) (beta : Z -> R) (dirbc : bool) (i j : Z),
  (0 < i < nr - 1)%Z ->
  @rowsum2 Rsc (@A_take_row Rsc nr nth h k R0 arr att art det beta dirbc i j) = @mass Rsc nth h k det beta (h (i - 1)%Z) i j.
Proof. exact interior_row_sum. Qed.
(* across the origin the diffusion part annihilates constants only if art(0,j-1) = art(0,j+1) *)
Theorem C02_across_row_sum :
  forall (nr nth : Z) (h k : Z -> R) (R0 : R) (arr att art det : Z -> Z -> R) (beta : Z -> R) (dirbc : bool) (j : Z),
  dirbc = false ->
  @rowsum2 Rsc (@A_take_row Rsc nr nth h k R0 arr att art det beta dirbc 0 j) =
  @mass Rsc nth h k det beta (2 * R0) 0 j + / 4 * (art 0%Z (wt nth (j - 1)) - art 0%Z (wt nth (j + 1))).
Proof. exact across_row_sum. Qed.

Theorem C02_richardson_algebra : forall u c uh u2h dh d2h hh : R,
  uh = u + c * hh ^ 2 + dh -> u2h = u + 4 * c * hh ^ 2 + d2h -> (4 * uh - u2h) / 3 - u = (4 * dh - d2h) / 3.
Proof. exact richardson_algebra. Qed.

(* ---- the tie to the source: the four loop nests of GMGPolar::discretize_rhs_f as translator T3 regenerates them ---- *)

(* cached geometry: every loop body multiplies rhs_f at its own node by the model's rhs_weight (1 on Dirichlet rows) *)
Theorem C02_generated_rhs_scaling_cached :
  forall (nr nth : Z) (h k rad thetaf : Z -> R) (det : Z -> Z -> R) (dirbc : bool),
  (4 <= nr)%Z -> (2 <= nth)%Z ->
  forall gen : (Z -> Z -> R) -> Z -> Z -> list (@gwrite Rsc),
  gen = @gen_rhs_cached_circle Rsc nr nth h k rad thetaf det dirbc \/
  gen = @gen_rhs_cached_radial Rsc nr nth h k rad thetaf det dirbc ->
  forall (rhs_f : Z -> Z -> R) (i j : Z), (0 <= i < nr)%Z -> (0 <= j < nth)%Z ->
  gen rhs_f i j = [ (((i, j), W_rhs_f_WMul), @rhs_weight Rsc nr nth h k (rad 0%Z) det dirbc i j) ].
Proof. exact gen_rhs_body_cached. Qed.

(* uncached geometry: the same with det DF = Jrr Jtt - Jrt Jtr evaluated at the node itself *)
Theorem C02_generated_rhs_scaling_uncached :
  forall (nr nth : Z) (h k rad thetaf sin_cache cos_cache : Z -> R) (dFx_dr dFy_dr dFx_dt dFy_dt : Z -> Z -> R) (dirbc : bool),
  (4 <= nr)%Z -> (2 <= nth)%Z ->
  forall gen : (Z -> Z -> R) -> Z -> Z -> list (@gwrite Rsc),
  gen = @gen_rhs_uncached_circle Rsc nr nth h k rad thetaf sin_cache cos_cache dFx_dr dFy_dr dFx_dt dFy_dt dirbc \/
  gen = @gen_rhs_uncached_radial Rsc nr nth h k rad thetaf sin_cache cos_cache dFx_dr dFy_dr dFx_dt dFy_dt dirbc ->
  forall (rhs_f : Z -> Z -> R) (i j : Z), (0 <= i < nr)%Z -> (0 <= j < nth)%Z ->
  gen rhs_f i j = [ (((i, j), W_rhs_f_WMul),
                     @rhs_weight Rsc nr nth h k (rad 0%Z) (fun i j => dFx_dr i j * dFy_dt i j - dFx_dt i j * dFy_dr i j) dirbc i j) ].
Proof. exact gen_rhs_body_uncached. Qed.

(* the circle loop nest and the radial loop nest of either variant together visit every node exactly once *)
Theorem C02_generated_rhs_loops_partition :
  forall nr nth nsc i j : Z, (0 <= i < nr)%Z -> (0 <= j < nth)%Z ->
  xorb (gen_rhs_cached_circle_visits nth nsc i j) (gen_rhs_cached_radial_visits nr nth nsc i j) = true /\
  xorb (gen_rhs_uncached_circle_visits nth nsc i j) (gen_rhs_uncached_radial_visits nr nth nsc i j) = true.
Proof. exact gen_rhs_loops_partition. Qed.

(* the level-1 right-hand side f_2h (and every other right-hand side) of the extrapolated system is read-only during the start-up and
   the solver loop: for every number of levels, cycle type, smoothing counts, FMG variant, tolerance setting and stop-test oracle the
   op sequence of solve() contains no write to a right-hand-side buffer.  The implementation side is the K-trace oracle
   `extrapolation-coarse-rhs-preserved`. *)
Theorem C02_extrapolated_system_rhs_is_read_only :
  forall fmg fk iters k L pre post extrap combined has_exact tol fgs maxit oracle l,
  ~ In (l, Rhs) (all_writes (init_ops fmg fk iters pre post extrap fgs L
                             ++ fst (fst (solve_loop k L pre post extrap combined has_exact tol fgs 0%nat maxit oracle)))).
Proof. exact solve_never_writes_rhs. Qed.

Print Assumptions C02_interior_row_sum.
Print Assumptions C02_generated_rhs_scaling_cached.
Print Assumptions C02_richardson_algebra.
Print Assumptions C02_extrapolated_system_rhs_is_read_only.
