(* StencilTieSmoother.v -- the A_sc_ortho kernels of the take smoother as T3 regenerates them, tied to the operator model. *)
From Coq Require Import List ZArith Bool Reals Lia Lra.
From GMGP Require Import Scalar ScalarR InterpDefs StencilDefs StencilTie.
From GMGPGen Require Import StencilGen.
Import ListNotations.

(* ---- take smoother: the A_sc_ortho kernels (NODE_APPLY_ASC_ORTHO_CIRCLE_TAKE / _RADIAL_TAKE) as T3 regenerates them.
   For a node of the line being relaxed they write  temp := rhs - (the part of the node's row of A that couples it to nodes
   OUTSIDE its line) . x  -- exactly the right-hand side of the block Gauss-Seidel update of SmootherDefs.local_row.  On a
   radial line the coupling of row nr-2 to the Dirichlet node nr-1 of the same line is moved to the right-hand side with the
   boundary value rhs(nr-1, j) (the "symmetry shift"), and the Dirichlet row itself gets temp = rhs. ---- *)
Section AscOrthoTakeTie.
  Variable nr nth nsc : Z.
  Variable h k rad : Z -> R.
  Variable arr att art det : Z -> Z -> R.
  Variable beta : Z -> R.
  Variable dirbc : bool.
  Hypothesis Hnr : (4 <= nr)%Z.
  Hypothesis Hnth : (2 <= nth)%Z.
  Hypothesis Hnsc : (1 <= nsc <= nr - 3)%Z.        (* what the smoother asserts: at least one circle, radial length >= 3 *)

  Notation rowA := (@A_take_row Rsc nr nth h k (rad 0%Z) arr att art det beta dirbc).
  Definition off_circle (i : Z) (row : list ((Z * Z) * R)) := filter (fun e => negb (fst (fst e) =? i)%Z) row.
  Definition off_radial (j : Z) (row : list ((Z * Z) * R)) := filter (fun e => negb ((snd (fst e) =? j)%Z && (nsc <=? fst (fst e))%Z)) row.
  (* the entry of row (i,j) in column (i+1, j) *)
  Definition right_coupling (i j : Z) : R :=
    (- (@c2 Rsc nth h k i j * (arr i j + arr (i + 1)%Z j)))%R.

  Lemma quot_bounds3 : (0 <= Z.quot nth 2 <= nth)%Z.
  Proof. split; [apply Z.quot_pos; lia|]. apply Z.quot_le_upper_bound; lia. Qed.

  Ltac wraps5 j Hj :=
    rewrite ?wrapT_idem;
    rewrite ?(wrapT_small nth j Hj);
    rewrite ?(wrapT_wrap1 nth (j - 1)) by lia;
    rewrite ?(wrapT_wrap1 nth (j + 1)) by lia;
    rewrite ?(wrapT_wrap1 nth (j + Z.quot nth 2)) by (pose proof quot_bounds3; lia);
    rewrite ?(wrap1_small nth j Hj).

  Lemma w1_m1_ne j : (0 <= j < nth)%Z -> wrap1 nth (j - 1) <> j.
  Proof. intros Hj. unfold wrap1. destruct (Z.ltb_spec (j - 1) 0); [lia|]. destruct (Z.geb_spec (j - 1) nth); lia. Qed.
  Lemma w1_p1_ne j : (0 <= j < nth)%Z -> wrap1 nth (j + 1) <> j.
  Proof. intros Hj. unfold wrap1. destruct (Z.ltb_spec (j + 1) 0); [lia|]. destruct (Z.geb_spec (j + 1) nth); lia. Qed.

  Ltac decide_eqb :=
    repeat match goal with
           | |- context [(?a =? ?b)%Z] => destruct (Z.eqb_spec a b); try lia
           | |- context [(?a <=? ?b)%Z] => destruct (Z.leb_spec a b); try lia
           end.

  Theorem gen_asc_ortho_circle_take_is_model : forall (rhs x : Z -> Z -> R) (i j : Z),
    (0 <= i < nsc)%Z -> (0 <= j < nth)%Z ->
    @gen_asc_ortho_circle_take Rsc nth nsc h k rad arr art dirbc rhs x i j =
    [ (((i, j), W_temp_WAssign), (rhs i j - @apply_row2 Rsc (off_circle i (rowA i j)) x)%R) ].
  Proof.
    intros rhs x i j Hi Hj.
    unfold gen_asc_ortho_circle_take, A_take_row, off_circle. cbv zeta. wraps5 j Hj.
    destruct (Z.ltb_spec 0 i); destruct (Z.ltb_spec i nsc); destruct (Z.ltb_spec i (nr - 1)); try lia; cbn [andb].
    - rewrite app_nil_r. f_equal. f_equal.
      cbn [filter fst snd]. rewrite !Z.eqb_refl. cbn [negb].
      replace (i - 1 =? i)%Z with false by (symmetry; apply Z.eqb_neq; lia).
      replace (i + 1 =? i)%Z with false by (symmetry; apply Z.eqb_neq; lia). cbn [negb].
      unfold apply_row2, c1, c2, c3, c4, mass, kk, wt. cbn [fold_right fst snd]. wraps5 j Hj. rsc. ring.
    - destruct (Z.eqb_spec i 0); [|lia]. subst i. destruct dirbc.
      + rewrite !app_nil_r. f_equal. f_equal. cbn [filter fst snd Z.eqb negb apply_row2 fold_right]. rsc. ring.
      + rewrite !app_nil_r. f_equal. f_equal.
        cbn [filter fst snd Z.eqb Z.add Pos.eqb negb].
        unfold apply_row2, c1, c2, c3, c4, mass, kk, across, wt. cbn [fold_right fst snd]. wraps5 j Hj. rsc. ring.
  Qed.

  Theorem gen_asc_ortho_radial_take_is_model : forall (rhs x : Z -> Z -> R) (i j : Z),
    (nsc <= i < nr)%Z -> (0 <= j < nth)%Z ->
    @gen_asc_ortho_radial_take Rsc nr nth nsc h k arr att art rhs x i j =
    [ (((i, j), W_temp_WAssign),
       (rhs i j - @apply_row2 Rsc (off_radial j (rowA i j)) x
        - (if (i =? nr - 2)%Z then right_coupling i j * rhs (i + 1)%Z j else 0))%R) ].
  Proof.
    intros rhs x i j Hi Hj.
    pose proof (w1_m1_ne j Hj) as Nm. pose proof (w1_p1_ne j Hj) as Np.
    unfold gen_asc_ortho_radial_take, A_take_row, off_radial, right_coupling, wt. cbv zeta. wraps5 j Hj.
    destruct (Z.ltb_spec nsc i); destruct (Z.ltb_spec i (nr - 2)); destruct (Z.eqb_spec i nsc); destruct (Z.eqb_spec i (nr - 2));
      destruct (Z.eqb_spec i (nr - 1)); try lia; cbn [andb];
      (destruct (Z.ltb_spec 0 i); destruct (Z.ltb_spec i (nr - 1)); try lia; cbn [andb]);
      try (destruct (Z.eqb_spec i 0); try lia);
      rewrite ?app_nil_r; f_equal; f_equal;
      cbn [filter fst snd]; rewrite ?Z.eqb_refl;
      repeat match goal with
             | |- context [(wrap1 nth (j - 1) =? j)%Z] => replace (wrap1 nth (j - 1) =? j)%Z with false by (symmetry; apply Z.eqb_neq; exact Nm)
             | |- context [(wrap1 nth (j + 1) =? j)%Z] => replace (wrap1 nth (j + 1) =? j)%Z with false by (symmetry; apply Z.eqb_neq; exact Np)
             end;
      decide_eqb; cbn [andb negb filter fst snd];
      unfold apply_row2, c1, c2, c3, c4, mass, kk, wt; cbn [fold_right fst snd]; wraps5 j Hj; rsc; ring.
  Qed.
End AscOrthoTakeTie.
