(* TridiagUnique.v -- C14 / C06: a symmetric positive definite tridiagonal system has at most one solution (for every dimension),
   so "the" solution the line solvers return is the only one: the uniqueness premise of the block Gauss-Seidel fixed-point theorems
   (C06 / C07) holds for every line block that is positive definite. *)
From Coq Require Import List ZArith Bool Reals Lra Lia.
From GMGP Require Import Scalar ScalarR TridiagDefs TridiagProofs TridiagCyclic TridiagSPD.
Import ListNotations.
Local Open Scope R_scope.

Fixpoint vsubR (a b : list R) : list R := match a, b with x :: a', y :: b' => (x - y) :: vsubR a' b' | _, _ => [] end.

Lemma mvfrom_sub : forall (ds : list R) (sp xp yp : R) (ss xs ys : list R),
  length xs = length ds -> length ys = length ds -> S (length ss) = length ds ->
  @matvec_tri_from Rsc sp (xp - yp) ds ss (vsubR xs ys)
  = vsubR (@matvec_tri_from Rsc sp xp ds ss xs) (@matvec_tri_from Rsc sp yp ds ss ys).
Proof.
  induction ds as [|d ds IH]; intros sp xp yp ss xs ys Hx Hy Hs; [discriminate|].
  destruct xs as [|x xs]; [discriminate|]. destruct ys as [|y ys]; [discriminate|].
  cbn [length] in Hx, Hy, Hs. injection Hx as Hx. injection Hy as Hy. injection Hs as Hs.
  destruct ds as [|d1 ds].
  - destruct ss; [|discriminate]. destruct xs; [|discriminate]. destruct ys; [|discriminate].
    cbn [vsubR matvec_tri_from]. rsc. f_equal. ring.
  - destruct ss as [|s ss]; [discriminate|]. destruct xs as [|x1 xs]; [discriminate|]. destruct ys as [|y1 ys]; [discriminate|].
    change (vsubR (x :: x1 :: xs) (y :: y1 :: ys)) with ((x - y) :: vsubR (x1 :: xs) (y1 :: ys)).
    change (@matvec_tri_from Rsc sp (xp - yp) (d :: d1 :: ds) (s :: ss) ((x - y) :: vsubR (x1 :: xs) (y1 :: ys)))
      with ((@sadd Rsc (@sadd Rsc (@smul Rsc sp (xp - yp)) (@smul Rsc d (x - y))) (@smul Rsc s (x1 - y1)))
              :: @matvec_tri_from Rsc s (x - y) (d1 :: ds) ss (vsubR (x1 :: xs) (y1 :: ys))).
    rewrite IH by (cbn [length] in *; congruence).
    change (@matvec_tri_from Rsc sp xp (d :: d1 :: ds) (s :: ss) (x :: x1 :: xs))
      with ((@sadd Rsc (@sadd Rsc (@smul Rsc sp xp) (@smul Rsc d x)) (@smul Rsc s x1)) :: @matvec_tri_from Rsc s x (d1 :: ds) ss (x1 :: xs)).
    change (@matvec_tri_from Rsc sp yp (d :: d1 :: ds) (s :: ss) (y :: y1 :: ys))
      with ((@sadd Rsc (@sadd Rsc (@smul Rsc sp yp) (@smul Rsc d y)) (@smul Rsc s y1)) :: @matvec_tri_from Rsc s y (d1 :: ds) ss (y1 :: ys)).
    cbn [vsubR]. rsc. f_equal. ring.
Qed.

Lemma dotR_vsubR_self : forall v w : list R, length w = length v -> dotR w (vsubR v v) = 0.
Proof.
  induction v as [|a v IH]; intros w Hw.
  - destruct w; [reflexivity|discriminate].
  - destruct w as [|b w]; [discriminate|]. cbn [length] in Hw. injection Hw as Hw. cbn [vsubR dotR]. rewrite (IH w Hw). ring.
Qed.

Lemma vsubR_zero_eq : forall xs ys : list R, length xs = length ys -> ~ (exists v, In v (vsubR xs ys) /\ v <> 0) -> xs = ys.
Proof.
  induction xs as [|x xs IH]; intros ys Hl Hn.
  - destruct ys; [reflexivity|discriminate].
  - destruct ys as [|y ys]; [discriminate|]. cbn [length] in Hl. injection Hl as Hl. cbn [vsubR] in Hn.
    destruct (Req_dec (x - y) 0) as [E|N].
    + f_equal; [lra|]. apply IH; [exact Hl|]. intros [v [Hin Hv]]. apply Hn. exists v. split; [right; exact Hin|exact Hv].
    + exfalso. apply Hn. exists (x - y). split; [left; reflexivity|exact N].
Qed.

Lemma length_vsubR : forall xs ys : list R, length xs = length ys -> length (vsubR xs ys) = length xs.
Proof.
  induction xs as [|x xs IH]; intros ys Hl; [reflexivity|]. destruct ys as [|y ys]; [discriminate|].
  cbn [length] in Hl. injection Hl as Hl. cbn [vsubR length]. f_equal. apply IH. exact Hl.
Qed.

Theorem spd_solution_unique d ds ss x0 xs y0 ys :
  length ss = length ds -> length xs = length ds -> length ys = length ds -> spd d ds ss ->
  @matvec_tri Rsc (d :: ds) ss (x0 :: xs) = @matvec_tri Rsc (d :: ds) ss (y0 :: ys) -> x0 :: xs = y0 :: ys.
Proof.
  intros Hs Hx Hy Hspd HA.
  apply vsubR_zero_eq; [cbn [length]; f_equal; exact (eq_trans Hx (eq_sym Hy))|]. intros Hnz.
  change (vsubR (x0 :: xs) (y0 :: ys)) with ((x0 - y0) :: vsubR xs ys) in Hnz.
  assert (Lw : length (vsubR xs ys) = length ds) by (rewrite length_vsubR; [exact Hx|exact (eq_trans Hx (eq_sym Hy))]).
  specialize (Hspd (x0 - y0) (vsubR xs ys) Lw Hnz).
  rewrite (qform_is_xAx d ds ss _ _ Hs Lw) in Hspd.
  unfold matvec_tri in *. change (@s0 Rsc) with (0 : R) in *.
  replace (0 : R) with (0 - 0) in Hspd at 3 by ring.
  change ((x0 - y0) :: vsubR xs ys) with (vsubR (x0 :: xs) (y0 :: ys)) in Hspd.
  rewrite mvfrom_sub in Hspd by (cbn [length]; f_equal; assumption).
  rewrite HA in Hspd.
  rewrite dotR_vsubR_self in Hspd; [lra|].
  rewrite length_vsubR by (cbn [length]; f_equal; exact (eq_trans Hx (eq_sym Hy))).
  rewrite length_mvfrom by (cbn [length]; f_equal; assumption). cbn [length]. f_equal. exact Hx.
Qed.
