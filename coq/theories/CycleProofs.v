(* CycleProofs.v -- C10 / C09b / C01: structural theorems about the op sequences of the cycles, the FMG
   start-up and the solver loop, for EVERY number of levels, smoothing counts and cycle type:
   - no cycle ever writes a right-hand-side buffer or its own f argument          (cyc_writes)
   - the outcome of a cycle depends on no buffer except its x and f arguments      (cyc_rd_ok):
     every other buffer is written before it is read (stale scratch cannot leak)
   - the FMG start depends only on the right-hand sides                            (init_rd_ok)
   - when the loop stops early, the last thing it did was to compute the tested residual from the
     solution it returns                                                           (stop_is_true) *)
From Coq Require Import List Arith Bool Lia.
From GMGP Require Import CycleDefs.
Import ListNotations.

(* reads are covered: every buffer an event reads was written earlier in the list (w) or is allowed (A) *)
Inductive rd_ok (A : list bref) : list bref -> list ev -> Prop :=
| rd_nil : forall w, rd_ok A w []
| rd_cons : forall w e rest,
    (forall b, In b (ev_reads e) -> In b w \/ In b A) ->
    rd_ok A (ev_writes e ++ w) rest -> rd_ok A w (e :: rest).

Lemma rd_ok_mono A ops : forall w w', (forall b, In b w -> In b w') -> rd_ok A w ops -> rd_ok A w' ops.
Proof.
  induction ops as [|e rest IH]; intros w w' Hs H; [constructor|].
  inversion H as [|? ? ? Hr Hrest]; subst. constructor.
  - intros b Hb. destruct (Hr b Hb) as [Hw|Ha]; [left; apply Hs; exact Hw|right; exact Ha].
  - apply (IH (ev_writes e ++ w)); [|exact Hrest].
    intros b Hb. apply in_app_iff in Hb. apply in_app_iff. destruct Hb as [Hb|Hb]; [left; exact Hb|right; apply Hs; exact Hb].
Qed.

Lemma rd_ok_app A a : forall b w, rd_ok A w a -> rd_ok A (all_writes a ++ w) b -> rd_ok A w (a ++ b).
Proof.
  induction a as [|e rest IH]; intros b w Ha Hb; cbn [app all_writes flat_map] in *; [exact Hb|].
  inversion Ha as [|? ? ? Hr Hrest]; subst. constructor; [exact Hr|].
  apply IH; [exact Hrest|]. apply (rd_ok_mono A b ((ev_writes e ++ flat_map ev_writes rest) ++ w)); [|exact Hb].
  intros x Hx. rewrite !in_app_iff in *. unfold all_writes. tauto.
Qed.

(* allowed buffers that have already been written may be dropped from / exchanged in the allowed set *)
Lemma rd_ok_weaken A A' ops : forall w, (forall b, In b A -> In b w \/ In b A') -> rd_ok A w ops -> rd_ok A' w ops.
Proof.
  induction ops as [|e rest IH]; intros w Hs H; [constructor|].
  inversion H as [|? ? ? Hr Hrest]; subst. constructor.
  - intros b Hb. destruct (Hr b Hb) as [Hw|Ha]; [left; exact Hw|apply Hs; exact Ha].
  - apply IH; [|exact Hrest]. intros b Hb. destruct (Hs b Hb) as [Hw|Ha]; [left; apply in_app_iff; right; exact Hw|right; exact Ha].
Qed.

Lemma rd_ok_repeat A e n : forall w, (forall b, In b (ev_reads e) -> In b w \/ In b A) -> rd_ok A w (repeat e n).
Proof.
  induction n as [|n IH]; intros w H; cbn [repeat]; constructor; [exact H|].
  apply IH. intros b Hb. destruct (H b Hb) as [Hw|Ha]; [left; apply in_app_iff; right; exact Hw|right; exact Ha].
Qed.

Lemma all_writes_app a b : all_writes (a ++ b) = all_writes a ++ all_writes b.
Proof. unfold all_writes. apply flat_map_app. Qed.
Lemma all_writes_repeat e n b : In b (all_writes (repeat e n)) -> In b (ev_writes e).
Proof.
  induction n as [|n IH]; cbn [repeat all_writes flat_map]; [intros []|].
  intros H. apply in_app_iff in H. destruct H as [H|H]; [exact H|apply IH; exact H].
Qed.

Ltac inb := cbn [In ev_reads ev_writes e_op e_bufs app]; rewrite ?in_app_iff; cbn [In ev_reads ev_writes e_op e_bufs app]; tauto.

(* ------------------------------------------------------------------ *)
(* plain cycles                                                        *)
(* ------------------------------------------------------------------ *)

(* everything a cycle writes: its x and r arguments and non-rhs buffers of deeper levels *)
Theorem cyc_writes : forall rem k d pre post x f r b,
  In b (all_writes (cyc k rem d pre post x f r)) -> b = x \/ b = r \/ (d < fst b /\ snd b <> Rhs).
Proof.
  induction rem as [rem IH] using lt_wf_ind. intros k d pre post x f r b H.
  assert (Hsm : forall n, In b (all_writes (repeat (mkEv OSmooth d [x; f; r]) n)) -> b = x \/ b = r \/ (d < fst b /\ snd b <> Rhs)).
  { intros n Hn. apply all_writes_repeat in Hn. cbn in Hn. intuition (subst; auto). }
  assert (Hdeep : forall kk, b = (S d, kk) -> kk <> Rhs -> b = x \/ b = r \/ (d < fst b /\ snd b <> Rhs)).
  { intros kk -> Hk. right. right. cbn. split; [lia|exact Hk]. }
  destruct rem as [|[|rem2]]; cbn [cyc] in H; rewrite !all_writes_app, !in_app_iff in H.
  - destruct H as [H|[H|[H|[H|H]]]]; [apply (Hsm _ H)| | | |apply (Hsm _ H)]; cbn in H; intuition (subst; auto).
  - destruct H as [H|[H|[H|[H|H]]]]; [apply (Hsm _ H)| | | |apply (Hsm _ H)]; cbn in H.
    + intuition (subst; auto).
    + destruct H as [<-|[<-|[]]]; apply (Hdeep Res); [reflexivity|discriminate|reflexivity|discriminate].
    + intuition (subst; auto).
  - destruct H as [H|[H|[H|[H|H]]]]; [apply (Hsm _ H)| | | |apply (Hsm _ H)].
    + cbn in H. intuition (subst; auto).
    + assert (G : forall kk, In b (all_writes (cyc kk (S rem2) (S d) pre post (S d, Res) (S d, Err) (S d, Sol))) ->
                             b = x \/ b = r \/ d < fst b /\ snd b <> Rhs).
      { intros kk Hk. destruct (IH (S rem2) ltac:(lia) kk (S d) pre post _ _ _ b Hk) as [->|[->|[Hl Hn]]].
        - apply (Hdeep Res); [reflexivity|discriminate].
        - apply (Hdeep Sol); [reflexivity|discriminate].
        - right. right. split; [lia|exact Hn]. }
      destruct H as [H|H].
      * cbn [all_writes flat_map ev_writes e_op e_bufs app In] in H.
        destruct H as [<-|[<-|[]]]; [apply (Hdeep Err)|apply (Hdeep Res)]; try reflexivity; discriminate.
      * destruct k; [apply (G KV); exact H| |]; rewrite all_writes_app, in_app_iff in H; destruct H as [H|H];
          first [apply (G KW); exact H | apply (G KF); exact H | apply (G KV); exact H].
    + cbn in H. intuition (subst; auto).
Qed.

Lemma cyc_unfold_base k d pre post x f r :
  cyc k 1 d pre post x f r =
  repeat (mkEv OSmooth d [x; f; r]) pre ++ [mkEv OResid d [r; f; x]]
  ++ [mkEv ORestrict d [(S d, Res); r]; mkEv ODirect (S d) [(S d, Res)]]
  ++ [mkEv OProlong (S d) [r; (S d, Res)]; mkEv OAdd d [x; r]] ++ repeat (mkEv OSmooth d [x; f; r]) post.
Proof. reflexivity. Qed.
Lemma cyc_unfold_rec k n d pre post x f r :
  cyc k (S (S n)) d pre post x f r =
  repeat (mkEv OSmooth d [x; f; r]) pre ++ [mkEv OResid d [r; f; x]]
  ++ ([mkEv ORestrict d [(S d, Err); r]; mkEv OAssign0 (S d) [(S d, Res)]]
      ++ match k with
         | KV => cyc KV (S n) (S d) pre post (S d, Res) (S d, Err) (S d, Sol)
         | KW => cyc KW (S n) (S d) pre post (S d, Res) (S d, Err) (S d, Sol) ++ cyc KW (S n) (S d) pre post (S d, Res) (S d, Err) (S d, Sol)
         | KF => cyc KF (S n) (S d) pre post (S d, Res) (S d, Err) (S d, Sol) ++ cyc KV (S n) (S d) pre post (S d, Res) (S d, Err) (S d, Sol)
         end)
  ++ [mkEv OProlong (S d) [r; (S d, Res)]; mkEv OAdd d [x; r]] ++ repeat (mkEv OSmooth d [x; f; r]) post.
Proof. reflexivity. Qed.

(* a cycle's outcome can depend on its x and f arguments only: every other buffer it reads has been
   written earlier in the cycle (for every number of levels, both recursion patterns) *)
Theorem cyc_rd_ok : forall rem k d pre post x f r w, 1 <= rem ->
  rd_ok [x; f] w (cyc k rem d pre post x f r).
Proof.
  induction rem as [rem IH] using lt_wf_ind. intros k d pre post x f r w Hrem.
  assert (Hsm : forall n w0, rd_ok [x; f] w0 (repeat (mkEv OSmooth d [x; f; r]) n)).
  { intros n w0. apply rd_ok_repeat. intros b Hb. right. revert Hb. inb. }
  destruct rem as [|[|rem2]]; [lia|rewrite cyc_unfold_base|rewrite cyc_unfold_rec].
  - apply rd_ok_app; [apply Hsm|]. constructor; [intros b Hb; right; revert Hb; inb|].
    cbn [app]. constructor; [intros b Hb; cbn in Hb; destruct Hb as [<-|[]]; left; inb|].
    constructor; [intros b Hb; cbn in Hb; destruct Hb as [<-|[]]; left; inb|].
    constructor; [intros b Hb; cbn in Hb; destruct Hb as [<-|[]]; left; inb|].
    constructor; [intros b Hb; cbn in Hb; destruct Hb as [<-|[<-|[]]]; [right; inb|left; inb]|]. apply Hsm.
  - apply rd_ok_app; [apply Hsm|]. constructor; [intros b Hb; right; revert Hb; inb|].
    (* restrict ; assign0 ; recursive call(s) ; prolong ; add ; post *)
    assert (Hrec : forall kk w0, In (S d, Res) w0 -> In (S d, Err) w0 ->
                   rd_ok [x; f] w0 (cyc kk (S rem2) (S d) pre post (S d, Res) (S d, Err) (S d, Sol))).
    { intros kk w0 H1 H2. apply (rd_ok_weaken [(S d, Res); (S d, Err)]); [|apply IH; lia].
      intros b Hb. cbn [In] in Hb. destruct Hb as [<-|[<-|[]]]; left; assumption. }
    assert (Hx' : forall kk, In (S d, Res) (all_writes (cyc kk (S rem2) (S d) pre post (S d, Res) (S d, Err) (S d, Sol)))).
    { intros kk. destruct rem2 as [|rem3]; [rewrite cyc_unfold_base|rewrite cyc_unfold_rec]; rewrite !all_writes_app, !in_app_iff; right; right; right; left;
        cbn [all_writes flat_map ev_writes e_op e_bufs In app]; auto. }
    cbn [app]. constructor; [intros b Hb; cbn [ev_reads e_op e_bufs In] in Hb; destruct Hb as [<-|[]]; left; inb|].
    constructor; [intros b Hb; cbn [ev_reads e_op e_bufs In] in Hb; contradiction|].
    assert (Htail : forall w0, In (S d, Res) w0 -> In r w0 ->
              rd_ok [x; f] w0 ([mkEv OProlong (S d) [r; (S d, Res)]; mkEv OAdd d [x; r]] ++ repeat (mkEv OSmooth d [x; f; r]) post)).
    { intros w0 H1 H2. cbn [app]. constructor; [intros b Hb; cbn [ev_reads e_op e_bufs In] in Hb; destruct Hb as [<-|[]]; left; exact H1|].
      constructor; [intros b Hb; cbn [ev_reads e_op e_bufs In] in Hb; destruct Hb as [<-|[<-|[]]]; [right; inb|left; inb]|]. apply Hsm. }
    set (w1 := ev_writes (mkEv OAssign0 (S d) [(S d, Res)]) ++ ev_writes (mkEv ORestrict d [(S d, Err); r]) ++ ev_writes (mkEv OResid d [r; f; x]) ++ all_writes (repeat (mkEv OSmooth d [x; f; r]) pre) ++ w).
    assert (W1a : In (S d, Res) w1) by (unfold w1; inb).
    assert (W1b : In (S d, Err) w1) by (unfold w1; inb).
    assert (W1c : In r w1) by (unfold w1; inb).
    destruct k.
    + apply rd_ok_app; [apply Hrec; assumption|]. apply Htail; apply in_app_iff; [left; apply Hx'|right; exact W1c].
    + rewrite <- app_assoc. apply rd_ok_app; [apply Hrec; assumption|].
      apply rd_ok_app; [apply Hrec; apply in_app_iff; right; assumption|].
      apply Htail; apply in_app_iff; [left; apply Hx'|right; apply in_app_iff; right; exact W1c].
    + rewrite <- app_assoc. apply rd_ok_app; [apply Hrec; assumption|].
      apply rd_ok_app; [apply Hrec; apply in_app_iff; right; assumption|].
      apply Htail; apply in_app_iff; [left; apply Hx'|right; apply in_app_iff; right; exact W1c].
Qed.

(* ------------------------------------------------------------------ *)
(* extrapolated cycles (entered at depth 0)                            *)
(* ------------------------------------------------------------------ *)
Theorem ecyc_rd_ok : forall rem k pre post fgs x f r w, 1 <= rem ->
  rd_ok [x; f; (1, Rhs)] w (ecyc k rem pre post fgs x f r).
Proof.
  intros rem k pre post fgs x f r w Hrem. unfold ecyc.
  set (sm := if fgs then mkEv OSmooth 0 [x; f; r] else mkEv OExtSmooth 0 [x; f; r]).
  assert (Hsm : forall n w0, rd_ok [x; f; (1, Rhs)] w0 (repeat sm n)).
  { intros n w0. apply rd_ok_repeat. intros b Hb. right. unfold sm in Hb. destruct fgs; revert Hb; inb. }
  assert (Hsmw : forall n b, In b (all_writes (repeat sm n)) -> b = x \/ b = r).
  { intros n b Hb. apply all_writes_repeat in Hb. unfold sm in Hb. destruct fgs; cbn in Hb; intuition (subst; auto). }
  destruct rem as [|[|rem2]]; [lia| |].
  - apply rd_ok_app; [apply Hsm|]. cbn [app].
    constructor; [intros b Hb; right; revert Hb; inb|].
    constructor; [intros b Hb; cbn [ev_reads e_op e_bufs In] in Hb; destruct Hb as [<-|[]]; left; inb|].
    constructor; [intros b Hb; right; revert Hb; inb|].
    constructor; [intros b Hb; cbn [ev_reads e_op e_bufs In] in Hb; destruct Hb as [<-|[<-|[]]]; [right; inb|left; inb]|].
    constructor; [intros b Hb; cbn [ev_reads e_op e_bufs In] in Hb; destruct Hb as [<-|[<-|[]]]; left; inb|].
    constructor; [intros b Hb; cbn [ev_reads e_op e_bufs In] in Hb; destruct Hb as [<-|[]]; left; inb|].
    constructor; [intros b Hb; cbn [ev_reads e_op e_bufs In] in Hb; destruct Hb as [<-|[]]; left; inb|].
    constructor; [intros b Hb; cbn [ev_reads e_op e_bufs In] in Hb; destruct Hb as [<-|[<-|[]]]; [right; inb|left; inb]|].
    apply Hsm.
  - apply rd_ok_app; [apply Hsm|].
    assert (Hrec : forall kk w0, In (1, Res) w0 -> In (1, Err) w0 ->
                   rd_ok [x; f; (1, Rhs)] w0 (cyc kk (S rem2) 1 pre post (1, Res) (1, Err) (1, Sol))).
    { intros kk w0 H1 H2. apply (rd_ok_weaken [(1, Res); (1, Err)]); [|apply cyc_rd_ok; lia].
      intros b Hb. cbn [In] in Hb. destruct Hb as [<-|[<-|[]]]; left; assumption. }
    assert (Hx' : forall kk, In (1, Res) (all_writes (cyc kk (S rem2) 1 pre post (1, Res) (1, Err) (1, Sol)))).
    { intros kk. destruct rem2 as [|rem3]; [rewrite cyc_unfold_base|rewrite cyc_unfold_rec]; rewrite !all_writes_app, !in_app_iff; right; right; right; left;
        cbn [all_writes flat_map ev_writes e_op e_bufs In app]; auto. }
    rewrite <- app_assoc. cbn [app].
    constructor; [intros b Hb; right; revert Hb; inb|].
    constructor; [intros b Hb; cbn [ev_reads e_op e_bufs In] in Hb; destruct Hb as [<-|[]]; left; inb|].
    constructor; [intros b Hb; right; revert Hb; inb|].
    constructor; [intros b Hb; cbn [ev_reads e_op e_bufs In] in Hb; destruct Hb as [<-|[<-|[]]]; [right; inb|left; inb]|].
    constructor; [intros b Hb; cbn [ev_reads e_op e_bufs In] in Hb; destruct Hb as [<-|[<-|[]]]; left; inb|].
    constructor; [intros b Hb; cbn [ev_reads e_op e_bufs In] in Hb; contradiction|].
    match goal with |- rd_ok _ ?w1 _ => set (ww := w1) end.
    assert (W1a : In (1, Res) ww) by (unfold ww; inb).
    assert (W1b : In (1, Err) ww) by (unfold ww; inb).
    assert (W1c : In r ww) by (unfold ww; inb).
    assert (Htail : forall w0, In (1, Res) w0 -> In r w0 ->
              rd_ok [x; f; (1, Rhs)] w0 ([mkEv OExProlong 1 [r; (1, Res)]; mkEv OAdd 0 [x; r]] ++ repeat sm post)).
    { intros w0 H1 H2. cbn [app]. constructor; [intros b Hb; cbn [ev_reads e_op e_bufs In] in Hb; destruct Hb as [<-|[]]; left; exact H1|].
      constructor; [intros b Hb; cbn [ev_reads e_op e_bufs In] in Hb; destruct Hb as [<-|[<-|[]]]; [right; inb|left; inb]|]. apply Hsm. }
    destruct k.
    + apply rd_ok_app; [apply Hrec; assumption|]. apply Htail; apply in_app_iff; [left; apply Hx'|right; exact W1c].
    + rewrite <- app_assoc. apply rd_ok_app; [apply Hrec; assumption|].
      apply rd_ok_app; [apply Hrec; apply in_app_iff; right; assumption|].
      apply Htail; apply in_app_iff; [left; apply Hx'|right; apply in_app_iff; right; exact W1c].
    + rewrite <- app_assoc. apply rd_ok_app; [apply Hrec; assumption|].
      apply rd_ok_app; [apply Hrec; apply in_app_iff; right; assumption|].
      apply Htail; apply in_app_iff; [left; apply Hx'|right; apply in_app_iff; right; exact W1c].
Qed.

(* ------------------------------------------------------------------ *)
(* the solver loop: a reported stop is a stop on the freshly computed residual of the returned iterate *)
(* ------------------------------------------------------------------ *)
Theorem stop_is_true : forall maxit k L pre post extrap combined has_exact fgs it oracle evs itf fgsf,
  solve_loop k L pre post extrap combined has_exact true fgs it maxit oracle = (evs, itf, fgsf) ->
  maxit <= length oracle ->            (* one oracle entry per possible stop test *)
  itf < it + maxit ->                  (* stopped before the iteration limit *)
  exists pre_evs, evs = pre_evs ++ stop_test extrap has_exact ++ [mkEv OConverged itf [(0, Sol)]].
Proof.
  induction maxit as [|m IH]; intros k L pre post extrap combined has_exact fgs it oracle evs itf fgsf H Hor Hlt.
  - cbn in H. injection H as E1 E2 E3. subst. lia.
  - cbn [solve_loop] in H. destruct oracle as [|[conv slow] orest]; [cbn in Hor; lia|].
    cbn [length] in Hor. destruct conv.
    + injection H as E1 E2 E3. subst. exists []. reflexivity.
    + destruct (solve_loop k L pre post extrap combined has_exact true
                  (if combined && slow && fgs && negb (it =? 0) then false else fgs) (S it) m orest) as [[restev itf'] fgsf'] eqn:E.
      injection H as E1 E2 E3. subst.
      destruct (IH _ _ _ _ _ _ _ _ _ _ _ _ _ E ltac:(lia) ltac:(lia)) as [p Hp].
      eexists (stop_test extrap has_exact ++ top_cycle k L pre post extrap _ ++ p). rewrite Hp. rewrite <- !app_assoc. reflexivity.
Qed.

(* the stop test reads only the current solution and the right-hand sides, and does not modify them *)
Theorem stop_test_footprint extrap has_exact b :
  (In b (all_writes (stop_test extrap has_exact)) -> b = (0, Res) \/ b = (1, Sol) \/ b = (1, Res)) /\
  rd_ok [(0, Sol); (0, Rhs); (1, Rhs)] [] (stop_test extrap has_exact).
Proof.
  split.
  - unfold stop_test. destruct extrap; destruct has_exact; cbn; intuition (subst; auto).
  - unfold stop_test. destruct extrap; destruct has_exact; cbn [app];
      repeat (constructor; [intros c Hc; cbn [ev_reads e_op e_bufs In] in Hc;
                            repeat (destruct Hc as [<-|Hc]; [first [right; inb | left; inb]|]); contradiction|]); constructor.
Qed.

(* ------------------------------------------------------------------ *)
(* FMG start-up: the starting approximation is a function of the right-hand sides only *)
(* ------------------------------------------------------------------ *)
Definition rhs_bufs (L : nat) : list bref := map (fun l => (l, Rhs)) (seq 0 L).
Lemma in_rhs_bufs L l : l < L -> In (l, Rhs) (rhs_bufs L).
Proof. intros H. unfold rhs_bufs. apply in_map_iff. exists l. split; [reflexivity|]. apply in_seq. lia. Qed.

Lemma rd_ok_concat_repeat A ops n : forall w,
  (forall w0, (forall b, In b w -> In b w0) -> rd_ok A w0 ops) -> rd_ok A w (concat (repeat ops n)).
Proof.
  induction n as [|n IH]; intros w H; cbn [repeat concat]; [constructor|].
  apply rd_ok_app; [apply H; auto|]. apply IH. intros w0 Hw0. apply H. intros b Hb. apply Hw0. apply in_app_iff. right. exact Hb.
Qed.

Lemma fmg_levels_rd_ok fk iters pre post extrap fgs L : 2 <= L -> forall cl w, cl < L -> In (cl, Sol) w ->
  rd_ok (rhs_bufs L) w (fmg_levels fk iters pre post extrap fgs L cl).
Proof.
  intros HL. induction cl as [|c IH]; intros w Hcl Hin; cbn [fmg_levels]; [constructor|].
  constructor; [intros b Hb; cbn [ev_reads e_op e_bufs In] in Hb; destruct Hb as [<-|[]]; left; exact Hin|].
  apply rd_ok_app.
  - apply rd_ok_concat_repeat. intros w0 Hw0.
    assert (Hx : In (c, Sol) w0) by (apply Hw0; inb).
    destruct ((c =? 0) && extrap)%bool eqn:E.
    + apply andb_prop in E. destruct E as [E _]. apply Nat.eqb_eq in E. subst c.
      apply (rd_ok_weaken [(0, Sol); (0, Rhs); (1, Rhs)]); [|apply ecyc_rd_ok; lia].
      intros b Hb. cbn [In] in Hb. destruct Hb as [<-|[<-|[<-|[]]]]; [left; exact Hx|right; apply in_rhs_bufs; lia|right; apply in_rhs_bufs; lia].
    + apply (rd_ok_weaken [(c, Sol); (c, Rhs)]); [|apply cyc_rd_ok; lia].
      intros b Hb. cbn [In] in Hb. destruct Hb as [<-|[<-|[]]]; [left; exact Hx|right; apply in_rhs_bufs; lia].
  - apply IH; [lia|]. apply in_app_iff. right. inb.
Qed.

Theorem init_rd_ok fmg fk iters pre post extrap fgs L : 2 <= L ->
  rd_ok (rhs_bufs L) [] (init_ops fmg fk iters pre post extrap fgs L).
Proof.
  intros HL. unfold init_ops. destruct fmg.
  - cbn [app]. constructor; [intros b Hb; cbn [ev_reads e_op e_bufs In] in Hb; destruct Hb as [<-|[]]; right; apply in_rhs_bufs; lia|].
    constructor; [intros b Hb; cbn [ev_reads e_op e_bufs In] in Hb; destruct Hb as [<-|[]]; left; inb|].
    apply fmg_levels_rd_ok; [exact HL|lia|inb].
  - constructor; [intros b Hb; cbn [ev_reads e_op e_bufs In] in Hb; contradiction|constructor].
Qed.

(* with two levels and no start-up cycles the start is: copy rhs, direct solve, FMG-interpolate *)
Theorem fmg_two_level_zero_cycles fk pre post extrap fgs :
  init_ops true fk 0 pre post extrap fgs 2 =
  [mkEv OCopy 1 [(1, Sol); (1, Rhs)]; mkEv ODirect 1 [(1, Sol)]; mkEv OFMG 1 [(0, Sol); (1, Sol)]].
Proof. reflexivity. Qed.

(* ================================================================== *)
(* value level: a cycle is a consistent correction scheme              *)
(* ================================================================== *)
(* Abstract vectors and per-level operators; the hypotheses are exactly what C03-C08 establish for
   the concrete operators: the smoother fixes exact solutions (C06) and maps (0,0) to 0, residual is
   f - A x with A 0 = 0, transfers and the coarse solve are linear (map 0 to 0). *)
Section Values.
  Variable V : Type.
  Variable vzero : V.
  Variable vadd : V -> V -> V.
  Hypothesis vadd_zero_r : forall x, vadd x vzero = x.
  Variable smooth : nat -> V -> V -> V.           (* level, x, f -> new x *)
  Variable resid : nat -> V -> V -> V.            (* level, f, x -> f - A x *)
  Variable restrict prolong : nat -> V -> V.      (* restrict from level l to l+1 ; prolong to level l from l+1 *)
  Variable direct : nat -> V -> V.
  Hypothesis smooth_zero : forall l, smooth l vzero vzero = vzero.
  Hypothesis resid_zero : forall l, resid l vzero vzero = vzero.
  Hypothesis restrict_zero : forall l, restrict l vzero = vzero.
  Hypothesis prolong_zero : forall l, prolong l vzero = vzero.
  Hypothesis direct_zero : forall l, direct l vzero = vzero.

  Fixpoint iter {A} (n : nat) (g : A -> A) (a : A) : A := match n with O => a | S m => iter m g (g a) end.

  (* functional reading of the op list of cyc (V/W/F), on the values of x given f *)
  Fixpoint cycv (k : ckind) (rem d pre post : nat) (x f : V) : V :=
    let x1 := iter pre (fun y => smooth d y f) x in
    let r := resid d f x1 in
    let e := match rem with
             | O => vzero
             | S O => direct (S d) (restrict d r)
             | S (S _ as rem1) =>
                 let fc := restrict d r in
                 match k with
                 | KV => cycv KV rem1 (S d) pre post vzero fc
                 | KW => cycv KW rem1 (S d) pre post (cycv KW rem1 (S d) pre post vzero fc) fc
                 | KF => cycv KV rem1 (S d) pre post (cycv KF rem1 (S d) pre post vzero fc) fc
                 end
             end in
    iter post (fun y => smooth d y f) (vadd x1 (prolong d e)).

  Lemma iter_fix {A} n (g : A -> A) a : g a = a -> iter n g a = a.
  Proof. intros H. induction n as [|n IH]; cbn; [reflexivity|]. rewrite H. exact IH. Qed.

  Lemma cycv_rec k n d pre post x f :
    cycv k (S (S n)) d pre post x f =
    iter post (fun y => smooth d y f)
      (vadd (iter pre (fun y => smooth d y f) x)
         (prolong d
            (match k with
             | KV => cycv KV (S n) (S d) pre post vzero (restrict d (resid d f (iter pre (fun y => smooth d y f) x)))
             | KW => cycv KW (S n) (S d) pre post
                       (cycv KW (S n) (S d) pre post vzero (restrict d (resid d f (iter pre (fun y => smooth d y f) x))))
                       (restrict d (resid d f (iter pre (fun y => smooth d y f) x)))
             | KF => cycv KV (S n) (S d) pre post
                       (cycv KF (S n) (S d) pre post vzero (restrict d (resid d f (iter pre (fun y => smooth d y f) x))))
                       (restrict d (resid d f (iter pre (fun y => smooth d y f) x)))
             end))).
  Proof. destruct k; reflexivity. Qed.

  (* on a zero right-hand side with a zero iterate every cycle returns zero, at every depth *)
  Lemma cycv_zero : forall rem k d pre post, cycv k rem d pre post vzero vzero = vzero.
  Proof.
    induction rem as [rem IH] using lt_wf_ind. intros k d pre post.
    destruct rem as [|[|rem2]]; [cbn [cycv]; cbv zeta|cbn [cycv]; cbv zeta|rewrite cycv_rec];
      rewrite (iter_fix pre) by apply smooth_zero; rewrite ?resid_zero.
    - rewrite prolong_zero, vadd_zero_r. apply iter_fix, smooth_zero.
    - rewrite restrict_zero, direct_zero, prolong_zero, vadd_zero_r. apply iter_fix, smooth_zero.
    - rewrite restrict_zero. destruct k; rewrite ?IH by lia; rewrite prolong_zero, vadd_zero_r; apply iter_fix, smooth_zero.
  Qed.

  (* started from the exact solution of the discrete system, a V-, W- or F-cycle returns it unchanged,
     for every number of levels and every smoothing count *)
  Theorem cycle_fixes_exact_solution rem k pre post u f :
    smooth 0 u f = u -> resid 0 f u = vzero -> cycv k rem 0 pre post u f = u.
  Proof.
    intros Hs Hr. destruct rem as [|[|rem2]]; [cbn [cycv]; cbv zeta|cbn [cycv]; cbv zeta|rewrite cycv_rec];
      rewrite (iter_fix pre) by exact Hs; rewrite ?Hr.
    - rewrite prolong_zero, vadd_zero_r. apply iter_fix, Hs.
    - rewrite restrict_zero, direct_zero, prolong_zero, vadd_zero_r. apply iter_fix, Hs.
    - rewrite restrict_zero. destruct k; rewrite ?cycv_zero; rewrite prolong_zero, vadd_zero_r; apply iter_fix, Hs.
  Qed.

  (* smoothing switched off, two levels: the algebraic coarse-grid correction u + P A_c^{-1} R (f - A u) *)
  Theorem two_level_no_smoothing k u f :
    cycv k 1 0 0 0 u f = vadd u (prolong 0 (direct 1 (restrict 0 (resid 0 f u)))).
  Proof. reflexivity. Qed.
End Values.

(* ================================================================== *)
(* C13: a whole solve reads no stale vector                            *)
(* ================================================================== *)
Lemma stop_test_rd_ok extrap has_exact L w : 2 <= L -> In (0, Sol) w ->
  rd_ok (rhs_bufs L) w (stop_test extrap has_exact).
Proof.
  intros HL Hin. apply (rd_ok_weaken [(0, Sol); (0, Rhs); (1, Rhs)]).
  - intros b Hb. cbn [In] in Hb. destruct Hb as [<-|[<-|[<-|[]]]]; [left; exact Hin|right; apply in_rhs_bufs; lia|right; apply in_rhs_bufs; lia].
  - apply (rd_ok_mono _ _ []); [intros b []|]. apply stop_test_footprint. exact (0, Sol).
Qed.

Lemma top_cycle_rd_ok k L pre post extrap fgs w : 2 <= L -> In (0, Sol) w ->
  rd_ok (rhs_bufs L) w (top_cycle k L pre post extrap fgs).
Proof.
  intros HL Hin. unfold top_cycle. destruct extrap.
  - apply (rd_ok_weaken [(0, Sol); (0, Rhs); (1, Rhs)]); [|apply ecyc_rd_ok; lia].
    intros b Hb. cbn [In] in Hb. destruct Hb as [<-|[<-|[<-|[]]]]; [left; exact Hin|right; apply in_rhs_bufs; lia|right; apply in_rhs_bufs; lia].
  - apply (rd_ok_weaken [(0, Sol); (0, Rhs)]); [|apply cyc_rd_ok; lia].
    intros b Hb. cbn [In] in Hb. destruct Hb as [<-|[<-|[]]]; [left; exact Hin|right; apply in_rhs_bufs; lia].
Qed.

Lemma solve_loop_rd_ok : forall maxit k L pre post extrap combined has_exact tol fgs it oracle w,
  2 <= L -> In (0, Sol) w ->
  rd_ok (rhs_bufs L) w (fst (fst (solve_loop k L pre post extrap combined has_exact tol fgs it maxit oracle))).
Proof.
  induction maxit as [|m IH]; intros k L pre post extrap combined has_exact tol fgs it oracle w HL Hin; cbn [solve_loop]; [constructor|].
  destruct tol.
  - destruct oracle as [|[conv slow] orest]; [constructor|]. destruct conv.
    + cbn [fst]. apply rd_ok_app; [apply stop_test_rd_ok; assumption|]. constructor; [intros b []|constructor].
    + match goal with |- context [solve_loop ?a ?b ?c ?d ?e ?f ?g ?h ?i ?j ?l ?o] => specialize (IH a b c d e f g h i j o) end.
      destruct (solve_loop _ _ _ _ _ _ _ _ _ _ m orest) as [[restev itf] fgsf]. cbn [fst] in *.
      apply rd_ok_app; [apply stop_test_rd_ok; assumption|].
      apply rd_ok_app; [apply top_cycle_rd_ok; [exact HL|apply in_app_iff; right; exact Hin]|].
      apply IH; [exact HL|]. apply in_app_iff. right. apply in_app_iff. right. exact Hin.
  - match goal with |- context [solve_loop ?a ?b ?c ?d ?e ?f ?g ?h ?i ?j ?l ?o] => specialize (IH a b c d e f g h i j o) end.
    destruct (solve_loop _ _ _ _ _ _ _ _ _ _ m oracle) as [[restev itf] fgsf]. cbn [fst] in *.
    apply rd_ok_app.
    + destruct has_exact; [|constructor]. constructor; [intros b Hb; cbn [ev_reads e_op e_bufs In] in Hb; destruct Hb as [<-|[]]; left; exact Hin|constructor].
    + apply rd_ok_app; [apply top_cycle_rd_ok; [exact HL|apply in_app_iff; right; exact Hin]|].
      apply IH; [exact HL|]. apply in_app_iff. right. apply in_app_iff. right. exact Hin.
Qed.

(* the start always writes the finest solution vector *)
Lemma init_writes_solution fmg fk iters pre post extrap fgs L : 2 <= L ->
  In (0, Sol) (all_writes (init_ops fmg fk iters pre post extrap fgs L)).
Proof.
  intros HL. unfold init_ops. destruct fmg; [|cbn; auto].
  rewrite all_writes_app. apply in_app_iff. right.
  assert (G : forall cl, 1 <= cl -> In (0, Sol) (all_writes (fmg_levels fk iters pre post extrap fgs L cl))).
  { induction cl as [|c IHc]; intros Hc; [lia|]. cbn [fmg_levels].
    change (In (0, Sol) (all_writes ([mkEv OFMG (S c) [(c, Sol); (S c, Sol)]] ++
              (concat (repeat (if (c =? 0) && extrap then ecyc fk (L - 1) pre post fgs (0, Sol) (0, Rhs) (0, Res)
                               else cyc fk (L - 1 - c) c pre post (c, Sol) (c, Rhs) (c, Res)) iters)
               ++ fmg_levels fk iters pre post extrap fgs L c)))).
    rewrite !all_writes_app, !in_app_iff. destruct c as [|c'].
    - left. cbn. left. reflexivity.
    - right. right. apply IHc. lia. }
  apply G. lia.
Qed.

(* everything setup()+solve() computes is a function of the right-hand sides and the options: no vector
   left behind by an earlier solve (or never initialised) is read before it is overwritten *)
Theorem solve_reads_only_problem_data :
  forall fmg fk iters k L pre post extrap combined has_exact tol fgs maxit oracle, 2 <= L ->
  rd_ok (rhs_bufs L) []
    (init_ops fmg fk iters pre post extrap fgs L
     ++ fst (fst (solve_loop k L pre post extrap combined has_exact tol fgs 0 maxit oracle))).
Proof.
  intros fmg fk iters k L pre post extrap combined has_exact tol fgs maxit oracle HL.
  apply rd_ok_app; [apply init_rd_ok; exact HL|].
  apply solve_loop_rd_ok; [exact HL|]. apply in_app_iff. left. apply init_writes_solution. exact HL.
Qed.
