(* ParDefs.v -- C11 / C12: model of the OpenMP work-sharing regions of the residual and the smoothers.
   A region is a list of phases (one per "#pragma omp for"); a phase is a list of iterations; an iteration is the list
   of task-function calls its body makes.  Two iterations may run concurrently iff they are different iterations of one
   phase, or belong to two phases not separated by a barrier (every phase between them has "nowait").  This
   over-approximates every thread count and every schedule (iterations given to one thread are ordered, which only
   removes conflicts).  Footprints are sets of (array, i_r, i_theta) cells, over-approximated by boxes; the harness
   measures the real footprints of the task functions and checks that they are contained in these (K-footprint).
   The region skeletons (loop bounds, strides, nowait, bodies) are regenerated from the C++ sources by
   translate/t2_regions.py (gen/ParRegionsGen.v). *)
From Coq Require Import List ZArith Bool.
Import ListNotations.
Local Open Scope Z_scope.

Inductive arr := AX | ARhs | ATemp | ARes | ASolverC | ASolverR | AScratch | AMat.   (* AMat: the CSR row of a node *)
Definition arr_eqb (a b : arr) : bool :=
  match a, b with
  | AX, AX | ARhs, ARhs | ATemp, ATemp | ARes, ARes | ASolverC, ASolverC | ASolverR, ASolverR | AScratch, AScratch | AMat, AMat => true
  | _, _ => false
  end.

Record dims := mkDims { d_nr : Z; d_nt : Z; d_nsc : Z }.

Inductive rows := RList (l : list Z) | RFrom (lo : Z).     (* RFrom lo = { lo .. nr-1 } *)
Inductive ths := TAll | TList (l : list Z).
Record box := mkBox { b_arr : arr; b_rows : rows; b_ths : ths }.
Record fp := mkFp { f_w : list box; f_r : list box }.

Definition cell := (arr * Z * Z)%type.

Definition rows_has (d : dims) (rs : rows) (i : Z) : bool :=
  (0 <=? i) && (i <? d_nr d) && match rs with RList l => existsb (Z.eqb i) l | RFrom lo => lo <=? i end.
Definition ths_has (d : dims) (ts : ths) (j : Z) : bool :=
  (0 <=? j) && (j <? d_nt d) && match ts with TAll => true | TList l => existsb (Z.eqb j) l end.
Definition box_has (d : dims) (b : box) (c : cell) : bool :=
  let '(a, i, j) := c in arr_eqb a (b_arr b) && rows_has d (b_rows b) i && ths_has d (b_ths b) j.

(* angular neighbour of a line 0 <= j < nt *)
Definition wr (d : dims) (x : Z) : Z := if x <? 0 then x + d_nt d else if d_nt d <=? x then x - d_nt d else x.

(* colours: the outermost circle (nsc - 1) is black; line 0 is black *)
Definition white_row (d : dims) (i : Z) : bool := (d_nsc d - 1 - i) mod 2 =? 1.
Definition white_line (j : Z) : bool := j mod 2 =? 1.

Inductive task :=
| ResGiveCircle (i : Z) | ResGiveRadial (j : Z)
| ResTakeCircle (i : Z) | ResTakeRadial (j : Z)
| AsmGiveCircle (i : Z) | AsmGiveRadial (j : Z)      (* direct-solver matrix assembly: a node gives to the CSR rows of its neighbours *)
| AsmTakeCircle (i : Z) | AsmTakeRadial (j : Z)      (* ... or fills its own CSR row *)
| AscCircle (give : bool) (i : Z) (white : bool)
| AscRadial (give : bool) (j : Z) (white : bool)
| SolveCircle (private_scratch : bool) (i : Z)
| SolveRadial (private_scratch : bool) (j : Z).

Definition circ_rows_below (d : dims) (l : list Z) : list Z := filter (fun i => i <? d_nsc d) l.

Definition footprint (d : dims) (t : task) : fp :=
  let nsc := d_nsc d in
  match t with
  | ResGiveCircle i =>
      let b a := mkBox a (RList [i - 1; i; i + 1]) TAll in
      mkFp [b ARes] [b ARes; b AX]
  | ResGiveRadial j =>
      let b a := mkBox a (RFrom (nsc - 1)) (TList [wr d (j - 1); j; wr d (j + 1)]) in
      mkFp [b ARes] [b ARes; b AX]
  | ResTakeCircle i =>
      mkFp [mkBox ARes (RList [i]) TAll] [mkBox ARhs (RList [i]) TAll; mkBox AX (RList [i - 1; i; i + 1]) TAll]
  | ResTakeRadial j =>
      mkFp [mkBox ARes (RFrom nsc) (TList [j])]
           [mkBox ARhs (RFrom nsc) (TList [j]); mkBox AX (RFrom (nsc - 1)) (TList [wr d (j - 1); j; wr d (j + 1)])]
  | AsmGiveCircle i => let b := mkBox AMat (RList [i - 1; i; i + 1]) TAll in mkFp [b] [b]
  | AsmGiveRadial j => let b := mkBox AMat (RFrom (nsc - 1)) (TList [wr d (j - 1); j; wr d (j + 1)]) in mkFp [b] [b]
  | AsmTakeCircle i => mkFp [mkBox AMat (RList [i]) TAll] []
  | AsmTakeRadial j => mkFp [mkBox AMat (RFrom nsc) (TList [j])] []
  | AscCircle true i white =>
      (* give: a row of the wanted colour collects into itself, a row of the other colour gives to its two neighbours
         (only circle rows are written: the call with i = nsc feeds the outermost circle from the first radial row) *)
      let wrows := if Bool.eqb (white_row d i) white then circ_rows_below d [i] else circ_rows_below d [i - 1; i + 1] in
      mkFp [mkBox ATemp (RList wrows) TAll]
           [mkBox ATemp (RList wrows) TAll; mkBox AX (RList [i - 1; i; i + 1]) TAll; mkBox ARhs (RList [i - 1; i; i + 1]) TAll]
  | AscCircle false i white =>
      mkFp [mkBox ATemp (RList [i]) TAll] [mkBox ARhs (RList [i]) TAll; mkBox AX (RList [i - 1; i; i + 1]) TAll]
  | AscRadial true j white =>
      let wth := if Bool.eqb (white_line j) white then [j] else [wr d (j - 1); wr d (j + 1)] in
      mkFp [mkBox ATemp (RFrom nsc) (TList wth)]
           [mkBox ATemp (RFrom nsc) (TList wth); mkBox AX (RFrom (nsc - 1)) (TList [wr d (j - 1); j; wr d (j + 1)]);
            mkBox ARhs (RFrom nsc) (TList [wr d (j - 1); j; wr d (j + 1)])]
  | AscRadial false j white =>
      mkFp [mkBox ATemp (RFrom nsc) (TList [j])]
           [mkBox ARhs (RFrom nsc) (TList [j]); mkBox AX (RFrom (nsc - 1)) (TList [wr d (j - 1); j; wr d (j + 1)])]
  | SolveCircle priv i =>
      mkFp ([mkBox AX (RList [i]) TAll; mkBox ATemp (RList [i]) TAll; mkBox ASolverC (RList [i]) (TList [0])]
              ++ (if priv then [] else [mkBox AScratch (RList [0]) (TList [0])]))
           [mkBox ATemp (RList [i]) TAll]
  | SolveRadial priv j =>
      mkFp ([mkBox AX (RFrom nsc) (TList [j]); mkBox ATemp (RFrom nsc) (TList [j]); mkBox ASolverR (RList [0]) (TList [j])]
              ++ (if priv then [] else [mkBox AScratch (RList [1]) (TList [0])]))
           [mkBox ATemp (RFrom nsc) (TList [j])]
  end.

Definition writes (d : dims) (t : task) (c : cell) : bool := existsb (fun b => box_has d b c) (f_w (footprint d t)).
Definition touches (d : dims) (t : task) (c : cell) : bool :=
  writes d t c || existsb (fun b => box_has d b c) (f_r (footprint d t)).
Definition conflict_at (d : dims) (t1 t2 : task) (c : cell) : bool :=
  (writes d t1 c && touches d t2 c) || (writes d t2 c && touches d t1 c).

(* ---- regions ---- *)
Record phase := mkPhase { ph_nowait : bool; ph_iters : dims -> list (list task) }.

(* the values of  for (v = s; v < b; v += k) *)
Fixpoint range_fuel (fuel : nat) (s b k : Z) : list Z :=
  match fuel with
  | O => []
  | S f => if s <? b then s :: range_fuel f (s + k) b k else []
  end.
Definition range_step (s b k : Z) : list Z := range_fuel (Z.to_nat (b - s + 1)) s b k.

(* pairs of iterations that may run concurrently *)
Fixpoint later_concurrent (its : list (list task)) (rest : list phase) (d : dims) (nowait : bool) : list (list task * list task) :=
  match rest with
  | [] => []
  | p :: more =>
      if nowait then
        list_prod its (ph_iters p d) ++ later_concurrent its more d (ph_nowait p)
      else []
  end.

Fixpoint distinct_pairs {A} (l : list A) : list (A * A) :=
  match l with
  | [] => []
  | x :: r => map (fun y => (x, y)) r ++ distinct_pairs r
  end.

Fixpoint concurrent_iterations (region : list phase) (d : dims) : list (list task * list task) :=
  match region with
  | [] => []
  | p :: rest =>
      distinct_pairs (ph_iters p d) ++ later_concurrent (ph_iters p d) rest d (ph_nowait p) ++ concurrent_iterations rest d
  end.

Definition race_free (region : list phase) (d : dims) : Prop :=
  forall it1 it2, In (it1, it2) (concurrent_iterations region d) ->
  forall t1 t2, In t1 it1 -> In t2 it2 -> forall c, conflict_at d t1 t2 c = false.

(* ---- executable search for a racing pair (used by the check when a theorem breaks) ---- *)
Definition all_cells (d : dims) : list cell :=
  flat_map (fun a => flat_map (fun i => map (fun j => (a, i, j)) (range_step 0 (d_nt d) 1)) (range_step 0 (d_nr d) 1))
           [AX; ARhs; ATemp; ARes; ASolverC; ASolverR; AScratch; AMat].

Definition find_race (region : list phase) (d : dims) : option (task * task * cell) :=
  let cells := all_cells d in
  let fix go (ps : list (list task * list task)) :=
    match ps with
    | [] => None
    | (it1, it2) :: rest =>
        match find (fun tc => let '(t1, t2, c) := tc in conflict_at d t1 t2 c)
                   (flat_map (fun t1 => flat_map (fun t2 => map (fun c => (t1, t2, c)) cells) it2) it1) with
        | Some w => Some w
        | None => go rest
        end
    end in
  go (concurrent_iterations region d).

(* containment test for K-footprint: an observed access of a task is inside the model footprint *)
Definition observed_write_ok (d : dims) (t : task) (c : cell) : bool := writes d t c.
Definition observed_read_ok (d : dims) (t : task) (c : cell) : bool := touches d t c.
