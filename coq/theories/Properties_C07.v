(* Properties_C07.v -- statements only.  C07: extrapolated smoothing relaxes the fine-only nodes and never
   moves a node of the next coarser grid.  Same relational specification as C06, with the blocks of
   SmootherDefs.ext_smoother_blocks (lines restricted to their fine-only nodes).
   The invariance of the coarse nodes is proved for ANY value type and ANY operator (no law of
   arithmetic is used: it holds bit for bit); the implementation is additionally compared bitwise. *)
From Coq Require Import List ZArith Bool Reals.
From GMGP Require Import Scalar ScalarR InterpDefs StencilDefs SmootherDefs SmootherProofs.
Import ListNotations.

Theorem C07_coarse_nodes_untouched : forall (nr nth nsc : Z) (V : Type) (Aapp : (nodeZ -> V) -> nodeZ -> V) (x f x' : nodeZ -> V) p,
  bgs_rel nodeZ V Aapp (@ext_smoother_blocks nr nth nsc) x f x' -> is_coarse p = true -> x' p = x p.
Proof. exact ext_sweep_keeps_coarse_nodes. Qed.

Theorem C07_blocks_are_fine_only : forall (nr nth nsc : Z) U p,
  In U (@ext_smoother_blocks nr nth nsc) -> In p U -> is_coarse p = false.
Proof. exact ext_blocks_have_no_coarse_node. Qed.

Theorem C07_ext_sweep_fixes_solution : forall (node V : Type) (Aapp : (node -> V) -> node -> V) (deps : node -> list node),
  (forall x y p, (forall q, In q (deps p) -> x q = y q) -> Aapp x p = Aapp y p) ->
  forall blocks u f x', (forall U, In U blocks -> block_unique node V Aapp U) ->
  (forall p, Aapp u p = f p) -> bgs_rel node V Aapp blocks u f x' -> forall q, x' q = u q.
Proof. exact sweep_fixes_solution. Qed.

(* white radial lines (odd theta) consist of fine-only nodes only, so the last-colour statement of C06
   applies verbatim to the extrapolated sweep *)
Theorem C07_ext_last_colour_fine_residual_zero :
  forall (nr nth nsc : Z) (h k : Z -> R) (R0 : R) (arr att art det : Z -> Z -> R) (beta : Z -> R) (dirbc : bool) (Mc : Z),
  (2 <= Mc)%Z -> nth = (2 * Mc)%Z -> (1 <= nsc)%Z ->
  forall (pre : list (list nodeZ)) (whites : list Z) x f x' j p,
  NoDup whites -> (forall w, In w whites -> (0 <= w < nth)%Z /\ Z.odd w = true) ->
  bgs_rel nodeZ R (AappZ nr nth h k R0 arr att art det beta dirbc) (pre ++ map (radial nr nsc) whites) x f x' ->
  In j whites -> In p (radial nr nsc j) -> AappZ nr nth h k R0 arr att art det beta dirbc x' p = f p.
Proof. exact zebra_last_colour_residual_zero. Qed.

Print Assumptions C07_coarse_nodes_untouched.
Print Assumptions C07_ext_last_colour_fine_residual_zero.
