(* KernelDefs.v -- C12: the mathematical definitions of the vector kernels of include/LinearAlgebra/vector_operations.h
   (executable over any scalar instance; over Q for the K-repro correspondence). *)
From Coq Require Import List ZArith.
From GMGP Require Import Scalar.
Import ListNotations.

Section Kernels.
  Context {S : Sc}.
  Local Open Scope sc_scope.
  Definition k_dot (l r : list S) : S := fold_left (fun acc p => acc + fst p * snd p) (combine l r) s0.
  Definition k_l1 (x : list S) : S := fold_left (fun acc v => acc + sabs v) x s0.
  Definition k_l2sq (x : list S) : S := fold_left (fun acc v => acc + v * v) x s0.
  Definition k_inf (x : list S) : S := fold_left (fun acc v => if sltb acc (sabs v) then sabs v else acc) x s0.
  Definition k_add (r x : list S) : list S := map (fun p => fst p + snd p) (combine r x).
  Definition k_subtract (r x : list S) : list S := map (fun p => fst p - snd p) (combine r x).
  Definition k_lincomb (a : S) (x : list S) (b : S) (y : list S) : list S := map (fun p => a * fst p + b * snd p) (combine x y).
  Definition k_multiply (x : list S) (a : S) : list S := map (fun v => v * a) x.
End Kernels.

(* threads used on level [depth]: max(1, min(maxT, q)) with q = floor(maxT * factor^depth) computed by the code *)
Definition threads_on_level (maxT q : Z) : Z := Z.max 1 (Z.min maxT q).
