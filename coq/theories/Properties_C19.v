(* Properties_C19.v -- statements only.  C19: shipped test problems are consistent manufactured solutions.
   Every gen_* object is regenerated from the C++ sources on every run (translate/t7_input_functions.py):
   editing a formula re-opens the obligations that mention it. *)
From Coq Require Import Reals ZArith.
From Coquelicot Require Import Coquelicot.
From GMGP Require Import InputFnDefs InputFnProofs InputFnTactics InputFnClosed
  InputFnPde_CartesianR2 InputFnPde_CartesianR6 InputFnPde_PolarR6.
From GMGPGen Require Import InputFunctionsGen SelectGen.
From GMGP Require Import SelectDefs SelectProofs.
From Coq Require Import List String.
Import ListNotations.
Local Open Scope R_scope.

(* ---- the symbolic derivative used in all statements below is the partial derivative ---- *)
Theorem C19_D_is_partial_derivative : forall e env i, defined env e ->
  is_derive (fun x => eval (upd env i x) e) (env i) (eval env (D i e)).
Proof. exact D_is_partial_derivative. Qed.

(* what the reified operator [pde] denotes *)
Theorem C19_pde_meaning : forall g alpha beta u env,
  defined env (flux_r g alpha u) -> defined env (flux_t g alpha u) ->
  is_derive (fun x => eval (upd env 0 x) (flux_r g alpha u)) (env 0%nat) (eval env (D 0 (flux_r g alpha u))) /\
  is_derive (fun x => eval (upd env 1 x) (flux_t g alpha u)) (env 1%nat) (eval env (D 1 (flux_t g alpha u))) /\
  eval env (pde g alpha beta u) =
    - ((eval env (D 0 (flux_r g alpha u)) + eval env (D 1 (flux_t g alpha u))) / eval env (gdet g)) + eval env beta * eval env u.
Proof. exact pde_meaning. Qed.

(* ---- Jacobians: the four shipped functions are the partial derivatives of the shipped mapping ---- *)
Theorem C19_jacobian_circular : forall env, env 2%nat <> 0 ->
  partials gen_CircularGeometry_Fx gen_CircularGeometry_Fy gen_CircularGeometry_dFx_dr gen_CircularGeometry_dFx_dt
           gen_CircularGeometry_dFy_dr gen_CircularGeometry_dFy_dt env.
Proof. exact jacobian_circular. Qed.

Theorem C19_jacobian_shafranov : forall env, env 2%nat <> 0 ->
  partials gen_ShafranovGeometry_Fx gen_ShafranovGeometry_Fy gen_ShafranovGeometry_dFx_dr gen_ShafranovGeometry_dFx_dt
           gen_ShafranovGeometry_dFy_dr gen_ShafranovGeometry_dFy_dt env.
Proof. exact jacobian_shafranov. Qed.

(* Czarny: for 0 < epsilon < 1 and every point 0 <= r <= Rmax (the documented ranges) *)
Theorem C19_jacobian_czarny : forall env,
  0 < env 2%nat -> 0 <= env 0%nat <= env 2%nat -> 0 < env 3%nat < 1 ->
  partials gen_CzarnyGeometry_Fx gen_CzarnyGeometry_Fy gen_CzarnyGeometry_dFx_dr gen_CzarnyGeometry_dFx_dt
           gen_CzarnyGeometry_dFy_dr gen_CzarnyGeometry_dFy_dt env.
Proof. exact jacobian_czarny_documented_ranges. Qed.

(* ---- gyro profiles: beta = 1 / alpha ---- *)
Theorem C19_gyro_zoni : forall env, env 2%nat <> 0 ->
  eval env gen_ZoniGyroCoefficients_alpha * eval env gen_ZoniGyroCoefficients_beta = 1.
Proof. exact gyro_zoni. Qed.
Theorem C19_gyro_zoni_shifted : forall env, env 2%nat <> 0 ->
  eval env gen_ZoniShiftedGyroCoefficients_alpha * eval env gen_ZoniShiftedGyroCoefficients_beta = 1.
Proof. exact gyro_zoni_shifted. Qed.
Theorem C19_gyro_sonnendrucker : forall env, 0 < env 2%nat -> 0 <= env 0%nat <= env 2%nat ->
  0 < eval env gen_SonnendruckerGyroCoefficients_alpha /\
  eval env gen_SonnendruckerGyroCoefficients_alpha * eval env gen_SonnendruckerGyroCoefficients_beta = 1.
Proof. exact gyro_sonnendrucker_on_domain. Qed.
Theorem C19_nongyro_beta_zero : forall env,
  eval env gen_PoissonCoefficients_beta = 0 /\ eval env gen_ZoniCoefficients_beta = 0 /\
  eval env gen_ZoniShiftedCoefficients_beta = 0 /\ eval env gen_SonnendruckerCoefficients_beta = 0.
Proof. exact nongyro_beta_zero. Qed.

(* ---- boundary data are the exact solution (as expressions; in particular on the boundary) ---- *)
Theorem C19_boundary_is_exact :
  gen_CartesianR2_Boundary_CircularGeometry_u_D = gen_CartesianR2_CircularGeometry_exact_solution /\
  gen_CartesianR2_Boundary_CircularGeometry_u_D_Interior = gen_CartesianR2_CircularGeometry_exact_solution /\
  gen_CartesianR2_Boundary_ShafranovGeometry_u_D = gen_CartesianR2_ShafranovGeometry_exact_solution /\
  gen_CartesianR2_Boundary_ShafranovGeometry_u_D_Interior = gen_CartesianR2_ShafranovGeometry_exact_solution /\
  gen_CartesianR2_Boundary_CzarnyGeometry_u_D = gen_CartesianR2_CzarnyGeometry_exact_solution /\
  gen_CartesianR2_Boundary_CzarnyGeometry_u_D_Interior = gen_CartesianR2_CzarnyGeometry_exact_solution /\
  gen_CartesianR6_Boundary_CircularGeometry_u_D = gen_CartesianR6_CircularGeometry_exact_solution /\
  gen_CartesianR6_Boundary_CircularGeometry_u_D_Interior = gen_CartesianR6_CircularGeometry_exact_solution /\
  gen_CartesianR6_Boundary_ShafranovGeometry_u_D = gen_CartesianR6_ShafranovGeometry_exact_solution /\
  gen_CartesianR6_Boundary_ShafranovGeometry_u_D_Interior = gen_CartesianR6_ShafranovGeometry_exact_solution /\
  gen_CartesianR6_Boundary_CzarnyGeometry_u_D = gen_CartesianR6_CzarnyGeometry_exact_solution /\
  gen_CartesianR6_Boundary_CzarnyGeometry_u_D_Interior = gen_CartesianR6_CzarnyGeometry_exact_solution /\
  gen_PolarR6_Boundary_CircularGeometry_u_D = gen_PolarR6_CircularGeometry_exact_solution /\
  gen_PolarR6_Boundary_CircularGeometry_u_D_Interior = gen_PolarR6_CircularGeometry_exact_solution /\
  gen_PolarR6_Boundary_ShafranovGeometry_u_D = gen_PolarR6_ShafranovGeometry_exact_solution /\
  gen_PolarR6_Boundary_ShafranovGeometry_u_D_Interior = gen_PolarR6_ShafranovGeometry_exact_solution /\
  gen_PolarR6_Boundary_CzarnyGeometry_u_D = gen_PolarR6_CzarnyGeometry_exact_solution /\
  gen_PolarR6_Boundary_CzarnyGeometry_u_D_Interior = gen_PolarR6_CzarnyGeometry_exact_solution /\
  gen_Refined_Boundary_CircularGeometry_u_D = gen_Refined_CircularGeometry_exact_solution /\
  gen_Refined_Boundary_CircularGeometry_u_D_Interior = gen_Refined_CircularGeometry_exact_solution /\
  gen_Refined_Boundary_ShafranovGeometry_u_D = gen_Refined_ShafranovGeometry_exact_solution /\
  gen_Refined_Boundary_ShafranovGeometry_u_D_Interior = gen_Refined_ShafranovGeometry_exact_solution /\
  gen_Refined_Boundary_CzarnyGeometry_u_D = gen_Refined_CzarnyGeometry_exact_solution /\
  gen_Refined_Boundary_CzarnyGeometry_u_D_Interior = gen_Refined_CzarnyGeometry_exact_solution.
Proof. exact boundary_is_exact. Qed.

(* ---- source terms: rhs_f = -div(alpha grad u) + beta u for the shipped exact solution, at every point r > 0,
        for the circular-geometry classes whose constants are exact decimals (15 of the 64 classes) ---- *)

Theorem C19_source_CartesianR2_Poisson_CircularGeometry : forall env, env 2%nat <> 0 -> 0 < env 0%nat ->
  eval env gen_CartesianR2_Poisson_CircularGeometry_rhs_f =
  eval env (pde InputFnPde_CartesianR2.geo_circular gen_PoissonCoefficients_alpha gen_PoissonCoefficients_beta gen_CartesianR2_CircularGeometry_exact_solution).
Proof. exact pde_CartesianR2_Poisson_CircularGeometry. Qed.

Theorem C19_source_CartesianR2_Zoni_CircularGeometry : forall env, env 2%nat <> 0 -> 0 < env 0%nat ->
  eval env gen_CartesianR2_Zoni_CircularGeometry_rhs_f =
  eval env (pde InputFnPde_CartesianR2.geo_circular gen_ZoniCoefficients_alpha gen_ZoniCoefficients_beta gen_CartesianR2_CircularGeometry_exact_solution).
Proof. exact pde_CartesianR2_Zoni_CircularGeometry. Qed.

Theorem C19_source_CartesianR2_ZoniShifted_CircularGeometry : forall env, env 2%nat <> 0 -> 0 < env 0%nat ->
  eval env gen_CartesianR2_ZoniShifted_CircularGeometry_rhs_f =
  eval env (pde InputFnPde_CartesianR2.geo_circular gen_ZoniShiftedCoefficients_alpha gen_ZoniShiftedCoefficients_beta gen_CartesianR2_CircularGeometry_exact_solution).
Proof. exact pde_CartesianR2_ZoniShifted_CircularGeometry. Qed.

Theorem C19_source_CartesianR2_ZoniGyro_CircularGeometry : forall env, env 2%nat <> 0 -> 0 < env 0%nat ->
  eval env gen_CartesianR2_ZoniGyro_CircularGeometry_rhs_f =
  eval env (pde InputFnPde_CartesianR2.geo_circular gen_ZoniGyroCoefficients_alpha gen_ZoniGyroCoefficients_beta gen_CartesianR2_CircularGeometry_exact_solution).
Proof. exact pde_CartesianR2_ZoniGyro_CircularGeometry. Qed.

Theorem C19_source_CartesianR2_ZoniShiftedGyro_CircularGeometry : forall env, env 2%nat <> 0 -> 0 < env 0%nat ->
  eval env gen_CartesianR2_ZoniShiftedGyro_CircularGeometry_rhs_f =
  eval env (pde InputFnPde_CartesianR2.geo_circular gen_ZoniShiftedGyroCoefficients_alpha gen_ZoniShiftedGyroCoefficients_beta gen_CartesianR2_CircularGeometry_exact_solution).
Proof. exact pde_CartesianR2_ZoniShiftedGyro_CircularGeometry. Qed.

Theorem C19_source_CartesianR6_Poisson_CircularGeometry : forall env, env 2%nat <> 0 -> 0 < env 0%nat ->
  eval env gen_CartesianR6_Poisson_CircularGeometry_rhs_f =
  eval env (pde InputFnPde_CartesianR6.geo_circular gen_PoissonCoefficients_alpha gen_PoissonCoefficients_beta gen_CartesianR6_CircularGeometry_exact_solution).
Proof. exact pde_CartesianR6_Poisson_CircularGeometry. Qed.

Theorem C19_source_CartesianR6_Zoni_CircularGeometry : forall env, env 2%nat <> 0 -> 0 < env 0%nat ->
  eval env gen_CartesianR6_Zoni_CircularGeometry_rhs_f =
  eval env (pde InputFnPde_CartesianR6.geo_circular gen_ZoniCoefficients_alpha gen_ZoniCoefficients_beta gen_CartesianR6_CircularGeometry_exact_solution).
Proof. exact pde_CartesianR6_Zoni_CircularGeometry. Qed.

Theorem C19_source_CartesianR6_ZoniShifted_CircularGeometry : forall env, env 2%nat <> 0 -> 0 < env 0%nat ->
  eval env gen_CartesianR6_ZoniShifted_CircularGeometry_rhs_f =
  eval env (pde InputFnPde_CartesianR6.geo_circular gen_ZoniShiftedCoefficients_alpha gen_ZoniShiftedCoefficients_beta gen_CartesianR6_CircularGeometry_exact_solution).
Proof. exact pde_CartesianR6_ZoniShifted_CircularGeometry. Qed.

Theorem C19_source_CartesianR6_ZoniGyro_CircularGeometry : forall env, env 2%nat <> 0 -> 0 < env 0%nat ->
  eval env gen_CartesianR6_ZoniGyro_CircularGeometry_rhs_f =
  eval env (pde InputFnPde_CartesianR6.geo_circular gen_ZoniGyroCoefficients_alpha gen_ZoniGyroCoefficients_beta gen_CartesianR6_CircularGeometry_exact_solution).
Proof. exact pde_CartesianR6_ZoniGyro_CircularGeometry. Qed.

Theorem C19_source_CartesianR6_ZoniShiftedGyro_CircularGeometry : forall env, env 2%nat <> 0 -> 0 < env 0%nat ->
  eval env gen_CartesianR6_ZoniShiftedGyro_CircularGeometry_rhs_f =
  eval env (pde InputFnPde_CartesianR6.geo_circular gen_ZoniShiftedGyroCoefficients_alpha gen_ZoniShiftedGyroCoefficients_beta gen_CartesianR6_CircularGeometry_exact_solution).
Proof. exact pde_CartesianR6_ZoniShiftedGyro_CircularGeometry. Qed.

Theorem C19_source_PolarR6_Poisson_CircularGeometry : forall env, env 2%nat <> 0 -> 0 < env 0%nat ->
  eval env gen_PolarR6_Poisson_CircularGeometry_rhs_f =
  eval env (pde InputFnPde_PolarR6.geo_circular gen_PoissonCoefficients_alpha gen_PoissonCoefficients_beta gen_PolarR6_CircularGeometry_exact_solution).
Proof. exact pde_PolarR6_Poisson_CircularGeometry. Qed.

Theorem C19_source_PolarR6_Zoni_CircularGeometry : forall env, env 2%nat <> 0 -> 0 < env 0%nat ->
  eval env gen_PolarR6_Zoni_CircularGeometry_rhs_f =
  eval env (pde InputFnPde_PolarR6.geo_circular gen_ZoniCoefficients_alpha gen_ZoniCoefficients_beta gen_PolarR6_CircularGeometry_exact_solution).
Proof. exact pde_PolarR6_Zoni_CircularGeometry. Qed.

Theorem C19_source_PolarR6_ZoniShifted_CircularGeometry : forall env, env 2%nat <> 0 -> 0 < env 0%nat ->
  eval env gen_PolarR6_ZoniShifted_CircularGeometry_rhs_f =
  eval env (pde InputFnPde_PolarR6.geo_circular gen_ZoniShiftedCoefficients_alpha gen_ZoniShiftedCoefficients_beta gen_PolarR6_CircularGeometry_exact_solution).
Proof. exact pde_PolarR6_ZoniShifted_CircularGeometry. Qed.

Theorem C19_source_PolarR6_ZoniGyro_CircularGeometry : forall env, env 2%nat <> 0 -> 0 < env 0%nat ->
  eval env gen_PolarR6_ZoniGyro_CircularGeometry_rhs_f =
  eval env (pde InputFnPde_PolarR6.geo_circular gen_ZoniGyroCoefficients_alpha gen_ZoniGyroCoefficients_beta gen_PolarR6_CircularGeometry_exact_solution).
Proof. exact pde_PolarR6_ZoniGyro_CircularGeometry. Qed.

Theorem C19_source_PolarR6_ZoniShiftedGyro_CircularGeometry : forall env, env 2%nat <> 0 -> 0 < env 0%nat ->
  eval env gen_PolarR6_ZoniShiftedGyro_CircularGeometry_rhs_f =
  eval env (pde InputFnPde_PolarR6.geo_circular gen_ZoniShiftedGyroCoefficients_alpha gen_ZoniShiftedGyroCoefficients_beta gen_PolarR6_CircularGeometry_exact_solution).
Proof. exact pde_PolarR6_ZoniShiftedGyro_CircularGeometry. Qed.

(* ---- the selection tables (src/GMGPolar/select_test_case.cpp, regenerated by translator T11 as gen_select_table) ----
   Every combination of the four option enumerations that selectTestCase accepts selects five classes that carry the names of
   ONE (problem, profile, geometry) triple -- the triple the per-class theorems above are stated for -- and passes the
   geometry parameters in the declared order.  Finite domain (4 x 4 x 4 x 2 combinations): checked by computation on the
   regenerated table and lifted by forallb_forall. *)
Theorem C19_selected_tuple_consistent : forall g p a b s,
  In ((g, p, a, b), Some s) gen_select_table -> s = expected g p a b.
Proof. exact select_consistent. Qed.
Theorem C19_selection_table_complete : map fst gen_select_table = all_combinations.
Proof. exact select_covers_all_combinations. Qed.
Theorem C19_selection_enumerators :
  gen_enum_geometry = [("CIRCULAR", 0%Z); ("SHAFRANOV", 1%Z); ("CZARNY", 2%Z); ("CULHAM", 3%Z)]%string%list /\
  gen_enum_problem = [("CARTESIAN_R2", 0%Z); ("CARTESIAN_R6", 1%Z); ("POLAR_R6", 2%Z); ("REFINED_RADIUS", 3%Z)]%string%list /\
  gen_enum_alpha = [("POISSON", 0%Z); ("SONNENDRUCKER", 1%Z); ("ZONI", 2%Z); ("ZONI_SHIFTED", 3%Z)]%string%list /\
  gen_enum_beta = [("ZERO", 0%Z); ("ALPHA_INVERSE", 1%Z)]%string%list.
Proof. exact select_enumerators. Qed.
