(* Properties_C20.v -- statements only.  C20 (PARTIAL): every option combination is rejected cleanly or runs
   without undefined behaviour.  Decided by proof: (a) the option decision logic regenerated from parser.cpp /
   setup.cpp (T8); (b) every statistic is defined for every solve, also with disabled tolerances and a zero
   iteration budget; (c) index safety of the modelled kernels: every column / target of the operator rows is
   a grid node.  NOT decided by proof: memory safety of the C++ in general (searched with sanitizers). *)
From Coq Require Import ZArith List Bool String Reals.
From GMGP Require Import Options Scalar ScalarR InterpDefs StencilDefs StencilProofs2.
From GMGPGen Require Import OptionsGen.
Import ListNotations.
From GMGP Require GridGenDefs GridGenTie.
From GMGPGen Require LevelsGen.

(* (a) accepted integers are exactly the enumerators; the command line lets through only those *)
Theorem C20_accepted_enums_in_range : forallb row_ok gen_options = true.
Proof. vm_compute. reflexivity. Qed.
Theorem C20_take_needs_caches : gen_setup_rejects_take_without_caches = true.
Proof. reflexivity. Qed.
Theorem C20_too_few_levels_rejected : gen_setup_rejects_fewer_than_two_levels = true.
Proof. reflexivity. Qed.
Theorem C20_negative_tolerance_disables : gen_negative_tolerance_disables = true.
Proof. reflexivity. Qed.

(* (b) statistics: with initialised locals / guarded getters they are defined for EVERY solve *)
Theorem C20_factor_defined : forall (X : Type) (zero : X) tol norms, factor_inputs X zero true tol norms <> None.
Proof. intros X zero tol norms. unfold factor_inputs. destruct tol; destruct norms; discriminate. Qed.
Theorem C20_last_error_defined : forall (X : Type) (errors : list X), last_error X true errors <> None.
Proof. intros X errors. unfold last_error. destruct errors; discriminate. Qed.
(* ... and the code as it is NOW initialises / guards them (regenerated facts) *)
Theorem C20_statistics_locals_initialised : gen_statistics_locals_initialised = true.
Proof. reflexivity. Qed.
Theorem C20_exact_error_getters_guarded : gen_exact_error_getters_guarded = true.
Proof. reflexivity. Qed.

(* (c) index safety of the operator rows: every column the take stencil reads is a grid node *)
Theorem C20_take_columns_in_grid :
  forall (nr nth : Z) (h k : Z -> R) (R0 : R) (arr att art det : Z -> Z -> R) (beta : Z -> R) (dirbc : bool) (Mc : Z),
  (2 <= nr)%Z -> (1 <= Mc)%Z -> nth = (2 * Mc)%Z ->
  forall i j q, (0 <= i < nr)%Z -> (0 <= j < nth)%Z ->
  In q (map fst (@A_take_row Rsc nr nth h k R0 arr att art det beta dirbc i j)) ->
  (0 <= fst q < nr)%Z /\ (0 <= snd q < nth)%Z.
Proof. exact take_columns_in_grid. Qed.

Print Assumptions C20_accepted_enums_in_range.
Print Assumptions C20_factor_defined.
Print Assumptions C20_take_columns_in_grid.

(* (a') the level count as the source defines it (translator T9): a cap of 1 is rejected whatever the grid, every
   accepted count is at least 2 and respects the cap; non-coarsenable grids are rejected (count below 2) *)
Theorem C20_level_cap_respected : forall nr nt maxl : Z,
  (maxl = 1%Z -> LevelsGen.gen_choose_levels nr nt maxl = None) /\
  (forall L, LevelsGen.gen_choose_levels nr nt maxl = Some L -> (2 <= L)%Z /\ ((0 < maxl)%Z -> (L <= maxl)%Z)).
Proof. exact GridGenTie.gen_level_cap_respected. Qed.
Example C20_non_coarsenable_rejected :
  LevelsGen.gen_choose_levels 4 8 (-1) = None /\ LevelsGen.gen_choose_levels 9 4 (-1) = None /\ LevelsGen.gen_choose_levels 9 8 (-1) = Some 2%Z.
Proof. vm_compute. repeat split. Qed.
