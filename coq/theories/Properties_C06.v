(* Properties_C06.v -- statements only.  C06: smoothing is an exact zebra line relaxation of A.
   The sweep is specified relationally (bgs_rel): blocks are updated one after the other, each update
   freezes everything outside the block and solves the block's rows of A exactly.  The executable
   model (SmootherDefs.sweep) is an instance; the correspondence certifies in exact arithmetic that each
   of its block updates satisfies this specification and that both real smoothers compute it.
   PROVED for any operator with local rows, any grid, any data: fixed point, zero residual on the last
   colour, Dirichlet nodes receive the data; and for A: same-colour radial lines are independent.
   PARTIAL: uniqueness of the line systems (block_unique) is a premise (it follows from positive
   definiteness, C05 partial); energy monotonicity is not proved.
   (* FULL: E(sweep x) <= E(x) in the energy norm, and block_unique from C05 *) *)
From Coq Require Import List ZArith Bool Reals.
From GMGP Require Import Scalar ScalarR InterpDefs StencilDefs SmootherDefs SmootherProofs.
Import ListNotations.
From GMGP Require Import StencilDefs StencilTie StencilTieSmoother ScalarR.
From GMGPGen Require Import StencilGen.
From Coq Require Import Reals.

Theorem C06_sweep_fixes_solution : forall (node V : Type) (Aapp : (node -> V) -> node -> V) (deps : node -> list node),
  (forall x y p, (forall q, In q (deps p) -> x q = y q) -> Aapp x p = Aapp y p) ->
  forall blocks u f x', (forall U, In U blocks -> block_unique node V Aapp U) ->
  (forall p, Aapp u p = f p) -> bgs_rel node V Aapp blocks u f x' -> forall q, x' q = u q.
Proof. exact sweep_fixes_solution. Qed.

Theorem C06_last_colour_residual_zero : forall (node V : Type) (Aapp : (node -> V) -> node -> V) (deps : node -> list node),
  (forall x y p, (forall q, In q (deps p) -> x q = y q) -> Aapp x p = Aapp y p) ->
  forall pre col x f x' U p,
  (forall U1 U2, In U1 col -> In U2 col -> U1 <> U2 -> independent node deps U1 U2) -> NoDup col ->
  bgs_rel node V Aapp (pre ++ col) x f x' -> In U col -> In p U -> Aapp x' p = f p.
Proof. exact last_colour_residual_zero. Qed.

(* instantiated for A and the white radial lines: all grid sizes with ntheta = 2 Mc >= 4, nsc >= 1 *)
Theorem C06_zebra_last_colour_residual_zero :
  forall (nr nth nsc : Z) (h k : Z -> R) (R0 : R) (arr att art det : Z -> Z -> R) (beta : Z -> R) (dirbc : bool) (Mc : Z),
  (2 <= Mc)%Z -> nth = (2 * Mc)%Z -> (1 <= nsc)%Z ->
  forall (pre : list (list nodeZ)) (whites : list Z) x f x' j p,
  NoDup whites -> (forall w, In w whites -> (0 <= w < nth)%Z /\ Z.odd w = true) ->
  bgs_rel nodeZ R (AappZ nr nth h k R0 arr att art det beta dirbc) (pre ++ map (radial nr nsc) whites) x f x' ->
  In j whites -> In p (radial nr nsc j) -> AappZ nr nth h k R0 arr att art det beta dirbc x' p = f p.
Proof. exact zebra_last_colour_residual_zero. Qed.

Theorem C06_dirichlet_nodes_get_data : forall (node V : Type) (Aapp : (node -> V) -> node -> V) blocks x f x' U p,
  (forall y, Aapp y p = y p) -> bgs_rel node V Aapp (U :: blocks) x f x' -> In p U ->
  (forall W, In W blocks -> ~ In p W) -> x' p = f p.
Proof. exact identity_row_gets_data. Qed.

(* ---- the A_sc_ortho kernels of the take smoother as translator T3 regenerates them from NODE_APPLY_ASC_ORTHO_CIRCLE_TAKE and
   NODE_APPLY_ASC_ORTHO_RADIAL_TAKE: for a node of the line being relaxed they write  temp := rhs - (couplings of the node's row
   of A to nodes OUTSIDE its line) . x, which is the right-hand side of the block update of the model (SmootherDefs.local_row);
   on a radial line the coupling of row nr-2 to the Dirichlet node of the same line is moved to the right-hand side with the
   boundary value (symmetry shift).  Premise nsc in [1, nr-3] is what the smoother asserts. ---- *)
Theorem C06_generated_asc_ortho_circle_take :
  forall (nr nth nsc : Z) (h k rad : Z -> R) (arr att art det : Z -> Z -> R) (beta : Z -> R) (dirbc : bool),
  (2 <= nth)%Z -> (1 <= nsc <= nr - 3)%Z ->
  forall (rhs x : Z -> Z -> R) (i j : Z), (0 <= i < nsc)%Z -> (0 <= j < nth)%Z ->
  @gen_asc_ortho_circle_take Rsc nth nsc h k rad arr art dirbc rhs x i j =
  [ (((i, j), W_temp_WAssign),
     (rhs i j - @InterpDefs.apply_row2 Rsc (off_circle i (@A_take_row Rsc nr nth h k (rad 0%Z) arr att art det beta dirbc i j)) x)%R) ].
Proof. exact gen_asc_ortho_circle_take_is_model. Qed.

Theorem C06_generated_asc_ortho_radial_take :
  forall (nr nth nsc : Z) (h k rad : Z -> R) (arr att art det : Z -> Z -> R) (beta : Z -> R) (dirbc : bool),
  (4 <= nr)%Z -> (2 <= nth)%Z -> (1 <= nsc <= nr - 3)%Z ->
  forall (rhs x : Z -> Z -> R) (i j : Z), (nsc <= i < nr)%Z -> (0 <= j < nth)%Z ->
  @gen_asc_ortho_radial_take Rsc nr nth nsc h k arr att art rhs x i j =
  [ (((i, j), W_temp_WAssign),
     (rhs i j - @InterpDefs.apply_row2 Rsc (off_radial nsc j (@A_take_row Rsc nr nth h k (rad 0%Z) arr att art det beta dirbc i j)) x
      - (if (i =? nr - 2)%Z then right_coupling nth h k arr i j * rhs (i + 1)%Z j else 0))%R) ].
Proof. exact gen_asc_ortho_radial_take_is_model. Qed.

Print Assumptions C06_sweep_fixes_solution.
Print Assumptions C06_zebra_last_colour_residual_zero.
