(* Properties_C10.v -- statements only.  C10: each multigrid cycle is a consistent correction scheme.
   cyc / ecyc are the op sequences of the six cycle functions (tied to the code by the exact op-trace);
   cycv is their functional reading over abstract per-level operators. *)
From Coq Require Import List Arith Bool.
From GMGP Require Import CycleDefs CycleProofs CycleRhs.
Import ListNotations.

(* started from the exact discrete solution a V-, W- or F-cycle returns it, for every number of levels
   (rem = levels below the finest), every smoothing count, any linear transfers / coarse solve *)
Theorem C10_cycle_fixes_exact_solution :
  forall (V : Type) (vzero : V) (vadd : V -> V -> V), (forall x, vadd x vzero = x) ->
  forall (smooth : nat -> V -> V -> V) (resid : nat -> V -> V -> V) (restrict prolong direct : nat -> V -> V),
  (forall l, smooth l vzero vzero = vzero) -> (forall l, resid l vzero vzero = vzero) ->
  (forall l, restrict l vzero = vzero) -> (forall l, prolong l vzero = vzero) -> (forall l, direct l vzero = vzero) ->
  forall rem k pre post u f, smooth 0 u f = u -> resid 0 f u = vzero ->
  cycv V vzero vadd smooth resid restrict prolong direct k rem 0 pre post u f = u.
Proof. exact cycle_fixes_exact_solution. Qed.

(* smoothing off, two levels: u + P A_c^{-1} R (f - A u) *)
Theorem C10_two_level_no_smoothing :
  forall (V : Type) (vzero : V) (vadd : V -> V -> V) (smooth : nat -> V -> V -> V) (resid : nat -> V -> V -> V)
         (restrict prolong direct : nat -> V -> V) k u f,
  cycv V vzero vadd smooth resid restrict prolong direct k 1 0 0 0 u f
  = vadd u (prolong 0 (direct 1 (restrict 0 (resid 0 f u)))).
Proof. exact two_level_no_smoothing. Qed.
Theorem C10_two_level_no_smoothing_ops :
  cyc KV 1 0 0 0 (0, Sol) (0, Rhs) (0, Res) =
  [mkEv OResid 0 [(0, Res); (0, Rhs); (0, Sol)]; mkEv ORestrict 0 [(1, Res); (0, Res)]; mkEv ODirect 1 [(1, Res)];
   mkEv OProlong 1 [(0, Res); (1, Res)]; mkEv OAdd 0 [(0, Sol); (0, Res)]].
Proof. reflexivity. Qed.
Theorem C10_two_level_extrapolated_ops : forall fgs,
  ecyc KV 1 0 0 fgs (0, Sol) (0, Rhs) (0, Res) =
  [mkEv OResid 0 [(0, Res); (0, Rhs); (0, Sol)]; mkEv OExRestrict 0 [(1, Res); (0, Res)]; mkEv OInject 0 [(1, Sol); (0, Sol)];
   mkEv OResid 1 [(1, Err); (1, Rhs); (1, Sol)]; mkEv OLinComb 1 [(1, Res); (1, Err)]; mkEv ODirect 1 [(1, Res)];
   mkEv OExProlong 1 [(0, Res); (1, Res)]; mkEv OAdd 0 [(0, Sol); (0, Res)]].
Proof. intros fgs. reflexivity. Qed.

(* any starting iterate, including scratch left by previous cycles: a cycle's outcome depends on its
   iterate and right-hand side only -- every other buffer it reads has been written earlier in the cycle *)
Theorem C10_cycle_ignores_scratch : forall rem k d pre post x f r w, 1 <= rem ->
  rd_ok [x; f] w (cyc k rem d pre post x f r).
Proof. exact cyc_rd_ok. Qed.
Theorem C10_ext_cycle_ignores_scratch : forall rem k pre post fgs x f r w, 1 <= rem ->
  rd_ok [x; f; (1, Rhs)] w (ecyc k rem pre post fgs x f r).
Proof. exact ecyc_rd_ok. Qed.
(* no cycle writes a right-hand side *)
Theorem C10_cycle_writes : forall rem k d pre post x f r b,
  In b (all_writes (cyc k rem d pre post x f r)) -> b = x \/ b = r \/ (d < fst b /\ snd b <> Rhs).
Proof. exact cyc_writes. Qed.

(* the whole start-up + solver loop: no right-hand side of any level is ever written, for every configuration and oracle *)
Theorem C10_solve_never_writes_rhs :
  forall fmg fk iters k L pre post extrap combined has_exact tol fgs maxit oracle l,
  ~ In (l, Rhs) (all_writes (init_ops fmg fk iters pre post extrap fgs L
                             ++ fst (fst (solve_loop k L pre post extrap combined has_exact tol fgs 0%nat maxit oracle)))).
Proof. exact solve_never_writes_rhs. Qed.

Print Assumptions C10_cycle_fixes_exact_solution.
Print Assumptions C10_cycle_ignores_scratch.
Print Assumptions C10_ext_cycle_ignores_scratch.
Print Assumptions C10_solve_never_writes_rhs.
