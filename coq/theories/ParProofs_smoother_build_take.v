(* C11: race freedom of the smoother line-matrix assembly regions (buildAscMatrices of the four smoothers) for all grid sizes. *)
From Coq Require Import List ZArith Bool Lia ZifyBool.
From GMGP Require Import ParDefs ParProofs.
From GMGPGen Require Import ParRegionsGen.
Import ListNotations.
Local Open Scope Z_scope.
Ltac Zify.zify_post_hook ::= Z.to_euclidean_division_equations.

Theorem smoother_take_build_race_free d : valid d -> race_free gen_smoother_take_build d.
Proof.
  intros [V1 [V2 V3]] it1 it2 Hin t1 t2 H1 H2 c. unfold gen_smoother_take_build in Hin.
  region_solve Hin H1 H2.
Qed.
Theorem ext_smoother_take_build_race_free d : valid d -> race_free gen_ext_smoother_take_build d.
Proof.
  intros [V1 [V2 V3]] it1 it2 Hin t1 t2 H1 H2 c. unfold gen_ext_smoother_take_build in Hin.
  region_solve Hin H1 H2.
Qed.
