(* SelectProofs.v -- C19: the table translator T11 regenerates from selectTestCase is consistent (finite domain: all 128
   combinations of the four enumerations, checked by computation and lifted to the statement by forallb_forall). *)
From Coq Require Import List ZArith String Bool.
From GMGP Require Import SelectDefs.
From GMGPGen Require Import SelectGen.
Import ListNotations.
Local Open Scope string_scope.

Lemma table_rows_ok : forallb row_ok gen_select_table = true.
Proof. vm_compute. reflexivity. Qed.

Theorem select_consistent : forall g p a b s,
  In ((g, p, a, b), Some s) gen_select_table -> s = expected g p a b.
Proof.
  intros g p a b s Hin. pose proof table_rows_ok as H. rewrite forallb_forall in H.
  specialize (H _ Hin). unfold row_ok in H. cbn [fst snd] in H. apply sel5_eqb_eq. exact H.
Qed.

Theorem select_covers_all_combinations : map fst gen_select_table = all_combinations.
Proof. vm_compute. reflexivity. Qed.

Theorem select_enumerators :
  gen_enum_geometry = [("CIRCULAR", 0%Z); ("SHAFRANOV", 1%Z); ("CZARNY", 2%Z); ("CULHAM", 3%Z)] /\
  gen_enum_problem = [("CARTESIAN_R2", 0%Z); ("CARTESIAN_R6", 1%Z); ("POLAR_R6", 2%Z); ("REFINED_RADIUS", 3%Z)] /\
  gen_enum_alpha = [("POISSON", 0%Z); ("SONNENDRUCKER", 1%Z); ("ZONI", 2%Z); ("ZONI_SHIFTED", 3%Z)] /\
  gen_enum_beta = [("ZERO", 0%Z); ("ALPHA_INVERSE", 1%Z)].
Proof. repeat split; reflexivity. Qed.

(* not vacuous: accepted combinations exist (77 of the 128 on the pinned tree), e.g. the default of the command line *)
Example select_some_accepted :
  existsb (fun row => match row with ((1, 0, 3, 1)%Z, Some _) => true | _ => false end) gen_select_table = true.
Proof. vm_compute. reflexivity. Qed.
