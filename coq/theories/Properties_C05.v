(* Properties_C05.v -- statements only.  C05: the interior operator is symmetric positive (semi)definite.
   [form nodes x y] = sum over the nodes of what each node scatters, v * x(col) * y(row): exactly what
   the give kernel accumulates for <A x, y> (and, by C03, what the take kernel computes).
   PROVED: symmetry on vectors vanishing on Dirichlet nodes; <A x, x> >= 0 under the coefficient
   inequalities that C03_coefficients_admissible establishes for every invertible mapping; the
   4 arr att - art^2 = alpha^2 identity; STRICT definiteness: <A x, x> > 0 for every x vanishing on the
   Dirichlet nodes and non-zero somewhere on the grid, when art^2 < 4 arr att (alpha > 0), for every grid size
   (induction from the outer boundary inwards), for the model and for the generated give kernel.
   PARTIAL: across the origin the non-negativity (hence definiteness) needs art(0, .) = 0 (orthogonal mapping
   at R0): observation F9; the line blocks of the smoothers are covered with C06.
   (* FULL: forall x <> 0 vanishing on Dirichlet nodes, 0 < form all_nodes x x, for every geometry *) *)
From Coq Require Import List ZArith Bool Reals Lra.
From GMGP Require Import Scalar ScalarR InterpDefs StencilDefs StencilProofs StencilDefinite StencilTie.
From GMGPGen Require Import StencilGen.
Import ListNotations.
Local Open Scope R_scope.

Theorem C05_A_symmetric :
  forall (nr nth : Z) (h k : Z -> R) (R0 : R) (arr att art det : Z -> Z -> R) (beta : Z -> R) (dirbc : bool)
         (nodes : list (Z * Z)) (x y : Z -> Z -> R),
  (forall p : Z * Z, In p nodes -> (0 <= fst p < nr)%Z) ->
  vanishes_on_dirichlet nr dirbc x -> vanishes_on_dirichlet nr dirbc y ->
  @form Rsc nr nth h k R0 arr att art det beta dirbc nodes x y = @form Rsc nr nth h k R0 arr att art det beta dirbc nodes y x.
Proof. exact form_symmetric. Qed.

Theorem C05_A_positive_semidefinite_partial :
  forall (nr nth : Z) (h k : Z -> R) (R0 : R) (arr att art det : Z -> Z -> R) (beta : Z -> R) (dirbc : bool),
  (forall x : Z, 0 < h x) -> (forall x : Z, 0 < k x) -> 0 < R0 ->
  (forall i j : Z, 0 < arr i j) -> (forall i j : Z, 0 < att i j) ->
  (forall i j : Z, art i j ^ 2 <= 4 * arr i j * att i j) -> (forall i : Z, 0 <= beta i) ->
  (dirbc = false -> forall j : Z, art 0%Z j = 0) ->
  forall (nodes : list (Z * Z)) (x : Z -> Z -> R),
  (forall p : Z * Z, In p nodes -> (0 <= fst p < nr)%Z) ->
  vanishes_on_dirichlet nr dirbc x -> 0 <= @form Rsc nr nth h k R0 arr att art det beta dirbc nodes x x.
Proof. exact form_nonneg. Qed.

Theorem C05_local_form_nonneg : forall h1 h2 k1 k2 a t m dr1 dr2 dt1 dt2 : R,
  0 < h1 -> 0 < h2 -> 0 < k1 -> 0 < k2 -> 0 < a -> 0 < t -> m ^ 2 <= 4 * a * t ->
  0 <= / 2 * (k1 + k2) / h1 * a * dr1 ^ 2 + / 2 * (k1 + k2) / h2 * a * dr2 ^ 2 + / 2 * (h1 + h2) / k1 * t * dt1 ^ 2 +
       / 2 * (h1 + h2) / k2 * t * dt2 ^ 2 + / 2 * m * (dr1 + dr2) * (dt1 + dt2).
Proof. exact local_form_nonneg. Qed.

Theorem C05_coefficients_discriminant : forall Jrr Jrt Jtr Jtt alpha : R,
  detJ Jrr Jrt Jtr Jtt <> 0 ->
  4 * arrJ Jrr Jrt Jtr Jtt alpha * attJ Jrr Jrt Jtr Jtt alpha - artJ Jrr Jrt Jtr Jtt alpha ^ 2 = alpha ^ 2.
Proof. exact coefficients_discriminant. Qed.

(* ---- the same two statements about the give kernel as translator T3 regenerates it from the source (gen/StencilGen.v):
   gen_form nodes x y = sum over the nodes of  y(target) * (what NODE_APPLY_A_GIVE subtracts from result[target]) ---- *)
Theorem C05_generated_operator_symmetric :
  forall (nr nth : Z) (h k rad : Z -> R) (arr att art det : Z -> Z -> R) (beta : Z -> R) (dirbc : bool),
  (4 <= nr)%Z -> (2 <= nth)%Z ->
  forall (nodes : list (Z * Z)) (x y : Z -> Z -> R),
  (forall p : Z * Z, In p nodes -> (0 <= fst p < nr)%Z /\ (0 <= snd p < nth)%Z) ->
  vanishes_on_dirichlet nr dirbc x -> vanishes_on_dirichlet nr dirbc y ->
  gen_form nr nth h k rad arr att art det beta dirbc nodes x y = gen_form nr nth h k rad arr att art det beta dirbc nodes y x.
Proof. exact gen_form_symmetric. Qed.

Theorem C05_generated_operator_positive_semidefinite_partial :
  forall (nr nth : Z) (h k rad : Z -> R) (arr att art det : Z -> Z -> R) (beta : Z -> R) (dirbc : bool),
  (4 <= nr)%Z -> (2 <= nth)%Z ->
  (forall x : Z, 0 < h x) -> (forall x : Z, 0 < k x) -> 0 < rad 0%Z ->
  (forall i j : Z, 0 < arr i j) -> (forall i j : Z, 0 < att i j) ->
  (forall i j : Z, art i j ^ 2 <= 4 * arr i j * att i j) -> (forall i : Z, 0 <= beta i) ->
  (dirbc = false -> forall j : Z, art 0%Z j = 0) ->
  forall (nodes : list (Z * Z)) (x : Z -> Z -> R),
  (forall p : Z * Z, In p nodes -> (0 <= fst p < nr)%Z /\ (0 <= snd p < nth)%Z) ->
  vanishes_on_dirichlet nr dirbc x -> 0 <= gen_form nr nth h k rad arr att art det beta dirbc nodes x x.
Proof. exact gen_form_nonneg. Qed.

(* strict positive definiteness, every grid size; [nodes] is any list containing every grid node *)
Theorem C05_A_positive_definite :
  forall (nr nth : Z) (h k : Z -> R) (R0 : R) (arr att art det : Z -> Z -> R) (beta : Z -> R) (dirbc : bool),
  (4 <= nr)%Z ->
  (forall x : Z, 0 < h x) -> (forall x : Z, 0 < k x) -> 0 < R0 ->
  (forall i j : Z, 0 < arr i j) -> (forall i j : Z, 0 < att i j) ->
  (forall i j : Z, art i j ^ 2 < 4 * arr i j * att i j) -> (forall i : Z, 0 <= beta i) ->
  (dirbc = false -> forall j : Z, art 0%Z j = 0) ->
  forall (nodes : list (Z * Z)) (x : Z -> Z -> R),
  (forall p : Z * Z, In p nodes -> (0 <= fst p < nr)%Z) ->
  (forall i j : Z, (0 <= i < nr)%Z -> (0 <= j < nth)%Z -> In (i, j) nodes) ->
  vanishes_on_dirichlet nr dirbc x ->
  (exists i j : Z, (0 <= i < nr)%Z /\ (0 <= j < nth)%Z /\ x i j <> 0) ->
  0 < @form Rsc nr nth h k R0 arr att art det beta dirbc nodes x x.
Proof. exact form_positive_definite. Qed.

Theorem C05_generated_operator_positive_definite :
  forall (nr nth : Z) (h k rad : Z -> R) (arr att art det : Z -> Z -> R) (beta : Z -> R) (dirbc : bool),
  (4 <= nr)%Z -> (2 <= nth)%Z ->
  (forall x : Z, 0 < h x) -> (forall x : Z, 0 < k x) -> 0 < rad 0%Z ->
  (forall i j : Z, 0 < arr i j) -> (forall i j : Z, 0 < att i j) ->
  (forall i j : Z, art i j ^ 2 < 4 * arr i j * att i j) -> (forall i : Z, 0 <= beta i) ->
  (dirbc = false -> forall j : Z, art 0%Z j = 0) ->
  forall (nodes : list (Z * Z)) (x : Z -> Z -> R),
  (forall p : Z * Z, In p nodes -> (0 <= fst p < nr)%Z /\ (0 <= snd p < nth)%Z) ->
  (forall i j : Z, (0 <= i < nr)%Z -> (0 <= j < nth)%Z -> In (i, j) nodes) ->
  vanishes_on_dirichlet nr dirbc x ->
  (exists i j : Z, (0 <= i < nr)%Z /\ (0 <= j < nth)%Z /\ x i j <> 0) ->
  0 < gen_form nr nth h k rad arr att art det beta dirbc nodes x x.
Proof. exact gen_form_positive_definite. Qed.

(* the premises are satisfiable: unit spacings, the circular-geometry coefficients arr = att = 1, art = 0 *)
Example C05_premises_hold_somewhere :
  (forall x : Z, 0 < (fun _ : Z => 1) x) /\ (forall i j : Z, ((fun _ _ : Z => 0) i j) ^ 2 < 4 * ((fun _ _ : Z => 1) i j) * ((fun _ _ : Z => 1) i j)) /\
  @vanishes_on_dirichlet 5%Z true (fun i j => if (i =? 2)%Z then 1 else 0).
Proof.
  split; [intros; lra|split; [intros; cbn; lra|]].
  split; [intros j; reflexivity|intros _ j; reflexivity].
Qed.

Print Assumptions C05_A_symmetric.
Print Assumptions C05_A_positive_definite.
Print Assumptions C05_generated_operator_symmetric.
Print Assumptions C05_A_positive_semidefinite_partial.
