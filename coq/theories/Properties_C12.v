(* Properties_C12.v -- statements only.  C12: results are reproducible and do not depend on the thread count.
   (1) If the iterations that may overlap are pairwise conflict free -- which Properties_C11 proves for the residual and
       smoother regions regenerated from the sources -- the state after a phase is the same for every execution order:
       law-free (any cell and value types; a task is any state transformer respecting its footprint), so it holds for
       IEEE doubles bit for bit.
   (2) The parallel reductions equal their sequential definition for every chunking and every order of combining the
       partial results (exact arithmetic; the rounding of a re-associated floating-point sum is modelled, not verified).
   (3) The number of threads used on a level lies between 1 and the configured maximum. *)
From Coq Require Import List Bool Permutation Reals ZArith Lia.
From GMGP Require Import ParDefs ParDeterminism KernelDefs.
Import ListNotations.

Theorem C12_conflict_free_tasks_commute : forall (cell V : Type) (a b : atask cell V) (s : state cell V),
  indep cell V a b -> seq cell V (eff _ _ a (eff _ _ b s)) (eff _ _ b (eff _ _ a s)).
Proof. exact indep_commute. Qed.

Theorem C12_phase_result_independent_of_execution_order : forall (cell V : Type) (l l' : list (atask cell V)),
  Permutation l l' -> pairwise_indep cell V l -> forall s, seq cell V (run cell V l s) (run cell V l' s).
Proof. exact schedule_irrelevant. Qed.

Theorem C12_interleavings_of_independent_tasks_agree : forall (cell V : Type) (l l' : list (atask cell V)),
  swap_equiv cell V l l' -> forall s, seq cell V (run cell V l s) (run cell V l' s).
Proof. exact swap_equiv_same_result. Qed.

(* the link with C11: in a race-free region the calls of two iterations that may overlap are independent *)
Theorem C12_race_free_gives_independence : forall (V : Type) (d : dims) (sem : task -> atask ParDefs.cell V),
  (forall t c, wr_ _ _ (sem t) c = writes d t c) -> (forall t c, tch_ _ _ (sem t) c = touches d t c) ->
  forall region, race_free region d ->
  forall it1 it2, In (it1, it2) (concurrent_iterations region d) ->
  forall t1 t2, In t1 it1 -> In t2 it2 -> indep _ _ (sem t1) (sem t2).
Proof. exact race_free_iterations_independent. Qed.

(* reductions *)
Theorem C12_chunked_sum : forall chunks : list (list R), rsum (map rsum chunks) = rsum (concat chunks).
Proof. exact chunked_sum. Qed.
Theorem C12_partial_sums_in_any_order : forall l l' : list R, Permutation l l' -> rsum l = rsum l'.
Proof. exact sum_permutation. Qed.
Theorem C12_chunked_max : forall chunks : list (list R), rmax0 (map rmax0 chunks) = rmax0 (concat chunks).
Proof. exact chunked_max. Qed.

(* threads per level *)
Theorem C12_threads_on_level_in_range : forall maxT q : Z, (1 <= maxT)%Z ->
  (1 <= threads_on_level maxT q <= maxT)%Z.
Proof. exact threads_on_level_range. Qed.
