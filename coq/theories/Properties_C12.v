(* Properties_C12.v -- statements only.  C12: results are reproducible and do not depend on the thread count.
   (1) If the iterations that may overlap are pairwise conflict free -- which Properties_C11 proves for the residual and
       smoother regions regenerated from the sources -- the state after a phase is the same for every execution order:
       law-free (any cell and value types; a task is any state transformer respecting its footprint), so it holds for
       IEEE doubles bit for bit.
   (2) The parallel reductions equal their sequential definition for every chunking and every order of combining the
       partial results (exact arithmetic; the rounding of a re-associated floating-point sum is modelled, not verified).
   (3) The number of threads used on a level lies between 1 and the configured maximum. *)
From Coq Require Import List Bool Permutation Reals ZArith Lia.
From GMGP Require Import Scalar ScalarR ParDefs ParDeterminism KernelDefs KernelTie.
From GMGPGen Require Import VecOpsGen.
Import ListNotations.

Theorem C12_conflict_free_tasks_commute : forall (cell V : Type) (a b : atask cell V) (s : state cell V),
  indep cell V a b -> seq cell V (eff _ _ a (eff _ _ b s)) (eff _ _ b (eff _ _ a s)).
Proof. exact indep_commute. Qed.

Theorem C12_phase_result_independent_of_execution_order : forall (cell V : Type) (l l' : list (atask cell V)),
  Permutation l l' -> pairwise_indep cell V l -> forall s, seq cell V (run cell V l s) (run cell V l' s).
Proof. exact schedule_irrelevant. Qed.

Theorem C12_interleavings_of_independent_tasks_agree : forall (cell V : Type) (l l' : list (atask cell V)),
  swap_equiv cell V l l' -> forall s, seq cell V (run cell V l s) (run cell V l' s).
Proof. exact swap_equiv_same_result. Qed.

(* the link with C11: in a race-free region the calls of two iterations that may overlap are independent *)
Theorem C12_race_free_gives_independence : forall (V : Type) (d : dims) (sem : task -> atask ParDefs.cell V),
  (forall t c, wr_ _ _ (sem t) c = writes d t c) -> (forall t c, tch_ _ _ (sem t) c = touches d t c) ->
  forall region, race_free region d ->
  forall it1 it2, In (it1, it2) (concurrent_iterations region d) ->
  forall t1 t2, In t1 it1 -> In t2 it2 -> indep _ _ (sem t1) (sem t2).
Proof. exact race_free_iterations_independent. Qed.

(* reductions *)
Theorem C12_chunked_sum : forall chunks : list (list R), rsum (map rsum chunks) = rsum (concat chunks).
Proof. exact chunked_sum. Qed.
Theorem C12_partial_sums_in_any_order : forall l l' : list R, Permutation l l' -> rsum l = rsum l'.
Proof. exact sum_permutation. Qed.
Theorem C12_chunked_max : forall chunks : list (list R), rmax0 (map rmax0 chunks) = rmax0 (concat chunks).
Proof. exact chunked_max. Qed.

(* ---- the vector kernels as translator T6 regenerates them from vector_operations.h (loop body, reduction clause, threshold) ---- *)
(* the sequential loop of every kernel is its mathematical definition, in ANY scalar arithmetic (so also for IEEE doubles,
   below and above the threshold: the same loop body runs in both cases) *)
Theorem C12_generated_kernels_are_definitions : forall (S : Sc) (a b : S) (x y : list S),
  map (fun p => gen_add_elem (fst p) (snd p)) (combine x y) = k_add x y /\
  map (fun p => gen_subtract_elem (fst p) (snd p)) (combine x y) = k_subtract x y /\
  map (fun p => gen_linear_combination_elem a b (fst p) (snd p)) (combine x y) = k_lincomb a x b y /\
  map (fun v => gen_multiply_elem a v) x = k_multiply x a /\
  map (fun e => gen_assign_elem a e) x = map (fun _ => a) x /\
  fold_left (fun acc p => gen_dot_product_step acc (fst p) (snd p)) (combine x y) gen_dot_product_init = k_dot x y /\
  fold_left (fun acc v => gen_l1_norm_step acc v) x gen_l1_norm_init = k_l1 x /\
  fold_left (fun acc v => gen_l2_norm_squared_step acc v) x gen_l2_norm_squared_init = k_l2sq x /\
  fold_left (fun acc v => gen_infinity_norm_step acc v) x gen_infinity_norm_init = k_inf x.
Proof.
  intros S a b x y.
  exact (conj (gen_add_is_definition x y) (conj (gen_subtract_is_definition x y) (conj (gen_linear_combination_is_definition a b x y)
        (conj (gen_multiply_is_definition a x) (conj (gen_assign_is_definition a x) (conj (gen_dot_product_is_definition x y)
        (conj (gen_l1_norm_is_definition x) (conj (gen_l2_norm_squared_is_definition x) (gen_infinity_norm_is_definition x))))))))).
Qed.

(* the reduction clauses name the operator the loop body accumulates with; every kernel switches at n > 10 000 *)
Theorem C12_generated_clauses :
  gen_dot_product_reduction = RedPlus /\ gen_l1_norm_reduction = RedPlus /\ gen_l2_norm_squared_reduction = RedPlus /\
  gen_infinity_norm_reduction = RedMax /\
  Forall (fun t => t = 10000%Z) [gen_assign_threshold; gen_add_threshold; gen_subtract_threshold; gen_linear_combination_threshold;
                                 gen_multiply_threshold; gen_dot_product_threshold; gen_l1_norm_threshold; gen_l2_norm_squared_threshold;
                                 gen_infinity_norm_threshold].
Proof. exact gen_clauses. Qed.

(* the OpenMP reduction (every thread folds its chunk from the initial value, partial results combined with the operator)
   returns what the sequential loop returns, for every partition into chunks (exact arithmetic) *)
Theorem C12_generated_dot_product_any_chunking : forall chunks : list (list (R * R)),
  rsum (map (fun c => fold_left (fun acc p => @gen_dot_product_step Rsc acc (fst p) (snd p)) c (@gen_dot_product_init Rsc)) chunks)
  = fold_left (fun acc p => @gen_dot_product_step Rsc acc (fst p) (snd p)) (concat chunks) (@gen_dot_product_init Rsc).
Proof. exact gen_dot_product_reduction_chunked. Qed.
Theorem C12_generated_l1_norm_any_chunking : forall chunks : list (list R),
  rsum (map (fun c => fold_left (fun acc v => @gen_l1_norm_step Rsc acc v) c (@gen_l1_norm_init Rsc)) chunks)
  = fold_left (fun acc v => @gen_l1_norm_step Rsc acc v) (concat chunks) (@gen_l1_norm_init Rsc).
Proof. exact gen_l1_norm_reduction_chunked. Qed.
Theorem C12_generated_l2_norm_squared_any_chunking : forall chunks : list (list R),
  rsum (map (fun c => fold_left (fun acc v => @gen_l2_norm_squared_step Rsc acc v) c (@gen_l2_norm_squared_init Rsc)) chunks)
  = fold_left (fun acc v => @gen_l2_norm_squared_step Rsc acc v) (concat chunks) (@gen_l2_norm_squared_init Rsc).
Proof. exact gen_l2_norm_squared_reduction_chunked. Qed.
Theorem C12_generated_infinity_norm_any_chunking : forall chunks : list (list R),
  rmax0 (map (fun c => fold_left (fun acc v => @gen_infinity_norm_step Rsc acc v) c (@gen_infinity_norm_init Rsc)) chunks)
  = fold_left (fun acc v => @gen_infinity_norm_step Rsc acc v) (concat chunks) (@gen_infinity_norm_init Rsc).
Proof. exact gen_infinity_norm_reduction_chunked. Qed.

(* threads per level *)
Theorem C12_threads_on_level_in_range : forall maxT q : Z, (1 <= maxT)%Z ->
  (1 <= threads_on_level maxT q <= maxT)%Z.
Proof. exact threads_on_level_range. Qed.
