(* ParOwnerDefs.v -- C11: model of the "owner computes" OpenMP regions (grid transfers, level caches, right-hand side
   build, exact error, extrapolated residual, vector kernels).  A region is the list of its work-shared loops, regenerated
   from the sources by translate/t2b_owner_loops.py (gen/ParOwnerGen.v).  Iterations of one loop may run concurrently for any
   thread count and schedule; iterations of two loops may run concurrently when only `nowait` loops lie between them. *)
From Coq Require Import List ZArith Bool String.
From GMGP Require Import ParDefs.
Import ListNotations.
Local Open Scope Z_scope.

Inductive slot := VO | VN | VX.                         (* outer loop variable, inner loop variable, anything else *)
Inductive wtarget := T2 (r t : slot) | T1 (s : slot) | TScalar.

Record oloop := mkOloop {
  ol_nowait : bool;
  ol_sym : bool;                                        (* ranges are not grid queries (sizes of vectors): kept symbolic *)
  ol_olo : dims -> Z; ol_ohi : dims -> Z;               (* outer range [lo, hi) *)
  ol_ilo : dims -> Z; ol_ihi : dims -> Z;               (* inner range ([0,1) without an inner loop) *)
  ol_writes : list (string * wtarget);                  (* every write to memory not declared inside the body *)
  ol_foreign : list string;                             (* arrays written in the loop and also read at another index *)
  ol_reads_nw : list string                             (* arrays read but not written in the loop *)
}.

Definition ocell := (string * Z * Z)%type.              (* array, first index, second index (0 for one-dimensional) *)

(* the cells a write of kind [tg] may touch in iteration (o, n); unknown index expressions may touch any cell *)
Definition tcell (tg : wtarget) (o n x y : Z) : Prop :=
  match tg with
  | T2 VO VN => x = o /\ y = n
  | T2 VN VO => x = n /\ y = o
  | T1 VO => x = o /\ y = 0
  | _ => True
  end.

Definition iter_writes (l : oloop) (d : dims) (o : Z) (c : ocell) : Prop :=
  let '(a, x, y) := c in
  ol_olo l d <= o < ol_ohi l d /\
  exists tg n, In (a, tg) (ol_writes l) /\ ol_ilo l d <= n < ol_ihi l d /\ tcell tg o n x y.

(* reads that can collide with a write: any cell of an array read at a foreign index, or read without being written here
   (reads of the iteration's own target cell are covered by iter_writes) *)
Definition iter_reads (l : oloop) (c : ocell) : Prop :=
  let '(a, _, _) := c in In a (ol_foreign l) \/ In a (ol_reads_nw l).

Definition no_conflict (l1 : oloop) (o1 : Z) (l2 : oloop) (o2 : Z) (d : dims) : Prop :=
  forall c, ~ (iter_writes l1 d o1 c /\ (iter_writes l2 d o2 c \/ iter_reads l2 c)) /\
            ~ (iter_writes l2 d o2 c /\ iter_reads l1 c).

Fixpoint later_loops (rest : list oloop) (nowait : bool) : list oloop :=
  match rest with
  | [] => []
  | p :: more => if nowait then p :: later_loops more (ol_nowait p) else []
  end.
Fixpoint concurrent_loops (region : list oloop) : list (oloop * oloop) :=
  match region with
  | [] => []
  | p :: rest => map (pair p) (later_loops rest (ol_nowait p)) ++ concurrent_loops rest
  end.

Definition race_free_owner (region : list oloop) (d : dims) : Prop :=
  (forall l, In l region -> forall o1 o2, o1 <> o2 -> no_conflict l o1 l o2 d) /\
  (forall l1 l2, In (l1, l2) (concurrent_loops region) -> forall o1 o2, no_conflict l1 o1 l2 o2 d).

(* ---- the decidable part of the sufficient condition ---- *)
Definition owner_target (tg : wtarget) : bool :=
  match tg with T2 VO VN | T2 VN VO | T1 VO => true | _ => false end.
Definition wtarget_eqb (a b : wtarget) : bool :=
  match a, b with
  | T2 VO VN, T2 VO VN | T2 VN VO, T2 VN VO | T1 VO, T1 VO => true
  | _, _ => false
  end.
Definition mem_str (a : string) (l : list string) : bool := existsb (String.eqb a) l.

Definition loop_ok (l : oloop) : bool :=
  forallb (fun w => owner_target (snd w)) (ol_writes l) &&
  forallb (fun w1 => forallb (fun w2 => negb (String.eqb (fst w1) (fst w2)) || wtarget_eqb (snd w1) (snd w2)) (ol_writes l)) (ol_writes l) &&
  forallb (fun w => negb (mem_str (fst w) (ol_foreign l)) && negb (mem_str (fst w) (ol_reads_nw l))) (ol_writes l).

Definition names_ok (l1 l2 : oloop) : bool :=
  negb (ol_sym l1) && negb (ol_sym l2) &&
  forallb (fun w => negb (mem_str (fst w) (ol_foreign l2)) && negb (mem_str (fst w) (ol_reads_nw l2))) (ol_writes l1) &&
  forallb (fun w => negb (mem_str (fst w) (ol_foreign l1)) && negb (mem_str (fst w) (ol_reads_nw l1))) (ol_writes l2).

(* the rectangle of cells a loop writes through a target of kind tg: rows [r1,r2) x columns [c1,c2) *)
Definition rect (l : oloop) (tg : wtarget) (d : dims) : Z * Z * Z * Z :=
  match tg with
  | T2 VN VO => (ol_ilo l d, ol_ihi l d, ol_olo l d, ol_ohi l d)
  | T1 _ => (ol_olo l d, ol_ohi l d, 0, 1)
  | _ => (ol_olo l d, ol_ohi l d, ol_ilo l d, ol_ihi l d)
  end.
Definition rect_disj (a b : Z * Z * Z * Z) : Prop :=
  let '(r1, r2, c1, c2) := a in let '(s1, s2, e1, e2) := b in r2 <= s1 \/ s2 <= r1 \/ c2 <= e1 \/ e2 <= c1.

Definition rects_disjoint (l1 l2 : oloop) (d : dims) : Prop :=
  forall a tg1 tg2, In (a, tg1) (ol_writes l1) -> In (a, tg2) (ol_writes l2) -> rect_disj (rect l1 tg1 d) (rect l2 tg2 d).

Definition region_ok (region : list oloop) (d : dims) : Prop :=
  forallb loop_ok region = true /\
  forall l1 l2, In (l1, l2) (concurrent_loops region) -> names_ok l1 l2 = true /\ rects_disjoint l1 l2 d.

(* ---- executable search for a clashing pair of iterations on one concrete grid (used by the check when the theorem
        breaks; the ranges of symbolic loops are taken as [0,3)) ---- *)
Definition orange (l : oloop) (d : dims) : list Z :=
  if ol_sym l then [0; 1; 2] else range_step (ol_olo l d) (ol_ohi l d) 1.
Definition irange (l : oloop) (d : dims) : list Z :=
  if ol_sym l then [0] else range_step (ol_ilo l d) (ol_ihi l d) 1.
Definition wcells (l : oloop) (d : dims) (o : Z) : list (string * option (Z * Z)) :=
  flat_map (fun w => match snd w with
                     | T2 VO VN => map (fun n => (fst w, Some (o, n))) (irange l d)
                     | T2 VN VO => map (fun n => (fst w, Some (n, o))) (irange l d)
                     | T1 VO => [(fst w, Some (o, 0))]
                     | _ => [(fst w, None)]
                     end) (ol_writes l).
Definition cells_clash (c1 c2 : string * option (Z * Z)) : bool :=
  String.eqb (fst c1) (fst c2) &&
  match snd c1, snd c2 with
  | Some p, Some q => (fst p =? fst q) && (snd p =? snd q)
  | _, _ => true
  end.
Definition iter_clash (l1 : oloop) (o1 : Z) (l2 : oloop) (o2 : Z) (d : dims) : option (string * Z * Z) :=
  let w1 := wcells l1 d o1 in let w2 := wcells l2 d o2 in
  match find (fun c1 => existsb (cells_clash c1) w2 || mem_str (fst c1) (ol_foreign l2) || mem_str (fst c1) (ol_reads_nw l2)) w1 with
  | Some c => Some (fst c, o1, o2)
  | None => match find (fun c2 => mem_str (fst c2) (ol_foreign l1) || mem_str (fst c2) (ol_reads_nw l1)) w2 with
            | Some c => Some (fst c, o1, o2)
            | None => None
            end
  end.
Definition first_some {A B} (f : A -> option B) (l : list A) : option B :=
  fold_right (fun a acc => match f a with Some b => Some b | None => acc end) None l.
Definition owner_find_race (region : list oloop) (d : dims) : option (string * Z * Z) :=
  match first_some (fun l => first_some (fun p => if fst p =? snd p then None else iter_clash l (fst p) l (snd p) d)
                                        (list_prod (orange l d) (orange l d))) region with
  | Some w => Some w
  | None => first_some (fun lp => first_some (fun p => iter_clash (fst lp) (fst p) (snd lp) (snd p) d)
                                             (list_prod (orange (fst lp) d) (orange (snd lp) d)))
                       (concurrent_loops region)
  end.
