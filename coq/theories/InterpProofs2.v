(* InterpProofs2.v -- C08 / C09a continued: linear reproduction and its refutation (F3), Lagrange
   exactness of the FMG interpolation, FMG row facts. *)
From Coq Require Import List ZArith Bool Reals Lra Lia Psatz.
From GMGP Require Import Scalar ScalarR InterpDefs InterpProofs.
Import ListNotations.
Local Open Scope Z_scope.

(* ================================================================== *)
(* linear reproduction                                                 *)
(* ================================================================== *)
Section Linear.
  Local Open Scope R_scope.
  Variable rad : Z -> R.                       (* radii of the fine grid *)
  Let h (i : Z) : R := rad (i + 1) - rad i.
  Hypothesis Hinc : forall i, rad i < rad (i + 1).

  (* what the row computes in general: the mirror image of the fine node in its coarse cell *)
  Theorem Pr_row_value m : (0 <= m)%Z ->
    @apply_row1 Rsc (@Pr_row Rsc h (2 * m + 1)) (fun ic => rad (2 * ic))
    = rad (2 * m) + rad (2 * m + 2) - rad (2 * m + 1).
  Proof.
    intros Hm. unfold Pr_row, odd.
    replace (Z.odd (2 * m + 1)) with true by (symmetry; rewrite Z.odd_add, Z.odd_mul; reflexivity).
    rewrite quot2_odd by lia. cbn [apply_row1 fold_right fst snd]. unfold h. rsc.
    replace (2 * m + 1 - 1 + 1)%Z with (2 * m + 1)%Z by lia.
    replace (2 * m + 1 - 1)%Z with (2 * m)%Z by lia.
    replace (2 * m + 1 + 1)%Z with (2 * m + 2)%Z by lia.
    replace (2 * (m + 1))%Z with (2 * m + 2)%Z by lia.
    pose proof (Hinc (2 * m)) as H1. pose proof (Hinc (2 * m + 1)) as H2.
    replace (2 * m + 1 + 1)%Z with (2 * m + 2)%Z in H2 by lia.
    field. lra.
  Qed.

  (* on a fine node that is the midpoint of its coarse neighbours the prolongation reproduces
     every function linear in r (its radial row applied to the coarse radii gives the fine radius) *)
  Theorem Pr_linear_midpoint m : (0 <= m)%Z ->
    rad (2 * m + 1) - rad (2 * m) = rad (2 * m + 2) - rad (2 * m + 1) ->
    @apply_row1 Rsc (@Pr_row Rsc h (2 * m + 1)) (fun ic => rad (2 * ic)) = rad (2 * m + 1).
  Proof. intros Hm Hmid. rewrite Pr_row_value by assumption. lra. Qed.

  (* hence linear functions are reproduced EXACTLY WHEN the fine node is the midpoint *)
  Corollary Pr_linear_iff_midpoint m : (0 <= m)%Z ->
    (@apply_row1 Rsc (@Pr_row Rsc h (2 * m + 1)) (fun ic => rad (2 * ic)) = rad (2 * m + 1)
     <-> rad (2 * m + 1) - rad (2 * m) = rad (2 * m + 2) - rad (2 * m + 1)).
  Proof. intros Hm. rewrite Pr_row_value by assumption. split; intros; lra. Qed.
End Linear.

(* F3: the full statement "prolongation reproduces functions linear in r on every grid pair" is
   false of the faithful model: radii 1, 2, 4 *)
Theorem P_linear_refuted :
  exists (rad : Z -> R), (forall i, (rad i < rad (i + 1)%Z)%R) /\
    @apply_row1 Rsc (@Pr_row Rsc (fun i => (rad (i + 1)%Z - rad i)%R) 1) (fun ic => rad (2 * ic)%Z) <> rad 1%Z.
Proof.
  exists (fun i => if (i <=? 0)%Z then (IZR i + 1)%R else if (i =? 1)%Z then 2%R else (IZR i + 2)%R).
  split.
  - intros i. zb; try lia; rewrite ?plus_IZR; try lra.
    + assert (i = 0)%Z by lia. subst. lra.
    + assert (i = 1)%Z by lia. subst. lra.
  - unfold Pr_row, odd. cbn. rsc. lra.
Qed.

(* ================================================================== *)
(* FMG: 4-point Lagrange weights                                       *)
(* ================================================================== *)
Section Lagrange.
  Local Open Scope R_scope.
  Variables k0 k1 k2 k3 : R.
  Hypothesis H0 : 0 < k0. Hypothesis H1 : 0 < k1. Hypothesis H2 : 0 < k2. Hypothesis H3 : 0 < k3.

  (* nodes at -(k0+k1), -k1, k2, k2+k3; evaluation point 0 *)
  Definition lagR := @lag4 Rsc k0 k1 k2 k3.
  Definition w0 := fst (fst (fst lagR)).
  Definition w1 := snd (fst (fst lagR)).
  Definition w2 := snd (fst lagR).
  Definition w3 := snd lagR.

  Ltac lag := unfold w0, w1, w2, w3, lagR, lag4; cbn [fst snd]; rsc; field; repeat split; lra.

  Theorem lagrange4_constants : w0 + w1 + w2 + w3 = 1.
  Proof. lag. Qed.
  Theorem lagrange4_linear : w0 * (- (k0 + k1)) + w1 * (- k1) + w2 * k2 + w3 * (k2 + k3) = 0.
  Proof. lag. Qed.
  Theorem lagrange4_quadratic :
    w0 * (k0 + k1) ^ 2 + w1 * k1 ^ 2 + w2 * k2 ^ 2 + w3 * (k2 + k3) ^ 2 = 0.
  Proof. lag. Qed.
  Theorem lagrange4_cubic :
    w0 * (- (k0 + k1)) ^ 3 + w1 * (- k1) ^ 3 + w2 * k2 ^ 3 + w3 * (k2 + k3) ^ 3 = 0.
  Proof. lag. Qed.

  (* therefore every cubic polynomial p(x) = a + b x + c x^2 + d x^3 is reproduced at 0 *)
  Theorem lagrange4_exact_for_cubics a b c d :
    let p x := a + b * x + c * x ^ 2 + d * x ^ 3 in
    w0 * p (- (k0 + k1)) + w1 * p (- k1) + w2 * p k2 + w3 * p (k2 + k3) = p 0.
  Proof.
    intros p. unfold p.
    pose proof lagrange4_constants as Ec. pose proof lagrange4_linear as El.
    pose proof lagrange4_quadratic as Eq. pose proof lagrange4_cubic as Ecu.
    transitivity (a * (w0 + w1 + w2 + w3)
                  + b * (w0 * (- (k0 + k1)) + w1 * (- k1) + w2 * k2 + w3 * (k2 + k3))
                  + c * (w0 * (k0 + k1) ^ 2 + w1 * k1 ^ 2 + w2 * k2 ^ 2 + w3 * (k2 + k3) ^ 2)
                  + d * (w0 * (- (k0 + k1)) ^ 3 + w1 * (- k1) ^ 3 + w2 * k2 ^ 3 + w3 * (k2 + k3) ^ 3)); [ring|].
    rewrite Ec, El, Eq, Ecu. ring.
  Qed.
End Lagrange.

(* ================================================================== *)
(* FMG rows                                                            *)
(* ================================================================== *)
Section FMGRows.
  Local Open Scope R_scope.
  Variable nr nth : Z.
  Variable rad : Z -> R.                        (* fine radii *)
  Variable k : Z -> R.                          (* fine angular spacings *)
  Let h (i : Z) : R := rad (i + 1) - rad i.
  Hypothesis Hinc : forall i, rad i < rad (i + 1).
  Hypothesis Hk : forall x, 0 < k x.
  Variable M : Z.
  Hypothesis HM : (2 <= M)%Z.
  Hypothesis Hnr : nr = (2 * M + 1)%Z.

  Notation FrR := (@Fr_row Rsc nr h).
  Notation FtR := (@Ft_row Rsc nth k).

  Lemma h_pos i : 0 < h i.
  Proof. unfold h. pose proof (Hinc i). lra. Qed.

  (* the linear rule is used exactly on the two radial lines next to the boundaries: everywhere
     else an odd radial index gets the 4-point Lagrange rule and an even one the coarse value *)
  Theorem FMG_fallback_only_next_to_boundary i : (0 <= i < nr)%Z ->
    FrR i =
      if ((i =? 0) || (i =? nr - 1))%Z then [(Z.quot i 2, 1)]
      else if ((i =? 1) || (i =? nr - 2))%Z
           then [(Z.quot i 2, h (i - 1) / (h (i - 1) + h i)); ((Z.quot i 2 + 1)%Z, h i / (h (i - 1) + h i))]
           else if Z.odd i
                then let '(a, b, c, d) := @lag4 Rsc (@hc Rsc h (Z.quot i 2 - 1)) (h (i - 1)) (h i) (@hc Rsc h (Z.quot i 2 + 1)) in
                     [((Z.quot i 2 - 1)%Z, a); (Z.quot i 2, b); ((Z.quot i 2 + 1)%Z, c); ((Z.quot i 2 + 2)%Z, d)]
                else [(Z.quot i 2, 1)].
  Proof. intros Hi. reflexivity. Qed.

  (* coarse nodes receive the coarse value (radial factor) *)
  Theorem Fr_coarse_identity ic : (0 <= ic)%Z -> (2 * ic < nr)%Z -> FrR (2 * ic) = [(ic, 1)].
  Proof.
    intros H0 H1. unfold Fr_row, odd.
    replace (Z.odd (2 * ic)) with false by (symmetry; rewrite Z.odd_mul; reflexivity).
    rewrite quot2_even by lia. zb; cbn [orb]; try reflexivity; try lia.
  Qed.

  (* every radial row sums to one: constants are reproduced, fall-back rows included *)
  Theorem Fr_rowsum i : (0 <= i < nr)%Z -> @rowsum1 Rsc (FrR i) = 1.
  Proof.
    intros Hi. unfold Fr_row, rowsum1.
    destruct ((i =? 0) || (i =? nr - 1))%Z; [cbn; rsc; ring|].
    destruct ((i =? 1) || (i =? nr - 2))%Z.
    - cbn [fold_right snd]. rsc. pose proof (h_pos (i - 1)). pose proof (h_pos i). field. lra.
    - destruct (odd i); [|cbn; rsc; ring].
      unfold lag4, hc. cbn [fold_right snd]. rsc.
      pose proof (h_pos (i - 1)). pose proof (h_pos i).
      pose proof (h_pos (2 * (Z.quot i 2 - 1))). pose proof (h_pos (2 * (Z.quot i 2 - 1) + 1)).
      pose proof (h_pos (2 * (Z.quot i 2 + 1))). pose proof (h_pos (2 * (Z.quot i 2 + 1) + 1)).
      field. repeat split; lra.
  Qed.

  (* cubic exactness in r on the radially interior odd lines, for ALL spacings *)
  Theorem Fr_cubic_exact m a b c d : (1 <= m)%Z -> (2 * m + 1 <= nr - 3)%Z ->
    let p x := a + b * x + c * x ^ 2 + d * x ^ 3 in
    @apply_row1 Rsc (FrR (2 * m + 1)) (fun ic => p (rad (2 * ic))) = p (rad (2 * m + 1)).
  Proof.
    intros Hm Hup p. unfold Fr_row, odd.
    replace (Z.odd (2 * m + 1)) with true by (symmetry; rewrite Z.odd_add, Z.odd_mul; reflexivity).
    rewrite quot2_odd by lia.
    replace ((2 * m + 1 =? 0) || (2 * m + 1 =? nr - 1))%Z with false by (symmetry; apply orb_false_iff; split; apply Z.eqb_neq; lia).
    replace ((2 * m + 1 =? 1) || (2 * m + 1 =? nr - 2))%Z with false by (symmetry; apply orb_false_iff; split; apply Z.eqb_neq; lia).
    unfold lag4, hc, h, p. cbn [apply_row1 fold_right fst snd]. rsc.
    replace (2 * (m - 1) + 1 + 1)%Z with (2 * m)%Z by lia.
    replace (2 * (m - 1) + 1)%Z with (2 * m - 1)%Z by lia.
    replace (2 * (m - 1))%Z with (2 * m - 2)%Z by lia.
    replace (2 * m + 1 - 1 + 1)%Z with (2 * m + 1)%Z by lia.
    replace (2 * m + 1 - 1)%Z with (2 * m)%Z by lia.
    replace (2 * m + 1 + 1)%Z with (2 * m + 2)%Z by lia.
    replace (2 * (m + 1) + 1 + 1)%Z with (2 * m + 4)%Z by lia.
    replace (2 * (m + 1) + 1)%Z with (2 * m + 3)%Z by lia.
    replace (2 * (m + 1))%Z with (2 * m + 2)%Z by lia.
    replace (2 * (m + 2))%Z with (2 * m + 4)%Z by lia.
    pose proof (Hinc (2 * m - 2)) as A1. replace (2 * m - 2 + 1)%Z with (2 * m - 1)%Z in A1 by lia.
    pose proof (Hinc (2 * m - 1)) as A2. replace (2 * m - 1 + 1)%Z with (2 * m)%Z in A2 by lia.
    pose proof (Hinc (2 * m)) as A3.
    pose proof (Hinc (2 * m + 1)) as A4. replace (2 * m + 1 + 1)%Z with (2 * m + 2)%Z in A4 by lia.
    pose proof (Hinc (2 * m + 2)) as A5. replace (2 * m + 2 + 1)%Z with (2 * m + 3)%Z in A5 by lia.
    pose proof (Hinc (2 * m + 3)) as A6. replace (2 * m + 3 + 1)%Z with (2 * m + 4)%Z in A6 by lia.
    field. repeat split; lra.
  Qed.

  (* angular rows: coarse identity and constants *)
  Theorem Ft_coarse_identity jc : (0 <= jc)%Z -> FtR (2 * jc) = [(jc, 1)].
  Proof.
    intros H0. unfold Ft_row, odd.
    replace (Z.odd (2 * jc)) with false by (symmetry; rewrite Z.odd_mul; reflexivity).
    rewrite quot2_even by lia. reflexivity.
  Qed.
  Theorem Ft_rowsum j : @rowsum1 Rsc (FtR j) = 1.
  Proof.
    unfold Ft_row, rowsum1. destruct (odd j); [|cbn; rsc; ring].
    unfold lag4, kc, kw. cbn [fold_right snd]. rsc.
    repeat match goal with |- context [k ?x] => lazymatch goal with H : 0 < k x |- _ => fail | _ => pose proof (Hk x) end end.
    field. repeat split; lra.
  Qed.

  Theorem FMG_rows_sum_to_one i j : (0 <= i < nr)%Z -> @rowsum2 Rsc (@FMG_row Rsc nr nth h k i j) = 1.
  Proof. intros Hi. unfold FMG_row. rewrite rowsum2_tensor, Fr_rowsum, Ft_rowsum by assumption. rsc. ring. Qed.

  Theorem FMG_coarse_identity (x : Z -> Z -> R) ic jc : (0 <= ic)%Z -> (2 * ic < nr)%Z -> (0 <= jc)%Z ->
    @apply_row2 Rsc (@FMG_row Rsc nr nth h k (2 * ic) (2 * jc)) x = x ic jc.
  Proof.
    intros. unfold FMG_row. rewrite Fr_coarse_identity, Ft_coarse_identity by assumption.
    cbn. rsc. ring.
  Qed.
End FMGRows.
