(* CycleDefs.v -- model of the multigrid control flow (C10, C09b, C13, C01, C20): the sequence of
   operator calls with the identity of every buffer argument, transcribed from
   src/GMGPolar/MultigridMethods/*.cpp (six cycle functions), GMGPolar::initializeSolution and
   GMGPolar::solve (src/GMGPolar/solver.cpp).  Buffers are (level, kind) pairs. *)
From Coq Require Import List Arith Bool.
Import ListNotations.

Inductive bk := Sol | Rhs | Res | Err.
Definition bref := (nat * bk)%type.

Inductive opn :=
| OSmooth | OExtSmooth | OResid | ODirect | ORestrict | OProlong | OExRestrict | OExProlong | OInject | OFMG
| OAssign0 | OAdd | OLinComb | OExtResid | OCopy | OExactErr | ONorm | OConverged.

(* op, level argument, buffer arguments in call order *)
Record ev := mkEv { e_op : opn; e_lvl : nat; e_bufs : list bref }.

Inductive ckind := KV | KW | KF.

(* ---- plain cycles: multigrid_{V,W,F}_Cycle(level_depth = d, solution = x, rhs = f, residual = r) ----
   [rem] = number of levels below d (number_of_levels - 1 - d >= 1) *)
Fixpoint cyc (k : ckind) (rem d pre post : nat) (x f r : bref) : list ev :=
  repeat (mkEv OSmooth d [x; f; r]) pre
  ++ [mkEv OResid d [r; f; x]]
  ++ match rem with
     | O => []
     | S O => [mkEv ORestrict d [(S d, Res); r]; mkEv ODirect (S d) [(S d, Res)]]
     | S (S _ as rem1) =>
         [mkEv ORestrict d [(S d, Err); r]; mkEv OAssign0 (S d) [(S d, Res)]]
         ++ match k with
            | KV => cyc KV rem1 (S d) pre post (S d, Res) (S d, Err) (S d, Sol)
            | KW => cyc KW rem1 (S d) pre post (S d, Res) (S d, Err) (S d, Sol)
                    ++ cyc KW rem1 (S d) pre post (S d, Res) (S d, Err) (S d, Sol)
            | KF => cyc KF rem1 (S d) pre post (S d, Res) (S d, Err) (S d, Sol)
                    ++ cyc KV rem1 (S d) pre post (S d, Res) (S d, Err) (S d, Sol)
            end
     end
  ++ [mkEv OProlong (S d) [r; (S d, Res)]; mkEv OAdd d [x; r]]
  ++ repeat (mkEv OSmooth d [x; f; r]) post.

(* ---- implicitly extrapolated cycles (always entered at level_depth = 0) ---- *)
Definition ecyc (k : ckind) (rem pre post : nat) (fgs : bool) (x f r : bref) : list ev :=
  let sm := if fgs then mkEv OSmooth 0 [x; f; r] else mkEv OExtSmooth 0 [x; f; r] in
  repeat sm pre
  ++ match rem with
     | O => []
     | S O =>
         [mkEv OResid 0 [r; f; x]; mkEv OExRestrict 0 [(1, Res); r]; mkEv OInject 0 [(1, Sol); x];
          mkEv OResid 1 [(1, Err); (1, Rhs); (1, Sol)]; mkEv OLinComb 1 [(1, Res); (1, Err)];
          mkEv ODirect 1 [(1, Res)]]
     | S (S _ as rem1) =>
         [mkEv OResid 0 [r; f; x]; mkEv OExRestrict 0 [(1, Err); r]; mkEv OInject 0 [(1, Sol); x];
          mkEv OResid 1 [(1, Res); (1, Rhs); (1, Sol)]; mkEv OLinComb 1 [(1, Err); (1, Res)];
          mkEv OAssign0 1 [(1, Res)]]
         ++ match k with
            | KV => cyc KV rem1 1 pre post (1, Res) (1, Err) (1, Sol)
            | KW => cyc KW rem1 1 pre post (1, Res) (1, Err) (1, Sol) ++ cyc KW rem1 1 pre post (1, Res) (1, Err) (1, Sol)
            | KF => cyc KF rem1 1 pre post (1, Res) (1, Err) (1, Sol) ++ cyc KV rem1 1 pre post (1, Res) (1, Err) (1, Sol)
            end
     end
  ++ [mkEv OExProlong 1 [r; (1, Res)]; mkEv OAdd 0 [x; r]]
  ++ repeat sm post.

(* one iteration of the solver loop's cycle call *)
Definition top_cycle (k : ckind) (L pre post : nat) (extrap fgs : bool) : list ev :=
  if extrap then ecyc k (L - 1) pre post fgs (0, Sol) (0, Rhs) (0, Res)
  else cyc k (L - 1) 0 pre post (0, Sol) (0, Rhs) (0, Res).

(* ---- FMG start-up: nested iteration from the coarsest level (specification = what C09 asks for) ----
   solve on level L-1; for cl = L-1 .. 1: interpolate cl -> cl-1, then [iters] cycles on cl-1
   (the extrapolated cycle only on level 0) *)
Fixpoint fmg_levels (fk : ckind) (iters pre post : nat) (extrap fgs : bool) (L : nat) (cl : nat) : list ev :=
  match cl with
  | O => []
  | S c =>
      [mkEv OFMG cl [(c, Sol); (cl, Sol)]]
      ++ concat (repeat (if (c =? 0) && extrap
                         then ecyc fk (L - 1) pre post fgs (0, Sol) (0, Rhs) (0, Res)
                         else cyc fk (L - 1 - c) c pre post (c, Sol) (c, Rhs) (c, Res)) iters)
      ++ fmg_levels fk iters pre post extrap fgs L c
  end.

Definition init_ops (fmg : bool) (fk : ckind) (iters pre post : nat) (extrap fgs : bool) (L : nat) : list ev :=
  if fmg then
    [mkEv OCopy (L - 1) [(L - 1, Sol); (L - 1, Rhs)]; mkEv ODirect (L - 1) [(L - 1, Sol)]]
    ++ fmg_levels fk iters pre post extrap fgs L (L - 1)
  else [mkEv OAssign0 0 [(0, Sol)]].

(* ---- the solver loop.  The numeric decisions (converged?  reduction factor > 0.7?) are an oracle
   list, one entry per executed stop test: (converged, slow) ---- *)
Definition stop_test (extrap has_exact : bool) : list ev :=
  (if has_exact then [mkEv OExactErr 0 [(0, Sol); (0, Res)]] else [])
  ++ [mkEv OResid 0 [(0, Res); (0, Rhs); (0, Sol)]]
  ++ (if extrap then [mkEv OInject 0 [(1, Sol); (0, Sol)]; mkEv OResid 1 [(1, Res); (1, Rhs); (1, Sol)];
                      mkEv OExtResid 0 [(0, Res); (1, Res)]] else [])
  ++ [mkEv ONorm 0 [(0, Res)]].

(* combined = extrapolation mode COMBINED: full-grid smoothing is switched off for good once a
   reduction factor above 0.7 is observed (never at iteration 0) *)
Fixpoint solve_loop (k : ckind) (L pre post : nat) (extrap combined has_exact tol : bool) (fgs : bool)
         (it maxit : nat) (oracle : list (bool * bool)) : list ev * nat * bool :=
  match maxit with
  | O => ([], it, fgs)
  | S m =>
      if tol then
        match oracle with
        | [] => ([], it, fgs)                      (* oracle exhausted: model stops (never on a valid trace) *)
        | (conv, slow) :: orest =>
            let fgs1 := if combined && slow && fgs && negb (it =? 0) then false else fgs in
            let test := stop_test extrap has_exact in
            if conv then (test ++ [mkEv OConverged it [(0, Sol)]], it, fgs1)
            else
              let '(restev, itf, fgsf) := solve_loop k L pre post extrap combined has_exact tol fgs1 (S it) m orest in
              (test ++ top_cycle k L pre post extrap fgs1 ++ restev, itf, fgsf)
        end
      else
        let '(restev, itf, fgsf) := solve_loop k L pre post extrap combined has_exact tol fgs (S it) m oracle in
        ((if has_exact then [mkEv OExactErr 0 [(0, Sol); (0, Res)]] else [])
           ++ top_cycle k L pre post extrap fgs ++ restev, itf, fgsf)
  end.

(* ---- read / write sets of an event (whole-vector granularity) ---- *)
Definition ev_writes (e : ev) : list bref :=
  match e_op e, e_bufs e with
  | OSmooth, [x; _; t] | OExtSmooth, [x; _; t] => [x; t]
  | OResid, out :: _ => [out]
  | ODirect, [x] => [x]
  | ORestrict, out :: _ | OProlong, out :: _ | OExRestrict, out :: _ | OExProlong, out :: _
  | OInject, out :: _ | OFMG, out :: _ => [out]
  | OAssign0, [x] => [x]
  | OAdd, x :: _ => [x]
  | OLinComb, x :: _ => [x]
  | OExtResid, x :: _ => [x]
  | OCopy, x :: _ => [x]
  | OExactErr, [_; e'] => [e']
  | _, _ => []
  end.

(* buffers whose previous CONTENT the event depends on *)
Definition ev_reads (e : ev) : list bref :=
  match e_op e, e_bufs e with
  | OSmooth, [x; f; _] => [x; f]              (* temp is written before it is read *)
  | OExtSmooth, [x; f; _] => [x; f]
  | OResid, [_; f; x] => [f; x]
  | ODirect, [x] => [x]
  | ORestrict, [_; x] | OProlong, [_; x] | OExRestrict, [_; x] | OExProlong, [_; x] | OInject, [_; x] | OFMG, [_; x] => [x]
  | OAssign0, _ => []
  | OAdd, [x; y] => [x; y]
  | OLinComb, [x; y] => [x; y]
  | OExtResid, [x; y] => [x; y]
  | OCopy, [_; y] => [y]
  | OExactErr, [s; _] => [s]
  | ONorm, [r] => [r]
  | OConverged, _ => []
  | _, bs => bs
  end.

Definition bref_eqb (a b : bref) : bool :=
  (fst a =? fst b) && match snd a, snd b with Sol, Sol | Rhs, Rhs | Res, Res | Err, Err => true | _, _ => false end.
Definition mem (b : bref) (l : list bref) : bool := existsb (bref_eqb b) l.

(* buffers read before they are (fully) written: what the outcome of [ops] can depend on *)
Fixpoint live_in (ops : list ev) (written : list bref) : list bref :=
  match ops with
  | [] => []
  | e :: rest =>
      filter (fun b => negb (mem b written)) (ev_reads e) ++ live_in rest (ev_writes e ++ written)
  end.

Definition all_writes (ops : list ev) : list bref := flat_map ev_writes ops.
