(* KernelTie.v -- C12: the vector kernels as translator T6 regenerates them from include/LinearAlgebra/vector_operations.h
   (gen/VecOpsGen.v: the loop body of every kernel, its reduction clause, its threshold) are their mathematical
   definitions (KernelDefs), for any scalar arithmetic; and over the reals the OpenMP reduction -- every thread folds its
   chunk from the initial value, the partial results are combined with the reduction operator -- returns what the sequential
   loop returns, for every partition of the index range into chunks. *)
From Coq Require Import List ZArith Bool Reals Lra.
From GMGP Require Import Scalar ScalarR KernelDefs ParDefs ParDeterminism.
From GMGPGen Require Import VecOpsGen.
Import ListNotations.

Section AnyScalar.
  Context {S : Sc}.
  (* element-wise kernels: the loop  for i: body(i)  over vectors given as lists *)
  Lemma gen_add_is_definition (r x : list S) : map (fun p => gen_add_elem (fst p) (snd p)) (combine r x) = k_add r x.
  Proof. reflexivity. Qed.
  Lemma gen_subtract_is_definition (r x : list S) : map (fun p => gen_subtract_elem (fst p) (snd p)) (combine r x) = k_subtract r x.
  Proof. reflexivity. Qed.
  Lemma gen_linear_combination_is_definition (a b : S) (x y : list S) :
    map (fun p => gen_linear_combination_elem a b (fst p) (snd p)) (combine x y) = k_lincomb a x b y.
  Proof. reflexivity. Qed.
  Lemma gen_multiply_is_definition (a : S) (x : list S) : map (fun v => gen_multiply_elem a v) x = k_multiply x a.
  Proof. reflexivity. Qed.
  Lemma gen_assign_is_definition (v : S) (x : list S) : map (fun e => gen_assign_elem v e) x = map (fun _ => v) x.
  Proof. reflexivity. Qed.
  (* reductions, sequential loop *)
  Lemma gen_dot_product_is_definition (l r : list S) :
    fold_left (fun acc p => gen_dot_product_step acc (fst p) (snd p)) (combine l r) gen_dot_product_init = k_dot l r.
  Proof. reflexivity. Qed.
  Lemma gen_l1_norm_is_definition (x : list S) : fold_left (fun acc v => gen_l1_norm_step acc v) x gen_l1_norm_init = k_l1 x.
  Proof. reflexivity. Qed.
  Lemma gen_l2_norm_squared_is_definition (x : list S) :
    fold_left (fun acc v => gen_l2_norm_squared_step acc v) x gen_l2_norm_squared_init = k_l2sq x.
  Proof. reflexivity. Qed.
  Lemma gen_infinity_norm_is_definition (x : list S) :
    fold_left (fun acc v => gen_infinity_norm_step acc v) x gen_infinity_norm_init = k_inf x.
  Proof. reflexivity. Qed.
End AnyScalar.

Lemma gen_clauses :
  gen_dot_product_reduction = RedPlus /\ gen_l1_norm_reduction = RedPlus /\ gen_l2_norm_squared_reduction = RedPlus /\
  gen_infinity_norm_reduction = RedMax /\
  Forall (fun t => t = 10000%Z) [gen_assign_threshold; gen_add_threshold; gen_subtract_threshold; gen_linear_combination_threshold;
                                 gen_multiply_threshold; gen_dot_product_threshold; gen_l1_norm_threshold; gen_l2_norm_squared_threshold;
                                 gen_infinity_norm_threshold].
Proof. repeat split; repeat constructor. Qed.

(* ---- the parallel reduction equals the sequential loop (exact arithmetic) ---- *)
Local Open Scope R_scope.

Lemma fold_plus_shift {A} (f : A -> R) (l : list A) (a : R) :
  fold_left (fun acc v => acc + f v) l a = a + fold_left (fun acc v => acc + f v) l 0.
Proof.
  revert a. induction l as [|x l IH]; intros a; cbn [fold_left]; [lra|].
  rewrite (IH (a + f x)), (IH (0 + f x)). lra.
Qed.

Lemma sum_reduction_chunked {A} (f : A -> R) (chunks : list (list A)) :
  rsum (map (fun c => fold_left (fun acc v => acc + f v) c 0) chunks) = fold_left (fun acc v => acc + f v) (concat chunks) 0.
Proof.
  induction chunks as [|c cs IH]; cbn [map rsum concat fold_right]; [reflexivity|].
  rewrite fold_left_app. rewrite (fold_plus_shift f (concat cs) (fold_left (fun acc v => acc + f v) c 0)).
  unfold rsum in IH. rewrite <- IH. reflexivity.
Qed.

Theorem gen_dot_product_reduction_chunked (chunks : list (list (R * R))) :
  rsum (map (fun c => fold_left (fun acc p => @gen_dot_product_step Rsc acc (fst p) (snd p)) c (@gen_dot_product_init Rsc)) chunks)
  = fold_left (fun acc p => @gen_dot_product_step Rsc acc (fst p) (snd p)) (concat chunks) (@gen_dot_product_init Rsc).
Proof. exact (sum_reduction_chunked (fun p => fst p * snd p) chunks). Qed.

Theorem gen_l2_norm_squared_reduction_chunked (chunks : list (list R)) :
  rsum (map (fun c => fold_left (fun acc v => @gen_l2_norm_squared_step Rsc acc v) c (@gen_l2_norm_squared_init Rsc)) chunks)
  = fold_left (fun acc v => @gen_l2_norm_squared_step Rsc acc v) (concat chunks) (@gen_l2_norm_squared_init Rsc).
Proof. exact (sum_reduction_chunked (fun v => v * v) chunks). Qed.

Theorem gen_l1_norm_reduction_chunked (chunks : list (list R)) :
  rsum (map (fun c => fold_left (fun acc v => @gen_l1_norm_step Rsc acc v) c (@gen_l1_norm_init Rsc)) chunks)
  = fold_left (fun acc v => @gen_l1_norm_step Rsc acc v) (concat chunks) (@gen_l1_norm_init Rsc).
Proof. exact (sum_reduction_chunked (fun v => @sabs Rsc v) chunks). Qed.

(* the max reduction: the step is  acc := max(acc, |v|) *)
Lemma inf_step_is_max (acc v : R) : @gen_infinity_norm_step Rsc acc v = Rmax acc (@sabs Rsc v).
Proof.
  unfold gen_infinity_norm_step. cbv zeta. cbn [sltb Rsc]. unfold Rmax.
  destruct (Rlt_dec acc (@sabs Rsc v)); destruct (Rle_dec acc (@sabs Rsc v)); try reflexivity; try lra.
Qed.

Lemma fold_max_shift (f : R -> R) (l : list R) (a : R) : 0 <= a -> (forall v, 0 <= f v) ->
  fold_left (fun acc v => Rmax acc (f v)) l a = Rmax a (fold_left (fun acc v => Rmax acc (f v)) l 0).
Proof.
  intros Ha Hf. revert a Ha. induction l as [|x l IH]; intros a Ha; cbn [fold_left].
  - unfold Rmax. destruct (Rle_dec a 0); lra.
  - assert (H1 : 0 <= Rmax a (f x)) by (unfold Rmax; destruct (Rle_dec a (f x)); [apply Hf|lra]).
    assert (H2 : 0 <= Rmax 0 (f x)) by (unfold Rmax; destruct (Rle_dec 0 (f x)); [apply Hf|lra]).
    rewrite (IH _ H1), (IH _ H2).
    replace (Rmax 0 (f x)) with (f x) by (unfold Rmax; destruct (Rle_dec 0 (f x)); [reflexivity|exfalso; apply n; apply Hf]).
    rewrite Rmax_assoc. reflexivity.
Qed.

Lemma fold_max_nonneg (f : R -> R) (l : list R) : 0 <= fold_left (fun acc v => Rmax acc (f v)) l 0.
Proof.
  assert (G : forall a, 0 <= a -> 0 <= fold_left (fun acc v => Rmax acc (f v)) l a).
  { induction l as [|x l IH]; intros a Ha; cbn [fold_left]; [exact Ha|].
    apply IH. unfold Rmax. destruct (Rle_dec a (f x)); lra. }
  apply G. lra.
Qed.

Theorem gen_infinity_norm_reduction_chunked (chunks : list (list R)) :
  rmax0 (map (fun c => fold_left (fun acc v => @gen_infinity_norm_step Rsc acc v) c (@gen_infinity_norm_init Rsc)) chunks)
  = fold_left (fun acc v => @gen_infinity_norm_step Rsc acc v) (concat chunks) (@gen_infinity_norm_init Rsc).
Proof.
  assert (Hf : forall v, 0 <= @sabs Rsc v).
  { intros v. unfold sabs. cbn [sltb Rsc s0 sneg]. destruct (Rlt_dec v 0); lra. }
  assert (E : forall l a, fold_left (fun acc v => @gen_infinity_norm_step Rsc acc v) l a = fold_left (fun acc v => Rmax acc (@sabs Rsc v)) l a).
  { induction l as [|x l IH]; intros a; cbn [fold_left]; [reflexivity|]. rewrite inf_step_is_max. apply IH. }
  cbn [gen_infinity_norm_init s0 Rsc].
  rewrite E. erewrite map_ext; [|intros c; apply E].
  induction chunks as [|c cs IH]; cbn [map rmax0 concat fold_right]; [reflexivity|].
  rewrite fold_left_app. rewrite (fold_max_shift (@sabs Rsc) (concat cs) _ (fold_max_nonneg _ c) Hf).
  unfold rmax0 in IH. rewrite IH. reflexivity.
Qed.
