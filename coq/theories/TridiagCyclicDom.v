(* TridiagCyclicDom.v -- C14: "in particular every strictly diagonally dominant" cyclic system.  A symmetric cyclic tridiagonal matrix
   whose every row is strictly dominated by its (positive) diagonal entry -- |s_{i-1}| + |s_i| < d_i, the corner c counting in rows 0
   and n-1 -- is positive definite in the sense of [spd_cyc], for every dimension n >= 2 (for n = 2 corner and sub-diagonal address
   the same entry and both count, as in matvec_cyc).  With spd_cyclic_solve_correct: the cyclic solve is exact on all of them. *)
From Coq Require Import List ZArith Bool Reals Lra Lia.
From GMGP Require Import Scalar ScalarR TridiagDefs TridiagProofs TridiagCyclic TridiagSPD TridiagCyclicSPD.
Import ListNotations.
Local Open Scope R_scope.

(* row-wise strict dominance: p = |coupling to the previous row| (|c| for row 0), q = |c| charged to the last row *)
Fixpoint cdom (q p d : R) (ds ss : list R) : Prop :=
  match ds, ss with
  | d1 :: ds', s :: ss' => p + Rabs s < d /\ cdom q (Rabs s) d1 ds' ss'
  | _, _ => p + q < d
  end.

(* the Gershgorin lower bound of the quadratic form *)
Fixpoint lbq (q p d : R) (ds ss : list R) (x0 : R) (xs : list R) : R :=
  match ds, ss, xs with
  | d1 :: ds', s :: ss', x1 :: xs' => (d - p - Rabs s) * (x0 * x0) + lbq q (Rabs s) d1 ds' ss' x1 xs'
  | _, _, _ => (d - p - q) * (x0 * x0)
  end.

Lemma two_sxy s x y : - Rabs s * (x * x + y * y) <= 2 * s * x * y.
Proof.
  pose proof (Rle_0_sqr (x + y)) as H1. pose proof (Rle_0_sqr (x - y)) as H2. unfold Rsqr in *.
  unfold Rabs. destruct (Rcase_abs s); nra.
Qed.

Lemma qform_lbq q : forall ds d ss x0 xs p, length ss = length ds -> length xs = length ds ->
  lbq q p d ds ss x0 xs <= qform d ds ss x0 xs - p * (x0 * x0) - q * (last (x0 :: xs) 0 * last (x0 :: xs) 0).
Proof.
  induction ds as [|d1 ds IH]; intros d ss x0 xs p Hs Hx.
  - destruct ss; [|discriminate]. destruct xs; [|discriminate]. cbn [lbq qform last]. apply Req_le. ring.
  - destruct ss as [|s ss]; [discriminate|]. destruct xs as [|x1 xs]; [discriminate|].
    cbn [length] in Hs, Hx. injection Hs as Hs. injection Hx as Hx.
    rewrite qform_cons. cbn [lbq]. change (last (x0 :: x1 :: xs) 0) with (last (x1 :: xs) 0).
    pose proof (IH d1 ss x1 xs (Rabs s) Hs Hx) as H. pose proof (two_sxy s x0 x1) as H2.
    set (L := last (x1 :: xs) 0) in *. set (Q := qform d1 ds ss x1 xs) in *. set (B := lbq q (Rabs s) d1 ds ss x1 xs) in *.
    set (a := Rabs s) in *. nra.
Qed.

Lemma lbq_pos q : forall ds d ss x0 xs p, length ss = length ds -> length xs = length ds -> cdom q p d ds ss ->
  0 <= lbq q p d ds ss x0 xs /\ (nonzero x0 xs -> 0 < lbq q p d ds ss x0 xs).
Proof.
  induction ds as [|d1 ds IH]; intros d ss x0 xs p Hs Hx Hd.
  - destruct ss; [|discriminate]. destruct xs; [|discriminate]. cbn [lbq cdom] in *. split.
    + pose proof (Rle_0_sqr x0) as H. unfold Rsqr in H. nra.
    + intros [v [[<-|[]] Hv]]. assert (0 < x0 * x0) by nra. nra.
  - destruct ss as [|s ss]; [discriminate|]. destruct xs as [|x1 xs]; [discriminate|].
    cbn [length] in Hs, Hx. injection Hs as Hs. injection Hx as Hx. cbn [lbq cdom] in *. destruct Hd as [Hd0 Hd].
    destruct (IH d1 ss x1 xs (Rabs s) Hs Hx Hd) as [H0 Hp].
    pose proof (Rle_0_sqr x0) as Hq. unfold Rsqr in Hq. split; [nra|].
    intros [v [Hin Hv]]. destruct Hin as [<-|Hin].
    + assert (0 < x0 * x0) by nra. nra.
    + assert (Hnz : nonzero x1 xs) by (exists v; split; assumption). specialize (Hp Hnz). nra.
Qed.

Theorem dominant_cyclic_is_spd d0 ds ss c : ds <> [] -> length ss = length ds ->
  cdom (Rabs c) (Rabs c) d0 ds ss -> spd_cyc d0 ds ss c.
Proof.
  intros Hne Hs Hd x0 xs Hx Hnz. unfold qcyc.
  assert (Llast : last (x0 :: xs) 0 = last xs 0).
  { destruct xs as [|x1 xs']; [destruct ds; [contradiction|discriminate]|reflexivity]. }
  pose proof (qform_lbq (Rabs c) ds d0 ss x0 xs (Rabs c) Hs Hx) as Hb. rewrite Llast in Hb.
  destruct (lbq_pos (Rabs c) ds d0 ss x0 xs (Rabs c) Hs Hx Hd) as [_ Hp]. specialize (Hp Hnz).
  pose proof (two_sxy c x0 (last xs 0)) as H2.
  set (l := last xs 0) in *. set (Q := qform d0 ds ss x0 xs) in *. set (B := lbq (Rabs c) (Rabs c) d0 ds ss x0 xs) in *.
  set (a := Rabs c) in *. nra.
Qed.

(* so: every strictly diagonally dominant cyclic system is solved exactly *)
Theorem dominant_cyclic_solve_correct d0 ds ss c b0 bs : ds <> [] -> length ss = length ds -> length bs = length ds ->
  cdom (Rabs c) (Rabs c) d0 ds ss ->
  @matvec_cyc Rsc (d0 :: ds) ss c (@solve_cyc Rsc (d0 :: ds) ss c (b0 :: bs)) = b0 :: bs.
Proof.
  intros Hne Hs Hb Hd. apply spd_cyclic_solve_correct; [exact Hne|exact Hs|exact Hb|]. apply dominant_cyclic_is_spd; assumption.
Qed.

(* the premise is satisfiable, negative corner and a zero sub-diagonal included *)
Example cdom_example : cdom (Rabs (-1)) (Rabs (-1)) 3 [3; 4] [0; 2] /\ [3; 4] <> @nil R.
Proof.
  split; [|discriminate]. cbn [cdom].
  replace (Rabs (-1)) with 1 by (unfold Rabs; destruct (Rcase_abs (-1)); lra).
  rewrite Rabs_R0. rewrite (Rabs_pos_eq 2) by lra. lra.
Qed.
