(* StopDefs.v -- C01: the stopping decision of solve(): a tolerance that is switched off never fires; the relative
   tolerance is compared with ||r_k|| / ||r_0||, the absolute one with ||r_k||; !(a > b) is a <= b. *)
From GMGP Require Import Scalar.

Definition stop_decision {S : Sc} (atol rtol : option (T S)) (rn reln : T S) : bool :=
  (match rtol with Some t => negb (sltb t reln) | None => false end) || (match atol with Some t => negb (sltb t rn) | None => false end).
