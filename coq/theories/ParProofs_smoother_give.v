(* C11: race freedom of the regenerated region gen_smoother_give for all grid sizes (even ntheta). *)
From Coq Require Import List ZArith Bool Lia ZifyBool.
From GMGP Require Import ParDefs ParProofs.
From GMGPGen Require Import ParRegionsGen.
Import ListNotations.
Local Open Scope Z_scope.
Ltac Zify.zify_post_hook ::= Z.to_euclidean_division_equations.

Theorem smoother_give_race_free d : valid d -> d_nt d mod 2 = 0 -> race_free gen_smoother_give d.
Proof.
  intros [V1 [V2 V3]] Vev it1 it2 Hin t1 t2 H1 H2 c. unfold gen_smoother_give in Hin.
  region_solve Hin H1 H2.
Qed.
