(* StencilTie.v -- the residual kernels as translator T3 regenerates them from the macro bodies
   (gen/StencilGen.v) are the hand-written operator model (StencilDefs):

     gen_take_is_model : NODE_APPLY_RESIDUAL_TAKE performs exactly one write, result[(i,j)] := rhs(i,j) - (row (i,j) of A_take) . x
     gen_give_is_model : for every test vector y, the y-weighted sum of everything NODE_APPLY_A_GIVE subtracts from `result`
                         for node (i,j) is the model's bilinear form of that node (StencilDefs.bil), and every write is a `-=`
                         into `result`

   so the theorems of StencilProofs (give = take, symmetry, semidefiniteness) are statements about what the source says now.
   A change of a coefficient, an index, a sign, a branch condition or a write kind in either macro changes the generated term
   and breaks one of the two proofs below. *)
From Coq Require Import List ZArith Bool Reals Lia Lra.
From GMGP Require Import Scalar ScalarR InterpDefs StencilDefs StencilProofs StencilDefinite.
From GMGPGen Require Import StencilGen.
Import ListNotations.

Lemma wrapT_small n x : (0 <= x < n)%Z -> wrapT n x = x.
Proof. intros H. unfold wrapT. apply Z.mod_small; lia. Qed.
Lemma wrapT_idem n x : wrapT n (wrapT n x) = wrapT n x.
Proof. unfold wrapT. destruct (Z.eq_dec n 0) as [->|Hn]; [now rewrite !Zmod_0_r|]. now rewrite Z.mod_mod. Qed.
Lemma wrapT_wrap1 n x : (0 < n)%Z -> (- n <= x < 2 * n)%Z -> wrapT n x = wrap1 n x.
Proof.
  intros Hn Hx. unfold wrapT, wrap1.
  destruct (Z.ltb_spec x 0).
  - symmetry. apply Z.mod_unique with (q := (-1)%Z); lia.
  - destruct (Z.geb_spec x n).
    + symmetry. apply Z.mod_unique with (q := 1%Z); lia.
    + apply Z.mod_small; lia.
Qed.

Lemma wrap1_small n x : (0 <= x < n)%Z -> wrap1 n x = x.
Proof.
  intros H. unfold wrap1. destruct (Z.ltb_spec x 0); [lia|]. destruct (Z.geb_spec x n); [lia|reflexivity].
Qed.

(* sign with which a write enters  result = rhs - A x  (result is initialised with rhs by the caller) *)
Definition wsign (w : wkind) : R :=
  match w with W_result_WSub => 1 | W_result_WAdd => -1 | _ => 0 end.

Definition gen_bil (ws : list (@gwrite Rsc)) (y : Z -> Z -> R) : R :=
  fold_right (fun w acc => wsign (snd (fst w)) * snd w * y (fst (fst (fst w))) (snd (fst (fst w))) + acc)%R 0%R ws.

Section Tie.
  Variable nr nth : Z.
  Variable h k rad : Z -> R.
  Variable arr att art det : Z -> Z -> R.
  Variable beta : Z -> R.
  Variable dirbc : bool.
  Hypothesis Hnr : (4 <= nr)%Z.
  Hypothesis Hnth : (2 <= nth)%Z.

  Let R0 := rad 0%Z.

  Ltac wraps j Hj :=
    rewrite ?wrapT_idem;
    rewrite ?(wrapT_small nth j Hj);
    rewrite ?(wrapT_wrap1 nth (j - 1)) by lia;
    rewrite ?(wrapT_wrap1 nth (j + 1)) by lia;
    rewrite ?(wrapT_wrap1 nth (j + Z.quot nth 2)) by (pose proof (Z.quot_pos nth 2); pose proof (Z.quot_le_upper_bound nth 2 nth); nia).

  Lemma quot_bounds : (0 <= Z.quot nth 2 <= nth)%Z.
  Proof. split; [apply Z.quot_pos; lia|]. apply Z.quot_le_upper_bound; lia. Qed.

  Ltac wraps2 j Hj :=
    rewrite ?wrapT_idem;
    rewrite ?(wrapT_small nth j Hj);
    rewrite ?(wrapT_wrap1 nth (j - 1)) by lia;
    rewrite ?(wrapT_wrap1 nth (j + 1)) by lia;
    rewrite ?(wrapT_wrap1 nth (j + Z.quot nth 2)) by (pose proof quot_bounds; lia);
    rewrite ?(wrap1_small nth j Hj).

  Theorem gen_take_is_model : forall (rhs x : Z -> Z -> R) (i j : Z),
    (0 <= i < nr)%Z -> (0 <= j < nth)%Z ->
    @gen_resid_take Rsc nr nth h k rad arr att art det beta dirbc rhs x i j =
    [ (((i, j), W_result_WAssign),
       (rhs i j - @apply_row2 Rsc (@A_take_row Rsc nr nth h k R0 arr att art det beta dirbc i j) x)%R) ].
  Proof.
    intros rhs x i j Hi Hj.
    unfold gen_resid_take, A_take_row. cbv zeta.
    wraps2 j Hj.
    destruct (Z.ltb_spec 0 i); destruct (Z.ltb_spec i (nr - 1)); cbn [andb].
    - rewrite app_nil_r. f_equal. f_equal.
      unfold apply_row2, c1, c2, c3, c4, mass, kk, wt. cbn [fold_right fst snd]. wraps2 j Hj. rsc. ring.
    - destruct (Z.eqb_spec i 0); [lia|]. destruct (Z.eqb_spec i (nr - 1)); [|lia].
      rewrite app_nil_r. f_equal. f_equal.
      unfold apply_row2. cbn [fold_right fst snd]. rsc. ring.
    - destruct (Z.eqb_spec i 0); [|lia]. subst i. destruct dirbc.
      + rewrite !app_nil_r. f_equal. f_equal. unfold apply_row2. cbn [fold_right fst snd]. rsc. ring.
      + rewrite !app_nil_r. f_equal. f_equal.
        unfold apply_row2, c1, c2, c3, c4, mass, kk, across, wt, R0. cbn [fold_right fst snd]. wraps2 j Hj. rsc. ring.
    - lia.
  Qed.

  Theorem gen_give_is_model : forall (x y : Z -> Z -> R) (i j : Z),
    (0 <= i < nr)%Z -> (0 <= j < nth)%Z ->
    gen_bil (@gen_apply_a_give Rsc nr nth h k rad arr att art det beta dirbc x i j) y =
    @bil Rsc nr nth h k R0 arr att art det beta dirbc i j x y.
  Proof.
    intros x y i j Hi Hj.
    unfold gen_apply_a_give, bil, A_give. cbv zeta.
    wraps2 j Hj.
    destruct (Z.ltb_spec 1 i); destruct (Z.ltb_spec i (nr - 2)); cbn [andb].
    - unfold gen_bil, give_center, give_left, give_right, give_bottom, give_top, c1, c2, c3, c4, mass, kk, wt.
      cbn [app fold_right fst snd wsign]. wraps2 j Hj. rsc. ring.
    - destruct (Z.eqb_spec i 0); [lia|]. destruct (Z.eqb_spec i 1); [lia|].
      destruct (Z.eqb_spec i (nr - 2)).
      + unfold gen_bil, give_center, give_left, give_right, give_bottom, give_top, c1, c2, c3, c4, mass, kk, wt.
        cbn [app fold_right fst snd wsign]. wraps2 j Hj. rsc. ring.
      + destruct (Z.eqb_spec i (nr - 1)); [|lia].
        unfold gen_bil, give_center, give_left, give_right, give_bottom, give_top, c1, c2, c3, c4, mass, kk, wt.
        cbn [app fold_right fst snd wsign]. wraps2 j Hj. rsc. ring.
    - destruct (Z.eqb_spec i 0).
      + subst i. destruct dirbc.
        * unfold gen_bil, give_center, give_left, give_right, give_bottom, give_top, c1, c2, c3, c4, mass, kk, wt.
          cbn [app fold_right fst snd wsign]. wraps2 j Hj. rsc. ring.
        * unfold gen_bil, give_center, give_left, give_right, give_bottom, give_top, c1, c2, c3, c4, mass, kk, across, wt, R0.
          cbn [app fold_right fst snd wsign]. wraps2 j Hj. rsc. ring.
      + destruct (Z.eqb_spec i 1); [|lia]. subst i. destruct dirbc; cbn [negb].
        * unfold gen_bil, give_center, give_left, give_right, give_bottom, give_top, c1, c2, c3, c4, mass, kk, wt.
          cbn [app fold_right fst snd wsign]. wraps2 j Hj. rsc. ring.
        * unfold gen_bil, give_center, give_left, give_right, give_bottom, give_top, c1, c2, c3, c4, mass, kk, wt.
          cbn [app fold_right fst snd wsign]. wraps2 j Hj. rsc. ring.
    - lia.
  Qed.

  (* every write of the give macro is a `-=` into `result` (so  result = rhs - A x  after the caller's result := rhs) *)
  Theorem gen_give_writes_are_sub : forall (x : Z -> Z -> R) (i j : Z),
    Forall (fun w => snd (fst w) = W_result_WSub) (@gen_apply_a_give Rsc nr nth h k rad arr att art det beta dirbc x i j).
  Proof.
    intros x i j. unfold gen_apply_a_give. cbv zeta.
    repeat match goal with
    | |- context [if ?c then _ else _] => destruct c
    end; cbn [app]; repeat constructor.
  Qed.

  (* <A x, y> as the generated give kernel accumulates it over a list of nodes *)
  Definition gen_form (nodes : list (Z * Z)) (x y : Z -> Z -> R) : R :=
    @sum_nodes Rsc (fun i j => gen_bil (@gen_apply_a_give Rsc nr nth h k rad arr att art det beta dirbc x i j) y) nodes.

  Theorem gen_form_eq_form : forall nodes x y,
    (forall p, In p nodes -> (0 <= fst p < nr)%Z /\ (0 <= snd p < nth)%Z) ->
    gen_form nodes x y = @form Rsc nr nth h k R0 arr att art det beta dirbc nodes x y.
  Proof.
    intros nodes x y Hn. unfold gen_form, form.
    induction nodes as [|p nodes IH]; cbn [sum_nodes]; [reflexivity|].
    rewrite IH by (intros q Hq; apply Hn; right; exact Hq).
    destruct (Hn p (or_introl eq_refl)) as [Hi Hj].
    rewrite (gen_give_is_model x y (fst p) (snd p) Hi Hj). reflexivity.
  Qed.
End Tie.

(* ---- discretize_rhs_f (src/GMGPolar/build_rhs_f.cpp): the four loop nests as T3 regenerates them ---- *)
Section RhsTie.
  Variable nr nth : Z.
  Variable h k rad thetaf : Z -> R.
  Variable det : Z -> Z -> R.
  Variable dirbc : bool.
  Hypothesis Hnr : (4 <= nr)%Z.
  Hypothesis Hnth : (2 <= nth)%Z.

  (* cached geometry: each loop body multiplies rhs_f at its own node by the model's rhs_weight (the mass weight of row (i,j),
     StencilProofs2.rhs_weight_is_mass_weight), and by 1 on Dirichlet rows *)
  Ltac rhs_body j Hj :=
    cbv zeta; rewrite ?(wrapT_small nth j Hj); rewrite ?(wrapT_wrap1 nth (j - 1)) by lia;
    unfold rhs_weight, kk, wt; rewrite ?(wrap1_small nth j Hj).

  Lemma gen_rhs_body_cached (gen : (Z -> Z -> R) -> Z -> Z -> list (@gwrite Rsc)) :
    (gen = @gen_rhs_cached_circle Rsc nr nth h k rad thetaf det dirbc \/
     gen = @gen_rhs_cached_radial Rsc nr nth h k rad thetaf det dirbc) ->
    forall rhs_f i j, (0 <= i < nr)%Z -> (0 <= j < nth)%Z ->
    gen rhs_f i j = [ (((i, j), W_rhs_f_WMul), @rhs_weight Rsc nr nth h k (rad 0%Z) det dirbc i j) ].
  Proof.
    intros Hg rhs_f i j Hi Hj.
    destruct Hg as [-> | ->]; unfold gen_rhs_cached_circle, gen_rhs_cached_radial; rhs_body j Hj;
      (destruct (Z.ltb_spec 0 i); destruct (Z.ltb_spec i (nr - 1)); destruct (Z.eqb_spec i 0); destruct (Z.eqb_spec i (nr - 1));
       try lia; destruct dirbc; cbn [andb orb negb app]; try reflexivity; f_equal; f_equal; rsc; ring).
  Qed.

End RhsTie.

Section RhsTieUncached.
  Variable nr nth : Z.
  Variable h k rad thetaf sin_cache cos_cache : Z -> R.
  Variable dFx_dr dFy_dr dFx_dt dFy_dt : Z -> Z -> R.
  Variable dirbc : bool.
  Hypothesis Hnr : (4 <= nr)%Z.
  Hypothesis Hnth : (2 <= nth)%Z.

  Ltac rhs_body j Hj :=
    cbv zeta; rewrite ?(wrapT_small nth j Hj); rewrite ?(wrapT_wrap1 nth (j - 1)) by lia;
    unfold rhs_weight, kk, wt; rewrite ?(wrap1_small nth j Hj).

  (* uncached geometry: the same with det = Jrr Jtt - Jrt Jtr evaluated at the node itself *)
  Let detJ (i j : Z) : R := (dFx_dr i j * dFy_dt i j - dFx_dt i j * dFy_dr i j)%R.

  Lemma gen_rhs_body_uncached (gen : (Z -> Z -> R) -> Z -> Z -> list (@gwrite Rsc)) :
    (gen = @gen_rhs_uncached_circle Rsc nr nth h k rad thetaf sin_cache cos_cache dFx_dr dFy_dr dFx_dt dFy_dt dirbc \/
     gen = @gen_rhs_uncached_radial Rsc nr nth h k rad thetaf sin_cache cos_cache dFx_dr dFy_dr dFx_dt dFy_dt dirbc) ->
    forall rhs_f i j, (0 <= i < nr)%Z -> (0 <= j < nth)%Z ->
    gen rhs_f i j = [ (((i, j), W_rhs_f_WMul), @rhs_weight Rsc nr nth h k (rad 0%Z) detJ dirbc i j) ].
  Proof.
    intros Hg rhs_f i j Hi Hj.
    destruct Hg as [-> | ->]; unfold gen_rhs_uncached_circle, gen_rhs_uncached_radial, detJ; rhs_body j Hj;
      (destruct (Z.ltb_spec 0 i); destruct (Z.ltb_spec i (nr - 1)); destruct (Z.eqb_spec i 0); destruct (Z.eqb_spec i (nr - 1));
       try lia; destruct dirbc; cbn [andb orb negb app]; try reflexivity; f_equal; f_equal; rsc; ring).
  Qed.

End RhsTieUncached.

Section RhsLoops.
  Variable nr nth nsc : Z.

  (* the two loop nests of each variant visit every node of the grid exactly once *)
  Theorem gen_rhs_loops_partition : forall i j, (0 <= i < nr)%Z -> (0 <= j < nth)%Z ->
    xorb (gen_rhs_cached_circle_visits nth nsc i j) (gen_rhs_cached_radial_visits nr nth nsc i j) = true /\
    xorb (gen_rhs_uncached_circle_visits nth nsc i j) (gen_rhs_uncached_radial_visits nr nth nsc i j) = true.
  Proof.
    intros i j Hi Hj.
    unfold gen_rhs_cached_circle_visits, gen_rhs_cached_radial_visits, gen_rhs_uncached_circle_visits, gen_rhs_uncached_radial_visits.
    destruct (Z.leb_spec 0 i); destruct (Z.ltb_spec i nsc); destruct (Z.leb_spec 0 j); destruct (Z.ltb_spec j nth);
      destruct (Z.leb_spec nsc i); destruct (Z.ltb_spec i nr); cbn; try lia; auto.
  Qed.
  Hypothesis Hnsc : (0 <= nsc <= nr)%Z.
  Theorem gen_rhs_loops_in_grid : forall i j,
    (gen_rhs_cached_circle_visits nth nsc i j = true \/ gen_rhs_cached_radial_visits nr nth nsc i j = true \/
     gen_rhs_uncached_circle_visits nth nsc i j = true \/ gen_rhs_uncached_radial_visits nr nth nsc i j = true) ->
    (0 <= i < nr)%Z /\ (0 <= j < nth)%Z.
  Proof.
    intros i j.
    unfold gen_rhs_cached_circle_visits, gen_rhs_cached_radial_visits, gen_rhs_uncached_circle_visits, gen_rhs_uncached_radial_visits.
    rewrite !andb_true_iff, !Z.leb_le, !Z.ltb_lt. lia.
  Qed.
End RhsLoops.

(* the symmetry and semidefiniteness theorems of StencilProofs, restated for the generated give kernel *)
Theorem gen_form_symmetric :
  forall (nr nth : Z) (h k rad : Z -> R) (arr att art det : Z -> Z -> R) (beta : Z -> R) (dirbc : bool),
  (4 <= nr)%Z -> (2 <= nth)%Z ->
  forall (nodes : list (Z * Z)) (x y : Z -> Z -> R),
  (forall p : Z * Z, In p nodes -> (0 <= fst p < nr)%Z /\ (0 <= snd p < nth)%Z) ->
  vanishes_on_dirichlet nr dirbc x -> vanishes_on_dirichlet nr dirbc y ->
  gen_form nr nth h k rad arr att art det beta dirbc nodes x y = gen_form nr nth h k rad arr att art det beta dirbc nodes y x.
Proof.
  intros nr nth h k rad arr att art det beta dirbc Hnr Hnth nodes x y Hn Hx Hy.
  rewrite !gen_form_eq_form by assumption.
  apply form_symmetric; try assumption. intros p Hp; apply Hn; exact Hp.
Qed.

Theorem gen_form_nonneg :
  forall (nr nth : Z) (h k rad : Z -> R) (arr att art det : Z -> Z -> R) (beta : Z -> R) (dirbc : bool),
  (4 <= nr)%Z -> (2 <= nth)%Z ->
  (forall x : Z, 0 < h x)%R -> (forall x : Z, 0 < k x)%R -> (0 < rad 0%Z)%R ->
  (forall i j : Z, 0 < arr i j)%R -> (forall i j : Z, 0 < att i j)%R ->
  (forall i j : Z, art i j ^ 2 <= 4 * arr i j * att i j)%R -> (forall i : Z, 0 <= beta i)%R ->
  (dirbc = false -> forall j : Z, art 0%Z j = 0%R) ->
  forall (nodes : list (Z * Z)) (x : Z -> Z -> R),
  (forall p : Z * Z, In p nodes -> (0 <= fst p < nr)%Z /\ (0 <= snd p < nth)%Z) ->
  vanishes_on_dirichlet nr dirbc x -> (0 <= gen_form nr nth h k rad arr att art det beta dirbc nodes x x)%R.
Proof.
  intros nr nth h k rad arr att art det beta dirbc Hnr Hnth Hh Hk HR0 Harr Hatt Hdisc Hbeta Hart0 nodes x Hn Hx.
  rewrite gen_form_eq_form by assumption.
  apply form_nonneg; try assumption. intros p Hp; apply Hn; exact Hp.
Qed.

(* strict definiteness (StencilDefinite.form_positive_definite) for the generated give kernel *)
Theorem gen_form_positive_definite :
  forall (nr nth : Z) (h k rad : Z -> R) (arr att art det : Z -> Z -> R) (beta : Z -> R) (dirbc : bool),
  (4 <= nr)%Z -> (2 <= nth)%Z ->
  (forall x : Z, 0 < h x)%R -> (forall x : Z, 0 < k x)%R -> (0 < rad 0%Z)%R ->
  (forall i j : Z, 0 < arr i j)%R -> (forall i j : Z, 0 < att i j)%R ->
  (forall i j : Z, art i j ^ 2 < 4 * arr i j * att i j)%R -> (forall i : Z, 0 <= beta i)%R ->
  (dirbc = false -> forall j : Z, art 0%Z j = 0%R) ->
  forall (nodes : list (Z * Z)) (x : Z -> Z -> R),
  (forall p : Z * Z, In p nodes -> (0 <= fst p < nr)%Z /\ (0 <= snd p < nth)%Z) ->
  (forall i j, (0 <= i < nr)%Z -> (0 <= j < nth)%Z -> In (i, j) nodes) ->
  vanishes_on_dirichlet nr dirbc x ->
  (exists i j, (0 <= i < nr)%Z /\ (0 <= j < nth)%Z /\ x i j <> 0%R) ->
  (0 < gen_form nr nth h k rad arr att art det beta dirbc nodes x x)%R.
Proof.
  intros nr nth h k rad arr att art det beta dirbc Hnr Hnth Hh Hk HR0 Harr Hatt Hdisc Hbeta Hart0 nodes x Hn Hall Hx Hne.
  rewrite gen_form_eq_form by assumption.
  apply form_positive_definite; try assumption. intros p Hp; apply Hn; exact Hp.
Qed.

(* ---- direct solver (take): NODE_BUILD_SOLVER_MATRIX_TAKE with the slot tables of matrixStencil.cpp, as T3 regenerates them ---- *)
Section AssemblyTakeTie.
  Variable nr nth : Z.
  Variable h k rad : Z -> R.
  Variable arr att art det : Z -> Z -> R.
  Variable beta : Z -> R.
  Variable dirbc : bool.
  Hypothesis Hnr : (4 <= nr)%Z.
  Hypothesis Hnth : (2 <= nth)%Z.

  Notation asm := (@gen_build_solver_matrix_take Rsc nr nth h k rad arr att art det beta dirbc).
  Definition mw_row (w : @mwrite Rsc) : Z * Z := fst (fst (fst w)).
  Definition mw_slot (w : @mwrite Rsc) : Z := snd (fst (fst w)).
  Definition mw_col (w : @mwrite Rsc) : Z * Z := snd (fst w).
  Definition mw_val (w : @mwrite Rsc) : R := snd w.

  Lemma quot_bounds' : (0 <= Z.quot nth 2 <= nth)%Z.
  Proof. split; [apply Z.quot_pos; lia|]. apply Z.quot_le_upper_bound; lia. Qed.

  Ltac wraps3 j Hj :=
    rewrite ?wrapT_idem;
    rewrite ?(wrapT_small nth j Hj);
    rewrite ?(wrapT_wrap1 nth (j - 1)) by lia;
    rewrite ?(wrapT_wrap1 nth (j + 1)) by lia;
    rewrite ?(wrapT_wrap1 nth (j + Z.quot nth 2)) by (pose proof quot_bounds'; lia);
    rewrite ?(wrap1_small nth j Hj).

  Ltac classes i :=
    destruct (Z.ltb_spec 0 i); destruct (Z.ltb_spec i (nr - 1)); destruct (Z.ltb_spec 1 i); destruct (Z.ltb_spec i (nr - 2));
    destruct (Z.eqb_spec i 0); destruct (Z.eqb_spec i 1); destruct (Z.eqb_spec i (nr - 1)); destruct (Z.eqb_spec i (nr - 2));
    try lia; destruct dirbc; cbn [andb orb negb app].

  (* every entry the macro writes for node (i,j) goes into row (i,j); the (column, value) pairs are, in program order, the
     documented stencil row of the model *)
  Theorem gen_asm_take_is_model : forall i j, (0 <= i < nr)%Z -> (0 <= j < nth)%Z ->
    Forall (fun w => mw_row w = (i, j)) (asm i j) /\
    map (fun w => (mw_col w, mw_val w)) (asm i j) = @A_take_row Rsc nr nth h k (rad 0%Z) arr att art det beta dirbc i j.
  Proof.
    intros i j Hi Hj. unfold gen_build_solver_matrix_take, A_take_row. cbv zeta. wraps3 j Hj.
    classes i; (split; [repeat constructor|]);
      unfold mw_col, mw_val, c1, c2, c3, c4, mass, kk, across, wt; cbn [map fst snd]; wraps3 j Hj;
      repeat match goal with
             | |- cons _ _ = cons _ _ => apply f_equal2; [apply f_equal2; [reflexivity|rsc; ring]|]
             | |- nil = nil => reflexivity
             end.
  Qed.

  Fixpoint distinctb (l : list Z) : bool :=
    match l with [] => true | x :: r => negb (existsb (Z.eqb x) r) && distinctb r end.
  Lemma distinctb_NoDup l : distinctb l = true -> NoDup l.
  Proof.
    induction l as [|x r IH]; cbn [distinctb]; intros H; [constructor|].
    apply andb_true_iff in H. destruct H as [H1 H2]. constructor; [|apply IH; exact H2].
    intros Hin. apply negb_true_iff in H1. assert (existsb (Z.eqb x) r = true); [|congruence].
    apply existsb_exists. exists x. split; [exact Hin|apply Z.eqb_refl].
  Qed.

  (* the slots used within a row are pairwise distinct and lie inside the row's allocation (getStencilSize) *)
  Theorem gen_asm_take_slots : forall i j, (0 <= i < nr)%Z -> (0 <= j < nth)%Z ->
    NoDup (map mw_slot (asm i j)) /\
    Forall (fun w => (0 <= mw_slot w < @gen_take_get_stencil_size nr dirbc i)%Z) (asm i j) /\
    Z.of_nat (length (asm i j)) = @gen_take_get_stencil_size nr dirbc i.
  Proof.
    intros i j Hi Hj. unfold gen_build_solver_matrix_take, gen_take_get_stencil, gen_take_get_stencil_size. cbv zeta.
    classes i; unfold mw_slot; cbn [map fst snd stencil_slot List.nth gen_stencil_interior_ gen_stencil_across_origin_ gen_stencil_DB_
                                     gen_stencil_next_inner_DB_ gen_stencil_next_outer_DB_ length];
      (split; [apply distinctb_NoDup; reflexivity|split; [repeat (apply Forall_cons; [cbn [fst snd]; lia|]); apply Forall_nil|reflexivity]]).
  Qed.
End AssemblyTakeTie.

(* ---- direct solver (give): every entry NODE_BUILD_SOLVER_MATRIX_GIVE accumulates, as T3 regenerates it.  For all x, y the sum of
   value * x(column) * y(row) over the entries a node contributes is the bilinear form of that node's scatter block in the
   model -- the same block the give residual applies (gen_give_is_model) -- so the assembled matrix is the residual operator. ---- *)
Section AssemblyGiveTie.
  Variable nr nth : Z.
  Variable h k rad : Z -> R.
  Variable arr att art det : Z -> Z -> R.
  Variable beta : Z -> R.
  Variable dirbc : bool.
  Hypothesis Hnr : (4 <= nr)%Z.
  Hypothesis Hnth : (2 <= nth)%Z.

  Definition mw_bil (ws : list (@mwrite Rsc)) (x y : Z -> Z -> R) : R :=
    fold_right (fun w acc => mw_val w * x (fst (mw_col w)) (snd (mw_col w)) * y (fst (mw_row w)) (snd (mw_row w)) + acc)%R 0%R ws.

  Lemma quot_bounds'' : (0 <= Z.quot nth 2 <= nth)%Z.
  Proof. split; [apply Z.quot_pos; lia|]. apply Z.quot_le_upper_bound; lia. Qed.

  Ltac wraps4 j Hj :=
    rewrite ?wrapT_idem;
    rewrite ?(wrapT_small nth j Hj);
    rewrite ?(wrapT_wrap1 nth (j - 1)) by lia;
    rewrite ?(wrapT_wrap1 nth (j + 1)) by lia;
    rewrite ?(wrapT_wrap1 nth (j + Z.quot nth 2)) by (pose proof quot_bounds''; lia);
    rewrite ?(wrap1_small nth j Hj).

  Theorem gen_asm_give_is_model : forall (x y : Z -> Z -> R) (i j : Z), (0 <= i < nr)%Z -> (0 <= j < nth)%Z ->
    mw_bil (@gen_build_solver_matrix_give Rsc nr nth h k rad arr att art det beta dirbc i j) x y =
    @bil Rsc nr nth h k (rad 0%Z) arr att art det beta dirbc i j x y.
  Proof.
    intros x y i j Hi Hj.
    unfold gen_build_solver_matrix_give, bil, A_give. cbv zeta. wraps4 j Hj.
    destruct (Z.ltb_spec 1 i); destruct (Z.ltb_spec i (nr - 2)); destruct (Z.eqb_spec i 0); destruct (Z.eqb_spec i 1);
      destruct (Z.eqb_spec i (nr - 2)); destruct (Z.eqb_spec i (nr - 1)); try lia; subst; destruct dirbc; cbn [andb orb negb];
      unfold mw_bil, mw_val, mw_col, mw_row, give_center, give_left, give_right, give_bottom, give_top, c1, c2, c3, c4, mass, kk, across, wt;
      cbn [app fold_right fst snd]; wraps4 j Hj; rsc; ring.
  Qed.
End AssemblyGiveTie.
