(* StencilProofs2.v -- C03 / C02: Dirichlet rows, row sums, right-hand-side weights. *)
From Coq Require Import List ZArith Bool Reals Lra Lia.
From GMGP Require Import Scalar ScalarR InterpDefs InterpProofs StencilDefs.
Import ListNotations.
Local Open Scope Z_scope.

(* ================================================================== *)
(* rows: Dirichlet identity, zero row sums of the diffusion part, mass *)
(* ================================================================== *)
Section Rows.
  Local Open Scope R_scope.
  Variable nr nth : Z.
  Variable h k : Z -> R.
  Variable R0 : R.
  Variable arr att art det : Z -> Z -> R.
  Variable beta : Z -> R.
  Variable dirbc : bool.
  Hypothesis Hnr : (4 <= nr)%Z.

  Notation take := (@A_take_row Rsc nr nth h k R0 arr att art det beta dirbc).

  Theorem dirichlet_rows_identity j :
    take (nr - 1)%Z j = [(((nr - 1)%Z, j), 1)] /\ (dirbc = true -> take 0%Z j = [((0%Z, j), 1)]).
  Proof.
    split.
    - unfold A_take_row. zb; try lia. cbn [andb]. zb; try lia. reflexivity.
    - intros Hd. unfold A_take_row. cbn [Z.ltb Z.compare andb Z.eqb]. rewrite Hd. reflexivity.
  Qed.

  (* every non-Dirichlet row sums to its mass (reaction) weight: the diffusion part annihilates constants *)
  Theorem interior_row_sum i j : (0 < i < nr - 1)%Z ->
    @rowsum2 Rsc (take i j) = @mass Rsc nth h k det beta (h (i - 1)) i j.
  Proof.
    intros Hi. unfold A_take_row. zb; try lia. cbn [andb rowsum2 fold_right snd]. rsc. ring.
  Qed.
  (* across the origin the 7-point closure keeps only the mixed terms of the outer neighbours: the
     diffusion part annihilates constants iff art(0, j-1) = art(0, j+1) (observation F9) *)
  Theorem across_row_sum j : dirbc = false ->
    @rowsum2 Rsc (take 0%Z j) = @mass Rsc nth h k det beta (2 * R0) 0%Z j
                               + / 4 * (art 0%Z (wt nth (j - 1)) - art 0%Z (wt nth (j + 1))).
  Proof.
    intros Hd. unfold A_take_row. cbn [Z.ltb Z.compare andb Z.eqb]. rewrite Hd. cbn [rowsum2 fold_right snd]. rsc.
    replace ((1 + 1) * R0) with (2 * R0) by ring. field.
  Qed.

  (* the factor discretize_rhs_f multiplies f by is the weight of the beta*u term of the same row *)
  Theorem rhs_weight_is_mass_weight i j : (0 < i < nr - 1)%Z ->
    @rhs_weight Rsc nr nth h k R0 det dirbc i j * beta i = @mass Rsc nth h k det beta (h (i - 1)) i j.
  Proof.
    intros Hi. unfold rhs_weight, mass. zb; try lia. cbn [andb]. rsc. ring.
  Qed.
  Theorem rhs_weight_is_mass_weight_across j : dirbc = false ->
    @rhs_weight Rsc nr nth h k R0 det dirbc 0%Z j * beta 0%Z = @mass Rsc nth h k det beta (2 * R0) 0%Z j.
  Proof.
    intros Hd. unfold rhs_weight, mass. cbn [Z.ltb Z.compare andb Z.eqb]. rewrite Hd. cbn [negb]. rsc.
    replace ((1 + 1) * R0) with (2 * R0) by ring. ring.
  Qed.
  Theorem rhs_weight_dirichlet j :
    @rhs_weight Rsc nr nth h k R0 det dirbc (nr - 1)%Z j = 1 /\ (dirbc = true -> @rhs_weight Rsc nr nth h k R0 det dirbc 0%Z j = 1).
  Proof.
    split.
    - unfold rhs_weight. zb; try lia. cbn [andb]. reflexivity.
    - intros Hd. unfold rhs_weight. cbn [Z.ltb Z.compare andb Z.eqb]. rewrite Hd. reflexivity.
  Qed.

  (* Richardson algebra behind the 4/3, -1/3 combination *)
  Theorem richardson_algebra u c uh u2h dh d2h hh :
    uh = u + c * hh ^ 2 + dh -> u2h = u + 4 * c * hh ^ 2 + d2h ->
    (4 * uh - u2h) / 3 - u = (4 * dh - d2h) / 3.
  Proof. intros -> ->. field. Qed.
End Rows.

(* ================================================================== *)
(* index safety: every column of a take row is a node of the grid      *)
(* ================================================================== *)
Section InBounds.
  Local Open Scope R_scope.
  Variable nr nth : Z.
  Variable h k : Z -> R.
  Variable R0 : R.
  Variable arr att art det : Z -> Z -> R.
  Variable beta : Z -> R.
  Variable dirbc : bool.
  Variable Mc : Z.
  Hypothesis Hnr : (2 <= nr)%Z.
  Hypothesis HMc : (1 <= Mc)%Z.
  Hypothesis Hnth : nth = (2 * Mc)%Z.

  Lemma wt_in_range x : (- nth <= x < 2 * nth)%Z -> (0 <= wt nth x < nth)%Z.
  Proof. intros Hx. unfold wt, wrap1. rewrite Hnth in *. zb; lia. Qed.
  Lemma across_in_range j : (0 <= j < nth)%Z -> (0 <= across nth j < nth)%Z.
  Proof.
    intros Hj. unfold across. apply wt_in_range. rewrite Hnth in *.
    rewrite quot2_even by lia. lia.
  Qed.

  Theorem take_columns_in_grid i j q : (0 <= i < nr)%Z -> (0 <= j < nth)%Z ->
    In q (map fst (@A_take_row Rsc nr nth h k R0 arr att art det beta dirbc i j)) ->
    (0 <= fst q < nr)%Z /\ (0 <= snd q < nth)%Z.
  Proof.
    intros Hi Hj.
    pose proof (wt_in_range (j - 1) ltac:(lia)) as Rm. pose proof (wt_in_range (j + 1) ltac:(lia)) as Rp.
    pose proof (across_in_range j Hj) as Ra.
    unfold A_take_row. fold (wt nth (j - 1)) (wt nth (j + 1)).
    destruct ((0 <? i)%Z && (i <? nr - 1)%Z)%bool eqn:E.
    - apply andb_prop in E. destruct E as [E1 E2]. apply Z.ltb_lt in E1. apply Z.ltb_lt in E2.
      cbn [map fst In]. intros H. repeat (destruct H as [<-|H]; [cbn [fst snd]; lia|]). contradiction.
    - destruct (i =? 0)%Z eqn:E0.
      + apply Z.eqb_eq in E0. subst i. destruct dirbc.
        * cbn [map fst In]. intros [<-|[]]. cbn [fst snd]. lia.
        * cbn [map fst In]. intros H. repeat (destruct H as [<-|H]; [cbn [fst snd]; lia|]). contradiction.
      + cbn [map fst In]. intros [<-|[]]. cbn [fst snd]. lia.
  Qed.
End InBounds.
