(* Options.v -- decision logic of option validation and definedness of the reported statistics (C20). *)
From Coq Require Import ZArith List Bool String.
Import ListNotations.
Local Open Scope Z_scope.

Definition zin (v : Z) (l : list Z) : bool := existsb (Z.eqb v) l.
(* row = (option, enumerators, values accepted by parse*(), values allowed by cmdline::oneof) *)
Definition row_ok (row : string * list Z * list Z * list Z) : bool :=
  let '(_, enum, accept, oneof) := row in
  forallb (fun v => zin v enum) accept          (* whatever is accepted is an enumerator *)
  && forallb (fun v => zin v accept) enum       (* every enumerator is selectable *)
  && forallb (fun v => zin v accept) oneof.     (* the command line lets through only accepted values *)

(* what the mean-reduction-factor computation reads after the loop: the two locals are assigned only
   inside the tolerance branch; None = indeterminate value *)
Section Stats.
  Variable X : Type.
  Variable zero : X.
  Definition factor_inputs (locals_initialised tol : bool) (norms : list X) : option (X * X) :=
    match tol, norms with
    | true, n0 :: rest => Some (n0, last rest n0)
    | _, _ => if locals_initialised then Some (zero, zero) else None
    end.
  (* exactError*(): back() of the error history; None = undefined behaviour (empty vector) *)
  Definition last_error (guarded : bool) (errors : list X) : option (option X) :=
    match errors with
    | [] => if guarded then Some None else None
    | e :: rest => Some (Some (last rest e))
    end.
End Stats.
