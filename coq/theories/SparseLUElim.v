(* SparseLUElim.v -- C16: one elimination step of the hash-map LU IS the dense row operation
       w_j := m,   w_k := w_k - m * U_jk  (k > j),   m = w_j / U_jj
   whatever the storage order of the rows and whichever entries are stored (fill-in is created on demand).  The first
   part is law-free (no property of the arithmetic is used, so it holds for IEEE doubles); the dense reading over the
   reals follows. *)
From Coq Require Import List ZArith Bool Lia Reals Lra.
From GMGP Require Import Scalar ScalarR SparseLUDefs SparseLUProofs.
Import ListNotations.

Section Elim.
  Context {S : Sc}.
  Local Open Scope sc_scope.

  Definition upd_fun (j : Z) (m : S) :=
    fun (r' : @row S) (e : Z * S) => if Z.ltb j (fst e) then set_entry (fst e) (get0 (fst e) r' - m * snd e) r' else r'.

  Lemma lookup_notin k (r : @row S) : ~ In k (map fst r) -> lookup k r = None.
  Proof.
    induction r as [|[a v] r IH]; intros H; cbn [lookup]; [reflexivity|].
    cbn [map fst] in H. destruct (Z.eqb a k) eqn:E.
    - apply Z.eqb_eq in E. subst a. exfalso. apply H. left. reflexivity.
    - apply IH. intros Hin. apply H. right. exact Hin.
  Qed.

  (* the update loop over the entries of the U row *)
  Lemma elim_fold j (m : S) : forall (Uj r1 : @row S), NoDup (map fst Uj) ->
    forall k, get0 k (fold_left (upd_fun j m) Uj r1) =
              match lookup k Uj with
              | Some u => if Z.ltb j k then get0 k r1 - m * u else get0 k r1
              | None => get0 k r1
              end.
  Proof.
    induction Uj as [|[a u] Uj IH]; intros r1 Hnd k; cbn [fold_left lookup]; [reflexivity|].
    cbn [map fst] in Hnd. inversion Hnd as [|? ? Hni Hnd']; subst.
    rewrite (IH _ Hnd'). unfold upd_fun at 1 2 3. cbn [fst snd].
    destruct (Z.eqb a k) eqn:E.
    - apply Z.eqb_eq in E. subst a. rewrite (lookup_notin k Uj Hni).
      destruct (Z.ltb j k); [apply get0_set_same|reflexivity].
    - apply Z.eqb_neq in E.
      assert (Hk : get0 k (if Z.ltb j a then set_entry a (get0 a r1 - m * u) r1 else r1) = get0 k r1).
      { destruct (Z.ltb j a); [apply get0_set_other; exact E|reflexivity]. }
      destruct (lookup k Uj) as [u'|]; [|exact Hk].
      destruct (Z.ltb j k); rewrite Hk; reflexivity.
  Qed.

  (* one elimination step, entry by entry (law-free) *)
  Theorem elim_step_entries j (Uj r : @row S) : NoDup (map fst Uj) ->
    forall k, get0 k (elim_step j Uj r) =
      match lookup j r with
      | None => get0 k r
      | Some a =>
          let m := a / get0 j Uj in
          if Z.eqb k j then m
          else match lookup k Uj with
               | Some u => if Z.ltb j k then get0 k r - m * u else get0 k r
               | None => get0 k r
               end
      end.
  Proof.
    intros Hnd k. unfold elim_step. destruct (lookup j r) as [a|] eqn:El; [|reflexivity].
    cbv zeta. fold (upd_fun j (a / get0 j Uj)). rewrite (elim_fold j _ Uj _ Hnd k).
    destruct (Z.eqb k j) eqn:E.
    - apply Z.eqb_eq in E. subst k. rewrite Z.ltb_irrefl. rewrite get0_set_same.
      destruct (lookup j Uj); reflexivity.
    - apply Z.eqb_neq in E. rewrite get0_set_other by (intro; apply E; symmetry; assumption). reflexivity.
  Qed.

  (* the keys of a row stay unique through an elimination step *)
  Lemma fold_upd_nodup j (m : S) : forall (Uj r1 : @row S), NoDup (map fst r1) -> NoDup (map fst (fold_left (upd_fun j m) Uj r1)).
  Proof.
    induction Uj as [|[a u] Uj IH]; intros r1 H; cbn [fold_left]; [exact H|].
    apply IH. unfold upd_fun. cbn [fst snd]. destruct (Z.ltb j a); [apply set_entry_keys; exact H|exact H].
  Qed.

  Theorem elim_step_nodup j (Uj r : @row S) : NoDup (map fst r) -> NoDup (map fst (elim_step j Uj r)).
  Proof.
    intros H. unfold elim_step. destruct (lookup j r) as [a|]; [|exact H].
    cbv zeta. fold (upd_fun j (a / get0 j Uj)). apply fold_upd_nodup. apply set_entry_keys. exact H.
  Qed.
End Elim.

(* ---- dense reading over the reals ---- *)
Local Open Scope R_scope.

Lemma get0_lookup_R k (r : @row Rsc) : @get0 Rsc k r = match lookup k r with Some v => v | None => 0 end.
Proof. reflexivity. Qed.

Theorem elim_step_dense j (Uj r : @row Rsc) : NoDup (map fst Uj) ->
  forall k, @get0 Rsc k (elim_step j Uj r) =
    let m := @get0 Rsc j r / @get0 Rsc j Uj in
    if Z.eqb k j then (match lookup j r with Some _ => m | None => 0 end)
    else if Z.ltb j k then @get0 Rsc k r - m * @get0 Rsc k Uj else @get0 Rsc k r.
Proof.
  intros Hnd k. rewrite (elim_step_entries j Uj r Hnd k). cbv zeta.
  assert (Hu : @get0 Rsc k Uj = match lookup k Uj with Some u => u | None => 0 end) by reflexivity.
  destruct (lookup j r) as [a|] eqn:El.
  - assert (Ha : @get0 Rsc j r = a) by (unfold get0; rewrite El; reflexivity). rewrite Ha.
    destruct (Z.eqb k j); [reflexivity|]. rewrite Hu.
    destruct (lookup k Uj) as [u|]; destruct (Z.ltb j k); cbn [ssub smul sdiv s0 Rsc]; try reflexivity; rsc; generalize (@get0 Rsc k r) (@get0 Rsc j Uj); intros x y; change (T Rsc) with R in *; ring.
  - assert (Ha : @get0 Rsc j r = 0) by (unfold get0; rewrite El; reflexivity). rewrite Ha.
    destruct (Z.eqb k j) eqn:E; [apply Z.eqb_eq in E; subst k; exact Ha|].
    destruct (Z.ltb j k); [|reflexivity]. rsc. generalize (@get0 Rsc k r) (@get0 Rsc j Uj) (@get0 Rsc k Uj). intros x y z. change (T Rsc) with R in *. unfold Rdiv. ring.
Qed.

(* entries as real numbers (the carrier of Rsc IS R; this fixes the type for ring / field / lra) *)
Definition g0 (k : Z) (r : @row Rsc) : R := @get0 Rsc k r.

Lemma g0_elim_step j (Uj r : @row Rsc) : NoDup (map fst Uj) ->
  forall k, g0 k (elim_step j Uj r) =
    if Z.eqb k j then g0 j r / g0 j Uj
    else if Z.ltb j k then g0 k r - g0 j r / g0 j Uj * g0 k Uj else g0 k r.
Proof.
  intros Hnd k. unfold g0. rewrite (elim_step_dense j Uj r Hnd k). cbv zeta.
  destruct (Z.eqb k j) eqn:E; [|reflexivity].
  destruct (lookup j r) as [a|] eqn:El; [reflexivity|].
  assert (Ha : @get0 Rsc j r = 0) by (unfold get0; rewrite El; reflexivity). rewrite Ha. unfold Rdiv. ring.
Qed.

(* ---- eliminating with the finished U rows j, j+1, ...: the row of A is the combination of the U rows plus the remainder ---- *)
Fixpoint lu_sum (ms : list R) (Us : list (@row Rsc)) (k : Z) : R :=
  match ms, Us with
  | m :: ms', U :: Us' => m * g0 k U + lu_sum ms' Us' k
  | _, _ => 0
  end.

(* U rows as the factorisation produces them: unique keys, nothing left of the diagonal, non-zero pivot *)
Fixpoint U_ok (j : Z) (Us : list (@row Rsc)) : Prop :=
  match Us with
  | [] => True
  | U :: Us' => NoDup (map fst U) /\ (forall k, (k < j)%Z -> g0 k U = 0) /\ g0 j U <> 0 /\ U_ok (j + 1) Us'
  end.

Lemma U_ok_below : forall Us j k, U_ok j Us -> (k < j)%Z -> forall ms, lu_sum ms Us k = 0.
Proof.
  induction Us as [|U Us IH]; intros j k H Hk ms; destruct ms as [|m ms]; cbn [lu_sum]; try reflexivity.
  destruct H as [_ [Hz [_ Hr]]]. rewrite (Hz k Hk). rewrite (IH (j + 1)%Z k Hr ltac:(lia) ms). ring.
Qed.

Lemma elim_step_pivot j (Uj r : @row Rsc) : NoDup (map fst Uj) ->
  g0 j (elim_step j Uj r) = g0 j r / g0 j Uj.
Proof. intros Hnd. rewrite (g0_elim_step j Uj r Hnd j). rewrite Z.eqb_refl. reflexivity. Qed.

Theorem elim_all_dense : forall (Us : list (@row Rsc)) (j : Z) (r : @row Rsc), U_ok j Us ->
  exists ms : list R, length ms = length Us /\
    (* the multipliers are what ends up in the columns j .. j+len-1 (the L part of the row) *)
    (forall t, (t < length Us)%nat -> g0 (j + Z.of_nat t) (elim_all j Us r) = nth t ms 0) /\
    (* columns left of j are not touched *)
    (forall k, (k < j)%Z -> g0 k (elim_all j Us r) = g0 k r) /\
    (* the original row is the combination of the U rows plus what remains to the right *)
    (forall k, (j <= k)%Z ->
       g0 k r = lu_sum ms Us k + (if Z.leb (j + Z.of_nat (length Us)) k then g0 k (elim_all j Us r) else 0)).
Proof.
  induction Us as [|U Us IH]; intros j r H.
  - exists []. cbn [length elim_all lu_sum]. repeat split; try (intros; lia); try reflexivity.
    intros k Hk. replace (j + Z.of_nat 0)%Z with j by lia. destruct (Z.leb_spec j k); [ring|lia].
  - destruct H as [Hnd [Hz [Hp Hr]]]. cbn [elim_all].
    set (w1 := elim_step j U r).
    destruct (IH (j + 1)%Z w1 Hr) as [ms [Hl [Hm [Hlow Hsum]]]].
    set (m := g0 j r / g0 j U).
    exists (m :: ms). cbn [length]. split; [f_equal; exact Hl|]. split; [|split].
    + intros t Ht. destruct t as [|t].
      * cbn [nth]. replace (j + Z.of_nat 0)%Z with j by lia. rewrite Hlow by lia. unfold w1. apply elim_step_pivot. exact Hnd.
      * cbn [nth]. replace (j + Z.of_nat (S t))%Z with (j + 1 + Z.of_nat t)%Z by lia. apply Hm. lia.
    + intros k Hk. rewrite Hlow by lia. unfold w1. rewrite (g0_elim_step j U r Hnd k).
      destruct (Z.eqb_spec k j); [lia|]. destruct (Z.ltb_spec j k); [lia|reflexivity].
    + intros k Hk. cbn [lu_sum]. fold m.
      replace (j + Z.of_nat (S (length Us)))%Z with (j + 1 + Z.of_nat (length Us))%Z by lia.
      destruct (Z.eq_dec k j) as [->|Hne].
      * (* the pivot column: r_j = m * U_jj, later U rows have nothing there, and j is left of the remainder *)
        rewrite (U_ok_below Us (j + 1)%Z j Hr ltac:(lia) ms).
        destruct (Z.leb_spec (j + 1 + Z.of_nat (length Us)) j); [lia|].
        unfold m. field. exact Hp.
      * assert (Hjk : (j + 1 <= k)%Z) by lia.
        pose proof (Hsum k Hjk) as Hs. unfold w1 in Hs. rewrite (g0_elim_step j U r Hnd k) in Hs.
        destruct (Z.eqb_spec k j) as [|_]; [lia|]. destruct (Z.ltb_spec j k) as [_|]; [|lia].
        fold m in Hs. fold w1 in Hs |- *. lra.
Qed.

(* ---- the whole factorisation: A = (I + L) U, row by row ---- *)
Lemma lookup_filter_key (f : Z -> bool) k : forall r : @row Rsc,
  lookup k (filter (fun e => f (fst e)) r) = if f k then lookup k r else None.
Proof.
  induction r as [|[a v] r IH]; cbn [filter lookup fst]; [destruct (f k); reflexivity|].
  destruct (f a) eqn:Ea; cbn [lookup]; destruct (Z.eqb a k) eqn:E.
  - apply Z.eqb_eq in E. subst a. rewrite Ea. reflexivity.
  - exact IH.
  - apply Z.eqb_eq in E. subst a. rewrite Ea in IH |- *. exact IH.
  - exact IH.
Qed.

Lemma g0_split_L i k (w : @row Rsc) : g0 k (split_L i w) = if Z.ltb k i then g0 k w else 0.
Proof. unfold g0, get0, split_L. rewrite (lookup_filter_key (fun c => Z.ltb c i)). destruct (Z.ltb k i); reflexivity. Qed.
Lemma g0_split_U i k (w : @row Rsc) : g0 k (split_U i w) = if Z.ltb k i then 0 else g0 k w.
Proof. unfold g0, get0, split_U. rewrite (lookup_filter_key (fun c => negb (Z.ltb c i))). destruct (Z.ltb k i); reflexivity. Qed.

Lemma filter_nodup_keys (p : Z * R -> bool) : forall r : @row Rsc, NoDup (map fst r) -> NoDup (map fst (filter p r)).
Proof.
  induction r as [|e r IH]; intros H; cbn [filter map]; [constructor|].
  inversion H as [|? ? Hni Hnd]; subst. destruct (p e); cbn [map]; [|apply IH; exact Hnd].
  constructor; [|apply IH; exact Hnd]. intros Hin. apply Hni. clear -Hin.
  induction r as [|e' r IHr]; cbn [filter map] in *; [contradiction|]. destruct (p e'); cbn [map In] in *; intuition.
Qed.

Lemma load_nodup (es : list (Z * R)) : NoDup (map fst (@load Rsc es)).
Proof.
  unfold load.
  cut (forall r : @row Rsc, NoDup (map fst r) ->
         NoDup (map fst (fold_left (fun (r : @row Rsc) (e : Z * T Rsc) => @set_entry Rsc (fst e) (snd e) r) es r))).
  { intros G. apply G. constructor. }
  induction es as [|e es IH]; intros r H; cbn [fold_left]; [exact H|]. apply IH. apply set_entry_keys. exact H.
Qed.

Lemma elim_all_nodup : forall (Us : list (@row Rsc)) j (r : @row Rsc), NoDup (map fst r) -> NoDup (map fst (elim_all j Us r)).
Proof. induction Us as [|U Us IH]; intros j r H; cbn [elim_all]; [exact H|]. apply IH. apply elim_step_nodup. exact H. Qed.

Lemma U_ok_app : forall Us j (U : @row Rsc), U_ok j Us ->
  NoDup (map fst U) -> (forall k, (k < j + Z.of_nat (length Us))%Z -> g0 k U = 0) -> g0 (j + Z.of_nat (length Us)) U <> 0 ->
  U_ok j (Us ++ [U]).
Proof.
  induction Us as [|V Us IH]; intros j U H Hnd Hz Hp; cbn [app U_ok length] in *.
  - replace (j + Z.of_nat 0)%Z with j in * by lia. repeat split; auto.
  - destruct H as [H1 [H2 [H3 H4]]]. repeat split; auto. apply IH; auto.
    + intros k Hk. apply Hz. lia.
    + replace (j + 1 + Z.of_nat (length Us))%Z with (j + Z.of_nat (S (length Us)))%Z by lia. exact Hp.
Qed.

(* the "non-vanishing pivots" premise of C16, on the algorithm's own intermediate values *)
Fixpoint pivots_nonzero (i : Z) (rows : list (list (Z * R))) (Us : list (@row Rsc)) : Prop :=
  match rows with
  | [] => True
  | a :: rest => let w := elim_all 0 Us (@load Rsc a) in
                 g0 i w <> 0 /\ pivots_nonzero (i + 1) rest (Us ++ [split_U i w])
  end.

(* row i of A = sum_{t<i} L_it * (row t of U) + (row i of U) *)
Definition row_identity (a : list (Z * R)) (Li Ui : @row Rsc) (Us_before : list (@row Rsc)) : Prop :=
  forall k, (0 <= k)%Z ->
    g0 k (@load Rsc a) = lu_sum (map (fun t => g0 (Z.of_nat t) Li) (seq 0 (length Us_before))) Us_before k + g0 k Ui.

Theorem factor_rows_identity : forall rows i (Ls Us : list (@row Rsc)),
  i = Z.of_nat (length Us) -> length Ls = length Us -> U_ok 0 Us -> pivots_nonzero i rows Us ->
  exists Ls' Us', @factor_rows Rsc i rows Ls Us = (Ls ++ Ls', Us ++ Us') /\ length Ls' = length rows /\ length Us' = length rows /\
    U_ok 0 (Us ++ Us') /\
    forall n a, nth_error rows n = Some a ->
      exists Li Ui, nth_error Ls' n = Some Li /\ nth_error Us' n = Some Ui /\
                    row_identity a Li Ui (Us ++ firstn n Us').
Proof.
  induction rows as [|a rest IH]; intros i Ls Us Hi Hl Hok Hp.
  - exists [], []. cbn [factor_rows length]. rewrite !app_nil_r. repeat split; auto. intros n b Hn. destruct n; discriminate.
  - cbn [factor_rows pivots_nonzero] in *. destruct Hp as [Hpiv Hrest].
    set (w := elim_all 0 Us (@load Rsc a)) in *.
    assert (Hwnd : NoDup (map fst w)) by (apply elim_all_nodup, load_nodup).
    assert (HokU : U_ok 0 (Us ++ [split_U i w])).
    { apply U_ok_app; auto.
      - apply filter_nodup_keys. exact Hwnd.
      - intros k Hk. rewrite g0_split_U. destruct (Z.ltb_spec k i); [reflexivity|lia].
      - rewrite g0_split_U. replace (0 + Z.of_nat (length Us))%Z with i by lia. rewrite Z.ltb_irrefl. exact Hpiv. }
    destruct (IH (i + 1)%Z (Ls ++ [split_L i w]) (Us ++ [split_U i w])) as [Ls' [Us' [E [L1 [L2 [Hok' Hrows]]]]]].
    + rewrite app_length. cbn [length]. lia.
    + rewrite !app_length. cbn [length]. lia.
    + exact HokU.
    + exact Hrest.
    + exists (split_L i w :: Ls'), (split_U i w :: Us'). rewrite E. rewrite <- !app_assoc. cbn [app length].
      repeat split; auto.
      * rewrite <- app_assoc in Hok'. exact Hok'.
      * intros n b Hn. destruct n as [|n].
        -- cbn [nth_error] in Hn. injection Hn as <-. exists (split_L i w), (split_U i w). repeat split; try reflexivity.
           cbn [firstn]. rewrite app_nil_r. intros k Hk.
           destruct (elim_all_dense Us 0%Z (@load Rsc a) Hok) as [ms [Hlm [Hm [_ Hsum]]]]. fold w in Hm, Hsum.
           rewrite (Hsum k Hk). replace (0 + Z.of_nat (length Us))%Z with i by lia.
           rewrite g0_split_U. f_equal.
           ++ (* the multipliers are the L part of w *)
              f_equal. apply (nth_ext _ _ 0 0); [transitivity (length Us); [exact Hlm|symmetry; etransitivity; [apply map_length|apply seq_length]]|].
              intros t Ht. assert (Ht' : (t < length Us)%nat) by (rewrite <- Hlm; exact Ht). clear Ht. rename Ht' into Ht.
              rewrite (nth_indep (map (fun t0 : nat => g0 (Z.of_nat t0) (split_L i w)) (seq 0 (length Us))) 0 (g0 (Z.of_nat 0) (split_L i w))) by (eapply Nat.lt_le_trans; [exact Ht|]; apply Nat.eq_le_incl; symmetry; etransitivity; [apply map_length|apply seq_length]).
              rewrite (map_nth (fun t => g0 (Z.of_nat t) (split_L i w)) (seq 0 (length Us)) 0%nat t). rewrite seq_nth by exact Ht.
              cbn [Nat.add]. rewrite g0_split_L. destruct (Z.ltb_spec (Z.of_nat t) i); [|lia].
              rewrite <- (Hm t Ht). reflexivity.
           ++ destruct (Z.leb_spec i k); destruct (Z.ltb_spec k i); try lia; reflexivity.
        -- cbn [nth_error] in Hn. destruct (Hrows n b Hn) as [Li [Ui [E1 [E2 Hid]]]].
           exists Li, Ui. repeat split; auto. cbn [firstn]. rewrite <- app_assoc in Hid. exact Hid.
Qed.

(* the factorisation the solver stores satisfies A = (I + L) U, for every matrix size and every storage order of the rows *)
Theorem lu_factor_identity (rows : list (list (Z * R))) : pivots_nonzero 0 rows [] ->
  exists Ls Us, @lu_factor Rsc rows = (Ls, Us) /\ length Ls = length rows /\ length Us = length rows /\ U_ok 0 Us /\
    forall n a, nth_error rows n = Some a ->
      exists Li Ui, nth_error Ls n = Some Li /\ nth_error Us n = Some Ui /\ row_identity a Li Ui (firstn n Us).
Proof.
  intros Hp. unfold lu_factor.
  destruct (factor_rows_identity rows 0%Z [] [] eq_refl eq_refl I Hp) as [Ls [Us [E [L1 [L2 [Hok Hrows]]]]]].
  exists Ls, Us. cbn [app] in *. repeat split; auto.
Qed.
