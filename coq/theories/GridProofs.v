(* GridProofs.v -- C17: the generated index functions equal the specification, and the
   specification is a bijection consistent with periodicity, the split and coarsening. *)
From Coq Require Import ZArith Bool List Lia.
From GMGP Require Import GridDefs.
From GMGPGen Require Import GridIndexGen.
Import ListNotations.
Local Open Scope Z_scope.

(* ------------------------------------------------------------------ *)
(* power-of-two flag                                                   *)
(* ------------------------------------------------------------------ *)

Lemma pow2flag_complete (k : Z) : 0 <= k -> gen_pow2flag (2 ^ k) = true.
Proof.
  intros Hk. unfold gen_pow2flag. apply Z.eqb_eq.
  replace (2 ^ k - 1) with (Z.ones k) by (rewrite Z.ones_equiv; lia).
  rewrite Z.land_ones by lia. apply Z.mod_same. apply Z.pow_nonzero; lia.
Qed.

Lemma pow2flag_sound (n : Z) : 1 <= n -> gen_pow2flag n = true -> exists k, 0 <= k /\ n = 2 ^ k.
Proof.
  intros Hn Hf. unfold gen_pow2flag in Hf. apply Z.eqb_eq in Hf.
  exists (Z.log2 n). split; [apply Z.log2_nonneg|].
  destruct (Z.log2_spec n ltac:(lia)) as [Hlo Hhi].
  destruct (Z.eq_dec n (2 ^ Z.log2 n)) as [|Hne]; [assumption|exfalso].
  assert (Hn1 : 0 < n - 1) by (pose proof (Z.pow_pos_nonneg 2 (Z.log2 n) ltac:(lia) (Z.log2_nonneg n)); lia).
  assert (Hl : Z.log2 (n - 1) = Z.log2 n).
  { apply Z.log2_unique; [apply Z.log2_nonneg|]. lia. }
  assert (Hb1 : Z.testbit n (Z.log2 n) = true) by (apply Z.bit_log2; lia).
  assert (Hb2 : Z.testbit (n - 1) (Z.log2 n) = true) by (rewrite <- Hl; apply Z.bit_log2; lia).
  assert (Hb : Z.testbit (Z.land n (n - 1)) (Z.log2 n) = true) by (rewrite Z.land_spec, Hb1, Hb2; reflexivity).
  rewrite Hf, Z.bits_0 in Hb. discriminate.
Qed.

(* ------------------------------------------------------------------ *)
(* wrapThetaIndex                                                      *)
(* ------------------------------------------------------------------ *)

Lemma wrap_mask (x k : Z) : 0 <= k -> Z.land x (2 ^ k - 1) = x mod 2 ^ k.
Proof.
  intros Hk. replace (2 ^ k - 1) with (Z.ones k) by (rewrite Z.ones_equiv; lia).
  apply Z.land_ones; assumption.
Qed.

Lemma wrap_rem (x n : Z) : 0 < n -> Z.rem (Z.rem x n + n) n = x mod n.
Proof.
  intros Hn.
  assert (Hr := Z.rem_bound_abs x n ltac:(lia)).
  assert (Hq := Z.quot_rem' x n).
  assert (Hnn : 0 <= Z.rem x n + n) by lia.
  rewrite Z.rem_mod_nonneg by lia.
  replace (Z.rem x n + n) with (x + (1 - Z.quot x n) * n) by lia.
  apply Z.mod_add; lia.
Qed.

Theorem gen_wrap_spec (g : grid) (x : Z) : wf g -> gen_wrap g x = spec_wrap g x.
Proof.
  intros W. unfold gen_wrap, spec_wrap. destruct (pow2 g) eqn:Hp.
  - destruct (wf_pow2 g W Hp) as [k [Hk Hn]]. rewrite Hn. apply wrap_mask; assumption.
  - apply wrap_rem. pose proof (wf_nth g W). lia.
Qed.

Theorem wrap_range (g : grid) (x : Z) : wf g -> 0 <= spec_wrap g x < ntheta g.
Proof. intros W. unfold spec_wrap. apply Z.mod_pos_bound. pose proof (wf_nth g W). lia. Qed.

Theorem wrap_periodic (g : grid) (x m : Z) : wf g -> spec_wrap g (x + m * ntheta g) = spec_wrap g x.
Proof. intros W. unfold spec_wrap. apply Z.mod_add. pose proof (wf_nth g W). lia. Qed.

Theorem wrap_id (g : grid) (x : Z) : wf g -> 0 <= x < ntheta g -> spec_wrap g x = x.
Proof. intros W H. unfold spec_wrap. apply Z.mod_small. assumption. Qed.

(* ------------------------------------------------------------------ *)
(* index / fastIndex / multiIndex : generated = specification          *)
(* ------------------------------------------------------------------ *)

Theorem gen_index_spec (g : grid) (i j : Z) : wf g -> gen_index g i j = spec_index g i j.
Proof.
  intros W. unfold gen_index, spec_index. rewrite (gen_wrap_spec g j W). unfold spec_wrap.
  rewrite (wf_ncn g W), (wf_lenr g W). destruct (i <? nsc g); lia.
Qed.

Theorem gen_fast_index_spec (g : grid) (i j : Z) :
  wf g -> 0 <= j < ntheta g -> gen_fast_index g i j = gen_index g i j.
Proof.
  intros W Hj. rewrite gen_index_spec by assumption. unfold gen_fast_index, spec_index.
  rewrite (Z.mod_small j (ntheta g)) by assumption.
  rewrite (wf_ncn g W), (wf_lenr g W). destruct (i <? nsc g); lia.
Qed.

Lemma quot_div_nonneg a b : 0 <= a -> 0 < b -> Z.quot a b = a / b.
Proof. intros. apply Z.quot_div_nonneg; lia. Qed.
Lemma rem_mod_nonneg' a b : 0 <= a -> 0 < b -> Z.rem a b = a mod b.
Proof. intros. apply Z.rem_mod_nonneg; lia. Qed.

Theorem gen_multi_spec (g : grid) (k : Z) :
  wf g -> 0 <= k < nnodes g -> (gen_multi_r g k, gen_multi_t g k) = spec_multi g k.
Proof.
  intros W Hk. unfold gen_multi_r, gen_multi_t, spec_multi, nnodes in *.
  pose proof (wf_nth g W) as Hn. pose proof (wf_nsc g W) as Hs. pose proof (wf_nr g W) as Hr.
  rewrite (wf_ncn g W), (wf_lenr g W).
  destruct (k <? nsc g * ntheta g) eqn:Hc.
  - rewrite quot_div_nonneg by lia. f_equal.
    destruct (pow2 g) eqn:Hp.
    + destruct (wf_pow2 g W Hp) as [e [He Hne]]. rewrite Hne. apply wrap_mask; assumption.
    + apply rem_mod_nonneg'; lia.
  - apply Z.ltb_ge in Hc.
    assert (Hl : 0 < nr g - nsc g) by nia.
    rewrite quot_div_nonneg, rem_mod_nonneg' by lia. reflexivity.
Qed.

(* ------------------------------------------------------------------ *)
(* the specification is a bijection onto 0 .. N-1                      *)
(* ------------------------------------------------------------------ *)

Theorem index_range (g : grid) (i j : Z) :
  wf g -> 0 <= i < nr g -> 0 <= spec_index g i j < nnodes g.
Proof.
  intros W Hi. unfold spec_index, nnodes.
  pose proof (wf_nth g W) as Hn. pose proof (wf_nsc g W) as Hs.
  pose proof (Z.mod_pos_bound j (ntheta g) ltac:(lia)) as Hm.
  destruct (i <? nsc g) eqn:Hc; [apply Z.ltb_lt in Hc | apply Z.ltb_ge in Hc]; nia.
Qed.

(* circle nodes are numbered first: the split partitions 0..N-1 exactly *)
Theorem split_partition (g : grid) (i j : Z) :
  wf g -> 0 <= i < nr g -> (spec_index g i j < nsc g * ntheta g <-> i < nsc g).
Proof.
  intros W Hi. unfold spec_index.
  pose proof (wf_nth g W) as Hn. pose proof (wf_nsc g W) as Hs.
  pose proof (Z.mod_pos_bound j (ntheta g) ltac:(lia)) as Hm.
  destruct (i <? nsc g) eqn:Hc; [apply Z.ltb_lt in Hc | apply Z.ltb_ge in Hc]; split; intros; nia.
Qed.

Theorem multi_of_index (g : grid) (i j : Z) :
  wf g -> in_grid g i j -> spec_multi g (spec_index g i j) = (i, j).
Proof.
  intros W [Hi Hj].
  pose proof (wf_nth g W) as Hn. pose proof (wf_nsc g W) as Hs.
  pose proof (split_partition g i j W Hi) as Hsp.
  unfold spec_multi. unfold spec_index in *. rewrite (Z.mod_small j (ntheta g)) in * by assumption.
  destruct (i <? nsc g) eqn:Hc; [apply Z.ltb_lt in Hc | apply Z.ltb_ge in Hc].
  - destruct (j + ntheta g * i <? nsc g * ntheta g) eqn:Hd; [|apply Z.ltb_ge in Hd; lia].
    f_equal.
    + replace (j + ntheta g * i) with (j + i * ntheta g) by lia. rewrite Z.div_add by lia.
      rewrite Z.div_small by lia. lia.
    + replace (j + ntheta g * i) with (j + i * ntheta g) by lia. rewrite Z.mod_add by lia.
      apply Z.mod_small; lia.
  - destruct (nsc g * ntheta g + (i - nsc g) + (nr g - nsc g) * j <? nsc g * ntheta g) eqn:Hd;
      [apply Z.ltb_lt in Hd; lia|].
    replace (nsc g * ntheta g + (i - nsc g) + (nr g - nsc g) * j - nsc g * ntheta g)
      with ((i - nsc g) + j * (nr g - nsc g)) by lia.
    f_equal.
    + rewrite Z.mod_add by lia. rewrite Z.mod_small by lia. lia.
    + rewrite Z.div_add by lia. rewrite Z.div_small by lia. lia.
Qed.

Theorem multi_range (g : grid) (k : Z) :
  wf g -> 0 <= k < nnodes g -> in_grid g (fst (spec_multi g k)) (snd (spec_multi g k)).
Proof.
  intros W Hk. unfold spec_multi, in_grid, nnodes in *.
  pose proof (wf_nth g W) as Hn. pose proof (wf_nsc g W) as Hs. pose proof (wf_nr g W) as Hr.
  destruct (k <? nsc g * ntheta g) eqn:Hc; [apply Z.ltb_lt in Hc | apply Z.ltb_ge in Hc]; cbn [fst snd].
  - pose proof (Z.mod_pos_bound k (ntheta g) ltac:(lia)).
    assert (0 <= k / ntheta g) by (apply Z.div_pos; lia).
    assert (k / ntheta g < nsc g) by (apply Z.div_lt_upper_bound; nia).
    lia.
  - assert (Hl : 0 < nr g - nsc g) by nia.
    pose proof (Z.mod_pos_bound (k - nsc g * ntheta g) (nr g - nsc g) Hl).
    assert (0 <= (k - nsc g * ntheta g) / (nr g - nsc g)) by (apply Z.div_pos; lia).
    assert ((k - nsc g * ntheta g) / (nr g - nsc g) < ntheta g) by (apply Z.div_lt_upper_bound; nia).
    lia.
Qed.

Theorem index_of_multi (g : grid) (k : Z) :
  wf g -> 0 <= k < nnodes g ->
  spec_index g (fst (spec_multi g k)) (snd (spec_multi g k)) = k.
Proof.
  intros W Hk. pose proof (multi_range g k W Hk) as [Hi Hj].
  unfold spec_multi, nnodes in *.
  pose proof (wf_nth g W) as Hn. pose proof (wf_nsc g W) as Hs. pose proof (wf_nr g W) as Hr.
  destruct (k <? nsc g * ntheta g) eqn:Hc; [apply Z.ltb_lt in Hc | apply Z.ltb_ge in Hc];
    cbn [fst snd] in *; unfold spec_index.
  - assert (k / ntheta g < nsc g) by (apply Z.div_lt_upper_bound; nia).
    destruct (k / ntheta g <? nsc g) eqn:Hd; [|apply Z.ltb_ge in Hd; lia].
    rewrite Z.mod_mod by lia. pose proof (Z.div_mod k (ntheta g) ltac:(lia)). lia.
  - assert (Hl : 0 < nr g - nsc g) by nia.
    pose proof (Z.mod_pos_bound (k - nsc g * ntheta g) (nr g - nsc g) Hl).
    destruct (nsc g + (k - nsc g * ntheta g) mod (nr g - nsc g) <? nsc g) eqn:Hd;
      [apply Z.ltb_lt in Hd; lia|].
    rewrite (Z.mod_small _ (ntheta g)) by lia.
    pose proof (Z.div_mod (k - nsc g * ntheta g) (nr g - nsc g) ltac:(lia)). lia.
Qed.

Theorem index_injective (g : grid) (i j i' j' : Z) :
  wf g -> in_grid g i j -> in_grid g i' j' -> spec_index g i j = spec_index g i' j' -> (i, j) = (i', j').
Proof.
  intros W H1 H2 He. rewrite <- (multi_of_index g i j W H1), <- (multi_of_index g i' j' W H2), He.
  reflexivity.
Qed.

Theorem index_periodic (g : grid) (i j m : Z) :
  wf g -> spec_index g i (j + m * ntheta g) = spec_index g i j.
Proof.
  intros W. unfold spec_index. rewrite Z.mod_add by (pose proof (wf_nth g W); lia). reflexivity.
Qed.

(* neighbour queries of the unoptimised API agree with wrap(j +- 1) *)
Theorem nb_theta_consistent (g : grid) (j : Z) :
  wf g -> 0 <= j < ntheta g ->
  nb_theta_m1 g j = spec_wrap g (j - 1) /\ nb_theta_p1 g j = spec_wrap g (j + 1).
Proof.
  intros W Hj. unfold nb_theta_m1, nb_theta_p1, spec_wrap.
  pose proof (wf_nth g W) as Hn. split.
  - destruct (j - 1 <? 0) eqn:Hc; [apply Z.ltb_lt in Hc | apply Z.ltb_ge in Hc].
    + replace (j - 1) with ((j - 1 + ntheta g) + (-1) * ntheta g) at 2 by lia.
      rewrite Z.mod_add by lia. symmetry; apply Z.mod_small; lia.
    + symmetry; apply Z.mod_small; lia.
  - destruct (j + 1 >=? ntheta g) eqn:Hc; [apply Z.geb_le in Hc | rewrite Z.geb_leb in Hc; apply Z.leb_gt in Hc].
    + replace (j + 1) with ((j + 1 - ntheta g) + 1 * ntheta g) at 2 by lia.
      rewrite Z.mod_add by lia. symmetry; apply Z.mod_small; lia.
    + symmetry; apply Z.mod_small; lia.
Qed.

(* ------------------------------------------------------------------ *)
(* circle / radial split                                               *)
(* ------------------------------------------------------------------ *)

Section SplitProofs.
  Variable T : Type.
  Variable ltb : T -> T -> bool.

  Lemma count_lt_bounds (radii : list T) (rho : T) :
    0 <= count_lt T ltb radii rho <= Z.of_nat (length radii).
  Proof.
    induction radii as [|r rs IH]; cbn [count_lt length]; [lia|].
    destruct (ltb r rho); lia.
  Qed.

  (* count_lt is the length of the longest prefix of radii below rho: every entry before
     position count is < rho, and the entry at position count (if any) is not. *)
  Lemma count_lt_prefix (radii : list T) (rho : T) (d : T) (k : nat) :
    (Z.of_nat k < count_lt T ltb radii rho) -> ltb (List.nth k radii d) rho = true.
  Proof.
    revert k. induction radii as [|r rs IH]; intros k Hk; cbn [count_lt] in Hk; [lia|].
    destruct (ltb r rho) eqn:Hr; [|lia].
    destruct k as [|k]; cbn [List.nth]; [assumption|]. apply IH. lia.
  Qed.

  Lemma count_lt_stop (radii : list T) (rho : T) (d : T) :
    count_lt T ltb radii rho < Z.of_nat (length radii) ->
    ltb (List.nth (Z.to_nat (count_lt T ltb radii rho)) radii d) rho = false.
  Proof.
    induction radii as [|r rs IH]; cbn [count_lt length]; intros H; [lia|].
    destruct (ltb r rho) eqn:Hr.
    - pose proof (count_lt_bounds rs rho).
      replace (Z.to_nat (1 + count_lt T ltb rs rho)) with (S (Z.to_nat (count_lt T ltb rs rho))) by lia.
      cbn [List.nth]. apply IH. lia.
    - cbn. assumption.
  Qed.

  Theorem split_explicit_bounds (radii : list T) (rho : T) :
    0 <= split_explicit T ltb radii rho <= Z.of_nat (length radii).
  Proof.
    unfold split_explicit. destruct radii as [|r0 rs]; [cbn; lia|].
    destruct (ltb rho r0); [cbn [length]; lia|]. apply count_lt_bounds.
  Qed.
End SplitProofs.

Lemma first_hit_bounds q i fuel r :
  first_hit q i fuel = Some r -> i <= r < i + Z.of_nat fuel /\ q r = true.
Proof.
  revert i. induction fuel as [|f IH]; intros i H; cbn [first_hit] in H; [discriminate|].
  destruct (q i) eqn:Hq.
  - inversion H; subst. split; [lia|assumption].
  - destruct (IH _ H) as [Hb Hr]. split; [lia|assumption].
Qed.

Theorem split_auto_bounds (nr_ : Z) (q : Z -> bool) :
  5 <= nr_ ->
  2 <= split_auto nr_ q <= nr_ - 2 /\ (5 < nr_ -> 3 <= split_auto nr_ q) /\ 3 <= nr_ - split_auto nr_ q
  \/ nr_ = 5 /\ split_auto nr_ q = 2.
Proof.
  intros Hn. unfold split_auto.
  destruct (first_hit q 2 (Z.to_nat (nr_ - 4))) as [r|] eqn:Hf.
  - apply first_hit_bounds in Hf. destruct Hf as [Hb _].
    destruct (r <? 3) eqn:H3; destruct (5 <? nr_) eqn:H5; cbn [andb];
      try apply Z.ltb_lt in H3; try apply Z.ltb_ge in H3; try apply Z.ltb_lt in H5; try apply Z.ltb_ge in H5;
      try (left; lia); right; lia.
  - destruct (5 <? nr_) eqn:H5; cbn; [apply Z.ltb_lt in H5 | apply Z.ltb_ge in H5]; [left|right]; lia.
Qed.

(* ------------------------------------------------------------------ *)
(* coarsening                                                          *)
(* ------------------------------------------------------------------ *)

Lemma every_second_ind {A} (P : list A -> Prop) :
  P [] -> (forall x, P [x]) -> (forall x y l, P l -> P (x :: y :: l)) -> forall l, P l.
Proof.
  intros H0 H1 H2. fix IH 1. intros [|x [|y l]]; [exact H0 | apply H1 | apply H2, IH].
Qed.

Theorem every_second_length {A} (l : list A) :
  Z.of_nat (length (every_second l)) = Z.quot (Z.of_nat (length l) + 1) 2.
Proof.
  induction l as [| x | x y l IH] using every_second_ind.
  - reflexivity.
  - reflexivity.
  - cbn [every_second length]. rewrite !Nat2Z.inj_succ, IH.
    rewrite !Z.quot_div_nonneg by lia.
    replace (Z.succ (Z.succ (Z.of_nat (length l))) + 1) with ((Z.of_nat (length l) + 1) + 1 * 2) by lia.
    rewrite Z.div_add by lia. lia.
Qed.

Theorem every_second_nth {A} (l : list A) (d : A) (i : nat) :
  List.nth i (every_second l) d = List.nth (2 * i) l d.
Proof.
  revert i. induction l as [| x | x y l IH] using every_second_ind; intros i.
  - destruct i; reflexivity.
  - destruct i as [|i]; [reflexivity|]. cbn [every_second]. replace (2 * S i)%nat with (S (S (2 * i))) by lia.
    destruct i; reflexivity.
  - destruct i as [|i]; [reflexivity|]. cbn [every_second List.nth].
    replace (2 * S i)%nat with (S (S (2 * i))) by lia. cbn [List.nth]. apply IH.
Qed.

(* both boundaries are kept when the length is odd *)
Theorem every_second_last {A} (l : list A) (d : A) :
  Nat.odd (length l) = true -> last (every_second l) d = last l d.
Proof.
  induction l as [| x | x y l IH] using every_second_ind; intros Ho.
  - reflexivity.
  - reflexivity.
  - cbn [length] in Ho. rewrite Nat.odd_succ, Nat.even_succ in Ho.
    destruct l as [|z l]; [discriminate|].
    specialize (IH Ho). cbn [every_second] in *.
    destruct l as [|w l]; cbn in *; [reflexivity|].
    destruct (every_second l) eqn:E; destruct l; cbn in *; try congruence; exact IH.
Qed.

(* a concrete grid satisfying the premises (non-vacuity) *)
Example wf_example : wf (mkGrid 7 8 3 4 24 true).
Proof.
  constructor; cbn; try lia. intros _. exists 3. split; [lia|reflexivity].
Qed.
Example wf_example_nonpow2 : wf (mkGrid 5 12 2 3 24 false).
Proof. constructor; cbn; try lia; try discriminate. Qed.
