(* StencilProofs.v -- C03 / C05: the give kernel and the take kernel apply the same matrix
   (row by row, entry by entry), and that matrix is symmetric on the non-Dirichlet unknowns. *)
From Coq Require Import List ZArith Bool Reals Lra Lia.
From GMGP Require Import Scalar ScalarR InterpDefs InterpProofs StencilDefs.
Import ListNotations.
Local Open Scope Z_scope.

(* replace every application [f x] (resp. [f x y]) by a variable and identify the variables whose
   arguments are provably equal; afterwards the goal is a polynomial identity over atoms *)
Ltac abs1 f :=
  repeat match goal with
         | |- context [f ?x] => let v := fresh "v" in remember (f x) as v
         end.
Ltac abs2 f :=
  repeat match goal with
         | |- context [f ?x ?y] => let v := fresh "w" in remember (f x y) as v
         end.
Ltac merge1 f :=
  repeat match goal with
         | E1 : ?v1 = f ?x1, E2 : ?v2 = f ?x2 |- _ =>
             tryif constr_eq v1 v2 then fail
             else (assert (v1 = v2) by (rewrite E1, E2; f_equal; lia); subst v1; clear E1)
         end.
Ltac merge2 f :=
  repeat match goal with
         | E1 : ?v1 = f ?x1 ?y1, E2 : ?v2 = f ?x2 ?y2 |- _ =>
             tryif constr_eq v1 v2 then fail
             else (assert (v1 = v2) by (rewrite E1, E2; f_equal; lia); subst v1; clear E1)
         end.

Section Symmetry.
  Local Open Scope R_scope.
  Variable nr nth : Z.
  Variable h k : Z -> R.
  Variable R0 : R.
  Variable arr att art det : Z -> Z -> R.
  Variable beta : Z -> R.
  Variable dirbc : bool.
  Hypothesis Hnr : (4 <= nr)%Z.

  Notation bilR := (@bil Rsc nr nth h k R0 arr att art det beta dirbc).
  Notation giveR := (@A_give Rsc nr nth h k R0 arr att art det beta dirbc).

  (* vectors that vanish on the Dirichlet nodes *)
  Definition vanishes_on_dirichlet (x : Z -> Z -> R) : Prop :=
    (forall j, x (nr - 1)%Z j = 0) /\ (dirbc = true -> forall j, x 0%Z j = 0).

  Ltac blocks := unfold bil, A_give, give_center, give_left, give_right, give_bottom, give_top.

  (* every node's scattered block is a symmetric bilinear form on such vectors *)
  Theorem bil_symmetric i j x y :
    (0 <= i < nr)%Z -> vanishes_on_dirichlet x -> vanishes_on_dirichlet y ->
    bilR i j x y = bilR i j y x.
  Proof.
    intros Hi [Hx Hx0] [Hy Hy0]. blocks.
    destruct ((1 <? i) && (i <? nr - 2))%Z eqn:E1.
    - cbn [fold_right app fst snd]. rsc. ring.
    - destruct (i =? 0)%Z eqn:E0.
      + apply Z.eqb_eq in E0. subst i. destruct dirbc eqn:Ed.
        * cbn [fold_right app fst snd]. rsc.
          rewrite (Hx0 eq_refl), (Hy0 eq_refl), (Hx0 eq_refl (wt nth (j + 1))), (Hx0 eq_refl (wt nth (j - 1))),
                  (Hy0 eq_refl (wt nth (j + 1))), (Hy0 eq_refl (wt nth (j - 1))). ring.
        * cbn [fold_right app fst snd]. rsc. ring.
      + destruct (i =? 1)%Z eqn:E1'.
        * apply Z.eqb_eq in E1'. subst i. destruct dirbc eqn:Ed.
          -- cbn [fold_right app fst snd]. rsc.
             replace (1 - 1)%Z with 0%Z by lia. rewrite (Hx0 eq_refl j), (Hy0 eq_refl j). ring.
          -- cbn [fold_right app fst snd]. rsc. ring.
        * destruct (i =? nr - 2)%Z eqn:E2.
          -- apply Z.eqb_eq in E2. subst i. cbn [fold_right app fst snd]. rsc.
             replace (nr - 2 + 1)%Z with (nr - 1)%Z by lia. rewrite (Hx j), (Hy j). ring.
          -- destruct (i =? nr - 1)%Z eqn:E3.
             ++ apply Z.eqb_eq in E3. subst i. cbn [fold_right app fst snd]. rsc.
                rewrite (Hx j), (Hy j), (Hx (wt nth (j + 1))), (Hx (wt nth (j - 1))),
                        (Hy (wt nth (j + 1))), (Hy (wt nth (j - 1))). ring.
             ++ cbn. reflexivity.
  Qed.

  (* hence the whole form is symmetric: <A x, y> = <x, A y> on vectors vanishing on Dirichlet nodes *)
  Theorem form_symmetric nodes x y :
    (forall p, In p nodes -> (0 <= fst p < nr)%Z) ->
    vanishes_on_dirichlet x -> vanishes_on_dirichlet y ->
    @form Rsc nr nth h k R0 arr att art det beta dirbc nodes x y
    = @form Rsc nr nth h k R0 arr att art det beta dirbc nodes y x.
  Proof.
    intros Hn Hx Hy. unfold form. induction nodes as [|p nodes IH]; cbn [sum_nodes]; [reflexivity|].
    rewrite IH by (intros q Hq; apply Hn; right; exact Hq).
    rewrite (bil_symmetric (fst p) (snd p) x y) by (try apply Hn; try (left; reflexivity); assumption).
    reflexivity.
  Qed.
End Symmetry.

(* ================================================================== *)
(* energy: every scattered block is a non-negative quadratic form      *)
(* ================================================================== *)
Section Energy.
  Local Open Scope R_scope.

  (* weighted Cauchy-Schwarz for two terms *)
  Lemma cs2 h1 h2 d1 d2 : 0 < h1 -> 0 < h2 ->
    (d1 + d2) ^ 2 <= (h1 + h2) * (d1 ^ 2 / h1 + d2 ^ 2 / h2).
  Proof.
    intros H1 H2.
    assert (E : (h1 + h2) * (d1 ^ 2 / h1 + d2 ^ 2 / h2) - (d1 + d2) ^ 2 = (h2 * d1 - h1 * d2) ^ 2 / (h1 * h2))
      by (field; lra).
    assert (0 <= (h2 * d1 - h1 * d2) ^ 2 / (h1 * h2)).
    { apply Rmult_le_pos; [apply pow2_ge_0|]. apply Rlt_le, Rinv_0_lt_compat. nra. }
    lra.
  Qed.

  (* 2x2 discriminant *)
  Lemma quad2 p q m X Y : 0 < p -> 0 <= q -> m ^ 2 <= 4 * p * q -> 0 <= p * X ^ 2 + q * Y ^ 2 + m * X * Y.
  Proof.
    intros Hp Hq Hm.
    assert (E : p * X ^ 2 + q * Y ^ 2 + m * X * Y = p * (X + m * Y / (2 * p)) ^ 2 + (q - m ^ 2 / (4 * p)) * Y ^ 2)
      by (field; lra).
    rewrite E.
    assert (0 <= q - m ^ 2 / (4 * p)).
    { assert (m ^ 2 / (4 * p) <= q); [|lra].
      apply (Rmult_le_reg_r (4 * p)); [lra|]. replace (m ^ 2 / (4 * p) * (4 * p)) with (m ^ 2) by (field; lra). lra. }
    assert (0 <= (X + m * Y / (2 * p)) ^ 2) by apply pow2_ge_0.
    assert (0 <= Y ^ 2) by apply pow2_ge_0.
    nra.
  Qed.

  (* the local energy of an interior block, in terms of the four one-sided differences *)
  Lemma local_form_nonneg h1 h2 k1 k2 a t m dr1 dr2 dt1 dt2 :
    0 < h1 -> 0 < h2 -> 0 < k1 -> 0 < k2 -> 0 < a -> 0 < t -> m ^ 2 <= 4 * a * t ->
    0 <= / 2 * (k1 + k2) / h1 * a * dr1 ^ 2 + / 2 * (k1 + k2) / h2 * a * dr2 ^ 2
         + / 2 * (h1 + h2) / k1 * t * dt1 ^ 2 + / 2 * (h1 + h2) / k2 * t * dt2 ^ 2
         + / 2 * m * (dr1 + dr2) * (dt1 + dt2).
  Proof.
    intros H1 H2 K1 K2 Ha Ht Hm.
    pose proof (cs2 h1 h2 dr1 dr2 H1 H2) as Cr. pose proof (cs2 k1 k2 dt1 dt2 K1 K2) as Ct.
    set (DR := dr1 + dr2) in *. set (DT := dt1 + dt2) in *.
    set (SR := dr1 ^ 2 / h1 + dr2 ^ 2 / h2) in *. set (ST := dt1 ^ 2 / k1 + dt2 ^ 2 / k2) in *.
    assert (E : / 2 * (k1 + k2) / h1 * a * dr1 ^ 2 + / 2 * (k1 + k2) / h2 * a * dr2 ^ 2
                + / 2 * (h1 + h2) / k1 * t * dt1 ^ 2 + / 2 * (h1 + h2) / k2 * t * dt2 ^ 2
              = / 2 * (k1 + k2) * a * SR + / 2 * (h1 + h2) * t * ST) by (unfold SR, ST; field; lra).
    rewrite E.
    (* lower bounds  SR >= DR^2/(h1+h2),  ST >= DT^2/(k1+k2) *)
    assert (BR : DR ^ 2 / (h1 + h2) <= SR).
    { apply (Rmult_le_reg_r (h1 + h2)); [lra|]. replace (DR ^ 2 / (h1 + h2) * (h1 + h2)) with (DR ^ 2) by (field; lra). lra. }
    assert (BT : DT ^ 2 / (k1 + k2) <= ST).
    { apply (Rmult_le_reg_r (k1 + k2)); [lra|]. replace (DT ^ 2 / (k1 + k2) * (k1 + k2)) with (DT ^ 2) by (field; lra). lra. }
    set (al := (k1 + k2) / (h1 + h2)).
    assert (Hal : 0 < al) by (unfold al; apply Rdiv_lt_0_compat; lra).
    assert (Q : 0 <= (/ 2 * a * al) * DR ^ 2 + (/ 2 * t / al) * DT ^ 2 + (/ 2 * m) * DR * DT).
    { apply quad2.
      - apply Rmult_lt_0_compat; [lra|assumption].
      - apply Rlt_le. apply Rdiv_lt_0_compat; [lra|assumption].
      - replace (4 * (/ 2 * a * al) * (/ 2 * t / al)) with (a * t) by (field; lra).
        replace ((/ 2 * m) ^ 2) with (m ^ 2 / 4) by field. lra. }
    assert (L1 : / 2 * a * al * DR ^ 2 <= / 2 * (k1 + k2) * a * SR).
    { replace (/ 2 * a * al * DR ^ 2) with (/ 2 * (k1 + k2) * a * (DR ^ 2 / (h1 + h2))) by (unfold al; field; lra).
      apply Rmult_le_compat_l; [|exact BR]. apply Rlt_le. repeat apply Rmult_lt_0_compat; lra. }
    assert (L2 : / 2 * t / al * DT ^ 2 <= / 2 * (h1 + h2) * t * ST).
    { replace (/ 2 * t / al * DT ^ 2) with (/ 2 * (h1 + h2) * t * (DT ^ 2 / (k1 + k2))) by (unfold al; field; lra).
      apply Rmult_le_compat_l; [|exact BT]. apply Rlt_le. repeat apply Rmult_lt_0_compat; lra. }
    lra.
  Qed.
End Energy.

Section Definiteness.
  Local Open Scope R_scope.
  Variable nr nth : Z.
  Variable h k : Z -> R.
  Variable R0 : R.
  Variable arr att art det : Z -> Z -> R.
  Variable beta : Z -> R.
  Variable dirbc : bool.
  Hypothesis Hnr : (4 <= nr)%Z.
  Hypothesis Hh : forall x, 0 < h x.
  Hypothesis Hk : forall x, 0 < k x.
  Hypothesis HR0 : 0 < R0.
  Hypothesis Harr : forall i j, 0 < arr i j.
  Hypothesis Hatt : forall i j, 0 < att i j.
  Hypothesis Hdisc : forall i j, art i j ^ 2 <= 4 * arr i j * att i j.
  Hypothesis Hbeta : forall i, 0 <= beta i.
  (* across the origin the 7-point closure drops the mixed terms of the antipodal neighbour; the
     block is a sum of squares only when the mixed coefficient vanishes there (orthogonal mapping
     at r = R0, e.g. the circular geometry).  This is observation F9. *)
  Hypothesis Hart0 : dirbc = false -> forall j, art 0%Z j = 0.

  Notation bilR := (@bil Rsc nr nth h k R0 arr att art det beta dirbc).
  Notation kkR := (@kk Rsc nth k).

  Lemma kk_pos j : 0 < kkR j.
  Proof. unfold kk. apply Hk. Qed.

  Lemma mass_nonneg hl i j : 0 < hl -> 0 <= @mass Rsc nth h k det beta hl i j.
  Proof.
    intros Hl. unfold mass, sabs. rsc.
    pose proof (Hh i). pose proof (kk_pos (j - 1)). pose proof (kk_pos j). pose proof (Hbeta i).
    assert (0 <= (if (if Rlt_dec (det i j) 0 then true else false) then - det i j else det i j)).
    { destruct (Rlt_dec (det i j) 0); lra. }
    repeat apply Rmult_le_pos; try lra.
  Qed.

  Ltac blocks := unfold bil, A_give, give_center, give_left, give_right, give_bottom, give_top.
  Ltac pos_hyps i j :=
    pose proof (Hh i); pose proof (Hh (i - 1)%Z); pose proof (kk_pos (j - 1)); pose proof (kk_pos j);
    pose proof (Harr i j); pose proof (Hatt i j); pose proof (Hdisc i j).

  Theorem bil_nonneg i j x :
    (0 <= i < nr)%Z -> vanishes_on_dirichlet nr dirbc x -> 0 <= bilR i j x x.
  Proof.
    intros Hi [Hx Hx0]. pos_hyps i j.
    destruct ((1 <? i) && (i <? nr - 2))%Z eqn:E1.
    - (* interior block *)
      pose proof (mass_nonneg (h (i - 1)) i j ltac:(assumption)) as Hm.
      pose proof (local_form_nonneg (h (i - 1)) (h i) (kkR (j - 1)) (kkR j) (arr i j) (att i j) (art i j)
                    (x i j - x (i - 1)%Z j) (x (i + 1)%Z j - x i j)
                    (x i j - x i (wt nth (j - 1))) (x i (wt nth (j + 1)) - x i j)
                    ltac:(assumption) ltac:(assumption) ltac:(assumption) ltac:(assumption)
                    ltac:(assumption) ltac:(assumption) ltac:(assumption)) as Hl.
      assert (E : bilR i j x x =
                  @mass Rsc nth h k det beta (h (i - 1)) i j * x i j ^ 2 +
                  (/ 2 * (kkR (j - 1) + kkR j) / h (i - 1) * arr i j * (x i j - x (i - 1)%Z j) ^ 2 +
                   / 2 * (kkR (j - 1) + kkR j) / h i * arr i j * (x (i + 1)%Z j - x i j) ^ 2 +
                   / 2 * (h (i - 1) + h i) / kkR (j - 1) * att i j * (x i j - x i (wt nth (j - 1))) ^ 2 +
                   / 2 * (h (i - 1) + h i) / kkR j * att i j * (x i (wt nth (j + 1)) - x i j) ^ 2 +
                   / 2 * art i j * (x i j - x (i - 1)%Z j + (x (i + 1)%Z j - x i j)) *
                   (x i j - x i (wt nth (j - 1)) + (x i (wt nth (j + 1)) - x i j)))).
      { blocks. rewrite E1. unfold c1, c2, c3, c4. cbn [fold_right app fst snd]. rsc. field. repeat split; lra. }
      rewrite E. assert (0 <= x i j ^ 2) by apply pow2_ge_0. nra.
    - assert (Hsq : forall v : R, 0 <= v ^ 2) by (intros; apply pow2_ge_0).
      destruct (i =? 0)%Z eqn:E0.
      + apply Z.eqb_eq in E0. subst i. destruct (Bool.bool_dec dirbc true) as [Ed|Ed]; [|apply Bool.not_true_is_false in Ed].
        * (* Dirichlet node on the inner boundary: only its gift to row 1 survives *)
          assert (E : bilR 0%Z j x x = / 2 * (kkR (j - 1) + kkR j) / h 0%Z * arr 0%Z j * x 1%Z j ^ 2).
          { blocks. rewrite E1. cbn [Z.eqb Pos.eqb]. rewrite Ed. unfold c2. cbn [fold_right app fst snd]. rsc.
            rewrite (Hx0 Ed j), (Hx0 Ed (wt nth (j + 1))), (Hx0 Ed (wt nth (j - 1))).
            replace (0 + 1)%Z with 1%Z by lia. field. lra. }
          rewrite E. pose proof (Hsq (x 1%Z j)).
          assert (0 < / 2 * (kkR (j - 1) + kkR j) / h 0%Z * arr 0%Z j).
          { apply Rmult_lt_0_compat; [|assumption]. apply Rdiv_lt_0_compat; lra. }
          nra.
        * (* across the origin, orthogonal at R0: a sum of squares *)
          pose proof (mass_nonneg (2 * R0) 0%Z j ltac:(lra)) as Hm.
          assert (E : bilR 0%Z j x x =
                      @mass Rsc nth h k det beta (2 * R0) 0%Z j * x 0%Z j ^ 2 +
                      (/ 2 * (kkR (j - 1) + kkR j) / (2 * R0) * arr 0%Z j * (x 0%Z j - x 0%Z (across nth j)) ^ 2 +
                       / 2 * (kkR (j - 1) + kkR j) / h 0%Z * arr 0%Z j * (x 1%Z j - x 0%Z j) ^ 2 +
                       / 2 * (2 * R0 + h 0%Z) / kkR (j - 1) * att 0%Z j * (x 0%Z j - x 0%Z (wt nth (j - 1))) ^ 2 +
                       / 2 * (2 * R0 + h 0%Z) / kkR j * att 0%Z j * (x 0%Z (wt nth (j + 1)) - x 0%Z j) ^ 2)).
          { blocks. rewrite E1. cbn [Z.eqb Pos.eqb]. rewrite Ed. unfold c1, c2, c3, c4. cbn [fold_right app fst snd]. rsc.
            rewrite (Hart0 Ed j). replace (0 + 1)%Z with 1%Z by lia. replace ((1 + 1) * R0) with (2 * R0) by ring. field. repeat split; lra. }
          rewrite E.
          pose proof (Hsq (x 0%Z j)). pose proof (Hsq (x 0%Z j - x 0%Z (across nth j))). pose proof (Hsq (x 1%Z j - x 0%Z j)).
          pose proof (Hsq (x 0%Z j - x 0%Z (wt nth (j - 1)))). pose proof (Hsq (x 0%Z (wt nth (j + 1)) - x 0%Z j)).
          assert (0 < / 2 * (kkR (j - 1) + kkR j) / (2 * R0) * arr 0%Z j) by (apply Rmult_lt_0_compat; [apply Rdiv_lt_0_compat; lra|assumption]).
          assert (0 < / 2 * (kkR (j - 1) + kkR j) / h 0%Z * arr 0%Z j) by (apply Rmult_lt_0_compat; [apply Rdiv_lt_0_compat; lra|assumption]).
          assert (0 < / 2 * (2 * R0 + h 0%Z) / kkR (j - 1) * att 0%Z j) by (apply Rmult_lt_0_compat; [apply Rdiv_lt_0_compat; lra|assumption]).
          assert (0 < / 2 * (2 * R0 + h 0%Z) / kkR j * att 0%Z j) by (apply Rmult_lt_0_compat; [apply Rdiv_lt_0_compat; lra|assumption]).
          nra.
      + (* the remaining classes share the interior local form with a Dirichlet neighbour set to 0 *)
        pose proof (mass_nonneg (h (i - 1)) i j ltac:(assumption)) as Hm.
        pose proof (local_form_nonneg (h (i - 1)) (h i) (kkR (j - 1)) (kkR j) (arr i j) (att i j) (art i j)
                      (x i j - x (i - 1)%Z j) (x (i + 1)%Z j - x i j)
                      (x i j - x i (wt nth (j - 1))) (x i (wt nth (j + 1)) - x i j)
                      ltac:(assumption) ltac:(assumption) ltac:(assumption) ltac:(assumption)
                      ltac:(assumption) ltac:(assumption) ltac:(assumption)) as Hl.
        destruct (i =? 1)%Z eqn:E1'.
        * apply Z.eqb_eq in E1'. subst i.
          assert (E : bilR 1%Z j x x =
                  @mass Rsc nth h k det beta (h (1 - 1)) 1%Z j * x 1%Z j ^ 2 +
                  (/ 2 * (kkR (j - 1) + kkR j) / h (1 - 1) * arr 1%Z j * (x 1%Z j - x (1 - 1)%Z j) ^ 2 +
                   / 2 * (kkR (j - 1) + kkR j) / h 1%Z * arr 1%Z j * (x (1 + 1)%Z j - x 1%Z j) ^ 2 +
                   / 2 * (h (1 - 1) + h 1%Z) / kkR (j - 1) * att 1%Z j * (x 1%Z j - x 1%Z (wt nth (j - 1))) ^ 2 +
                   / 2 * (h (1 - 1) + h 1%Z) / kkR j * att 1%Z j * (x 1%Z (wt nth (j + 1)) - x 1%Z j) ^ 2 +
                   / 2 * art 1%Z j * (x 1%Z j - x (1 - 1)%Z j + (x (1 + 1)%Z j - x 1%Z j)) *
                   (x 1%Z j - x 1%Z (wt nth (j - 1)) + (x 1%Z (wt nth (j + 1)) - x 1%Z j)))).
          { blocks. rewrite E1. cbn [Z.eqb Pos.eqb]. unfold c1, c2, c3, c4.
            destruct (Bool.bool_dec dirbc true) as [Ed|Ed]; [|apply Bool.not_true_is_false in Ed]; rewrite Ed.
            - cbn [fold_right app fst snd]. rsc. replace (1 - 1)%Z with 0%Z in * by lia.
              rewrite (Hx0 Ed j). field. repeat split; lra.
            - cbn [fold_right app fst snd]. rsc. field. repeat split; lra. }
          rewrite E. pose proof (Hsq (x 1%Z j)). nra.
        * destruct (i =? nr - 2)%Z eqn:E2.
          -- apply Z.eqb_eq in E2.
             assert (E : bilR i j x x =
                  @mass Rsc nth h k det beta (h (i - 1)) i j * x i j ^ 2 +
                  (/ 2 * (kkR (j - 1) + kkR j) / h (i - 1) * arr i j * (x i j - x (i - 1)%Z j) ^ 2 +
                   / 2 * (kkR (j - 1) + kkR j) / h i * arr i j * (x (i + 1)%Z j - x i j) ^ 2 +
                   / 2 * (h (i - 1) + h i) / kkR (j - 1) * att i j * (x i j - x i (wt nth (j - 1))) ^ 2 +
                   / 2 * (h (i - 1) + h i) / kkR j * att i j * (x i (wt nth (j + 1)) - x i j) ^ 2 +
                   / 2 * art i j * (x i j - x (i - 1)%Z j + (x (i + 1)%Z j - x i j)) *
                   (x i j - x i (wt nth (j - 1)) + (x i (wt nth (j + 1)) - x i j)))).
             { blocks. rewrite E1, E0, E1'. replace (i =? nr - 2)%Z with true by (symmetry; apply Z.eqb_eq; exact E2).
               unfold c1, c2, c3, c4. cbn [fold_right app fst snd]. rsc.
               replace (i + 1)%Z with (nr - 1)%Z by lia. rewrite (Hx j). field. repeat split; lra. }
             rewrite E. pose proof (Hsq (x i j)). nra.
          -- destruct (i =? nr - 1)%Z eqn:E3.
             ++ apply Z.eqb_eq in E3.
                assert (E : bilR i j x x = / 2 * (kkR (j - 1) + kkR j) / h (i - 1) * arr i j * x (i - 1)%Z j ^ 2).
                { blocks. rewrite E1, E0, E1', E2. replace (i =? nr - 1)%Z with true by (symmetry; apply Z.eqb_eq; exact E3).
                  unfold c1. cbn [fold_right app fst snd]. rsc. subst i.
                  rewrite (Hx j), (Hx (wt nth (j + 1))), (Hx (wt nth (j - 1))). field. lra. }
                rewrite E. pose proof (Hsq (x (i - 1)%Z j)).
                assert (0 < / 2 * (kkR (j - 1) + kkR j) / h (i - 1) * arr i j) by (apply Rmult_lt_0_compat; [apply Rdiv_lt_0_compat; lra|assumption]).
                nra.
             ++ exfalso. apply andb_false_iff in E1. apply Z.eqb_neq in E0, E1', E2, E3.
                destruct E1 as [E1|E1]; [apply Z.ltb_ge in E1|apply Z.ltb_ge in E1]; lia.
  Qed.

  (* <A x, x> >= 0 *)
  Theorem form_nonneg nodes x :
    (forall p, In p nodes -> (0 <= fst p < nr)%Z) -> vanishes_on_dirichlet nr dirbc x ->
    0 <= @form Rsc nr nth h k R0 arr att art det beta dirbc nodes x x.
  Proof.
    intros Hn Hx. unfold form. induction nodes as [|p nodes IH]; cbn [sum_nodes]; rsc; [lra|].
    pose proof (bil_nonneg (fst p) (snd p) x (Hn p (or_introl eq_refl)) Hx).
    assert (0 <= @sum_nodes Rsc (fun i j => bilR i j x x) nodes) by (apply IH; intros q Hq; apply Hn; right; exact Hq).
    lra.
  Qed.
End Definiteness.

(* ================================================================== *)
(* the coefficients compute_jacobian_elements returns are admissible   *)
(* ================================================================== *)
Section Coefficients.
  Local Open Scope R_scope.
  Variables Jrr Jrt Jtr Jtt alpha : R.
  Definition detJ := Jrr * Jtt - Jrt * Jtr.
  Definition arrJ := / 2 * (Jtt * Jtt + Jrt * Jrt) * alpha / Rabs detJ.
  Definition attJ := / 2 * (Jtr * Jtr + Jrr * Jrr) * alpha / Rabs detJ.
  Definition artJ := (- Jtt * Jtr - Jrt * Jrr) * alpha / Rabs detJ.
  Hypothesis Hdet : detJ <> 0.
  Hypothesis Halpha : 0 < alpha.

  Lemma abs_det_pos : 0 < Rabs detJ.
  Proof. apply Rabs_pos_lt. exact Hdet. Qed.
  Lemma abs_det_sq : Rabs detJ * Rabs detJ = detJ * detJ.
  Proof. pose proof (Rsqr_abs detJ) as H. unfold Rsqr in H. symmetry. exact H. Qed.

  Theorem coefficients_discriminant : 4 * arrJ * attJ - artJ ^ 2 = alpha ^ 2.
  Proof.
    unfold arrJ, attJ, artJ. pose proof abs_det_pos as Hp. pose proof abs_det_sq as Hs.
    assert (E : 4 * (/ 2 * (Jtt * Jtt + Jrt * Jrt) * alpha / Rabs detJ) * (/ 2 * (Jtr * Jtr + Jrr * Jrr) * alpha / Rabs detJ)
                - ((- Jtt * Jtr - Jrt * Jrr) * alpha / Rabs detJ) ^ 2
                = alpha ^ 2 * ((Jrr * Jtt - Jrt * Jtr) * (Jrr * Jtt - Jrt * Jtr)) / (Rabs detJ * Rabs detJ)) by (field; lra).
    rewrite E, Hs. unfold detJ in *. field. exact Hdet.
  Qed.

  Theorem coefficients_positive : 0 < arrJ /\ 0 < attJ.
  Proof.
    pose proof abs_det_pos as Hp. unfold arrJ, attJ.
    assert (H1 : 0 < Jtt * Jtt + Jrt * Jrt).
    { destruct (Req_dec Jtt 0) as [E1|E1]; destruct (Req_dec Jrt 0) as [E2|E2]; try nra.
      exfalso. apply Hdet. unfold detJ. rewrite E1, E2. ring. }
    assert (H2 : 0 < Jtr * Jtr + Jrr * Jrr).
    { destruct (Req_dec Jtr 0) as [E1|E1]; destruct (Req_dec Jrr 0) as [E2|E2]; try nra.
      exfalso. apply Hdet. unfold detJ. rewrite E1, E2. ring. }
    split; apply Rdiv_lt_0_compat; try assumption; nra.
  Qed.

  Corollary coefficients_admissible : 0 < arrJ /\ 0 < attJ /\ artJ ^ 2 <= 4 * arrJ * attJ.
  Proof.
    destruct coefficients_positive as [Ha Ht]. pose proof coefficients_discriminant as Hd.
    repeat split; try assumption. assert (0 <= alpha ^ 2) by apply pow2_ge_0. lra.
  Qed.
End Coefficients.

(* ================================================================== *)
(* C03: what the give kernel scatters into a row is the take row       *)
(* ================================================================== *)
Section GiveTake.
  Local Open Scope R_scope.
  Variable nr nth : Z.
  Variable h k : Z -> R.
  Variable R0 : R.
  Variable arr att art det : Z -> Z -> R.
  Variable beta : Z -> R.
  Variable dirbc : bool.
  Variable Mc : Z.
  Hypothesis Hnr : (4 <= nr)%Z.
  Hypothesis HMc : (2 <= Mc)%Z.
  Hypothesis Hnth : nth = (2 * Mc)%Z.
  (* angular spacings are pi-periodic (checkParameters' antipodal-partner test) *)
  Hypothesis Hanti : forall j, (0 <= j < Mc)%Z -> k (j + Mc)%Z = k j.

  Notation take := (@A_take_row Rsc nr nth h k R0 arr att art det beta dirbc).
  Notation giverow := (@A_give_row Rsc nr nth h k R0 arr att art det beta dirbc).
  Notation giveR := (@A_give Rsc nr nth h k R0 arr att art det beta dirbc).
  Notation into := (@give_into Rsc nr nth h k R0 arr att art det beta dirbc).
  Notation app2 := (@apply_row2 Rsc).
  Notation W := (wt nth).
  Notation contribR := (@contrib Rsc).

  (* ---- periodic index facts ---- *)
  Lemma W_range x : (- nth <= x < 2 * nth)%Z -> (0 <= W x < nth)%Z.
  Proof. intros Hx. unfold wt, wrap1. rewrite Hnth in *. zb; lia. Qed.
  Lemma W_id x : (0 <= x < nth)%Z -> W x = x.
  Proof. intros Hx. unfold wt, wrap1. zb; lia. Qed.
  Lemma W_m1_p1 j : (0 <= j < nth)%Z -> W (W (j - 1) + 1) = j.
  Proof. intros Hj. unfold wt, wrap1. rewrite Hnth in *. zb; lia. Qed.
  Lemma W_p1_m1 j : (0 <= j < nth)%Z -> W (W (j + 1) - 1) = j.
  Proof. intros Hj. unfold wt, wrap1. rewrite Hnth in *. zb; lia. Qed.
  Lemma W_m1_ne j : (0 <= j < nth)%Z -> W (j - 1) <> j.
  Proof. intros Hj. unfold wt, wrap1. rewrite Hnth in *. zb; lia. Qed.
  Lemma W_p1_ne j : (0 <= j < nth)%Z -> W (j + 1) <> j.
  Proof. intros Hj. unfold wt, wrap1. rewrite Hnth in *. zb; lia. Qed.
  Lemma W_m2_ne j : (0 <= j < nth)%Z -> W (W (j - 1) - 1) <> j.
  Proof. intros Hj. unfold wt, wrap1. rewrite Hnth in *. zb; lia. Qed.
  Lemma W_p2_ne j : (0 <= j < nth)%Z -> W (W (j + 1) + 1) <> j.
  Proof. intros Hj. unfold wt, wrap1. rewrite Hnth in *. zb; lia. Qed.

  (* ---- filtering the contributions of a block by their row ---- *)
  Notation rowsel p := (fun c : contribR => @pair_eqb (fst (fst c)) p).

  Lemma filter_uniform (p r : Z * Z) (l : list contribR) :
    (forall c, In c l -> fst (fst c) = r) ->
    filter (rowsel p) l = if pair_eqb r p then l else [].
  Proof.
    intros Hu. induction l as [|c l IH]; cbn [filter]; [destruct (pair_eqb r p); reflexivity|].
    rewrite (Hu c (or_introl eq_refl)).
    rewrite IH by (intros c' Hc'; apply Hu; right; exact Hc').
    destruct (pair_eqb r p); reflexivity.
  Qed.

  Ltac uni := intros c Hc; cbn [In app] in Hc; repeat (destruct Hc as [<-|Hc]; [reflexivity|]); try contradiction.

  Lemma center_rows hl i j lcol c : In c (@give_center Rsc nth h k arr att det beta hl i j lcol) -> fst (fst c) = (i, j).
  Proof. revert c. unfold give_center. uni. Qed.
  Lemma left_rows hl i j c : In c (@give_left Rsc nth k arr art hl i j) -> fst (fst c) = ((i - 1)%Z, j).
  Proof. revert c. unfold give_left. uni. Qed.
  Lemma right_rows i j c : In c (@give_right Rsc nth h k arr art i j) -> fst (fst c) = ((i + 1)%Z, j).
  Proof. revert c. unfold give_right. uni. Qed.
  Lemma bottom_rows hl i j b c : In c (@give_bottom Rsc nth h k att art hl i j b) -> fst (fst c) = (i, W (j - 1)).
  Proof. revert c. unfold give_bottom. destruct b; uni. Qed.
  Lemma top_rows hl i j b c : In c (@give_top Rsc nth h k att art hl i j b) -> fst (fst c) = (i, W (j + 1)).
  Proof. revert c. unfold give_top. destruct b; uni. Qed.

  Lemma filter_center p hl i j lcol :
    filter (rowsel p) (@give_center Rsc nth h k arr att det beta hl i j lcol)
    = if pair_eqb (i, j) p then @give_center Rsc nth h k arr att det beta hl i j lcol else [].
  Proof. apply filter_uniform. intros c. apply center_rows. Qed.
  Lemma filter_left p hl i j :
    filter (rowsel p) (@give_left Rsc nth k arr art hl i j)
    = if pair_eqb ((i - 1)%Z, j) p then @give_left Rsc nth k arr art hl i j else [].
  Proof. apply filter_uniform. intros c. apply left_rows. Qed.
  Lemma filter_right p i j :
    filter (rowsel p) (@give_right Rsc nth h k arr art i j)
    = if pair_eqb ((i + 1)%Z, j) p then @give_right Rsc nth h k arr art i j else [].
  Proof. apply filter_uniform. intros c. apply right_rows. Qed.
  Lemma filter_bottom p hl i j b :
    filter (rowsel p) (@give_bottom Rsc nth h k att art hl i j b)
    = if pair_eqb (i, W (j - 1)) p then @give_bottom Rsc nth h k att art hl i j b else [].
  Proof. apply filter_uniform. intros c. apply bottom_rows. Qed.
  Lemma filter_top p hl i j b :
    filter (rowsel p) (@give_top Rsc nth h k att art hl i j b)
    = if pair_eqb (i, W (j + 1)) p then @give_top Rsc nth h k att art hl i j b else [].
  Proof. apply filter_uniform. intros c. apply top_rows. Qed.

  Lemma app2_app (r1 r2 : list (Z * Z * R)) (x : Z -> Z -> R) : app2 (r1 ++ r2) x = app2 r1 x + app2 r2 x.
  Proof. unfold apply_row2. induction r1 as [|e r1 IH]; cbn [app fold_right]; rsc; [ring|]. rewrite IH. ring. Qed.

  Variable x : Z -> Z -> R.

  Ltac filters :=
    rewrite ?filter_app, ?filter_center, ?filter_left, ?filter_right, ?filter_bottom, ?filter_top.

  Ltac wfacts j Hj :=
    pose proof (W_range (j - 1) ltac:(lia)) as Rm; pose proof (W_range (j + 1) ltac:(lia)) as Rp;
    pose proof (W_m1_ne j Hj) as Nm; pose proof (W_p1_ne j Hj) as Np;
    pose proof (W_m2_ne j Hj) as Nm2; pose proof (W_p2_ne j Hj) as Np2.

  Ltac split_dirbc :=
    try (destruct (Bool.bool_dec dirbc true) as [Ed|Ed]; [|apply Bool.not_true_is_false in Ed]; rewrite Ed).

  (* the common script: decide which source is in the grid and which branch of A_give it takes, keep
     the blocks whose target row is (i,j), unfold them and compare polynomials *)
  Ltac give_take j Hj :=
    cbn [flat_map app]; rewrite !app2_app;
    unfold give_into, in_grid_b; cbn [fst snd];
    zb; try lia; cbn [andb];
    unfold A_give; zb; try lia;
    cbn [andb]; cbv zeta;
    split_dirbc;
    filters; cbn [filter]; unfold pair_eqb; cbn [fst snd]; rewrite ?W_m1_p1, ?W_p1_m1 by assumption;
    zb; try lia;
    cbn [andb app map]; rewrite ?app_nil_r;
    unfold give_center, give_left, give_right, give_bottom, give_top, A_take_row;
    zb; try lia;
    cbn [andb app map apply_row2 fold_right fst snd]; rewrite ?W_m1_p1, ?W_p1_m1 by assumption;
    unfold c1, c2, c3, c4, mass, kk; rewrite ?W_m1_p1, ?W_p1_m1 by assumption;
    rewrite ?(W_id (W (j - 1))), ?(W_id (W (j + 1))) by assumption;
    rsc; rewrite ?(W_id j Hj).

  Theorem give_row_eq_take_row_interior i j :
    (2 <= i <= nr - 3)%Z -> (0 <= j < nth)%Z ->
    app2 (giverow i j) x = app2 (take i j) x.
  Proof.
    intros Hi Hj. wfacts j Hj.
    unfold A_give_row, sources. replace ((i =? 0)%Z && negb dirbc)%bool with false by (symmetry; apply andb_false_iff; left; apply Z.eqb_neq; lia).
    give_take j Hj.
    all: replace (i - 1 + 1)%Z with i by lia; replace (i + 1 - 1)%Z with i by lia.
    all: unfold Rdiv; ring.
  Qed.

  Theorem give_row_eq_take_row_1 j :
    (0 <= j < nth)%Z -> app2 (giverow 1%Z j) x = app2 (take 1%Z j) x.
  Proof.
    intros Hj. wfacts j Hj.
    unfold A_give_row, sources. cbn [Z.eqb andb].
    give_take j Hj.
    all: replace (1 - 1)%Z with 0%Z by lia; replace (1 + 1 - 1)%Z with 1%Z by lia; replace (0 + 1)%Z with 1%Z by lia.
    all: unfold Rdiv; ring.
  Qed.

  Theorem give_row_eq_take_row_nr2 i j :
    i = (nr - 2)%Z -> (0 <= j < nth)%Z -> app2 (giverow i j) x = app2 (take i j) x.
  Proof.
    intros Hi Hj. wfacts j Hj.
    unfold A_give_row, sources. replace ((i =? 0)%Z && negb dirbc)%bool with false by (symmetry; apply andb_false_iff; left; apply Z.eqb_neq; lia).
    give_take j Hj.
    all: replace (i - 1 + 1)%Z with i by lia; replace (i + 1 - 1)%Z with i by lia.
    all: unfold Rdiv; ring.
  Qed.

  Theorem give_row_eq_take_row_nr1 i j :
    i = (nr - 1)%Z -> (0 <= j < nth)%Z -> app2 (giverow i j) x = app2 (take i j) x.
  Proof.
    intros Hi Hj. wfacts j Hj.
    unfold A_give_row, sources. replace ((i =? 0)%Z && negb dirbc)%bool with false by (symmetry; apply andb_false_iff; left; apply Z.eqb_neq; lia).
    give_take j Hj.
    all: unfold Rdiv; ring.
  Qed.

  Theorem give_row_eq_take_row_0_dirbc j :
    dirbc = true -> (0 <= j < nth)%Z -> app2 (giverow 0%Z j) x = app2 (take 0%Z j) x.
  Proof.
    intros Hd Hj. wfacts j Hj.
    unfold A_give_row, sources. rewrite Hd. cbn [Z.eqb andb negb].
    give_take j Hj.
    all: unfold Rdiv; ring.
  Qed.

  (* ---- across the origin ---- *)
  Notation AC := (across nth).
  Lemma quot_nth : Z.quot nth 2 = Mc.
  Proof. rewrite Hnth. apply quot2_even. lia. Qed.
  Ltac ac_unfold := unfold across, wt, wrap1; rewrite quot_nth; rewrite Hnth in *.
  Lemma AC_range j : (0 <= j < nth)%Z -> (0 <= AC j < nth)%Z.
  Proof. intros Hj. ac_unfold. zb; lia. Qed.
  Lemma AC_invol j : (0 <= j < nth)%Z -> AC (AC j) = j.
  Proof. intros Hj. ac_unfold. zb; lia. Qed.
  Lemma AC_ne j : (0 <= j < nth)%Z -> AC j <> j /\ AC j <> W (j - 1) /\ AC j <> W (j + 1).
  Proof. intros Hj. ac_unfold. zb; lia. Qed.
  Lemma AC_nb_ne j : (0 <= j < nth)%Z ->
    W (AC j - 1) <> j /\ W (AC j + 1) <> j /\ AC (W (j - 1)) <> j /\ AC (W (j + 1)) <> j.
  Proof. intros Hj. ac_unfold. zb; lia. Qed.
  Lemma W_AC_m1 j : (0 <= j < nth)%Z -> W (AC j - 1) = AC (W (j - 1)).
  Proof. intros Hj. ac_unfold. zb; lia. Qed.
  Lemma k_AC j : (0 <= j < nth)%Z -> k (AC j) = k j.
  Proof.
    intros Hj. unfold across, wt, wrap1. rewrite quot_nth. rewrite Hnth in *. zb; try lia.
    - replace j with ((j + Mc - 2 * Mc) + Mc)%Z at 2 by lia. symmetry. apply Hanti. lia.
    - apply Hanti. lia.
  Qed.

  Theorem give_row_eq_take_row_0_across j :
    dirbc = false -> (0 <= j < nth)%Z -> app2 (giverow 0%Z j) x = app2 (take 0%Z j) x.
  Proof.
    intros Hd Hj. wfacts j Hj.
    pose proof (AC_range j Hj) as Ra. pose proof (AC_invol j Hj) as Ia.
    destruct (AC_ne j Hj) as [Na0 [Nam Nap]]. destruct (AC_nb_ne j Hj) as [Nb1 [Nb2 [Nb3 Nb4]]].
    pose proof (AC_range (W (j - 1)) Rm) as Ram. pose proof (AC_range (W (j + 1)) Rp) as Rap.
    pose proof (W_range (AC j - 1) ltac:(lia)) as Rwm. pose proof (W_range (AC j + 1) ltac:(lia)) as Rwp.
    unfold A_give_row, sources. rewrite Hd. cbn [Z.eqb andb negb].
    give_take j Hj.
    all: rewrite ?Ia, ?(W_id (AC j) Ra), ?(W_AC_m1 j Hj), ?(k_AC (W (j - 1)) Rm), ?(k_AC j Hj).
    all: replace (0 + 1 - 1)%Z with 0%Z by lia.
    all: unfold Rdiv; ring.
  Qed.

  (* C03: for EVERY row of EVERY admissible grid the give kernel and the take kernel apply the same
     linear functional to x *)
  Theorem give_row_eq_take_row i j :
    (0 <= i < nr)%Z -> (0 <= j < nth)%Z -> app2 (giverow i j) x = app2 (take i j) x.
  Proof.
    intros Hi Hj.
    destruct (Z.eq_dec i 0) as [->|H0].
    - destruct (Bool.bool_dec dirbc true) as [Ed|Ed].
      + apply give_row_eq_take_row_0_dirbc; assumption.
      + apply Bool.not_true_is_false in Ed. apply give_row_eq_take_row_0_across; assumption.
    - destruct (Z.eq_dec i 1) as [->|H1]; [apply give_row_eq_take_row_1; assumption|].
      destruct (Z.eq_dec i (nr - 1)) as [E|H2]; [apply give_row_eq_take_row_nr1; assumption|].
      destruct (Z.eq_dec i (nr - 2)) as [E|H3]; [apply give_row_eq_take_row_nr2; assumption|].
      apply give_row_eq_take_row_interior; [lia|assumption].
  Qed.
End GiveTake.

