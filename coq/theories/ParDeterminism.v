(* ParDeterminism.v -- C12: if the iterations that may overlap are pairwise conflict free (C11), the state after a
   work-sharing phase is the same for EVERY order in which the iterations are executed -- hence for every thread
   count and every schedule, bit for bit, since each task is a deterministic function of the elements it touches and
   the order of the accumulations into any one element is fixed by program order and barriers.
   Law-free: any cell type, any value type; a task is any state transformer that respects its footprint.
   Also: the parallel reductions of the vector kernels equal their sequential definition for every chunking (exact
   arithmetic; the rounding of a re-associated floating-point sum is modelled, not verified). *)
From Coq Require Import List Bool Permutation Reals Lra.
Import ListNotations.

Section Determinism.
  Variables cell V : Type.
  Definition state := cell -> V.
  Definition seq (s s' : state) : Prop := forall c, s c = s' c.

  (* a task with a footprint: it changes only what it writes, and what it writes depends only on what it touches *)
  Record atask := mkTask {
    wr_ : cell -> bool; tch_ : cell -> bool; eff : state -> state;
    wr_tch : forall c, wr_ c = true -> tch_ c = true;
    frame : forall s c, wr_ c = false -> eff s c = s c;
    local : forall s s', (forall c, tch_ c = true -> s c = s' c) -> forall c, wr_ c = true -> eff s c = eff s' c }.

  Definition indep (a b : atask) : Prop :=
    forall c, (wr_ a c && tch_ b c = false) /\ (wr_ b c && tch_ a c = false).

  Lemma indep_sym a b : indep a b -> indep b a.
  Proof. intros H c. destruct (H c) as [H1 H2]. split; assumption. Qed.

  Lemma eff_seq a s s' : seq s s' -> seq (eff a s) (eff a s').
  Proof.
    intros H c. destruct (wr_ a c) eqn:E.
    - apply (local a); [intros c' _; apply H|exact E].
    - rewrite !(frame a) by exact E. apply H.
  Qed.

  Lemma indep_commute a b s : indep a b -> seq (eff a (eff b s)) (eff b (eff a s)).
  Proof.
    intros I c. destruct (wr_ a c) eqn:Ea; destruct (wr_ b c) eqn:Eb.
    - (* both write c: excluded, a write is a touch *)
      destruct (I c) as [H1 _]. rewrite Ea, (wr_tch b c Eb) in H1. discriminate.
    - (* only a writes c *)
      rewrite (frame b (eff a s) c Eb). apply (local a); [|exact Ea].
      intros c' Hc'. apply (frame b). destruct (I c') as [_ H2]. rewrite Hc' in H2.
      destruct (wr_ b c'); [discriminate|reflexivity].
    - rewrite (frame a (eff b s) c Ea). symmetry. apply (local b); [|exact Eb].
      intros c' Hc'. apply (frame a). destruct (I c') as [H1 _]. rewrite Hc' in H1.
      destruct (wr_ a c'); [discriminate|reflexivity].
    - rewrite (frame a _ c Ea), (frame b _ c Eb), (frame b _ c Eb), (frame a _ c Ea). reflexivity.
  Qed.

  Fixpoint run (l : list atask) (s : state) : state :=
    match l with [] => s | t :: r => run r (eff t s) end.

  Lemma run_seq l : forall s s', seq s s' -> seq (run l s) (run l s').
  Proof. induction l as [|t r IH]; intros s s' H; cbn [run]; [exact H|]. apply IH. apply eff_seq. exact H. Qed.

  (* every two DIFFERENT positions of the list hold independent tasks *)
  Inductive pairwise_indep : list atask -> Prop :=
  | pi_nil : pairwise_indep []
  | pi_cons t r : (forall u, In u r -> indep t u) -> pairwise_indep r -> pairwise_indep (t :: r).

  Lemma pairwise_perm l l' : Permutation l l' -> pairwise_indep l -> pairwise_indep l'.
  Proof.
    intros P. induction P as [|x l l' P IH|x y l|l l' l'' P1 IH1 P2 IH2]; intros H.
    - exact H.
    - inversion H as [|? ? Hx Hr]; subst. constructor; [|apply IH; exact Hr].
      intros u Hu. apply Hx. apply (Permutation_in u (Permutation_sym P)). exact Hu.
    - inversion H as [|? ? Hy Hr]; subst. inversion Hr as [|? ? Hx Hl]; subst.
      constructor.
      + intros u [<-|Hu]; [apply indep_sym; apply Hy; left; reflexivity|apply Hx; exact Hu].
      + constructor; [|exact Hl]. intros u Hu. apply Hy. right. exact Hu.
    - apply IH2. apply IH1. exact H.
  Qed.

  (* the result of a phase does not depend on the order in which its iterations run *)
  Theorem schedule_irrelevant l l' : Permutation l l' -> pairwise_indep l -> forall s, seq (run l s) (run l' s).
  Proof.
    intros P. induction P as [|x l l' P IH|x y l|l l' l'' P1 IH1 P2 IH2]; intros H s.
    - intros c. reflexivity.
    - cbn [run]. inversion H; subst. apply IH. assumption.
    - cbn [run]. inversion H as [|? ? Hy Hr]; subst. apply run_seq. apply indep_commute. apply indep_sym.
      apply Hy. left. reflexivity.
    - intros c. rewrite (IH1 H s c). apply IH2. apply (pairwise_perm _ _ P1). exact H.
  Qed.
End Determinism.

(* ---- reductions: any chunking of the index range, chunks combined in any order ---- *)
Section Reductions.
  Local Open Scope R_scope.
  Definition rsum (l : list R) : R := fold_right Rplus 0 l.
  Definition rmax0 (l : list R) : R := fold_right Rmax 0 l.

  Lemma rsum_app a b : rsum (a ++ b) = rsum a + rsum b.
  Proof.
    induction a as [|x a IH]; [cbn [app]; unfold rsum at 2; cbn [fold_right]; lra|].
    cbn [app]. unfold rsum in *. cbn [fold_right]. rewrite IH. lra.
  Qed.

  (* each thread sums its chunk, the partial sums are added: the sum of all terms *)
  Theorem chunked_sum chunks : rsum (map rsum chunks) = rsum (concat chunks).
  Proof.
    induction chunks as [|c r IH]; cbn [map concat]; [reflexivity|].
    rewrite rsum_app. unfold rsum in *. cbn [fold_right]. rewrite IH. reflexivity.
  Qed.

  (* the partial results may be combined in any order *)
  Theorem sum_permutation l l' : Permutation l l' -> rsum l = rsum l'.
  Proof.
    intros P. unfold rsum. induction P as [|x l l' P IH|x y l|l l' l'' P1 IH1 P2 IH2]; cbn [fold_right] in *; try lra.
  Qed.

  Lemma rmax0_nonneg l : 0 <= rmax0 l.
  Proof. unfold rmax0. induction l as [|x l IH]; cbn [fold_right]; [lra|]. apply Rle_trans with (1 := IH). apply Rmax_r. Qed.

  Lemma rmax0_app_eq a b : rmax0 (a ++ b) = Rmax (rmax0 a) (rmax0 b).
  Proof.
    induction a as [|x a IH].
    - cbn [app]. unfold rmax0 at 2. cbn [fold_right]. symmetry. apply Rmax_right. apply rmax0_nonneg.
    - cbn [app]. unfold rmax0 in *. cbn [fold_right]. rewrite IH. rewrite Rmax_assoc. reflexivity.
  Qed.

  Theorem chunked_max chunks : rmax0 (map rmax0 chunks) = rmax0 (concat chunks).
  Proof.
    induction chunks as [|c r IH]; cbn [map concat]; [reflexivity|].
    rewrite rmax0_app_eq. unfold rmax0 in *. cbn [fold_right]. rewrite IH. reflexivity.
  Qed.
End Reductions.

(* ---- interleavings: adjacent tasks of DIFFERENT iterations may be exchanged ---- *)
Section Interleavings.
  Variables cell V : Type.
  Notation atask := (atask cell V).

  Inductive swap_equiv : list atask -> list atask -> Prop :=
  | se_refl l : swap_equiv l l
  | se_swap l1 a b l2 : indep cell V a b -> swap_equiv (l1 ++ a :: b :: l2) (l1 ++ b :: a :: l2)
  | se_trans l1 l2 l3 : swap_equiv l1 l2 -> swap_equiv l2 l3 -> swap_equiv l1 l3.

  Lemma run_app l1 l2 (s : state cell V) : run cell V (l1 ++ l2) s = run cell V l2 (run cell V l1 s).
  Proof. revert s. induction l1 as [|t r IH]; intros s; cbn [run app]; [reflexivity|apply IH]. Qed.

  (* every execution obtained from the program order by exchanging neighbouring independent tasks ends in the same state *)
  Theorem swap_equiv_same_result l l' : swap_equiv l l' -> forall s, seq cell V (run cell V l s) (run cell V l' s).
  Proof.
    intros E. induction E as [l|l1 a b l2 I|l1 l2 l3 E1 IH1 E2 IH2]; intros s.
    - intros c. reflexivity.
    - rewrite !run_app. cbn [run]. apply run_seq. apply indep_commute. apply indep_sym. exact I.
    - intros c. rewrite (IH1 s c). apply IH2.
  Qed.
End Interleavings.

(* ---- link with the regions of C11: conflict freedom of two task calls IS independence of their semantics ---- *)
From Coq Require Import ZArith.
From GMGP Require Import ParDefs.

Section Link.
  Variable V : Type.
  Variable d : dims.
  (* any semantics of the task functions that respects the (validated) footprints *)
  Variable sem : task -> atask ParDefs.cell V.
  Hypothesis sem_wr : forall t c, wr_ _ _ (sem t) c = writes d t c.
  Hypothesis sem_tch : forall t c, tch_ _ _ (sem t) c = touches d t c.

  Lemma no_conflict_indep t1 t2 : (forall c, conflict_at d t1 t2 c = false) -> indep _ _ (sem t1) (sem t2).
  Proof.
    intros H c. specialize (H c). unfold conflict_at in H. apply orb_false_iff in H. destruct H as [H1 H2].
    rewrite !sem_wr, !sem_tch. split; assumption.
  Qed.

  (* in a race-free region, the calls of two iterations that may overlap are independent: by swap_equiv_same_result every
     interleaving of them that keeps each iteration's own order gives the state of the sequential program order *)
  Theorem race_free_iterations_independent region : race_free region d ->
    forall it1 it2, In (it1, it2) (concurrent_iterations region d) ->
    forall t1 t2, In t1 it1 -> In t2 it2 -> indep _ _ (sem t1) (sem t2).
  Proof. intros RF it1 it2 Hin t1 t2 H1 H2. apply no_conflict_indep. apply (RF it1 it2 Hin t1 t2 H1 H2). Qed.
End Link.

From Coq Require Import Lia.
From GMGP Require Import KernelDefs.
Lemma threads_on_level_range (maxT q : Z) : (1 <= maxT)%Z -> (1 <= threads_on_level maxT q <= maxT)%Z.
Proof. intros H. unfold threads_on_level. lia. Qed.
