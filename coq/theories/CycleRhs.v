(* CycleRhs.v -- C02 / C10: no event of setup()+solve() writes a right-hand-side buffer, on any level, for every
   number of levels, cycle type, smoothing counts, FMG variant and oracle.  In particular the level-1 right-hand
   side f_2h of the implicitly extrapolated system 4/3 (f_h - A_h u) - 1/3 (f_2h - A_2h u) is what setup() built
   during the whole solve.  The implementation side of this statement is the K-trace oracle
   `extrapolation-coarse-rhs-preserved` (levels_[1].rhs() compared bit for bit before / after solve()). *)
From Coq Require Import List Arith Bool Lia.
From GMGP Require Import CycleDefs CycleProofs.
Import ListNotations.

Definition no_rhs (ops : list ev) : Prop := forall b, In b (all_writes ops) -> snd b <> Rhs.

Lemma no_rhs_nil : no_rhs [].
Proof. intros b []. Qed.
Lemma no_rhs_app a b : no_rhs a -> no_rhs b -> no_rhs (a ++ b).
Proof. intros Ha Hb x H. rewrite all_writes_app in H. apply in_app_iff in H. destruct H; [apply Ha|apply Hb]; assumption. Qed.
Lemma no_rhs_repeat e n : (forall b, In b (ev_writes e) -> snd b <> Rhs) -> no_rhs (repeat e n).
Proof. intros He b H. apply all_writes_repeat in H. apply He. exact H. Qed.
Lemma no_rhs_concat_repeat ops n : no_rhs ops -> no_rhs (concat (repeat ops n)).
Proof. intros H. induction n as [|n IH]; cbn [repeat concat]; [apply no_rhs_nil|apply no_rhs_app; assumption]. Qed.
Lemma no_rhs_one e : (forall b, In b (ev_writes e) -> snd b <> Rhs) -> no_rhs [e].
Proof. intros He b H. unfold all_writes in H. cbn [flat_map] in H. rewrite app_nil_r in H. apply He. exact H. Qed.
Lemma no_rhs_cons e ops : (forall b, In b (ev_writes e) -> snd b <> Rhs) -> no_rhs ops -> no_rhs (e :: ops).
Proof. intros He Ho. change (no_rhs ([e] ++ ops)). apply no_rhs_app; [apply no_rhs_one; exact He|exact Ho]. Qed.

Ltac wr := let b := fresh "b" in let H := fresh "H" in
  intros b H; cbn [ev_writes e_op e_bufs In] in H;
  repeat match goal with H : _ \/ _ |- _ => destruct H as [H|H] end; try contradiction; subst; cbn [snd]; try assumption; discriminate.

Theorem cyc_no_rhs rem k d pre post x f r : snd x <> Rhs -> snd r <> Rhs -> no_rhs (cyc k rem d pre post x f r).
Proof.
  intros Hx Hr b H. destruct (cyc_writes _ _ _ _ _ _ _ _ _ H) as [->|[->|[_ Hn]]]; assumption.
Qed.

Theorem ecyc_no_rhs rem k pre post fgs x f r : snd x <> Rhs -> snd r <> Rhs -> no_rhs (ecyc k rem pre post fgs x f r).
Proof.
  intros Hx Hr. unfold ecyc.
  assert (Hsm : forall n, no_rhs (repeat (if fgs then mkEv OSmooth 0 [x; f; r] else mkEv OExtSmooth 0 [x; f; r]) n)).
  { intros n. apply no_rhs_repeat. destruct fgs; wr. }
  assert (Hc : forall kk rm, no_rhs (cyc kk rm 1 pre post (1, Res) (1, Err) (1, Sol))).
  { intros kk rm. apply cyc_no_rhs; cbn; discriminate. }
  apply no_rhs_app; [apply Hsm|]. apply no_rhs_app; [|apply no_rhs_app; [|apply Hsm]].
  - destruct rem as [|[|rem2]]; [apply no_rhs_nil| |].
    + repeat (apply no_rhs_cons; [wr|]). apply no_rhs_nil.
    + apply no_rhs_app; [repeat (apply no_rhs_cons; [wr|]); apply no_rhs_nil|].
      destruct k; [apply Hc|apply no_rhs_app; apply Hc|apply no_rhs_app; apply Hc].
  - repeat (apply no_rhs_cons; [wr|]). apply no_rhs_nil.
Qed.

Lemma top_cycle_no_rhs k L pre post extrap fgs : no_rhs (top_cycle k L pre post extrap fgs).
Proof. unfold top_cycle. destruct extrap; [apply ecyc_no_rhs|apply cyc_no_rhs]; cbn; discriminate. Qed.

Lemma stop_test_no_rhs extrap has_exact : no_rhs (stop_test extrap has_exact).
Proof.
  unfold stop_test. apply no_rhs_app; [destruct has_exact; [apply no_rhs_one; wr|apply no_rhs_nil]|].
  apply no_rhs_app; [apply no_rhs_one; wr|]. apply no_rhs_app; [|apply no_rhs_one; wr].
  destruct extrap; [repeat (apply no_rhs_cons; [wr|])|]; apply no_rhs_nil.
Qed.

Lemma fmg_levels_no_rhs fk iters pre post extrap fgs L : forall cl, no_rhs (fmg_levels fk iters pre post extrap fgs L cl).
Proof.
  induction cl as [|c IH]; cbn [fmg_levels]; [apply no_rhs_nil|].
  apply no_rhs_app; [apply no_rhs_one; wr|]. apply no_rhs_app; [|exact IH].
  apply no_rhs_concat_repeat. destruct ((c =? 0) && extrap); [apply ecyc_no_rhs|apply cyc_no_rhs]; cbn; discriminate.
Qed.

Lemma init_no_rhs fmg fk iters pre post extrap fgs L : no_rhs (init_ops fmg fk iters pre post extrap fgs L).
Proof.
  unfold init_ops. destruct fmg; [|apply no_rhs_one; wr].
  apply no_rhs_app; [repeat (apply no_rhs_cons; [wr|]); apply no_rhs_nil|apply fmg_levels_no_rhs].
Qed.

Lemma solve_loop_no_rhs : forall maxit k L pre post extrap combined has_exact tol fgs it oracle,
  no_rhs (fst (fst (solve_loop k L pre post extrap combined has_exact tol fgs it maxit oracle))).
Proof.
  induction maxit as [|m IH]; intros k L pre post extrap combined has_exact tol fgs it oracle; cbn [solve_loop]; [apply no_rhs_nil|].
  destruct tol.
  - destruct oracle as [|[conv slow] orest]; [apply no_rhs_nil|].
    destruct conv.
    + cbn [fst]. apply no_rhs_app; [apply stop_test_no_rhs|apply no_rhs_one; wr].
    + specialize (IH k L pre post extrap combined has_exact true
                     (if combined && slow && fgs && negb (it =? 0) then false else fgs) (S it) orest).
      destruct (solve_loop k L pre post extrap combined has_exact true _ (S it) m orest) as [[restev itf] fgsf].
      cbn [fst] in *. apply no_rhs_app; [apply stop_test_no_rhs|]. apply no_rhs_app; [apply top_cycle_no_rhs|exact IH].
  - specialize (IH k L pre post extrap combined has_exact false fgs (S it) oracle).
    destruct (solve_loop k L pre post extrap combined has_exact false fgs (S it) m oracle) as [[restev itf] fgsf].
    cbn [fst] in *. apply no_rhs_app; [destruct has_exact; [apply no_rhs_one; wr|apply no_rhs_nil]|].
    apply no_rhs_app; [apply top_cycle_no_rhs|exact IH].
Qed.

(* the whole of setup()'s start + solve(): every right-hand side, on every level, is read-only *)
Theorem solve_never_writes_rhs :
  forall fmg fk iters k L pre post extrap combined has_exact tol fgs maxit oracle l,
  ~ In (l, Rhs) (all_writes (init_ops fmg fk iters pre post extrap fgs L
                             ++ fst (fst (solve_loop k L pre post extrap combined has_exact tol fgs 0 maxit oracle)))).
Proof.
  intros fmg fk iters k L pre post extrap combined has_exact tol fgs maxit oracle l H.
  assert (G : no_rhs (init_ops fmg fk iters pre post extrap fgs L
                      ++ fst (fst (solve_loop k L pre post extrap combined has_exact tol fgs 0 maxit oracle)))).
  { apply no_rhs_app; [apply init_no_rhs|apply solve_loop_no_rhs]. }
  apply (G _ H). reflexivity.
Qed.
