(* CheckParamsDefs.v -- C18: the STL idioms PolarGrid::checkParameters is written with, as list functions over the scalar
   interface (std::adjacent_find with a comparator, std::all_of, std::is_sorted, front / back, the antipodal-partner search).
   gen/CheckParamsGen.v (translator T12) combines them exactly as the source does. *)
From Coq Require Import List ZArith Bool.
From GMGP Require Import Scalar.
Import ListNotations.

Section CheckParams.
  Context {S : Sc}.
  Local Open Scope sc_scope.

  Definition size_lt (l : list S) (n : Z) : bool := (Z.of_nat (length l) <? n)%Z.
  Definition all_gt0 (l : list S) : bool := forallb (fun r => sltb s0 r) l.                 (* r > 0.0 *)
  Definition all_ge0 (l : list S) : bool := forallb (fun t => negb (sltb t s0)) l.          (* theta >= 0.0 *)
  (* std::adjacent_find(first, last, pred) != last  <->  some adjacent pair (a, b) satisfies pred a b *)
  Fixpoint adjacent_exists (p : S -> S -> bool) (l : list S) : bool :=
    match l with
    | a :: ((b :: _) as rest) => p a b || adjacent_exists p rest
    | _ => false
    end.
  Definition adj_ge (l : list S) : bool := adjacent_exists (fun a b => negb (sltb a b)) l.   (* greater_equal: a >= b *)
  Definition adj_gt (l : list S) : bool := adjacent_exists (fun a b => sltb b a) l.          (* greater: a > b; also !is_sorted *)
  Definition first_eqv (eqv : S -> S -> bool) (l : list S) (c : S) : bool :=
    match l with [] => false | a :: _ => eqv a c end.
  Definition last_eqv (eqv : S -> S -> bool) (l : list S) (c : S) : bool :=
    match rev l with [] => false | a :: _ => eqv a c end.
  Definition antipodes_ok (eqv : S -> S -> bool) (pi : S) (angles : list S) : bool :=
    forallb (fun theta =>
               let opposite := if negb (sltb (theta + pi) (s2 * pi)) then theta - pi else theta + pi in
               existsb (fun angle => eqv opposite angle) angles) angles.

  (* the specification: what an accepted pair of node vectors must satisfy *)
  Fixpoint strictly_increasing (l : list S) : Prop :=
    match l with
    | a :: ((b :: _) as rest) => sltb a b = true /\ strictly_increasing rest
    | _ => True
    end.
End CheckParams.
