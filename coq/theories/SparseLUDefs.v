(* SparseLUDefs.v -- executable model of SparseMatrixCSR + SparseLUSolver::factorizeWithHashing
   and solveInPlace (C16).  Rows are finite maps Z -> S represented as association lists with
   unique keys (std::unordered_map semantics: operator[] inserts a zero, assignment overwrites). *)
From Coq Require Import List ZArith Bool.
From GMGP Require Import Scalar.
Import ListNotations.
Local Open Scope sc_scope.

Section LU.
  Context {S : Sc}.

  Definition row := list (Z * S).

  Fixpoint lookup (j : Z) (r : row) : option S :=
    match r with
    | [] => None
    | (k, v) :: r' => if Z.eqb k j then Some v else lookup j r'
    end.
  Definition get0 (j : Z) (r : row) : S := match lookup j r with Some v => v | None => s0 end.

  (* row[j] = v : overwrite if present, insert otherwise *)
  Fixpoint set_entry (j : Z) (v : S) (r : row) : row :=
    match r with
    | [] => [(j, v)]
    | (k, w) :: r' => if Z.eqb k j then (k, v) :: r' else (k, w) :: set_entry j v r'
    end.

  (* loading a CSR row: later duplicates of a column overwrite earlier ones *)
  Definition load (entries : list (Z * S)) : row :=
    fold_left (fun r e => set_entry (fst e) (snd e) r) entries [].

  (* one elimination step of row i with the finished U-row j (j < i) *)
  Definition elim_step (j : Z) (Uj : row) (r : row) : row :=
    match lookup j r with
    | None => r
    | Some a =>
        let m := a / get0 j Uj in
        let r1 := set_entry j m r in
        fold_left (fun r' e => if Z.ltb j (fst e) then set_entry (fst e) (get0 (fst e) r' - m * snd e) r' else r')
                  Uj r1
    end.

  (* eliminate with U rows 0 .. i-1 in ascending order *)
  Fixpoint elim_all (j : Z) (Us : list row) (r : row) : row :=
    match Us with
    | [] => r
    | Uj :: Us' => elim_all (j + 1) Us' (elim_step j Uj r)
    end.

  Definition split_L (i : Z) (r : row) : row := filter (fun e => Z.ltb (fst e) i) r.
  Definition split_U (i : Z) (r : row) : row := filter (fun e => negb (Z.ltb (fst e) i)) r.

  (* factorise: rows in order; returns (L rows, U rows) *)
  Fixpoint factor_rows (i : Z) (rows : list (list (Z * S))) (Ls Us : list row) : list row * list row :=
    match rows with
    | [] => (Ls, Us)
    | a :: rest =>
        let w := elim_all 0 Us (load a) in
        factor_rows (i + 1) rest (Ls ++ [split_L i w]) (Us ++ [split_U i w])
    end.
  Definition lu_factor (rows : list (list (Z * S))) : list row * list row := factor_rows 0 rows [] [].

  (* vectors as lists *)
  Definition vget (b : list S) (i : Z) : S := nth (Z.to_nat i) b s0.
  Fixpoint vset (b : list S) (i : nat) (v : S) : list S :=
    match b, i with
    | [], _ => []
    | _ :: r, O => v :: r
    | x :: r, Datatypes.S k => x :: vset r k v
    end.

  (* forward: b[i] -= sum L_ij b[j] (rows ascending; in place) *)
  Fixpoint fwd_rows (i : nat) (Ls : list row) (b : list S) : list S :=
    match Ls with
    | [] => b
    | Li :: rest =>
        let bi := fold_left (fun acc e => acc - snd e * vget b (fst e)) Li (vget b (Z.of_nat i)) in
        fwd_rows (Datatypes.S i) rest (vset b i bi)
    end.

  (* backward: rows descending; diag looked up in the row, other entries subtracted *)
  Fixpoint bwd_rows (Us_rev : list row) (i : nat) (b : list S) : list S :=
    match Us_rev, i with
    | Ui :: rest, Datatypes.S k =>
        let acc := fold_left (fun acc e => if Z.eqb (fst e) (Z.of_nat k) then acc else acc - snd e * vget b (fst e))
                             Ui (vget b (Z.of_nat k)) in
        let d := get0 (Z.of_nat k) Ui in
        bwd_rows rest k (vset b k (acc / d))
    | _, _ => b
    end.

  Definition lu_solve (LU : list row * list row) (b : list S) : list S :=
    let y := fwd_rows 0 (fst LU) b in
    bwd_rows (rev (snd LU)) (length (snd LU)) y.

  (* dense reference: (A x)_i with duplicates resolved as the solver resolves them (last wins) *)
  Definition row_apply (r : row) (x : list S) : S := fold_left (fun acc e => acc + snd e * vget x (fst e)) r s0.
  Definition csr_apply (rows : list (list (Z * S))) (x : list S) : list S := map (fun a => row_apply (load a) x) rows.

  (* smallest pivot magnitude is read off the U rows by the harness: U_ii *)
  Definition pivots (LU : list row * list row) : list S :=
    map (fun p => get0 (Z.of_nat (fst p)) (snd p)) (combine (seq 0 (length (snd LU))) (snd LU)).

  (* CSR container: triplet constructor (entries sorted by row) -> rows *)
  Definition csr_of_triplets (nrows : nat) (ts : list (Z * Z * S)) : list (list (Z * S)) :=
    map (fun r => map (fun t => (snd (fst t), snd t)) (filter (fun t => Z.eqb (fst (fst t)) (Z.of_nat r)) ts))
        (seq 0 nrows).
  (* CSR container: three-array constructor *)
  Fixpoint csr_of_arrays (vals : list S) (cols : list Z) (starts : list Z) : list (list (Z * S)) :=
    match starts with
    | a :: ((b :: _) as rest) =>
        let n := Z.to_nat (b - a) in
        let k := Z.to_nat a in
        combine (firstn n (skipn k cols)) (firstn n (skipn k vals)) :: csr_of_arrays vals cols rest
    | _ => []
    end.
End LU.
