(* StencilDefs.v -- executable model of the discrete operator A (C03, C04, C05, C02):
   * A_take_row : the documented 9-point (7-point across the origin) stencil in gather form,
                  transcribed from NODE_APPLY_RESIDUAL_TAKE (src/Residual/ResidualTake/applyResidualTake.cpp)
   * A_give     : what each node scatters, transcribed from NODE_APPLY_A_GIVE
                  (src/Residual/ResidualGive/applyAGive.cpp)
   Rows and columns are (i_r, i_theta) pairs; the storage permutation is C17's business. *)
From Coq Require Import List ZArith Bool.
From GMGP Require Import Scalar InterpDefs.
Import ListNotations.
Local Open Scope Z_scope.

Section Stencil.
  Context {S : Sc}.
  Local Open Scope sc_scope.

  Variable nr nth : Z.
  Variable h : Z -> S.              (* radial spacings  h i = r_{i+1} - r_i          *)
  Variable k : Z -> S.              (* angular spacings k j = theta_{j+1} - theta_j  *)
  Variable R0 : S.                  (* radius(0) *)
  Variable arr att art det : Z -> Z -> S.   (* per-node coefficients (cache arrays / compute_jacobian_elements) *)
  Variable beta : Z -> S.           (* coeff_beta[i_r] *)
  Variable dirbc : bool.            (* DirBC_Interior *)

  Definition wt (j : Z) : Z := wrap1 nth j.
  Definition kk (j : Z) : S := k (wt j).
  Definition across (j : Z) : Z := wt (j + Z.quot nth 2)%Z.

  Definition entry := ((Z * Z) * S)%type.             (* column, value *)
  Definition contrib := (((Z * Z) * (Z * Z)) * S)%type.   (* row, column, value *)

  (* the four "coeff" factors of a node; hl is h1 (replaced by 2 R0 across the origin) *)
  Definition c1 (hl : S) (j : Z) : S := shalf * (kk (j - 1) + kk j) / hl.
  Definition c2 (i j : Z) : S := shalf * (kk (j - 1) + kk j) / h i.
  Definition c3 (hl : S) (i j : Z) : S := shalf * (hl + h i) / kk (j - 1).
  Definition c4 (hl : S) (i j : Z) : S := shalf * (hl + h i) / kk j.
  Definition mass (hl : S) (i j : Z) : S :=
    squarter * (hl + h i) * (kk (j - 1) + kk j) * beta i * sabs (det i j).

  (* ------------------------------------------------------------------ *)
  (* take: row (i,j) gathers                                              *)
  (* ------------------------------------------------------------------ *)
  Definition A_take_row (i j : Z) : list entry :=
    let jm := wt (j - 1) in let jp := wt (j + 1) in
    if (0 <? i) && (i <? nr - 1) then
      let hl := h (i - 1) in
      let l := (i - 1)%Z in let r := (i + 1)%Z in
      [ ((i, j), mass hl i j
                 + c1 hl j * (arr i j + arr l j) + c2 i j * (arr i j + arr r j)
                 + c3 hl i j * (att i j + att i jm) + c4 hl i j * (att i j + att i jp));
        ((l, j), - (c1 hl j * (arr i j + arr l j)));
        ((r, j), - (c2 i j * (arr i j + arr r j)));
        ((i, jm), - (c3 hl i j * (att i j + att i jm)));
        ((i, jp), - (c4 hl i j * (att i j + att i jp)));
        ((l, jm), - (squarter * (art l j + art i jm)));
        ((r, jm), squarter * (art r j + art i jm));
        ((l, jp), squarter * (art l j + art i jp));
        ((r, jp), - (squarter * (art r j + art i jp))) ]
    else if i =? 0 then
      if dirbc then [((i, j), s1)]
      else
        let hl := s2 * R0 in
        let ja := across j in
        let r := (i + 1)%Z in
        [ ((i, j), mass hl i j
                   + c1 hl j * (arr i j + arr i ja) + c2 i j * (arr i j + arr r j)
                   + c3 hl i j * (att i j + att i jm) + c4 hl i j * (att i j + att i jp));
          ((i, ja), - (c1 hl j * (arr i j + arr i ja)));
          ((r, j), - (c2 i j * (arr i j + arr r j)));
          ((i, jm), - (c3 hl i j * (att i j + att i jm)));
          ((i, jp), - (c4 hl i j * (att i j + att i jp)));
          ((r, jm), squarter * (art r j + art i jm));
          ((r, jp), - (squarter * (art r j + art i jp))) ]
    else [((i, j), s1)].

  (* ------------------------------------------------------------------ *)
  (* give: node (i,j) scatters, using only ITS OWN coefficients           *)
  (* ------------------------------------------------------------------ *)
  Definition give_center (hl : S) (i j : Z) (lcol : Z * Z) : list contrib :=
    let a := arr i j in let t := att i j in
    [ (((i, j), (i, j)), mass hl i j + ((c1 hl j + c2 i j) * a + (c3 hl i j + c4 hl i j) * t));
      (((i, j), lcol), - (c1 hl j * a));
      (((i, j), ((i + 1)%Z, j)), - (c2 i j * a));
      (((i, j), (i, wt (j - 1))), - (c3 hl i j * t));
      (((i, j), (i, wt (j + 1))), - (c4 hl i j * t)) ].
  (* to the row of the left neighbour (i-1, j) *)
  Definition give_left (hl : S) (i j : Z) : list contrib :=
    let a := arr i j in let rt := art i j in
    let row := ((i - 1)%Z, j) in
    [ ((row, (i, j)), - (c1 hl j * a));
      ((row, row), c1 hl j * a);
      ((row, (i, wt (j + 1))), - (squarter * rt));
      ((row, (i, wt (j - 1))), squarter * rt) ].
  Definition give_right (i j : Z) : list contrib :=
    let a := arr i j in let rt := art i j in
    let row := ((i + 1)%Z, j) in
    [ ((row, (i, j)), - (c2 i j * a));
      ((row, row), c2 i j * a);
      ((row, (i, wt (j + 1))), squarter * rt);
      ((row, (i, wt (j - 1))), - (squarter * rt)) ].
  Definition give_bottom (hl : S) (i j : Z) (with_left : bool) : list contrib :=
    let t := att i j in let rt := art i j in
    let row := (i, wt (j - 1)) in
    [ ((row, (i, j)), - (c3 hl i j * t));
      ((row, row), c3 hl i j * t);
      ((row, ((i + 1)%Z, j)), - (squarter * rt)) ]
    ++ (if with_left then [ ((row, ((i - 1)%Z, j)), squarter * rt) ] else []).
  Definition give_top (hl : S) (i j : Z) (with_left : bool) : list contrib :=
    let t := att i j in let rt := art i j in
    let row := (i, wt (j + 1)) in
    [ ((row, (i, j)), - (c4 hl i j * t));
      ((row, row), c4 hl i j * t);
      ((row, ((i + 1)%Z, j)), squarter * rt) ]
    ++ (if with_left then [ ((row, ((i - 1)%Z, j)), - (squarter * rt)) ] else []).

  Definition A_give (i j : Z) : list contrib :=
    if (1 <? i) && (i <? nr - 2) then
      let hl := h (i - 1) in
      give_center hl i j ((i - 1)%Z, j) ++ give_left hl i j ++ give_right i j
        ++ give_bottom hl i j true ++ give_top hl i j true
    else if i =? 0 then
      if dirbc then [ (((i, j), (i, j)), s1) ] ++ give_right i j
      else
        let hl := s2 * R0 in
        let ja := across j in
        give_center hl i j (i, ja)
          ++ [ (((i, ja), (i, j)), - (c1 hl j * arr i j)); (((i, ja), (i, ja)), c1 hl j * arr i j) ]
          ++ give_right i j ++ give_bottom hl i j false ++ give_top hl i j false
    else if i =? 1 then
      let hl := h (i - 1) in
      give_center hl i j ((i - 1)%Z, j) ++ (if dirbc then [] else give_left hl i j) ++ give_right i j
        ++ give_bottom hl i j true ++ give_top hl i j true
    else if i =? nr - 2 then
      let hl := h (i - 1) in
      give_center hl i j ((i - 1)%Z, j) ++ give_left hl i j
        ++ give_bottom hl i j true ++ give_top hl i j true
    else if i =? nr - 1 then
      [ (((i, j), (i, j)), s1) ] ++ give_left (h (i - 1)) i j
    else [].

  (* the nodes that can scatter into row (i,j) *)
  Definition sources (i j : Z) : list (Z * Z) :=
    [ (i, j); ((i - 1)%Z, j); ((i + 1)%Z, j); (i, wt (j - 1)); (i, wt (j + 1)) ]
    ++ (if (i =? 0) && negb dirbc then [ (i, across j) ] else []).
  Definition in_grid_b (p : Z * Z) : bool := (0 <=? fst p) && (fst p <? nr) && (0 <=? snd p) && (snd p <? nth).
  Definition pair_eqb (p q : Z * Z) : bool := (fst p =? fst q) && (snd p =? snd q).

  (* what source node s scatters into row (i,j) *)
  Definition give_into (i j : Z) (s : Z * Z) : list entry :=
    if in_grid_b s
    then map (fun c => (snd (fst c), snd c))
             (filter (fun c => pair_eqb (fst (fst c)) (i, j)) (A_give (fst s) (snd s)))
    else [].
  (* row (i,j) of the operator the give kernel applies: everything scattered into that row *)
  Definition A_give_row (i j : Z) : list entry := flat_map (give_into i j) (sources i j).

  (* bilinear form of what ONE node scatters:  sum over its contributions  v * x(col) * y(row).
     The give kernel computes result[row] += v * x[col] for every contribution of every node, so
     <A x, y> is the sum of [bil i j x y] over all nodes. *)
  Definition bil (i j : Z) (x y : Z -> Z -> S) : S :=
    fold_right (fun c acc => snd c * x (fst (snd (fst c))) (snd (snd (fst c)))
                                  * y (fst (fst (fst c))) (snd (fst (fst c))) + acc) s0 (A_give i j).
  Fixpoint sum_nodes (f : Z -> Z -> S) (nodes : list (Z * Z)) : S :=
    match nodes with [] => s0 | p :: r => f (fst p) (snd p) + sum_nodes f r end.
  (* <A x, y> over a list of nodes (the harness / the driver uses all grid nodes) *)
  Definition form (nodes : list (Z * Z)) (x y : Z -> Z -> S) : S := sum_nodes (fun i j => bil i j x y) nodes.

  (* right-hand side weights (discretize_rhs_f): f is multiplied by the mass weight at non-Dirichlet nodes *)
  Definition rhs_weight (i j : Z) : S :=
    if (0 <? i) && (i <? nr - 1) then squarter * (h (i - 1) + h i) * (kk (j - 1) + kk j) * sabs (det i j)
    else if (i =? 0) && negb dirbc then squarter * (s2 * R0 + h i) * (kk (j - 1) + kk j) * sabs (det i j)
    else s1.
End Stencil.
