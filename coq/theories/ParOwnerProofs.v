(* ParOwnerProofs.v -- C11: the sufficient condition of ParOwnerDefs implies race freedom, for every grid size, thread count
   and schedule; and every region translator T2b regenerates from the sources satisfies it. *)
From Coq Require Import List ZArith Bool String Lia.
From GMGP Require Import ParDefs ParProofs ParOwnerDefs.
From GMGPGen Require Import ParOwnerGen.
Import ListNotations.
Local Open Scope Z_scope.

Lemma mem_str_In a l : mem_str a l = true <-> In a l.
Proof.
  unfold mem_str. rewrite existsb_exists. split.
  - intros [x [Hx He]]. apply String.eqb_eq in He. subst. exact Hx.
  - intros H. exists a. split; [exact H|apply String.eqb_refl].
Qed.

Lemma wtarget_eqb_eq a b : wtarget_eqb a b = true -> a = b.
Proof. destruct a as [[] []|[]|], b as [[] []|[]|]; cbn; congruence. Qed.

(* the cell of an owner target determines the outer iteration *)
Lemma owner_cell_outer tg o1 o2 n1 n2 x y :
  owner_target tg = true -> tcell tg o1 n1 x y -> tcell tg o2 n2 x y -> o1 = o2.
Proof. destruct tg as [[] []|[]|]; cbn; try discriminate; intros _ [? ?] [? ?]; lia. Qed.

(* ... and lies in the loop's rectangle *)
Lemma owner_cell_in_rect l tg d o n x y :
  owner_target tg = true -> ol_olo l d <= o < ol_ohi l d -> ol_ilo l d <= n < ol_ihi l d -> tcell tg o n x y ->
  let '(r1, r2, c1, c2) := rect l tg d in r1 <= x < r2 /\ c1 <= y < c2.
Proof. destruct tg as [[] []|[]|]; cbn; try discriminate; intros _ Ho Hn [? ?]; lia. Qed.

Lemma loop_ok_spec l : loop_ok l = true ->
  (forall a tg, In (a, tg) (ol_writes l) -> owner_target tg = true) /\
  (forall a tg1 tg2, In (a, tg1) (ol_writes l) -> In (a, tg2) (ol_writes l) -> tg1 = tg2) /\
  (forall a tg, In (a, tg) (ol_writes l) -> ~ In a (ol_foreign l) /\ ~ In a (ol_reads_nw l)).
Proof.
  unfold loop_ok. rewrite !andb_true_iff, !forallb_forall. intros [[H1 H2] H3]. repeat split.
  - intros a tg Hin. exact (H1 _ Hin).
  - intros a tg1 tg2 Hi1 Hi2. specialize (H2 _ Hi1). rewrite forallb_forall in H2. specialize (H2 _ Hi2).
    cbn [fst snd] in H2. rewrite String.eqb_refl in H2. cbn in H2. apply wtarget_eqb_eq. exact H2.
  - specialize (H3 _ H). cbn [fst] in H3. apply andb_true_iff in H3. destruct H3 as [H3 _].
    intros Hc. apply mem_str_In in Hc. rewrite Hc in H3. discriminate.
  - specialize (H3 _ H). cbn [fst] in H3. apply andb_true_iff in H3. destruct H3 as [_ H3].
    intros Hc. apply mem_str_In in Hc. rewrite Hc in H3. discriminate.
Qed.

Lemma names_ok_spec l1 l2 : names_ok l1 l2 = true ->
  (forall a tg, In (a, tg) (ol_writes l1) -> ~ In a (ol_foreign l2) /\ ~ In a (ol_reads_nw l2)) /\
  (forall a tg, In (a, tg) (ol_writes l2) -> ~ In a (ol_foreign l1) /\ ~ In a (ol_reads_nw l1)).
Proof.
  unfold names_ok. rewrite !andb_true_iff, !forallb_forall. intros [[_ H1] H2].
  split; intros a tg Hin; [specialize (H1 _ Hin)|specialize (H2 _ Hin)]; cbn [fst] in *;
    match goal with H : _ && _ = true |- _ => apply andb_true_iff in H; destruct H as [Ha Hb] end;
    split; intros Hc; apply mem_str_In in Hc; rewrite Hc in *; discriminate.
Qed.

Theorem region_ok_race_free region d : region_ok region d -> race_free_owner region d.
Proof.
  intros [Hloops Hpairs]. rewrite forallb_forall in Hloops. split.
  - (* two iterations of one loop *)
    intros l Hl o1 o2 Hne [[a x] y]. destruct (loop_ok_spec l (Hloops l Hl)) as [Hown [Huniq Hnames]].
    split.
    + intros [[Ho1 [tg1 [n1 [Hi1 [Hn1 Hc1]]]]] [[Ho2 [tg2 [n2 [Hi2 [Hn2 Hc2]]]]]|Hr]].
      * assert (tg1 = tg2) by (eapply Huniq; eassumption). subst tg2.
        apply Hne. eapply owner_cell_outer; [eapply Hown; exact Hi1|exact Hc1|exact Hc2].
      * destruct (Hnames _ _ Hi1) as [Hf Hr']. destruct Hr; contradiction.
    + intros [[Ho2 [tg2 [n2 [Hi2 [Hn2 Hc2]]]]] Hr].
      destruct (Hnames _ _ Hi2) as [Hf Hr']. destruct Hr; contradiction.
  - (* iterations of two loops not separated by a barrier *)
    intros l1 l2 Hin o1 o2 [[a x] y]. destruct (Hpairs l1 l2 Hin) as [Hn Hrect].
    destruct (names_ok_spec l1 l2 Hn) as [N12 N21].
    assert (Hl1 : In l1 region /\ In l2 region).
    { clear -Hin. induction region as [|p rest IH]; cbn in Hin; [contradiction|].
      apply in_app_or in Hin. destruct Hin as [Hin|Hin].
      - apply in_map_iff in Hin. destruct Hin as [q [Heq Hq]]. inversion Heq; subst. split; [left; reflexivity|right].
        clear -Hq. revert Hq. generalize (ol_nowait l1). induction rest as [|r more IHr]; intros b Hq; cbn in Hq; [contradiction|].
        destruct b; [|contradiction]. destruct Hq as [->|Hq]; [left; reflexivity|right; eapply IHr; exact Hq].
      - destruct (IH Hin). split; right; assumption. }
    destruct Hl1 as [Hl1 Hl2].
    destruct (loop_ok_spec l1 (Hloops l1 Hl1)) as [Hown1 _]. destruct (loop_ok_spec l2 (Hloops l2 Hl2)) as [Hown2 _].
    split.
    + intros [[Ho1 [tg1 [n1 [Hi1 [Hn1 Hc1]]]]] [[Ho2 [tg2 [n2 [Hi2 [Hn2 Hc2]]]]]|Hr]].
      * specialize (Hrect a tg1 tg2 Hi1 Hi2).
        pose proof (owner_cell_in_rect l1 tg1 d o1 n1 x y (Hown1 _ _ Hi1) Ho1 Hn1 Hc1) as R1.
        pose proof (owner_cell_in_rect l2 tg2 d o2 n2 x y (Hown2 _ _ Hi2) Ho2 Hn2 Hc2) as R2.
        destruct (rect l1 tg1 d) as [[[r1 r2] c1] c2]. destruct (rect l2 tg2 d) as [[[s1 s2] e1] e2].
        cbn in Hrect. lia.
      * destruct (N12 _ _ Hi1). destruct Hr; contradiction.
    + intros [[Ho2 [tg2 [n2 [Hi2 [Hn2 Hc2]]]]] Hr].
      destruct (N21 _ _ Hi2). destruct Hr; contradiction.
Qed.

(* ---- every generated region satisfies the condition, for every grid ---- *)
Ltac rects :=
  intros a tg1 tg2 H1 H2; cbn [ol_writes In] in H1, H2;
  repeat match goal with
         | H : _ \/ _ |- _ => destruct H
         | H : False |- _ => contradiction
         | H : (_, _) = (_, _) |- _ => inversion H; subst; clear H
         end; cbn; lia.

Ltac owner_region :=
  match goal with |- region_ok ?r ?d => let r' := eval hnf in r in change (region_ok r' d) end;
  split; [vm_compute; reflexivity|];
  intros l1 l2 Hin; cbn [concurrent_loops later_loops map app ol_nowait] in Hin;
  repeat match goal with
         | H : In _ [] |- _ => contradiction
         | H : In _ (_ :: _) |- _ => destruct H as [H|H]
         | H : (_, _) = (_, _) |- _ => inversion H; subst; clear H
         | H : False |- _ => contradiction
         end; (split; [vm_compute; reflexivity|rects]).

Theorem all_owner_regions_race_free : forall d, valid d ->
  Forall (fun r => race_free_owner (snd r) d) gen_owner_regions.
Proof.
  intros d [V1 [V2 V3]]. unfold gen_owner_regions.
  repeat (apply Forall_cons; [cbn [snd]; apply region_ok_race_free; owner_region|]). apply Forall_nil.
Qed.

(* non-vacuity: the grid transfer regions do have concurrent loop pairs *)
Example prolongation_has_concurrent_pair : exists r, In r gen_owner_regions /\ concurrent_loops (snd r) <> [].
Proof. exists ("src/Interpolation/injection.cpp:18"%string, oreg_injection_0). split; [cbn; tauto|cbn; discriminate]. Qed.
