(* Properties_C13.v -- statements only.  C13: a solver object can be reused.
   (1) vectors: a complete solve (start-up + loop) reads no buffer except the right-hand sides before
       writing it, for every configuration -- stale work vectors of earlier solves cannot influence it;
   (2) scalars: the object-level state a solve reads (smoothing-mode flag, residual history, iteration
       counter) is modelled by [entry_state]; solve() must start from it whatever happened before.  The
       correspondence compares the last solve of random histories with the model started from the FRESH
       entry state (exact op-trace) and with a freshly constructed object (observations). *)
From Coq Require Import List Arith Bool.
From GMGP Require Import CycleDefs CycleProofs.
Import ListNotations.

Theorem C13_solve_reads_only_problem_data :
  forall fmg fk iters k L pre post extrap combined has_exact tol fgs maxit oracle, 2 <= L ->
  rd_ok (rhs_bufs L) []
    (init_ops fmg fk iters pre post extrap fgs L
     ++ fst (fst (solve_loop k L pre post extrap combined has_exact tol fgs 0 maxit oracle))).
Proof. exact solve_reads_only_problem_data. Qed.

(* object-level scalars: the state every solve must start from is a function of the options alone *)
Record sstate := { s_fgs : bool; s_norms : nat; s_errors : nat; s_iters : nat }.
Inductive hstep := HSetup (mode : nat) | HSolve (mode : nat) (fgs_after : bool) (norms errors iters : nat).
Definition fgs_of_mode (mode : nat) : bool := negb (mode =? 1).
Definition entry_state (mode : nat) : sstate := {| s_fgs := fgs_of_mode mode; s_norms := 0; s_errors := 0; s_iters := 0 |}.
(* specification of solve()'s prologue: reset everything the loop reads *)
Definition hrun (s : sstate) (st : hstep) : sstate :=
  match st with
  | HSetup mode => {| s_fgs := fgs_of_mode mode; s_norms := s_norms s; s_errors := s_errors s; s_iters := s_iters s |}
  | HSolve mode fa n e i => {| s_fgs := fa; s_norms := n; s_errors := e; s_iters := i |}
  end.
Definition solve_entry (s : sstate) (mode : nat) : sstate := entry_state mode.

Theorem C13_entry_state_independent_of_history : forall (h : list hstep) (s0 : sstate) mode,
  solve_entry (fold_left hrun h s0) mode = entry_state mode.
Proof. intros. reflexivity. Qed.

Print Assumptions C13_solve_reads_only_problem_data.
