(* ObjectsDefs.v -- value-semantics model of the special member functions of the linear-algebra
   classes (C15).  WHICH member each special member function transfers is not written here:
   it is regenerated from the headers by translate/t5_special_members.py (gen/SpecialMembersGen.v). *)
From Coq Require Import String List ZArith Bool.
From GMGP Require Import Scalar TridiagDefs.
Import ListNotations.
Local Open Scope string_scope.

Inductive kind := KScalar | KArr | KVec.
Inductive tgt := TCopy | TMove | TDeep (alloc len : string) | TNone.
Inductive srca := SKeep | SNull | SReset (lit : string).
Record rule := mkRule { r_name : string; r_kind : kind; r_tgt : tgt; r_src : srca }.

(* class invariants: number of elements each array member holds, as the value constructors
   allocate them (hand-written; the strings are the normalised C++ expressions) *)
Definition inv_Vector := [("values_", "size_")].
Definition inv_SparseMatrixCOO := [("row_indices_", "nnz_"); ("column_indices_", "nnz_"); ("values_", "nnz_")].
Definition inv_SparseMatrixCSR := [("values_", "nnz_"); ("column_indices_", "nnz_"); ("row_start_indices_", "rows_+1")].
Definition inv_SparseLUSolver : list (string * string) := [].
Definition inv_SymmetricTridiagonalSolver :=
  [("main_diagonal_values_", "matrix_dimension_"); ("sub_diagonal_values_", "matrix_dimension_-1")].
Definition inv_DiagonalSolver := [("diagonal_values_", "matrix_dimension_")].

Fixpoint assoc (k : string) (l : list (string * string)) : option string :=
  match l with
  | [] => None
  | (a, b) :: r => if String.eqb a k then Some b else assoc k r
  end.

(* variables an allocation-size expression mentions (the expressions are of the shape v or v+1 / v-1) *)
Definition size_var (e : string) : string :=
  match index 0 "+" e, index 0 "-" e with
  | Some i, _ => substring 0 i e
  | None, Some i => substring 0 i e
  | None, None => e
  end.

(* does the target receive the complete value of the source's member? *)
Definition transfers (inv : list (string * string)) (is_move : bool) (r : rule) : bool :=
  match r_tgt r with
  | TCopy => true
  | TMove => is_move
  | TDeep a l =>
      match assoc (r_name r) inv with
      | Some n => String.eqb l n && String.eqb a n
      | None => false
      end
  | TNone => false
  end.

Definition copy_complete (inv : list (string * string)) (rules : list rule) : bool :=
  forallb (transfers inv false) rules.

(* copy assignment re-allocates only under a size test: every variable an array size depends on
   must be compared by that test, otherwise a stale (too small) buffer is written through *)
Definition realloc_guarded (inv : list (string * string)) (vars : list string) : bool :=
  forallb (fun p => existsb (String.eqb (size_var (snd p))) vars) inv.

(* after a move the source must be empty: containers null, every size variable reset to 0 *)
Definition source_emptied (inv : list (string * string)) (r : rule) : bool :=
  match r_kind r with
  | KArr | KVec => match r_src r with SNull => true | _ => false end
  | KScalar =>
      if existsb (fun p => String.eqb (size_var (snd p)) (r_name r)) inv
      then match r_src r with SReset "0" => true | _ => false end
      else true
  end.

Definition move_complete (inv : list (string * string)) (rules : list rule) : bool :=
  forallb (transfers inv true) rules && forallb (source_emptied inv) rules.

(* ---- object states ---- *)
Section Obj.
  Context {S : Sc}.

  Inductive value :=
  | VInt (z : Z) | VBool (b : bool) | VSc (x : S)
  | VArr (a : option (list S)) | VIArr (a : option (list Z))
  | VVec (v : list S) | VIVec (v : list Z).

  Definition obj := list (string * value).

  Fixpoint field (k : string) (o : obj) : option value :=
    match o with
    | [] => None
    | (a, v) :: r => if String.eqb a k then Some v else field k r
    end.

  (* the value a member of the target has after the operation *)
  Definition target_value (inv : list (string * string)) (is_move : bool) (r : rule)
             (src_v dst_v : value) : value :=
    if transfers inv is_move r then src_v else dst_v.

  Definition null_of (v : value) : value :=
    match v with
    | VArr _ => VArr None | VIArr _ => VIArr None | VVec _ => VVec [] | VIVec _ => VIVec []
    | other => other
    end.

  Definition reset_value (lit : string) (v : value) : value :=
    match v with
    | VInt _ => if String.eqb lit "0" then VInt 0 else v
    | VBool _ => if String.eqb lit "true" then VBool true else if String.eqb lit "false" then VBool false else v
    | VSc _ => if String.eqb lit "0.0" || String.eqb lit "0" then VSc s0 else v
    | other => other
    end.

  Definition source_value (r : rule) (v : value) : value :=
    match r_src r with
    | SKeep => v
    | SNull => null_of v
    | SReset lit => reset_value lit v
    end.

  (* objects list their members in declaration order, like the rules *)
  Fixpoint apply_target (inv : list (string * string)) (is_move : bool) (rules : list rule) (src dst : obj) : obj :=
    match rules, src, dst with
    | r :: rs, (n, sv) :: src', (_, dv) :: dst' =>
        (n, target_value inv is_move r sv dv) :: apply_target inv is_move rs src' dst'
    | _, _, _ => []
    end.

  Fixpoint apply_source (rules : list rule) (src : obj) : obj :=
    match rules, src with
    | r :: rs, (n, sv) :: src' => (n, source_value r sv) :: apply_source rs src'
    | _, _ => []
    end.

  (* ---- SymmetricTridiagonalSolver as an object ---- *)
  Definition obj_of_tri (t : tri) : obj :=
    [("matrix_dimension_", VInt (t_dim t)); ("main_diagonal_values_", VArr (t_main t));
     ("sub_diagonal_values_", VArr (t_sub t)); ("cyclic_corner_element_", VSc (t_corner t));
     ("is_cyclic_", VBool (t_cyclic t)); ("factorized_", VBool (t_fact t)); ("gamma_", VSc (t_gamma t))].

  Definition tri_of_obj (o : obj) : tri :=
    mkTri (match field "matrix_dimension_" o with Some (VInt z) => z | _ => 0%Z end)
          (match field "main_diagonal_values_" o with Some (VArr a) => a | _ => None end)
          (match field "sub_diagonal_values_" o with Some (VArr a) => a | _ => None end)
          (match field "cyclic_corner_element_" o with Some (VSc x) => x | _ => s0 end)
          (match field "is_cyclic_" o with Some (VBool b) => b | _ => true end)
          (match field "factorized_" o with Some (VBool b) => b | _ => false end)
          (match field "gamma_" o with Some (VSc x) => x | _ => s0 end).

  (* default-constructed solver: what a constructor that does not mention a member leaves in it *)
  Definition tri_default : @tri S := mkTri 0 None None s0 true false s0.
End Obj.
