(* SparseLUSolve.v -- C16 / C04: the substitution loops of the hash-map LU are exact, hence A (solve b) = b
   (exact arithmetic, every matrix size, any storage order), given the LU identity of SparseLUElim.v. *)
From Coq Require Import List ZArith Bool Lia Reals Lra.
From GMGP Require Import Scalar ScalarR SparseLUDefs SparseLUProofs SparseLUElim.
Import ListNotations.
Local Open Scope R_scope.

(* ---- dense sums over the columns 0 .. n-1 ---- *)
Fixpoint dsum (n : nat) (f : nat -> R) : R := match n with O => 0 | S m => dsum m f + f m end.

Lemma dsum_ext n f g : (forall t, (t < n)%nat -> f t = g t) -> dsum n f = dsum n g.
Proof. induction n as [|n IH]; intros H; cbn [dsum]; [reflexivity|]. rewrite IH by (intros; apply H; lia). rewrite (H n) by lia. reflexivity. Qed.

Lemma dsum_plus n f g : dsum n (fun t => f t + g t) = dsum n f + dsum n g.
Proof. induction n as [|n IH]; cbn [dsum]; [ring|]. rewrite IH. ring. Qed.

Lemma dsum_scal n c f : dsum n (fun t => c * f t) = c * dsum n f.
Proof. induction n as [|n IH]; cbn [dsum]; [ring|]. rewrite IH. ring. Qed.

Lemma dsum_zero n f : (forall t, (t < n)%nat -> f t = 0) -> dsum n f = 0.
Proof. induction n as [|n IH]; intros H; cbn [dsum]; [reflexivity|]. rewrite IH by (intros; apply H; lia). rewrite (H n) by lia. ring. Qed.

(* a single non-zero term *)
Lemma dsum_single n c (v : R) : (c < n)%nat -> dsum n (fun t => if (t =? c)%nat then v else 0) = v.
Proof.
  induction n as [|n IH]; intros H; [lia|]. cbn [dsum]. destruct (Nat.eq_dec c n) as [->|Hne].
  - rewrite Nat.eqb_refl. rewrite dsum_zero; [ring|]. intros t Ht. destruct (Nat.eqb_spec t n); [lia|reflexivity].
  - rewrite IH by lia. destruct (Nat.eqb_spec n c); [lia|ring].
Qed.

(* vectors *)
Definition vg (b : list R) (i : Z) : R := @vget Rsc b i.

Lemma vg_nat (b : list R) t : vg b (Z.of_nat t) = nth t b 0.
Proof. unfold vg, vget. rewrite Nat2Z.id. reflexivity. Qed.

Lemma nth_vset : forall (b : list R) i v t, (i < length b)%nat -> nth t (@vset Rsc b i v) 0 = if (t =? i)%nat then v else nth t b 0.
Proof.
  induction b as [|x b IH]; intros i v t Hi; [cbn in Hi; lia|]. destruct i as [|i]; destruct t as [|t]; cbn [vset nth Nat.eqb]; try reflexivity.
  apply IH. cbn [length] in Hi. lia.
Qed.

Lemma length_vset : forall (b : list R) i v, length (@vset Rsc b i v) = length b.
Proof. induction b as [|x b IH]; intros i v; [reflexivity|]. destruct i; cbn [vset length]; [reflexivity|]. f_equal. apply IH. Qed.

(* ---- a loop over the stored entries of a row is the dense sum over its columns ---- *)
Definition keys_in (r : @row Rsc) (n : nat) : Prop := forall k, In k (map fst r) -> (0 <= k < Z.of_nat n)%Z.

Lemma g0_cons c v (r : @row Rsc) k : g0 k ((c, v) :: r) = if Z.eqb c k then v else g0 k r.
Proof. unfold g0, get0. cbn [lookup]. destruct (Z.eqb c k); reflexivity. Qed.

Lemma g0_nil k : g0 k [] = 0.
Proof. reflexivity. Qed.

Lemma g0_notin k (r : @row Rsc) : ~ In k (map fst r) -> g0 k r = 0.
Proof. intros H. unfold g0, get0. rewrite (lookup_notin k r H). reflexivity. Qed.

Lemma row_sum_cons n c v (r : @row Rsc) (f : Z -> R) : (0 <= c < Z.of_nat n)%Z -> ~ In c (map fst r) ->
  dsum n (fun t => g0 (Z.of_nat t) ((c, v) :: r) * f (Z.of_nat t)) = v * f c + dsum n (fun t => g0 (Z.of_nat t) r * f (Z.of_nat t)).
Proof.
  intros Hc Hni.
  rewrite (dsum_ext n _ (fun t => (if (t =? Z.to_nat c)%nat then v * f c else 0) + g0 (Z.of_nat t) r * f (Z.of_nat t))).
  - rewrite dsum_plus. rewrite dsum_single by lia. reflexivity.
  - intros t Ht. rewrite g0_cons. destruct (Z.eqb_spec c (Z.of_nat t)) as [E|E]; destruct (Nat.eqb_spec t (Z.to_nat c)) as [E2|E2]; try lia.
    + subst c. rewrite (g0_notin _ r Hni). ring.
    + ring.
Qed.

Lemma fold_sub_is_sum (f : Z -> R) n : forall (r : @row Rsc) (a : R), NoDup (map fst r) -> keys_in r n ->
  fold_left (fun (acc : R) (e : Z * R) => acc - snd e * f (fst e)) r a = a - dsum n (fun t => g0 (Z.of_nat t) r * f (Z.of_nat t)).
Proof.
  induction r as [|[c v] r IH]; intros a Hnd Hk; cbn [fold_left fst snd].
  - rewrite dsum_zero; [ring|]. intros t _. rewrite g0_nil. ring.
  - cbn [map fst] in Hnd. inversion Hnd as [|? ? Hni Hnd']; subst.
    rewrite IH; [|exact Hnd'|intros k Hin; apply Hk; right; exact Hin].
    rewrite row_sum_cons; [ring|apply Hk; left; reflexivity|exact Hni].
Qed.

Lemma fold_add_is_sum (f : Z -> R) n : forall (r : @row Rsc) (a : R), NoDup (map fst r) -> keys_in r n ->
  fold_left (fun (acc : R) (e : Z * R) => acc + snd e * f (fst e)) r a = a + dsum n (fun t => g0 (Z.of_nat t) r * f (Z.of_nat t)).
Proof.
  induction r as [|[c v] r IH]; intros a Hnd Hk; cbn [fold_left fst snd].
  - rewrite dsum_zero; [ring|]. intros t _. rewrite g0_nil. ring.
  - cbn [map fst] in Hnd. inversion Hnd as [|? ? Hni Hnd']; subst.
    rewrite IH; [|exact Hnd'|intros k Hin; apply Hk; right; exact Hin].
    rewrite row_sum_cons; [ring|apply Hk; left; reflexivity|exact Hni].
Qed.

(* the backward loop skips the diagonal entry *)
Lemma fold_sub_skip_is_sum (f : Z -> R) n d : forall (r : @row Rsc) (a : R), NoDup (map fst r) -> keys_in r n ->
  fold_left (fun (acc : R) (e : Z * R) => if Z.eqb (fst e) d then acc else acc - snd e * f (fst e)) r a =
  a - dsum n (fun t => if Z.eqb (Z.of_nat t) d then 0 else g0 (Z.of_nat t) r * f (Z.of_nat t)).
Proof.
  induction r as [|[c v] r IH]; intros a Hnd Hk; cbn [fold_left fst snd].
  - rewrite dsum_zero; [ring|]. intros t _. destruct (Z.eqb (Z.of_nat t) d); [reflexivity|]. rewrite g0_nil. ring.
  - cbn [map fst] in Hnd. inversion Hnd as [|? ? Hni Hnd']; subst.
    assert (Hc : (0 <= c < Z.of_nat n)%Z) by (apply Hk; left; reflexivity).
    rewrite IH; [|exact Hnd'|intros k Hin; apply Hk; right; exact Hin].
    destruct (Z.eqb_spec c d) as [E|E].
    + f_equal. apply dsum_ext. intros t Ht. destruct (Z.eqb_spec (Z.of_nat t) d) as [|E2]; [reflexivity|].
      rewrite g0_cons. destruct (Z.eqb_spec c (Z.of_nat t)); [lia|reflexivity].
    + rewrite (dsum_ext n (fun t => if Z.eqb (Z.of_nat t) d then 0 else g0 (Z.of_nat t) ((c, v) :: r) * f (Z.of_nat t))
                        (fun t => (if (t =? Z.to_nat c)%nat then v * f c else 0) + (if Z.eqb (Z.of_nat t) d then 0 else g0 (Z.of_nat t) r * f (Z.of_nat t)))).
      * rewrite dsum_plus, dsum_single by lia. ring.
      * intros t Ht. rewrite g0_cons.
        destruct (Z.eqb_spec (Z.of_nat t) d) as [E2|E2]; destruct (Z.eqb_spec c (Z.of_nat t)) as [E3|E3];
          destruct (Nat.eqb_spec t (Z.to_nat c)) as [E4|E4]; try lia; try ring.
        subst c. rewrite (g0_notin _ r Hni). ring.
Qed.

(* ---- forward substitution ---- *)
Fixpoint L_ok (i : nat) (Ls : list (@row Rsc)) (n : nat) : Prop :=
  match Ls with
  | [] => True
  | L :: rest => NoDup (map fst L) /\ keys_in L n /\ (forall k, (i <= k)%nat -> g0 (Z.of_nat k) L = 0) /\ L_ok (S i) rest n
  end.

Lemma fwd_rows_spec : forall (Ls : list (@row Rsc)) (i : nat) (b : list R) (n : nat),
  n = length b -> (i + length Ls <= n)%nat -> L_ok i Ls n ->
  let y := @fwd_rows Rsc i Ls b in
  length y = n /\
  (forall t, (t < i)%nat -> nth t y 0 = nth t b 0) /\
  (forall t, (i + length Ls <= t)%nat -> nth t y 0 = nth t b 0) /\
  (forall s, (s < length Ls)%nat ->
     nth (i + s) y 0 = nth (i + s) b 0 - dsum n (fun k => g0 (Z.of_nat k) (nth s Ls []) * nth k y 0)).
Proof.
  induction Ls as [|L rest IH]; intros i b n Hn Hlen Hok; cbn [fwd_rows length] in *.
  - repeat split; auto. intros s Hs. lia.
  - destruct Hok as [Hnd [Hk [Hlow Hrest]]].
    cbv zeta. match goal with |- context [@vset Rsc b i ?v] => set (bi := v) end.
    assert (Hbi : bi = nth i b 0 - dsum n (fun k => g0 (Z.of_nat k) L * nth k b 0)).
    { unfold bi. transitivity (fold_left (fun (acc : R) (e : Z * R) => acc - snd e * vg b (fst e)) L (vg b (Z.of_nat i))); [reflexivity|].
      rewrite (fold_sub_is_sum (vg b) n L _ Hnd Hk). rewrite vg_nat. f_equal. apply dsum_ext. intros k _. rewrite vg_nat. reflexivity. }
    set (b1 := @vset Rsc b i bi) in *.
    assert (Hb1 : forall t, nth t b1 0 = if (t =? i)%nat then bi else nth t b 0) by (intros t; apply nth_vset; lia).
    destruct (IH (S i) b1 n) as [Hl [Hbelow [Habove Hrows]]].
    + unfold b1. rewrite length_vset. exact Hn.
    + lia.
    + exact Hrest.
    + split; [exact Hl|]. split; [|split].
      * intros t Ht. rewrite Hbelow by lia. rewrite Hb1. destruct (Nat.eqb_spec t i); [lia|reflexivity].
      * intros t Ht. rewrite Habove by lia. rewrite Hb1. destruct (Nat.eqb_spec t i); [lia|reflexivity].
      * intros s Hs. destruct s as [|s].
        -- replace (i + 0)%nat with i by lia. cbn [nth]. rewrite Hbelow by lia. rewrite Hb1, Nat.eqb_refl. rewrite Hbi.
           f_equal. apply dsum_ext. intros k Hk'. destruct (Nat.lt_ge_cases k i) as [Hki|Hki].
           ++ rewrite Hbelow by lia. rewrite Hb1. destruct (Nat.eqb_spec k i); [lia|reflexivity].
           ++ rewrite (Hlow k Hki). ring.
        -- replace (i + S s)%nat with (S i + s)%nat by lia. cbn [nth]. rewrite (Hrows s) by lia. rewrite Hb1.
           destruct (Nat.eqb_spec (S i + s) i); [lia|reflexivity].
Qed.

(* ---- backward substitution ---- *)
(* Urev = [U_{k-1}; ...; U_0]: unique columns inside 0..n-1, nothing left of the diagonal, non-zero diagonal *)
Fixpoint Urev_ok (k : nat) (Urev : list (@row Rsc)) (n : nat) : Prop :=
  match Urev, k with
  | [], O => True
  | U :: rest, S k' => NoDup (map fst U) /\ keys_in U n /\ (forall t, (t < k')%nat -> g0 (Z.of_nat t) U = 0) /\ g0 (Z.of_nat k') U <> 0 /\ Urev_ok k' rest n
  | _, _ => False
  end.

Lemma bwd_rows_spec : forall (Urev : list (@row Rsc)) (k : nat) (b : list R) (n : nat),
  n = length b -> (k <= n)%nat -> Urev_ok k Urev n ->
  let x := @bwd_rows Rsc Urev k b in
  length x = n /\
  (forall t, (k <= t)%nat -> nth t x 0 = nth t b 0) /\
  (forall p, (p < k)%nat ->
     dsum n (fun t => g0 (Z.of_nat t) (nth (k - 1 - p) Urev []) * nth t x 0) = nth p b 0).
Proof.
  induction Urev as [|U rest IH]; intros k b n Hn Hk Hok; destruct k as [|k']; cbn [Urev_ok] in Hok; try contradiction.
  - cbn [bwd_rows]. repeat split; auto. intros p Hp. lia.
  - destruct Hok as [Hnd [Hkeys [Hlow [Hpiv Hrest]]]]. cbn [bwd_rows].
    cbv zeta. match goal with |- context [@sdiv Rsc ?v _] => set (acc := v) end.
    assert (Hacc : acc = nth k' b 0 - dsum n (fun t => if Z.eqb (Z.of_nat t) (Z.of_nat k') then 0 else g0 (Z.of_nat t) U * nth t b 0)).
    { unfold acc. transitivity (fold_left (fun (acc : R) (e : Z * R) => if Z.eqb (fst e) (Z.of_nat k') then acc else acc - snd e * vg b (fst e)) U (vg b (Z.of_nat k'))); [reflexivity|].
      rewrite (fold_sub_skip_is_sum (vg b) n (Z.of_nat k') U _ Hnd Hkeys). rewrite vg_nat. f_equal. apply dsum_ext. intros t _.
      rewrite vg_nat. reflexivity. }
    set (d := @get0 Rsc (Z.of_nat k') U). change d with (g0 (Z.of_nat k') U) in *.
    set (xk := @sdiv Rsc acc (g0 (Z.of_nat k') U)).
    assert (Hxk : xk = acc / g0 (Z.of_nat k') U) by reflexivity.
    set (b1 := @vset Rsc b k' xk) in *.
    assert (Hb1 : forall t, nth t b1 0 = if (t =? k')%nat then xk else nth t b 0) by (intros t; apply nth_vset; lia).
    destruct (IH k' b1 n) as [Hl [Habove Hrows]].
    + unfold b1. rewrite length_vset. exact Hn.
    + lia.
    + exact Hrest.
    + split; [exact Hl|]. split.
      * intros t Ht. rewrite Habove by lia. rewrite Hb1. destruct (Nat.eqb_spec t k'); [lia|reflexivity].
      * intros p Hp. destruct (Nat.eq_dec p k') as [->|Hne].
        -- replace (S k' - 1 - k')%nat with 0%nat by lia. cbn [nth].
           (* row k': diagonal term + the rest *)
           rewrite (dsum_ext n _ (fun t => (if (t =? k')%nat then g0 (Z.of_nat k') U * xk else 0)
                                           + (if Z.eqb (Z.of_nat t) (Z.of_nat k') then 0 else g0 (Z.of_nat t) U * nth t b 0))).
           ++ rewrite dsum_plus, dsum_single by lia. rewrite Hxk, Hacc. field. exact Hpiv.
           ++ intros t Ht. destruct (Nat.eqb_spec t k') as [Et|Ht']; destruct (Z.eqb_spec (Z.of_nat t) (Z.of_nat k')) as [E|E]; try lia.
              ** subst t. rewrite Habove by lia. rewrite Hb1, Nat.eqb_refl. ring.
              ** destruct (Nat.lt_ge_cases t k') as [Hlt|Hge].
                 --- rewrite (Hlow t Hlt). ring.
                 --- rewrite Habove by lia. rewrite Hb1. destruct (Nat.eqb_spec t k'); [lia|ring].
        -- replace (S k' - 1 - p)%nat with (S (k' - 1 - p)) by lia. cbn [nth]. rewrite (Hrows p) by lia. rewrite Hb1.
           destruct (Nat.eqb_spec p k'); [lia|reflexivity].
Qed.

(* ---- structure of the stored factors: unique columns inside the matrix, L strictly lower, U upper with non-zero diagonal ---- *)
Lemma keys_set_entry n j (v : R) (r : @row Rsc) : NoDup (map fst r) -> keys_in r n -> (0 <= j < Z.of_nat n)%Z -> keys_in (@set_entry Rsc j v r) n.
Proof.
  intros Hnd Hk Hj k Hin. apply (proj2 (@set_entry_keys Rsc j v r Hnd)) in Hin. destruct Hin as [->|Hin]; [exact Hj|apply Hk; exact Hin].
Qed.

Lemma keys_fold_upd n j (m : R) : forall (Uj r1 : @row Rsc), NoDup (map fst r1) -> keys_in r1 n -> keys_in Uj n ->
  keys_in (fold_left (@upd_fun Rsc j m) Uj r1) n.
Proof.
  induction Uj as [|[a u] Uj IH]; intros r1 Hnd Hk HU; cbn [fold_left]; [exact Hk|].
  assert (Ha : (0 <= a < Z.of_nat n)%Z) by (apply HU; left; reflexivity).
  assert (HU' : keys_in Uj n) by (intros k Hin; apply HU; right; exact Hin).
  apply IH; unfold upd_fun; cbn [fst snd]; destruct (Z.ltb j a); auto.
  - apply set_entry_keys. exact Hnd.
  - apply keys_set_entry; auto.
Qed.

Lemma lookup_some_in j (r : @row Rsc) a : lookup j r = Some a -> In j (map fst r).
Proof.
  induction r as [|[c v] r IH]; cbn [lookup map fst]; [discriminate|]. destruct (Z.eqb_spec c j) as [->|]; [left; reflexivity|].
  intros H. right. apply IH. exact H.
Qed.

Lemma keys_elim_step n j (Uj r : @row Rsc) : NoDup (map fst r) -> keys_in r n -> keys_in Uj n -> keys_in (elim_step j Uj r) n.
Proof.
  intros Hnd Hk HU. unfold elim_step. destruct (lookup j r) as [a|] eqn:El; [|exact Hk].
  cbv zeta. fold (@upd_fun Rsc j (@sdiv Rsc a (@get0 Rsc j Uj))). apply keys_fold_upd; auto.
  - apply set_entry_keys. exact Hnd.
  - apply keys_set_entry; auto. apply Hk. apply (lookup_some_in j r a El).
Qed.

Lemma keys_elim_all n : forall (Us : list (@row Rsc)) j (r : @row Rsc), NoDup (map fst r) -> keys_in r n ->
  (forall U, In U Us -> keys_in U n) -> keys_in (elim_all j Us r) n.
Proof.
  induction Us as [|U Us IH]; intros j r Hnd Hk HU; cbn [elim_all]; [exact Hk|].
  apply IH; [apply elim_step_nodup; exact Hnd| |intros V HV; apply HU; right; exact HV].
  apply keys_elim_step; auto. apply HU. left. reflexivity.
Qed.

Lemma keys_filter n (p : Z * R -> bool) (r : @row Rsc) : keys_in r n -> keys_in (filter p r) n.
Proof.
  intros Hk k Hin. apply Hk. clear Hk. induction r as [|e r IH]; cbn [filter map] in *; [contradiction|].
  destruct (p e); cbn [map In] in *; intuition.
Qed.

Lemma keys_load n (es : list (Z * R)) : (forall e, In e es -> (0 <= fst e < Z.of_nat n)%Z) -> keys_in (@load Rsc es) n.
Proof.
  intros H. unfold load.
  cut (forall r : @row Rsc, NoDup (map fst r) -> keys_in r n ->
         NoDup (map fst (fold_left (fun (r : @row Rsc) (e : Z * T Rsc) => @set_entry Rsc (fst e) (snd e) r) es r)) /\
         keys_in (fold_left (fun (r : @row Rsc) (e : Z * T Rsc) => @set_entry Rsc (fst e) (snd e) r) es r) n).
  { intros G. refine (proj2 (G [] _ _)); [constructor|intros k []]. }
  revert H. induction es as [|e es IH]; intros H r Hnd Hk; cbn [fold_left]; [split; assumption|].
  apply IH.
  - intros e' He'. apply H. right. exact He'.
  - apply set_entry_keys. exact Hnd.
  - apply keys_set_entry; auto. apply H. left. reflexivity.
Qed.

(* per-row structure of what factor_rows appends *)
Definition L_row_ok (i : nat) (n : nat) (L : @row Rsc) : Prop :=
  NoDup (map fst L) /\ keys_in L n /\ (forall k, (i <= k)%nat -> g0 (Z.of_nat k) L = 0).
Definition U_row_ok (n : nat) (U : @row Rsc) : Prop := NoDup (map fst U) /\ keys_in U n.

Lemma factor_rows_struct n : forall rows i (Ls Us : list (@row Rsc)),
  (forall a, In a rows -> forall e, In e a -> (0 <= fst e < Z.of_nat n)%Z) ->
  (forall U, In U Us -> keys_in U n) ->
  forall Ls' Us', @factor_rows Rsc (Z.of_nat i) rows Ls Us = (Ls ++ Ls', Us ++ Us') -> length Ls' = length rows -> length Us' = length rows ->
  (forall s L, nth_error Ls' s = Some L -> L_row_ok (i + s) n L) /\ (forall s U, nth_error Us' s = Some U -> U_row_ok n U).
Proof.
  induction rows as [|a rest IH]; intros i Ls Us Hrows HUs Ls' Us' E L1 L2.
  - destruct Ls'; [|discriminate]. destruct Us'; [|discriminate]. split; intros s X H; destruct s; discriminate.
  - cbn [factor_rows] in E. set (w := elim_all 0 Us (@load Rsc a)) in *.
    assert (Hwnd : NoDup (map fst w)) by (apply elim_all_nodup, load_nodup).
    assert (Hwk : keys_in w n).
    { apply keys_elim_all; [apply load_nodup| |exact HUs]. apply keys_load. intros e He. apply (Hrows a); [left; reflexivity|exact He]. }
    destruct Ls' as [|L0 Ls']; [discriminate|]. destruct Us' as [|U0 Us']; [discriminate|].
    cbn [length] in L1, L2. injection L1 as L1. injection L2 as L2.
    (* what the recursive call appends *)
    assert (E' : @factor_rows Rsc (Z.of_nat (S i)) rest (Ls ++ [split_L (Z.of_nat i) w]) (Us ++ [split_U (Z.of_nat i) w])
                 = ((Ls ++ [split_L (Z.of_nat i) w]) ++ Ls', (Us ++ [split_U (Z.of_nat i) w]) ++ Us') /\ L0 = split_L (Z.of_nat i) w /\ U0 = split_U (Z.of_nat i) w).
    { replace (Z.of_nat (S i)) with (Z.of_nat i + 1)%Z by lia.
      (* the result of the recursive call extends its accumulators *)
      assert (G : forall rws j A B, exists A' B', @factor_rows Rsc j rws A B = (A ++ A', B ++ B') /\ length A' = length rws /\ length B' = length rws).
      { induction rws as [|x rws IHr]; intros j A B; cbn [factor_rows].
        - exists [], []. rewrite !app_nil_r. auto.
        - destruct (IHr (j + 1)%Z (A ++ [split_L j (elim_all 0 B (@load Rsc x))]) (B ++ [split_U j (elim_all 0 B (@load Rsc x))])) as [A' [B' [EE [LA LB]]]].
          eexists (_ :: A'), (_ :: B'). rewrite EE, <- !app_assoc. cbn [app length]. auto. }
      destruct (G rest (Z.of_nat i + 1)%Z (Ls ++ [split_L (Z.of_nat i) w]) (Us ++ [split_U (Z.of_nat i) w])) as [A' [B' [EE [LA LB]]]].
      rewrite EE in E. rewrite <- !app_assoc in E. cbn [app] in E. injection E as E1 E2.
      apply app_inv_head in E1. apply app_inv_head in E2. injection E1 as EL0 ELs. injection E2 as EU0 EUs. subst L0 U0 A' B'.
      rewrite EE. rewrite <- !app_assoc. cbn [app]. auto. }
    destruct E' as [E' [-> ->]].
    assert (HUs' : forall U, In U (Us ++ [split_U (Z.of_nat i) w]) -> keys_in U n).
    { intros U HU. apply in_app_or in HU. destruct HU as [HU|HU]; [apply HUs; exact HU|].
      destruct HU as [<-|[]]. apply keys_filter. exact Hwk. }
    destruct (IH (S i) _ _ (fun a' Ha' => Hrows a' (or_intror Ha')) HUs' Ls' Us' E' L1 L2) as [HL HU].
    split.
    + intros s L Hs. destruct s as [|s].
      * cbn [nth_error] in Hs. injection Hs as <-. replace (i + 0)%nat with i by lia. split; [|split].
        -- apply filter_nodup_keys. exact Hwnd.
        -- apply keys_filter. exact Hwk.
        -- intros k Hk. rewrite g0_split_L. destruct (Z.ltb_spec (Z.of_nat k) (Z.of_nat i)); [lia|reflexivity].
      * cbn [nth_error] in Hs. replace (i + S s)%nat with (S i + s)%nat by lia. apply HL. exact Hs.
    + intros s U Hs. destruct s as [|s].
      * cbn [nth_error] in Hs. injection Hs as <-. split; [apply filter_nodup_keys; exact Hwnd|apply keys_filter; exact Hwk].
      * cbn [nth_error] in Hs. apply (HU s). exact Hs.
Qed.

(* ---- sums ---- *)
Lemma dsum_shift n f : dsum (S n) f = f 0%nat + dsum n (fun t => f (S t)).
Proof. induction n as [|n IH]; [cbn [dsum]; ring|]. cbn [dsum] in *. rewrite IH. ring. Qed.

Lemma lu_sum_as_dsum : forall (ms : list R) (Us : list (@row Rsc)) k, length ms = length Us ->
  lu_sum ms Us k = dsum (length ms) (fun t => nth t ms 0 * g0 k (nth t Us [])).
Proof.
  induction ms as [|m ms IH]; intros Us k Hl; destruct Us as [|U Us]; try discriminate; [reflexivity|].
  cbn [lu_sum length]. rewrite dsum_shift. cbn [nth]. rewrite IH by (cbn [length] in Hl; lia). reflexivity.
Qed.

Lemma dsum_swap n i (F : nat -> nat -> R) : dsum n (fun k => dsum i (fun t => F t k)) = dsum i (fun t => dsum n (fun k => F t k)).
Proof.
  induction i as [|i IH]; cbn [dsum].
  - apply dsum_zero. reflexivity.
  - rewrite dsum_plus, IH. reflexivity.
Qed.

Lemma dsum_trunc n i f : (i <= n)%nat -> (forall t, (i <= t)%nat -> f t = 0) -> dsum n f = dsum i f.
Proof.
  intros Hi Hz. induction n as [|n IH]; [replace i with 0%nat by lia; reflexivity|].
  destruct (Nat.eq_dec i (S n)) as [->|Hne]; [reflexivity|]. cbn [dsum]. rewrite IH by lia. rewrite Hz by lia. ring.
Qed.

(* ---- from the recursive invariants to statements by index ---- *)
Lemma L_ok_of_nth n : forall (Ls : list (@row Rsc)) i, (forall s L, nth_error Ls s = Some L -> L_row_ok (i + s) n L) -> L_ok i Ls n.
Proof.
  induction Ls as [|L Ls IH]; intros i H; cbn [L_ok]; [exact I|].
  destruct (H 0%nat L eq_refl) as [H1 [H2 H3]]. replace (i + 0)%nat with i in H3 by lia.
  split; [exact H1|]. split; [exact H2|]. split; [exact H3|].
  apply IH. intros s L' Hs. replace (S i + s)%nat with (i + S s)%nat by lia. apply H. exact Hs.
Qed.

Lemma U_ok_nth : forall (Us : list (@row Rsc)) j s U, U_ok j Us -> nth_error Us s = Some U ->
  (forall k, (k < j + Z.of_nat s)%Z -> g0 k U = 0) /\ g0 (j + Z.of_nat s) U <> 0.
Proof.
  induction Us as [|V Us IH]; intros j s U H Hs; [destruct s; discriminate|].
  destruct H as [_ [Hz [Hp Hr]]]. destruct s as [|s].
  - cbn [nth_error] in Hs. injection Hs as <-. replace (j + Z.of_nat 0)%Z with j by lia. split; assumption.
  - cbn [nth_error] in Hs. replace (j + Z.of_nat (S s))%Z with (j + 1 + Z.of_nat s)%Z by lia. apply (IH (j + 1)%Z s U Hr Hs).
Qed.

Lemma Urev_ok_of_nth n : forall (Us : list (@row Rsc)),
  (forall s U, nth_error Us s = Some U ->
     NoDup (map fst U) /\ keys_in U n /\ (forall t, (t < s)%nat -> g0 (Z.of_nat t) U = 0) /\ g0 (Z.of_nat s) U <> 0) ->
  Urev_ok (length Us) (rev Us) n.
Proof.
  induction Us as [|U Us IH] using rev_ind; intros H; [exact I|].
  rewrite rev_app_distr, app_length. cbn [rev app length]. replace (length Us + 1)%nat with (S (length Us)) by lia. cbn [Urev_ok].
  assert (HU : nth_error (Us ++ [U]) (length Us) = Some U) by (rewrite nth_error_app2 by lia; rewrite Nat.sub_diag; reflexivity).
  destruct (H _ _ HU) as [H1 [H2 [H3 H4]]].
  split; [exact H1|]. split; [exact H2|]. split; [exact H3|]. split; [exact H4|].
  apply IH. intros s V Hs. apply H. rewrite nth_error_app1; [exact Hs|]. apply nth_error_Some. rewrite Hs. discriminate.
Qed.

Lemma nth_firstn_lt' {A} (d : A) : forall (l : list A) i t, (t < i)%nat -> nth t (firstn i l) d = nth t l d.
Proof.
  induction l as [|x l IH]; intros i t Ht; [rewrite firstn_nil; reflexivity|].
  destruct i as [|i]; [lia|]. destruct t as [|t]; cbn [firstn nth]; [reflexivity|]. apply IH. lia.
Qed.

Lemma lu_sum_firstn i (L : @row Rsc) (Us : list (@row Rsc)) k : (i <= length Us)%nat ->
  lu_sum (map (fun t : nat => g0 (Z.of_nat t) L) (seq 0 (length (firstn i Us)))) (firstn i Us) k =
  dsum i (fun t => g0 (Z.of_nat t) L * g0 k (nth t Us [])).
Proof.
  intros Hi. assert (Hfi : length (firstn i Us) = i) by (apply firstn_length_le; exact Hi). rewrite Hfi.
  assert (Hl : length (map (fun t : nat => g0 (Z.of_nat t) L) (seq 0 i)) = length (firstn i Us)).
  { rewrite map_length, seq_length. symmetry. exact Hfi. }
  rewrite (lu_sum_as_dsum _ _ k Hl). rewrite map_length, seq_length.
  apply dsum_ext. intros t Ht.
  rewrite (nth_indep _ 0 (g0 (Z.of_nat 0) L)) by (rewrite map_length, seq_length; exact Ht).
  rewrite (map_nth (fun t0 : nat => g0 (Z.of_nat t0) L) (seq 0 i) 0%nat t). rewrite seq_nth by exact Ht. cbn [Nat.add].
  f_equal. f_equal. apply nth_firstn_lt'. exact Ht.
Qed.

(* ---- A (solve b) = b ---- *)
Theorem lu_solve_correct (rows : list (list (Z * R))) (b : list R) :
  let n := length rows in
  length b = n ->
  (forall a, In a rows -> forall e, In e a -> (0 <= fst e < Z.of_nat n)%Z) ->
  pivots_nonzero 0 rows [] ->
  @csr_apply Rsc rows (@lu_solve Rsc (@lu_factor Rsc rows) b) = b.
Proof.
  intros n Hb Hkeys Hpiv.
  destruct (lu_factor_identity rows Hpiv) as [Ls [Us [E [LL [LU [HUok Hid]]]]]]. rewrite E.
  assert (Estruct : @factor_rows Rsc (Z.of_nat 0) rows [] [] = ([] ++ Ls, [] ++ Us)) by exact E.
  destruct (factor_rows_struct n rows 0 [] [] Hkeys ltac:(intros U []) Ls Us Estruct LL LU) as [HLs HUs].
  assert (HLok : L_ok 0 Ls n) by (apply L_ok_of_nth; exact HLs).
  assert (HUrev : Urev_ok (length Us) (rev Us) n).
  { apply Urev_ok_of_nth. intros s U Hs. destruct (HUs s U Hs) as [H1 H2]. destruct (U_ok_nth Us 0%Z s U HUok Hs) as [H3 H4].
    split; [exact H1|]. split; [exact H2|]. split; [|replace (Z.of_nat s) with (0 + Z.of_nat s)%Z by lia; exact H4].
    intros t Ht. apply H3. lia. }
  unfold lu_solve. cbn [fst snd].
  set (y := @fwd_rows Rsc 0 Ls b).
  destruct (fwd_rows_spec Ls 0 b n (eq_sym Hb) ltac:(lia) HLok) as [Ly [_ [_ Hy]]]. fold y in Ly, Hy.
  set (x := @bwd_rows Rsc (rev Us) (length Us) y).
  destruct (bwd_rows_spec (rev Us) (length Us) y n (eq_sym Ly) ltac:(lia) HUrev) as [Lx [_ Hx]]. fold x in Lx, Hx.
  (* (U x)_p = y_p *)
  assert (HUx : forall p U, nth_error Us p = Some U -> dsum n (fun t => g0 (Z.of_nat t) U * nth t x 0) = nth p y 0).
  { intros p U Hp. assert (Hpn : (p < length Us)%nat) by (apply nth_error_Some; rewrite Hp; discriminate).
    transitivity (dsum n (fun t => g0 (Z.of_nat t) (nth (length Us - 1 - p) (rev Us) []) * nth t x 0)); [|exact (Hx p Hpn)].
    apply dsum_ext. intros t _. f_equal. f_equal.
    rewrite rev_nth by lia. replace (length Us - S (length Us - 1 - p))%nat with p by lia.
    symmetry. apply nth_error_nth. exact Hp. }
  unfold csr_apply. apply (nth_ext _ _ 0 0); [etransitivity; [apply map_length|symmetry; exact Hb]|].
  intros i Hi. assert (Hi' : (i < n)%nat) by (unfold n; erewrite <- map_length; exact Hi). clear Hi. rename Hi' into Hi.
  destruct (nth_error rows i) as [a|] eqn:Ea; [|apply nth_error_None in Ea; lia].
  rewrite (nth_error_nth _ i 0 (map_nth_error (fun a0 => @row_apply Rsc (@load Rsc a0) x) i rows Ea)).
  destruct (Hid i a Ea) as [Li [Ui [ELi [EUi Hrow]]]].
  (* the product with the loaded row is a dense sum *)
  assert (Hap : @row_apply Rsc (@load Rsc a) x = dsum n (fun k => g0 (Z.of_nat k) (@load Rsc a) * nth k x 0)).
  { unfold row_apply. transitivity (fold_left (fun (acc : R) (e : Z * R) => acc + snd e * vg x (fst e)) (@load Rsc a) 0); [reflexivity|].
    rewrite (fold_add_is_sum (vg x) n); [|apply load_nodup|apply keys_load; intros e He; apply (Hkeys a); [apply (nth_error_In rows i Ea)|exact He]].
    rewrite Rplus_0_l. apply dsum_ext. intros k _. rewrite vg_nat. reflexivity. }
  rewrite Hap.
  (* insert the row identity *)
  assert (HiU : (i <= length Us)%nat) by (rewrite LU; unfold n in Hi; apply Nat.lt_le_incl; exact Hi).
  rewrite (dsum_ext n _ (fun k => dsum i (fun t => g0 (Z.of_nat t) Li * g0 (Z.of_nat k) (nth t Us [])) * nth k x 0 + g0 (Z.of_nat k) Ui * nth k x 0)).
  2:{ intros k Hk. rewrite (Hrow (Z.of_nat k)) by apply Nat2Z.is_nonneg. rewrite (lu_sum_firstn i Li Us (Z.of_nat k) HiU). ring. }
  rewrite dsum_plus.
  rewrite (dsum_ext n (fun k => dsum i (fun t => g0 (Z.of_nat t) Li * g0 (Z.of_nat k) (nth t Us [])) * nth k x 0)
                    (fun k => dsum i (fun t => g0 (Z.of_nat t) Li * (g0 (Z.of_nat k) (nth t Us []) * nth k x 0)))).
  2:{ intros k _. rewrite Rmult_comm, <- dsum_scal. apply dsum_ext. intros t _. ring. }
  rewrite (dsum_swap n i (fun t k => g0 (Z.of_nat t) Li * (g0 (Z.of_nat k) (nth t Us []) * nth k x 0))).
  rewrite (dsum_ext i _ (fun t => g0 (Z.of_nat t) Li * nth t y 0)).
  2:{ intros t Ht. rewrite dsum_scal. f_equal. apply (HUx t). apply nth_error_nth'. lia. }
  rewrite (HUx i Ui EUi).
  (* forward substitution: y_i = b_i - sum_{t<i} L_it y_t *)
  pose proof (Hy i ltac:(lia)) as Hyi. cbn [Nat.add] in Hyi.
  rewrite (nth_error_nth Ls i [] ELi) in Hyi.
  destruct (HLs i Li ELi) as [_ [_ HLlow]]. cbn [Nat.add] in HLlow.
  rewrite (dsum_trunc n i (fun k => g0 (Z.of_nat k) Li * nth k y 0)) in Hyi; [|lia|intros t Ht; rewrite (HLlow t Ht); ring].
  lra.
Qed.
