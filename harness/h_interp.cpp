// K-matrix for the grid-transfer operators (C08, C09a): every operator's full matrix is extracted
// by applying it to all unit vectors and printed row by row in (i_r, i_theta) coordinates.
#include "hcommon.h"
#include "GMGPolar/gmgpolar.h"
#include "Interpolation/interpolation.h"
#include <cstring>
#include "InputFunctions/DomainGeometry/circularGeometry.h"
#include "InputFunctions/DensityProfileCoefficients/poissonCoefficients.h"
#include <map>
#include <functional>
using namespace vh;

struct Pair {
    std::unique_ptr<Level> fine, coarse;
    CircularGeometry geom{2.0};
    std::unique_ptr<DensityProfileCoefficients> coeff = std::make_unique<PoissonCoefficients>();
};

static std::unique_ptr<Pair> make_pair(const std::vector<double>& radii, const std::vector<double>& angles,
                                       std::optional<double> split_f, std::optional<double> split_c) {
    auto p = std::make_unique<Pair>();
    auto fg = std::make_unique<PolarGrid>(radii, angles, split_f);
    PolarGrid c0 = coarseningGrid(*fg);
    auto cg = std::make_unique<PolarGrid>(c0.radii(), c0.angles(), split_c);
    auto fc = std::make_unique<LevelCache>(*fg, *p->coeff, p->geom, true, false);
    auto cc = std::make_unique<LevelCache>(*cg, *p->coeff, p->geom, true, false);
    p->fine = std::make_unique<Level>(0, std::move(fg), std::move(fc), ExtrapolationType::NONE, 0);
    p->coarse = std::make_unique<Level>(1, std::move(cg), std::move(cc), ExtrapolationType::NONE, 0);
    return p;
}

using Apply = std::function<void(Vector<double>&, const Vector<double>&)>;

// rows[target] = list of (source, value)
static void dump_matrix(const char* name, const PolarGrid& src, const PolarGrid& tgt, const Apply& op) {
    const int ns = src.numberOfNodes(), nt = tgt.numberOfNodes();
    std::vector<std::map<std::pair<int, int>, double>> rows(nt);
    const double sentinel = 12345.678;
    for (int s = 0; s < ns; s++) {
        Vector<double> x(ns), y(nt);
        for (int i = 0; i < ns; i++) x[i] = 0.0;
        for (int i = 0; i < nt; i++) y[i] = sentinel;
        x[s] = 1.0;
        op(y, x);
        MultiIndex sm = src.multiIndex(s);
        for (int t = 0; t < nt; t++)
            if (y[t] != 0.0) rows[t][{sm[0], sm[1]}] = y[t];
    }
    for (int t = 0; t < nt; t++) {
        MultiIndex tm = tgt.multiIndex(t);
        std::printf("ROW %s %d %d =>", name, tm[0], tm[1]);
        for (auto& e : rows[t]) std::printf(" %d,%d,%s", e.first.first, e.first.second, hx(e.second).c_str());
        std::printf("\n");
    }
}

static void dump_pair(Pair& p, bool with_reference) {
    const PolarGrid& f = p.fine->grid();
    const PolarGrid& c = p.coarse->grid();
    std::printf("GRID %d %d |", f.nr(), f.ntheta());
    for (double r : f.radii()) std::printf(" %s", hx(r).c_str());
    std::printf(" |");
    for (double a : f.angles()) std::printf(" %s", hx(a).c_str());
    std::printf(" => %d %d\n", c.nr(), c.ntheta());
    std::vector<int> threads{1, 1};
    Interpolation I(threads, true);
    Level& F = *p.fine; Level& C = *p.coarse;
    dump_matrix("P", c, f, [&](Vector<double>& y, const Vector<double>& x) { I.applyProlongation(C, F, y, x); });
    dump_matrix("R", f, c, [&](Vector<double>& y, const Vector<double>& x) { I.applyRestriction(F, C, y, x); });
    dump_matrix("Pex", c, f, [&](Vector<double>& y, const Vector<double>& x) { I.applyExtrapolatedProlongation(C, F, y, x); });
    dump_matrix("Rex", f, c, [&](Vector<double>& y, const Vector<double>& x) { I.applyExtrapolatedRestriction(F, C, y, x); });
    dump_matrix("Inj", f, c, [&](Vector<double>& y, const Vector<double>& x) { I.applyInjection(F, C, y, x); });
    if (c.ntheta() >= 4 && f.nr() >= 3)
        dump_matrix("FMG", c, f, [&](Vector<double>& y, const Vector<double>& x) { I.applyFMGInterpolation(C, F, y, x); });
    if (with_reference) {
        dump_matrix("P0", c, f, [&](Vector<double>& y, const Vector<double>& x) { I.applyProlongation0(C, F, y, x); });
        dump_matrix("R0", f, c, [&](Vector<double>& y, const Vector<double>& x) { I.applyRestriction0(F, C, y, x); });
        dump_matrix("Pex0", c, f, [&](Vector<double>& y, const Vector<double>& x) { I.applyExtrapolatedProlongation0(C, F, y, x); });
        dump_matrix("Rex0", f, c, [&](Vector<double>& y, const Vector<double>& x) { I.applyExtrapolatedRestriction0(F, C, y, x); });
    }
}

int main(int argc, char** argv) {
    std::string mode = argc > 1 ? argv[1] : "";
    if (mode == "probe_linear") {
        // F3: radii 1,2,4 (fine node 2 is not the midpoint of 1 and 4), function u = r
        std::vector<double> radii{1.0, 2.0, 4.0};
        auto angles = std::vector<double>{0.0, M_PI / 2, M_PI, 3 * M_PI / 2, 2 * M_PI};
        auto p = make_pair(radii, angles, std::nullopt, std::nullopt);
        std::vector<int> threads{1, 1};
        Interpolation I(threads, true);
        const PolarGrid& f = p->fine->grid(); const PolarGrid& c = p->coarse->grid();
        Vector<double> x(c.numberOfNodes()), y(f.numberOfNodes());
        for (int i = 0; i < c.nr(); i++) for (int j = 0; j < c.ntheta(); j++) x[c.index(i, j)] = c.radius(i);
        I.applyProlongation(*p->coarse, *p->fine, y, x);
        double worst = 0;
        for (int i = 0; i < f.nr(); i++) for (int j = 0; j < f.ntheta(); j++) worst = std::max(worst, std::fabs(y[f.index(i, j)] - f.radius(i)));
        std::printf("P(r) at r=2: %g (exact 2), max deviation %g\n", y[f.index(1, 0)], worst);
        return worst < 1e-12 ? 0 : 3;
    }
    if (mode == "threads") {
        // K-repro for the transfer operators (C12 / C08): a grid above the 10 000-element threshold with NON-uniform radii and angles;
        // every operator for 1..32 threads against its one-thread result and against the sequential reference loops
        Rng rng(seed_from_env() ^ 0x77);
        std::vector<double> radii = random_radii(rng, 129, 0.1, 1.3, false), angles = random_angles(rng, 128, false);
        auto p = make_pair(radii, angles, std::nullopt, std::nullopt);
        const PolarGrid& f = p->fine->grid(); const PolarGrid& c = p->coarse->grid();
        Level& F = *p->fine; Level& C = *p->coarse;
        Vector<double> xf(f.numberOfNodes()), xc(c.numberOfNodes());
        for (int i = 0; i < f.numberOfNodes(); i++) xf[i] = rng.real(-1, 1);
        for (int i = 0; i < c.numberOfNodes(); i++) xc[i] = rng.real(-1, 1);
        struct Op { const char* name; bool to_fine; std::function<void(Interpolation&, Vector<double>&)> run; };
        std::vector<Op> ops = {
            {"prolongation", true, [&](Interpolation& I, Vector<double>& y) { I.applyProlongation(C, F, y, xc); }},
            {"restriction", false, [&](Interpolation& I, Vector<double>& y) { I.applyRestriction(F, C, y, xf); }},
            {"extrapolated_prolongation", true, [&](Interpolation& I, Vector<double>& y) { I.applyExtrapolatedProlongation(C, F, y, xc); }},
            {"extrapolated_restriction", false, [&](Interpolation& I, Vector<double>& y) { I.applyExtrapolatedRestriction(F, C, y, xf); }},
            {"injection", false, [&](Interpolation& I, Vector<double>& y) { I.applyInjection(F, C, y, xf); }},
            {"fmg_interpolation", true, [&](Interpolation& I, Vector<double>& y) { I.applyFMGInterpolation(C, F, y, xc); }},
        };
        std::vector<int> one{1, 1};
        Interpolation I1(one, true);
        for (auto& op : ops) {
            const int n = op.to_fine ? f.numberOfNodes() : c.numberOfNodes();
            Vector<double> ref(n); for (int i = 0; i < n; i++) ref[i] = 4242.0;
            op.run(I1, ref);
            double sc = 0; for (int i = 0; i < n; i++) sc = std::max(sc, std::fabs(ref[i]));
            if (std::string(op.name) == "restriction" || std::string(op.name) == "prolongation") {
                Vector<double> r0(n); for (int i = 0; i < n; i++) r0[i] = 4242.0;
                if (op.to_fine) I1.applyProlongation0(C, F, r0, xc); else I1.applyRestriction0(F, C, r0, xf);
                double d = 0; for (int i = 0; i < n; i++) d = std::max(d, std::fabs(r0[i] - ref[i]));
                std::printf("PROP transfer-equals-reference %s n=%d diff=%.3e => %s\n", op.name, n, d / sc, d <= 1e-12 * sc ? "ok" : "FAIL the optimised operator differs from the reference loops");
            }
            for (int t : {2, 3, 5, 8, 32}) {
                std::vector<int> th{t, t};
                Interpolation It(th, true);
                Vector<double> a(n), b(n); for (int i = 0; i < n; i++) { a[i] = 4242.0; b[i] = -17.0; }
                op.run(It, a); op.run(It, b);
                bool repro = std::memcmp(&a[0], &b[0], n * sizeof(double)) == 0;
                double d = 0; for (int i = 0; i < n; i++) d = std::max(d, std::fabs(a[i] - ref[i]));
                std::printf("PROP transfer-thread-count %s n=%d threads=%d run-to-run-bitwise=%d diff-to-1-thread=%.3e => %s\n", op.name, n, t, repro ? 1 : 0, d / sc,
                            !repro ? "FAIL two runs with the same thread count differ" : d > 1e-12 * sc ? "FAIL the result depends on the thread count beyond re-association" : "ok");
            }
        }
        return 0;
    }
    Rng rng(seed_from_env());
    const int npairs = thorough() ? 150 : 24;
    for (int c = 0; c < npairs; c++) {
        int nrc = rng.range(2, thorough() ? 9 : 6);
        int nr = 2 * nrc - 1;
        const int nths[] = {4, 8, 12, 16, 20, 24};
        int nth = nths[rng.range(0, thorough() ? 5 : 3)];
        bool midpoint = rng.range(0, 2) == 0;      // grids GMGPolar generates itself are midpoint-nested
        bool wild = rng.range(0, 3) == 0;
        std::vector<double> cr = random_radii(rng, nrc, wild ? 1e-4 : rng.real(0.05, 0.5), rng.real(1.0, 2.0), wild);
        std::vector<double> radii(nr);
        for (int i = 0; i < nrc; i++) radii[2 * i] = cr[i];
        for (int i = 0; i < nrc - 1; i++) radii[2 * i + 1] = midpoint ? 0.5 * (cr[i] + cr[i + 1]) : cr[i] + (cr[i + 1] - cr[i]) * rng.real(0.1, 0.9);
        std::vector<double> angles;
        if (midpoint) angles = random_angles(rng, nth, true);
        else {
            // antipodal, non-uniform, and such that the coarse grid (every second angle) is antipodal too
            int q = nth / 4;
            std::vector<double> quarter(2 * q);      // angles in [0, pi)
            std::vector<double> w(2 * q); double sum = 0;
            for (auto& x : w) { x = rng.real(0.4, 1.6); sum += x; }
            double acc = 0; quarter[0] = 0;
            for (int j = 1; j < 2 * q; j++) { acc += w[j - 1]; quarter[j] = M_PI * acc / sum; }
            angles.resize(nth + 1);
            for (int j = 0; j < 2 * q; j++) { angles[j] = quarter[j]; angles[j + 2 * q] = quarter[j] + M_PI; }
            angles[nth] = 2 * M_PI;
        }
        // splits forced to extreme and ordinary values on either level
        auto pick = [&](const std::vector<double>& r) -> std::optional<double> {
            switch (rng.range(0, 4)) {
            case 0: return std::nullopt;
            case 1: return r.front() * 0.5;            // all radial
            case 2: return r.back() * 2;                // all circles
            default: return r[rng.range(0, (int)r.size() - 1)];
            }
        };
        std::printf("# pair %d nr=%d ntheta=%d midpoint=%d wild=%d\n", c, nr, nth, midpoint ? 1 : 0, wild ? 1 : 0);
        try {
            auto p = make_pair(radii, angles, pick(radii), pick(cr));
            dump_pair(*p, c % 3 == 0);
        } catch (const std::exception& e) {
            std::string m = e.what(); std::replace(m.begin(), m.end(), '\n', ' ');
            std::printf("# rejected: %s\n", m.c_str());
        }
    }
    return 0;
}
