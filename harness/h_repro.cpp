// K-repro (C12): vector kernels below / at / above their parallelisation threshold for many thread counts (reductions are
// printed and recomputed exactly by the Coq model from the same integer-formula inputs; element-wise kernels are compared
// bitwise with their sequential definition), and run-to-run / thread-count reproducibility of the whole solver.
#include "hsolver.h"
#include "LinearAlgebra/vector_operations.h"
#include <cstring>
using namespace vh;

// inputs both sides can regenerate: small dyadic rationals (every product and partial sum of them is exact in double
// arithmetic up to the lengths used here, so the exact value is well defined and the comparison is sharp)
static double xin(long i) { return (double)((i * 37 + 11) % 101 - 50) / 64.0; }
static double yin(long i) { return (double)((i * 53 + 7) % 89 - 44) / 32.0; }

static bool same(const Vector<double>& a, const Vector<double>& b) { return a.size() == b.size() && std::memcmp(&a[0], &b[0], a.size() * sizeof(double)) == 0; }

static int kernels() {
    const int sizes[] = {1, 7, 9999, 10000, 10001, 12000, 25013};
    const int threads[] = {1, 2, 3, 7, 16, 32};
    for (int n : sizes) {
        Vector<double> x(n), y(n);
        for (int i = 0; i < n; i++) { x[i] = xin(i); y[i] = yin(i); }
        for (int t : threads) {
            omp_set_num_threads(t);
            // ---- reductions: printed, judged by the model ----
            for (int rep = 0; rep < 2; rep++) {
                std::printf("RED dot %d %d %d => %s\n", n, t, rep, hx(dot_product(x, y)).c_str());
                std::printf("RED l1 %d %d %d => %s\n", n, t, rep, hx(l1_norm(x)).c_str());
                std::printf("RED l2sq %d %d %d => %s\n", n, t, rep, hx(l2_norm_squared(x)).c_str());
                std::printf("RED inf %d %d %d => %s\n", n, t, rep, hx(infinity_norm(y)).c_str());
            }
            // ---- element-wise kernels against their sequential definition ----
            bool ok = true; std::string which;
            { Vector<double> a(n); assign(a, 2.5); for (int i = 0; i < n; i++) if (a[i] != 2.5) { ok = false; which = "assign"; } }
            { Vector<double> a = x; add(a, y); for (int i = 0; i < n; i++) if (a[i] != xin(i) + yin(i)) { ok = false; which = "add"; } }
            { Vector<double> a = x; subtract(a, y); for (int i = 0; i < n; i++) if (a[i] != xin(i) - yin(i)) { ok = false; which = "subtract"; } }
            { Vector<double> a = x; linear_combination(a, 0.75, y, -1.5); for (int i = 0; i < n; i++) if (a[i] != 0.75 * xin(i) + -1.5 * yin(i)) { ok = false; which = "linear_combination"; } }
            { Vector<double> a = x; multiply(a, -0.375); for (int i = 0; i < n; i++) if (a[i] != xin(i) * -0.375) { ok = false; which = "multiply"; } }
            std::printf("PROP elementwise-kernels n=%d threads=%d => %s\n", n, t, ok ? "ok" : ("FAIL " + which + " differs from its element-wise definition").c_str());
        }
    }
    return 0;
}

static std::vector<double> solve_once(Config c, int threads, double reduction, int* its) {
    c.threads = threads;
    auto s = make_solver(c); apply_options(*s, c);
    s->threadReductionFactor(reduction);
    s->setup(); s->solve();
    const Vector<double>& u = s->solution();
    if (its) *its = s->numberOfIterations();
    return std::vector<double>(u.begin(), u.end());
}

static int solver() {
    struct Case { int nr_exp, nt_exp, extrap, take, fmg, problem; };
    std::vector<Case> cases = {{5, 5, 0, 0, 0, 0}, {5, 5, 1, 1, 1, 1}, {7, 7, 0, 0, 0, 0}};     // the last one is above the 10 000-element threshold
    if (thorough()) { cases.push_back({7, 7, 1, 1, 1, 2}); cases.push_back({6, 6, 3, 0, 0, 1}); }
    for (auto& cs : cases) {
        Config c; c.nr_exp = cs.nr_exp; c.ntheta_exp = cs.nt_exp; c.extrap = cs.extrap; c.take = cs.take; c.fmg = cs.fmg; c.problem = cs.problem;
        c.maxit = 3; c.tol = false;            // a fixed number of cycles
        std::vector<double> ref, ref2;
        for (int t : {1, 2, 5, 8, 32}) for (double red : {1.0, 0.5}) {
            if (t == 1 && red != 1.0) continue;
            int it1 = 0, it2 = 0;
            auto a = solve_once(c, t, red, &it1), b = solve_once(c, t, red, &it2);
            bool repro = a.size() == b.size() && std::memcmp(a.data(), b.data(), a.size() * sizeof(double)) == 0 && it1 == it2;
            if (ref.empty()) ref = a;
            double d = 0, sc = 0; for (size_t i = 0; i < a.size(); i++) { d = std::max(d, std::fabs(a[i] - ref[i])); sc = std::max(sc, std::fabs(ref[i])); }
            bool finite = true; for (double v : a) finite = finite && std::isfinite(v);
            // with two or more threads on every level the multi-threaded code path is taken everywhere and, its regions being race
            // free, the order of the additions into every element is fixed by the program: the thread count cannot change a bit
            if (t >= 2 && red == 1.0) {
                if (ref2.empty()) ref2 = a;
                bool eq = ref2.size() == a.size() && std::memcmp(ref2.data(), a.data(), a.size() * sizeof(double)) == 0;
                // reported, not required: the property allows differences up to floating-point re-association
                std::printf("# solver thread-count invariance nr_exp=%d extrap=%d take=%d threads=%d against 2 threads: %s\n", cs.nr_exp, cs.extrap, cs.take, t,
                            eq ? "bitwise equal" : "differs bitwise");
            }
            std::printf("PROP solver-reproducible nr_exp=%d ntheta_exp=%d extrap=%d take=%d fmg=%d threads=%d reduction=%.1f run-to-run-bitwise=%d diff-to-1-thread=%.3e => %s\n",
                        cs.nr_exp, cs.nt_exp, cs.extrap, cs.take, cs.fmg, t, red, repro ? 1 : 0, d / std::max(sc, 1e-300),
                        !finite ? "FAIL non-finite solution" : !repro ? "FAIL two runs with the same thread count differ bitwise"
                        : d > 1e-9 * std::max(sc, 1e-300) ? "FAIL the thread count changes the result by more than floating-point re-association" : "ok");
        }
    }
    return 0;
}

int main(int argc, char** argv) {
    std::string mode = argc > 1 ? argv[1] : "kernels";
    if (mode == "kernels") return kernels();
    if (mode == "solver") return solver();
    return 2;
}
