// K-inputfn (C19): evaluates every closed-form input-function class of /repo at sample points and prints
// "EV kind class fn r theta Rmax p1 p2 => value" lines.  The Python side of the check evaluates the expressions the
// translator T7 extracted from the sources at the same points (validation of the translator) and the reified operator
// -div(alpha grad u) + beta u built by symbolic differentiation (search for a failing point / sampled coverage of the
// classes whose identity is not a Coq theorem).
#include "hcommon.h"
#include "GMGPolar/test_cases.h"
#include <functional>
using namespace vh;

struct Entry { const char* kind; const char* cls; const char* fn; std::function<double(double, double, double, double, double)> f; };

int main(int argc, char** argv) {
    std::vector<Entry> entries = {
#include "gen/inputfn_classes.inc"
    };
    Rng rng(seed_from_env());
    const int npts = thorough() ? 40 : 8;
    // parameter sets: (Rmax, p1, p2) per geometry family; the first one is the set used by the shipped drivers
    struct P { double R, k, d, eps, e; };
    const P params[2] = {{1.3, 0.3, 0.2, 0.3, 1.4}, {1.0, 0.2, 0.1, 0.25, 1.2}};
    std::vector<std::array<double, 2>> pts;
    for (int i = 0; i < npts; i++) pts.push_back({rng.real(0.02, 1.0), rng.real(0.0, 2 * M_PI)});
    pts.push_back({1.0, 0.0}); pts.push_back({1.0, 2.5}); pts.push_back({0.5, M_PI}); pts.push_back({0.731, 0.4});   // boundary and jump region
    for (const auto& e : entries) {
        std::string cls = e.cls;
        for (int ps = 0; ps < 2; ps++) {
            const P& p = params[ps];
            bool sh = cls.find("Shafranov") != std::string::npos;
            double p1 = sh ? p.k : p.eps, p2 = sh ? p.d : p.e;
            for (auto& q : pts) {
                double r = q[0] * p.R, t = q[1];
                double v = e.f(r, t, p.R, p1, p2);
                std::printf("EV %s %s %s %s %s %s %s %s => %s\n", e.kind, e.cls, e.fn, hx(r).c_str(), hx(t).c_str(), hx(p.R).c_str(),
                            hx(p1).c_str(), hx(p2).c_str(), hx(v).c_str());
            }
        }
    }
    return 0;
}
