// Problem set-up shared by the operator / cycle harnesses: geometries (three shipped + a synthetic
// non-orthogonal one), coefficient profiles, levels with caches, friend access.
#pragma once
#include "hcommon.h"
#include "GMGPolar/gmgpolar.h"
#include "InputFunctions/DomainGeometry/circularGeometry.h"
#include "InputFunctions/DomainGeometry/shafranovGeometry.h"
#include "InputFunctions/DomainGeometry/czarnyGeometry.h"
#include "InputFunctions/DensityProfileCoefficients/poissonCoefficients.h"
#include "InputFunctions/DensityProfileCoefficients/sonnendruckerCoefficients.h"
#include "InputFunctions/DensityProfileCoefficients/sonnendruckerGyroCoefficients.h"
#include "InputFunctions/DensityProfileCoefficients/zoniCoefficients.h"
#include "InputFunctions/DensityProfileCoefficients/zoniGyroCoefficients.h"
#include "InputFunctions/DensityProfileCoefficients/zoniShiftedCoefficients.h"
#include "InputFunctions/DensityProfileCoefficients/zoniShiftedGyroCoefficients.h"
#include "Residual/ResidualGive/residualGive.h"
#include "Residual/ResidualTake/residualTake.h"
#include "DirectSolver/DirectSolverGiveCustomLU/directSolverGiveCustomLU.h"
#include "DirectSolver/DirectSolverTakeCustomLU/directSolverTakeCustomLU.h"
#include "Smoother/SmootherGive/smootherGive.h"
#include "Smoother/SmootherTake/smootherTake.h"
#include "ExtrapolatedSmoother/ExtrapolatedSmootherGive/extrapolatedSmootherGive.h"
#include "ExtrapolatedSmoother/ExtrapolatedSmootherTake/extrapolatedSmootherTake.h"
#include <map>
#include <functional>

namespace vh {

// A smooth, invertible, NON-orthogonal mapping whose Jacobian entries are all generic
// (F = (r cos t (1 + e r) + s r sin t, q r sin t + p r^2 cos t sin t)).
class SyntheticGeometry : public DomainGeometry {
public:
    double e = 0.15, s = 0.25, q = 1.3, p = 0.1;
    double Fx(const double& r, const double&, const double& st, const double& ct) const override { return r * ct * (1 + e * r) + s * r * st; }
    double Fy(const double& r, const double&, const double& st, const double& ct) const override { return q * r * st + p * r * r * ct * st; }
    double dFx_dr(const double& r, const double&, const double& st, const double& ct) const override { return ct * (1 + 2 * e * r) + s * st; }
    double dFy_dr(const double& r, const double&, const double& st, const double& ct) const override { return q * st + 2 * p * r * ct * st; }
    double dFx_dt(const double& r, const double&, const double& st, const double& ct) const override { return -r * st * (1 + e * r) + s * r * ct; }
    double dFy_dt(const double& r, const double&, const double& st, const double& ct) const override { return q * r * ct + p * r * r * (ct * ct - st * st); }
};

struct Problem {
    std::unique_ptr<DomainGeometry> geom;
    std::unique_ptr<DensityProfileCoefficients> coef;
    std::string geom_name, coef_name;
};

inline Problem make_problem(Rng& g, double Rmax, int geom_kind = -1, int coef_kind = -1) {
    Problem p;
    int gk = geom_kind >= 0 ? geom_kind : g.range(0, 3);
    switch (gk) {
    case 0: p.geom = std::make_unique<CircularGeometry>(Rmax); p.geom_name = "circular"; break;
    case 1: p.geom = std::make_unique<ShafranovGeometry>(Rmax, 0.3, 0.2); p.geom_name = "shafranov"; break;
    case 2: p.geom = std::make_unique<CzarnyGeometry>(Rmax, 0.3, 1.4); p.geom_name = "czarny"; break;
    default: p.geom = std::make_unique<SyntheticGeometry>(); p.geom_name = "synthetic"; break;
    }
    int ck = coef_kind >= 0 ? coef_kind : g.range(0, 6);
    double aj = 0.7081 * Rmax;
    switch (ck) {
    case 0: p.coef = std::make_unique<PoissonCoefficients>(Rmax, aj); p.coef_name = "poisson"; break;
    case 1: p.coef = std::make_unique<SonnendruckerCoefficients>(Rmax, aj); p.coef_name = "sonnendrucker"; break;
    case 2: p.coef = std::make_unique<SonnendruckerGyroCoefficients>(Rmax, aj); p.coef_name = "sonnendruckerGyro"; break;
    case 3: p.coef = std::make_unique<ZoniCoefficients>(Rmax, aj); p.coef_name = "zoni"; break;
    case 4: p.coef = std::make_unique<ZoniGyroCoefficients>(Rmax, aj); p.coef_name = "zoniGyro"; break;
    case 5: p.coef = std::make_unique<ZoniShiftedCoefficients>(Rmax, aj); p.coef_name = "zoniShifted"; break;
    default: p.coef = std::make_unique<ZoniShiftedGyroCoefficients>(Rmax, aj); p.coef_name = "zoniShiftedGyro"; break;
    }
    return p;
}

// admissible grid: random radii, antipodal (pi-periodic) angles; ntheta divisible by 4 when asked
inline void random_grid(Rng& g, int nr, int nth, bool wild, std::vector<double>& radii, std::vector<double>& angles, double Rmax) {
    double r0 = wild ? std::pow(10.0, g.real(-5, -2)) : g.real(0.05, 0.4) * Rmax;
    radii = random_radii(g, nr, r0, Rmax, wild);
    angles = random_angles(g, nth, g.coin());
}

inline std::unique_ptr<Level> make_level(int depth, std::unique_ptr<PolarGrid> grid, const Problem& p, bool cache_coef, bool cache_geom,
                                         ExtrapolationType ex = ExtrapolationType::NONE, bool fmg = false) {
    auto cache = std::make_unique<LevelCache>(*grid, *p.coef, *p.geom, cache_coef, cache_geom);
    return std::make_unique<Level>(depth, std::move(grid), std::move(cache), ex, fmg);
}

// matrix of a linear map given by apply(y, x), rows in (i,j) coordinates of the target grid
using RowMap = std::vector<std::map<std::pair<int, int>, double>>;
inline RowMap extract_matrix(const PolarGrid& src, const PolarGrid& tgt,
                             const std::function<void(Vector<double>&, const Vector<double>&)>& apply) {
    const int ns = src.numberOfNodes(), nt = tgt.numberOfNodes();
    RowMap rows(nt);
    for (int s = 0; s < ns; s++) {
        Vector<double> x(ns), y(nt);
        for (int i = 0; i < ns; i++) x[i] = 0.0;
        for (int i = 0; i < nt; i++) y[i] = 777.25;
        x[s] = 1.0;
        apply(y, x);
        MultiIndex sm = src.multiIndex(s);
        for (int t = 0; t < nt; t++)
            if (y[t] != 0.0) rows[t][{sm[0], sm[1]}] = y[t];
    }
    return rows;
}
inline void print_rows(const char* name, const PolarGrid& tgt, const RowMap& rows) {
    for (int t = 0; t < (int)rows.size(); t++) {
        MultiIndex tm = tgt.multiIndex(t);
        std::printf("ROW %s %d %d =>", name, tm[0], tm[1]);
        for (auto& e : rows[t]) std::printf(" %d,%d,%s", e.first.first, e.first.second, hx(e.second).c_str());
        std::printf("\n");
    }
}

// grid + per-node coefficients exactly as the operators obtain them (cached or recomputed)
inline void dump_grid_and_coefficients(const PolarGrid& g, const LevelCache& c, bool dirbc) {
    std::printf("OGRID %d %d %d |", g.nr(), g.ntheta(), dirbc ? 1 : 0);
    for (double r : g.radii()) std::printf(" %s", hx(r).c_str());
    std::printf(" |");
    for (double a : g.angles()) std::printf(" %s", hx(a).c_str());
    std::printf(" => ok\n");
    std::vector<double> arr, att, art, det, beta(g.nr());
    for (int i = 0; i < g.nr(); i++)
        for (int j = 0; j < g.ntheta(); j++) {
            double st, ct, b, a1, a2, a3, d;
            c.obtainValues(i, j, g.index(i, j), g.radius(i), g.theta(j), st, ct, b, a1, a2, a3, d);
            arr.push_back(a1); att.push_back(a2); art.push_back(a3); det.push_back(d); beta[i] = b;
        }
    std::printf("COEF |");
    for (double v : arr) std::printf(" %s", hx(v).c_str());
    std::printf(" |"); for (double v : att) std::printf(" %s", hx(v).c_str());
    std::printf(" |"); for (double v : art) std::printf(" %s", hx(v).c_str());
    std::printf(" |"); for (double v : det) std::printf(" %s", hx(v).c_str());
    std::printf(" |"); for (double v : beta) std::printf(" %s", hx(v).c_str());
    std::printf(" => ok\n");
}
} // namespace vh

// friend access to private members (hook H2, compiled with -DGMGPOLAR_VERIF)
namespace gmgpolar_verif {
struct Access {
    static const SparseMatrixCSR<double>& csr(const DirectSolverGiveCustomLU& s) { return s.solver_matrix_; }
    static const SparseMatrixCSR<double>& csr(const DirectSolverTakeCustomLU& s) { return s.solver_matrix_; }
    // assembly task functions of the direct solvers (K-footprint, C11)
    static void dgc(DirectSolverGiveCustomLU& s, int i, SparseMatrixCSR<double>& m) { s.buildSolverMatrixCircleSection(i, m); }
    static void dgr(DirectSolverGiveCustomLU& s, int j, SparseMatrixCSR<double>& m) { s.buildSolverMatrixRadialSection(j, m); }
    static void dtc(DirectSolverTakeCustomLU& s, int i, SparseMatrixCSR<double>& m) { s.buildSolverMatrixCircleSection(i, m); }
    static void dtr(DirectSolverTakeCustomLU& s, int j, SparseMatrixCSR<double>& m) { s.buildSolverMatrixRadialSection(j, m); }
    // K-rhs (C02): the private right-hand-side discretisation of setup()
    static void discretize(GMGPolar& s, const Level& l, Vector<double>& v) { s.discretize_rhs_f(l, v); }
    // the task functions of the parallel regions (K-footprint, C11)
    template <class S> static void ac(S& s, int i, SmootherColor c, const Vector<double>& x, const Vector<double>& rhs, Vector<double>& t) { s.applyAscOrthoCircleSection(i, c, x, rhs, t); }
    template <class S> static void ar(S& s, int i, SmootherColor c, const Vector<double>& x, const Vector<double>& rhs, Vector<double>& t) { s.applyAscOrthoRadialSection(i, c, x, rhs, t); }
    template <class S> static void sc(S& s, int i, Vector<double>& x, Vector<double>& t, Vector<double>& s1, Vector<double>& s2) { s.solveCircleSection(i, x, t, s1, s2); }
    template <class S> static void sr(S& s, int i, Vector<double>& x, Vector<double>& t, Vector<double>& s1) { s.solveRadialSection(i, x, t, s1); }
    static void gc(const ResidualGive& o, int i, Vector<double>& res, const Vector<double>& x) { o.applyCircleSection(i, res, x); }
    static void gr(const ResidualGive& o, int i, Vector<double>& res, const Vector<double>& x) { o.applyRadialSection(i, res, x); }
    static void tc(const ResidualTake& o, int i, Vector<double>& res, const Vector<double>& rhs, const Vector<double>& x) { o.applyCircleSection(i, res, rhs, x); }
    static void tr(const ResidualTake& o, int i, Vector<double>& res, const Vector<double>& rhs, const Vector<double>& x) { o.applyRadialSection(i, res, rhs, x); }
};
} // namespace gmgpolar_verif
