// K-footprint (C11): measures, by perturbation, which elements of the shared vectors each parallel TASK of the residual
// and smoother regions reads and writes (task functions reached through the guarded friend access), and prints
//   FP <operator> <task> <index> <colour> | W <array>:<i_r>,<i_theta> ... | R <array>:<i_r>,<i_theta> ...
// lines; the extracted Coq model (ParDefs.v) answers whether the observed footprint is contained in the footprint the
// race-freedom theorems are about.  Arrays: res / x for the residual; x, rhs, temp for the smoothers.
#include "hproblem.h"
using namespace vh;

using FA = gmgpolar_verif::Access;

using Vec = Vector<double>;
// a task = function of the shared arrays (in/out); arrays are passed as a vector of Vec
using TaskFn = std::function<void(std::vector<Vec>&)>;

static void measure(const PolarGrid& g, const char* op, const char* task, int idx, const char* colour, int narr, const char* const* names,
                    const TaskFn& fn, Rng& rng) {
    const int n = g.numberOfNodes();
    auto fill = [&](std::vector<Vec>& a, uint64_t seed) { Rng r(seed); for (auto& v : a) for (int i = 0; i < n; i++) v[i] = r.real(0.5, 1.5); };
    std::vector<std::vector<char>> W(narr, std::vector<char>(n, 0)), R(narr, std::vector<char>(n, 0));
    std::vector<Vec> base(narr, Vec(n));
    for (int rep = 0; rep < 2; rep++) {
        fill(base, 1000 + 17 * rep);
        std::vector<Vec> out = base;
        fn(out);
        for (int a = 0; a < narr; a++) for (int i = 0; i < n; i++) if (std::memcmp(&out[a][i], &base[a][i], sizeof(double)) != 0) W[a][i] = 1;
        // reads: perturb one input element at a time; it is read if any OTHER output element changes, or its own output
        // changes by something else than the perturbation being carried through unchanged
        for (int a = 0; a < narr; a++) for (int i = 0; i < n; i++) {
            std::vector<Vec> in = base; in[a][i] += 0.37;
            std::vector<Vec> o2 = in; fn(o2);
            bool read = false;
            for (int b = 0; b < narr && !read; b++) for (int j = 0; j < n; j++) {
                if (b == a && j == i) {
                    // written and depends on the old value (accumulation) or not written at all: compare increments
                    double d1 = out[a][i] - base[a][i], d2 = o2[a][i] - in[a][i];
                    bool written = std::memcmp(&out[a][i], &base[a][i], sizeof(double)) != 0 || std::memcmp(&o2[a][i], &in[a][i], sizeof(double)) != 0;
                    if (written && std::fabs(d1 - d2) <= 1e-9 * (std::fabs(d1) + std::fabs(d2) + 1)) read = true;   // += : reads the element
                    else if (written && std::fabs(o2[a][i] - out[a][i]) > 1e-12) read = true;                       // value depends on the old one
                } else if (std::memcmp(&o2[b][j], &out[b][j], sizeof(double)) != 0) { read = true; break; }
            }
            if (read) R[a][i] = 1;
        }
    }
    std::printf("FP %s %s %d %s |", op, task, idx, colour);
    for (int a = 0; a < narr; a++) for (int i = 0; i < n; i++) if (W[a][i]) { MultiIndex m = g.multiIndex(i); std::printf(" W %s:%d,%d", names[a], m[0], m[1]); }
    std::printf(" |");
    for (int a = 0; a < narr; a++) for (int i = 0; i < n; i++) if (R[a][i]) { MultiIndex m = g.multiIndex(i); std::printf(" R %s:%d,%d", names[a], m[0], m[1]); }
    std::printf(" => CHECK ok\n");
}

template <class S>
static void smoother_tasks(const char* op, S& s, const PolarGrid& g, Rng& rng, bool give) {
    static const char* names[3] = {"x", "rhs", "temp"};
    const int nt = g.ntheta(), lr = g.lengthSmootherRadial();
    for (int col = 0; col < 2; col++) {
        SmootherColor c = col ? SmootherColor::White : SmootherColor::Black;
        // the region calls these with i_r in -1 .. nsc (the "outside" parts) : only valid indices reach the kernels
        // the give regions call the circle kernel with i_r = nsc as well (the first radial row feeds the outermost circle)
        const int imax = give ? g.numberSmootherCircles() + 1 : g.numberSmootherCircles();
        for (int i = 0; i < imax; i++)
            measure(g, op, "ascCircle", i, col ? "white" : "black", 3, names, [&](std::vector<Vec>& a) { FA::ac(s, i, c, a[0], a[1], a[2]); }, rng);
        for (int j = 0; j < nt; j++)
            measure(g, op, "ascRadial", j, col ? "white" : "black", 3, names, [&](std::vector<Vec>& a) { FA::ar(s, j, c, a[0], a[1], a[2]); }, rng);
    }
    for (int i = 0; i < g.numberSmootherCircles(); i++)
        measure(g, op, "solveCircle", i, "-", 3, names, [&](std::vector<Vec>& a) { Vec s1(nt), s2(nt); FA::sc(s, i, a[0], a[2], s1, s2); }, rng);
    for (int j = 0; j < nt; j++)
        measure(g, op, "solveRadial", j, "-", 3, names, [&](std::vector<Vec>& a) { Vec s1(lr); FA::sr(s, j, a[0], a[2], s1); }, rng);
}

// stress replay: the whole parallel operator, many times, against the one-thread result of the same object class
template <class MK>
static void stress_one(const char* op, const PolarGrid& g, int threads, int reps, MK make_apply) {
    const int n = g.numberOfNodes();
    Rng r(99);
    Vec x0(n), f(n);
    for (int i = 0; i < n; i++) { x0[i] = r.real(-1, 1); f[i] = r.real(-1, 1); }
    auto seq = make_apply(1); auto par = make_apply(threads);
    Vec ref = x0; seq(ref, f);
    int bad = 0, nonrepro = 0; double worst = 0; Vec first(n);
    for (int k = 0; k < reps; k++) {
        Vec x = x0; par(x, f);
        double d = 0; for (int i = 0; i < n; i++) d = std::max(d, std::fabs(x[i] - ref[i]));
        double sc = 0; for (int i = 0; i < n; i++) sc = std::max(sc, std::fabs(ref[i]));
        if (d > 1e-9 * std::max(sc, 1.0)) { bad++; worst = std::max(worst, d); }
        if (k == 0) first = x; else if (std::memcmp(&first[0], &x[0], n * sizeof(double)) != 0) nonrepro++;
    }
    std::printf("PROP stress %s nr=%d ntheta=%d nsc=%d threads=%d differs-from-sequential=%d/%d not-bitwise-reproducible=%d worst=%.3e => %s\n", op, g.nr(), g.ntheta(),
                g.numberSmootherCircles(), threads, bad, reps, nonrepro, worst,
                (bad == 0 && nonrepro == 0) ? "ok" : "FAIL the multi-threaded operator is not reproducible / differs from its sequential result (data race)");
}

static int stress(int argc, char** argv) {
    // stress <nr> <ntheta> <split index or -1> <threads> <reps>
    int nr = argc > 2 ? atoi(argv[2]) : 200, nth = argc > 3 ? atoi(argv[3]) : 8, sk = argc > 4 ? atoi(argv[4]) : 3, threads = argc > 5 ? atoi(argv[5]) : 2,
        reps = argc > 6 ? atoi(argv[6]) : 300;
    Rng rng(5);
    std::vector<double> radii, angles; double Rmax = 1.3;
    random_grid(rng, nr, nth, false, radii, angles, Rmax);
    Problem pb = make_problem(rng, Rmax, 0, -1);
    std::optional<double> split; if (sk > 0) split = radii[sk];
    bool ext_ok = (nr % 2 == 1) && (nth % 4 == 0);   // the extrapolated smoothers require ntheta % 4 == 0 (asserted in buildAscMatrices)
    auto lev = make_level(0, std::make_unique<PolarGrid>(radii, angles, split), pb, true, true, ExtrapolationType::NONE);
    const PolarGrid& g = lev->grid(); const LevelCache& lc = lev->levelCache();
    const int n = g.numberOfNodes();
    stress_one("residualGive", g, threads, reps, [&](int t) { auto o = std::make_shared<ResidualGive>(g, lc, *pb.geom, *pb.coef, false, t);
        return [o, n](Vec& x, const Vec& f) { Vec r(n); o->computeResidual(r, f, x); x = r; }; });
    stress_one("residualTake", g, threads, reps, [&](int t) { auto o = std::make_shared<ResidualTake>(g, lc, *pb.geom, *pb.coef, false, t);
        return [o, n](Vec& x, const Vec& f) { Vec r(n); o->computeResidual(r, f, x); x = r; }; });
    stress_one("smootherGive", g, threads, reps, [&](int t) { auto o = std::make_shared<SmootherGive>(g, lc, *pb.geom, *pb.coef, false, t);
        return [o, n](Vec& x, const Vec& f) { Vec tmp(n); o->smoothing(x, f, tmp); }; });
    stress_one("smootherTake", g, threads, reps, [&](int t) { auto o = std::make_shared<SmootherTake>(g, lc, *pb.geom, *pb.coef, false, t);
        return [o, n](Vec& x, const Vec& f) { Vec tmp(n); o->smoothing(x, f, tmp); }; });
    if (ext_ok && g.numberSmootherCircles() >= 3) {   // the extrapolated smoothers also require at least 3 smoother circles
        auto lev2 = make_level(0, std::make_unique<PolarGrid>(radii, angles, split), pb, true, true, ExtrapolationType::IMPLICIT_EXTRAPOLATION);
        const PolarGrid& g2 = lev2->grid(); const LevelCache& lc2 = lev2->levelCache();
        stress_one("extSmootherGive", g2, threads, reps, [&](int t) { auto o = std::make_shared<ExtrapolatedSmootherGive>(g2, lc2, *pb.geom, *pb.coef, false, t);
            return [o, n](Vec& x, const Vec& f) { Vec tmp(n); o->extrapolatedSmoothing(x, f, tmp); }; });
        stress_one("extSmootherTake", g2, threads, reps, [&](int t) { auto o = std::make_shared<ExtrapolatedSmootherTake>(g2, lc2, *pb.geom, *pb.coef, false, t);
            return [o, n](Vec& x, const Vec& f) { Vec tmp(n); o->extrapolatedSmoothing(x, f, tmp); }; });
    }
    return 0;
}

int main(int argc, char** argv) {
    if (argc > 1 && std::string(argv[1]) == "stress") return stress(argc, argv);
    Rng rng(seed_from_env());
    struct Shape { int nr, nth, split_k; };
    std::vector<Shape> shapes = {{7, 8, -1}, {8, 6, 3}, {9, 8, 5}, {7, 9, 2}};
    if (thorough()) { shapes.push_back({11, 12, 4}); shapes.push_back({9, 10, 6}); shapes.push_back({13, 16, -1}); }
    for (size_t c = 0; c < shapes.size(); c++) {
        for (int ext = 0; ext < 2; ext++) {
            Shape sh = shapes[c];
            if (ext && (sh.nr % 2 == 0 || sh.nth % 4 != 0)) continue;     // extrapolation needs a coarsenable grid (ntheta % 4 == 0 is asserted by the smoothers)
            std::vector<double> radii, angles; double Rmax = 1.3;
            random_grid(rng, sh.nr, sh.nth, false, radii, angles, Rmax);
            Problem pb = make_problem(rng, Rmax, (int)c % 4, -1);
            std::optional<double> split; if (sh.split_k > 0) split = radii[sh.split_k];
            bool dirbc = c % 2;
            try {
                auto lev = make_level(0, std::make_unique<PolarGrid>(radii, angles, split), pb, true, true,
                                      ext ? ExtrapolationType::IMPLICIT_EXTRAPOLATION : ExtrapolationType::NONE);
                const PolarGrid& g = lev->grid(); const LevelCache& lc = lev->levelCache();
                if (g.numberSmootherCircles() < 3 || g.lengthSmootherRadial() < 3) continue;
                std::printf("DIMS %d %d %d %d %s => ok\n", g.nr(), g.ntheta(), g.numberSmootherCircles(), dirbc ? 1 : 0, ext ? "ext" : "std");
                if (!ext) {
                    static const char* rn[2] = {"res", "x"};
                    static const char* tn[3] = {"res", "rhs", "x"};
                    ResidualGive rg(g, lc, *pb.geom, *pb.coef, dirbc, 1); ResidualTake rt(g, lc, *pb.geom, *pb.coef, dirbc, 1);
                    for (int i = 0; i < g.numberSmootherCircles(); i++) {
                        measure(g, "residualGive", "circle", i, "-", 2, rn, [&](std::vector<Vec>& a) { FA::gc(rg, i, a[0], a[1]); }, rng);
                        measure(g, "residualTake", "circle", i, "-", 3, tn, [&](std::vector<Vec>& a) { FA::tc(rt, i, a[0], a[1], a[2]); }, rng);
                    }
                    for (int j = 0; j < g.ntheta(); j++) {
                        measure(g, "residualGive", "radial", j, "-", 2, rn, [&](std::vector<Vec>& a) { FA::gr(rg, j, a[0], a[1]); }, rng);
                        measure(g, "residualTake", "radial", j, "-", 3, tn, [&](std::vector<Vec>& a) { FA::tr(rt, j, a[0], a[1], a[2]); }, rng);
                    }
                    // direct-solver assembly: which CSR rows does a task write (values or column indices)?
                    {
                        DirectSolverGiveCustomLU dg(g, lc, *pb.geom, *pb.coef, dirbc, 1); DirectSolverTakeCustomLU dt(g, lc, *pb.geom, *pb.coef, dirbc, 1);
                        auto rows_written = [&](const char* op, const char* task, int idx, const SparseMatrixCSR<double>& proto, const std::function<void(SparseMatrixCSR<double>&)>& fn) {
                            SparseMatrixCSR<double> M = proto;
                            for (int r = 0; r < M.rows(); r++) for (int k = 0; k < M.row_nz_size(r); k++) { M.row_nz_entry(r, k) = 0.0; M.row_nz_index(r, k) = -7; }
                            fn(M);
                            std::printf("FP %s %s %d - |", op, task, idx);
                            for (int r = 0; r < M.rows(); r++) {
                                bool w = false; for (int k = 0; k < M.row_nz_size(r); k++) w = w || M.row_nz_entry(r, k) != 0.0 || M.row_nz_index(r, k) != -7;
                                if (w) { MultiIndex m = g.multiIndex(r); std::printf(" W mat:%d,%d", m[0], m[1]); }
                            }
                            std::printf(" | => CHECK ok\n");
                        };
                        for (int i = 0; i < g.numberSmootherCircles(); i++) {
                            rows_written("directGive", "asmCircle", i, FA::csr(dg), [&](SparseMatrixCSR<double>& M) { FA::dgc(dg, i, M); });
                            rows_written("directTake", "asmCircle", i, FA::csr(dt), [&](SparseMatrixCSR<double>& M) { FA::dtc(dt, i, M); });
                        }
                        for (int j = 0; j < g.ntheta(); j++) {
                            rows_written("directGive", "asmRadial", j, FA::csr(dg), [&](SparseMatrixCSR<double>& M) { FA::dgr(dg, j, M); });
                            rows_written("directTake", "asmRadial", j, FA::csr(dt), [&](SparseMatrixCSR<double>& M) { FA::dtr(dt, j, M); });
                        }
                    }
                    SmootherGive sg(g, lc, *pb.geom, *pb.coef, dirbc, 1); SmootherTake st(g, lc, *pb.geom, *pb.coef, dirbc, 1);
                    smoother_tasks("smootherGive", sg, g, rng, true);
                    smoother_tasks("smootherTake", st, g, rng, false);
                } else {
                    ExtrapolatedSmootherGive eg(g, lc, *pb.geom, *pb.coef, dirbc, 1); ExtrapolatedSmootherTake et(g, lc, *pb.geom, *pb.coef, dirbc, 1);
                    smoother_tasks("extSmootherGive", eg, g, rng, true);
                    smoother_tasks("extSmootherTake", et, g, rng, false);
                }
            } catch (const std::exception& e) {
                std::string m = e.what(); std::replace(m.begin(), m.end(), '\n', ' ');
                std::printf("# rejected: %s\n", m.c_str());
            }
        }
    }
    return 0;
}
