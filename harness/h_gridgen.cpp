// K-gridgen (C18): the parametric PolarGrid constructor, the anisotropic division's window indices (through the
// guarded trace hook), chooseNumberOfLevels and the grid-file round trip, run on the implementation and printed as
// "QUERY => RESULT" lines that the extracted Coq model (GridGenDefs.v) recomputes / judges in exact arithmetic.
#include "hcommon.h"
#include "GMGPolar/gmgpolar.h"
#include "GMGPolar/test_cases.h"
#include <cmath>
#include <fstream>
#include <filesystem>
using namespace vh;

namespace gmgpolar_verif {
struct Access {
    static int choose(GMGPolar& s, const PolarGrid& g) { return s.chooseNumberOfLevels(g); }
};
} // namespace gmgpolar_verif
using gmgpolar_verif::Access;

static bool g_have_aniso = false;
static double g_p = 0;
static void record(const char* op, int level, std::initializer_list<const void*>, std::initializer_list<double> s) {
    if (std::string(op) != "anisoIndices") return;
    std::vector<double> v(s);
    // v = anisotropic_factor, floor(nr*percentage), se, ee, n_elems_refined, n_elems_equi
    std::printf("ANISO %d %d %.0f => %.0f %.0f %.0f %.0f\n", level, (int)v[0], v[1], v[2], v[3], v[4], v[5]);
    g_have_aniso = true; g_p = v[1];
}

static void pvec(const std::vector<double>& v) { for (double x : v) std::printf(" %s", hx(x).c_str()); }

static void gen_case(double R0, double Rmax, int nr_exp, int nt_exp, double rr, int an, int dv) {
    g_have_aniso = false;
    std::string q = "GEN " + hx(R0) + " " + hx(Rmax) + " " + std::to_string(nr_exp) + " " + std::to_string(nt_exp) + " " + hx(rr) + " " +
                    std::to_string(an) + " " + std::to_string(dv);
    try {
        PolarGrid g(R0, Rmax, nr_exp, nt_exp, rr, an, dv);
        std::printf("%s %s => ok %d %d\n", q.c_str(), g_have_aniso ? std::to_string((long)g_p).c_str() : "-", g.nr(), g.ntheta());
        if (an == 0) { std::printf("RADU %s %s %d %d |", hx(R0).c_str(), hx(Rmax).c_str(), nr_exp, dv); pvec(g.radii()); std::printf(" => CHECK ok\n"); }
        std::printf("RADV %s %s |", hx(R0).c_str(), hx(Rmax).c_str()); pvec(g.radii()); std::printf(" => CHECK ok\n");
        std::printf("ANG %d %d |", g.ntheta() >> dv, dv); pvec(g.angles()); std::printf(" => CHECK ok\n");
        if (dv > 0) {
            PolarGrid c(R0, Rmax, nr_exp, nt_exp, rr, an, dv - 1);
            std::printf("NEST |"); pvec(g.radii()); std::printf(" |"); pvec(c.radii()); std::printf(" => CHECK ok\n");
            std::printf("NEST |"); pvec(g.angles()); std::printf(" |"); pvec(c.angles()); std::printf(" => CHECK ok\n");
        }
    } catch (const std::exception& e) {
        std::printf("%s %s => rejected\n", q.c_str(), g_have_aniso ? std::to_string((long)g_p).c_str() : "-");
    }
}

int main(int argc, char** argv) {
    std::string mode = argc > 1 ? argv[1] : "gen";
    Rng rng(seed_from_env() ^ std::hash<std::string>{}(mode));
    gmgpolar_verif::trace_callback() = record;
    const double R0s[] = {1e-5, 0.1, 1e-8, 0.5};
    const double Rms[] = {1.3, 1.0, 7.5, 1.3};
    if (mode == "gen") {
        // ---- uniform division ----
        for (int nr_exp = 2; nr_exp <= (thorough() ? 7 : 5); nr_exp++)
            for (int nt_exp : {-1, 2, 3, 5})
                for (int dv = 0; dv <= 2; dv++) {
                    int k = rng.range(0, 3);
                    gen_case(R0s[k], Rms[k], nr_exp, nt_exp, rng.coin() ? 0.0 : 0.66 * Rms[k], 0, dv);
                }
        // ---- anisotropic division: every (nr_exp, factor), refinement radii across and beyond the domain ----
        const double fr[] = {-0.3, 0.0, 0.004, 0.03, 0.07, 0.108, 0.2, 0.33, 0.5, 0.66, 0.8, 0.9, 0.95, 0.985, 0.999, 1.0, 1.2};
        for (int nr_exp = 3; nr_exp <= (thorough() ? 8 : 6); nr_exp++)
            for (int an = -1; an <= nr_exp + 1; an++) {
                if (an == 0) continue;
                for (double f : fr) {
                    int k = rng.range(0, 3);
                    double R0 = R0s[k], Rmax = Rms[k];
                    gen_case(R0, Rmax, nr_exp, rng.coin() ? -1 : rng.range(2, 5), R0 + f * (Rmax - R0), an, rng.range(0, 4) == 0 ? 1 : 0);
                }
                // the command-line default refinement radius (0 < R0), and random positions
                gen_case(1e-5, 1.3, nr_exp, -1, 0.0, an, 0);
                for (int t = 0; t < (thorough() ? 12 : 3); t++) {
                    int k = rng.range(0, 3);
                    gen_case(R0s[k], Rms[k], nr_exp, -1, R0s[k] + rng.unit() * (Rms[k] - R0s[k]), an, 0);
                }
            }
    } else if (mode == "levels") {
        const double Rmax = 1.3;
        auto solver = std::make_unique<GMGPolar>(std::make_unique<CircularGeometry>(Rmax), std::make_unique<PoissonCoefficients>(Rmax, 0.66 * Rmax),
                                                 std::make_unique<CartesianR2_Boundary_CircularGeometry>(Rmax),
                                                 std::make_unique<CartesianR2_Poisson_CircularGeometry>(Rmax));
        solver->verbose(0);
        std::vector<std::pair<int, int>> sizes;
        for (int nr : {2, 3, 4, 5, 6, 7, 8, 9, 10, 11, 13, 17, 18, 19, 21, 25, 33, 35, 37, 41, 49, 65, 67, 97, 129, 131, 257, 513})
            for (int nt : {4, 6, 8, 10, 12, 16, 20, 24, 32, 40, 48, 64, 96, 128, 256}) sizes.push_back({nr, nt});
        for (int t = 0; t < (thorough() ? 400 : 60); t++) sizes.push_back({rng.range(2, 300), 2 * rng.range(2, 200)});
        for (auto [nr, nt] : sizes) {
            std::vector<double> radii(nr), angles = random_angles(rng, nt, true);
            for (int i = 0; i < nr; i++) radii[i] = 0.1 + i * (1.2 / (nr - 1));
            try {
                PolarGrid g(radii, angles);
                for (int ml : {-1, 0, 1, 2, 3, 5, 100}) {
                    solver->maxLevels(ml);
                    std::printf("LEV %d %d %d => ", nr, nt, ml);
                    try { std::printf("%d\n", Access::choose(*solver, g)); }
                    catch (const std::exception&) { std::printf("rejected\n"); }
                }
            } catch (const std::exception& e) { std::printf("# grid %d x %d rejected by the constructor\n", nr, nt); }
        }
    } else if (mode == "files") {
        std::string dir = argc > 2 ? argv[2] : ".";
        for (int t = 0; t < (thorough() ? 24 : 6); t++) {
            int nr_exp = rng.range(3, 5), dv = rng.range(0, 1), prec = (t % 3 == 0) ? 17 : rng.range(6, 16);
            int k = rng.range(0, 3);
            PolarGrid g(R0s[k], Rms[k], nr_exp, -1, 0.66 * Rms[k], t % 2 ? 2 : 0, dv);
            g.writeToFile(dir + "/r.txt", dir + "/t.txt", prec);
            bool ok = true; std::string why;
            try {
                PolarGrid h(dir + "/r.txt", dir + "/t.txt");
                if (h.nr() != g.nr() || h.ntheta() != g.ntheta()) { ok = false; why = "sizes differ"; }
                // half a unit of the last written digit, plus the rounding of the decimal -> binary conversion of a number of that size
                auto bound = [&](double v) { return 0.5000001 * std::pow(10.0, -prec) + 2.0 * 2.220446049250313e-16 * std::max(1.0, std::fabs(v)); };
                for (int i = 0; ok && i < g.nr(); i++) if (std::fabs(h.radius(i) - g.radius(i)) > bound(g.radius(i))) { ok = false; why = "radius " + std::to_string(i); }
                for (int j = 0; ok && j <= g.ntheta(); j++) if (std::fabs(h.theta(j) - g.theta(j)) > bound(g.theta(j))) { ok = false; why = "angle " + std::to_string(j); }
            } catch (const std::exception& e) {
                // the loader's own validity tolerance (equals(): 1e3 eps relative) is finer than 10^-precision below 13 digits:
                // such a file is a malformed grid for checkParameters and its clean rejection is the documented outcome
                if (prec < 13) { std::string m = e.what(); std::replace(m.begin(), m.end(), '\n', ' '); std::printf("# precision %d: reload rejected by checkParameters (%s)\n", prec, m.c_str()); }
                else { ok = false; why = std::string("loading the written grid was rejected: ") + e.what(); }
            }
            std::replace(why.begin(), why.end(), '\n', ' ');
            std::printf("PROP file-round-trip nr_exp=%d dv=%d aniso=%d precision=%d => %s\n", nr_exp, dv, t % 2 ? 2 : 0, prec,
                        ok ? "ok" : ("FAIL the reloaded grid differs beyond the written precision: " + why).c_str());
        }
        { std::ofstream e(dir + "/empty.txt"); }
        { std::ofstream m(dir + "/garbage.txt"); m << "1.0 abc 2.0\n"; }
        { std::ofstream m(dir + "/decreasing.txt"); m << "0.5\n0.4\n1.0\n"; }
        { std::ofstream m(dir + "/onevalue.txt"); m << "0.5\n"; }
        const char* bad[5] = {"/does_not_exist.txt", "/empty.txt", "/garbage.txt", "/decreasing.txt", "/onevalue.txt"};
        for (int k = 0; k < 5; k++)
            for (int which = 0; which < 2; which++) {
                bool rejected = false;
                try { PolarGrid b(which ? dir + "/r.txt" : dir + bad[k], which ? dir + bad[k] : dir + "/t.txt"); }
                catch (const std::exception&) { rejected = true; }
                std::printf("PROP bad-file-rejected %s %s => %s\n", which ? "angles" : "radii", bad[k] + 1,
                            rejected ? "ok" : "FAIL a missing / empty / malformed grid file was accepted");
            }
        // ---- node vectors checkParameters must reject (and near misses it must accept) ----
        {
            const double P = M_PI;
            std::vector<double> R{0.1, 0.2, 0.4, 0.7, 1.3}, T{0, 0.5 * P, P, 1.5 * P, 2 * P};
            struct VC { const char* name; std::vector<double> r, t; bool valid; };
            std::vector<VC> cs = {
                {"valid", R, T, true},
                {"valid-nonuniform", {0.1, 0.15, 0.4, 0.9, 1.3}, {0, 0.3 * P, 0.5 * P, P, 1.3 * P, 1.5 * P, 2 * P}, true},
                {"repeated-radius", {0.1, 0.2, 0.2, 0.7, 1.3}, T, false},
                {"repeated-last-radius", {0.1, 0.2, 0.4, 1.3, 1.3}, T, false},
                {"repeated-first-radius", {0.1, 0.1, 0.4, 0.7, 1.3}, T, false},
                {"decreasing-radius", {0.1, 0.4, 0.2, 0.7, 1.3}, T, false},
                {"zero-radius", {0.0, 0.2, 0.4, 0.7, 1.3}, T, false},
                {"negative-radius", {-0.1, 0.2, 0.4, 0.7, 1.3}, T, false},
                {"one-radius", {0.5}, T, false},
                {"repeated-angle", R, {0, 0.5 * P, 0.5 * P, P, 1.5 * P, 1.5 * P, 2 * P}, false},
                {"repeated-angle-pi", R, {0, 0.5 * P, P, P, 1.5 * P, 2 * P}, false},
                {"decreasing-angle", R, {0, P, 0.5 * P, 1.5 * P, 2 * P}, false},
                {"first-angle-not-0", R, {0.1, 0.5 * P, P, 1.5 * P, 2 * P}, false},
                {"last-angle-not-2pi", R, {0, 0.5 * P, P, 1.5 * P, 1.9 * P}, false},
                {"negative-angle", R, {-0.5 * P, 0, 0.5 * P, P, 1.5 * P, 2 * P}, false},
                {"two-angles", R, {0, 2 * P}, false},
                {"missing-antipode", R, {0, 0.4 * P, P, 1.5 * P, 2 * P}, false},
            };
            for (auto& c : cs) {
                bool thrown = false;
                try { PolarGrid g(c.r, c.t); } catch (const std::exception&) { thrown = true; }
                bool ok = c.valid ? !thrown : thrown;
                std::printf("PROP node-vectors %s => %s\n", c.name, ok ? "ok" : (c.valid ? "FAIL a valid grid was rejected" : "FAIL an invalid grid (not strictly increasing / out of range / no antipode) was accepted"));
            }
            // generated grids whose spacing falls below one ulp: either an exception or strictly increasing radii
            struct GC { double R0, Rm; int nr_exp, dv; };
            for (auto c : {GC{1.0, 1.0 + 1e-12, 14, 0}, GC{1.0, 1.0 + 1e-12, 4, 11}, GC{0.5, 1.3, 4, 1}}) {
                bool ok = true;
                try {
                    PolarGrid g(c.R0, c.Rm, c.nr_exp, 3, 0.5 * (c.R0 + c.Rm), 0, c.dv);
                    for (int i = 0; i + 1 < g.nr(); i++) if (!(g.radius(i) < g.radius(i + 1))) ok = false;
                } catch (const std::exception&) {}
                std::printf("PROP generated-strictly-increasing R0=%.17g Rmax=%.17g nr_exp=%d divideBy2=%d => %s\n", c.R0, c.Rm, c.nr_exp, c.dv,
                            ok ? "ok" : "FAIL an accepted grid has radii that do not increase strictly");
            }
            // a file written with too few digits has repeated radii: the loader must reject it
            {
                PolarGrid g(0.1, 1.3, 6, 3, 0.7, 0, 0);
                for (int prec : {1, 2}) {
                    g.writeToFile(dir + "/rc.txt", dir + "/tc.txt", prec);
                    bool ok = true;
                    try {
                        PolarGrid h(dir + "/rc.txt", dir + "/tc.txt");
                        for (int i = 0; i + 1 < h.nr(); i++) if (!(h.radius(i) < h.radius(i + 1))) ok = false;
                    } catch (const std::exception&) {}
                    std::printf("PROP coarse-file-not-degenerate precision=%d => %s\n", prec, ok ? "ok" : "FAIL a loaded grid has repeated radii");
                }
            }
        }
    }
    return 0;
}
