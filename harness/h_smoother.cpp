// K-affine for the smoothers (C06, C07): the linear map (x, f) -> x' of one sweep is extracted by unit
// inputs from SmootherGive / SmootherTake (mode "smoother") and ExtrapolatedSmootherGive / Take (mode
// "extsmoother"), and the properties are evaluated directly on the implementation as well.
#include "hproblem.h"
using namespace vh;

static double vmaxabs(const Vector<double>& v) { double m = 0; for (int i = 0; i < v.size(); i++) m = std::max(m, std::fabs(v[i])); return m; }

struct Sweepers {
    std::function<void(Vector<double>&, const Vector<double>&)> give, take;   // x in/out, f
    bool has_take = false;
};

static void print_vec_ij(const PolarGrid& g, const Vector<double>& v) {
    for (int i = 0; i < g.nr(); i++) for (int j = 0; j < g.ntheta(); j++) std::printf(" %s", hx(v[g.index(i, j)]).c_str());
}

// coefficients multiplied by a power of two: every entry of A scales exactly, so a sweep of (2^e A, 2^e f) must return the same bits
struct ScaledCoefficients : public DensityProfileCoefficients {
    const DensityProfileCoefficients& base; int e;
    ScaledCoefficients(const DensityProfileCoefficients& b, int e_) : base(b), e(e_) {}
    double alpha(const double& r) const override { return std::ldexp(base.alpha(r), e); }
    double beta(const double& r) const override { return std::ldexp(base.beta(r), e); }
    double getAlphaJump() const override { return base.getAlphaJump(); }
};

int main(int argc, char** argv) {
    std::string mode = argc > 1 ? argv[1] : "smoother";
    const bool ext = mode == "extsmoother";
    Rng rng(seed_from_env() ^ std::hash<std::string>{}(mode));
    const int ncases = thorough() ? 40 : 8;
    for (int c = 0; c < ncases; c++) {
        int nr = ext ? 2 * rng.range(3, thorough() ? 6 : 4) + 1 : rng.range(5, thorough() ? 11 : 8);
        const int nths[] = {4, 8, 12, 16, 6, 10};   // the standard smoothers accept every even ntheta; the extrapolated ones need ntheta % 4 == 0
        int nth = nths[ext ? rng.range(0, thorough() ? 3 : 2) : rng.range(0, thorough() ? 5 : 4)];
        double Rmax = 1.3;
        std::vector<double> radii, angles;
        random_grid(rng, nr, nth, rng.range(0, 3) == 0, radii, angles, Rmax);
        Problem pb = make_problem(rng, Rmax, c % 4, -1);
        bool dirbc = rng.coin();
        // split: automatic, or explicit with nsc in [2 (3 for ext), nr-3], both parities
        std::optional<double> split;
        if (rng.coin()) { int lo = ext ? 3 : 2; int k = rng.range(lo, nr - 3); split = radii[k]; }
        std::printf("# case %d\n", c);
        try {
            auto lev = make_level(0, std::make_unique<PolarGrid>(radii, angles, split), pb, true, true,
                                  ext ? ExtrapolationType::IMPLICIT_EXTRAPOLATION : ExtrapolationType::NONE);
            const PolarGrid& g = lev->grid();
            const LevelCache& lc = lev->levelCache();
            if (g.numberSmootherCircles() < (ext ? 3 : 2) || g.lengthSmootherRadial() < 3) { std::printf("# skipped: split outside the smoother's domain\n"); continue; }
            std::printf("# level 0 nr=%d ntheta=%d nsc=%d dirbc=%d cache_coef=1 cache_geom=1 geom=%s coef=%s mode=%s\n", g.nr(), g.ntheta(),
                        g.numberSmootherCircles(), dirbc, pb.geom_name.c_str(), pb.coef_name.c_str(), mode.c_str());
            dump_grid_and_coefficients(g, lc, dirbc);
            std::printf("SGRID %d %s => ok\n", g.numberSmootherCircles(), ext ? "ext" : "std");
            const int n = g.numberOfNodes();
            int threads = rng.range(1, 5);
            Sweepers S;
            std::unique_ptr<SmootherGive> sg; std::unique_ptr<SmootherTake> st;
            std::unique_ptr<ExtrapolatedSmootherGive> eg; std::unique_ptr<ExtrapolatedSmootherTake> et;
            // the give smoothers accept every cache-flag combination (take needs both caches): the give operators get their own LevelCache
            // with flags cycling through (1,1) (0,1) (1,0) (0,0); the coefficients are the same functions either way
            const bool gcc = (c % 4 == 0) || (c % 4 == 2), gcg = (c % 4 == 0) || (c % 4 == 1);
            LevelCache lc_give(g, *pb.coef, *pb.geom, gcc, gcg);
            std::printf("# give operators: cache_coef=%d cache_geom=%d\n", gcc, gcg);
            if (!ext) {
                sg = std::make_unique<SmootherGive>(g, lc_give, *pb.geom, *pb.coef, dirbc, threads);
                st = std::make_unique<SmootherTake>(g, lc, *pb.geom, *pb.coef, dirbc, threads);
                S.give = [&](Vector<double>& x, const Vector<double>& f) { Vector<double> t(n); for (int i = 0; i < n; i++) t[i] = 4242.5; sg->smoothing(x, f, t); };
                S.take = [&](Vector<double>& x, const Vector<double>& f) { Vector<double> t(n); for (int i = 0; i < n; i++) t[i] = -4242.5; st->smoothing(x, f, t); };
            } else {
                eg = std::make_unique<ExtrapolatedSmootherGive>(g, lc_give, *pb.geom, *pb.coef, dirbc, threads);
                et = std::make_unique<ExtrapolatedSmootherTake>(g, lc, *pb.geom, *pb.coef, dirbc, threads);
                S.give = [&](Vector<double>& x, const Vector<double>& f) { Vector<double> t(n); for (int i = 0; i < n; i++) t[i] = 4242.5; eg->extrapolatedSmoothing(x, f, t); };
                S.take = [&](Vector<double>& x, const Vector<double>& f) { Vector<double> t(n); for (int i = 0; i < n; i++) t[i] = -4242.5; et->extrapolatedSmoothing(x, f, t); };
            }
            // ---- the affine map, column by column (each sweep runs on a fresh copy) ----
            auto run_pair = [&](const char* kind, int idx, const Vector<double>& x0, const Vector<double>& f0) {
                Vector<double> xg = x0, xt = x0;
                S.give(xg, f0); S.take(xt, f0);
                for (int which = 0; which < 2; which++) {
                    std::printf("SW %s %s %d |", which == 0 ? "give" : "take", kind, idx);
                    print_vec_ij(g, x0); std::printf(" |"); print_vec_ij(g, f0);
                    std::printf(" |"); print_vec_ij(g, which == 0 ? xg : xt); std::printf(" => CHECK ok\n");
                }
                double d = 0, sc = std::max(vmaxabs(xg), 1e-300);
                for (int i = 0; i < n; i++) d = std::max(d, std::fabs(xg[i] - xt[i]));
                std::printf("PROP give-eq-take %s %d reldiff=%.3e => %s\n", kind, idx, d / sc,
                            d <= 1e-9 * sc ? "ok" : "FAIL the two strategies' sweeps differ");
                if (ext) {
                    bool same = true;
                    for (int i = 0; i < g.nr(); i += 2) for (int j = 0; j < g.ntheta(); j += 2) {
                        int k = g.index(i, j);
                        same = same && std::memcmp(&xg[k], &x0[k], sizeof(double)) == 0 && std::memcmp(&xt[k], &x0[k], sizeof(double)) == 0;
                    }
                    std::printf("PROP coarse-nodes-bitwise-unchanged %s %d => %s\n", kind, idx, same ? "ok" : "FAIL a node of the next coarser grid was modified by the extrapolated sweep");
                }
            };
            Vector<double> zero(n); for (int i = 0; i < n; i++) zero[i] = 0.0;
            int stride = thorough() ? 1 : std::max(1, n / 40);
            for (int s = 0; s < n; s += stride) {
                Vector<double> e = zero; e[s] = 1.0;
                MultiIndex m = g.multiIndex(s);
                run_pair("x", m[0] * g.ntheta() + m[1], e, zero);
                run_pair("f", m[0] * g.ntheta() + m[1], zero, e);
            }
            for (int t = 0; t < 2; t++) {
                Vector<double> x0(n), f0(n);
                for (int i = 0; i < n; i++) { x0[i] = rng.nice(-2, 2) * (t ? std::ldexp(1.0, rng.range(-30, 30)) : 1.0); f0[i] = rng.nice(-2, 2); }
                run_pair("r", t, x0, f0);
            }
            // ---- scale invariance (standard smoothers, Dirichlet inner boundary: the across-origin block goes through the sparse LU whose
            //      absolute pivot threshold is finding F4): the sweep of (2^e A, 2^e f) equals the sweep of (A, f) bit for bit ----
            if (!ext && dirbc && c % 2 == 0) {
                for (int e : {300, 520}) {
                    ScaledCoefficients sc(*pb.coef, e);
                    LevelCache lcs(g, sc, *pb.geom, true, true);
                    SmootherGive sgs(g, lcs, *pb.geom, sc, dirbc, threads);
                    SmootherTake sts(g, lcs, *pb.geom, sc, dirbc, threads);
                    Vector<double> x0(n), f0(n), fs(n);
                    for (int i = 0; i < n; i++) { x0[i] = rng.nice(-2, 2); f0[i] = rng.nice(-2, 2); fs[i] = std::ldexp(f0[i], e); }
                    // Dirichlet rows are identity rows: their right-hand side is the boundary value itself, not scaled
                    for (int j = 0; j < g.ntheta(); j++) { fs[g.index(0, j)] = f0[g.index(0, j)]; fs[g.index(g.nr() - 1, j)] = f0[g.index(g.nr() - 1, j)]; }
                    Vector<double> xa = x0, xb = x0, xc = x0, t(n);
                    S.give(xa, f0);
                    for (int i = 0; i < n; i++) t[i] = 1.5; sgs.smoothing(xb, fs, t);
                    for (int i = 0; i < n; i++) t[i] = -1.5; sts.smoothing(xc, fs, t);
                    bool same = true, fin = true;
                    for (int i = 0; i < n; i++) { same = same && xa[i] == xb[i]; fin = fin && std::isfinite(xb[i]) && std::isfinite(xc[i]); }
                    double d = 0; for (int i = 0; i < n; i++) d = std::max(d, std::fabs(xb[i] - xc[i]));
                    std::printf("PROP sweep-scaling-invariance exponent=%d => %s\n", e,
                                (same && fin && d <= 1e-9 * std::max(vmaxabs(xb), 1e-300)) ? "ok" : "FAIL the sweep of (2^e A, 2^e f) differs from the sweep of (A, f) or is not finite (scale dependence of the line solves)");
                }
            }
            // ---- properties evaluated on the implementation ----
            ResidualGive res(g, lc, *pb.geom, *pb.coef, dirbc, 1);
            DirectSolverGiveCustomLU ds(g, lc, *pb.geom, *pb.coef, dirbc, 1);
            Vector<double> f(n), u(n), r(n);
            for (int i = 0; i < n; i++) f[i] = rng.real(-1, 1);
            u = f; ds.solveInPlace(u);
            if (!ext) {
                for (int which = 0; which < 2; which++) {
                    Vector<double> x = u;
                    (which ? S.take : S.give)(x, f);
                    double d = 0; for (int i = 0; i < n; i++) d = std::max(d, std::fabs(x[i] - u[i]));
                    std::printf("PROP fixed-point %s reldiff=%.3e => %s\n", which ? "take" : "give", d / std::max(vmaxabs(u), 1e-300),
                                d <= 1e-8 * std::max(vmaxabs(u), 1e-300) ? "ok" : "FAIL a sweep moves the exact discrete solution");
                    Vector<double> y(n); for (int i = 0; i < n; i++) y[i] = rng.real(-1, 1);
                    (which ? S.take : S.give)(y, f);
                    res.computeResidual(r, f, y);
                    double scale = 0; { Vector<double> z = zero, Ay(n); res.computeResidual(Ay, z, y); scale = vmaxabs(Ay) + vmaxabs(f); }
                    double worst = 0;
                    for (int j = 1; j < g.ntheta(); j += 2) for (int i = g.numberSmootherCircles(); i < g.nr(); i++) worst = std::max(worst, std::fabs(r[g.index(i, j)]));
                    std::printf("PROP last-colour-residual-zero %s rel=%.3e => %s\n", which ? "take" : "give", worst / scale,
                                worst <= 1e-10 * scale ? "ok" : "FAIL the residual on the white radial lines is not zero after a sweep");
                    bool bc = true;
                    for (int j = 0; j < g.ntheta(); j++) {
                        bc = bc && y[g.index(g.nr() - 1, j)] == f[g.index(g.nr() - 1, j)];
                        if (dirbc) bc = bc && y[g.index(0, j)] == f[g.index(0, j)];
                    }
                    std::printf("PROP dirichlet-nodes-get-data %s => %s\n", which ? "take" : "give", bc ? "ok" : "FAIL a Dirichlet node does not hold the prescribed boundary value after a sweep");
                }
            } else {
                for (int which = 0; which < 2; which++) {
                    Vector<double> x = u;
                    (which ? S.take : S.give)(x, f);
                    double d = 0; for (int i = 0; i < n; i++) d = std::max(d, std::fabs(x[i] - u[i]));
                    std::printf("PROP fixed-point %s reldiff=%.3e => %s\n", which ? "take" : "give", d / std::max(vmaxabs(u), 1e-300),
                                d <= 1e-8 * std::max(vmaxabs(u), 1e-300) ? "ok" : "FAIL an extrapolated sweep moves the exact discrete solution");
                    Vector<double> y(n); for (int i = 0; i < n; i++) y[i] = rng.real(-1, 1);
                    (which ? S.take : S.give)(y, f);
                    res.computeResidual(r, f, y);
                    double scale = 0; { Vector<double> z = zero, Ay(n); res.computeResidual(Ay, z, y); scale = vmaxabs(Ay) + vmaxabs(f); }
                    double worst = 0;
                    for (int j = 1; j < g.ntheta(); j += 2) for (int i = g.numberSmootherCircles(); i < g.nr(); i++) worst = std::max(worst, std::fabs(r[g.index(i, j)]));
                    std::printf("PROP last-colour-fine-residual-zero %s rel=%.3e => %s\n", which ? "take" : "give", worst / scale,
                                worst <= 1e-10 * scale ? "ok" : "FAIL the residual on the fine-only nodes of the white radial lines is not zero");
                }
            }
        } catch (const std::exception& e) {
            std::string m = e.what(); std::replace(m.begin(), m.end(), '\n', ' ');
            std::printf("# rejected: %s\n", m.c_str());
        }
    }
    return 0;
}
