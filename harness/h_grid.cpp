// K-grid (C17): every public index / neighbour / spacing / split / coarsening query of PolarGrid,
// exhaustively on whole grids, printed as "QUERY => result" lines for comparison with the model.
#include "hcommon.h"
#include "PolarGrid/polargrid.h"
#include <optional>
#include <array>
using namespace vh;

PolarGrid coarseningGrid(const PolarGrid& fineGrid);

static void dump_vec(const char* tag, const std::vector<double>& v) {
    std::printf("%s", tag);
    for (double x : v) std::printf(" %s", hx(x).c_str());
    std::printf(" => %zu\n", v.size());
}

static void dump_grid(const PolarGrid& g, bool full) {
    const int nr = g.nr(), nth = g.ntheta();
    dump_vec("R", g.radii());
    dump_vec("A", g.angles());
    std::printf("G %d %d %d => %d %d %d\n", nr, nth, g.numberSmootherCircles(), g.lengthSmootherRadial(),
                g.numberCircularSmootherNodes(), g.numberOfNodes());
    const int span = full ? 3 * nth + 2 : nth + 2;
    for (int x = -span; x <= span; x++) std::printf("W %d => %d %d\n", x, g.wrapThetaIndex(x), g.wrapThetaIndex(x));
    // a few far-away offsets, both signs
    for (int x : {-1000003, -65536, -4097, 4097, 65536, 1000003, -2147480000, 2147480000})
        std::printf("W %d => %d %d\n", x, g.wrapThetaIndex(x), g.wrapThetaIndex(x));
    for (int i = 0; i < nr; i++) {
        for (int j = -span; j <= span; j++) std::printf("I %d %d => %d\n", i, j, g.index(i, j));
        for (int j = 0; j < nth; j++) {
            std::printf("F %d %d => %d\n", i, j, g.fastIndex(i, j));
            std::printf("J %d %d => %d\n", i, j, g.index(MultiIndex(i, j)));
            std::array<std::pair<int, int>, space_dimension> a, d;
            g.adjacentNeighborsOf(MultiIndex(i, j), a);
            g.diagonalNeighborsOf(MultiIndex(i, j), d);
            std::printf("N %d %d => %d %d %d %d %d %d %d %d\n", i, j, a[0].first, a[0].second, a[1].first, a[1].second,
                        d[0].first, d[0].second, d[1].first, d[1].second);
            std::array<std::pair<double, double>, space_dimension> dist;
            g.adjacentNeighborDistances(MultiIndex(i, j), dist);
            std::printf("D %d %d => %s %s %s %s\n", i, j, hx(dist[0].first).c_str(), hx(dist[0].second).c_str(),
                        hx(dist[1].first).c_str(), hx(dist[1].second).c_str());
        }
    }
    for (int k = 0; k < g.numberOfNodes(); k++) {
        int r, t; g.multiIndex(k, r, t);
        MultiIndex m = g.multiIndex(k);
        std::printf("M %d => %d %d %d %d\n", k, r, t, m[0], m[1]);
    }
}

int main(int argc, char** argv) {
    if (argc > 1 && std::string(argv[1]) == "probe_auto_nr2") {
        // smallest radii vector checkParameters accepts, automatic split (default argument)
        std::vector<double> radii;
        radii.reserve(2); // capacity == size: an out-of-range read is at least past the allocation
        radii.push_back(1.0); radii.push_back(2.0);
        std::vector<double> angles{0.0, M_PI, 2 * M_PI};
        PolarGrid g(radii, angles);
        std::printf("nsc=%d lenr=%d split=%s\n", g.numberSmootherCircles(), g.lengthSmootherRadial(),
                    hx(g.smootherSplittingRadius()).c_str());
        bool ok = std::isfinite(g.smootherSplittingRadius()) && g.smootherSplittingRadius() > 2.0;
        return ok ? 0 : 3;
    }
    Rng rng(seed_from_env());
    const int ngrids = thorough() ? 400 : 60;
    const int nth_choices[] = {2, 4, 6, 8, 10, 12, 14, 16, 20, 24, 32, 36, 64};
    for (int c = 0; c < ngrids; c++) {
        int nr = rng.range(2, thorough() ? 19 : 13);
        int nth = nth_choices[rng.range(0, thorough() ? 12 : 10)];
        bool wild = rng.coin();
        double r0 = wild ? std::pow(10.0, rng.real(-6, -1)) : rng.real(0.05, 0.5);
        auto radii = random_radii(rng, nr, r0, rng.real(1.0, 2.0), wild);
        auto angles = random_angles(rng, nth, rng.coin());
        // splitting radius: automatic, below R0, exactly a radius, between two radii, Rmax, above Rmax
        int mode = rng.range(0, 6);
        if (nr == 2 && mode == 0) mode = 2; // nr = 2 with the automatic split: see probe_auto_nr2
        std::optional<double> split;
        int k = rng.range(0, nr - 1);
        switch (mode) {
        case 0: split = std::nullopt; break;
        case 1: split = radii[0] * 0.5; break;
        case 2: split = radii[k]; break;
        case 3: split = k + 1 < nr ? 0.5 * (radii[k] + radii[k + 1]) : radii[k]; break;
        case 4: split = radii[nr - 1]; break;
        case 5: split = radii[nr - 1] * 2; break;
        default: split = radii[0]; break;
        }
        std::printf("# case %d nr=%d ntheta=%d splitmode=%d\n", c, nr, nth, mode);
        if (c % 6 == 5) {
            // grids built by the parametric constructor (the one GMGPolar::setup uses), with divideBy2 bisections, and reloaded from files
            int nr_exp = rng.range(2, 3), nt_exp = rng.range(0, 3) == 0 ? -1 : rng.range(2, 4), dv = rng.range(0, 2), an = rng.range(0, 1);
            try {
                PolarGrid pg(1e-2, 1.3, nr_exp, nt_exp, 0.66 * 1.3, an, dv);
                std::printf("# parametric nr_exp=%d ntheta_exp=%d aniso=%d divideBy2=%d\n", nr_exp, nt_exp, an, dv);
                dump_grid(pg, c % 12 == 5);
                PolarGrid cp(pg); PolarGrid mv(std::move(cp));
                dump_grid(mv, false);
            } catch (const std::exception& e) { std::printf("# parametric grid rejected: %s\n", e.what()); }
        }
        try {
            PolarGrid g(radii, angles, split);
            dump_grid(g, c % 4 == 0);
            if (split.has_value()) std::printf("SE %s => %d\n", hx(*split).c_str(), g.numberSmootherCircles());
            else {
                // the floating-point test of the automatic split, evaluated here exactly as documented:
                // q(i) := (2*pi/ntheta) / (r_i - r_{i-1}) * r_i > 1   for i = 2 .. nr-3
                std::printf("SA %d", nr);
                for (int i = 2; i < nr - 2; i++) {
                    double uniform_theta_k = (2 * M_PI) / nth;
                    double q = uniform_theta_k / (radii[i] - radii[i - 1]);
                    std::printf(" %d", q * radii[i] > 1.0 ? 1 : 0);
                }
                std::printf(" => %d\n", g.numberSmootherCircles());
            }
            // coarsening chain down to the smallest grid
            PolarGrid cur = g;
            while ((cur.nr() - 1) % 2 == 0 && cur.ntheta() % 2 == 0 && cur.nr() >= 5 && cur.ntheta() >= 4 && cur.ntheta() % 4 == 0) {
                PolarGrid co = coarseningGrid(cur);
                std::printf("C => %d %d |", co.nr(), co.ntheta());
                for (double x : co.radii()) std::printf(" %s", hx(x).c_str());
                std::printf(" |");
                for (double x : co.angles()) std::printf(" %s", hx(x).c_str());
                std::printf("\n");
                // the coarse grid's automatic split and its own index functions
                std::printf("SA %d", co.nr());
                for (int i = 2; i < co.nr() - 2; i++) {
                    double uniform_theta_k = (2 * M_PI) / co.ntheta();
                    double q = uniform_theta_k / (co.radius(i) - co.radius(i - 1));
                    std::printf(" %d", q * co.radius(i) > 1.0 ? 1 : 0);
                }
                std::printf(" => %d\n", co.numberSmootherCircles());
                dump_grid(co, false);
                cur = co;
            }
        } catch (const std::exception& e) {
            std::string m = e.what();
            std::replace(m.begin(), m.end(), '\n', ' ');
            std::printf("# rejected: %s\n", m.c_str());
        }
    }
    return 0;
}
