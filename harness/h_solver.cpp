#include <cstring>
// K-trace for the multigrid control flow (C10, C09b, C01, C13, C20): every operator call of setup()/solve()
// is recorded through the guarded trace hook (H1) with the identity of its buffer arguments and compared,
// as an exact string, with the sequence the Coq model (CycleDefs.v) produces for the same configuration.
#include "hcommon.h"
#include "GMGPolar/gmgpolar.h"
#include "GMGPolar/test_cases.h"
#include "Residual/ResidualGive/residualGive.h"
#include <map>
#include <sstream>
using namespace vh;

namespace gmgpolar_verif {
struct Access {
    static std::vector<Level>& levels(GMGPolar& s) { return s.levels_; }
    static int nlevels(const GMGPolar& s) { return s.number_of_levels_; }
    static bool fgs(const GMGPolar& s) { return s.full_grid_smoothing_; }
    static const std::vector<double>& norms(const GMGPolar& s) { return s.residual_norms_; }
    static size_t nerrors(const GMGPolar& s) { return s.exact_errors_.size(); }
    static bool converged(GMGPolar& s, double rn, double reln) { return s.converged(rn, reln); }
};
} // namespace gmgpolar_verif
using gmgpolar_verif::Access;

struct Event { std::string op; int level; std::vector<const void*> bufs; std::vector<double> scal; };
static std::vector<Event> g_trace;
static void record(const char* op, int level, std::initializer_list<const void*> b, std::initializer_list<double> s) {
    g_trace.push_back(Event{op, level, std::vector<const void*>(b), std::vector<double>(s)});
}

#include "hsolver.h"

static std::string render(GMGPolar& s, size_t from) {
    std::map<const void*, std::string> name;
    auto& lv = Access::levels(s);
    for (size_t l = 0; l < lv.size(); l++) {
        std::string L = "L" + std::to_string(l);
        name[&lv[l].solution()] = L + ".sol"; name[&lv[l].rhs()] = L + ".rhs";
        name[&lv[l].residual()] = L + ".res"; name[&lv[l].error_correction()] = L + ".err";
    }
    static const std::map<std::string, std::string> opn = {
        {"smoothing", "smooth"}, {"extrapolatedSmoothing", "extsmooth"}, {"computeResidual", "resid"}, {"directSolveInPlace", "direct"},
        {"restriction", "restrict"}, {"prolongation", "prolong"}, {"extrapolatedRestriction", "exrestrict"},
        {"extrapolatedProlongation", "exprolong"}, {"injection", "inject"}, {"FMGInterpolation", "fmg"}, {"assign", "assign0"},
        {"add", "add"}, {"linear_combination", "lincomb"}, {"extrapolatedResidual", "extresid"}, {"copy", "copy"},
        {"exactError", "exacterr"}, {"residualNorm", "norm"}, {"converged", "converged"}};
    std::ostringstream o;
    bool first = true;
    for (size_t i = from; i < g_trace.size(); i++) {
        const Event& e = g_trace[i];
        auto it = opn.find(e.op);
        std::string op = it == opn.end() ? e.op : it->second;
        if (!first) o << ";";
        first = false;
        o << op;
        bool leveled = !(op == "assign0" || op == "add" || op == "lincomb" || op == "norm" || op == "converged" || op == "exacterr");
        if (leveled) o << "@" << e.level;
        o << ":";
        for (size_t b = 0; b < e.bufs.size(); b++) { auto n = name.find(e.bufs[b]); o << (b ? "," : "") << (n == name.end() ? std::string("?") : n->second); }
        if (op == "lincomb" && e.scal.size() == 2) o << (std::fabs(e.scal[0] - 4.0 / 3.0) < 1e-15 && std::fabs(e.scal[1] + 1.0 / 3.0) < 1e-15 ? "" : ",BADCOEFF");
        if (op == "assign0" && e.scal.size() == 1 && e.scal[0] != 0.0) o << ",NONZERO";
    }
    return o.str();
}

// oracle of the numeric decisions taken in this solve: "c,s" per executed stop test
static std::string oracle(size_t from) {
    std::ostringstream o; double prev = 0; int k = 0;
    for (size_t i = from; i < g_trace.size(); i++) {
        if (g_trace[i].op != "residualNorm") continue;
        double r = g_trace[i].scal[0];
        bool conv = false;
        for (size_t j = i + 1; j < g_trace.size() && g_trace[j].op != "residualNorm"; j++) if (g_trace[j].op == "converged") conv = true;
        bool slow = k > 0 && r / prev > 0.7;
        o << (k ? " " : "") << (conv ? 1 : 0) << "," << (slow ? 1 : 0);
        prev = r; k++;
    }
    return o.str();
}

static std::string cfg_string(const Config& c, int L) {
    std::ostringstream o;
    o << L << " " << c.cycle << " " << c.pre << " " << c.post << " " << c.extrap << " " << (c.exact ? 1 : 0) << " " << (c.tol ? 1 : 0) << " "
      << c.fmg << " " << c.fmg_cycle << " " << c.fmg_iters << " " << c.maxit;
    return o.str();
}

static double norm_of(const Vector<double>& r, int type, int n) {
    double s = 0, m = 0;
    for (int i = 0; i < r.size(); i++) { s += r[i] * r[i]; m = std::max(m, std::fabs(r[i])); }
    return type == 0 ? std::sqrt(s) : type == 1 ? std::sqrt(s) / std::sqrt((double)n) : m;
}

// independent recomputation of the tested residual from the returned solution and the problem data
static void stop_is_true(GMGPolar& s, const Config& c, size_t from, const char* tag) {
    std::vector<double> norms; bool conv = false;
    for (size_t i = from; i < g_trace.size(); i++) { if (g_trace[i].op == "residualNorm") norms.push_back(g_trace[i].scal[0]); if (g_trace[i].op == "converged") conv = true; }
    if (!conv || s.numberOfIterations() >= c.maxit) return;
    auto& lv = Access::levels(s);
    const PolarGrid& g0 = lv[0].grid();
    const double Rmax = 1.3;
    // fresh operators on fresh caches (the solver's own Residual objects are not used)
    auto mk = make_solver(c); (void)Rmax;
    Config cc = c; apply_options(*mk, cc); mk->maxIterations(0); mk->FMG(false); mk->setup();
    auto& lv2 = Access::levels(*mk);
    Vector<double> r0(g0.numberOfNodes());
    lv2[0].computeResidual(r0, lv[0].rhs(), s.solution());
    if (c.extrap != 0) {
        const PolarGrid& g1 = lv[1].grid();
        Vector<double> u1(g1.numberOfNodes()), r1(g1.numberOfNodes());
        for (int i = 0; i < g1.nr(); i++) for (int j = 0; j < g1.ntheta(); j++) u1[g1.index(i, j)] = s.solution()[g0.index(2 * i, 2 * j)];
        lv2[1].computeResidual(r1, lv[1].rhs(), u1);
        for (int i = 0; i < g0.nr(); i++) for (int j = 0; j < g0.ntheta(); j++) {
            int k = g0.index(i, j);
            if ((i & 1) || (j & 1)) r0[k] = 4.0 / 3.0 * r0[k];
            else r0[k] = (4.0 * r0[k] - r1[g1.index(i / 2, j / 2)]) / 3.0;
        }
    }
    double nrm = norm_of(r0, c.norm, g0.numberOfNodes());
    bool ok = (c.use_atol && nrm <= c.atol * (1 + 1e-6) + 1e-300) || (c.use_rtol && norms.size() && nrm / norms[0] <= c.rtol * (1 + 1e-6));
    std::printf("PROP stop-is-true %s independent_norm=%.6e reported=%.6e initial=%.6e => %s\n", tag, nrm, norms.back(), norms[0],
                ok ? "ok" : "FAIL solve() reported convergence but the independently recomputed residual does not meet the tolerance");
}

static void run_trace_case(const Config& c, const char* tag) {
    auto s = make_solver(c);
    apply_options(*s, c);
    try { s->setup(); } catch (const std::exception& e) { std::printf("# rejected by setup: %s\n", e.what()); return; }
    g_trace.clear();
    // the level-1 right-hand side f_2h is half of the implicitly extrapolated system (4/3 (f_h - A_h u) - 1/3 (f_2h - A_2h u)): solve() only reads it
    std::vector<double> f1_before;
    if (c.extrap != 0 && Access::nlevels(*s) >= 2) { auto& f1 = Access::levels(*s)[1].rhs(); for (int i = 0; i < f1.size(); i++) f1_before.push_back(f1[i]); }
    gmgpolar_verif::trace_callback() = record;
    s->solve();
    gmgpolar_verif::trace_callback() = nullptr;
    int L = Access::nlevels(*s);
    std::printf("TR %s | %s => %s\n", cfg_string(c, L).c_str(), oracle(0).c_str(), render(*s, 0).c_str());
    if (c.extrap != 0 && L >= 2) {
        auto& f1 = Access::levels(*s)[1].rhs();
        int bad = ((int)f1_before.size() == f1.size()) ? 0 : 1, where = -1;
        for (int i = 0; !bad && i < f1.size(); i++) if (std::memcmp(&f1_before[i], &f1[i], sizeof(double)) != 0) { bad = 1; where = i; }
        std::printf("PROP extrapolation-coarse-rhs-preserved %s levels=%d fmg=%d first_changed=%d => %s\n", tag, L, c.fmg ? 1 : 0, where,
                    bad ? "FAIL solve() changed the level-1 right-hand side the extrapolated system is built from" : "ok");
    }
    bool finite = true; for (int i = 0; i < s->solution().size(); i++) finite = finite && std::isfinite(s->solution()[i]);
    std::printf("PROP finite-solution %s => %s\n", tag, finite ? "ok" : "FAIL non-finite entries in the returned solution");
    stop_is_true(*s, c, 0, tag);
    if (c.fmg && c.fmg_iters == 0 && c.maxit == 0 && L == 2) {
        // two levels, no start-up cycles: the start must be the FMG-interpolated coarse-grid solution
        auto& lv = Access::levels(*s);
        std::vector<int> threads{1, 1};
        Interpolation I(threads, c.dirbc);
        Vector<double> expect(lv[0].grid().numberOfNodes());
        I.applyFMGInterpolation(lv[1], lv[0], expect, lv[1].solution());
        double d = 0, m = 0;
        for (int i = 0; i < expect.size(); i++) { d = std::max(d, std::fabs(expect[i] - s->solution()[i])); m = std::max(m, std::fabs(expect[i])); }
        std::printf("PROP fmg-two-level-start %s maxdiff=%.3e scale=%.3e => %s\n", tag, d, m,
                    d <= 1e-12 * std::max(m, 1e-300) ? "ok" : "FAIL with two levels and no start-up cycles the FMG start is not the interpolated coarse-grid solution");
    }
}

int main(int argc, char** argv) {
    std::string mode = argc > 1 ? argv[1] : "trace";
    Rng rng(seed_from_env() ^ std::hash<std::string>{}(mode));
    if (mode == "trace") {
        // corner cases first, then random configurations
        std::vector<Config> cases;
        for (int L = 2; L <= 4; L++) for (int cyc = 0; cyc < 3; cyc++) for (int ex = 0; ex < 4; ex++) {
            Config c; c.nr_exp = L + 1; c.ntheta_exp = L + 1; c.cycle = cyc; c.extrap = ex; c.maxit = 2; c.tol = (cyc + ex) % 2 == 0;
            c.pre = (cyc + L) % 3; c.post = (ex + L) % 3; c.fmg = (L + cyc + ex) % 2; c.fmg_cycle = (cyc + 1) % 3; c.fmg_iters = (L + ex) % 3;
            c.exact = (L + cyc) % 2 == 0; c.problem = ex; c.take = (cyc + ex) % 3 == 0; c.dirbc = (L + ex) % 2 == 0;
            cases.push_back(c);
        }
        // process-wide state (function-local statics, globals): a solve on a large grid with each norm type comes first, solves on small
        // grids that stop on the ABSOLUTE tolerance follow later in the same process (see the tail of this list)
        for (int nt = 0; nt < 3; nt++) { Config c; c.nr_exp = 6; c.ntheta_exp = 6; c.maxit = 150; c.norm = nt; c.use_rtol = false; c.atol = 1e-5; c.extrap = nt % 2; cases.push_back(c); }
        { Config c; c.nr_exp = 4; c.ntheta_exp = 4; c.maxit = 0; c.fmg = 1; c.fmg_iters = 0; cases.push_back(c); }          // FMG only
        { Config c; c.nr_exp = 3; c.ntheta_exp = 3; c.maxit = 0; c.fmg = 1; c.fmg_iters = 0; cases.push_back(c); }          // two levels, no cycles
        { Config c; c.nr_exp = 5; c.ntheta_exp = 5; c.maxit = 150; c.extrap = 3; c.cycle = 2; c.fmg = 1; c.fmg_cycle = 2; c.fmg_iters = 3; cases.push_back(c); } // convergence_order pattern
        { Config c; c.nr_exp = 4; c.ntheta_exp = 5; c.maxit = 150; c.extrap = 1; c.norm = 2; cases.push_back(c); }
        { Config c; c.nr_exp = 5; c.ntheta_exp = 4; c.maxit = 150; c.extrap = 0; c.norm = 1; c.cycle = 1; cases.push_back(c); }
        // convergence search inside C01's configuration set (17x32 finest grid or larger, >= 1 pre/post step, modes 0/1/3)
        {
            int nconv = thorough() ? 72 : 12;
            for (int i = 0; i < nconv; i++) {
                Config c; c.nr_exp = 4 + (i % 2); c.ntheta_exp = 5; c.maxit = 150; c.tol = true;
                const int modes[3] = {0, 1, 3};
                c.extrap = modes[i % 3]; c.cycle = (i / 3) % 3; c.pre = 1 + (i % 2); c.post = 1 + ((i / 2) % 2);
                c.problem = i % 3; c.dirbc = (i / 2) % 2; c.take = (i / 4) % 2; c.fmg = (i / 3) % 2; c.fmg_cycle = i % 3; c.fmg_iters = 1 + (i % 3);
                c.norm = i % 3; c.exact = true; c.threads = 1 + (i % 4);
                // tolerance set-ups: both (defaults of this harness), absolute only, relative only, absolute with a relative one that cannot
                // fire first -- problems 0 and 2 have an initial residual norm well above 1, problem 1 below 1
                switch ((i / 2) % 4) {
                case 1: c.use_rtol = false; c.atol = 1e-6; break;
                case 2: c.use_atol = false; c.rtol = 1e-7; break;
                case 3: c.atol = 1e-7; c.rtol = 1e-15; break;
                default: break;
                }
                cases.push_back(c);
            }
        }
        int extra = thorough() ? 150 : 20;
        for (int i = 0; i < extra; i++) {
            Config c; int L = rng.range(2, thorough() ? 5 : 4);
            c.nr_exp = L + 1 + rng.range(0, 1); c.ntheta_exp = L + 1 + rng.range(0, 1);
            c.maxLevels = rng.range(0, 3) == 0 ? rng.range(2, L) : -1;
            c.cycle = rng.range(0, 2); c.extrap = rng.range(0, 3); c.pre = rng.range(0, 2); c.post = rng.range(0, 2);
            c.fmg = rng.range(0, 1); c.fmg_cycle = rng.range(0, 2); c.fmg_iters = rng.range(0, 2);
            c.maxit = rng.range(0, 3) == 0 ? 150 : rng.range(0, 4); c.tol = rng.range(0, 3) != 0; c.norm = rng.range(0, 2);
            c.exact = rng.coin(); c.dirbc = rng.coin(); c.take = rng.coin(); c.problem = rng.range(0, 2); c.threads = rng.range(1, 4);
            if (c.maxit == 150 && !c.tol) c.maxit = 4;
            cases.push_back(c);
        }
        for (int nt = 0; nt < 3; nt++) for (int sz = 3; sz <= 4; sz++) {
            Config c; c.nr_exp = sz; c.ntheta_exp = sz + 1; c.maxit = 150; c.norm = nt; c.use_rtol = false; c.atol = 1e-6; c.extrap = (nt + sz) % 2; c.cycle = nt;
            cases.push_back(c);
        }
        int k = 0;
        for (auto& c : cases) {
            std::printf("# tolerances use_atol=%d atol=%g use_rtol=%d rtol=%g\n", c.use_atol, c.atol, c.use_rtol, c.rtol);
            std::printf("# case %d nr_exp=%d ntheta_exp=%d maxLevels=%d cycle=%d extrap=%d pre=%d post=%d fmg=%d/%d/%d maxit=%d tol=%d norm=%d exact=%d dirbc=%d take=%d problem=%d\n",
                        k, c.nr_exp, c.ntheta_exp, c.maxLevels, c.cycle, c.extrap, c.pre, c.post, c.fmg, c.fmg_cycle, c.fmg_iters, c.maxit, c.tol, c.norm, c.exact, c.dirbc, c.take, c.problem);
            std::string tag = "case" + std::to_string(k++);
            run_trace_case(c, tag.c_str());
        }
        return 0;
    }
    if (mode == "converged") {
        // K-converged: the private decision function itself, on a grid of (||r||, ||r||/||r_0||) values around the tolerances,
        // for every combination of enabled / disabled tolerances
        Config c; auto s = make_solver(c); apply_options(*s, c);
        const double vals[] = {0.0, 1e-12, 9.9e-9, 1e-8, 1.1e-8, 1e-6, 0.5e-3, 1e-3, 2e-3, 0.9, 1.0, 37.0, 1e5};
        const double tols[] = {-1.0, 1e-8, 1e-3};
        for (double at : tols) for (double rt : tols) {
            s->absoluteTolerance(at); s->relativeTolerance(rt);
            for (double rn : vals) for (double reln : vals)
                std::printf("CONV %s %s %s %s => %d\n", at < 0 ? "-" : hx(at).c_str(), rt < 0 ? "-" : hx(rt).c_str(), hx(rn).c_str(), hx(reln).c_str(),
                            Access::converged(*s, rn, reln) ? 1 : 0);
        }
        return 0;
    }
    if (mode == "reuse") {
        // histories of (set options, setup, solve, solve-without-setup) on ONE object; the last solve is compared with a
        // fresh object given the same options: op-trace (against the model started from the fresh state) and observations
        struct Step { int kind; Config cfg; };   // 0 = set options + setup, 1 = solve
        auto observe = [](GMGPolar& s, const Config& c) {
            std::ostringstream o;
            o << s.numberOfIterations() << " " << hx(s.numberOfIterations() > 0 ? s.meanResidualReductionFactor() : 0.0);
            if (c.exact && c.maxit > 0) o << " " << hx(*s.exactErrorWeightedEuclidean()) << " " << hx(*s.exactErrorInfinity());
            double h = 0; for (int i = 0; i < s.solution().size(); i++) h = h * 1.0000001 + s.solution()[i];
            o << " " << hx(h);
            return o.str();
        };
        int nh = thorough() ? 60 : 14;
        for (int hno = 0; hno < nh; hno++) {
            std::vector<Config> cfgs;
            int nseg = rng.range(1, 3);
            for (int k = 0; k < nseg; k++) {
                Config c; c.threads = 1; c.nr_exp = rng.range(3, 4); c.ntheta_exp = rng.range(3, 5);
                c.extrap = (hno % 4 == 0) ? 3 : rng.range(0, 3); c.cycle = rng.range(0, 2); c.pre = 1; c.post = 1;
                c.fmg = rng.range(0, 1); c.fmg_cycle = rng.range(0, 2); c.fmg_iters = rng.range(0, 2);
                c.maxit = rng.range(0, 2) == 0 ? 150 : rng.range(1, 6); c.tol = true; c.rtol = 1e-8; c.atol = 1e-12;
                c.exact = rng.coin(); c.problem = 0; c.take = rng.coin(); c.dirbc = rng.coin(); c.divide = (hno % 5 == 1) ? k : 0;
                cfgs.push_back(c);
            }
            if (hno % 4 == 0) { cfgs.back().extrap = 3; cfgs.back().maxit = 150; cfgs.back().nr_exp = 4; cfgs.back().ntheta_exp = 5; }
            if (hno % 8 == 0) { cfgs.back().fmg = 1; cfgs.back().fmg_iters = 1 + (hno / 8) % 2; }   // COMBINED + FMG start-up cycles after a solve that switched the smoother
            const Config& last = cfgs.back();
            auto s = make_solver(last);         // problem 0 for every segment: one object reused
            std::ostringstream hist;
            size_t from = 0;
            bool rejected = false;
            gmgpolar_verif::trace_callback() = record;
            for (size_t k = 0; k < cfgs.size() && !rejected; k++) {
                apply_options(*s, cfgs[k]);
                try { s->setup(); } catch (const std::exception& e) { rejected = true; break; }
                int nsolve = rng.range(1, 2) + (k + 1 == cfgs.size() && hno % 2 == 0 ? 1 : 0);
                hist << "set(ex" << cfgs[k].extrap << ",nr" << cfgs[k].nr_exp << ",fmg" << cfgs[k].fmg << ",it" << cfgs[k].maxit << ",div" << cfgs[k].divide << ");setup;";
                for (int q = 0; q < nsolve; q++) { from = g_trace.size(); s->solve(); hist << "solve;"; }
            }
            gmgpolar_verif::trace_callback() = nullptr;
            if (rejected) { g_trace.clear(); continue; }
            std::string obs_reused = observe(*s, last);
            int L = Access::nlevels(*s);
            std::string tr = render(*s, from), orc = oracle(from);
            g_trace.clear();
            // fresh object
            auto f = make_solver(last); apply_options(*f, last); f->setup();
            gmgpolar_verif::trace_callback() = record; f->solve(); gmgpolar_verif::trace_callback() = nullptr;
            std::string obs_fresh = observe(*f, last);
            std::string tr_fresh = render(*f, 0), orc_fresh = oracle(0);
            g_trace.clear();
            std::printf("# history %d: %s\n", hno, hist.str().c_str());
            std::printf("HIST %s | %s => %s\n", cfg_string(last, L).c_str(), orc.c_str(), tr.c_str());
            std::printf("PROP reuse-observation history=%s reused=[%s] fresh=[%s] => %s\n", hist.str().c_str(), obs_reused.c_str(), obs_fresh.c_str(),
                        obs_reused == obs_fresh ? "ok" : "FAIL a reused solver object reports different results than a freshly constructed one");
            std::printf("PROP reuse-trace history=%s => %s\n", hist.str().c_str(),
                        tr == tr_fresh ? "ok" : "FAIL the last solve of a reused object executes a different operator sequence than a fresh object");
            if (last.fmg) {
                // C09: the FMG starting approximation (solve() with maxIterations = 0) is a function of the problem data only:
                // re-requested on the object with this history it must equal, bit for bit, the start-up of a fresh object
                s->maxIterations(0); s->solve();
                Config c0 = last; c0.maxit = 0;
                auto f0 = make_solver(c0); apply_options(*f0, c0); f0->setup(); f0->solve();
                bool same = s->solution().size() == f0->solution().size();
                double worst = 0;
                for (int i = 0; same && i < s->solution().size(); i++) worst = std::max(worst, std::fabs(s->solution()[i] - f0->solution()[i]));
                same = same && worst == 0.0;
                std::printf("PROP fmg-start-after-history history=%s maxdiff=%.3e => %s\n", hist.str().c_str(), worst,
                            same ? "ok" : "FAIL the FMG starting approximation depends on the earlier solves of the object");
            }
        }
        return 0;
    }
    if (mode == "options") {
        // rejected combinations must raise an exception (programming interface) -- each probe states what it expects
        auto expect_throw = [](const char* name, Config c, bool should_throw, bool clear_caches) {
            bool thrown = false; std::string what;
            try {
                auto s = make_solver(c); apply_options(*s, c);
                if (clear_caches) { s->cacheDomainGeometry(false); }
                s->setup(); s->solve();
            } catch (const std::exception& e) { thrown = true; what = e.what(); std::replace(what.begin(), what.end(), '\n', ' '); }
            std::printf("PROP option-%s thrown=%d (%s) => %s\n", name, thrown ? 1 : 0, what.substr(0, 60).c_str(),
                        thrown == should_throw ? "ok" : (should_throw ? "FAIL an invalid combination was not rejected" : "FAIL a valid combination was rejected"));
        };
        { Config c; c.take = true; expect_throw("take-without-geometry-cache", c, true, true); }
        { Config c; c.take = true; expect_throw("take-with-caches", c, false, false); }
        { Config c; c.nr_exp = 2; c.ntheta_exp = 3; expect_throw("too-few-levels-radial", c, true, false); }
        { Config c; c.nr_exp = 3; c.ntheta_exp = 2; expect_throw("too-few-levels-angular", c, true, false); }
        { Config c; c.nr_exp = 5; c.ntheta_exp = 5; c.maxLevels = 2; expect_throw("level-cap-2", c, false, false); }
        for (int take = 0; take < 2; take++) {   // a cap below the multigrid minimum must be rejected by setup() (solve() is not attempted)
            Config c; c.nr_exp = 5; c.ntheta_exp = 5; c.maxLevels = 1; c.take = take; c.extrap = 0;
            bool thrown = false;
            try { auto s = make_solver(c); apply_options(*s, c); s->setup(); } catch (const std::exception&) { thrown = true; }
            std::printf("PROP option-level-cap-1 take=%d thrown=%d => %s\n", take, thrown ? 1 : 0, thrown ? "ok" : "FAIL maxLevels = 1 was not rejected by setup()");
        }
        { Config c; c.nr_exp = 3; c.ntheta_exp = 3; c.pre = 0; c.post = 0; c.maxit = 2; expect_throw("zero-smoothing-steps", c, false, false); }
        { Config c; c.nr_exp = 3; c.ntheta_exp = 3; c.tol = false; c.maxit = 3; expect_throw("disabled-tolerances", c, false, false); }
        { Config c; c.nr_exp = 3; c.ntheta_exp = 3; c.threads = 32; expect_throw("more-threads-than-lines", c, false, false); }
        { Config c; c.nr_exp = 3; c.ntheta_exp = 3; c.maxit = 0; c.exact = true;
          auto s = make_solver(c); apply_options(*s, c); s->setup(); s->solve();
          auto e = s->exactErrorInfinity();
          std::printf("PROP stat-exact-error-zero-iterations present=%d => ok\n", e.has_value() ? 1 : 0); }
        return 0;
    }
    if (mode == "statone") {
        // single statistics probes, meant to be run under valgrind / sanitizers
        int kind = argc > 2 ? std::atoi(argv[2]) : 0;
        Config c; c.nr_exp = 3; c.ntheta_exp = 3; c.threads = 1;
        if (kind == 0) { c.tol = false; c.maxit = 2; c.exact = false; }      // both tolerances disabled
        if (kind == 1) { c.tol = true; c.maxit = 0; c.exact = true; }        // zero iteration budget, exact solution given
        auto s = make_solver(c); apply_options(*s, c); s->setup(); s->solve();
        if (kind == 0) { double f = s->meanResidualReductionFactor(); std::printf("iterations=%d mean factor=%s finite-or-nan=%d\n", s->numberOfIterations(), hx(f).c_str(), (f == f) ? 1 : 0); }
        if (kind == 1) { auto e = s->exactErrorInfinity(); std::printf("exact error present=%d\n", e.has_value() ? 1 : 0); if (e) std::printf("value=%s\n", hx(*e).c_str()); }
        return 0;
    }
    std::fprintf(stderr, "usage: h_solver trace|reuse|statone\n");
    return 2;
}
