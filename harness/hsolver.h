// Solver construction shared by h_solver.cpp and h_repro.cpp: option record, the three shipped test problems, option application.
#pragma once
#include "hcommon.h"
#include "GMGPolar/gmgpolar.h"
#include "GMGPolar/test_cases.h"
#include <memory>

struct Config {
    int nr_exp = 3, ntheta_exp = 3, maxLevels = -1;
    int cycle = 0, extrap = 0, pre = 1, post = 1, fmg = 0, fmg_cycle = 0, fmg_iters = 1;
    int maxit = 3; bool tol = true; double atol = 1e-10, rtol = 1e-8; bool use_atol = true, use_rtol = true; int norm = 0;
    bool exact = true, dirbc = false, take = false; int problem = 0; int threads = 2; int divide = 0;
};

static std::unique_ptr<GMGPolar> make_solver(const Config& c) {
    const double Rmax = 1.3, kap = 0.3, del = 0.2, eps = 0.3, e = 1.4, aj = 0.66 * Rmax;
    std::unique_ptr<DomainGeometry> g; std::unique_ptr<DensityProfileCoefficients> p;
    std::unique_ptr<BoundaryConditions> b; std::unique_ptr<SourceTerm> s; std::unique_ptr<ExactSolution> x;
    switch (c.problem % 3) {
    case 0:
        g = std::make_unique<CircularGeometry>(Rmax); p = std::make_unique<PoissonCoefficients>(Rmax, aj);
        b = std::make_unique<CartesianR2_Boundary_CircularGeometry>(Rmax); s = std::make_unique<CartesianR2_Poisson_CircularGeometry>(Rmax);
        x = std::make_unique<CartesianR2_CircularGeometry>(Rmax); break;
    case 1:
        g = std::make_unique<ShafranovGeometry>(Rmax, kap, del); p = std::make_unique<ZoniGyroCoefficients>(Rmax, aj);
        b = std::make_unique<PolarR6_Boundary_ShafranovGeometry>(Rmax, kap, del); s = std::make_unique<PolarR6_ZoniGyro_ShafranovGeometry>(Rmax, kap, del);
        x = std::make_unique<PolarR6_ShafranovGeometry>(Rmax, kap, del); break;
    default:
        g = std::make_unique<CzarnyGeometry>(Rmax, eps, e); p = std::make_unique<SonnendruckerGyroCoefficients>(Rmax, aj);
        b = std::make_unique<CartesianR2_Boundary_CzarnyGeometry>(Rmax, eps, e); s = std::make_unique<CartesianR2_SonnendruckerGyro_CzarnyGeometry>(Rmax, eps, e);
        x = std::make_unique<CartesianR2_CzarnyGeometry>(Rmax, eps, e); break;
    }
    auto solver = std::make_unique<GMGPolar>(std::move(g), std::move(p), std::move(b), std::move(s));
    if (c.exact) solver->setSolution(std::move(x));
    return solver;
}

static void apply_options(GMGPolar& s, const Config& c) {
    s.verbose(0); s.paraview(false);
    s.maxOpenMPThreads(c.threads); s.threadReductionFactor(1.0);
    s.stencilDistributionMethod(c.take ? StencilDistributionMethod::CPU_TAKE : StencilDistributionMethod::CPU_GIVE);
    s.cacheDensityProfileCoefficients(true); s.cacheDomainGeometry(true);
    s.R0(c.dirbc ? 0.1 : 1e-5); s.Rmax(1.3); s.nr_exp(c.nr_exp); s.ntheta_exp(c.ntheta_exp); s.anisotropic_factor(0); s.divideBy2(c.divide);
    s.DirBC_Interior(c.dirbc);
    s.FMG(c.fmg != 0); s.FMG_iterations(c.fmg_iters); s.FMG_cycle(static_cast<MultigridCycleType>(c.fmg_cycle));
    s.extrapolation(static_cast<ExtrapolationType>(c.extrap)); s.maxLevels(c.maxLevels);
    s.preSmoothingSteps(c.pre); s.postSmoothingSteps(c.post); s.multigridCycle(static_cast<MultigridCycleType>(c.cycle));
    s.maxIterations(c.maxit); s.residualNormType(static_cast<ResidualNormType>(c.norm));
    s.absoluteTolerance(c.tol && c.use_atol ? c.atol : -1.0); s.relativeTolerance(c.tol && c.use_rtol ? c.rtol : -1.0);
}

