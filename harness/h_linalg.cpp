// K-solve / K-history for the linear-algebra classes (C14, C15, C16).
//   h_linalg tri      : tridiagonal / cyclic / diagonal solves on random SPD systems     (C14)
//   h_linalg lu       : sparse LU solves, both CSR constructors, unsorted rows, zeros     (C16)
//   h_linalg objects  : random construct/solve/copy/move histories                        (C15)
//   h_linalg probe_*  : single findings replayed in isolation
#include "hcommon.h"
#include "LinearAlgebra/vector.h"
#include "LinearAlgebra/coo_matrix.h"
#include "LinearAlgebra/csr_matrix.h"
#include "LinearAlgebra/sparseLUSolver.h"
#include "LinearAlgebra/symmetricTridiagonalSolver.h"
#include "LinearAlgebra/diagonalSolver.h"
#include <cstring>
#include <omp.h>
#include <new>
#include <sys/wait.h>
#include <unistd.h>
using namespace vh;
using Tri = SymmetricTridiagonalSolver<double>;

static void pv(const std::vector<double>& v) { for (double x : v) std::printf(" %s", hx(x).c_str()); }

// ---------------------------------------------------------------------------------------
// C14
// ---------------------------------------------------------------------------------------
struct TriSys { int n; bool cyc; std::vector<double> main, sub; double corner; std::vector<double> b; bool wellcond; };

static TriSys random_tri(Rng& g, int n, bool cyc, int flavour) {
    TriSys s; s.n = n; s.cyc = cyc; s.main.resize(n); s.sub.resize(n - 1); s.b.resize(n); s.wellcond = true;
    for (auto& x : s.sub) x = (g.range(0, 9) == 0) ? 0.0 : g.nice(-2.0, 2.0);           // zero sub-diagonals too
    s.corner = cyc ? ((g.range(0, 5) == 0) ? 0.0 : g.nice(-2.0, 2.0)) : 0.0;           // corner of either sign
    for (int i = 0; i < n; i++) {
        double off = (i > 0 ? std::fabs(s.sub[i - 1]) : 0) + (i < n - 1 ? std::fabs(s.sub[i]) : 0);
        if (cyc && (i == 0 || i == n - 1)) off += std::fabs(s.corner);
        s.main[i] = off + g.nice(0.25, 3.0);                                             // strictly dominant, positive
    }
    if (flavour == 1) { // symmetric scaling D A D with 1e-5..1e5 (as produced by r -> R0): still SPD
        std::vector<double> d(n);
        for (auto& x : d) x = std::ldexp(1.0, g.range(-17, 17));
        for (int i = 0; i < n; i++) s.main[i] *= d[i] * d[i];
        for (int i = 0; i < n - 1; i++) s.sub[i] *= d[i] * d[i + 1];
        if (cyc) s.corner *= d[0] * d[n - 1];
        s.wellcond = false;
    }
    if (flavour == 2 && cyc && n >= 3) {
        // cyclic, SPD but not dominant: A = M M^T with M lower bidiagonal plus the corner entry M(0, n-1) (nonsingular M => A SPD and
        // cyclic tridiagonal).  Half of the cases make row 0 nearly cancel against a NEGATIVE corner: a_00 + corner = m_00^2 tiny.
        std::vector<double> dgm(n), sbm(n - 1);
        for (auto& x : dgm) x = g.nice(0.5, 2.0) * (g.coin() ? 1 : -1);
        for (auto& x : sbm) x = g.nice(-1.5, 1.5);
        double c0 = g.nice(-1.5, 1.5); if (c0 == 0.0) c0 = 1.0;
        if (g.coin()) { dgm[0] = std::ldexp(1.0, -g.range(8, 26)); c0 = -1.0; dgm[n - 1] = 1.0; }
        for (int i = 0; i < n; i++) s.main[i] = dgm[i] * dgm[i] + (i > 0 ? sbm[i - 1] * sbm[i - 1] : c0 * c0);
        for (int i = 0; i < n - 1; i++) s.sub[i] = sbm[i] * dgm[i];          // A(i+1, i) = M(i+1, i) * M(i, i)
        s.corner = c0 * dgm[n - 1];                                         // A(0, n-1) = M(0, n-1) * M(n-1, n-1)
        s.wellcond = false;
    }
    if (flavour == 2) { // SPD but not dominant: A = L D L^T with unit bidiagonal L (non-cyclic only)
        if (!cyc) {
            std::vector<double> D(n), L(n - 1);
            for (auto& x : D) x = g.nice(0.5, 2.0);
            for (auto& x : L) x = g.nice(-1.5, 1.5);
            for (int i = 0; i < n; i++) s.main[i] = D[i] + (i > 0 ? L[i - 1] * L[i - 1] * D[i - 1] : 0.0);
            for (int i = 0; i < n - 1; i++) s.sub[i] = L[i] * D[i];
            s.wellcond = false;
        }
    }
    for (auto& x : s.b) x = g.nice(-4.0, 4.0);
    return s;
}

static void fill(Tri& t, const TriSys& s) {
    t.is_cyclic(s.cyc);
    for (int i = 0; i < s.n; i++) t.main_diagonal(i) = s.main[i];
    for (int i = 0; i < s.n - 1; i++) t.sub_diagonal(i) = s.sub[i];
    if (s.cyc) t.cyclic_corner_element() = s.corner;
}

static int run_tri(Rng& rng) {
    const int ns[] = {2, 3, 4, 5, 8, 17, 33, 64};
    const int reps = thorough() ? 60 : 8;
    for (int rep = 0; rep < reps; rep++)
        for (int n : ns)
            for (int cyc = 0; cyc < 2; cyc++)
                for (int flavour = 0; flavour < 3; flavour++) {
                    if (n == 64 && flavour != 0 && !thorough()) continue;
                    TriSys s = random_tri(rng, n, cyc, flavour);
                    std::vector<double> x = s.b, t1(n), t2(n);
                    // provenance of the object that holds the system: filled directly, or received through a special member
                    // function from an object that has (or has not) already solved; the receiving object may itself hold
                    // the factorisation of ANOTHER system (the property speaks about the system the object holds)
                    int prov = rng.range(0, 7);
                    Tri t(n);
                    if (prov <= 1) fill(t, s);
                    else {
                        Tri src(n); fill(src, s);
                        bool solved_before = prov % 2 == 0;
                        if (solved_before) { std::vector<double> y = s.b; src.solveInPlace(y.data(), t1.data(), t2.data()); }
                        int m = rng.coin() ? n : rng.range(2, 9);
                        TriSys o = random_tri(rng, m, cyc, 0);
                        Tri other(m); fill(other, o);
                        if (rng.coin()) { std::vector<double> y = o.b, u1(m), u2(m); other.solveInPlace(y.data(), u1.data(), u2.data()); }
                        if (prov == 2 || prov == 3) { other = src; t = other; }
                        else if (prov == 4 || prov == 5) { other = std::move(src); t = std::move(other); }
                        else { std::vector<Tri> v; v.push_back(other); v.push_back(src); v.erase(v.begin()); Tri c(v[0]); t = std::move(c); }
                    }
                    std::printf("# prov=%d\n", prov);
                    t.solveInPlace(x.data(), t1.data(), t2.data());
                    std::printf("TS %d %d %d |", cyc, n, s.wellcond ? 1 : 0); pv(s.main);
                    std::printf(" |"); pv(s.sub);
                    std::printf(" | %s |", hx(s.corner).c_str()); pv(s.b);
                    std::printf(" |"); pv(x); std::printf(" => CHECK ok\n");
                    // repeated solves with the same object and right-hand side: identical bits
                    int k = rng.range(1, 3);
                    bool same = true;
                    for (int r = 0; r < k; r++) {
                        std::vector<double> y = s.b;
                        t.solveInPlace(y.data(), t1.data(), t2.data());
                        same = same && std::memcmp(y.data(), x.data(), sizeof(double) * n) == 0;
                    }
                    std::printf("PROP tri-repeated-solve n=%d cyc=%d k=%d => %s\n", n, cyc, k, same ? "ok" : "FAIL results differ between successive solves");
                    // extreme but legal scalings: A and b multiplied by the same power of two give the same x bit for bit (every operation of the
                    // factorisation and the sweeps scales exactly) as long as nothing over- or underflows; the entries, right-hand sides and solutions
                    // stay normal doubles (huge scalings only: the solver's own debug assertion !equals(d, 0.0) is absolute and rejects tiny matrices)
                    if (flavour == 0 && rep < 3) {
                        for (int e : {300, 520, 600}) {
                            TriSys q = s;
                            for (auto& v : q.main) v = std::ldexp(v, e);
                            for (auto& v : q.sub) v = std::ldexp(v, e);
                            q.corner = std::ldexp(q.corner, e);
                            Tri tq(n); fill(tq, q);
                            std::vector<double> y(n);
                            for (int i = 0; i < n; i++) y[i] = std::ldexp(s.b[i], e);
                            tq.solveInPlace(y.data(), t1.data(), t2.data());
                            bool same_x = std::memcmp(y.data(), x.data(), sizeof(double) * n) == 0;
                            std::printf("PROP tri-scaling-invariance n=%d cyc=%d exponent=%d => %s\n", n, cyc, e,
                                        same_x ? "ok" : "FAIL the solution of (2^e A) x = 2^e b differs from the solution of A x = b (overflow / scale dependence)");
                        }
                    }
                }
    // diagonal solver
    for (int rep = 0; rep < 20; rep++) {
        int n = rng.range(1, 12);
        DiagonalSolver<double> d(n);
        std::vector<double> dg(n), b(n);
        for (int i = 0; i < n; i++) { dg[i] = rng.nice(0.25, 8.0) * (rng.coin() ? 1 : -1); d.diagonal(i) = dg[i]; b[i] = rng.nice(-4, 4); }
        std::vector<double> x = b;
        d.solveInPlace(x.data());
        std::printf("DS |"); pv(dg); std::printf(" |"); pv(b); std::printf(" =>"); pv(x); std::printf("\n");
    }
    return 0;
}

// ---------------------------------------------------------------------------------------
// C16
// ---------------------------------------------------------------------------------------
static int run_lu(Rng& rng) {
    const int cases = thorough() ? 400 : 60;
    {   // a strictly dominant integer matrix whose elimination cancels a scheduled entry exactly before it is used
        std::vector<std::tuple<int, int, double>> t{{0,0,2},{0,2,1},{1,1,2},{1,2,1},{2,2,3},{2,3,1},{3,0,2},{3,1,2},{3,2,1},{3,3,6}};
        SparseMatrixCSR<double> M(4, 4, t); SparseLUSolver<double> lu(M);
        std::vector<double> b{1, -2, 3, 5}, x = b; lu.solveInPlace(x.data());
        std::printf("LUT 4 1 |"); for (auto& e : t) std::printf(" %d:%d:%s", std::get<0>(e), std::get<1>(e), hx(std::get<2>(e)).c_str());
        std::printf(" |"); pv(b); std::printf(" |"); pv(x); std::printf(" => CHECK ok\n");
    }
    for (int c = 0; c < cases; c++) {
        int n = (c < 6) ? c + 1 : rng.range(1, thorough() ? 40 : 24);
        double density = rng.real(0.05, 0.6);
        bool scaled = rng.range(0, 3) == 0;
        // every 5th case: rows scaled over ~20 orders of magnitude (down to ~1e-11, pivots stay above the solver's absolute
        // 1e-12 threshold of finding F4) with weak couplings (1e-1 .. 1e-4 of the diagonal)
        bool wide = (c % 5 == 4);
        if (wide) scaled = true;
        // dense pattern first, then strictly row-dominant diagonal
        std::vector<std::vector<double>> A(n, std::vector<double>(n, 0.0));
        std::vector<std::vector<char>> stored(n, std::vector<char>(n, 0));
        for (int i = 0; i < n; i++)
            for (int j = 0; j < n; j++)
                if (i != j && rng.unit() < density) {
                    stored[i][j] = 1; A[i][j] = (rng.range(0, 7) == 0) ? 0.0 : rng.nice(-2.0, 2.0); // explicit zeros
                    if (wide) A[i][j] *= std::pow(10.0, -rng.range(1, 4));
                }
        // every 4th case: small-integer entries with power-of-two pivot candidates, so that fill-in and stored entries cancel EXACTLY during
        // the elimination (the discretisation matrices and the random "nice" values never do)
        const bool integer = (c % 4 == 2) && !wide;
        if (integer) {
            scaled = false;
            for (int i = 0; i < n; i++) for (int j = 0; j < n; j++) if (i != j && stored[i][j]) A[i][j] = (double)rng.range(-2, 2);
        }
        for (int i = 0; i < n; i++) {
            double off = 0; for (int j = 0; j < n; j++) off += std::fabs(A[i][j]);
            A[i][i] = (off + rng.nice(0.25, 2.0)) * (rng.coin() ? 1.0 : -1.0); stored[i][i] = 1;
            if (integer) { double p2 = 1.0; while (p2 <= off) p2 *= 2.0; A[i][i] = p2 * (rng.coin() ? 1.0 : -1.0); }
        }
        if (scaled) for (int i = 0; i < n; i++) { double sc = std::ldexp(1.0, wide ? rng.range(-36, 30) : rng.range(-26, 26)); for (int j = 0; j < n; j++) A[i][j] *= sc; }
        // storage order: shuffled within each row (unsorted column indices)
        std::vector<std::tuple<int, int, double>> trip;
        std::vector<double> vals; std::vector<int> cols, starts{0};
        for (int i = 0; i < n; i++) {
            std::vector<int> cs; for (int j = 0; j < n; j++) if (stored[i][j]) cs.push_back(j);
            for (size_t k = cs.size(); k > 1; k--) std::swap(cs[k - 1], cs[rng.range(0, (int)k - 1)]);
            for (int j : cs) { trip.emplace_back(i, j, A[i][j]); vals.push_back(A[i][j]); cols.push_back(j); }
            starts.push_back((int)vals.size());
        }
        bool arrays = rng.coin();
        SparseMatrixCSR<double> M = arrays ? SparseMatrixCSR<double>(n, n, vals, cols, starts) : SparseMatrixCSR<double>(n, n, trip);
        SparseLUSolver<double> lu(M);
        int nrhs = rng.range(1, 3);
        for (int r = 0; r < nrhs; r++) {
            std::vector<double> b(n);
            for (auto& x : b) x = rng.nice(-4, 4) * (scaled ? std::ldexp(1.0, rng.range(-20, 20)) : 1.0);
            // sparse right-hand sides: unit vectors, leading / trailing exact zeros, a single interior block
            switch ((c + r) % 5) {
            case 1: { int kk = rng.range(0, n - 1); for (int i = 0; i < n; i++) if (i != kk) b[i] = 0.0; break; }
            case 2: { int kk = rng.range(0, n - 1); for (int i = kk + 1; i < n; i++) b[i] = 0.0; break; }
            case 3: { int kk = rng.range(0, n - 1); for (int i = 0; i < kk; i++) b[i] = 0.0; break; }
            case 4: { int k1 = rng.range(0, n - 1), k2 = rng.range(k1, n - 1); for (int i = 0; i < n; i++) if (i < k1 || i > k2) b[i] = 0.0; break; }
            default: break;
            }
            std::vector<double> x = b;
            lu.solveInPlace(x.data());
            if (arrays) {
                std::printf("LUA %d %d |", n, scaled ? 0 : 1); pv(vals);
                std::printf(" |"); for (int cidx : cols) std::printf(" %d", cidx);
                std::printf(" |"); for (int st : starts) std::printf(" %d", st);
            } else {
                std::printf("LUT %d %d |", n, scaled ? 0 : 1);
                for (auto& t : trip) std::printf(" %d:%d:%s", std::get<0>(t), std::get<1>(t), hx(std::get<2>(t)).c_str());
            }
            std::printf(" |"); pv(b); std::printf(" |"); pv(x); std::printf(" => CHECK ok\n");
            if (r == 0) {
                // any right-hand side: solve(2^e b) = 2^e solve(b) bit for bit (power-of-two scaling commutes with rounding)
                for (int e : {-70, -45, 70}) {
                    std::vector<double> bs(n), xs;
                    for (int i = 0; i < n; i++) bs[i] = std::ldexp(b[i], e);
                    xs = bs; lu.solveInPlace(xs.data());
                    bool same = true;
                    for (int i = 0; i < n; i++) same = same && xs[i] == std::ldexp(x[i], e);
                    std::printf("PROP lu-solve-scaling n=%d exponent=%d => %s\n", n, e,
                                same ? "ok" : "FAIL solve(2^e b) differs from 2^e solve(b): small or large right-hand sides are treated differently");
                }
            }
        }
    }
    return 0;
}

// F4: a strictly dominant matrix with tiny entries is rejected by an absolute pivot threshold (exits the process)
static int probe_lu_tiny() {
    double s = 1e-13;
    std::vector<std::tuple<int, int, double>> trip{{0, 0, 4 * s}, {0, 1, -1 * s}, {1, 0, -1 * s}, {1, 1, 4 * s}};
    SparseMatrixCSR<double> M(2, 2, trip);
    SparseLUSolver<double> lu(M);
    std::vector<double> b{3 * s, 3 * s};
    lu.solveInPlace(b.data());   // exact solution (1, 1)
    std::printf("x = %g %g\n", b[0], b[1]);
    return (std::fabs(b[0] - 1) < 1e-9 && std::fabs(b[1] - 1) < 1e-9) ? 0 : 3;
}

// ---------------------------------------------------------------------------------------
// C15
// ---------------------------------------------------------------------------------------
static void obs(const Tri& t) {
    int n = t.rows();
    std::printf("%d %d |", n, t.is_cyclic() ? 1 : 0);
    if (n == 0) { std::printf(" null | null | %s", t.is_cyclic() ? hx(t.cyclic_corner_element()).c_str() : "-"); return; }
    for (int i = 0; i < n; i++) std::printf(" %s", hx(t.main_diagonal(i)).c_str());
    std::printf(" |");
    for (int i = 0; i < n - 1; i++) std::printf(" %s", hx(t.sub_diagonal(i)).c_str());
    std::printf(" | %s", t.is_cyclic() ? hx(t.cyclic_corner_element()).c_str() : "-");
}

static int run_objects(Rng& rng) {
    const int histories = thorough() ? 300 : 50;
    // ---- tridiagonal solver: lock-step histories against the Coq model ----
    // ---- targeted histories first: source AND target have already solved (their hidden state differs), then each of
    //      the four special members, then both solve again ----
    for (int op = 5; op <= 9; op++) {
        if (op == 7) continue;
        for (int cyc = 0; cyc < 2; cyc++) {
            std::printf("# targeted history op=%d cyc=%d\n", op, cyc);
            std::vector<std::unique_ptr<Tri>> slot(4);
            for (int i = 0; i < 4; i++) { slot[i] = std::make_unique<Tri>(); std::printf("T default %d => ", i); obs(*slot[i]); std::printf("\n"); }
            TriSys src_sys;
            for (int d = 0; d < 2; d++) {
                int n = 4 + d; TriSys sys = random_tri(rng, n, cyc, 0);
                if (d == 1) for (auto& v : sys.main) v *= 2.5;      // different first diagonal entry => different gamma
                if (d == 0) src_sys = sys;
                slot[d] = std::make_unique<Tri>(n); fill(*slot[d], sys);
                std::printf("T new %d %d %d |", d, n, cyc ? 1 : 0); pv(sys.main); std::printf(" |"); pv(sys.sub);
                std::printf(" | %s => ", hx(sys.corner).c_str()); obs(*slot[d]); std::printf("\n");
                std::vector<double> b(n), t1(n), t2(n); for (auto& x : b) x = rng.nice(-4, 4);
                std::printf("T solve %d |", d); pv(b); slot[d]->solveInPlace(b.data(), t1.data(), t2.data());
                std::printf(" =>"); pv(b); std::printf(" ; "); obs(*slot[d]); std::printf("\n");
            }
            int d = (op == 5 || op == 8) ? 2 : 1, s = 0;
            const char* name = op == 5 ? "copyctor" : op == 6 ? "copyassign" : op == 8 ? "movector" : "moveassign";
            std::printf("T %s %d %d => ", name, d, s);
            if (op == 5) slot[d] = std::make_unique<Tri>(*slot[s]);
            else if (op == 6) *slot[d] = *slot[s];
            else if (op == 8) slot[d] = std::make_unique<Tri>(std::move(*slot[s]));
            else *slot[d] = std::move(*slot[s]);
            obs(*slot[d]); std::printf(" ; "); obs(*slot[s]); std::printf("\n");
            int n = slot[d]->rows();
            std::vector<double> b(n), t1(n), t2(n); for (auto& x : b) x = rng.nice(-4, 4);
            std::vector<double> b0 = b;
            std::printf("T solve %d |", d); pv(b); slot[d]->solveInPlace(b.data(), t1.data(), t2.data());
            std::printf(" =>"); pv(b); std::printf(" ; "); obs(*slot[d]); std::printf("\n");
            // the property, evaluated on the implementation alone: the copy / moved-to object solves the SOURCE's system
            // (residual against the matrix entries the source was filled with)
            {
                const TriSys& A = src_sys; double worst = 0, scale = 0;
                for (int i = 0; i < n; i++) {
                    double r = A.main[i] * b[i] - b0[i];
                    if (i > 0) r += A.sub[i - 1] * b[i - 1];
                    if (i + 1 < n) r += A.sub[i] * b[i + 1];
                    if (cyc && i == 0) r += A.corner * b[n - 1];
                    if (cyc && i == n - 1) r += A.corner * b[0];
                    worst = std::max(worst, std::fabs(r)); scale = std::max(scale, std::fabs(b0[i]) + std::fabs(A.main[i] * b[i]));
                }
                std::printf("PROP %s-solves-source-system cyc=%d rel=%.3e => %s\n", name, cyc, worst / std::max(scale, 1e-300),
                            n == (int)A.main.size() && worst <= 1e-9 * scale ? "ok" : "FAIL the copied / moved-to solver does not solve the system its source held");
            }
        }
    }
    for (int h = 0; h < histories; h++) {
        std::printf("# history %d\n", h);
        std::vector<std::unique_ptr<Tri>> slot(4);
        for (int i = 0; i < 4; i++) { slot[i] = std::make_unique<Tri>(); std::printf("T default %d => ", i); obs(*slot[i]); std::printf("\n"); }
        int len = rng.range(3, 12);
        bool allow_default_src = (h % 5 == 4);   // copies FROM default-constructed objects only in every 5th history
        for (int step = 0; step < len; step++) {
            int op = rng.range(0, 9);
            int d = rng.range(0, 3), s = rng.range(0, 3);
            if (op <= 1 || (step == 0)) {           // construct with data
                int n = rng.range(2, 6); bool cyc = rng.coin();
                TriSys sys = random_tri(rng, n, cyc, 0);
                slot[d] = std::make_unique<Tri>(n); fill(*slot[d], sys);
                std::printf("T new %d %d %d |", d, n, cyc ? 1 : 0); pv(sys.main); std::printf(" |"); pv(sys.sub);
                std::printf(" | %s => ", hx(sys.corner).c_str()); obs(*slot[d]); std::printf("\n");
            } else if (op <= 4) {                   // solve (biased: copy right after first solve comes next)
                if (slot[d]->rows() < 2) continue;
                int n = slot[d]->rows();
                std::vector<double> b(n), t1(n), t2(n);
                for (auto& x : b) x = rng.nice(-4, 4);
                std::printf("T solve %d |", d); pv(b);
                slot[d]->solveInPlace(b.data(), t1.data(), t2.data());
                std::printf(" =>"); pv(b); std::printf(" ; "); obs(*slot[d]); std::printf("\n");
            } else {
                if (d == s) continue;
                if (slot[s]->rows() == 0 && !allow_default_src && op <= 7) continue;
                const char* name = op == 5 ? "copyctor" : op == 6 ? "copyassign" : op == 7 ? "copyassign" : op == 8 ? "movector" : "moveassign";
                std::printf("T %s %d %d => ", name, d, s);
                try {
                    if (op == 5) slot[d] = std::make_unique<Tri>(*slot[s]);
                    else if (op == 6 || op == 7) *slot[d] = *slot[s];
                    else if (op == 8) slot[d] = std::make_unique<Tri>(std::move(*slot[s]));
                    else *slot[d] = std::move(*slot[s]);
                    obs(*slot[d]); std::printf(" ; "); obs(*slot[s]); std::printf("\n");
                } catch (const std::exception& e) {
                    std::printf("EXC %s\n", e.what());
                    break;   // object state after a failed special member is unspecified: end this history
                }
            }
        }
    }
    // ---- the other classes: observational equality evaluated directly on the implementation ----
    auto report = [](const char* cls, const char* op, bool ok, const char* detail) {
        std::printf("PROP %s %s => %s\n", cls, op, ok ? "ok" : detail);
    };
    // large vectors (above the kernels' parallelisation threshold), copied from a serial context and from inside an active
    // parallel region (where an inner team has one thread), with several thread counts configured
    {
        const int saved = omp_get_max_threads();
        for (int nt : {1, 2, 4, 7}) {
            omp_set_num_threads(nt);
            for (int n : {10000, 10001, 10007, 50000}) {
                Vector<double> a(n);
                for (int i = 0; i < n; i++) a[i] = 1.0 + i * 0.5;
                auto same = [&](const Vector<double>& v) { if (v.size() != n) return false; for (int i = 0; i < n; i++) if (v[i] != 1.0 + i * 0.5) return false; return true; };
                Vector<double> c(a); Vector<double> d(n); for (int i = 0; i < n; i++) d[i] = -7.0; d = a; Vector<double> e(3); e = a;
                bool ok_serial = same(c) && same(d) && same(e) && same(a);
                bool ok_nested = true;
#pragma omp parallel num_threads(nt)
                {
#pragma omp single
                    {
                        Vector<double> c2(a); Vector<double> d2(n); for (int i = 0; i < n; i++) d2[i] = -7.0; d2 = a; Vector<double> e2; e2 = a;
                        ok_nested = same(c2) && same(d2) && same(e2);
                    }
                }
                std::printf("PROP Vector large-copy threads=%d n=%d => %s\n", nt, n,
                            !ok_serial ? "FAIL a copy made in a serial context differs from its source"
                            : (!ok_nested ? "FAIL a copy made inside an active parallel region differs from its source" : "ok"));
            }
        }
        omp_set_num_threads(saved);
    }
    for (int h = 0; h < histories; h++) {
        // Vector
        {
            int n = rng.range(1, 9), m = rng.range(1, 9);
            Vector<double> a(n), b(m);
            for (int i = 0; i < n; i++) a[i] = rng.nice(-4, 4);
            for (int i = 0; i < m; i++) b[i] = rng.nice(-4, 4);
            std::vector<double> ref(a.begin(), a.end());
            auto same = [&](const Vector<double>& v) { return v.size() == (int)ref.size() && std::equal(ref.begin(), ref.end(), v.begin()); };
            Vector<double> c(a); bool ok1 = same(c) && same(a);
            b = a; bool ok2 = same(b) && same(a);
            b[0] += 1.0; bool ok3 = same(a);                   // independent afterwards
            Vector<double> e(std::move(c)); bool ok4 = same(e) && c.size() == 0;
            Vector<double> f(m); f = std::move(e); bool ok5 = same(f) && e.size() == 0;
            e = a; bool ok6 = same(e);                          // moved-from object is assignable
            Vector<double> dflt; Vector<double> g2(dflt); bool ok7 = g2.size() == 0;
            report("Vector", "copy-ctor", ok1, "FAIL copy differs"); report("Vector", "copy-assign", ok2, "FAIL assign differs");
            report("Vector", "independent", ok3, "FAIL aliasing"); report("Vector", "move-ctor", ok4, "FAIL move differs");
            report("Vector", "move-assign", ok5, "FAIL move assign differs"); report("Vector", "assign-into-moved", ok6, "FAIL");
            report("Vector", "copy-of-default", ok7, "FAIL");
        }
        // DiagonalSolver
        {
            int n = rng.range(1, 7), m = rng.range(1, 7);
            DiagonalSolver<double> a(n), b(m);
            std::vector<double> rhs(n);
            for (int i = 0; i < n; i++) { a.diagonal(i) = rng.nice(0.5, 4); rhs[i] = rng.nice(-4, 4); }
            for (int i = 0; i < m; i++) b.diagonal(i) = rng.nice(0.5, 4);
            auto solve = [&](const DiagonalSolver<double>& d) { std::vector<double> x = rhs; if (d.rows() == n) d.solveInPlace(x.data()); else x.clear(); return x; };
            auto ref = solve(a);
            DiagonalSolver<double> c(a); b = a;
            bool ok1 = solve(c) == ref, ok2 = solve(b) == ref;
            b.diagonal(0) *= 2; bool ok3 = solve(a) == ref;
            DiagonalSolver<double> e(std::move(c)); bool ok4 = solve(e) == ref && c.rows() == 0;
            DiagonalSolver<double> f(m); f = std::move(e); bool ok5 = solve(f) == ref && e.rows() == 0;
            DiagonalSolver<double> dflt; DiagonalSolver<double> g2(dflt); bool ok6 = g2.rows() == 0;
            report("DiagonalSolver", "copy-ctor", ok1, "FAIL"); report("DiagonalSolver", "copy-assign", ok2, "FAIL");
            report("DiagonalSolver", "independent", ok3, "FAIL"); report("DiagonalSolver", "move-ctor", ok4, "FAIL");
            report("DiagonalSolver", "move-assign", ok5, "FAIL"); report("DiagonalSolver", "copy-of-default", ok6, "FAIL");
        }
        // COO / CSR / SparseLU
        {
            int n = rng.range(1, 6), n2 = rng.range(1, 6);
            auto mk = [&](int dim) {
                std::vector<std::tuple<int, int, double>> t;
                for (int i = 0; i < dim; i++) {
                    for (int j = 0; j < dim; j++) if (i != j && rng.coin()) t.emplace_back(i, j, rng.nice(-1, 1));
                    t.emplace_back(i, i, 8.0 + rng.nice(0, 2));
                }
                return t;
            };
            auto ta = mk(n), tb = mk(n2);
            SparseMatrixCOO<double> ca(n, n, ta), cb(n2, n2, tb); ca.is_symmetric(rng.coin());
            auto coo_eq = [&](const SparseMatrixCOO<double>& x, const SparseMatrixCOO<double>& y) {
                if (x.rows() != y.rows() || x.columns() != y.columns() || x.non_zero_size() != y.non_zero_size() || x.is_symmetric() != y.is_symmetric()) return false;
                for (int i = 0; i < x.non_zero_size(); i++) if (x.row_index(i) != y.row_index(i) || x.col_index(i) != y.col_index(i) || x.value(i) != y.value(i)) return false;
                return true; };
            SparseMatrixCOO<double> ref(n, n, ta); ref.is_symmetric(ca.is_symmetric());
            SparseMatrixCOO<double> c1(ca); cb = ca;
            report("COO", "copy-ctor", coo_eq(c1, ref) && coo_eq(ca, ref), "FAIL"); report("COO", "copy-assign", coo_eq(cb, ref), "FAIL");
            cb.value(0) += 1; report("COO", "independent", coo_eq(ca, ref), "FAIL");
            SparseMatrixCOO<double> c2(std::move(c1)); report("COO", "move-ctor", coo_eq(c2, ref) && c1.non_zero_size() == 0 && c1.rows() == 0, "FAIL");
            SparseMatrixCOO<double> c3(n2, n2, tb); c3 = std::move(c2); report("COO", "move-assign", coo_eq(c3, ref) && c2.non_zero_size() == 0, "FAIL");
            c2 = ca; report("COO", "assign-into-moved", coo_eq(c2, ref), "FAIL");

            SparseMatrixCSR<double> ra(n, n, ta), rb(n2, n2, tb), rref(n, n, ta);
            auto csr_eq = [&](const SparseMatrixCSR<double>& x, const SparseMatrixCSR<double>& y) {
                if (x.rows() != y.rows() || x.columns() != y.columns() || x.non_zero_size() != y.non_zero_size()) return false;
                for (int r = 0; r < x.rows(); r++) { if (x.row_nz_size(r) != y.row_nz_size(r)) return false;
                    for (int k = 0; k < x.row_nz_size(r); k++) if (x.row_nz_index(r, k) != y.row_nz_index(r, k) || x.row_nz_entry(r, k) != y.row_nz_entry(r, k)) return false; }
                return true; };
            SparseMatrixCSR<double> r1(ra); rb = ra;
            report("CSR", "copy-ctor", csr_eq(r1, rref) && csr_eq(ra, rref), "FAIL"); report("CSR", "copy-assign", csr_eq(rb, rref), "FAIL");
            rb.row_nz_entry(0, 0) += 1; report("CSR", "independent", csr_eq(ra, rref), "FAIL");
            SparseMatrixCSR<double> r2(std::move(r1)); report("CSR", "move-ctor", csr_eq(r2, rref) && r1.rows() == 0, "FAIL");
            SparseMatrixCSR<double> r3(n2, n2, tb); r3 = std::move(r2); report("CSR", "move-assign", csr_eq(r3, rref) && r2.rows() == 0, "FAIL");
            r2 = ra; report("CSR", "assign-into-moved", csr_eq(r2, rref), "FAIL");
            // same nnz, different number of rows: the re-allocation test must notice
            {
                std::vector<std::tuple<int, int, double>> t1{{0, 0, 1.0}, {1, 1, 2.0}, {2, 2, 3.0}}, t2{{0, 0, 1.0}, {0, 1, 2.0}, {0, 2, 3.0}};
                SparseMatrixCSR<double> x(3, 3, t1), y(1, 3, t2), xr(3, 3, t1);
                y = x; report("CSR", "copy-assign-same-nnz-more-rows", csr_eq(y, xr), "FAIL");
            }

            // same shape (rows, nnz / size) but different content: nothing is re-allocated, everything must still be copied
            {
                std::vector<std::tuple<int, int, double>> t1{{0, 0, 4.0}, {0, 2, 1.0}, {1, 1, 5.0}, {2, 0, 2.0}, {2, 2, 6.0}},
                                                          t2{{0, 0, 7.0}, {1, 0, 1.5}, {1, 1, 8.0}, {1, 2, 2.5}, {2, 2, 9.0}};
                SparseMatrixCSR<double> x(3, 3, t1), y(3, 3, t2), xr(3, 3, t1);
                y = x; report("CSR", "copy-assign-same-shape-other-pattern", csr_eq(y, xr) && csr_eq(x, xr), "FAIL");
                SparseMatrixCSR<double> z(3, 3, t2); z = std::move(x); report("CSR", "move-assign-same-shape-other-pattern", csr_eq(z, xr), "FAIL");
                SparseMatrixCOO<double> cx(3, 3, t1), cy(3, 3, t2), cxr(3, 3, t1);
                cy = cx; report("COO", "copy-assign-same-shape-other-pattern", coo_eq(cy, cxr) && coo_eq(cx, cxr), "FAIL");
                SparseMatrixCOO<double> cz(3, 3, t2); cz = std::move(cx); report("COO", "move-assign-same-shape-other-pattern", coo_eq(cz, cxr), "FAIL");
                Vector<double> vx(5), vy(5), vr(5);
                for (int i = 0; i < 5; i++) { vx[i] = 1.5 * i - 2; vr[i] = vx[i]; vy[i] = 100 + i; }
                vy = vx; bool veq = true; for (int i = 0; i < 5; i++) veq = veq && vy[i] == vr[i] && vx[i] == vr[i];
                report("Vector", "copy-assign-same-size-other-content", veq, "FAIL");
                SparseLUSolver<double> sx(xr), sy(SparseMatrixCSR<double>(3, 3, t2));
                std::vector<double> bb{1.0, 2.0, 3.0}, b1 = bb, b2 = bb;
                sx.solveInPlace(b1.data()); sy = sx; sy.solveInPlace(b2.data());
                report("LU", "copy-assign-over-live-solver", b1 == b2, "FAIL");
            }

            std::vector<double> rhs(n); for (auto& v : rhs) v = rng.nice(-4, 4);
            SparseLUSolver<double> la(ra), lb(rb);
            auto solve = [&](const SparseLUSolver<double>& s) { std::vector<double> x = rhs; s.solveInPlace(x.data()); return x; };
            auto xref = solve(la);
            SparseLUSolver<double> l1(la); report("LU", "copy-ctor", solve(l1) == xref && solve(la) == xref, "FAIL");
            SparseLUSolver<double> l2; l2 = la; report("LU", "copy-assign", solve(l2) == xref, "FAIL");
            SparseLUSolver<double> l3(std::move(l1)); report("LU", "move-ctor", solve(l3) == xref, "FAIL");
            SparseLUSolver<double> l4; l4 = std::move(l3); report("LU", "move-assign", solve(l4) == xref, "FAIL");
            l3 = la; report("LU", "assign-into-moved", solve(l3) == xref, "FAIL");
        }
    }
    return 0;
}

// F1 in isolation: copy / move after the first solve
static int probe_tri_copy_after_solve(int which) {
    const int n = 4;
    Tri a(n); a.is_cyclic(false);
    for (int i = 0; i < n; i++) a.main_diagonal(i) = 4.0;
    for (int i = 0; i < n - 1; i++) a.sub_diagonal(i) = -1.0;
    std::vector<double> b{1, 2, 3, 4}, t1(n), t2(n);
    std::vector<double> x = b; a.solveInPlace(x.data(), t1.data(), t2.data());
    std::vector<double> y = b;
    if (which == 0) { Tri c(a); c.solveInPlace(y.data(), t1.data(), t2.data()); }
    if (which == 1) { Tri c(n); c = a; c.solveInPlace(y.data(), t1.data(), t2.data()); }
    if (which == 2) { Tri c(std::move(a)); c.solveInPlace(y.data(), t1.data(), t2.data()); }
    if (which == 3) { Tri c(n); c = std::move(a); c.solveInPlace(y.data(), t1.data(), t2.data()); }
    std::printf("original: %g %g %g %g   copy/move: %g %g %g %g\n", x[0], x[1], x[2], x[3], y[0], y[1], y[2], y[3]);
    return x == y ? 0 : 3;
}
// F2 in isolation: copy of a default-constructed solver
static int probe_tri_copy_default(int which) {
    try {
        Tri d;
        if (which == 0) { Tri c(d); return c.rows() == 0 ? 0 : 3; }
        if (which == 2) { Tri c; c = d; return c.rows() == 0 ? 0 : 3; }   // empty := empty
        Tri c(3); c = d; return c.rows() == 0 ? 0 : 3;
    } catch (const std::exception& e) { std::printf("exception: %s\n", e.what()); return 4; }
}

int main(int argc, char** argv) {
    std::string mode = argc > 1 ? argv[1] : "";
    Rng rng(seed_from_env() ^ std::hash<std::string>{}(mode));
    if (mode == "tri") return run_tri(rng);
    if (mode == "lu") return run_lu(rng);
    if (mode == "objects") return run_objects(rng);
    if (mode == "probe_lu_tiny") return probe_lu_tiny();
    if (mode == "probe_tri_copy_after_solve") return probe_tri_copy_after_solve(argc > 2 ? std::atoi(argv[2]) : 0);
    if (mode == "probe_tri_copy_default") return probe_tri_copy_default(argc > 2 ? std::atoi(argv[2]) : 0);
    std::fprintf(stderr, "usage: h_linalg tri|lu|objects|probe_*\n");
    return 2;
}
