// Shared helpers of the verification harness programs (not part of GMGPolar).
#pragma once
#include <cstdint>
#include <cstdio>
#include <cstdlib>
#include <cmath>
#include <string>
#include <vector>
#include <algorithm>

namespace vh {

// splitmix64: every random choice derives from one seed so disagreements replay exactly
struct Rng {
    uint64_t s;
    explicit Rng(uint64_t seed) : s(seed * 0x9E3779B97F4A7C15ULL + 0x1234567ULL) {}
    uint64_t next() {
        uint64_t z = (s += 0x9E3779B97F4A7C15ULL);
        z = (z ^ (z >> 30)) * 0xBF58476D1CE4E5B9ULL;
        z = (z ^ (z >> 27)) * 0x94D049BB133111EBULL;
        return z ^ (z >> 31);
    }
    int range(int lo, int hi) { return lo + (int)(next() % (uint64_t)(hi - lo + 1)); } // inclusive
    double unit() { return (double)(next() >> 11) * (1.0 / 9007199254740992.0); }
    double real(double lo, double hi) { return lo + (hi - lo) * unit(); }
    bool coin() { return next() & 1; }
    // "nice" doubles with few mantissa bits keep the exact rationals of the model small
    double nice(double lo, double hi, int bits = 12) {
        double x = real(lo, hi);
        int e; double m = std::frexp(x, &e);
        double sc = std::ldexp(1.0, bits);
        m = std::round(m * sc) / sc;
        double r = std::ldexp(m, e);
        if (r < lo) r = lo; if (r > hi) r = hi;
        return r;
    }
};

inline uint64_t seed_from_env() {
    const char* s = std::getenv("VERIF_SEED");
    return s ? std::strtoull(s, nullptr, 10) : 1;
}
inline bool thorough() {
    const char* s = std::getenv("VERIF_TIER");
    return s && std::string(s) == "thorough";
}
inline std::string hx(double v) { char b[64]; std::snprintf(b, sizeof b, "%a", v); return b; }

// radii strictly increasing in [r0, r1] with random (possibly wildly different) spacings
inline std::vector<double> random_radii(Rng& g, int n, double r0, double r1, bool wild) {
    std::vector<double> w(n - 1);
    double sum = 0;
    for (auto& x : w) { x = wild ? std::pow(10.0, g.real(-3, 1)) : g.real(0.5, 1.5); sum += x; }
    std::vector<double> r(n);
    r[0] = r0; double acc = 0;
    for (int i = 1; i < n; i++) { acc += w[i - 1]; r[i] = g.coin() ? r0 + (r1 - r0) * acc / sum : (double)(float)(r0 + (r1 - r0) * acc / sum); }
    r[n - 1] = r1;
    for (int i = 1; i < n; i++) if (!(r[i] > r[i - 1])) r[i] = std::nextafter(r[i - 1], 1e300) + 1e-9 * (r1 - r0);
    if (!(r[n - 1] > r[n - 2])) r[n - 1] = r[n - 2] + 1e-6;
    return r;
}
// angles 0 = t_0 < ... < t_{2m} = 2pi with antipodal partners: t_{j+m} = t_j + pi
inline std::vector<double> random_angles(Rng& g, int ntheta, bool uniform) {
    int m = ntheta / 2;
    std::vector<double> a(ntheta + 1);
    std::vector<double> half(m);
    half[0] = 0.0;
    if (uniform) { for (int j = 1; j < m; j++) half[j] = j * M_PI / m; }
    else {
        std::vector<double> w(m); double sum = 0;
        for (auto& x : w) { x = g.real(0.3, 1.7); sum += x; }
        double acc = 0;
        for (int j = 1; j < m; j++) { acc += w[j - 1]; half[j] = M_PI * acc / sum; }
    }
    for (int j = 0; j < m; j++) { a[j] = half[j]; a[j + m] = half[j] + M_PI; }
    a[ntheta] = 2 * M_PI;
    return a;
}
} // namespace vh
