// K-matrix for the discrete operator (C03, C04, C05): the complete matrices applied by ResidualGive
// (sequential and multi-threaded paths) and ResidualTake, the CSR matrices assembled by both direct
// solvers, on random grids / geometries / profiles / cache flags / levels; plus direct solves checked
// by the independent residual operator.
#include "hproblem.h"
using namespace vh;

static double vmax(const Vector<double>& v) { double m = 0; for (int i = 0; i < v.size(); i++) m = std::max(m, std::fabs(v[i])); return m; }

static RowMap residual_matrix(const Residual& op, const PolarGrid& g) {
    return extract_matrix(g, g, [&](Vector<double>& y, const Vector<double>& x) {
        Vector<double> rhs(g.numberOfNodes());
        for (int i = 0; i < rhs.size(); i++) rhs[i] = 0.0;
        op.computeResidual(y, rhs, x);
        for (int i = 0; i < y.size(); i++) y[i] = -y[i];      // A x = -(0 - A x)
    });
}

static RowMap csr_rows(const SparseMatrixCSR<double>& m, const PolarGrid& g, bool& dup) {
    RowMap rows(g.numberOfNodes());
    for (int r = 0; r < m.rows(); r++)
        for (int k = 0; k < m.row_nz_size(r); k++) {
            MultiIndex cm = g.multiIndex(m.row_nz_index(r, k));
            auto key = std::make_pair(cm[0], cm[1]);
            double v = m.row_nz_entry(r, k);
            if (rows[r].count(key)) dup = true;
            if (v != 0.0 || rows[r].count(key)) rows[r][key] += v;
        }
    for (auto& r : rows) for (auto it = r.begin(); it != r.end();) { if (it->second == 0.0) it = r.erase(it); else ++it; }
    return rows;
}

static void one_level(Rng& rng, const Level& lev, const Problem& pb, bool dirbc, bool cc, bool cg, bool do_direct, const char* tag) {
    const PolarGrid& g = lev.grid();
    const LevelCache& c = lev.levelCache();
    std::printf("# level %s nr=%d ntheta=%d nsc=%d dirbc=%d cache_coef=%d cache_geom=%d geom=%s coef=%s\n", tag, g.nr(), g.ntheta(),
                g.numberSmootherCircles(), dirbc, cc, cg, pb.geom_name.c_str(), pb.coef_name.c_str());
    dump_grid_and_coefficients(g, c, dirbc);
    if (cg) {
        // K-rhs (C02): weights that setup() multiplies the sampled source term with (discretize_rhs_f on a vector of ones; with a
        // cached geometry the function reads the level cache only, so any GMGPolar object carries it)
        static std::unique_ptr<GMGPolar> gmg;
        if (!gmg) gmg = std::make_unique<GMGPolar>(std::make_unique<CircularGeometry>(1.3), std::make_unique<PoissonCoefficients>(1.3, 0.8),
                                                   std::unique_ptr<BoundaryConditions>(), std::unique_ptr<SourceTerm>());
        gmg->DirBC_Interior(dirbc);
        Vector<double> w(g.numberOfNodes()); for (int i = 0; i < g.numberOfNodes(); i++) w[i] = 1.0;
        gmgpolar_verif::Access::discretize(*gmg, lev, w);
        std::printf("RHSW |"); for (int i = 0; i < g.nr(); i++) for (int j = 0; j < g.ntheta(); j++) std::printf(" %s", hx(w[g.index(i, j)]).c_str());
        std::printf(" => CHECK ok\n");
    }
    ResidualGive give1(g, c, *pb.geom, *pb.coef, dirbc, 1);
    ResidualGive giveN(g, c, *pb.geom, *pb.coef, dirbc, 3);
    print_rows("give1", g, residual_matrix(give1, g));
    print_rows("giveN", g, residual_matrix(giveN, g));
    std::unique_ptr<ResidualTake> take;
    if (cc && cg) {
        take = std::make_unique<ResidualTake>(g, c, *pb.geom, *pb.coef, dirbc, 3);
        print_rows("take", g, residual_matrix(*take, g));
    }
    if (!do_direct) return;
    DirectSolverGiveCustomLU dg(g, c, *pb.geom, *pb.coef, dirbc, rng.range(1, 4));
    bool dup = false;
    print_rows("csrgive", g, csr_rows(gmgpolar_verif::Access::csr(dg), g, dup));
    std::unique_ptr<DirectSolverTakeCustomLU> dt;
    if (cc && cg) {
        dt = std::make_unique<DirectSolverTakeCustomLU>(g, c, *pb.geom, *pb.coef, dirbc, rng.range(1, 4));
        print_rows("csrtake", g, csr_rows(gmgpolar_verif::Access::csr(*dt), g, dup));
    }
    std::printf("PROP csr-columns-distinct-within-rows => %s\n", dup ? "FAIL duplicate column in a CSR row" : "ok");
    // solves: unit-ish, random, huge dynamic range
    const int n = g.numberOfNodes();
    double normA = 0;   // max row abs sum, from give1
    {
        RowMap A = residual_matrix(give1, g);
        for (auto& r : A) { double s = 0; for (auto& e : r) s += std::fabs(e.second); normA = std::max(normA, s); }
    }
    for (int trial = 0; trial < 3; trial++) {
        Vector<double> b(n), x(n), r(n);
        for (int i = 0; i < n; i++) {
            double v = rng.real(-1, 1);
            if (trial == 1) v = (i == rng.range(0, n - 1)) ? 1.0 : 0.0;
            if (trial == 2) v *= std::pow(10.0, rng.real(-150, 150) * (thorough() ? 1.0 : 0.2));
            b[i] = v;
        }
        x = b;
        dg.solveInPlace(x);
        const Residual& indep = take ? static_cast<const Residual&>(*take) : static_cast<const Residual&>(giveN);
        indep.computeResidual(r, b, x);
        double ratio = vmax(r) / std::max(normA * vmax(x) + vmax(b), 1e-300);
        bool finite = true; for (int i = 0; i < n; i++) finite = finite && std::isfinite(x[i]);
        std::printf("PROP direct-give-residual trial=%d ratio=%.3e => %s\n", trial, ratio,
                    (finite && ratio <= 1e-10) ? "ok" : "FAIL residual of the coarse solve is not zero to rounding");
        if (dt) {
            Vector<double> y = b;
            dt->solveInPlace(y);
            indep.computeResidual(r, b, y);
            double ratio2 = vmax(r) / std::max(normA * vmax(y) + vmax(b), 1e-300);
            double diff = 0; for (int i = 0; i < n; i++) diff = std::max(diff, std::fabs(x[i] - y[i]));
            std::printf("PROP direct-take-residual trial=%d ratio=%.3e => %s\n", trial, ratio2,
                        ratio2 <= 1e-10 ? "ok" : "FAIL residual of the coarse solve is not zero to rounding");
            std::printf("PROP direct-give-eq-take trial=%d reldiff=%.3e => %s\n", trial, diff / std::max(vmax(x), 1e-300),
                        diff <= 1e-8 * std::max(vmax(x), 1e-300) ? "ok" : "FAIL the two strategies' direct solvers return different solutions");
        }
        // "for any right-hand side": the solve is linear, and scaling by a power of two commutes with every rounding (no under- or
        // overflow here), so solve(2^e b) must be 2^e solve(b) bit for bit -- for tiny and for huge right-hand sides
        if (trial == 0) {
            for (int e : {-70, -40, 60}) {
                for (int which = 0; which < (dt ? 2 : 1); which++) {
                    Vector<double> bs(n), xs(n), x0 = b;
                    for (int i = 0; i < n; i++) bs[i] = std::ldexp(b[i], e);
                    xs = bs;
                    if (which == 0) { dg.solveInPlace(xs); dg.solveInPlace(x0); } else { dt->solveInPlace(xs); dt->solveInPlace(x0); }
                    bool same = true;
                    for (int i = 0; i < n; i++) same = same && xs[i] == std::ldexp(x0[i], e);
                    std::printf("PROP direct-solve-scaling %s exponent=%d => %s\n", which ? "take" : "give", e,
                                same ? "ok" : "FAIL solve(2^e b) differs from 2^e solve(b): the solve treats small or large right-hand sides differently");
                }
            }
        }
    }
}

int main(int argc, char** argv) {
    std::string mode = argc > 1 ? argv[1] : "residual";
    Rng rng(seed_from_env() ^ std::hash<std::string>{}(mode));
    const bool direct = mode == "direct";
    const int ncases = thorough() ? 80 : (direct ? 10 : 14);
    for (int c = 0; c < ncases; c++) {
        // finest grid: nr odd so that it can be coarsened; sizes down to the smallest admissible hierarchy
        int nrc = rng.range(3, thorough() ? 7 : 5);
        int nr = (c % 4 == 3) ? rng.range(5, 9) : 2 * nrc - 1;
        const int nths[] = {4, 8, 12, 16, 20};
        int nth = nths[rng.range(0, thorough() ? 4 : 3)];
        bool wild = rng.range(0, 3) == 0;
        double Rmax = 1.3;
        std::vector<double> radii, angles;
        random_grid(rng, nr, nth, wild, radii, angles, Rmax);
        Problem pb = make_problem(rng, Rmax, c % 4, -1);
        bool dirbc = rng.coin();
        bool cc = rng.range(0, 3) != 0, cg = rng.range(0, 3) != 0;
        if (c % 3 == 0) { cc = true; cg = true; }
        std::optional<double> split;
        switch (rng.range(0, 3)) { case 0: split = std::nullopt; break; case 1: split = radii[2]; break; case 2: split = radii[nr - 3]; break; default: split = std::nullopt; }
        if (c % 4 == 1) {   // many circles on the fine level, automatic (small) split on the coarse level, caches on
            nr = 9; nth = (c % 8 == 1) ? 8 : 16; cc = true; cg = true;
            random_grid(rng, nr, nth, c % 8 == 5, radii, angles, Rmax);
            split = radii[nr - 3];
        }
        std::printf("# case %d\n", c);
        try {
            auto lev0 = make_level(0, std::make_unique<PolarGrid>(radii, angles, split), pb, cc, cg);
            one_level(rng, *lev0, pb, dirbc, cc, cg, direct, "0");
            // next coarser level built the way setup() builds it (cache copied from the finer level)
            if (nr % 2 == 1 && nth % 8 == 0 && (nr + 1) / 2 >= 4) {   // coarse ntheta >= 4: the smallest the hierarchy produces
                auto cgrid = std::make_unique<PolarGrid>(coarseningGrid(lev0->grid()));
                auto ccache = std::make_unique<LevelCache>(*lev0, *cgrid);
                // coarse caches equal a fresh evaluation at the coarse nodes
                LevelCache fresh(*cgrid, *pb.coef, *pb.geom, cc, cg);
                bool same = true;
                for (int i = 0; i < cgrid->nr(); i++) for (int j = 0; j < cgrid->ntheta(); j++) {
                    double st, ct, b, a1, a2, a3, d, st2, ct2, b2, e1, e2, e3, d2;
                    ccache->obtainValues(i, j, cgrid->index(i, j), cgrid->radius(i), cgrid->theta(j), st, ct, b, a1, a2, a3, d);
                    fresh.obtainValues(i, j, cgrid->index(i, j), cgrid->radius(i), cgrid->theta(j), st2, ct2, b2, e1, e2, e3, d2);
                    same = same && st == st2 && ct == ct2 && b == b2 && a1 == e1 && a2 == e2 && a3 == e3 && d == d2;
                }
                std::printf("PROP coarse-cache-equals-fresh-evaluation => %s\n", same ? "ok" : "FAIL coarse-level cache differs from evaluating the coefficients at the coarse nodes");
                Level lev1(1, std::move(cgrid), std::move(ccache), ExtrapolationType::NONE, false);
                one_level(rng, lev1, pb, dirbc, cc, cg, direct, "1");
            }
        } catch (const std::exception& e) {
            std::string m = e.what(); std::replace(m.begin(), m.end(), '\n', ' ');
            std::printf("# rejected: %s\n", m.c_str());
        }
    }
    if (!direct) {
        // ---- coarse caches for EVERY relation between the fine and the coarse circle / radial split (the coarse split is recomputed
        //      automatically on each level): fine split index 0 .. nr, several sizes; caches on; compared bitwise with a fresh evaluation ----
        for (int nr : {9, 11, 13, 17})
            for (int nth : {8, 16, 24}) {
                std::vector<double> radii, angles;
                double Rmax = 1.3;
                random_grid(rng, nr, nth, false, radii, angles, Rmax);
                Problem pb = make_problem(rng, Rmax, (nr + nth) % 4, -1);
                for (int sidx = -1; sidx <= nr; sidx++) {
                    std::optional<double> split;
                    if (sidx >= 0) split = sidx < nr ? radii[sidx] : 2 * radii[nr - 1];
                    try {
                        auto lev0 = make_level(0, std::make_unique<PolarGrid>(radii, angles, split), pb, true, true);
                        auto cgrid = std::make_unique<PolarGrid>(coarseningGrid(lev0->grid()));
                        LevelCache ccache(*lev0, *cgrid);
                        LevelCache fresh(*cgrid, *pb.coef, *pb.geom, true, true);
                        bool same = true;
                        for (int i = 0; i < cgrid->nr(); i++) for (int j = 0; j < cgrid->ntheta(); j++) {
                            double st, ct, b, a1, a2, a3, d, st2, ct2, b2, e1, e2, e3, d2;
                            ccache.obtainValues(i, j, cgrid->index(i, j), cgrid->radius(i), cgrid->theta(j), st, ct, b, a1, a2, a3, d);
                            fresh.obtainValues(i, j, cgrid->index(i, j), cgrid->radius(i), cgrid->theta(j), st2, ct2, b2, e1, e2, e3, d2);
                            same = same && st == st2 && ct == ct2 && b == b2 && a1 == e1 && a2 == e2 && a3 == e3 && d == d2;
                        }
                        std::printf("# level sweep nr=%d ntheta=%d nsc=%d dirbc=0 fine_split_index=%d coarse_nsc=%d geom=%s coef=%s\n", nr, nth,
                                    lev0->grid().numberSmootherCircles(), sidx, cgrid->numberSmootherCircles(), pb.geom_name.c_str(), pb.coef_name.c_str());
                        std::printf("PROP coarse-cache-equals-fresh-evaluation fine_nsc=%d coarse_nsc=%d => %s\n", lev0->grid().numberSmootherCircles(),
                                    cgrid->numberSmootherCircles(), same ? "ok" : "FAIL coarse-level cache differs from evaluating the coefficients at the coarse nodes");
                    } catch (const std::exception& e) {}
                }
            }
    }
    return 0;
}
