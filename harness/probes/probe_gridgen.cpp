// Probe for C18, compiled on its own with -DNDEBUG -fsanitize=address,undefined against /repo/src/PolarGrid/*.cpp.
//   probe_gridgen gen R0 Rmax nr_exp ntheta_exp refinement_radius anisotropic_factor divideBy2
//   probe_gridgen files <dir>
// exit 0 = grid constructed and valid, 3 = rejected by an exception, 4 = constructed but a validity property fails,
// anything else = crash / sanitizer report.
#include "PolarGrid/polargrid.h"
#include <cstdio>
#include <cstdlib>
#include <cmath>
#include <string>
#include <fstream>

PolarGrid coarseningGrid(const PolarGrid& fineGrid);

static int validate(const PolarGrid& g, double R0, double Rmax, bool check_ends) {
    const auto& r = g.radii(); const auto& a = g.angles();
    int bad = 0;
    for (size_t i = 0; i + 1 < r.size(); i++) if (!(r[i] < r[i + 1])) { std::printf("radii not strictly increasing at %zu\n", i); bad = 1; }
    if (check_ends && (r.front() != R0 || r.back() != Rmax)) { std::printf("end points %a %a differ from R0 %a Rmax %a\n", r.front(), r.back(), R0, Rmax); bad = 1; }
    // fine nodes are midpoints of the next coarser nodes
    for (size_t i = 1; i + 1 < r.size(); i += 2) {
        double mid = 0.5 * (r[i - 1] + r[i + 1]);
        if (std::fabs(r[i] - mid) > 1e-13 * Rmax) { std::printf("radius %zu is not a midpoint\n", i); bad = 1; }
    }
    const int nt = g.ntheta();
    for (int j = 0; j < nt; j++) {
        double expect = j * (2 * M_PI / nt);
        if (std::fabs(a[j] - expect) > 1e-13) { std::printf("angle %d not uniform\n", j); bad = 1; }
    }
    if (a[nt] != 2 * M_PI) { std::printf("last angle is not 2 pi\n"); bad = 1; }
    std::printf("nr=%d ntheta=%d\n", g.nr(), g.ntheta());
    return bad ? 4 : 0;
}

int main(int argc, char** argv) {
    std::string mode = argc > 1 ? argv[1] : "";
    try {
        if (mode == "gen" && argc == 9) {
            double R0 = std::atof(argv[2]), Rmax = std::atof(argv[3]);
            int nr_exp = std::atoi(argv[4]), nt_exp = std::atoi(argv[5]);
            double rr = std::atof(argv[6]); int an = std::atoi(argv[7]), dv = std::atoi(argv[8]);
            PolarGrid g(R0, Rmax, nr_exp, nt_exp, rr, an, dv);
            int rc = validate(g, R0, Rmax, true);
            if (rc) return rc;
            // the grid of one refinement less is the every-second-node subgrid
            if (dv > 0) {
                PolarGrid c(R0, Rmax, nr_exp, nt_exp, rr, an, dv - 1);
                if ((int)c.radii().size() * 2 - 1 != (int)g.radii().size()) { std::printf("refined grid size mismatch\n"); return 4; }
                for (size_t i = 0; i < c.radii().size(); i++) if (std::fabs(c.radii()[i] - g.radii()[2 * i]) > 1e-13 * Rmax) { std::printf("not nested at %zu\n", i); return 4; }
            }
            return 0;
        }
        if (mode == "files" && argc == 3) {
            std::string dir = argv[2];
            PolarGrid g(1e-3, 1.3, 4, 4, 0.8, 0, 1);
            g.writeToFile(dir + "/r.txt", dir + "/t.txt", 17);
            PolarGrid h(dir + "/r.txt", dir + "/t.txt");
            if (h.nr() != g.nr() || h.ntheta() != g.ntheta()) { std::printf("round trip changed the sizes\n"); return 4; }
            for (int i = 0; i < g.nr(); i++) if (std::fabs(h.radius(i) - g.radius(i)) > 1e-16) { std::printf("round trip changed radius %d\n", i); return 4; }
            for (int j = 0; j <= g.ntheta(); j++) if (std::fabs(h.theta(j) - g.theta(j)) > 1e-16) { std::printf("round trip changed angle %d\n", j); return 4; }
            // missing, empty, malformed files must be rejected by an exception
            int rejected = 0;
            { std::ofstream e(dir + "/empty.txt"); }
            { std::ofstream m(dir + "/garbage.txt"); m << "1.0 abc 2.0\n"; }
            const char* bad[3] = {"/does_not_exist.txt", "/empty.txt", "/garbage.txt"};
            for (int k = 0; k < 3; k++) {
                try { PolarGrid b(dir + bad[k], dir + "/t.txt"); std::printf("bad radii file %s accepted (nr=%d)\n", bad[k], b.nr()); }
                catch (const std::exception& e) { rejected++; }
                try { PolarGrid b(dir + "/r.txt", dir + bad[k]); std::printf("bad angle file %s accepted\n", bad[k]); }
                catch (const std::exception& e) { rejected++; }
            }
            std::printf("rejected %d of 6 bad files\n", rejected);
            return rejected == 6 ? 0 : 4;
        }
        if (mode == "sweep") {
            // one parameter tuple per stdin line (hex doubles allowed); the tuple is printed and flushed BEFORE it runs, so the last
            // line of stdout names the failing input when a sanitizer report ends the process
            char line[512]; int n = 0, rejected = 0, invalid = 0;
            while (std::fgets(line, sizeof line, stdin)) {
                char a0[64], a1[64], a4[64]; int nr_exp, nt_exp, an, dv;
                if (std::sscanf(line, "%63s %63s %d %d %63s %d %d", a0, a1, &nr_exp, &nt_exp, a4, &an, &dv) != 7) continue;
                double R0 = std::strtod(a0, nullptr), Rmax = std::strtod(a1, nullptr), rr = std::strtod(a4, nullptr);
                std::printf("RUN %s %s %d %d %s %d %d\n", a0, a1, nr_exp, nt_exp, a4, an, dv); std::fflush(stdout);
                n++;
                try {
                    PolarGrid g(R0, Rmax, nr_exp, nt_exp, rr, an, dv);
                    if (validate(g, R0, Rmax, true)) { invalid++; std::printf("INVALID %s %s %d %d %s %d %d\n", a0, a1, nr_exp, nt_exp, a4, an, dv); }
                    // exercise every accessor the solver uses on a fresh grid
                    double acc = 0;
                    for (int i = 0; i < g.nr(); i++) acc += g.radius(i);
                    for (int i = 0; i + 1 < g.nr(); i++) acc += g.radialSpacing(i);
                    for (int j = 0; j < g.ntheta(); j++) acc += g.theta(j) + g.angularSpacing(j);
                    if (acc < 0) std::printf("impossible\n");
                } catch (const std::exception& e) { rejected++; }
            }
            std::printf("SWEEP done n=%d rejected=%d invalid=%d\n", n, rejected, invalid);
            return invalid ? 4 : 0;
        }
    } catch (const std::exception& e) {
        std::printf("exception: %s\n", e.what());
        return 3;
    }
    std::fprintf(stderr, "usage\n");
    return 2;
}
