#include "GMGPolar/test_cases.h"
#include <cstdio>
#include <cmath>
#include <functional>
// independent check: -div(alpha grad u) + beta u by 4th-order central differences in (r,theta), using only the compiled classes
template <class Geo, class Ex, class Co, class Rhs>
void run(const char* name, Geo g, Ex ex, Co co, Rhs rhs, double R) {
    auto U = [&](double r, double t) { return ex.exact_solution(r, t, std::sin(t), std::cos(t)); };
    auto flux = [&](double r, double t, int which) {
        double s = std::sin(t), c = std::cos(t);
        double Jrr = g.dFx_dr(r, t, s, c), Jtr = g.dFy_dr(r, t, s, c), Jrt = g.dFx_dt(r, t, s, c), Jtt = g.dFy_dt(r, t, s, c);
        double det = Jrr * Jtt - Jrt * Jtr, arr = Jrr * Jrr + Jtr * Jtr, art = Jrr * Jrt + Jtr * Jtt, att = Jrt * Jrt + Jtt * Jtt;
        double h = 1e-3;
        double ur = (-U(r + 2 * h, t) + 8 * U(r + h, t) - 8 * U(r - h, t) + U(r - 2 * h, t)) / (12 * h);
        double ut = (-U(r, t + 2 * h) + 8 * U(r, t + h) - 8 * U(r, t - h) + U(r, t - 2 * h)) / (12 * h);
        double a = co.alpha(r);
        return which == 0 ? a * (att * ur - art * ut) / det : a * (arr * ut - art * ur) / det;
    };
    double worst = 0;
    for (double rho : {0.3, 0.55, 0.8, 0.95}) for (double t : {0.4, 2.0, 3.9, 5.5}) {
        double r = rho * R, h = 1e-3, s = std::sin(t), c = std::cos(t);
        double Jrr = g.dFx_dr(r, t, s, c), Jtr = g.dFy_dr(r, t, s, c), Jrt = g.dFx_dt(r, t, s, c), Jtt = g.dFy_dt(r, t, s, c);
        double det = Jrr * Jtt - Jrt * Jtr;
        double dfr = (-flux(r + 2 * h, t, 0) + 8 * flux(r + h, t, 0) - 8 * flux(r - h, t, 0) + flux(r - 2 * h, t, 0)) / (12 * h);
        double dft = (-flux(r, t + 2 * h, 1) + 8 * flux(r, t + h, 1) - 8 * flux(r, t - h, 1) + flux(r, t - 2 * h, 1)) / (12 * h);
        double op = -(dfr + dft) / det + co.beta(r) * U(r, t);
        double f = rhs.rhs_f(r, t, s, c);
        double rel = std::fabs(op - f) / std::max({1.0, std::fabs(op), std::fabs(f)});
        worst = std::max(worst, rel);
        if (rel > 1e-4) std::printf("  %s r=%.4f t=%.2f  rhs_f=%.8g  FD operator=%.8g\n", name, r, t, f, op);
    }
    std::printf("%s: worst relative difference %.3e\n", name, worst);
}
int main() {
    double R = 1.3, eps = 0.3, e = 1.4, kap = 0.3, del = 0.2;
    run("CartesianR2_Poisson_Czarny", CzarnyGeometry(R, eps, e), CartesianR2_CzarnyGeometry(R, eps, e), PoissonCoefficients(R, 0.66 * R), CartesianR2_Poisson_CzarnyGeometry(R, eps, e), R);
    run("CartesianR6_Poisson_Czarny", CzarnyGeometry(R, eps, e), CartesianR6_CzarnyGeometry(R, eps, e), PoissonCoefficients(R, 0.66 * R), CartesianR6_Poisson_CzarnyGeometry(R, eps, e), R);
    run("PolarR6_Poisson_Czarny", CzarnyGeometry(R, eps, e), PolarR6_CzarnyGeometry(R, eps, e), PoissonCoefficients(R, 0.66 * R), PolarR6_Poisson_CzarnyGeometry(R, eps, e), R);
    run("CartesianR2_Zoni_Czarny", CzarnyGeometry(R, eps, e), CartesianR2_CzarnyGeometry(R, eps, e), ZoniCoefficients(R, 0.66 * R), CartesianR2_Zoni_CzarnyGeometry(R, eps, e), R);
    run("CartesianR2_Poisson_Shafranov", ShafranovGeometry(R, kap, del), CartesianR2_ShafranovGeometry(R, kap, del), PoissonCoefficients(R, 0.66 * R), CartesianR2_Poisson_ShafranovGeometry(R, kap, del), R);
    run("PolarR6_Poisson_Circular", CircularGeometry(R), PolarR6_CircularGeometry(R), PoissonCoefficients(R, 0.66 * R), PolarR6_Poisson_CircularGeometry(R), R);
}
