"""C02 -- second-order accuracy; implicit extrapolation raises the order (PARTIAL: discrete identities only)."""
import common as C
import operator_common as O


def run(res, tier, seed):
    res.trusted_base += [
        'hand-written model coq/theories/StencilDefs.v (A_take_row, rhs_weight) tied by the K-matrix of C03',
        'axioms under the R theorems: ClassicalDedekindReals.sig_forall_dec, sig_not_dec, FunctionalExtensionality.functional_extensionality_dep',
    ]
    res.assumptions += [
        'PARTIAL: the order of convergence (O(h^2), better than O(h^3) with extrapolation) is asymptotic error analysis against '
        'transcendental exact solutions and is NOT proved; proved are the rhs/mass weight identity, zero row sums of the '
        'diffusion part on interior rows (with the exact defect across the origin), Dirichlet rhs rows, Richardson algebra',
        'the midpoint-nesting precondition of the extrapolation is C18',
    ]
    cr = C.coq_build('C02')
    res.add_coq(cr)
    out = O.run(res, tier, seed, 'residual', ('take', 'give1'))
    if not out:
        return
    impl, dis, levels = out
    if dis:
        O.first_row_violation(res, dis, 'operator-row-differs',
                              'the operator differs from the model the C02 identities are about', seed, tier)
    import p_C02b
    p_C02b.run(res, tier, seed)
