"""C02 -- second-order accuracy; implicit extrapolation raises the order (PARTIAL: discrete identities only)."""
import common as C
import operator_common as O


def run(res, tier, seed):
    res.trusted_base += [
        'translator T3 (translate/t3_stencil.py): regenerates the four loop nests of GMGPolar::discretize_rhs_f (loop ranges, branch '
        'conditions, the scaling factor) and the two residual macros into coq/gen/StencilGen.v on every run; StencilTie.v proves '
        'them equal to rhs_weight / the operator model; validated by K-rhs and the K-matrix',
        'hand-written model coq/theories/StencilDefs.v (A_take_row, rhs_weight) tied by the K-matrix of C03 and by K-rhs: the private '
        'GMGPolar::discretize_rhs_f applied to a vector of ones on every sampled level with cached geometry, compared with rhs_weight node by node',
        'axioms under the R theorems: ClassicalDedekindReals.sig_forall_dec, sig_not_dec, FunctionalExtensionality.functional_extensionality_dep',
    ]
    res.assumptions += [
        'PARTIAL: the order of convergence (O(h^2), better than O(h^3) with extrapolation) is asymptotic error analysis against '
        'transcendental exact solutions and is NOT proved; proved are the rhs/mass weight identity, zero row sums of the '
        'diffusion part on interior rows (with the exact defect across the origin), Dirichlet rhs rows, Richardson algebra',
        'the midpoint-nesting precondition of the extrapolation is C18',
    ]
    for n, ok, msg in C.run_translators(['t3_stencil']):
        res.obligation('translator:' + n, ok, msg[-300:])
        if not ok:
            res.fail('translator:' + n, msg)
    cr = C.coq_build('C02')
    res.add_coq(cr)
    out = O.run(res, tier, seed, 'residual', ('take', 'give1'))
    if not out:
        return
    impl, dis, levels = out
    res.coverage['rhs_weight_vectors_compared'] = sum(1 for l in impl.split('\n') if l.startswith('RHSW'))
    for d in dis:
        if d.get('kind') == 'value' and d['query'].startswith('RHSW'):
            res.violation('rhs-weight-differs', {
                'what': 'GMGPolar::discretize_rhs_f multiplies the sampled source term with a weight that differs from the mass weight of the model '
                        '(C02_rhs_weight_is_mass_weight): the discrete right-hand side is not consistent with the operator',
                'verdict': d['model'][:300], 'grid': d.get('context', {}).get('OGRID', '')[:1000], 'seed': seed,
                'replay_cmd': 'VERIF_SEED=%d VERIF_TIER=%s /verif/check C02' % (seed, tier)})
            break
    for l, pr in O.failing_props(levels):
        # the coarse-level operator enters the extrapolated system: a coarse cache that is not the coefficient function at the coarse
        # nodes changes the equation implicit extrapolation solves
        res.violation('coarse-operator-coefficients-differ', {
            'what': pr, 'why': 'the level-1 operator is part of the implicitly extrapolated system (4/3 A_h - 1/3 A_2h on coarse nodes); '
            'its coefficients must be the coefficient functions evaluated at the coarse nodes', 'config': l['header'], 'grid': l['grid'], 'seed': seed})
        break
    if dis:
        O.first_row_violation(res, dis, 'operator-row-differs',
                              'the operator differs from the model the C02 identities are about', seed, tier)
    # the level-1 right-hand side is the other half of the extrapolated system: solve() must leave it as setup() built it
    import cycle_common as Y
    outt = Y.run_trace(res, tier, seed)
    if outt:
        lines = [l for l in outt[0].split('\n') if l.startswith('PROP extrapolation-coarse-rhs-preserved')]
        res.coverage['extrapolated_solves_with_coarse_rhs_checked'] = len(lines)
        for l in lines:
            if not l.rstrip().endswith('=> ok'):
                res.violation('extrapolated-system-rhs-changed', {
                    'what': l[:600], 'seed': seed, 'replay_cmd': 'VERIF_SEED=%d VERIF_TIER=%s build/harness/h_solver trace' % (seed, tier)})
                break
    import p_C02b
    p_C02b.run(res, tier, seed)
