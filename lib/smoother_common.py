"""Shared by C06 / C07: K-affine of the smoothers (harness/h_smoother.cpp) against the extracted block
Gauss-Seidel model, with per-block exact certification, and the properties evaluated on the implementation."""
import common as C
import operator_common as O


def run(res, tier, seed, mode):
    ok, msg = C.build_model_driver()
    if not ok:
        res.fail('model-extraction', msg)
        return None
    okh, msgh = C.build_harness(['h_smoother'])
    if not okh:
        res.fail('harness-build', msgh)
        return None
    rc, impl, err = C.run_harness('h_smoother', args=[mode], env={'VERIF_SEED': seed, 'VERIF_TIER': tier}, timeout=1800)
    if rc != 0:
        res.fail('harness-run', 'h_smoother %s exit %s: %s' % (mode, rc, err[-800:]))
        res.violation('harness-crash:' + mode, {'what': 'smoother crashed / asserted on an admissible smoothing-level grid', 'exit': rc,
                                                'stderr': err[-600:], 'last': [l[:160] for l in impl.split('\n')[-4:]],
                                                'replay_cmd': 'VERIF_SEED=%d VERIF_TIER=%s build/harness/h_smoother %s' % (seed, tier, mode)})
        impl = impl[:impl.rfind('\n') + 1]
    rcm, model, errm = C.run_model('smoother', impl, timeout=2400)
    if rcm != 0:
        res.fail('model-run', errm[-1000:])
    n, dis, counts = C.compare_lines(impl, model, {}, context_tags=('OGRID', 'SGRID'))
    levels = O.parse_levels('\n'.join(l for l in impl.split('\n') if not l.startswith('SW')))
    sweeps = counts.get('SW', 0)
    res.coverage.update({
        'evaluations': n, 'distinct_nontrivial': counts.get('OGRID', 0), 'sweeps_compared': sweeps,
        'traces_validated_against_impl': sweeps, 'disagreements': len(dis),
        'properties_evaluated_on_impl': counts.get('PROP', 0),
        'configurations': [l['header'][:170] for l in levels],
        'rule': 'one evaluation = one full sweep of a real smoother (give or take strategy) on a unit iterate, a unit right-hand side or '
                'a random pair, compared entrywise (1e-9 relative) with the sweep of the Coq block Gauss-Seidel model evaluated in exact '
                'rationals, where every block update of the model is certified to have exactly zero residual on its block; '
                'distinct_nontrivial = number of distinct (grid, split, geometry, profile, boundary mode) configurations',
    })
    sw = [l for l in impl.split('\n') if l.startswith('SW')]
    res.samples += [l[:200] + ' ...' for l in sw[:2]] + [l['header'] for l in levels[:2]]
    if dis:
        res.fail('K-affine(%s)' % mode, [dict(d, impl=d.get('impl', '')[:200], query=d.get('query', '')[:120]) for d in dis[:4]])
    return impl, dis, levels


def report(res, dis, levels, mode, seed, tier):
    bad = O.failing_props(levels)
    if bad:
        l, p = bad[0]
        name = p.split()[1]
        res.violation('%s:%s' % (mode, name), {'what': p, 'config': l['header'], 'grid': l['grid'], 'seed': seed,
                                               'replay_cmd': 'VERIF_SEED=%d VERIF_TIER=%s build/harness/h_smoother %s' % (seed, tier, mode)})
        return
    for d in dis:
        if d.get('kind') == 'value' and d['query'].startswith('SW'):
            q = d['query']
            head = q.split('|')[0].strip()
            ctx = d.get('context', {})
            res.violation('%s-sweep-differs:%s' % (mode, head.split()[1]),
                          {'what': 'one sweep of the real smoother differs from the exact block Gauss-Seidel relaxation of A '
                                   '(the properties evaluated on the implementation still hold on everything tried)',
                           'sweep': head, 'verdict': d['model'], 'input_and_output': q[:1500], 'grid': ctx.get('OGRID', '')[:1200],
                           'split': ctx.get('SGRID', ''), 'seed': seed,
                           'replay_cmd': 'VERIF_SEED=%d VERIF_TIER=%s /verif/check %s' % (seed, tier, res.prop_id)})
            return
