"""C08 -- grid transfer: restriction = prolongation^T, interpolation exact and convex."""
import common as C
import interp_common as I

OPS = ('P', 'R', 'Pex', 'Rex', 'Inj', 'P0', 'R0', 'Pex0', 'Rex0')


def run(res, tier, seed):
    res.trusted_base += [
        'translator T3 (translate/t3_stencil.py): the macro FINE_NODE_PROLONGATION (two grids: fineGrid spacings, coarseGrid indices) regenerated into '
        'gen/StencilGen.v and proved equal to the model row P_row (InterpTie.v); the call-site definitions i_r_coarse = i_r / 2, i_theta_coarse = '
        'i_theta / 2 are checked textually; restriction, the extrapolated pair, injection and the reference versions are tied by the K-matrix only',
        'hand-written model coq/theories/InterpDefs.v (rows of P, R, Pex, Rex, Inj in (i_r,i_theta) coordinates) tied by '
        'K-matrix: harness/h_interp.cpp extracts the complete matrix of every operator (optimised and reference versions) '
        'from the real Interpolation class; extracted model in exact rationals (ExtrOcamlBasic + ExtrOcamlZBigInt)',
        'axioms under the R theorems: ClassicalDedekindReals.sig_forall_dec, ClassicalDedekindReals.sig_not_dec, '
        'FunctionalExtensionality.functional_extensionality_dep',
    ]
    res.assumptions += [
        'grid premises of the theorems: nr odd >= 3, ntheta = 2*Mc with Mc >= 2, positive spacings',
        'the model has one row function per operator; the reference (…0) and optimised implementations are both compared with it',
        'thread-count independence of these operators is C11/C12',
    ]
    for n, ok, msg in C.run_translators(['t3_stencil']):
        res.obligation('translator:' + n, ok, msg[-300:])
        if not ok:
            res.fail('translator:' + n, msg)
    cr = C.coq_build('C08')
    res.add_coq(cr)
    out = I.run_correspondence(res, tier, seed, OPS)
    if not out:
        return
    impl, dis = out
    pairs = I.parse_rows(impl)
    # ---- direct evaluation of the property on the implementation matrices (failing-input search) ----
    checks = {'transpose': 0, 'rowsum': 0, 'nonneg': 0, 'inj': 0, 'linear_mid': 0, 'opt_eq_ref': 0}
    viol = None
    for p in pairs:
        ops = p['ops']
        if 'P' not in ops:
            continue
        for (a, b) in (('P', 'R'), ('Pex', 'Rex')):
            if a not in ops or b not in ops:
                continue
            for t, row in ops[a].items():           # t fine node, row over coarse nodes
                for s, v in row.items():
                    w = ops[b].get(s, {}).get(t, 0.0)
                    checks['transpose'] += 1
                    if abs(v - w) > 1e-13 * max(1.0, abs(v)) and not viol:
                        viol = ('transfer-not-transpose:' + a, {'what': '<%s e_c, e_f> != <e_c, %s e_f>' % (a, b), 'fine': t, 'coarse': s,
                                                                 a: v, b: w, 'grid': p['grid'][:1500]})
            for s, row in ops[b].items():
                for t, w in row.items():
                    if abs(ops[a].get(t, {}).get(s, 0.0) - w) > 1e-13 * max(1.0, abs(w)) and not viol:
                        viol = ('transfer-not-transpose:' + b, {'what': 'entry of %s without counterpart in %s' % (b, a), 'fine': t,
                                                                 'coarse': s, 'grid': p['grid'][:1500]})
        for a in ('P', 'Pex'):
            for t, row in ops.get(a, {}).items():
                checks['rowsum'] += 1
                if abs(sum(row.values()) - 1.0) > 1e-13 and not viol:
                    viol = ('prolongation-not-convex:' + a, {'what': 'weights do not sum to one', 'fine': t, 'row': str(row), 'grid': p['grid'][:1500]})
                checks['nonneg'] += 1
                if min(row.values()) < 0 and not viol:
                    viol = ('prolongation-not-convex:' + a, {'what': 'negative weight', 'fine': t, 'row': str(row), 'grid': p['grid'][:1500]})
                if t[0] % 2 == 0 and t[1] % 2 == 0:
                    checks['inj'] += 1
                    if row != {(t[0] // 2, t[1] // 2): 1.0} and not viol:
                        viol = ('injection-prolongation-not-identity:' + a, {'fine': t, 'row': str(row), 'grid': p['grid'][:1500]})
        for t, row in ops.get('Inj', {}).items():
            if row != {(2 * t[0], 2 * t[1]): 1.0} and not viol:
                viol = ('injection-wrong', {'coarse': t, 'row': str(row), 'grid': p['grid'][:1500]})
        for a, b in (('P', 'P0'), ('R', 'R0'), ('Pex', 'Pex0'), ('Rex', 'Rex0')):
            if b in ops:
                for t, row in ops[a].items():
                    checks['opt_eq_ref'] += 1
                    r0 = ops[b].get(t, {})
                    if (set(row) != set(r0) or any(abs(row[k] - r0[k]) > 1e-13 * max(1, abs(row[k])) for k in row)) and not viol:
                        viol = ('optimised-differs-from-reference:' + a, {'target': t, 'optimised': str(row), 'reference': str(r0),
                                                                           'grid': p['grid'][:1500]})
        # linear reproduction in r on midpoint-nested pairs (the grids GMGPolar generates itself)
        if p['midpoint']:
            rad = p['radii']
            for t, row in ops['P'].items():
                checks['linear_mid'] += 1
                val = sum(w * rad[2 * s[0]] for s, w in row.items())
                if abs(val - rad[t[0]]) > 1e-12 * max(1.0, rad[-1]) and not viol:
                    viol = ('prolongation-linear-midpoint', {'what': 'P does not reproduce u = r on a midpoint-nested pair',
                                                             'fine': t, 'value': val, 'exact': rad[t[0]], 'grid': p['grid'][:1500]})
    res.coverage['direct_property_evaluations'] = checks
    if viol:
        res.violation(viol[0], dict(viol[1], seed=seed))
    elif dis:
        I.first_row_violation(res, dis, 'transfer-matrix-differs',
                              'a transfer operator of the implementation differs from the model the C08 theorems are about '
                              '(the properties evaluated directly on the implementation matrices still hold)', seed, tier)
    # F3: linear functions are not reproduced where the fine node is not the midpoint
    rc, out_, err = C.run_harness('h_interp', args=['probe_linear'])
    res.coverage['probe_linear'] = out_.strip()
    if rc != 0:
        res.violation('prolongation-linear-nonmidpoint',
                      {'what': 'bilinear prolongation weights are reversed: (h1*x_left + h2*x_right)/(h1+h2) with h1 the distance '
                               'to the LEFT node; u = r on radii 1,2,4 is prolongated to 3 at r = 2 (Coq: C08_P_linear_refuted)',
                       'stdout': out_[-300:], 'replay_cmd': 'build/harness/h_interp probe_linear'})
