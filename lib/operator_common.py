"""Shared by C02 / C03 / C04 / C05: K-matrix of the discrete operator (harness/h_operator.cpp) against
the extracted Coq model, and parsing of the extracted implementation matrices."""
import re
import common as C


def run(res, tier, seed, mode, ops):
    """mode: 'residual' | 'direct'.  Returns (impl_text, disagreements, levels) or None."""
    ok, msg = C.build_model_driver()
    if not ok:
        res.fail('model-extraction', msg)
        return None
    okh, msgh = C.build_harness(['h_operator'])
    if not okh:
        res.fail('harness-build', msgh)
        return None
    rc, impl, err = C.run_harness('h_operator', args=[mode], env={'VERIF_SEED': seed, 'VERIF_TIER': tier}, timeout=1800)
    if rc != 0:
        res.fail('harness-run', 'h_operator %s exit %s: %s' % (mode, rc, err[-800:]))
        res.violation('harness-crash:operator-' + mode,
                      {'what': 'operator code crashed / asserted / exited on an admissible configuration', 'exit': rc,
                       'stderr': err[-600:], 'last': [l[:200] for l in impl.split('\n')[-5:]],
                       'replay_cmd': 'VERIF_SEED=%d VERIF_TIER=%s build/harness/h_operator %s' % (seed, tier, mode)})
        impl = impl[:impl.rfind('\n') + 1]
    keep = []
    for line in impl.split('\n'):
        if line.startswith('ROW'):
            if line.split()[1] in ops:
                keep.append(line)
        else:
            keep.append(line)
    impl = '\n'.join(keep)
    rcm, model, errm = C.run_model('operator', impl, timeout=1800)
    if rcm != 0:
        res.fail('model-run', errm[-1000:])
    n, dis, counts = C.compare_lines(impl, model, {}, context_tags=('OGRID',))
    levels = parse_levels(impl)
    res.coverage.update({
        'evaluations': res.coverage.get('evaluations', 0) + n,
        'distinct_nontrivial': res.coverage.get('distinct_nontrivial', 0) + counts.get('OGRID', 0),
        'matrix_rows_compared': res.coverage.get('matrix_rows_compared', 0) + counts.get('ROW', 0),
        'traces_validated_against_impl': res.coverage.get('traces_validated_against_impl', 0) + n,
        'disagreements': res.coverage.get('disagreements', 0) + len(dis),
        'configurations': [l['header'][:160] for l in levels][:40],
        'rule': 'one evaluation = one complete matrix row extracted from the real operator by unit vectors (or one CSR row read '
                'through the guarded friend accessor, or one direct-solve check), compared with the row of the Coq model '
                'evaluated in exact rationals on the same coefficient values (tolerance 1e-11 x row abs sum, structure exact); '
                'distinct_nontrivial = number of distinct (grid, geometry, profile, boundary mode, cache flags, level) configurations',
    })
    rows = [l for l in impl.split('\n') if l.startswith('ROW')]
    res.samples += [r[:260] for r in rows[:2]] + [l['header'] for l in levels[:3]]
    if dis:
        res.fail('K-matrix(operator:%s)' % mode, dis[:4])
    return impl, dis, levels


def parse_levels(impl):
    levels, cur = [], None
    for line in impl.split('\n'):
        if line.startswith('# level'):
            m = re.search(r'nr=(\d+) ntheta=(\d+) nsc=(\d+) dirbc=(\d)', line)
            cur = {'header': line, 'nr': int(m.group(1)), 'nth': int(m.group(2)), 'dirbc': m.group(4) == '1', 'ops': {}, 'props': [],
                   'grid': ''}
            levels.append(cur)
        elif cur is None:
            continue
        elif line.startswith('OGRID'):
            cur['grid'] = line[:1200]
        elif line.startswith('ROW'):
            q, _, r = line.partition(' =>')
            _, op, ti, tj = q.split()
            row = {}
            for tok in r.split():
                a, b, v = tok.split(',')
                row[(int(a), int(b))] = float.fromhex(v)
            cur['ops'].setdefault(op, {})[(int(ti), int(tj))] = row
        elif line.startswith('PROP'):
            cur['props'].append(line)
    return levels


def failing_props(levels):
    out = []
    for l in levels:
        for p in l['props']:
            if not p.rstrip().endswith('=> ok'):
                out.append((l, p))
    return out


def first_row_violation(res, dis, sig, what, seed, tier):
    for d in dis:
        if d.get('kind') == 'value' and d['query'].startswith('ROW'):
            op = d['query'].split()[1]
            res.violation('%s:%s' % (sig, op), {'what': what, 'row': d['query'], 'impl_row': d['impl'][:800], 'model': d['model'][:800],
                                                'grid': d.get('context', {}).get('OGRID', '')[:1200], 'seed': seed,
                                                'replay_cmd': 'VERIF_SEED=%d VERIF_TIER=%s /verif/check %s' % (seed, tier, res.prop_id)})
            return True
    return False


def is_dirichlet(level, p):
    return p[0] == level['nr'] - 1 or (p[0] == 0 and level['dirbc'])
