"""C13 -- a solver object can be reused: results do not depend on earlier solves."""
import common as C
import cycle_common as Y


def run(res, tier, seed):
    Y.base(res)
    res.assumptions += [
        'the object-level scalar state (full_grid_smoothing_, residual_norms_, exact_errors_, number_of_iterations_) is modelled by '
        'its entry value; that solve() really starts from it is decided by the K-history correspondence, not by a theorem about C++',
        'observations are compared bitwise at one thread (hash of the solution, iterations, mean factor, exact errors)',
    ]
    cr = C.coq_build('C13')
    res.add_coq(cr)
    out = Y.run_trace(res, tier, seed, mode='reuse')
    if out:
        impl, dis = out
        hist = [l for l in impl.split('\n') if l.startswith('# history')]
        res.coverage['histories'] = len(hist)
        res.samples += hist[:3]
        for l in impl.split('\n'):
            if l.startswith('PROP') and not l.rstrip().endswith('=> ok'):
                h = l.split('history=')[1].split()[0]
                res.violation('reuse-differs-from-fresh', {
                    'what': 'the last solve of this history differs from the solve of a freshly constructed object with the same options',
                    'history': h, 'detail': l[:900], 'seed': seed,
                    'replay_cmd': 'VERIF_SEED=%d VERIF_TIER=%s build/harness/h_solver reuse' % (seed, tier)})
                return
        for d in dis:
            if d.get('kind') == 'value' and d['query'].startswith('HIST'):
                res.violation('reuse-trace-differs', {'what': 'op-trace of the last solve of a history differs from the model started '
                                                              'from the fresh entry state', 'detail': Y.first_diff(d), 'seed': seed})
                return
