"""C04 -- the coarse-grid direct solve inverts exactly the operator the residual applies."""
import common as C
import operator_common as O


def run(res, tier, seed):
    res.trusted_base += [
        'translator T3 (translate/t3_stencil.py): NODE_BUILD_SOLVER_MATRIX_TAKE (with its mutable offset/row/col/val locals), UPDATE_MATRIX_ELEMENT, '
        'the five slot tables, getStencil and getStencilSize regenerated into gen/StencilGen.v; StencilTie.v proves the stored (column, value) pairs equal '
        'to the residual operator row and the slots distinct and in range; the give assembly is tied by the K-matrix only',
        'K-matrix: the CSR matrices assembled by DirectSolverGiveCustomLU / DirectSolverTakeCustomLU (read through the guarded '
        'friend accessor, hook H2) are compared row by row with the model rows of the operator A (StencilDefs.v) in exact rationals; '
        'K-solve: solveInPlace on unit / random / huge-dynamic-range right-hand sides, residual measured by the independent '
        'ResidualTake / ResidualGive operator, both strategies compared',
        'theorems reused: C03_give_eq_take (the assembled operator is the one the residual applies), C16 row-map theorems',
    ]
    res.assumptions += [
        'PARTIAL: "A (solve b) = b" is not a theorem (it needs the LU identity of C16, which is only covered by exact-rational '
        'correspondence); what is decided by proof is that both strategies assemble the SAME operator the residual applies, '
        'given that the CSR rows equal the model rows (checked for every row on every run)',
        'rounding: residual bound 1e-10 relative to ||A|| ||x|| + ||b|| is measured, not proved',
    ]
    for n, ok, msg in C.run_translators(['t3_stencil']):
        res.obligation('translator:' + n, ok, msg[-300:])
        if not ok:
            res.fail('translator:' + n, msg)
    cr = C.coq_build('C04')
    res.add_coq(cr)
    out = O.run(res, tier, seed, 'direct', ('csrgive', 'csrtake'))
    if not out:
        return
    impl, dis, levels = out
    bad = O.failing_props(levels)
    n = {'solve_checks': sum(len(l['props']) for l in levels), 'csr_rows': res.coverage.get('matrix_rows_compared', 0)}
    res.coverage['direct_property_evaluations'] = n
    if bad:
        l, p = bad[0]
        sig = 'direct-solve-residual' if 'residual' in p else ('direct-give-differs-from-take' if 'give-eq-take' in p else 'csr-duplicate-columns')
        res.violation(sig, {'what': p, 'config': l['header'], 'grid': l['grid'], 'seed': seed,
                            'replay_cmd': 'VERIF_SEED=%d VERIF_TIER=%s build/harness/h_operator direct' % (seed, tier)})
    elif dis:
        O.first_row_violation(res, dis, 'assembled-matrix-differs',
                              'a row of the assembled direct-solver matrix differs from the operator the residual applies', seed, tier)
