"""Shared by C14 / C15 / C16: run one mode of h_linalg against the extracted model."""
import common as C

TOL = {'T': (1e-9, 1e-12), 'DS': (1e-14, 0.0)}


def correspond(res, mode, tier, seed, tie_name, nontrivial_tags):
    ok, msg = C.build_model_driver()
    if not ok:
        res.fail('model-extraction', msg)
        return None
    okh, msgh = C.build_harness(['h_linalg'])
    if not okh:
        res.fail('harness-build', msgh)
        return None
    rc, impl, err = C.run_harness('h_linalg', args=[mode], env={'VERIF_SEED': seed, 'VERIF_TIER': tier})
    crashed = rc != 0
    if crashed:
        res.fail('harness-run', 'h_linalg %s exit %s: %s' % (mode, rc, err[-800:]))
        # drop a possibly half-written last line
        impl = impl[:impl.rfind('\n') + 1]
    rcm, model, errm = C.run_model('linalg', impl)
    if rcm != 0:
        res.fail('model-run', errm[-1000:])
    n, dis, counts = C.compare_lines(impl, model, TOL)
    res.coverage.update({
        'evaluations': res.coverage.get('evaluations', 0) + n,
        'distinct_nontrivial': res.coverage.get('distinct_nontrivial', 0) + sum(counts.get(t, 0) for t in nontrivial_tags),
        'traces_validated_against_impl': res.coverage.get('traces_validated_against_impl', 0) + n,
        'disagreements': res.coverage.get('disagreements', 0) + len(dis),
    })
    res.coverage.setdefault('lines_by_kind', {}).update({mode + ':' + k: v for k, v in counts.items()})
    lines = [l for l in impl.split('\n') if l and not l.startswith('#')]
    res.samples += [l[:400] for l in lines[:2]]
    if crashed:
        last = [l for l in impl.split('\n') if l][-6:]
        res.violation('harness-crash:' + mode, {
            'what': 'the implementation crashed (signal / abort / exit) while executing an operation history',
            'exit': rc, 'stderr': err[-600:], 'last_lines': last,
            'replay_cmd': 'VERIF_SEED=%d VERIF_TIER=%s build/harness/h_linalg %s' % (seed, tier, mode)})
    if dis:
        res.fail(tie_name, dis[:4])
    return dis, lines, model


def probe(res, args, signature, what, expect_ok=True):
    """Run an isolated finding probe as its own process."""
    rc, out, err = C.run_harness('h_linalg', args=args)
    res.coverage.setdefault('probes', {})[' '.join(args)] = 'ok' if rc == 0 else 'fails (exit %s)' % rc
    if rc != 0:
        res.violation(signature, {'what': what, 'exit': rc, 'stdout': out[-400:], 'stderr': err[-400:],
                                  'replay_cmd': 'build/harness/h_linalg ' + ' '.join(args)})
    return rc == 0
