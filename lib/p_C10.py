"""C10 -- each multigrid cycle is a consistent correction scheme."""
import common as C
import cycle_common as Y


def run(res, tier, seed):
    Y.base(res)
    res.assumptions += [
        'the value-level theorems (cycle fixes the exact solution, two-level formula) are over abstract per-level operators '
        'assumed linear with the fixed-point property C06/C07 establish; they are tied to the code through the exact op-trace',
    ]
    cr = C.coq_build('C10')
    res.add_coq(cr)
    out = Y.run_trace(res, tier, seed)
    if out:
        impl, dis = out
        Y.report(res, dis, impl, seed, tier, only_fmg=False, prop_filter=('finite-solution',))
