"""C09 part (b): FMG start-up = nested iteration from the coarsest level."""
import cycle_common as Y


def run(res, tier, seed):
    Y.base(res)
    out = Y.run_trace(res, tier, seed)
    if out:
        impl, dis = out
        Y.report(res, dis, impl, seed, tier, only_fmg=True, prop_filter=('fmg-two-level-start',))
