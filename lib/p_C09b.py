"""C09 part (b): FMG start-up (nested iteration) -- filled in with the cycle model."""


def run(res, tier, seed):
    res.assumptions.append('part (b) (nested-iteration start-up) is not yet covered by this revision of the check')
