"""C09 part (b): FMG start-up = nested iteration from the coarsest level."""
import cycle_common as Y


def run(res, tier, seed):
    Y.base(res)
    out = Y.run_trace(res, tier, seed)
    if out:
        impl, dis = out
        Y.report(res, dis, impl, seed, tier, only_fmg=True, prop_filter=('fmg-two-level-start',))
    # the FMG starting approximation across object histories (K-history of C13, FMG configurations only)
    outr = Y.run_trace(res, tier, seed, mode='reuse')
    if outr:
        implr, _ = outr
        lines = [l for l in implr.split('\n') if l.startswith('PROP fmg-start-after-history')]
        res.coverage['fmg_start_after_history'] = len(lines)
        for l in lines:
            if not l.rstrip().endswith('=> ok'):
                res.violation('fmg-start-depends-on-history', {
                    'what': l[:700], 'history': l.split('history=')[1].split()[0], 'seed': seed,
                    'replay_cmd': 'VERIF_SEED=%d VERIF_TIER=%s build/harness/h_solver reuse' % (seed, tier)})
                break
