"""C07 -- extrapolated smoothing relaxes fine-only nodes and never moves coarse nodes."""
import common as C
import smoother_common as S


def run(res, tier, seed):
    res.trusted_base += [
        'hand-written model coq/theories/SmootherDefs.v (ext_smoother_blocks: every line restricted to its fine-only nodes) tied '
        'by K-affine of ExtrapolatedSmootherGive / ExtrapolatedSmootherTake (harness/h_smoother.cpp extsmoother), exact rationals, '
        'per-block certification; the implementation is additionally compared BITWISE at the coarse nodes',
        'C07_coarse_nodes_untouched is closed under the global context and holds for any value type (bit-level claim)',
    ]
    res.assumptions += [
        'uniqueness of the block systems is a premise of the fixed-point theorem',
    ]
    cr = C.coq_build('C07')
    res.add_coq(cr)
    out = S.run(res, tier, seed, 'extsmoother')
    if out:
        impl, dis, levels = out
        S.report(res, dis, levels, 'extsmoother', seed, tier)
