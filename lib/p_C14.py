"""C14 -- tridiagonal line solvers solve every SPD system, every time."""
import common as C
import linalg_common as L


def run(res, tier, seed):
    res.trusted_base += [
        'hand-written model coq/theories/TridiagDefs.v tied by K-solve: harness/h_linalg.cpp (tri) runs the real '
        'SymmetricTridiagonalSolver / DiagonalSolver; the extracted model (exact rationals, ExtrOcamlBasic + '
        'ExtrOcamlZBigInt: Z/positive/N -> zarith) solves the same systems and evaluates A*x_impl - b exactly',
        'axioms under the R theorems: ClassicalDedekindReals.sig_forall_dec, '
        'FunctionalExtensionality.functional_extensionality_dep (Coq standard library reals)',
    ]
    res.assumptions += [
        'partial: floating-point backward stability is not a theorem; it is '
        'measured by the exact-rational correspondence (backward error bound n*256*eps, forward 1e-9 on dominant systems)',
        'SPD => positive pivots is proved for the non-cyclic solver (Schur-complement induction, C14_pivots_positive_of_spd); for the cyclic solver the non-degeneracy conditions of Sherman-Morrison are premises of the theorem (they hold for dominant systems in every correspondence case)',
    ]
    cr = C.coq_build('C14')
    res.add_coq(cr)
    out = L.correspond(res, 'tri', tier, seed, 'K-solve(tridiagonal)', ('TS',))
    if out:
        dis, lines, model = out
        for d in dis:
            if d.get('kind') != 'value':
                continue
            q = d['query']
            if q.startswith('TS'):
                res.violation('tridiag-solve-residual', {
                    'what': 'SymmetricTridiagonalSolver::solveInPlace result violates A x = b (exact residual) or '
                            'differs from the exact solution of the model',
                    'system': q, 'x_impl': d['impl'], 'verdict': d['model'], 'seed': seed})
            elif q.startswith('PROP'):
                res.violation('tridiag-repeated-solve', {'what': q, 'detail': d['impl'], 'seed': seed})
            else:
                res.violation('diagonal-solve', {'what': q, 'impl': d['impl'], 'model': d['model'], 'seed': seed})
            break
        worst = sorted((float(l.split('bwd=')[1].split()[0]) for l in model.split('\n') if 'bwd=' in l), reverse=True)[:1]
        res.coverage['max_backward_error_ratio'] = worst[0] if worst else None
