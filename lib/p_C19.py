"""C19 -- shipped test problems are consistent manufactured solutions."""
import json
import os
import common as C
import inputfn_eval as IE

PROVED_SOURCE_CLASSES = ['%s_%s_CircularGeometry' % (p, q) for p in ('CartesianR2', 'CartesianR6', 'PolarR6')
                         for q in ('Poisson', 'Zoni', 'ZoniShifted', 'ZoniGyro', 'ZoniShiftedGyro')]


def fl(s):
    return float.fromhex(s)


def close(a, b, rtol, atol):
    return a == b or abs(a - b) <= atol + rtol * max(abs(a), abs(b))


def selection_search(res):
    """name the option combination whose selected classes do not belong to one (problem, profile, geometry) triple
    (evaluates SelectDefs.row_ok on the regenerated table; this is the concrete input when C19_selected_tuple_consistent breaks)"""
    import re
    rc, out, _ = C.sh('timeout 200 make -k gen/SelectGen.vo theories/SelectDefs.vo', cwd=C.COQ, timeout=230)
    if rc != 0:
        res.coverage['selection_table'] = 'generated table does not compile (translator T11 rejected the source)'
        return
    os.makedirs(C.WORK, exist_ok=True)
    f = os.path.join(C.WORK, 'SelectSearch.v')
    with open(f, 'w') as h:
        h.write('From Coq Require Import List ZArith String.\nFrom GMGP Require Import SelectDefs.\nFrom GMGPGen Require Import SelectGen.\n'
                'Eval vm_compute in (List.length gen_select_table, map (fun r => (fst r, snd r, expected (fst (fst (fst (fst r)))) (snd (fst (fst (fst r)))) '
                '(snd (fst (fst r))) (snd (fst r)))) (filter (fun r => negb (row_ok r)) gen_select_table)).\n')
    rc, out, _ = C.sh('timeout 120 coqc -Q theories GMGP -Q gen GMGPGen %s' % f, cwd=C.COQ, timeout=150)
    flat = ' '.join(out.split())
    m = re.search(r'=\s*\((\d+)(?:%nat)?,\s*(.*)$', flat)
    rows = int(m.group(1)) if m else 0
    bad = re.findall(r'\((-?\d+)%Z, (-?\d+)%Z, (-?\d+)%Z, (-?\d+)%Z, (?:Some|None)', m.group(2)) if m else []
    res.coverage['selection_table'] = {'combinations': rows, 'inconsistent': len(bad)}
    names = (('CIRCULAR', 'SHAFRANOV', 'CZARNY', 'CULHAM'), ('CARTESIAN_R2', 'CARTESIAN_R6', 'POLAR_R6', 'REFINED_RADIUS'),
             ('POISSON', 'SONNENDRUCKER', 'ZONI', 'ZONI_SHIFTED'), ('ZERO', 'ALPHA_INVERSE'))
    for g, p, a, b in bad[:2]:
        g, p, a, b = int(g), int(p), int(a), int(b)
        res.violation('selection:%d-%d-%d-%d' % (g, p, a, b), {
            'what': 'GMGPolar::selectTestCase wires classes of different (problem, profile, geometry) triples together for this option '
                    'combination (or passes the geometry parameters in another order): the source term is then not -div(alpha grad u) + beta u '
                    'of the selected exact solution and coefficients',
            'options': {'geometry': names[0][g] if 0 <= g < 4 else g, 'problem': names[1][p] if 0 <= p < 4 else p,
                        'alpha_coeff': names[2][a] if 0 <= a < 4 else a, 'beta_coeff': names[3][b] if 0 <= b < 2 else b},
            'replay_cmd': 'build/gmgpolar --geometry %d --problem %d --alpha_coeff %d --beta_coeff %d (error does not converge at order 2)' % (g, p, a, b),
            'table_row_and_expected': flat[:1500]})


def run(res, tier, seed):
    res.trusted_base += [
        'translator T11 (translate/t11_select.py): GMGPolar::selectTestCase interpreted for all 128 combinations of the four option enumerations '
        '(nested switch / make_unique / throw grammar) -> gen/SelectGen.v; the consistency theorem is over the regenerated table',
        'translator T7 (translate/t7_input_functions.py): the return expressions of the closed-form input-function classes as reified '
        'real expressions (decimal literals exact, M_PI = pi, sin_theta/cos_theta = sin/cos theta, factor_xi substituted, pow with '
        'integer / half-integer literal exponents); validated on every run against the compiled classes at sample points (K-inputfn)',
        'Coquelicot (is_derive) and Interval (one positivity bound) libraries; real-number axioms of the Coq standard library',
        'K-inputfn: harness/h_inputfn.cpp evaluates every class of /repo; lib/inputfn_eval.py mirrors eval / D / pde in floating point '
        '(translator validation and failing-point search only)',
    ]
    res.assumptions += [
        'modelled, not verified: double rounding of the shipped formulas (the theorems are about the real-number expressions), libm',
        'not theorems: the source-term identity of the Sonnendrucker profiles (their printed 15-digit constants make the identity hold only '
        'to ~1e-15 relative, not exactly), of Refined_* and of all Shafranov / Czarny classes (formula size) -- these are compared '
        'numerically with the symbolically differentiated operator at sample points; everything Culham (tabulated mapping)',
    ]
    tr = C.run_translators(['t7_input_functions', 't11_select'])
    for n, ok, msg in tr:
        res.obligation('translator:' + n, ok, msg[-300:])
        if not ok:
            res.fail('translator:' + n, msg)
    cr = C.coq_build('C19')
    res.add_coq(cr)
    selection_search(res)
    okh, msgh = C.build_harness(['h_inputfn'])
    if not okh:
        res.fail('harness-build', msgh)
        return
    rc, out, err = C.run_harness('h_inputfn', env={'VERIF_SEED': seed, 'VERIF_TIER': tier})
    if rc != 0:
        res.fail('harness-run', 'h_inputfn exit %s: %s' % (rc, err[-600:]))
        return
    tpath = os.path.join(C.VERIF, 'work', 't7_table.json')
    if not os.path.exists(tpath):
        res.fail('translator-table', 'work/t7_table.json missing')
        return
    table = json.load(open(tpath))
    for kind in ('geometry', 'exact', 'boundary', 'coef', 'rhs'):
        for cls in table[kind]:
            for fn in table[kind][cls]:
                table[kind][cls][fn] = IE.T(table[kind][cls][fn])
    # ---- (1) translator validation: extracted expression == compiled class, pointwise ----
    values = {}
    n_ev, bad = 0, []
    for line in out.split('\n'):
        if not line.startswith('EV '):
            continue
        q, _, v = line.partition(' => ')
        _, kind, cls, fn, r, t, R, p1, p2 = q.split()
        env = [fl(r), fl(t), fl(R), fl(p1), fl(p2)]
        val = fl(v)
        values.setdefault((kind, cls, fn), []).append((env, val))
        e = table[kind].get(cls, {}).get(fn)
        if e is None:
            bad.append({'query': q, 'what': 'class not in the translator table'})
            continue
        try:
            m = IE.ev(e, env)
        except (ZeroDivisionError, ValueError, OverflowError) as ex:
            bad.append({'query': q, 'what': 'model evaluation failed: %s' % ex})
            continue
        n_ev += 1
        if not close(m, val, 1e-7, 1e-9):
            bad.append({'query': q, 'impl': val, 'translated_expression': m})
    res.coverage.update({'evaluations': n_ev, 'traces_validated_against_impl': n_ev, 'translator_disagreements': len(bad),
                         'classes': {k: len(table[k]) for k in ('geometry', 'exact', 'boundary', 'coef', 'rhs')},
                         'skipped': table['skipped']})
    res.samples += [l[:200] for l in out.split('\n')[:2]]
    if bad:
        res.fail('K-inputfn(translator T7 vs compiled classes)', bad[:4])
    # ---- (2) the properties evaluated numerically: every class, proved or not ----
    per_class = {}
    violations = []
    geo_of = {'Circular': 'CircularGeometry', 'Shafranov': 'ShafranovGeometry', 'Czarny': 'CzarnyGeometry'}
    # Jacobians
    for g, fns in table['geometry'].items():
        worst = 0.0
        for (env, _) in values.get(('geometry', g, 'Fx'), []):
            for (F, i, dF) in (('Fx', 0, 'dFx_dr'), ('Fx', 1, 'dFx_dt'), ('Fy', 0, 'dFy_dr'), ('Fy', 1, 'dFy_dt')):
                a = IE.ev(IE.D(i, fns[F]), env)
                b = [v for (e2, v) in values[('geometry', g, dF)] if e2 == env][0]
                worst = max(worst, abs(a - b) / max(1.0, abs(a)))
                if not close(a, b, 1e-8, 1e-10) and len(violations) < 3:
                    violations.append(('jacobian:%s:%s' % (g, dF), {'what': '%s::%s differs from the partial derivative of %s' % (g, dF, F),
                                                                      'point': {'r': env[0], 'theta': env[1], 'Rmax': env[2], 'p1': env[3], 'p2': env[4]},
                                                                      'shipped': b, 'derivative_of_mapping': a}))
        per_class['jacobian:' + g] = {'status': 'proved (Coq)', 'max_rel_diff_sampled': worst}
    # source terms
    for cls in sorted(table['rhs']):
        prob, prof, geo = cls.split('_')
        g = geo.replace('Geometry', '')
        gname = geo_of.get(g)
        exact = table['exact'].get('%s_%s' % (prob, geo), {}).get('exact_solution')
        coef = table['coef'].get(prof + 'Coefficients')
        if gname is None or exact is None or coef is None:
            per_class[cls] = {'status': 'not paired (no exact solution / profile / geometry class of that name)'}
            continue
        G = table['geometry'][gname]
        op = IE.pde(G['Fx'], G['Fy'], coef['alpha'], coef['beta'], exact)
        worst, n = 0.0, 0
        for (env, val) in values.get(('rhs', cls, 'rhs_f'), []):
            try:
                m = IE.ev(op, env)
            except (ZeroDivisionError, ValueError, OverflowError):
                continue
            n += 1
            rel = abs(m - val) / max(1.0, abs(m), abs(val))
            worst = max(worst, rel)
            if rel > 1e-6 and len([v for v in violations if v[0].startswith('source:' + cls)]) == 0:
                # the signature pins the shipped formula through its value at a fixed point (r = 0.731 Rmax, theta = 0.4, first parameter
                # set): a different wrong formula of the same class is a different finding
                fixed = [v2 for (e2, v2) in values[('rhs', cls, 'rhs_f')] if abs(e2[1] - 0.4) < 1e-12 and abs(e2[0] - 0.731 * e2[2]) < 1e-9][:1]
                violations.append(('source:%s:rhs_f(0.731Rmax,0.4)=%s' % (cls, ('%.6g' % fixed[0]) if fixed else '?'), {
                    'what': '%s::rhs_f differs from -div(alpha grad u) + beta u of its exact solution %s_%s, profile %s' % (cls, prob, geo, prof),
                    'point': {'r': env[0], 'theta': env[1], 'Rmax': env[2], 'p1': env[3], 'p2': env[4]},
                    'rhs_f': val, 'operator_applied_to_exact_solution': m}))
        per_class[cls] = {'status': 'proved (Coq) + sampled' if cls in PROVED_SOURCE_CLASSES else 'sampled, not proved',
                          'points': n, 'max_rel_diff': worst}
    # boundary data and gyro profiles
    for cls, fns in table['boundary'].items():
        ex = table['exact'].get(cls.replace('_Boundary', ''), {}).get('exact_solution')
        for fn in ('u_D', 'u_D_Interior'):
            for (env, val) in values.get(('boundary', cls, fn), []):
                m = IE.ev(ex, env)
                if not close(m, val, 1e-9, 1e-12) and len(violations) < 6:
                    violations.append(('boundary:%s:%s' % (cls, fn), {'what': '%s::%s differs from the exact solution' % (cls, fn),
                                                                      'point': {'r': env[0], 'theta': env[1], 'Rmax': env[2], 'p1': env[3], 'p2': env[4]},
                                                                      'boundary_value': val, 'exact_solution': m}))
    for cls in table['coef']:
        if 'Gyro' not in cls:
            continue
        av = values.get(('coef', cls, 'alpha'), [])
        bv = values.get(('coef', cls, 'beta'), [])
        for (env, a), (_, b) in zip(av, bv):
            if not close(a * b, 1.0, 1e-12, 0) and len(violations) < 8:
                violations.append(('gyro:' + cls, {'what': '%s: alpha * beta != 1' % cls, 'r': env[0], 'Rmax': env[2], 'alpha': a, 'beta': b}))
    res.coverage['per_class'] = per_class
    res.coverage['distinct_nontrivial'] = len(per_class)
    res.coverage['source_classes'] = {'proved': len([c for c in per_class if per_class[c].get('status', '').startswith('proved') and not c.startswith('jacobian')]),
                                      'sampled_only': len([c for c in per_class if per_class[c].get('status', '').startswith('sampled')])}
    for sig, rep in violations:
        rep['replay_cmd'] = 'VERIF_SEED=%d VERIF_TIER=%s /verif/check C19' % (seed, tier)
        res.violation(sig, rep)
