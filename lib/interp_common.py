"""Shared by C08 / C09: K-matrix of the transfer operators + direct property evaluation on the
extracted implementation matrices."""
import re
import common as C

TOL = {'ROW': (1e-12, 1e-300)}


def parse_rows(impl):
    """-> list of pairs: dict(meta, grid line, ops: {op: {(ti,tj): {(si,sj): val}}})"""
    pairs, cur = [], None
    for line in impl.split('\n'):
        if line.startswith('# pair'):
            m = re.search(r'nr=(\d+) ntheta=(\d+) midpoint=(\d) wild=(\d)', line)
            cur = {'nr': int(m.group(1)), 'nth': int(m.group(2)), 'midpoint': m.group(3) == '1', 'ops': {}, 'grid': None,
                   'header': line}
            pairs.append(cur)
        elif line.startswith('GRID') and cur is not None:
            cur['grid'] = line
            f = line.split(' | ')
            cur['radii'] = [float.fromhex(t) for t in f[1].split()]
            cur['angles'] = [float.fromhex(t) for t in f[2].split(' => ')[0].split()]
        elif line.startswith('ROW') and cur is not None:
            q, _, r = line.partition(' =>')
            _, op, ti, tj = q.split()
            row = {}
            for tok in r.split():
                a, b, v = tok.split(',')
                row[(int(a), int(b))] = float.fromhex(v)
            cur['ops'].setdefault(op, {})[(int(ti), int(tj))] = row
    return pairs


def run_correspondence(res, tier, seed, ops_of_interest):
    ok, msg = C.build_model_driver()
    if not ok:
        res.fail('model-extraction', msg)
        return None
    okh, msgh = C.build_harness(['h_interp'])
    if not okh:
        res.fail('harness-build', msgh)
        return None
    rc, impl, err = C.run_harness('h_interp', env={'VERIF_SEED': seed, 'VERIF_TIER': tier})
    if rc != 0:
        res.fail('harness-run', 'h_interp exit %s: %s' % (rc, err[-800:]))
        res.violation('harness-crash:interp', {'what': 'transfer operator crashed / asserted on an admissible grid pair',
                                               'exit': rc, 'stderr': err[-600:], 'last': impl.split('\n')[-4:],
                                               'replay_cmd': 'VERIF_SEED=%d VERIF_TIER=%s build/harness/h_interp' % (seed, tier)})
        impl = impl[:impl.rfind('\n') + 1]
    # keep only the rows of the operators this property is about
    keep = []
    for line in impl.split('\n'):
        if line.startswith('ROW'):
            if line.split()[1] in ops_of_interest:
                keep.append(line)
        else:
            keep.append(line)
    impl = '\n'.join(keep)
    rcm, model, errm = C.run_model('interp', impl)
    if rcm != 0:
        res.fail('model-run', errm[-1000:])
    n, dis, counts = C.compare_lines(impl, model, TOL, context_tags=('GRID',))
    res.coverage.update({'evaluations': n, 'distinct_nontrivial': counts.get('GRID', 0),
                         'matrix_rows_compared': counts.get('ROW', 0),
                         'traces_validated_against_impl': n, 'disagreements': len(dis),
                         'rule': 'one evaluation = one full matrix row of a transfer operator (extracted by unit vectors from '
                                 'the real Interpolation class) compared entry by entry with the row of the Coq model evaluated '
                                 'in exact rationals; distinct_nontrivial = number of distinct fine/coarse grid pairs (random '
                                 'radii incl. ratios 1e4, non-uniform antipodal angles, midpoint and non-midpoint, splits forced '
                                 'to all-radial / all-circle / interior on either level)'})
    lines = [l for l in impl.split('\n') if l.startswith('ROW')]
    res.samples += [l[:300] for l in lines[:3]]
    if dis:
        res.fail('K-matrix(transfer)', dis[:4])
    return impl, dis


def first_row_violation(res, dis, sig_prefix, what, seed, tier):
    for d in dis:
        if d.get('kind') == 'value':
            op = d['query'].split()[1]
            res.violation('%s:%s' % (sig_prefix, op), {
                'what': what, 'operator_row': d['query'], 'impl_row': d['impl'], 'model_row': d['model'],
                'grid': d.get('context', {}).get('GRID', '')[:1500], 'seed': seed,
                'replay_cmd': 'VERIF_SEED=%d VERIF_TIER=%s /verif/check %s' % (seed, tier, res.prop_id)})
            return True
    return False
