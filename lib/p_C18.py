"""C18 -- generated grids are valid, nested and coarsenable; files round-trip."""
import os
import shutil
import common as C


def _correspond(res, mode, args, tier, seed):
    rc, impl, err = C.run_harness('h_gridgen', args=[mode] + args, env={'VERIF_SEED': seed, 'VERIF_TIER': tier})
    if rc != 0:
        res.fail('harness-run', 'h_gridgen %s exit %s: %s' % (mode, rc, err[-800:]))
        last = [l for l in impl.split('\n') if l][-3:]
        res.violation('gridgen-abort:' + mode, {
            'what': 'the implementation aborted (failed assertion / crash) instead of constructing or rejecting the grid',
            'exit': rc, 'stderr': err[-600:], 'last_lines': last,
            'replay_cmd': 'VERIF_SEED=%d VERIF_TIER=%s build/harness/h_gridgen %s' % (seed, tier, mode)})
        impl = impl[:impl.rfind('\n') + 1]
    rcm, model, errm = C.run_model('gridgen', impl)
    if rcm != 0:
        res.fail('model-run', errm[-1000:])
    n, dis, counts = C.compare_lines(impl, model, {})
    cov = res.coverage
    cov['evaluations'] = cov.get('evaluations', 0) + n
    cov['traces_validated_against_impl'] = cov.get('traces_validated_against_impl', 0) + n
    cov['disagreements'] = cov.get('disagreements', 0) + len(dis)
    cov.setdefault('lines_by_kind', {}).update({mode + ':' + k: v for k, v in counts.items()})
    return impl, dis


def run(res, tier, seed):
    res.trusted_base += [
        'translator T9 (translate/t9_levels.py): chooseNumberOfLevels regenerated as gen_choose_levels (loop conditions, statement order of cap '
        'and minimum-level check); GridGenTie.gen_choose_levels_eq proves it equal to the model for all arguments',
        'hand-written model coq/theories/GridGenDefs.v of constructRadialDivisions / RadialAnisotropicDivision (integer window '
        'arithmetic) / refineGrid+divideVector / constructAngularDivisions / chooseNumberOfLevels',
        'K-gridgen: harness/h_gridgen.cpp runs the real PolarGrid constructor, the private chooseNumberOfLevels (guarded friend '
        'access) and the file round trip; the anisotropic window indices come out of the guarded trace hook in '
        'src/PolarGrid/anisotropic_division.cpp; the extracted model recomputes them, the sizes and level counts exactly and '
        'every radius / angle of the uniform path in exact rationals (tolerance 1e-14 relative for the rounding of the code)',
        'AddressSanitizer/UBSan sweep of the same parameter tuples with assertions compiled out (release semantics): only a '
        'search for failing inputs / observation of memory safety, not a proof',
    ]
    res.assumptions += [
        'modelled, not verified: std::set ordering and de-duplication of doubles inside the anisotropic refinement (the size of the '
        'refined set enters the partition theorem as an arbitrary s >= 0), pow/log2/floor/ceil on doubles (the value floor(nr*percentage) '
        'is taken from the trace and compared with the exact rational floor), iostream formatting and parsing of the grid files',
        'the radii of an anisotropic grid are not recomputed by the model; their validity (ends, order, midpoints, nesting) is '
        'evaluated on the implementation output in exact arithmetic by Coq-extracted predicates (increasing_b proved sound)',
    ]
    tr = C.run_translators(['t9_levels', 't12_check_parameters'])
    for n, ok, msg in tr:
        res.obligation('translator:' + n, ok, msg[-300:])
        if not ok:
            res.fail('translator:' + n, msg)
    cr = C.coq_build('C18')
    res.add_coq(cr)
    ok, msg = C.build_model_driver()
    if not ok:
        res.fail('model-extraction', msg)
    okh, msgh = C.build_harness(['h_gridgen'])
    if not okh:
        res.fail('harness-build', msgh)
    tuples = []
    if ok and okh:
        # ---- constructor ----
        impl, dis = _correspond(res, 'gen', [], tier, seed)
        gens = [l for l in impl.split('\n') if l.startswith('GEN ')]
        tuples = [' '.join(l.split()[1:8]) for l in gens]
        res.coverage['distinct_nontrivial'] = len(set(tuples))
        res.coverage['parameter_tuples'] = {'total': len(gens), 'accepted': sum(1 for l in gens if '=> ok' in l),
                                            'rejected': sum(1 for l in gens if '=> rejected' in l),
                                            'anisotropic': sum(1 for l in gens if l.split()[7] != '0')}
        res.samples += gens[:2] + [l[:200] for l in impl.split('\n') if l.startswith('ANISO')][:2]
        if dis:
            res.fail('K-gridgen', dis[:4])
            for d in dis:
                if d.get('kind') != 'value':
                    continue
                q = d['query']
                res.violation('gridgen:' + q.split()[0] + ':' + ' '.join(d['model'].split()[2:7]), {
                    'what': 'the parametric PolarGrid constructor departs from the model / violates a validity clause of C18 on this input',
                    'query': q[:400], 'impl': d['impl'][:300], 'model_verdict': d['model'][:400], 'seed': seed,
                    'replay_cmd': 'VERIF_SEED=%d VERIF_TIER=%s build/harness/h_gridgen gen' % (seed, tier)})
                break
        # ---- level count ----
        impl, dis = _correspond(res, 'levels', [], tier, seed)
        if dis:
            res.fail('K-levels', dis[:4])
            d = next((x for x in dis if x.get('kind') == 'value'), None)
            if d:
                res.violation('levels:' + d['query'], {
                    'what': 'chooseNumberOfLevels differs from the model whose result is proved admissible (C18_levels_admitted)',
                    'query': d['query'], 'impl': d['impl'], 'model': d['model'],
                    'replay_cmd': 'VERIF_SEED=%d build/harness/h_gridgen levels' % seed})
        # ---- files ----
        scratch = os.path.join(C.VERIF, 'work', 'gridfiles_%d' % os.getpid())
        os.makedirs(scratch, exist_ok=True)
        try:
            impl, dis = _correspond(res, 'files', [scratch], tier, seed)
        finally:
            shutil.rmtree(scratch, ignore_errors=True)
        if dis:
            res.fail('file-round-trip', dis[:4])
            d = next((x for x in dis if x.get('kind') == 'value'), None)
            if d:
                res.violation('files:' + ' '.join(d['query'].split()[1:4]), {
                    'what': d['impl'], 'query': d['query'], 'replay_cmd': 'VERIF_SEED=%d build/harness/h_gridgen files <dir>' % seed})
    # ---- memory safety of the same tuples (release semantics, ASan/UBSan): failing-input search ----
    probe_dir = os.path.join(C.BUILD, 'probe')
    os.makedirs(probe_dir, exist_ok=True)
    exe = os.path.join(probe_dir, 'probe_gridgen')
    rc, out, _ = C.sh('g++ -std=c++20 -O1 -g -DNDEBUG -fopenmp -fsanitize=address,undefined -fno-sanitize-recover=all '
                        '-I /repo/include %s /repo/src/PolarGrid/*.cpp -o %s' %
                        (os.path.join(C.VERIF, 'harness', 'probes', 'probe_gridgen.cpp'), exe), timeout=600)
    if rc != 0:
        res.fail('probe-build', out[-800:])
    else:
        extra = ['0x1.4f8b588e368f1p-17 0x1.4cccccccccccdp+0 4 -1 0x0p+0 2 0',        # command-line default alpha_jump = 0 (F5)
                 '0x1.4f8b588e368f1p-17 0x1.4cccccccccccdp+0 4 4 0x1.1eb851eb851ecp-3 3 0',  # refinement radius 0.14 near R0 (F5)
                 '0x1.4f8b588e368f1p-17 0x1.4cccccccccccdp+0 4 -1 0x1.4cccccccccccdp+0 2 0']  # refinement radius = Rmax
        rc, out, _ = C.sh(exe + ' sweep', stdin=('\n'.join(extra + tuples) + '\n').encode(), timeout=1200)
        err = '\n'.join(l for l in out.split('\n') if not l.startswith(('RUN ', 'nr=')))
        k = max(err.find('ERROR: AddressSanitizer'), err.find('runtime error'))
        err = err[max(k - 20, 0):max(k - 20, 0) + 1500] if k >= 0 else err[-1500:]
        runs = [l for l in out.split('\n') if l.startswith('RUN ')]
        res.coverage['sanitizer_sweep'] = {'tuples': len(runs), 'exit': rc, 'summary': [l for l in out.split('\n') if l.startswith('SWEEP')][:1]}
        if rc != 0:
            bad = [l for l in out.split('\n') if l.startswith('INVALID ')]
            tup = (bad[0].split(' ', 1)[1] if bad else (runs[-1].split(' ', 1)[1] if runs else '?'))
            res.violation('gridgen-crash:' + tup, {
                'what': ('PolarGrid(R0, Rmax, nr_exp, ntheta_exp, refinement_radius, anisotropic_factor, divideBy2) ' +
                         ('constructs an invalid grid' if bad else 'touches memory out of bounds / triggers UB (sanitizer report)')),
                'tuple': tup, 'exit': rc, 'stderr': err,
                'replay_cmd': 'echo "%s" | build/probe/probe_gridgen sweep' % tup})
