"""C01 -- solve() converges, and a reported convergence is true (PARTIAL: second half decided)."""
import common as C
import cycle_common as Y


def run(res, tier, seed):
    Y.base(res)
    res.trusted_base += ['translator T10 (translate/t10_converged.py): GMGPolar::converged regenerated as gen_converged; K-converged compares the '
                         'real (private) function with the extracted model on a grid of norms and tolerance set-ups']
    res.assumptions += [
        'PARTIAL: "the iteration contracts with mean factor < 1 for every configuration" is analytic multigrid convergence theory '
        'and is not a theorem; the check only SEARCHES for a non-converging configuration (sampled, proves nothing)',
        'decided by proof: a stop before the iteration limit happens on the stop test applied to the returned iterate; the stop test '
        'reads only that iterate and the right-hand sides; no cycle writes a right-hand side',
        'the independent recomputation of the tested residual (fresh operators, fresh caches) is evaluated on the implementation',
    ]
    tr = C.run_translators(['t10_converged'])
    for n, ok, msg in tr:
        res.obligation('translator:' + n, ok, msg[-300:])
        if not ok:
            res.fail('translator:' + n, msg)
    cr = C.coq_build('C01')
    res.add_coq(cr)
    # K-converged: the private decision function on a grid of norms and tolerance set-ups against the model
    okm, _ = C.build_model_driver()
    okh, _ = C.build_harness(['h_solver'])
    if okm and okh:
        rc, implc, errc = C.run_harness('h_solver', args=['converged'])
        rcm, modelc, errm = C.run_model('cycle', implc)
        nc, disc, _ = C.compare_lines(implc, modelc, {})
        res.coverage['stop_decisions_compared'] = nc
        if rc != 0 or rcm != 0:
            res.fail('K-converged-run', (errc + errm)[-400:])
        if disc:
            res.fail('K-converged', disc[:3])
            d = next((x for x in disc if x.get('kind') == 'value'), None)
            if d:
                q = d['query'].split()
                res.violation('converged:' + ' '.join(q[1:3]), {
                    'what': 'GMGPolar::converged(residual_norm, relative_residual_norm) decides differently from the tolerance test: '
                            'absolute tolerance, relative tolerance ("-" = disabled), ||r||, ||r||/||r_0|| as in the query',
                    'query': d['query'], 'impl': d['impl'], 'model': d['model'], 'values': [float.fromhex(x) if x != '-' else None for x in q[1:5]],
                    'replay_cmd': 'build/harness/h_solver converged'})
    out = Y.run_trace(res, tier, seed)
    if out:
        impl, dis = out
        n_stop = sum(1 for l in impl.split('\n') if l.startswith('PROP stop-is-true'))
        res.coverage['independent_residual_recomputations'] = n_stop
        # convergence search: configurations with tolerances and a large budget must stop before the budget
        nonconv = []
        searched = []
        cfg = None
        for l in impl.split('\n'):
            if l.startswith('# case'):
                cfg = l
            if l.startswith('TR'):
                toks = l.split(' | ')[0].split()
                maxit, tol = int(toks[11]), toks[7] == '1'
                import re
                kv = dict(re.findall(r'(\w+)=([-\d/]+)', cfg or ''))
                # configuration set of C01: extrapolation in {none, implicit, combined}, at least one pre- and one
                # post-smoothing step, finest level at least 17 x 32
                in_scope = (kv.get('extrap') in ('0', '1', '3') and int(kv.get('pre', 0)) >= 1 and int(kv.get('post', 0)) >= 1
                            and int(kv.get('nr_exp', 0)) >= 4 and int(kv.get('ntheta_exp', 0)) >= 5)
                if tol and maxit >= 100:
                    searched.append(in_scope)
                if tol and maxit >= 100 and in_scope and 'converged' not in l.split(' => ')[1]:
                    nonconv.append(cfg)
        res.coverage['convergence_search'] = {'configurations_with_budget_150': len(searched), 'inside_C01_configuration_set': sum(searched),
                                              'not_converged': len(nonconv)}
        if nonconv:
            res.violation('solve-does-not-converge', {'what': 'solve() used its whole iteration budget without meeting the tolerance',
                                                      'configuration': nonconv[0], 'seed': seed})
        Y.report(res, dis, impl, seed, tier, only_fmg=False, prop_filter=('stop-is-true', 'finite-solution'))
