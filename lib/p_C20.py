"""C20 -- every option combination is either rejected cleanly or runs without UB (PARTIAL)."""
import os
import common as C
import cycle_common as Y


def run(res, tier, seed):
    Y.base(res)
    res.trusted_base += [
        'translator T8 (translate/t8_options.py): enumerators, cmdline::oneof sets and accepted values of every validated option, '
        'the take-needs-caches / two-level / negative-tolerance rules, and whether the statistics locals are initialised and the '
        'exactError getters guarded, regenerated from parser.cpp, setup.cpp, solver.cpp, gmgpolar.cpp on every run',
    ]
    res.assumptions += [
        'PARTIAL: absence of out-of-bounds accesses / uninitialised reads in the C++ at large is not a theorem; decided by proof are '
        'the option decision logic, the definedness of every reported statistic, and index safety of the modelled operator rows; '
        'the rest is SEARCHED: valgrind on the statistics probes (quick) and an ASan+UBSan build swept over the option matrix (thorough)',
        'command-line exit status / usage text of the cmdline library is not modelled',
    ]
    tr = C.run_translators(['t8_options', 't9_levels'])
    for n, ok, msg in tr:
        res.obligation('translator:' + n, ok, msg[-300:])
        if not ok:
            res.fail('translator:' + n, msg)
    cr = C.coq_build('C20')
    res.add_coq(cr)
    okh, msgh = C.build_harness(['h_solver'])
    if not okh:
        res.fail('harness-build', msgh)
        return
    # rejected / accepted combinations through the programming interface
    rc, out, err = C.run_harness('h_solver', args=['options'], env={'VERIF_SEED': seed, 'VERIF_TIER': tier})
    props = [l for l in out.split('\n') if l.startswith('PROP')]
    res.coverage['option_probes'] = len(props)
    res.samples += props[:4]
    if rc != 0:
        res.violation('options-crash', {'what': 'an option combination crashed instead of being rejected or running to completion',
                                        'exit': rc, 'stderr': err[-600:], 'last': props[-2:], 'replay_cmd': 'build/harness/h_solver options'})
    for l in props:
        if not l.rstrip().endswith('=> ok'):
            res.violation('option:' + l.split()[1], {'what': l, 'replay_cmd': 'build/harness/h_solver options'})
            break
    # K-levels: the real chooseNumberOfLevels against the model the level-cap theorem is about (all caps, incl. 1 and 2)
    okm, msgm = C.build_model_driver()
    okg, msgg = C.build_harness(['h_gridgen'])
    if okm and okg:
        import p_C18
        impl_l, dis_l = p_C18._correspond(res, 'levels', [], tier, seed)
        if dis_l:
            res.fail('K-levels', dis_l[:3])
            d = next((x for x in dis_l if x.get('kind') == 'value'), None)
            if d:
                res.violation('levels:' + d['query'], {
                    'what': 'chooseNumberOfLevels accepts / rejects differently from the model (nr, ntheta, maxLevels as in the query)',
                    'query': d['query'], 'impl': d['impl'], 'model': d['model'], 'replay_cmd': 'build/harness/h_gridgen levels'})
    else:
        res.fail('K-levels-build', (msgm if not okm else '') + (msgg if not okg else ''))
    # statistics probes under valgrind: uninitialised values / invalid reads
    exe = os.path.join(C.BUILD, 'harness', 'h_solver')
    for kind, sig, what in ((0, 'stats-uninitialised-mean-factor', 'with both tolerances disabled the mean residual reduction factor is computed from uninitialised locals'),
                            (1, 'stats-empty-error-history', 'exactError*() reads back() of an empty vector when no iteration was executed (maxIterations = 0)')):
        rcv, outv, _ = C.sh('timeout 300 valgrind -q --error-exitcode=9 %s statone %d' % (exe, kind), timeout=330)
        res.coverage.setdefault('valgrind_probes', {})[str(kind)] = 'clean' if rcv == 0 else 'errors (exit %s)' % rcv
        if rcv != 0:
            res.violation(sig, {'what': what, 'valgrind': outv[-1200:], 'replay_cmd': 'valgrind build/harness/h_solver statone %d' % kind})
    # the whole option matrix of the trace harness must run to completion with finite results
    out2 = Y.run_trace(res, tier, seed)
    if out2:
        impl, dis = out2
        Y.report(res, dis, impl, seed, tier, only_fmg=False, prop_filter=('finite-solution',))
    if tier == 'thorough':
        ok, msg = C.build_harness(['h_solver'], variant='asan', extra_flags='-fsanitize=address,undefined -fno-sanitize-recover=all -g -fno-omit-frame-pointer')
        if not ok:
            res.notes.append('sanitizer build failed: ' + msg[-300:])
        else:
            for m in ('options', 'trace', 'reuse'):
                rca, outa, erra = C.run_harness('h_solver', args=[m], env={'VERIF_SEED': seed, 'VERIF_TIER': 'quick', 'ASAN_OPTIONS': 'detect_leaks=0'},
                                                variant='asan', timeout=3000)
                res.coverage.setdefault('sanitizer_sweep', {})[m] = 'clean' if rca == 0 else 'exit %s' % rca
                if rca != 0:
                    res.violation('sanitizer:' + m, {'what': 'AddressSanitizer/UBSan report while sweeping the option matrix', 'stderr': erra[-1500:],
                                                      'replay_cmd': 'build/asan/h_solver ' + m})
                    break
