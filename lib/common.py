"""Shared machinery of the /verif checks: translators, Coq build, extraction, harness build,
line-wise correspondence comparison, known findings, evidence and violation reporting."""
import fcntl
import hashlib
import json
import math
import os
import re
import subprocess
import sys
import time

VERIF = os.path.dirname(os.path.dirname(os.path.abspath(__file__)))
REPO = os.environ.get('VERIF_REPO', '/repo')
BUILD = os.path.join(VERIF, 'build')
COQ = os.path.join(VERIF, 'coq')
WORK = os.path.join(VERIF, 'work')
NPROC = str(os.cpu_count() or 8)

FORBIDDEN = re.compile(r'\b(Admitted|admit|Axiom|Axioms|Parameter|Parameters|Conjecture|Conjectures|'
                       r'Admit Obligations)\b|Unset\s+Guard|bypass_check|Unset\s+Positivity|Unset\s+Universe|'
                       r'type-in-type|impredicative-set|native_compute')
SECTION_ONLY = re.compile(r'^\s*(Variable|Variables|Hypothesis|Hypotheses|Context)\b')


def sh(cmd, timeout=600, cwd=None, env=None, stdin=None):
    e = dict(os.environ)
    if env:
        e.update(env)
    t0 = time.time()
    try:
        p = subprocess.run(cmd, shell=isinstance(cmd, str), cwd=cwd, env=e, timeout=timeout,
                           stdout=subprocess.PIPE, stderr=subprocess.STDOUT, input=stdin)
        out = p.stdout.decode('utf-8', 'replace') if isinstance(p.stdout, bytes) else p.stdout
        return p.returncode, out, time.time() - t0
    except subprocess.TimeoutExpired as ex:
        out = ex.stdout.decode('utf-8', 'replace') if ex.stdout else ''
        return 124, out + '\n[timeout after %ss]' % timeout, time.time() - t0


class Lock:
    def __init__(self, name):
        os.makedirs(BUILD, exist_ok=True)
        self.path = os.path.join(BUILD, '.lock_' + name)

    def __enter__(self):
        self.f = open(self.path, 'w')
        fcntl.flock(self.f, fcntl.LOCK_EX)
        return self

    def __exit__(self, *a):
        fcntl.flock(self.f, fcntl.LOCK_UN)
        self.f.close()


# ----------------------------------------------------------------------------------------
# translators
# ----------------------------------------------------------------------------------------
def run_translators(names):
    """Returns list of (name, ok, message)."""
    res = []
    for n in names:
        rc, out, _ = sh([sys.executable, os.path.join(VERIF, 'translate', n + '.py'), REPO], timeout=120)
        res.append((n, rc == 0, out.strip()[-2000:]))
    return res


# ----------------------------------------------------------------------------------------
# Coq
# ----------------------------------------------------------------------------------------
def coq_makefile():
    mk = os.path.join(COQ, 'Makefile')
    cp = os.path.join(COQ, '_CoqProject')
    if not os.path.exists(mk) or os.path.getmtime(mk) < os.path.getmtime(cp):
        sh('coq_makefile -f _CoqProject -o Makefile', cwd=COQ)


def scan_forbidden():
    """grep the development for anything that would declare an axiom or switch off a check."""
    hits = []
    for sub in ('theories', 'gen', 'extract'):
        d = os.path.join(COQ, sub)
        for fn in sorted(os.listdir(d)):
            if not fn.endswith('.v'):
                continue
            txt = open(os.path.join(d, fn)).read()
            txt_nc = re.sub(r'\(\*.*?\*\)', lambda m: re.sub(r'[^\n]', ' ', m.group(0)), txt, flags=re.S)
            depth = 0
            for i, line in enumerate(txt_nc.split('\n'), 1):
                if re.match(r'^\s*Section\s+\w+\s*\.', line):
                    depth += 1
                elif re.match(r'^\s*End\s+\w+\s*\.', line):
                    depth = max(0, depth - 1)
                if FORBIDDEN.search(line) or (depth == 0 and SECTION_ONLY.search(line)):
                    hits.append('%s/%s:%d: %s' % (sub, fn, i, line.strip()))
    return hits


def theorem_names(vfile):
    txt = open(vfile).read()
    txt = re.sub(r'\(\*.*?\*\)', '', txt, flags=re.S)
    return re.findall(r'^\s*(?:Theorem|Lemma|Corollary)\s+([A-Za-z_0-9\']+)', txt, flags=re.M)


def coq_build(prop_id, timeout=900):
    """Build Properties_<id>.vo and its closure (full .vo build).  Returns dict with ok, log,
    theorems, per-theorem assumptions, failing file/error."""
    with Lock('coq'):
        coq_makefile()
        target = 'theories/Properties_%s.vo' % prop_id
        # always re-check the property file itself
        for ext in ('.vo', '.vok', '.vos', '.glob'):
            p = os.path.join(COQ, 'theories', 'Properties_%s%s' % (prop_id, ext))
            if os.path.exists(p):
                os.remove(p)
        cmd = 'timeout %d make -k -j%s %s' % (timeout, NPROC, target)
        rc, out, secs = sh(cmd, cwd=COQ, timeout=timeout + 30)
        vfile = os.path.join(COQ, 'theories', 'Properties_%s.v' % prop_id)
        names = theorem_names(vfile)
        res = {'ok': rc == 0, 'log': out, 'secs': secs, 'theorems': names, 'assumptions': {},
               'checker_cmd': 'cd /verif/coq && ' + cmd, 'error': None}
        if rc != 0:
            m = re.search(r'File "([^"]+)", line (\d+)[^\n]*\n(Error:?.*?)(?:\nmake|\Z)', out, flags=re.S)
            res['error'] = (m.group(1) + ':' + m.group(2) + ': ' + m.group(3).strip()[:1500]) if m else out[-1500:]
            return res
        # per-theorem axioms
        os.makedirs(WORK, exist_ok=True)
        af = os.path.join(WORK, 'Assume_%s.v' % prop_id)
        with open(af, 'w') as f:
            f.write('From GMGP Require Import Properties_%s.\n' % prop_id)
            for n in names:
                f.write('Goal True. idtac "@@@ %s". Abort.\nPrint Assumptions %s.\n' % (n, n))
        rc2, out2, _ = sh('timeout 300 coqc -Q theories GMGP -Q gen GMGPGen %s' % af, cwd=COQ, timeout=330)
        if rc2 != 0:
            res['ok'] = False
            res['error'] = 'Print Assumptions run failed: ' + out2[-800:]
            return res
        cur = None
        for line in out2.split('\n'):
            if line.startswith('@@@ '):
                cur = line[4:].strip()
                res['assumptions'][cur] = []
            elif cur is not None:
                s = line.strip()
                if not s or s.startswith('Closed under') or s == 'Axioms:':
                    continue
                if line[:1] in (' ', '\t'):
                    continue          # continuation of an axiom's type
                m = re.match(r'([A-Za-z_][A-Za-z_0-9\.\']*)\s*(?::|$)', s)
                if m:
                    res['assumptions'][cur].append(m.group(1))
        return res


def coqchk(prop_id, timeout=2400):
    """coqchk -o on Properties_<id> and its whole dependency closure."""
    cmd = 'timeout %d coqchk -o -silent -Q theories GMGP -Q gen GMGPGen GMGP.Properties_%s' % (timeout, prop_id)
    rc, out, secs = sh(cmd, cwd=COQ, timeout=timeout + 30)
    axioms, sect = [], None
    bad = []
    for line in out.split('\n'):
        l = line.strip()
        if l.startswith('* '):
            sect = l[2:].split(':')[0]
            rest = l.split(':', 1)[1].strip() if ':' in l else ''
            if rest and rest != '<none>' and sect != 'Theory':
                (axioms if sect == 'Axioms' else bad).append(rest)
        elif l and sect in ('Axioms',) and not l.startswith('CONTEXT') and not l.startswith('='):
            axioms.append(l)
        elif l and sect and sect.startswith(('Constants/Inductives relying', 'Inductives whose')) and l != '<none>':
            bad.append(sect + ': ' + l)
    ok = rc == 0 and not bad
    return {'ok': ok, 'timed_out': rc == 124, 'secs': round(secs, 1), 'axioms': axioms, 'log': out,
            'summary': ('coqchk ok, %d axioms in the closure' % len(axioms)) if ok else ('coqchk rc=%s %s' % (rc, '; '.join(bad)[:200]))}


def axioms_summary(assump):
    s = set()
    for v in assump.values():
        s.update(v)
    return sorted(s)


# ----------------------------------------------------------------------------------------
# extraction + OCaml driver
# ----------------------------------------------------------------------------------------
def _hash_files(paths):
    h = hashlib.sha256()
    for p in sorted(paths):
        h.update(p.encode())
        h.update(open(p, 'rb').read())
    return h.hexdigest()


def build_model_driver(timeout=600):
    """(Re)extract the executable models and compile the OCaml driver.  The models are the
    *Defs.v files and the generated files; they do not depend on any proof file."""
    with Lock('ocaml'):
        gen = os.path.join(VERIF, 'ocaml', '_gen')
        os.makedirs(gen, exist_ok=True)
        srcs = []
        for sub in ('theories', 'gen', 'extract'):
            d = os.path.join(COQ, sub)
            srcs += [os.path.join(d, f) for f in os.listdir(d)
                     if f.endswith('.v') and ('Proofs' not in f and 'Properties_' not in f)]
        srcs += [os.path.join(VERIF, 'ocaml', f) for f in ('util.ml', 'driver.ml')]
        hv = _hash_files(srcs)
        stamp = os.path.join(gen, '.stamp')
        exe = os.path.join(BUILD, 'model_driver')
        if os.path.exists(stamp) and open(stamp).read() == hv and os.path.exists(exe):
            return True, 'cached'
        with Lock('coq'):
            coq_makefile()
            deps = extract_deps()
            rc, out, _ = sh('timeout %d make -k -j%s %s' % (timeout, NPROC, ' '.join(deps)), cwd=COQ, timeout=timeout + 30)
            if rc != 0:
                return False, 'model files do not compile:\n' + out[-2000:]
        rc, out, _ = sh('timeout 300 coqc -Q ../../coq/theories GMGP -Q ../../coq/gen GMGPGen ../../coq/extract/Extract.v',
                        cwd=gen, timeout=330)
        if rc != 0:
            return False, 'extraction failed:\n' + out[-2000:]
        sh('cp ../util.ml ../driver.ml .', cwd=gen)
        rc, out, _ = sh('ocamlfind ocamlopt -O2 -w -a -package str,zarith -linkpkg model.mli model.ml util.ml driver.ml -o %s' % exe,
                        cwd=gen, timeout=300)
        if rc != 0:
            return False, 'ocaml build failed:\n' + out[-2000:]
        open(stamp, 'w').write(hv)
        return True, 'rebuilt'


def extract_deps():
    txt = open(os.path.join(COQ, 'extract', 'Extract.v')).read()
    deps = []
    for m in re.finditer(r'From\s+(GMGP|GMGPGen)\s+Require\s+Import\s+([^.]*)\.', txt):
        d = 'theories' if m.group(1) == 'GMGP' else 'gen'
        for n in m.group(2).split():
            deps.append('%s/%s.vo' % (d, n))
    return deps


def run_model(mode, impl_text, timeout=900):
    exe = os.path.join(BUILD, 'model_driver')
    p = subprocess.run([exe, mode], input=impl_text.encode(), stdout=subprocess.PIPE, stderr=subprocess.PIPE,
                       timeout=timeout)
    return p.returncode, p.stdout.decode(), p.stderr.decode()


# ----------------------------------------------------------------------------------------
# harness (C++), built against /repo's current working tree with hooks on
# ----------------------------------------------------------------------------------------
def build_harness(targets, timeout=1500, variant='harness', extra_flags=''):
    with Lock('cxx_' + variant):
        bdir = os.path.join(BUILD, variant)
        os.makedirs(bdir, exist_ok=True)
        cfg = 'cmake -G Ninja -S %s -B %s -DREPO=%s -DVERIF_EXTRA_FLAGS="%s"' % (
            os.path.join(VERIF, 'harness'), bdir, REPO, extra_flags)
        rc, out, _ = sh(cfg, timeout=300)
        if rc != 0:
            return False, 'cmake configure failed:\n' + out[-3000:]
        rc, out, secs = sh('ninja -C %s %s' % (bdir, ' '.join(targets)), timeout=timeout)
        if rc != 0:
            return False, 'build of /repo working tree + harness failed:\n' + out[-4000:]
        return True, 'built in %.1fs' % secs


def run_harness(exe, args=(), env=None, timeout=900, variant='harness', stdin=None):
    path = os.path.join(BUILD, variant, exe)
    e = dict(os.environ)
    if env:
        e.update({k: str(v) for k, v in env.items()})
    try:
        p = subprocess.run([path] + list(args), stdout=subprocess.PIPE, stderr=subprocess.PIPE, env=e,
                           timeout=timeout, input=stdin)
        return p.returncode, p.stdout.decode('utf-8', 'replace'), p.stderr.decode('utf-8', 'replace')
    except subprocess.TimeoutExpired as ex:
        return 124, (ex.stdout or b'').decode('utf-8', 'replace'), 'timeout'


# ----------------------------------------------------------------------------------------
# line-wise comparison  "QUERY => RESULT"
# ----------------------------------------------------------------------------------------
def _is_float_tok(t):
    return ('0x' in t and 'p' in t) or t in ('inf', '-inf', 'nan', '-nan')


def tok_equal(a, b, rtol, atol):
    if a == b:
        return True
    if ',' in a and ',' in b:
        pa, pb = a.split(','), b.split(',')
        return len(pa) == len(pb) and all(tok_equal(x, y, rtol, atol) for x, y in zip(pa, pb))
    if _is_float_tok(a) and _is_float_tok(b):
        try:
            x, y = float.fromhex(a), float.fromhex(b)
        except ValueError:
            return False
        if math.isnan(x) or math.isnan(y):
            return False
        return abs(x - y) <= atol + rtol * max(abs(x), abs(y))
    return False


def compare_lines(impl_text, model_text, tol=None, context_tags=()):
    """tol: dict tag -> (rtol, atol) for float tokens; default exact.  Returns
    (n_compared, disagreements[list of dict], per_tag_counts)."""
    tol = tol or {}
    impl = [l for l in impl_text.split('\n') if l and not l.startswith('#')]
    model = [l for l in model_text.split('\n') if l and not l.startswith('#')]
    dis, counts = [], {}
    ctx = {}
    n = 0
    if len(impl) != len(model):
        dis.append({'kind': 'length', 'impl_lines': len(impl), 'model_lines': len(model)})
    for a, b in zip(impl, model):
        qa, _, ra = a.partition(' => ')
        qb, _, rb = b.partition(' => ')
        tag = qa.split(' ', 1)[0]
        counts[tag] = counts.get(tag, 0) + 1
        n += 1
        if tag in context_tags:
            ctx[tag] = a if len(a) < 600 else a[:600] + '...'
        if qa != qb:
            dis.append({'kind': 'desync', 'impl': a[:300], 'model': b[:300]})
            break
        ta, tb = ra.split(), rb.split()
        rt, at = tol.get(tag, (0.0, 0.0))
        if tb[:1] == ['CHECK']:
            # the model evaluated the case in exact arithmetic and returns a verdict
            ok = tb[1:2] == ['ok']
        else:
            ok = len(ta) == len(tb) and all(tok_equal(x, y, rt, at) for x, y in zip(ta, tb))
        if not ok:
            if len(dis) < 25:
                dis.append({'kind': 'value', 'query': qa[:300], 'impl': ra[:600], 'model': rb[:600], 'context': dict(ctx)})
            else:
                dis.append({'kind': 'value', 'query': qa[:80]})
    return n, dis, counts


# ----------------------------------------------------------------------------------------
# known findings
# ----------------------------------------------------------------------------------------
def known_findings():
    """known_findings.txt lines:  known: property=<id> <signature> :: text   |   fixed: property=<id> <commit> text"""
    path = os.path.join(VERIF, 'known_findings.txt')
    known, fixed = [], []
    if os.path.exists(path):
        for line in open(path):
            line = line.strip()
            if not line or line.startswith('#'):
                continue
            m = re.match(r'known:\s+property=(\S+)\s+(\S+)\s*(?:::\s*(.*))?$', line)
            if m:
                known.append({'property': m.group(1), 'signature': m.group(2), 'text': m.group(3) or ''})
                continue
            m = re.match(r'fixed:\s+property=(\S+)\s+(\S+)\s+(.*)$', line)
            if m:
                fixed.append({'property': m.group(1), 'commit': m.group(2), 'text': m.group(3)})
    return known, fixed


# ----------------------------------------------------------------------------------------
# result object: collects obligations, correspondences, violations; writes evidence
# ----------------------------------------------------------------------------------------
class Result:
    def __init__(self, prop_id, tier, seed):
        self.prop_id, self.tier, self.seed = prop_id, tier, seed
        self.t0 = time.time()
        self.obligations = []       # (name, discharged: bool, note)
        self.failures = []          # dicts: {'what':..., 'detail':...}   (broken proof / tie)
        self.violations = []        # dicts: {'signature':..., 'replay': {...}, 'concrete': bool}
        self.known_lines = []
        self.samples = []
        self.coverage = {}
        self.assumptions = []
        self.trusted_base = []
        self.checker_cmd = ''
        self.notes = []

    def obligation(self, name, ok, note=''):
        self.obligations.append((name, bool(ok), note))

    def fail(self, what, detail):
        self.failures.append({'what': what, 'detail': detail})

    def violation(self, signature, replay, concrete=True):
        self.violations.append({'signature': signature, 'replay': replay, 'concrete': concrete})

    def add_coq(self, cr):
        self.checker_cmd = cr['checker_cmd']
        if cr['ok']:
            for n in cr['theorems']:
                ax = cr['assumptions'].get(n, [])
                self.obligation(n, True, 'axioms: ' + (', '.join(ax) if ax else 'none (closed under the global context)'))
            self.coverage['axioms_used'] = axioms_summary(cr['assumptions'])
        else:
            for n in cr['theorems']:
                self.obligation(n, False, 'Coq build failed')
            self.fail('coq', cr['error'])
        self.coverage['coq_seconds'] = round(cr['secs'], 1)

    def finish(self):
        """Apply known findings, print VIOLATION / KNOWN-FINDING lines, write evidence, return exit code."""
        known, fixed = known_findings()
        known_sigs = {k['signature']: k for k in known if k['property'] == self.prop_id}
        os.makedirs(os.path.join(VERIF, 'replays'), exist_ok=True)
        out_viol = []
        # broken proof / tie with no concrete input found => still a violation
        # (a listed known finding is not an explanation for a broken proof or tie)
        if self.failures and not any(v['concrete'] and v['signature'] not in known_sigs for v in self.violations):
            self.violation('not-shown:' + self.failures[0]['what'],
                           {'property': self.prop_id, 'no_failing_input_found': True,
                            'broken': self.failures}, concrete=False)
        for v in self.violations:
            if v['signature'] in known_sigs:
                line = 'KNOWN-FINDING: property=%s %s %s' % (self.prop_id, v['signature'], known_sigs[v['signature']]['text'])
                if line not in self.known_lines:
                    self.known_lines.append(line)
                continue
            out_viol.append(v)
        for l in self.known_lines:
            print(l)
        exit_code = 0
        seen = set()
        for v in out_viol:
            if v['signature'] in seen:
                continue
            seen.add(v['signature'])
            h = hashlib.sha1((v['signature'] + json.dumps(v['replay'], sort_keys=True, default=str)).encode()).hexdigest()[:10]
            path = os.path.join(VERIF, 'replays', '%s-%s.json' % (self.prop_id, h))
            rep = dict(v['replay'])
            rep.setdefault('property', self.prop_id)
            rep['signature'] = v['signature']
            rep['seed'] = self.seed
            rep['broken_obligations_or_ties'] = self.failures
            with open(path, 'w') as f:
                json.dump(rep, f, indent=1, default=str)
            print('VIOLATION property=%s replay=%s%s' % (self.prop_id, path,
                                                         '' if v['concrete'] else ' no-failing-input-found'))
            exit_code = 1
        self.write_evidence(len(seen))
        return exit_code

    def write_evidence(self, nviol):
        n_ob = len(self.obligations)
        n_ok = sum(1 for o in self.obligations if o[1])
        cov = dict(self.coverage)
        cov.update({
            'obligations': max(n_ob, 1),
            'discharged': n_ok if n_ob else 0,
            'checker_cmd': self.checker_cmd or 'n/a',
            'trusted_base': self.trusted_base,
            'samples': self.samples[:12] if self.samples else [{'note': 'no sample recorded'}],
            'obligation_list': [{'name': a, 'discharged': b, 'note': c} for a, b, c in self.obligations],
            'broken': self.failures,
            'known_findings_reported': self.known_lines,
        })
        cov.setdefault('evaluations', 0)
        cov.setdefault('distinct_nontrivial', 0)
        ev = {
            'property_id': self.prop_id, 'tier': self.tier, 'seed': int(self.seed), 'level': 'proof',
            'coverage': cov, 'assumptions': self.assumptions, 'wall_s': round(time.time() - self.t0, 2),
            'violations': nviol,
        }
        os.makedirs(os.path.join(VERIF, 'evidence'), exist_ok=True)
        with open(os.path.join(VERIF, 'evidence', self.prop_id + '.json'), 'w') as f:
            json.dump(ev, f, indent=1, default=str)


BASE_TRUSTED = [
    'Coq 8.16.1 kernel (coqc, full .vo build; vm_compute used for finite sweeps and witnesses; native_compute not used)',
    'no Axiom/Parameter/Admitted in the development (grep run by every check)',
]
