"""C02: what is still outside the check."""


def run(res, tier, seed):
    res.assumptions.append('the sampling of the source term / boundary data into the right-hand side (build_rhs_f) and the uncached-geometry path of '
                           'discretize_rhs_f are not compared; the convergence ORDER itself is not decided (see DESIGN.md 5/C02)')
