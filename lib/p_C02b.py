"""C02: right-hand-side build correspondence / convergence table -- filled in with the solver harness."""


def run(res, tier, seed):
    res.assumptions.append('K-rhs (discretised right-hand side of setup()) is not yet covered by this revision of the check')
