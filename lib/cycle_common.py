"""Shared by C01 / C09b / C10 / C13 / C20: exact op-trace correspondence of setup()/solve() (harness/h_solver.cpp,
guarded trace hook H1) against the Coq control-flow model (CycleDefs.v)."""
import common as C


def base(res):
    res.trusted_base += [
        'hand-written control-flow model coq/theories/CycleDefs.v (six cycle functions, FMG start-up, solver loop) tied by K-trace: '
        'every operator call of solve() is recorded through the guarded hook H1 with the identity of each buffer argument and '
        'compared as an EXACT string with the event list of the extracted model for the same configuration (no floats involved; '
        'the numeric stop decisions enter the model as an oracle read from the trace)',
        'hooks H1/H2 in /repo (guard GMGPOLAR_VERIF, add-only)',
    ]


def clean(text):
    return '\n'.join(l for l in text.split('\n') if l.startswith(('#', 'TR', 'PROP', 'HIST', 'STAT')))


def run_trace(res, tier, seed, mode='trace'):
    ok, msg = C.build_model_driver()
    if not ok:
        res.fail('model-extraction', msg)
        return None
    okh, msgh = C.build_harness(['h_solver'])
    if not okh:
        res.fail('harness-build', msgh)
        return None
    rc, impl, err = C.run_harness('h_solver', args=[mode], env={'VERIF_SEED': seed, 'VERIF_TIER': tier}, timeout=2400)
    impl = clean(impl)
    if rc != 0:
        res.fail('harness-run', 'h_solver %s exit %s: %s' % (mode, rc, err[-800:]))
        res.violation('harness-crash:solver-' + mode, {'what': 'setup()/solve() crashed / asserted on an accepted configuration', 'exit': rc,
                                                       'stderr': err[-600:], 'last': [l[:200] for l in impl.split('\n')[-4:]],
                                                       'replay_cmd': 'VERIF_SEED=%d VERIF_TIER=%s build/harness/h_solver %s' % (seed, tier, mode)})
    rcm, model, errm = C.run_model('cycle', impl, timeout=1200)
    if rcm != 0:
        res.fail('model-run', errm[-1000:])
    n, dis, counts = C.compare_lines(impl, model, {})
    cfgs = [l for l in impl.split('\n') if l.startswith('# case')]
    tr = [l for l in impl.split('\n') if l.startswith(('TR', 'HIST'))]
    nev = sum(l.count(';') + 1 for l in tr)
    res.coverage.update({
        'evaluations': res.coverage.get('evaluations', 0) + n,
        'distinct_nontrivial': res.coverage.get('distinct_nontrivial', 0) + len(set(l.split(' => ')[0] for l in tr)),
        'traces_validated_against_impl': res.coverage.get('traces_validated_against_impl', 0) + len(tr),
        'trace_events_compared': res.coverage.get('trace_events_compared', 0) + nev,
        'disagreements': res.coverage.get('disagreements', 0) + len(dis),
        'rule': 'one evaluation = one complete solve() op-trace (all operator calls with buffer identities) or one property evaluated on '
                'the implementation; distinct_nontrivial = number of distinct (levels, cycle type, smoothing counts, extrapolation mode, '
                'FMG variant, tolerances, iteration limit, oracle) configurations whose traces were compared',
    })
    res.samples += [l[:300] for l in tr[:2]] + cfgs[:2]
    if dis:
        res.fail('K-trace', [first_diff(d) for d in dis[:4]])
    return impl, dis


def first_diff(d):
    a = d.get('impl', '').split(';')
    b = d.get('model', '').split(';')
    i = 0
    while i < min(len(a), len(b)) and a[i] == b[i]:
        i += 1
    return {'config': d.get('query', '')[:200], 'first_differing_event': i, 'impl': a[max(0, i - 2):i + 3], 'model': b[max(0, i - 2):i + 3],
            'impl_events': len(a), 'model_events': len(b)}


def report(res, dis, impl, seed, tier, only_fmg, prop_filter):
    # properties evaluated on the implementation
    for l in impl.split('\n'):
        if l.startswith('PROP') and not l.rstrip().endswith('=> ok'):
            name = l.split()[1]
            if name in prop_filter:
                res.violation('solve:' + name, {'what': l, 'seed': seed,
                                                'replay_cmd': 'VERIF_SEED=%d VERIF_TIER=%s build/harness/h_solver trace' % (seed, tier)})
                return
    for d in dis:
        if d.get('kind') != 'value' or not d['query'].startswith(('TR', 'HIST')):
            continue
        fd = first_diff(d)
        toks = d['query'].split()
        is_fmg = len(toks) > 8 and toks[0] == 'TR' and toks[8] == '1' and any(e.startswith(('fmg', 'copy')) for e in fd['impl'] + fd['model'])
        if only_fmg != is_fmg:
            continue
        sig = 'fmg-start-not-nested-iteration' if is_fmg else 'op-trace-differs'
        res.violation(sig, {'what': 'the sequence of operator calls of solve() differs from the specification model',
                            'detail': fd, 'seed': seed,
                            'replay_cmd': 'VERIF_SEED=%d VERIF_TIER=%s /verif/check %s' % (seed, tier, res.prop_id)})
        return
