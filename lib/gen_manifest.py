#!/usr/bin/env python3
"""Writes MANIFEST.json from the table below (kept in one place so it is always valid)."""
import json, os
V = os.path.dirname(os.path.dirname(os.path.abspath(__file__)))
ALL = ['C%02d' % i for i in range(1, 21)]

CHECKS = {
 'C17': dict(
   technique='Coq proof over Z (translator-generated index functions = spec; bijection, periodicity, split, coarsening by lia/induction) + exhaustive per-grid correspondence of every public PolarGrid query with the extracted model',
   text='Theorems in Properties_C17.v hold for every nr, ntheta (power of two or not), split and every integer angular offset; the '
        'index functions they are about are regenerated from polargrid.inl on every run (T1), and every public query of the real '
        'PolarGrid is compared with the extracted model on whole random grids (K-grid). Axiom-free.',
   note='Trusted: Coq kernel, translator T1, extraction (ExtrOcamlBasic), the harness; premise nr*ntheta < 2^31; std::lower_bound/std::div modelled.',
   design='5/C17'),
 'C14': dict(
   technique='Coq proof (induction over the dimension: three-sweep LDL^T = elimination law-free; A x = b over R; dominance => positive pivots; bit-identical repeated solves) + exact-rational correspondence of the real solver',
   text='For every dimension: the in-place LDL^T sweeps equal the recursive elimination operation for operation (any arithmetic), the '
        'elimination solves A x = b exactly when no pivot vanishes, strict dominance AND symmetric positive definiteness each make every pivot positive (so A x = b for every SPD system, C14_spd_solve_correct), and repeated solves '
        'are identical; the cyclic Sherman-Morrison solve returns the solution of the cyclic system for every n >= 2 when the modified matrix factorises '
        'and 1 + v.z != 0 (C14_cyclic_solve_correct), and both premises follow from positive definiteness of the cyclic matrix for every dimension (C14_spd_cyclic_solve_correct), which covers every row-wise strictly diagonally dominant cyclic matrix (C14_dominant_cyclic_is_spd). PARTIAL: floating-point backward stability is measured by the exact-rational correspondence '
        '(residual of the real result evaluated exactly), not proved.',
   note='Trusted: Coq kernel; R axioms sig_forall_dec, functional_extensionality_dep; hand model TridiagDefs.v tied by K-solve; extraction with ExtrOcamlBasic+ExtrOcamlZBigInt; parametricity between the R and Q instances.',
   design='5/C14'),
 'C15': dict(
   technique='Coq proof over translator-generated special-member transfer tables (completeness by computation, observational equality by induction) + lock-step operation histories on the real classes',
   text='T5 regenerates from the headers which member each of the 24 special member functions transfers; Coq proves that a complete '
        'table makes the target equal to the source for every source state and observation (any scalar type), and checks by '
        'computation that the current tables are complete and that copy-assignment re-allocation is guarded by every size '
        'variable. Random construct/solve/copy/move histories run on the real SymmetricTridiagonalSolver in lock step with the model.',
   note='Trusted: Coq kernel (axiom-free), translator T5, class size invariants written by hand in ObjectsDefs.v, unique_ptr/std::vector value semantics, extraction.',
   design='5/C15'),
 'C16': dict(
   technique='Coq proof of the finite-map semantics (storage order, stored zeros), of every elimination step as the dense row operation (law-free), of the LU identity A = (I+L)U and of the exactness of both substitution loops, hence A (solve b) = b, by induction over the rows + exact-rational correspondence of factorizeWithHashing/solveInPlace',
   text='Proved for all matrices (exact arithmetic; PARTIAL only with respect to floating-point rounding and finding F4): the hashed row container is a finite map (last stored value wins, absent = 0), so the matrix '
        'does not depend on the order of entries within a row nor on explicitly stored zeros; one elimination step is the dense row operation entry by entry in any arithmetic '
        '(fill-in on demand); with non-vanishing pivots the stored factors satisfy A = (I + L) U with U upper triangular, and the vector returned by the solve satisfies A x = b '
        '(C16_solve_correct: every matrix size, any storage order, exact arithmetic). Not a theorem: floating-point rounding -- the model is executed in exact rationals against the real '
        'solver on random patterns (unsorted, stored zeros, both CSR constructors, rows scaled over 20 orders of magnitude) and the residual of the real result is evaluated exactly, row-wise.',
   note='Trusted: Coq kernel (axiom-free), hand model SparseLUDefs.v, unordered_map modelled as finite map, extraction (ExtrOcamlBasic+ExtrOcamlZBigInt). Known finding F4 listed in known_findings.txt.',
   design='5/C16'),
 'C08': dict(
   technique='Coq proof that the optimised prolongation, the extrapolated prolongation and both loop nests of the optimised restriction regenerated from the source (translator T3) are the row models P, Pex, R, and Coq proof (1-D transposition lemmas + tensor-product factorisation; direct case analysis for the 7-point extrapolated pair; convexity; midpoint characterisation of linear reproduction; refutation witness F3) + complete per-grid matrix correspondence',
   text='For every odd nr >= 3 and ntheta = 2Mc (Mc >= 2) and all positive spacings: R is entrywise the transpose of P, Rex of Pex; '
        'P has non-negative weights summing to one; injection after (extrapolated) prolongation is the identity; P reproduces '
        'functions linear in r exactly where the fine node is the midpoint of its coarse neighbours (iff), and the unrestricted '
        'claim is refuted by a witness (F3, known finding). Every operator, optimised and reference, is extracted as a full '
        'matrix from the real code on random grid pairs and compared with the model rows in exact rationals.',
   note='Trusted: Coq kernel; R axioms (sig_forall_dec, functional_extensionality_dep); hand model InterpDefs.v tied by K-matrix; extraction ExtrOcamlBasic+ExtrOcamlZBigInt. Linear reproduction in theta follows the same 1-D algebra and is evaluated on the implementation only.',
   design='5/C08'),
 'C09': dict(
   technique='Coq proof that the FMG interpolation macro regenerated from the source (translator T3) is the row model FMG_row, and Coq proof (field identities: 4-point Lagrange weights exact for cubics for all spacings; FMG rows: coarse identity, constants, fall-back location, cubic exactness in r) + complete per-grid matrix correspondence of applyFMGInterpolation',
   text='Part (a), interpolation: proved for all positive spacings and all nr = 2M+1 (M >= 2). The real FMG matrix is extracted on random '
        'pairs and compared with the model rows. Part (b): the FMG start-up is the nested-iteration op sequence (exact op-trace correspondence of '
        'solve()), it reads only right-hand sides (theorem for every number of levels / cycle type / iteration count), and with two levels and '
        'no cycles it is copy, direct solve, FMG interpolation. Finding F8 repaired by a fix: commit.',
   note='Trusted: Coq kernel; R axioms; hand model InterpDefs.v tied by K-matrix; extraction. Cubic exactness in theta is local (periodic unwrapping) and evaluated through the same lag4 lemma.',
   design='5/C09'),
 'C03': dict(
   technique='Coq proof over the residual kernels regenerated from the macro bodies on every run (translator T3: generated take kernel = documented stencil row, generated give kernel = model scatter form, every write a -= into result) and over the model (per-row equality of the scattered give blocks and the gathered take row for all grid sizes, by block filtering + ring; Dirichlet rows; coefficient admissibility) + complete per-configuration matrix correspondence of ResidualGive/ResidualTake',
   text='For every nr >= 4, ntheta = 2Mc >= 4 with pi-periodic spacings, every coefficient array, both boundary modes and every vector: the '
        'row the give kernel accumulates equals the documented take row (all seven row classes incl. across the origin). The real '
        'ResidualGive (sequential and parallel path) and ResidualTake matrices are extracted on random grids x 4 geometries x 7 '
        'profiles x cache flags x 2 levels and compared with the model rows in exact rationals; cached vs fresh coarse coefficients '
        'are compared bitwise.',
   note='Trusted: Coq kernel; R axioms; translator T3 (macro bodies -> StencilGen.v; proved equal to the hand model StencilDefs.v in StencilTie.v and validated by the K-matrix); extraction; LevelCache plumbing (cached = recomputed) and the call sites of the macros are checked on the implementation, not proved.',
   design='5/C03'),
 'C04': dict(
   technique='Coq proof over both direct-solver assembly macros regenerated from the source (translator T3: the entries the take assembly stores = the residual operator row with distinct in-range slots; the entries the give assembly accumulates = the scatter block of the give residual), that both targets are one operator (C03), that the hash-map LU returns A x = b (C16) and that storage order is irrelevant + row-by-row correspondence of the assembled CSR matrices (guarded friend accessor) + residual-checked direct solves',
   text='PARTIAL. Theorems: the give-assembly and take-assembly targets are the same linear operator; the LU input does not depend on slot '
        'order. Checked on every run: every CSR row of both real direct solvers equals the model operator row (exact rationals), columns '
        'are distinct within rows, solveInPlace has zero residual (<= 1e-10 relative) under the independent residual operator for unit, '
        'random and huge-dynamic-range right-hand sides, and both strategies return the same solution.',
   note='Not proved: that no pivot of A vanishes, the slot bookkeeping of the give assembly, rounding. Hook H2 (friend access) used to read solver_matrix_. Translator T3 is validated by the K-matrix of the assembled CSR.',
   design='5/C04'),
 'C05': dict(
   technique='Coq proof over the bilinear form of the give kernel as regenerated from NODE_APPLY_A_GIVE (translator T3; gen_form = model form): per-node symmetry (ring), per-node non-negativity (weighted Cauchy-Schwarz + 2x2 discriminant), summed over any node list; discriminant identity 4 arr att - art^2 = alpha^2 + K-matrix correspondence',
   text='For every grid and coefficient array: <A x,y> = <x,A y> on vectors vanishing on Dirichlet nodes, and <A x,x> >= 0 under the '
        'inequalities proved for every invertible mapping, and <A x,x> > 0 for every such x that is non-zero on the grid when art^2 < 4 arr att (alpha > 0): strict definiteness for every grid size by induction from the outer boundary inwards, for the model and for the give kernel regenerated from the source. PARTIAL: across the origin non-negativity / definiteness is proved only for art(0,.)=0 (F9); the line blocks of the smoothers are handled with C06.',
   note='Trusted: Coq kernel; R axioms; model tied by the K-matrix of C03 (the matrices the theorems are about are the ones compared).',
   design='5/C05'),
 'C02': dict(
   technique='Coq proof of the discrete identities behind the order (rhs weight = mass weight, zero row sums of the diffusion part with the exact across-origin defect, Richardson algebra), with the four loop nests of discretize_rhs_f regenerated from the source (translator T3) and proved to scale every node exactly once by the model weight + operator and rhs correspondence',
   text='PARTIAL: the convergence order itself is asymptotic analysis and is not a theorem; listed as outside the technique in DESIGN.md section 8. '
        'The identities proved are about the same model rows that are compared with the real operator on every run.',
   note='Trusted: Coq kernel; R axioms; K-matrix of C03.',
   design='5/C02'),
 'C06': dict(
   technique='Coq proof that the A_sc_ortho kernels of the take smoother regenerated from the source (translator T3) compute the right-hand side of the block update of the model, and over a relational block Gauss-Seidel specification (induction over the block list: fixed point, zero residual on the last colour, Dirichlet data; colour independence of radial lines from the columns of A) + exact-rational K-affine correspondence of both real smoothers with per-block certification',
   text='For any operator with local rows, any block list, grid and data: a sweep fixes the exact solution (given unique line systems), leaves zero '
        'residual on every block of the colour updated last when same-colour blocks are independent, and gives Dirichlet nodes the data; for A '
        'the white radial lines are proved independent for every ntheta = 2Mc >= 4. SmootherGive and SmootherTake are compared sweep by sweep '
        '(unit iterates, unit right-hand sides, random pairs) with the model evaluated in exact rationals, each block update certified exactly.',
   note='Partial: line-system uniqueness is a premise; energy monotonicity not proved. Trusted: Coq kernel, R axioms for the A instance, hand model SmootherDefs.v tied by K-affine, extraction (ExtrOcamlBasic + ExtrOcamlZBigInt + our Z.gcd/Z.ggcd directives).',
   design='5/C06'),
 'C07': dict(
   technique='Coq proof (frame theorem for block Gauss-Seidel over any value type: nodes in no block are returned unchanged; the extrapolated blocks contain no coarse node) + exact-rational K-affine correspondence + bitwise comparison of coarse nodes on the implementation',
   text='The coarse-node invariance is a theorem for every grid size, operator and value type (no arithmetic law used, hence bit for bit); fixed point and '
        'zero fine-only residual on the last colour as in C06. Both real extrapolated smoothers are compared sweep by sweep with the model in exact '
        'rationals (certified block updates) and their outputs at (even, even) nodes are compared bitwise with the input.',
   note='Trusted: Coq kernel, hand model tied by K-affine, extraction. Block uniqueness is a premise of the fixed-point theorem.',
   design='5/C07'),
 'C10': dict(
   technique='Coq proof by induction on the number of levels over the op sequences of the six cycle functions (written-before-read, write sets) and over abstract linear operators (fixed point, two-level formula) + exact op-trace correspondence through guarded hooks',
   text='For every number of levels, smoothing counts and cycle type: a cycle started from the exact solution returns it; with smoothing off two levels '
        'give u + P A_c^{-1} R (f - A u); no cycle writes a right-hand side; a cycle reads no buffer except its iterate and right-hand side (and the '
        'level-1 right-hand side with extrapolation) before writing it. Every solve() of a configuration matrix is traced call by call with buffer '
        'identities and compared as an exact string with the model.',
   note='Trusted: Coq kernel (axiom-free), hand model CycleDefs.v tied by K-trace (hooks H1/H2), extraction. The value-level theorems assume the per-level operators are linear with the smoother fixed-point property proved in C06/C07.',
   design='5/C10'),
 'C01': dict(
   technique='Coq proof on the solver-loop model (a stop before the limit is the stop test applied to the returned iterate; footprint of the stop test; no cycle writes a right-hand side) + op-trace correspondence + independent recomputation of the tested residual',
   text='PARTIAL. Decided: whenever solve() stops early, the tested vector was just computed from the returned solution and the problem data, which no cycle '
        'modifies. Not a theorem: that the iteration contracts for every configuration (analytic convergence theory) -- the check searches the '
        'configuration set of C01 for a run that uses its whole budget and reports it as a violation if found.',
   note='Trusted: Coq kernel (axiom-free), K-trace, hooks. Independent residual recomputation uses fresh operators and caches on the implementation.',
   design='5/C01'),
 'C13': dict(
   technique='Coq proof (a whole solve reads only the right-hand sides before writing: induction over levels, FMG levels and iterations) + K-history: random (set options, setup, solve, solve) histories, last solve compared with the model started from the fresh entry state (exact trace) and with a fresh object (bitwise observations)',
   text='For every configuration: no vector left by an earlier solve can influence a later one. The object-level scalars are compared through histories; '
        'the defect found (F6) is repaired by a fix: commit.',
   note='Trusted: Coq kernel (axiom-free), K-trace/K-history, hooks.',
   design='5/C13'),
 'C20': dict(
   technique='Coq proof over translator-generated option tables (T8) and statistics facts, index-safety theorem for the operator rows + valgrind probes + option-matrix runs (ASan/UBSan sweep in the thorough tier)',
   text='PARTIAL. Proved: accepted option integers are exactly the enumerators, the command line lets through only those, take-without-caches and <2 levels '
        'are rejected, negative tolerances disable, every statistic is defined for every solve (locals initialised, getters guarded: regenerated '
        'facts), every column of an operator row is a grid node for all grid sizes. Searched, not proved: memory safety at large.',
   note='Trusted: Coq kernel, translator T8, valgrind/sanitizers only as failure search. F7 repaired by a fix: commit.',
   design='5/C20'),
 'C18': dict(
   technique='Coq proof that PolarGrid::checkParameters as regenerated from the source (translator T12) accepts only strictly increasing positive radii / angles from 0 to 2 pi with antipodal partners, and on a hand model of the grid constructor (window index arithmetic of the anisotropic division for every accepted parameter triple, exact-cover of the output, level-count soundness by induction, uniform / midpoint / bisection divisions over the reals) + K-gridgen correspondence through a guarded trace hook + ASan/UBSan sweep as failing-input search',
   text='PARTIAL. Proved for all parameters: every accepted (nr_exp, anisotropic_factor, floor(nr*percentage)) keeps all reads of the anisotropic division in bounds and its three output segments '
        'tile the result exactly; without the guard it does not (F5, repaired by a fix: commit); the level count setup reports is admitted by the grid (every coarsening step defined); '
        'uniform radii start at R0, end at Rmax, increase strictly; midpoint refinement and divideBy2 bisection keep order and ends, nest, and produce midpoints; angles are uniform and '
        'antipodally paired. Evaluated on the implementation in exact arithmetic, not proved: validity of the radii of anisotropic grids (the std::set of refined doubles is not modelled), '
        'the file round trip (iostream), absence of out-of-bounds accesses outside the modelled index arithmetic (sanitizer sweep). checkParameters (T12): every accepted pair of node vectors is strictly increasing, positive, starts at 0 and ends at 2 pi under the code\'s tolerance test and has antipodal partners; repeated or decreasing entries raise the exception (all vector lengths); invalid / valid node vectors are also run on the real constructor.',
   note='Trusted: Coq kernel (classical real-number axioms of the standard library through Reals), hand model tied by K-gridgen, guarded trace hook, extraction.',
   design='5/C18'),
 'C19': dict(
   technique='Coq proof over expressions regenerated from the C++ sources (translator T7) and over the selection table regenerated from selectTestCase (translator T11: all 128 option combinations, every accepted one selects the five classes of one (problem, profile, geometry) triple): a symbolic derivative proved correct against Coquelicot is_derive by induction over the expression language, Jacobian / gyro / boundary identities and the manufactured-solution identity by field arithmetic (plus one Interval bound) + K-inputfn validation of the translator against the compiled classes + numeric search for a failing point',
   text='PARTIAL. Proved for all points and parameters in the documented ranges: the four Jacobian functions of the circular, Shafranov and Czarny geometries are the partial derivatives of their mappings; '
        'the three gyro profiles have beta = 1/alpha (the Sonnendrucker alpha is positive on the domain), the non-gyro ones beta = 0; the 24 boundary functions are the exact solutions; for 15 source-term classes '
        '(circular geometry x {Poisson, Zoni, ZoniShifted, ZoniGyro, ZoniShiftedGyro} x {CartesianR2, CartesianR6, PolarR6}) rhs_f = -div(alpha grad u) + beta u of the shipped exact solution at every r > 0. '
        'Not theorems (compared numerically with the symbolically differentiated operator at sample points, reported as sampled): the 51 other non-Culham source terms (Sonnendrucker constants are 15-digit truncations, '
        'Shafranov / Czarny formulas are too large for field). Culham: nothing closed-form to check. Finding F11 (three Poisson x Czarny source terms are wrong) is recorded as known.',
   note='Trusted: Coq kernel, real-number axioms + classic (Coquelicot) + primitive floats/ints (Interval, one lemma), translator T7 (validated pointwise against the compiled classes on every run).',
   design='5/C19'),
 'C11': dict(
   technique='Coq proof of race freedom of eight task-parallel regions (translator T2: loop bounds, strides, nowait, bodies, private scratch) and of all 34 owner-computes regions (translator T2b: transfers, caches, rhs build, exact error, extrapolated residual, vector kernels; generic sufficient condition proved once) regenerated from the sources, for every grid size, with a concurrency relation that over-approximates every thread count and schedule + K-footprint validation of the task footprints by perturbation + model search and stress replay as failing-input search',
   text='PARTIAL. Proved for all nr, ntheta, numberSmootherCircles (ntheta even for the smoothers): in ResidualGive/Take::computeResidual, SmootherGive::smoothingForLoop, SmootherTake::smoothing and the two extrapolated smoothers no two '
        'iterations that can overlap (same omp for, or loops separated only by nowait) touch the same element of x, rhs, temp, the result vector, a line-solver object or the solver scratch unless both only read it. '
        'Finding F12 (race for ntheta % 4 == 2, found while stating the theorem) is repaired by a fix: commit. The direct-solver assembly regions (give, take) and the 34 owner-computes regions (grid transfers, injection, FMG interpolation, LevelCache constructors, build_rhs_f, discretize_rhs_f, computeExactError, extrapolatedResidual, vector kernels, Vector / COO copies) are proved race free as well (C11_owner_regions_race_free, stated over the whole regenerated list). '
        'Not covered: matrix assembly of the smoothers, the MUMPS-only paths, the unused task-based smoother variant; the OpenMP runtime itself (barriers) is assumed.',
   note='Trusted: Coq kernel (axiom-free theorems), translator T2, hand-written footprints validated by K-footprint on every run, the over-approximating concurrency model.',
   design='5/C11'),
 'C12': dict(
   technique='Coq proof (law-free): conflict-free tasks commute, the state after a phase is the same for every execution order and every interleaving of independent tasks, linked to the C11 race-freedom theorems of the regenerated regions; chunked reductions equal their sequential definition + K-repro correspondence of the vector kernels (exact) and observation of whole solves / transfers across thread counts',
   text='PARTIAL. Proved: for the residual and smoother regions (race free by C11) the result of every phase is independent of the execution order, hence of thread count and schedule, bit for bit (any value type, so also IEEE doubles); '
        'sum and max reductions equal their definition for every chunking and combination order (exact arithmetic); threads per level lie in [1, max]. Tied by correspondence: all nine vector kernels below, at and above the 10 000 threshold for 1..32 threads equal their exact definitions (inputs with exact partial sums). '
        'Observed on the implementation, not proved: run-to-run bitwise reproducibility and thread-count differences below 1e-9 relative for whole solves (incl. a grid above the threshold) and 1e-12 for the six transfer operators on a non-uniform 129 x 128 grid; rounding of re-associated floating-point reductions is modelled.',
   note='Trusted: Coq kernel (determinism theorems axiom-free; reduction theorems over the reals), translator T2 (premise), KernelDefs tied by K-repro, OpenMP static scheduling assumed.',
   design='5/C12'),
}
NA_REASON = 'check not built in this revision of /verif (design in DESIGN.md section 5/C12; the race-freedom theorems of C11 are its foundation); not claimed'

def main():
    checks = []
    for pid in ALL:
        if pid not in CHECKS:
            continue
        c = CHECKS[pid]
        checks.append({
            'property_id': pid,
            'quick_cmd': './check %s --tier quick' % pid,
            'thorough_cmd': './check %s --tier thorough' % pid,
            'evidence_file': 'evidence/%s.json' % pid,
            'replay_cmd_template': './check %s --replay {path}' % pid,
            'engine': 'coq-proof+correspondence',
            'level_claimed': {'category': 'proof', 'text': c['text'], 'design_ref': 'DESIGN.md section ' + c['design']},
            'level_note': c['note'],
            'technique': c['technique'],
        })
    man = {
        'version': 1,
        'setup_cmd': './setup.sh',
        'hooks': {
            'guard': 'GMGPOLAR_VERIF',
            'enable': 'harness/CMakeLists.txt compiles every source file of /repo with -DGMGPOLAR_VERIF into /verif/build/harness',
            'baseline_off_cmd': 'cmake -G Ninja -S /repo -B /repo/_build >/dev/null && cmake --build /repo/_build -j16 && ctest --test-dir /repo/_build -j8 --timeout 900',
            'source_commits': ['46aa74f', '7d725d3', '5c9095f'],
            'add_only': True,
        },
        'engines': [{'name': 'coq-proof+correspondence', 'path': 'check',
                     'serves_properties': sorted(CHECKS),
                     'kind_free_text': 'Coq 8.16.1 theorems over Gallina models (coq/theories), translators (translate/), '
                                       'C++ correspondence harness (harness/) against the extracted OCaml model (ocaml/)'}],
        'checks': checks,
        'notes': 'See DESIGN.md. known_findings.txt lists known/fixed findings.',
        'not_applicable': [{'property_id': p, 'reason': NA_REASON} for p in ALL if p not in CHECKS],
    }
    json.dump(man, open(os.path.join(V, 'MANIFEST.json'), 'w'), indent=1)

if __name__ == '__main__':
    main()
