#!/usr/bin/env python3
"""Writes MANIFEST.json from the table below (kept in one place so it is always valid)."""
import json, os
V = os.path.dirname(os.path.dirname(os.path.abspath(__file__)))
ALL = ['C%02d' % i for i in range(1, 21)]

CHECKS = {
 'C17': dict(
   technique='Coq proof over Z (translator-generated index functions = spec; bijection, periodicity, split, coarsening by lia/induction) + exhaustive per-grid correspondence of every public PolarGrid query with the extracted model',
   text='Theorems in Properties_C17.v hold for every nr, ntheta (power of two or not), split and every integer angular offset; the '
        'index functions they are about are regenerated from polargrid.inl on every run (T1), and every public query of the real '
        'PolarGrid is compared with the extracted model on whole random grids (K-grid). Axiom-free.',
   note='Trusted: Coq kernel, translator T1, extraction (ExtrOcamlBasic), the harness; premise nr*ntheta < 2^31; std::lower_bound/std::div modelled.',
   design='5/C17'),
}
NA_REASON = 'check not built yet in this revision of /verif (design in DESIGN.md section 5); not claimed'

def main():
    checks = []
    for pid in ALL:
        if pid not in CHECKS:
            continue
        c = CHECKS[pid]
        checks.append({
            'property_id': pid,
            'quick_cmd': './check %s --tier quick' % pid,
            'thorough_cmd': './check %s --tier thorough' % pid,
            'evidence_file': 'evidence/%s.json' % pid,
            'replay_cmd_template': './check %s --replay {path}' % pid,
            'engine': 'coq-proof+correspondence',
            'level_claimed': {'category': 'proof', 'text': c['text'], 'design_ref': 'DESIGN.md section ' + c['design']},
            'level_note': c['note'],
            'technique': c['technique'],
        })
    man = {
        'version': 1,
        'setup_cmd': './setup.sh',
        'hooks': {
            'guard': 'GMGPOLAR_VERIF',
            'enable': 'harness/CMakeLists.txt compiles every source file of /repo with -DGMGPOLAR_VERIF into /verif/build/harness',
            'baseline_off_cmd': 'cmake -G Ninja -S /repo -B /repo/_build >/dev/null && cmake --build /repo/_build -j16 && ctest --test-dir /repo/_build -j8 --timeout 900',
            'source_commits': [],
            'add_only': True,
        },
        'engines': [{'name': 'coq-proof+correspondence', 'path': 'check',
                     'serves_properties': sorted(CHECKS),
                     'kind_free_text': 'Coq 8.16.1 theorems over Gallina models (coq/theories), translators (translate/), '
                                       'C++ correspondence harness (harness/) against the extracted OCaml model (ocaml/)'}],
        'checks': checks,
        'notes': 'See DESIGN.md. known_findings.txt lists known/fixed findings.',
        'not_applicable': [{'property_id': p, 'reason': NA_REASON} for p in ALL if p not in CHECKS],
    }
    json.dump(man, open(os.path.join(V, 'MANIFEST.json'), 'w'), indent=1)

if __name__ == '__main__':
    main()
