"""C09 -- FMG: exact high-order interpolation, nested iteration from the coarsest level."""
import common as C
import interp_common as I


def run(res, tier, seed):
    res.trusted_base += [
        'hand-written model of FINE_NODE_FMG_INTERPOLATION (coq/theories/InterpDefs.v: Fr_row, Ft_row, lag4) tied by K-matrix '
        'of Interpolation::applyFMGInterpolation (harness/h_interp.cpp) against the extracted model in exact rationals',
        'axioms under the R theorems: ClassicalDedekindReals.sig_forall_dec, ClassicalDedekindReals.sig_not_dec, '
        'FunctionalExtensionality.functional_extensionality_dep',
    ]
    res.assumptions += [
        'coarse spacings in the model are sums of two fine spacings (the code subtracts coarse coordinates): equal up to rounding',
    ]
    for n, ok, msg in C.run_translators(['t3_stencil']):
        res.obligation('translator:' + n, ok, msg[-300:])
        if not ok:
            res.fail('translator:' + n, msg)
    cr = C.coq_build('C09')
    res.add_coq(cr)
    out = I.run_correspondence(res, tier, seed, ('FMG',))
    if out:
        impl, dis = out
        pairs = I.parse_rows(impl)
        viol = None
        n = {'rowsum': 0, 'coarse_identity': 0, 'cubic_r': 0}
        for p in pairs:
            F = p['ops'].get('FMG')
            if not F:
                continue
            rad = p['radii']
            nr = p['nr']
            for t, row in F.items():
                n['rowsum'] += 1
                if abs(sum(row.values()) - 1.0) > 1e-12 and not viol:
                    viol = ('fmg-constants', {'what': 'FMG row does not sum to one', 'fine': t, 'row': str(row), 'grid': p['grid'][:1500]})
                if t[0] % 2 == 0 and t[1] % 2 == 0:
                    n['coarse_identity'] += 1
                    if row != {(t[0] // 2, t[1] // 2): 1.0} and not viol:
                        viol = ('fmg-coarse-identity', {'fine': t, 'row': str(row), 'grid': p['grid'][:1500]})
                if 2 <= t[0] <= nr - 3 and t[1] % 2 == 0:
                    # cubic in r (theta-even nodes: purely radial rows)
                    n['cubic_r'] += 1
                    for deg in (1, 2, 3):
                        val = sum(w * rad[2 * s[0]] ** deg for s, w in row.items())
                        if abs(val - rad[t[0]] ** deg) > 1e-9 * max(1.0, rad[-1] ** deg) and not viol:
                            viol = ('fmg-cubic-in-r', {'what': 'r^%d not reproduced at a radially interior node' % deg, 'fine': t,
                                                       'value': val, 'exact': rad[t[0]] ** deg, 'grid': p['grid'][:1500]})
        res.coverage['direct_property_evaluations'] = n
        if viol:
            res.violation(viol[0], dict(viol[1], seed=seed))
        elif dis:
            I.first_row_violation(res, dis, 'fmg-matrix-differs',
                                  'applyFMGInterpolation differs from the model the C09 theorems are about', seed, tier)
    import p_C09b
    p_C09b.run(res, tier, seed)
