"""C16 -- sparse LU solves every system with non-vanishing pivots, in any storage order."""
import common as C
import linalg_common as L


def run(res, tier, seed):
    res.trusted_base += [
        'hand-written model coq/theories/SparseLUDefs.v (row maps as association lists, factorizeWithHashing, '
        'forward/backward substitution, both CSR constructors) tied by K-solve: harness/h_linalg.cpp (lu) vs the '
        'extracted model in exact rationals (ExtrOcamlBasic + ExtrOcamlZBigInt)',
        'std::unordered_map modelled as a finite map (iteration order irrelevant by construction in the model; '
        'shuffled storage orders are exercised in the implementation)',
    ]
    res.assumptions += [
        'PARTIAL: only the finite-map / storage-order / stored-zero theorems are proved; (I+L)U = A and '
        'A(solve b) = b are NOT theorems here -- they are checked per case by the exact residual of the real result '
        'and by agreement with the exact model solve',
        'floating-point accuracy is measured (backward error <= n*256*eps), not proved',
    ]
    cr = C.coq_build('C16')
    res.add_coq(cr)
    out = L.correspond(res, 'lu', tier, seed, 'K-solve(sparse LU)', ('LUT', 'LUA'))
    if out:
        dis, lines, model = out
        for d in dis:
            if d.get('kind') == 'value' and d['query'].startswith('PROP'):
                res.violation('lu-solve-scaling', {'what': d['query'] + ' => ' + d['impl'], 'seed': seed,
                                                   'replay_cmd': 'VERIF_SEED=%d VERIF_TIER=%s build/harness/h_linalg lu' % (seed, tier)})
                break
            if d.get('kind') == 'value':
                res.violation('lu-solve-residual', {
                    'what': 'SparseLUSolver::solveInPlace result violates A x = b (exact residual) or differs from '
                            'the exact model solve', 'system': d['query'], 'x_impl': d['impl'],
                    'verdict': d['model'], 'seed': seed})
                break
        mp = [float(l.split('minpivot=')[1].split()[0]) for l in model.split('\n') if 'minpivot=' in l]
        res.coverage['smallest_pivot_seen'] = min(mp) if mp else None
    L.probe(res, ['probe_lu_tiny'], 'lu-absolute-pivot-threshold',
            'strictly dominant 1e-13*[[4,-1],[-1,4]] (pivots do not vanish) is rejected: solveInPlace prints '
            '"Zero diagonal encountered" and exits the process (absolute test |U_ii| < 1e-12)')
