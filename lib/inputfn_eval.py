"""Numeric side of C19: floating-point evaluation of the expressions T7 extracted, the same symbolic derivative as
InputFnDefs.D and the same reified operator InputFnDefs.pde (mirrors, used only to validate the translator against the
compiled classes and to search for a failing point -- never in place of a theorem)."""
import math
import sys

sys.setrecursionlimit(200000)

E0, E1, E2 = ('cst', 0, 1), ('cst', 1, 1), ('cst', 2, 1)


def T(e):
    """json lists -> tuples"""
    return tuple(T(x) if isinstance(x, list) else x for x in e)


def ev(e, env, memo=None):
    if memo is None:
        memo = {}
    k = id(e)
    if k in memo:
        return memo[k]
    t = e[0]
    if t == 'var':
        v = env[e[1]]
    elif t == 'cst':
        v = e[1] / e[2]
    elif t == 'pi':
        v = math.pi
    elif t == 'add':
        v = ev(e[1], env, memo) + ev(e[2], env, memo)
    elif t == 'sub':
        v = ev(e[1], env, memo) - ev(e[2], env, memo)
    elif t == 'mul':
        v = ev(e[1], env, memo) * ev(e[2], env, memo)
    elif t == 'div':
        v = ev(e[1], env, memo) / ev(e[2], env, memo)
    elif t == 'neg':
        v = -ev(e[1], env, memo)
    elif t == 'pow':
        v = math.pow(ev(e[1], env, memo), float(e[2]))
    elif t == 'sin':
        v = math.sin(ev(e[1], env, memo))
    elif t == 'cos':
        v = math.cos(ev(e[1], env, memo))
    elif t == 'exp':
        v = math.exp(ev(e[1], env, memo))
    elif t == 'tanh':
        v = math.tanh(ev(e[1], env, memo))
    elif t == 'sqrt':
        v = math.sqrt(ev(e[1], env, memo))
    elif t == 'atan':
        v = math.atan(ev(e[1], env, memo))
    else:
        raise ValueError(t)
    memo[k] = v
    return v


def D(i, e, memo=None):
    if memo is None:
        memo = {}
    k = (i, id(e))
    if k in memo:
        return memo[k]
    t = e[0]
    if t == 'var':
        r = E1 if e[1] == i else E0
    elif t in ('cst', 'pi'):
        r = E0
    elif t in ('add', 'sub'):
        r = (t, D(i, e[1], memo), D(i, e[2], memo))
    elif t == 'mul':
        r = ('add', ('mul', D(i, e[1], memo), e[2]), ('mul', e[1], D(i, e[2], memo)))
    elif t == 'div':
        r = ('div', ('sub', ('mul', D(i, e[1], memo), e[2]), ('mul', e[1], D(i, e[2], memo))), ('pow', e[2], 2))
    elif t == 'neg':
        r = ('neg', D(i, e[1], memo))
    elif t == 'pow':
        r = ('mul', ('mul', ('cst', e[2], 1), D(i, e[1], memo)), ('pow', e[1], max(e[2] - 1, 0)))
    elif t == 'sin':
        r = ('mul', D(i, e[1], memo), ('cos', e[1]))
    elif t == 'cos':
        r = ('mul', D(i, e[1], memo), ('neg', ('sin', e[1])))
    elif t == 'exp':
        r = ('mul', D(i, e[1], memo), ('exp', e[1]))
    elif t == 'tanh':
        r = ('mul', D(i, e[1], memo), ('sub', E1, ('pow', ('tanh', e[1]), 2)))
    elif t == 'sqrt':
        r = ('div', D(i, e[1], memo), ('mul', E2, ('sqrt', e[1])))
    elif t == 'atan':
        r = ('div', D(i, e[1], memo), ('add', E1, ('pow', e[1], 2)))
    else:
        raise ValueError(t)
    memo[k] = r
    return r


def pde(Fx, Fy, alpha, beta, u):
    Jrr, Jrt, Jtr, Jtt = D(0, Fx), D(1, Fx), D(0, Fy), D(1, Fy)
    det = ('sub', ('mul', Jrr, Jtt), ('mul', Jrt, Jtr))
    arr = ('add', ('pow', Jrr, 2), ('pow', Jtr, 2))
    art = ('add', ('mul', Jrr, Jrt), ('mul', Jtr, Jtt))
    att = ('add', ('pow', Jrt, 2), ('pow', Jtt, 2))
    ur, ut = D(0, u), D(1, u)
    fr = ('div', ('mul', alpha, ('sub', ('mul', att, ur), ('mul', art, ut))), det)
    ft = ('div', ('mul', alpha, ('sub', ('mul', arr, ut), ('mul', art, ur))), det)
    return ('add', ('neg', ('div', ('add', D(0, fr), D(1, ft)), det)), ('mul', beta, u))
