"""C03 -- one discrete operator: give, take, cached, uncached, any level agree."""
import common as C
import operator_common as O


def run(res, tier, seed):
    res.trusted_base += [
        'translator T3 (translate/t3_stencil.py): regenerates coq/gen/StencilGen.v from the bodies of NODE_APPLY_RESIDUAL_TAKE and '
        'NODE_APPLY_A_GIVE on every run (branch conditions, local declarations, every write with target node, kind and value '
        'expression); StencilTie.v proves the generated kernels equal to the model the other theorems are about; the translator '
        'itself is validated by the K-matrix correspondence (the same model against the compiled kernels)',
        'hand-written model coq/theories/StencilDefs.v (A_take_row from NODE_APPLY_RESIDUAL_TAKE, A_give from NODE_APPLY_A_GIVE) '
        'tied by K-matrix: harness/h_operator.cpp extracts the full matrices of ResidualGive (1 thread and 3 threads) and '
        'ResidualTake on random grids x {circular, shafranov, czarny, synthetic non-orthogonal} x 7 profiles x boundary mode x '
        'cache flags x two levels; extracted model in exact rationals (ExtrOcamlBasic + ExtrOcamlZBigInt)',
        'axioms under the R theorems: ClassicalDedekindReals.sig_forall_dec, sig_not_dec, FunctionalExtensionality.functional_extensionality_dep',
    ]
    res.assumptions += [
        'theorem premises: nr >= 4, ntheta = 2*Mc with Mc >= 2, pi-periodic angular spacings (antipodal test of checkParameters)',
        'cached = uncached and coarse cache = fresh evaluation are checked on the implementation (bitwise), not proved: they are '
        'statements about LevelCache plumbing; the coefficient values enter the model as data',
    ]
    for n, ok, msg in C.run_translators(['t3_stencil']):
        res.obligation('translator:' + n, ok, msg[-300:])
        if not ok:
            res.fail('translator:' + n, msg)
    cr = C.coq_build('C03')
    res.add_coq(cr)
    out = O.run(res, tier, seed, 'residual', ('give1', 'giveN', 'take'))
    if not out:
        return
    impl, dis, levels = out
    viol = None
    n = {'give_vs_take_rows': 0, 'dirichlet_rows': 0, 'coarse_cache': 0}
    for l in levels:
        ops = l['ops']
        for a, b in (('give1', 'take'), ('giveN', 'take'), ('give1', 'giveN')):
            if a in ops and b in ops:
                for p, row in ops[a].items():
                    n['give_vs_take_rows'] += 1
                    rb = ops[b].get(p, {})
                    scale = sum(abs(v) for v in row.values()) or 1.0
                    bad = [q for q in set(row) | set(rb) if abs(row.get(q, 0.0) - rb.get(q, 0.0)) > 1e-10 * scale]
                    if bad and not viol:
                        viol = ('give-differs-from-take', {'what': '%s and %s apply different rows' % (a, b), 'row': p, 'columns': bad[:6],
                                                           a: str(row)[:600], b: str(rb)[:600], 'config': l['header'], 'grid': l['grid']})
        for op, rows in ops.items():
            for p, row in rows.items():
                if O.is_dirichlet(l, p):
                    n['dirichlet_rows'] += 1
                    if row != {p: 1.0} and not viol:
                        viol = ('dirichlet-row-not-identity', {'operator': op, 'row': p, 'entries': str(row)[:400], 'config': l['header'], 'grid': l['grid']})
    for l, p in O.failing_props(levels):
        if not viol:
            viol = ('coarse-cache-not-fresh', {'what': p, 'config': l['header'], 'grid': l['grid']})
    n['coarse_cache'] = sum(1 for l in levels for p in l['props'] if 'coarse-cache' in p)
    res.coverage['direct_property_evaluations'] = n
    if viol:
        res.violation(viol[0], dict(viol[1], seed=seed))
    elif dis:
        O.first_row_violation(res, dis, 'operator-row-differs',
                              'a residual kernel applies a row that differs from the documented stencil of the model '
                              '(give and take still agree with each other)', seed, tier)
