"""C15 -- copies and moves of linear-algebra objects behave like the original."""
import common as C
import linalg_common as L


def run(res, tier, seed):
    res.trusted_base += [
        'translator T5 (translate/t5_special_members.py): which data member each special member function of the six '
        'classes copies / moves / resets, with allocation and copy lengths, regenerated from the headers',
        'K-history: harness/h_linalg.cpp (objects) runs random construct/solve/copy/move histories on the real '
        'SymmetricTridiagonalSolver in lock step with the extracted model (whose special members are driven by the '
        'generated tables); the other five classes are observed directly',
    ]
    res.assumptions += [
        'modelled, not verified: unique_ptr / std::vector value semantics (deep copy, null after move), heap behaviour',
        'self-move-assignment is outside the model',
    ]
    tr = C.run_translators(['t5_special_members'])
    for n, ok, msg in tr:
        res.obligation('translator:' + n, ok, msg[-300:])
        if not ok:
            res.fail('translator:' + n, msg)
    cr = C.coq_build('C15')
    res.add_coq(cr)
    out = L.correspond(res, 'objects', tier, seed, 'K-history', ('T', 'PROP'))
    if out:
        dis, lines, model = out
        for d in dis:
            if d.get('kind') != 'value':
                continue
            q = d['query']
            if q.startswith('PROP'):
                hist, cur = [], []
                for l in lines:
                    if l.startswith('T default 0'):
                        cur = []
                    cur.append(l[:300])
                    if l.startswith(q):
                        hist = list(cur)
                        break
                res.violation('copy-does-not-solve-source-system:' + q.split()[1], {
                    'what': 'evaluated on the implementation alone: after the copy / move the target solves a rhs, and the '
                            'exact residual against the matrix the SOURCE was filled with is not small', 'verdict': d['impl'],
                    'history': hist[-14:], 'seed': seed,
                    'replay_cmd': 'VERIF_SEED=%d VERIF_TIER=%s build/harness/h_linalg objects' % (seed, tier)})
                break
            # reconstruct the history up to the failing line as the replay
            hist, cur = [], []
            for l in lines:
                if l.startswith('T default 0'):
                    cur = []
                cur.append(l.split(' => ')[0])
                if l.startswith(q):
                    hist = list(cur)
                    break
            res.violation('object-history:' + ' '.join(q.split()[:2]), {
                'what': 'after this operation history the real object is not observationally equal to the value the '
                        'source had (model = value semantics)', 'failing_op': q, 'impl_observation': d['impl'],
                'model_observation': d['model'], 'history': hist[-14:], 'seed': seed})
            break
    for w in (0, 1, 2, 3):
        L.probe(res, ['probe_tri_copy_after_solve', str(w)], 'tridiag-copy-after-solve',
                'SymmetricTridiagonalSolver copied/moved after its first solve re-factorises the factor: '
                'tridiag(-1,4,-1), n=4, b=(1,2,3,4) gives a different solution than the original')
    for w in (0, 1, 2):
        L.probe(res, ['probe_tri_copy_default', str(w)], 'tridiag-copy-of-default',
                'copy-constructing / copy-assigning from a default-constructed SymmetricTridiagonalSolver '
                'evaluates make_unique<T[]>(-1) (std::bad_array_new_length)')
