"""C06 -- smoothing is an exact zebra line relaxation of the same operator."""
import common as C
import smoother_common as S


def run(res, tier, seed):
    res.trusted_base += [
        'translator T3 (translate/t3_stencil.py): the two A_sc_ortho macros of the take smoother regenerated into gen/StencilGen.v; '
        'StencilTieSmoother.v proves that they compute the right-hand side of the model block update (off-line couplings of A, symmetry shift); '
        'the give smoother and the line-matrix assembly are tied by the K-affine correspondence only',
        'hand-written model coq/theories/SmootherDefs.v (block Gauss-Seidel over whole lines in the order black circles, white '
        'circles, black radial lines, white radial lines; rows of A from StencilDefs.A_take_row) tied by K-affine: harness/'
        'h_smoother.cpp extracts the linear map (x,f) -> x\' of SmootherGive and SmootherTake; the extracted model runs in exact '
        'rationals and every block update is certified (exact zero residual on the block), so the sparse-LU used inside the model '
        'is not trusted',
        'axioms: C06_zebra_* over R use ClassicalDedekindReals.sig_forall_dec, sig_not_dec, functional_extensionality_dep; the '
        'generic theorems are closed under the global context',
    ]
    res.assumptions += [
        'PARTIAL: uniqueness of each line system is a premise of the fixed-point theorem (follows from C05 positive definiteness, '
        'which is partial); energy monotonicity of a sweep is not proved',
        'theorem premises for the colour independence: ntheta = 2*Mc with Mc >= 2, at least one circle',
    ]
    for n, ok, msg in C.run_translators(['t3_stencil']):
        res.obligation('translator:' + n, ok, msg[-300:])
        if not ok:
            res.fail('translator:' + n, msg)
    cr = C.coq_build('C06')
    res.add_coq(cr)
    out = S.run(res, tier, seed, 'smoother')
    if out:
        impl, dis, levels = out
        S.report(res, dis, levels, 'smoother', seed, tier)
