"""C17 -- grid node numbering is a bijection consistent with geometry and periodicity."""
import common as C

TOL = {'D': (4e-16, 0.0)}   # spacings: the model is exact, the code rounds one subtraction


def run(res, tier, seed):
    res.trusted_base += [
        'translator T1 (translate/t1_gridindex.py): renders wrapThetaIndex/index/fastIndex/multiIndex and the '
        'power-of-two flag of polargrid.inl/.cpp as Z terms (% = Z.rem, / = Z.quot, & = Z.land)',
        'correspondence K-grid (harness/h_grid.cpp + extracted model via ocaml/driver.ml, ExtrOcamlBasic only)',
        'machine-integer premise: nr*ntheta < 2^31 (int does not wrap); two\'s complement & agrees with Z.land',
    ]
    res.assumptions += [
        'modelled, not verified: std::lower_bound and std::div (modelled by count_lt and Z.quot/Z.rem); '
        'the floating-point test of the automatic split enters the model as a boolean oracle',
    ]
    tr = C.run_translators(['t1_gridindex'])
    for n, ok, msg in tr:
        res.obligation('translator:' + n, ok, msg[-300:])
        if not ok:
            res.fail('translator:' + n, msg)
    cr = C.coq_build('C17')
    res.add_coq(cr)

    ok, msg = C.build_model_driver()
    if not ok:
        res.fail('model-extraction', msg)
    okh, msgh = C.build_harness(['h_grid'])
    if not okh:
        res.fail('harness-build', msgh)
    if ok and okh:
        rc, impl, err = C.run_harness('h_grid', env={'VERIF_SEED': seed, 'VERIF_TIER': tier})
        if rc != 0:
            res.fail('harness-run', 'h_grid exit %s: %s' % (rc, err[-1500:]))
            # an abort inside PolarGrid on an accepted input is itself a failing input
            last = [l for l in impl.split('\n') if l.startswith('# case')][-1:]
            res.violation('grid-query-aborts', {'what': 'PolarGrid aborted (assertion / crash) on an accepted grid',
                                                'case': last, 'stderr': err[-800:], 'seed': seed,
                                                'replay_cmd': 'VERIF_SEED=%d build/harness/h_grid' % seed})
        rcm, model, errm = C.run_model('grid', impl)
        if rcm != 0:
            res.fail('model-run', errm[-1000:])
        n, dis, counts = C.compare_lines(impl, model, TOL, context_tags=('G', 'R', 'A'))
        res.coverage.update({'evaluations': n, 'queries_by_kind': counts,
                             'distinct_nontrivial': counts.get('G', 0),
                             'rule': 'one evaluation = one public PolarGrid query compared with the Coq model; '
                                     'distinct_nontrivial = number of distinct grids (G lines: random radii/angles, '
                                     'nr 2..13(19), ntheta in {2..64} power of two or not, 7 split modes, coarsening chains)',
                             'traces_validated_against_impl': n,
                             'disagreements': len(dis)})
        lines = [l for l in impl.split('\n') if l and not l.startswith('#')]
        res.samples += lines[2:3] + [l for l in lines if l.startswith(('I ', 'M ', 'SE', 'SA', 'N '))][:6]
        if dis:
            res.fail('K-grid', dis[:5])
            d = dis[0]
            # the disagreement IS a concrete input on which the implementation departs from the
            # specification the C17 theorems are about (bijection/periodicity hold for the spec)
            res.violation('grid-query-differs:' + d.get('query', d['kind']).split(' ')[0],
                          {'what': 'PolarGrid query differs from the specification proved bijective/periodic',
                           'first_disagreement': d, 'n_disagreements': len(dis), 'seed': seed,
                           'replay_cmd': 'VERIF_SEED=%d VERIF_TIER=%s /verif/check C17' % (seed, tier)})
    # finding probe: automatic split on the smallest accepted radii vector
    if okh:
        rc, out, err = C.run_harness('h_grid', args=['probe_auto_nr2'])
        if rc != 0:
            res.violation('auto-split-nr2-oob',
                          {'what': 'PolarGrid({r0,r1}, angles) with the automatic split reads radii_[2] '
                                   '(initializeLineSplitting: radius(number_smoother_circles_) with nsc = nr = 2)',
                           'exit': rc, 'stderr': err[-600:], 'replay_cmd': 'build/harness/h_grid probe_auto_nr2'})
        res.coverage['probe_auto_nr2'] = 'ok' if rc == 0 else 'fails (exit %s)' % rc
