"""C11 -- no data race in any parallel region, for any thread count or schedule (residual and smoother regions)."""
import common as C

REGIONS = ['residual_give', 'residual_take', 'direct_give_assembly', 'direct_take_assembly', 'smoother_give', 'smoother_take', 'ext_smoother_give', 'ext_smoother_take']
# small grid shapes covering the classes the colour phases depend on (nsc mod 2,3,4; ntheta mod 3 and 4; minimal sizes)
SEARCH_DIMS = [(nsc + 3, nt, nsc) for nt in (4, 6, 8, 10, 12, 14, 16) for nsc in (1, 2, 3, 4, 5, 6, 7)]
STRESS = [('201', '6', '3', '2'), ('150', '10', '4', '4'), ('121', '8', '5', '3'), ('101', '12', '6', '5'), ('9', '8', '3', '16'), ('161', '16', '2', '7')]


def owner_search(res, cr):
    """model-side search over the regenerated owner-computes regions (runs always; it is what names the clashing iterations
    when C11_owner_regions_race_free no longer proves)"""
    import os, re
    rc, out, _ = C.sh('timeout 300 make -k gen/ParOwnerGen.vo theories/ParOwnerDefs.vo', cwd=C.COQ, timeout=330)
    if rc != 0:
        res.coverage['owner_race_search'] = 'generated file does not compile (translator rejected the source)'
        return
    os.makedirs(C.WORK, exist_ok=True)
    f = os.path.join(C.WORK, 'OwnerSearch.v')
    dims = [(9, 8, 5), (5, 4, 2), (7, 6, 3), (13, 12, 1)]
    with open(f, 'w') as h:
        h.write('From Coq Require Import List ZArith String.\nFrom GMGP Require Import ParDefs ParOwnerDefs.\nFrom GMGPGen Require Import ParOwnerGen.\n'
                'Import ListNotations.\nLocal Open Scope Z_scope.\n')
        for nr, nt, nsc in dims:
            h.write('Eval vm_compute in (("DIMS"%%string, %d, %d, %d), map (fun r => (fst r, owner_find_race (snd r) (mkDims %d %d %d))) gen_owner_regions).\n'
                    % (nr, nt, nsc, nr, nt, nsc))
    rc, out, _ = C.sh('timeout 120 coqc -Q theories GMGP -Q gen GMGPGen %s' % f, cwd=C.COQ, timeout=150)
    flat = ' '.join(out.split())
    regions = len(re.findall(r'\("[^"]+:\d+"%string, ', flat)) // max(1, len(dims))
    hits = re.findall(r'\("([^"]+:\d+)"%string, Some \("([^"]+)"%string, (-?\d+), (-?\d+)\)\)', flat)
    res.coverage['owner_race_search'] = {'regions': regions, 'grids': dims, 'clashes': len(hits)}
    for where, arr, o1, o2 in hits[:2]:
        res.violation('owner-race:%s:%s' % (where.split(':')[0], arr), {
            'what': 'two iterations of a work-shared loop (or of two loops with only nowait between them) that may run concurrently write the same '
                    'element / shared scalar, or one writes what the other reads', 'region': where, 'array_or_scalar': arr,
            'outer_iterations': [int(o1), int(o2)], 'model': 'ParOwnerDefs.owner_find_race on the regenerated region (gen/ParOwnerGen.v)',
            'how_to_observe': 'run the operator with 2+ threads on a grid with more than 10 000 nodes and compare with the 1-thread result '
                              '(build/harness/h_interp threads; build/harness/h_repro kernels)'})


def run(res, tier, seed):
    res.trusted_base += [
        'translator T2b (translate/t2b_owner_loops.py): every `#pragma omp parallel` construct of src/Interpolation/*.cpp, levelCache.cpp, build_rhs_f.cpp, '
        'solver.cpp, vector_operations.h, vector.h, coo_matrix.h (34 regions) as ParOwnerDefs.oloop records: nowait, ranges, every write to memory not '
        'declared inside the loop body with the loop variables its index uses, shared scalars, arrays read at foreign indices; macros of the same file '
        'expanded textually; callees are assumed to write only through the arguments they are given',
        'translator T2 (translate/t2_regions.py): loop bounds, strides, nowait clauses, loop bodies and the placement of the scratch-vector '
        'declarations of eight work-sharing regions (residual give/take, direct-solver assembly give/take, four smoothers), regenerated as ParDefs.phase lists',
        'hand-written footprints of the task functions (ParDefs.footprint, boxes of (array, i_r, i_theta) cells), validated by K-footprint: '
        'harness/h_footprint.cpp measures by perturbation what each real task function reads and writes and the extracted model checks containment',
        'the concurrency relation of the model: any two iterations of one omp for, and any two iterations of loops with only nowait between them, '
        'may overlap -- this over-approximates every thread count and every static / dynamic schedule',
    ]
    res.assumptions += [
        'modelled, not verified: the OpenMP runtime implements the implicit barriers; accesses inside the per-line solver objects and the STL are as '
        'hand-modelled (one solver object per line); regions not translated (smoother matrix assembly, the MUMPS-only '
        'symmetry shift, the task-based smoother variant that the library does not call) are outside this check; for the owner-computes regions the '
        'footprints come from the syntax of the loop bodies (T2b), not from measurement',
        'perturbation cannot see a write that stores the value already present, nor accesses to thread-private scratch',
    ]
    tr = C.run_translators(['t2_regions', 't2b_owner_loops'])
    for n, ok, msg in tr:
        res.obligation('translator:' + n, ok, msg[-300:])
        if not ok:
            res.fail('translator:' + n, msg)
    cr = C.coq_build('C11', timeout=3000)
    res.add_coq(cr)
    owner_search(res, cr)
    okm, msgm = C.build_model_driver()
    if not okm:
        res.fail('model-extraction', msgm)
    okh, msgh = C.build_harness(['h_footprint'])
    if not okh:
        res.fail('harness-build', msgh)
    if okm and okh:
        # ---- K-footprint ----
        rc, impl, err = C.run_harness('h_footprint', env={'VERIF_SEED': seed, 'VERIF_TIER': tier})
        if rc != 0:
            res.fail('harness-run', 'h_footprint exit %s: %s' % (rc, err[-600:]))
        rcm, model, errm = C.run_model('par', impl)
        if rcm != 0:
            res.fail('model-run', errm[-800:])
        n, dis, counts = C.compare_lines(impl, model, {})
        res.coverage.update({'evaluations': n, 'traces_validated_against_impl': n, 'disagreements': len(dis), 'lines_by_kind': counts,
                             'distinct_nontrivial': counts.get('FP', 0)})
        res.samples += [l[:240] for l in impl.split('\n') if l.startswith('FP')][:2]
        if dis:
            res.fail('K-footprint', [{k: (v[:300] if isinstance(v, str) else v) for k, v in d.items() if k != 'context'} for d in dis[:3]])
    if okm:
        # ---- search of the model for a racing pair on every shape class (fast; the only thing that runs when a proof breaks) ----
        q = '\n'.join('RACE %s %d %d %d => none' % (r, nr, nt, nsc) for r in REGIONS for (nr, nt, nsc) in SEARCH_DIMS
                      if not (r.startswith('ext_') and nt % 4 != 0)) + '\n'
        rcm, out, errm = C.run_model('par', q)
        found = [l for l in out.split('\n') if ' => race ' in l]
        res.coverage['race_search'] = {'regions': len(REGIONS), 'shapes': len(SEARCH_DIMS), 'races_found': len(found)}
        for l in found[:3]:
            qq, _, w = l.partition(' => ')
            _, region, nr, nt, nsc = qq.split()
            res.violation('race:%s:%s' % (region, w.split(' @ ')[0][5:]), {
                'what': 'two iterations that may run concurrently (same omp for, or loops separated only by nowait) access the same element and '
                        'at least one writes it', 'region': region, 'nr': int(nr), 'ntheta': int(nt), 'numberSmootherCircles': int(nsc),
                'tasks_and_element': w, 'how_to_observe': 'build/harness/h_footprint stress <nr> %s <split index> <threads> <reps> compares the multi-threaded '
                'operator with its sequential result on a grid of that shape class' % nt})
    if okh:
        # ---- stress replay on the implementation (observation; a clean run proves nothing) ----
        stress = STRESS if tier == 'quick' else STRESS + [('301', '6', '3', '3'), ('301', '14', '4', '6'), ('257', '32', '9', '8')]
        reps = '200' if tier == 'quick' else '1500'
        props = []
        for a in stress:
            rc, out, err = C.run_harness('h_footprint', args=['stress'] + list(a) + [reps], timeout=900)
            if rc != 0:
                res.violation('stress-crash:' + ' '.join(a), {'what': 'the operator aborted in the stress run', 'args': a, 'stderr': err[-500:]})
                continue
            props += [l for l in out.split('\n') if l.startswith('PROP')]
        res.coverage['stress_runs'] = len(props)
        for l in props:
            if not l.rstrip().endswith('=> ok'):
                res.violation('stress:' + ' '.join(l.split()[2:6]), {'what': l, 'replay_cmd': 'build/harness/h_footprint stress <nr> <ntheta> <split> <threads> <reps>'})
                break
