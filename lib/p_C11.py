"""C11 -- no data race in any parallel region, for any thread count or schedule (residual and smoother regions)."""
import common as C

REGIONS = ['residual_give', 'residual_take', 'direct_give_assembly', 'direct_take_assembly', 'smoother_give', 'smoother_take', 'ext_smoother_give', 'ext_smoother_take']
# small grid shapes covering the classes the colour phases depend on (nsc mod 2,3,4; ntheta mod 3 and 4; minimal sizes)
SEARCH_DIMS = [(nsc + 3, nt, nsc) for nt in (4, 6, 8, 10, 12, 14, 16) for nsc in (1, 2, 3, 4, 5, 6, 7)]
STRESS = [('201', '6', '3', '2'), ('150', '10', '4', '4'), ('121', '8', '5', '3'), ('101', '12', '6', '5'), ('9', '8', '3', '16'), ('161', '16', '2', '7')]


def run(res, tier, seed):
    res.trusted_base += [
        'translator T2 (translate/t2_regions.py): loop bounds, strides, nowait clauses, loop bodies and the placement of the scratch-vector '
        'declarations of eight work-sharing regions (residual give/take, direct-solver assembly give/take, four smoothers), regenerated as ParDefs.phase lists',
        'hand-written footprints of the task functions (ParDefs.footprint, boxes of (array, i_r, i_theta) cells), validated by K-footprint: '
        'harness/h_footprint.cpp measures by perturbation what each real task function reads and writes and the extracted model checks containment',
        'the concurrency relation of the model: any two iterations of one omp for, and any two iterations of loops with only nowait between them, '
        'may overlap -- this over-approximates every thread count and every static / dynamic schedule',
    ]
    res.assumptions += [
        'modelled, not verified: the OpenMP runtime implements the implicit barriers; accesses inside the per-line solver objects and the STL are as '
        'hand-modelled (one solver object per line); regions not translated (smoother matrix assembly, transfer operators, level '
        'caches, rhs build, vector kernels, the task-based smoother variant that the library does not call) are outside this check',
        'perturbation cannot see a write that stores the value already present, nor accesses to thread-private scratch',
    ]
    tr = C.run_translators(['t2_regions'])
    for n, ok, msg in tr:
        res.obligation('translator:' + n, ok, msg[-300:])
        if not ok:
            res.fail('translator:' + n, msg)
    cr = C.coq_build('C11', timeout=3000)
    res.add_coq(cr)
    okm, msgm = C.build_model_driver()
    if not okm:
        res.fail('model-extraction', msgm)
    okh, msgh = C.build_harness(['h_footprint'])
    if not okh:
        res.fail('harness-build', msgh)
    if okm and okh:
        # ---- K-footprint ----
        rc, impl, err = C.run_harness('h_footprint', env={'VERIF_SEED': seed, 'VERIF_TIER': tier})
        if rc != 0:
            res.fail('harness-run', 'h_footprint exit %s: %s' % (rc, err[-600:]))
        rcm, model, errm = C.run_model('par', impl)
        if rcm != 0:
            res.fail('model-run', errm[-800:])
        n, dis, counts = C.compare_lines(impl, model, {})
        res.coverage.update({'evaluations': n, 'traces_validated_against_impl': n, 'disagreements': len(dis), 'lines_by_kind': counts,
                             'distinct_nontrivial': counts.get('FP', 0)})
        res.samples += [l[:240] for l in impl.split('\n') if l.startswith('FP')][:2]
        if dis:
            res.fail('K-footprint', [{k: (v[:300] if isinstance(v, str) else v) for k, v in d.items() if k != 'context'} for d in dis[:3]])
    if okm:
        # ---- search of the model for a racing pair on every shape class (fast; the only thing that runs when a proof breaks) ----
        q = '\n'.join('RACE %s %d %d %d => none' % (r, nr, nt, nsc) for r in REGIONS for (nr, nt, nsc) in SEARCH_DIMS
                      if not (r.startswith('ext_') and nt % 4 != 0)) + '\n'
        rcm, out, errm = C.run_model('par', q)
        found = [l for l in out.split('\n') if ' => race ' in l]
        res.coverage['race_search'] = {'regions': len(REGIONS), 'shapes': len(SEARCH_DIMS), 'races_found': len(found)}
        for l in found[:3]:
            qq, _, w = l.partition(' => ')
            _, region, nr, nt, nsc = qq.split()
            res.violation('race:%s:%s' % (region, w.split(' @ ')[0][5:]), {
                'what': 'two iterations that may run concurrently (same omp for, or loops separated only by nowait) access the same element and '
                        'at least one writes it', 'region': region, 'nr': int(nr), 'ntheta': int(nt), 'numberSmootherCircles': int(nsc),
                'tasks_and_element': w, 'how_to_observe': 'build/harness/h_footprint stress <nr> %s <split index> <threads> <reps> compares the multi-threaded '
                'operator with its sequential result on a grid of that shape class' % nt})
    if okh:
        # ---- stress replay on the implementation (observation; a clean run proves nothing) ----
        stress = STRESS if tier == 'quick' else STRESS + [('301', '6', '3', '3'), ('301', '14', '4', '6'), ('257', '32', '9', '8')]
        reps = '200' if tier == 'quick' else '1500'
        props = []
        for a in stress:
            rc, out, err = C.run_harness('h_footprint', args=['stress'] + list(a) + [reps], timeout=900)
            if rc != 0:
                res.violation('stress-crash:' + ' '.join(a), {'what': 'the operator aborted in the stress run', 'args': a, 'stderr': err[-500:]})
                continue
            props += [l for l in out.split('\n') if l.startswith('PROP')]
        res.coverage['stress_runs'] = len(props)
        for l in props:
            if not l.rstrip().endswith('=> ok'):
                res.violation('stress:' + ' '.join(l.split()[2:6]), {'what': l, 'replay_cmd': 'build/harness/h_footprint stress <nr> <ntheta> <split> <threads> <reps>'})
                break
