"""C05 -- the interior operator is symmetric positive definite."""
import random
import common as C
import operator_common as O


def run(res, tier, seed):
    res.trusted_base += [
        'translator T3 (translate/t3_stencil.py): regenerates coq/gen/StencilGen.v from the bodies of NODE_APPLY_RESIDUAL_TAKE and '
        'NODE_APPLY_A_GIVE on every run (branch conditions, local declarations, every write with target node, kind and value '
        'expression); StencilTie.v proves the generated kernels equal to the model the other theorems are about; the translator '
        'itself is validated by the K-matrix correspondence (the same model against the compiled kernels)',
        'hand-written model coq/theories/StencilDefs.v: [form] sums what every node scatters (NODE_APPLY_A_GIVE); tied by the '
        'K-matrix of C03 (the give and take matrices of the real operators equal the model rows the theorems are about)',
        'axioms under the R theorems: ClassicalDedekindReals.sig_forall_dec, sig_not_dec, FunctionalExtensionality.functional_extensionality_dep',
    ]
    res.assumptions += [
        'strict definiteness is proved (C05_A_positive_definite) under art^2 < 4 arr att, i.e. alpha > 0 on an invertible mapping; it is also evaluated numerically on the extracted matrices',
        'across the origin non-negativity is proved under art(0,.) = 0 (F9); for non-orthogonal mappings it is evaluated numerically',
        'the line blocks of the smoothers (principal submatrices) are covered with C06',
    ]
    for n, ok, msg in C.run_translators(['t3_stencil']):
        res.obligation('translator:' + n, ok, msg[-300:])
        if not ok:
            res.fail('translator:' + n, msg)
    cr = C.coq_build('C05')
    res.add_coq(cr)
    out = O.run(res, tier, seed, 'residual', ('give1', 'take'))
    if not out:
        return
    impl, dis, levels = out
    rnd = random.Random(seed)
    viol = None
    n = {'symmetry_pairs': 0, 'energy_samples': 0, 'min_rayleigh': None}
    for l in levels:
        for op in ('give1', 'take'):
            A = l['ops'].get(op)
            if not A:
                continue
            free = [p for p in A if not O.is_dirichlet(l, p)]
            scale = max(sum(abs(v) for v in A[p].values()) for p in free)
            for p in free:
                for q, v in A[p].items():
                    if O.is_dirichlet(l, q):
                        continue
                    n['symmetry_pairs'] += 1
                    w = A[q].get(p, 0.0)
                    if abs(v - w) > 1e-10 * scale and not viol:
                        viol = ('operator-not-symmetric', {'what': '<A e_q, e_p> != <A e_p, e_q> on non-Dirichlet nodes', 'p': p, 'q': q,
                                                           'a_pq': v, 'a_qp': w, 'operator': op, 'config': l['header'], 'grid': l['grid']})
            # energy of random vectors vanishing on Dirichlet nodes (search for an indefinite direction)
            for _ in range(20 if tier == 'quick' else 200):
                x = {p: rnd.uniform(-1, 1) * (10 ** rnd.uniform(-3, 3) if rnd.random() < 0.3 else 1.0) for p in free}
                e = sum(x[p] * sum(v * x.get(q, 0.0) for q, v in A[p].items()) for p in free)
                nx = sum(v * v for v in x.values())
                n['energy_samples'] += 1
                r = e / nx if nx else 0.0
                n['min_rayleigh'] = r if n['min_rayleigh'] is None else min(n['min_rayleigh'], r)
                if e <= 0 and not viol:
                    viol = ('operator-not-positive-definite', {'what': '<A x, x> <= 0 for a non-zero x vanishing on Dirichlet nodes',
                                                               'energy': e, 'operator': op, 'x': {str(k): v for k, v in list(x.items())[:40]},
                                                               'config': l['header'], 'grid': l['grid']})
    res.coverage['direct_property_evaluations'] = n
    if viol:
        res.violation(viol[0], dict(viol[1], seed=seed))
    elif dis:
        O.first_row_violation(res, dis, 'operator-row-differs',
                              'the operator differs from the model the C05 theorems are about (it is still symmetric / positive on '
                              'everything evaluated)', seed, tier)
    # ---- the line blocks the smoothers factorise: a sweep of the real smoothers equals the exact block relaxation of A on whole lines
    #      (K-affine of C06, every block update certified), i.e. the factorised blocks ARE the principal submatrices of A on the lines, which
    #      inherit symmetry and definiteness; a block that is not (singular, wrong entries) shows as a differing / non-finite sweep ----
    if not res.violations:
        import smoother_common as SM
        cov = dict(res.coverage)
        outs = SM.run(res, tier, seed, 'smoother')
        if outs:
            impl_s, dis_s, levels_s = outs
            nv = len(res.violations)
            SM.report(res, dis_s, levels_s, 'smoother', seed, tier)
            for v in res.violations[nv:]:
                v['signature'] = 'line-blocks:' + v['signature']
                v['replay']['why'] = ('the line blocks the smoother factorises are not the principal submatrices of A on its lines '
                                      '(C05: the line blocks inherit symmetry and positive definiteness)')
        sm = {k: res.coverage.get(k) for k in ('sweeps_compared', 'properties_evaluated_on_impl')}
        res.coverage.update(cov)
        res.coverage['line_block_sweeps'] = sm
