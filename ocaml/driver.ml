(* driver: reads "QUERY => impl_result" lines written by the C++ harness on stdin and prints
   "QUERY => model_result" lines, the model result being computed by the extracted Coq code. *)
open Model
open Util

let ios = int_of_string
let zs s = z_of_int (ios s)
let si = string_of_int
let zi x = si (int_of_z x)

(* ---------------- C17 grid ---------------- *)
let mkGrid nr nth nsc lenr ncn pow2 = { nr = nr; nth = nth; nsc = nsc; lenr = lenr; ncn = ncn; pow2 = pow2 }
let cur_grid = ref (mkGrid Z0 Z0 Z0 Z0 Z0 false)
let cur_radii : q list ref = ref []
let cur_angles : q list ref = ref []

let mk_grid nr nth nsc =
  let g0 = mkGrid nr nth nsc (Z.sub nr nsc) Z0 (gen_pow2flag nth) in
  mkGrid nr nth nsc (Z.sub nr nsc) (gen_ncn g0) (gen_pow2flag nth)

let rec nth_q l i = match l with [] -> failwith "nth_q" | x :: r -> if i = 0 then x else nth_q r (i - 1)

let grid_query (toks : string list) : string =
  let g = !cur_grid in
  match toks with
  | ["G"; nr; nth; nsc] ->
    cur_grid := mk_grid (zs nr) (zs nth) (zs nsc);
    let g = !cur_grid in
    Printf.sprintf "%s %s %s" (zi g.lenr) (zi g.ncn) (zi (Z.mul g.nr g.nth))
  | "R" :: rs -> cur_radii := List.map qf rs; si (List.length rs)
  | "A" :: rs -> cur_angles := List.map qf rs; si (List.length rs)
  | ["W"; x] -> Printf.sprintf "%s %s" (zi (gen_wrap g (zs x))) (zi (spec_wrap g (zs x)))
  | ["I"; i; j] -> zi (gen_index g (zs i) (zs j))
  | ["J"; i; j] -> zi (spec_index g (zs i) (zs j))
  | ["F"; i; j] -> zi (gen_fast_index g (zs i) (zs j))
  | ["M"; k] ->
    let (r, t) = spec_multi g (zs k) in
    Printf.sprintf "%s %s %s %s" (zi (gen_multi_r g (zs k))) (zi (gen_multi_t g (zs k))) (zi r) (zi t)
  | ["N"; i; j] ->
    let i = ios i and j = ios j in
    let nr = int_of_z g.nr in
    let jm = nb_theta_m1 g (z_of_int j) and jp = nb_theta_p1 g (z_of_int j) in
    let idx ii jj = if ii < 0 || ii >= nr then "-1" else zi (spec_index g (z_of_int ii) jj) in
    String.concat " " [idx (i-1) (z_of_int j); idx (i+1) (z_of_int j); idx i jm; idx i jp;
                       idx (i-1) jm; idx (i+1) jm; idx (i-1) jp; idx (i+1) jp]
  | ["D"; i; j] ->
    let i = ios i and j = ios j in
    let nr = int_of_z g.nr in
    let r k = nth_q !cur_radii k and a k = nth_q !cur_angles k in
    let sub (x : q) (y : q) : q = Obj.magic (qsc.ssub (Obj.magic x) (Obj.magic y)) in
    let zero = { qnum = Z0; qden = XH } in
    let h1 = if i <= 0 then zero else sub (r i) (r (i-1)) in
    let h2 = if i >= nr - 1 then zero else sub (r (i+1)) (r i) in
    let wm = int_of_z (spec_wrap g (z_of_int (j-1))) and w0 = int_of_z (spec_wrap g (z_of_int j)) in
    let k1 = sub (a (wm+1)) (a wm) and k2 = sub (a (w0+1)) (a w0) in
    String.concat " " (List.map qhex [h1; h2; k1; k2])
  | "SE" :: rho :: [] -> zi (q_split_explicit !cur_radii (qf rho))
  | "SA" :: nr :: qs ->
    let arr = Array.of_list (List.map (fun s -> s = "1") qs) in
    let q (i : z) = let k = int_of_z i - 2 in if k >= 0 && k < Array.length arr then arr.(k) else false in
    zi (split_auto (zs nr) q)
  | ["C"] ->
    let rc = every_second !cur_radii and ac = every_second !cur_angles in
    Printf.sprintf "%s %s | %s | %s" (zi (coarse_nr g.nr)) (zi (coarse_nth g.nth))
      (String.concat " " (List.map qhex rc)) (String.concat " " (List.map qhex ac))
  | _ -> "?unknown-query"

let () =
  let mode = if Array.length Sys.argv > 1 then Sys.argv.(1) else "" in
  let handler = match mode with
    | "grid" -> grid_query
    | _ -> prerr_endline ("unknown mode " ^ mode); exit 2 in
  try
    while true do
      let line = input_line stdin in
      if String.length line > 0 && line.[0] <> '#' then begin
        let (lhs, _) = split_arrow line in
        let res = (try handler (split_ws lhs) with e -> "?exception " ^ Printexc.to_string e) in
        print_string lhs; print_string " => "; print_endline res
      end
    done
  with End_of_file -> ()
