(* driver: reads "QUERY => impl_result" lines written by the C++ harness on stdin and prints
   "QUERY => model_result" lines, the model result being computed by the extracted Coq code. *)
open Model
open Util
type string = Stdlib.String.t
module String = Stdlib.String
module List = Stdlib.List

let ios = int_of_string
let zs s = z_of_int (ios s)
let si = string_of_int
let zi x = si (int_of_z x)

(* ---------------- C17 grid ---------------- *)
let mkGrid nr nth nsc lenr ncn pow2 = { nr = nr; ntheta = nth; nsc = nsc; lenr = lenr; ncn = ncn; pow2 = pow2 }
let z0 = z_of_int 0
let cur_grid = ref (mkGrid z0 z0 z0 z0 z0 false)
let cur_radii : q list ref = ref []
let cur_angles : q list ref = ref []

let mk_grid nr nth nsc =
  let g0 = mkGrid nr nth nsc (Z.sub nr nsc) z0 (gen_pow2flag nth) in
  mkGrid nr nth nsc (Z.sub nr nsc) (gen_ncn g0) (gen_pow2flag nth)

let rec nth_q l i = match l with [] -> failwith "nth_q" | x :: r -> if i = 0 then x else nth_q r (i - 1)

let grid_query (toks : string list) : string =
  let g = !cur_grid in
  match toks with
  | ["G"; nr; nth; nsc] ->
    cur_grid := mk_grid (zs nr) (zs nth) (zs nsc);
    let g = !cur_grid in
    Printf.sprintf "%s %s %s" (zi g.lenr) (zi g.ncn) (zi (Z.mul g.nr g.ntheta))
  | "R" :: rs -> cur_radii := List.map qf rs; si (List.length rs)
  | "A" :: rs -> cur_angles := List.map qf rs; si (List.length rs)
  | ["W"; x] -> Printf.sprintf "%s %s" (zi (gen_wrap g (zs x))) (zi (spec_wrap g (zs x)))
  | ["I"; i; j] -> zi (gen_index g (zs i) (zs j))
  | ["J"; i; j] -> zi (spec_index g (zs i) (zs j))
  | ["F"; i; j] -> zi (gen_fast_index g (zs i) (zs j))
  | ["M"; k] ->
    let (r, t) = spec_multi g (zs k) in
    Printf.sprintf "%s %s %s %s" (zi (gen_multi_r g (zs k))) (zi (gen_multi_t g (zs k))) (zi r) (zi t)
  | ["N"; i; j] ->
    let i = ios i and j = ios j in
    let nr = int_of_z g.nr in
    let jm = nb_theta_m1 g (z_of_int j) and jp = nb_theta_p1 g (z_of_int j) in
    let idx ii jj = if ii < 0 || ii >= nr then "-1" else zi (spec_index g (z_of_int ii) jj) in
    String.concat " " [idx (i-1) (z_of_int j); idx (i+1) (z_of_int j); idx i jm; idx i jp;
                       idx (i-1) jm; idx (i+1) jm; idx (i-1) jp; idx (i+1) jp]
  | ["D"; i; j] ->
    let i = ios i and j = ios j in
    let nr = int_of_z g.nr in
    let r k = nth_q !cur_radii k and a k = nth_q !cur_angles k in
    let sub (x : q) (y : q) : q = Obj.magic (qsc.ssub (Obj.magic x) (Obj.magic y)) in
    let zero = q_of_float 0.0 in
    let h1 = if i <= 0 then zero else sub (r i) (r (i-1)) in
    let h2 = if i >= nr - 1 then zero else sub (r (i+1)) (r i) in
    let wm = int_of_z (spec_wrap g (z_of_int (j-1))) and w0 = int_of_z (spec_wrap g (z_of_int j)) in
    let k1 = sub (a (wm+1)) (a wm) and k2 = sub (a (w0+1)) (a w0) in
    String.concat " " (List.map qhex [h1; h2; k1; k2])
  | "SE" :: rho :: [] -> zi (q_split_explicit !cur_radii (qf rho))
  | "SA" :: nr :: qs ->
    let arr = Array.of_list (List.map (fun s -> s = "1") qs) in
    let q i = let k = int_of_z i - 2 in if k >= 0 && k < Array.length arr then arr.(k) else false in
    zi (split_auto (zs nr) q)
  | ["C"] ->
    let rc = every_second !cur_radii and ac = every_second !cur_angles in
    Printf.sprintf "%s %s | %s | %s" (zi (coarse_nr g.nr)) (zi (coarse_nth g.ntheta))
      (String.concat " " (List.map qhex rc)) (String.concat " " (List.map qhex ac))
  | _ -> "?unknown-query"


(* ---------------- C14 / C15 / C16 linear algebra ---------------- *)
let tq (x : q) : Model.t = Obj.magic x
let qt (x : Model.t) : q = Obj.magic x
let qfl (s : string) : Model.t = tq (qf s)
let fields (toks : string list) : string list list =
  (* split a token list at "|" *)
  let rec go acc cur = function
    | [] -> List.rev (List.rev cur :: acc)
    | "|" :: r -> go (List.rev cur :: acc) [] r
    | x :: r -> go acc (x :: cur) r in
  go [] [] toks
let fmax l = List.fold_left (fun a x -> Float.max a (Float.abs x)) 0.0 l
let eps = epsilon_float

let verdict ~n ~wellcond ~(x_impl : float list) ~(x_model : Model.t list) ~(resid : Model.t list)
            ~(norm_a : float) ~(bmax : float) ?(extra = "") () =
  let xm = List.map (fun v -> float_of_q (qt v)) x_model in
  let scale = Float.max (fmax xm) 1e-300 in
  let fwd = (List.fold_left2 (fun a xi xj -> Float.max a (Float.abs (xi -. xj))) 0.0 x_impl xm) /. scale in
  let r = fmax (List.map (fun v -> float_of_q (qt v)) resid) in
  let bwd = r /. (Float.max (norm_a *. fmax x_impl +. bmax) 1e-300) in
  let tol_b = float_of_int (max n 4) *. 256.0 *. eps in
  let ok = (bwd <= tol_b) && ((not wellcond) || fwd <= 1e-9) && (List.for_all Float.is_finite x_impl) in
  Printf.sprintf "CHECK %s fwd=%.3e bwd=%.3e tolb=%.3e%s" (if ok then "ok" else "FAIL") fwd bwd tol_b extra

let tri_slots : tri array = Array.make 8 q_tri_default
let inv_tri = inv_SymmetricTridiagonalSolver
let obs_tri (t : tri) : string =
  let l = function None -> "null" | Some v -> String.concat " " (List.map (fun x -> qhex (qt x)) v) in
  Printf.sprintf "%s %s | %s | %s | %s" (zi t.t_dim) (if t.t_cyclic then "1" else "0") (l t.t_main) (l t.t_sub)
    (if t.t_cyclic then qhex (qt t.t_corner) else "-")

let linalg_query (toks : string list) : string =
  match toks with
  | "TS" :: cyc :: n :: wc :: "|" :: rest ->
    (match fields rest with
     | [main; sub; [corner]; b; ximpl] ->
       let cyc = cyc = "1" and n = ios n in
       let mainq = List.map qfl main and subq = List.map qfl sub and cq = qfl corner and bq = List.map qfl b in
       let x_impl = List.map fl ximpl in
       let xi_q = List.map (fun f -> tq (q_of_float f)) x_impl in
       let x_model = if cyc then q_solve_cyc mainq subq cq bq else q_solve_tri mainq subq bq in
       let ax = if cyc then q_matvec_cyc mainq subq cq xi_q else q_matvec_tri mainq subq xi_q in
       let resid = List.map2 (fun a b -> qsc.ssub a b) ax bq in
       let fm = List.map fl main and fs = List.map fl sub in
       let norm_a = fmax fm +. 2.0 *. fmax fs +. Float.abs (fl corner) in
       verdict ~n ~wellcond:(wc = "1") ~x_impl ~x_model ~resid ~norm_a ~bmax:(fmax (List.map fl b)) ()
     | _ -> "?bad-TS")
  | "DS" :: "|" :: rest ->
    (match fields rest with
     | [dg; b] -> String.concat " " (List.map (fun x -> qhex (qt x)) (q_diag_solve (List.map qfl dg) (List.map qfl b)))
     | _ -> "?bad-DS")
  | "T" :: "new" :: slot :: n :: cyc :: "|" :: rest ->
    (match fields rest with
     | [main; sub; [corner]] ->
       let t = q_mkTri (zs n) (Some (List.map qfl main)) (Some (List.map qfl sub)) (qfl corner) (cyc = "1") false (tq (qf "0x0p+0")) in
       tri_slots.(ios slot) <- t; obs_tri t
     | _ -> "?bad-T-new")
  | ["T"; "default"; slot] -> tri_slots.(ios slot) <- q_tri_default; obs_tri q_tri_default
  | "T" :: "solve" :: slot :: "|" :: b ->
    let (t', x) = q_tri_solve tri_slots.(ios slot) (List.map qfl b) in
    tri_slots.(ios slot) <- t';
    String.concat " " (List.map (fun v -> qhex (qt v)) x) ^ " ; " ^ obs_tri t'
  | ["T"; op; dst; src] ->
    let d = ios dst and s = ios src in
    let so = q_obj_of_tri tri_slots.(s) in
    let (rules, is_move, fresh) = (match op with
      | "copyctor" -> (gen_SymmetricTridiagonalSolver_copy_ctor, false, true)
      | "copyassign" -> (gen_SymmetricTridiagonalSolver_copy_assign, false, false)
      | "movector" -> (gen_SymmetricTridiagonalSolver_move_ctor, true, true)
      | "moveassign" -> (gen_SymmetricTridiagonalSolver_move_assign, true, false)
      | _ -> failwith "bad op") in
    let old = if fresh then q_obj_of_tri q_tri_default else q_obj_of_tri tri_slots.(d) in
    let nd = q_tri_of_obj (q_apply_target inv_tri is_move rules so old) in
    let ns = q_tri_of_obj (q_apply_source rules so) in
    if d <> s then begin tri_slots.(d) <- nd; tri_slots.(s) <- ns end;
    obs_tri tri_slots.(d) ^ " ; " ^ obs_tri tri_slots.(s)
  | "LUT" :: n :: wc :: "|" :: rest | "LUA" :: n :: wc :: "|" :: rest ->
    let n = ios n in
    let (rows, b, ximpl) = (match List.hd toks, fields rest with
      | "LUT", [trip; b; ximpl] ->
        let ts = List.map (fun s -> match String.split_on_char ':' s with
          | [r; c; v] -> ((zs r, zs c), qfl v) | _ -> failwith "bad triplet") trip in
        (q_csr_of_triplets (nat_of_int n) ts, b, ximpl)
      | "LUA", [vals; cols; starts; b; ximpl] ->
        (q_csr_of_arrays (List.map qfl vals) (List.map zs cols) (List.map zs starts), b, ximpl)
      | _ -> failwith "bad LU line") in
    let bq = List.map qfl b in
    let lu = q_lu_factor rows in
    let x_model = q_lu_solve lu bq in
    let x_impl = List.map fl ximpl in
    let xi_q = List.map (fun f -> tq (q_of_float f)) x_impl in
    let ax = q_csr_apply rows xi_q in
    let resid = List.map2 (fun a b -> qsc.ssub a b) ax bq in
    let norm_a = List.fold_left (fun a r -> Float.max a (List.fold_left (fun s (_, v) -> s +. Float.abs (float_of_q (qt v))) 0.0 r)) 0.0 rows in
    let piv = List.map (fun v -> Float.abs (float_of_q (qt v))) (q_pivots lu) in
    let minp = List.fold_left Float.min infinity piv in
    (* row-wise backward error: rows scaled over many orders of magnitude must each be solved (the matrices are strictly
       row dominant, for which elimination without pivoting is row-scaling invariant) *)
    let bf = List.map fl b in
    let roww = List.fold_left2 (fun acc (row, ri) bi ->
        let den = List.fold_left (fun s (cidx, v) -> s +. Float.abs (float_of_q (qt v)) *. Float.abs (List.nth x_impl (int_of_z cidx))) (Float.abs bi) row in
        Float.max acc (Float.abs (float_of_q (qt ri)) /. Float.max den 1e-300)) 0.0 (List.combine rows resid) bf in
    let v = verdict ~n ~wellcond:(wc = "1") ~x_impl ~x_model ~resid ~norm_a ~bmax:(fmax (List.map fl b))
      ~extra:(Printf.sprintf " minpivot=%.3e rowwise=%.3e" minp roww) () in
    let tol_r = float_of_int (max n 4) *. 4096.0 *. eps in
    if roww > tol_r && String.length v >= 8 && String.sub v 0 8 = "CHECK ok" then
      "CHECK FAIL row-wise backward error" ^ String.sub v 8 (String.length v - 8)
    else v
  | "PROP" :: _ -> "ok"
  | _ -> "?unknown-query"


(* ---------------- C08 / C09a transfer operators ---------------- *)
let ip_nr = ref 0 and ip_nth = ref 0
let ip_rad : q array ref = ref [||] and ip_ang : q array ref = ref [||]
let qsub (a : q) (b : q) : q = qt (qsc.ssub (tq a) (tq b))
let qadd (a : q) (b : q) : q = qt (qsc.sadd (tq a) (tq b))
let qzero = q_of_float 0.0
let ip_h i = let i = int_of_z i in if i >= 0 && i + 1 < Array.length !ip_rad then tq (qsub !ip_rad.(i+1) !ip_rad.(i)) else tq qzero
let ip_k j = let j = int_of_z j in if j >= 0 && j + 1 < Array.length !ip_ang then tq (qsub !ip_ang.(j+1) !ip_ang.(j)) else tq qzero

let print_row2 (r : ((Big_int_Z.big_int * Big_int_Z.big_int) * Model.t) list) : string =
  let tbl = Hashtbl.create 16 in
  List.iter (fun ((a, b), w) ->
    let key = (int_of_z a, int_of_z b) in
    let old = try Hashtbl.find tbl key with Not_found -> qzero in
    Hashtbl.replace tbl key (qadd old (qt w))) r;
  let l = Hashtbl.fold (fun k v acc -> (k, v) :: acc) tbl [] in
  let l = List.filter (fun (_, v) -> Big_int_Z.sign_big_int v.qnum <> 0) l in
  let l = List.sort compare l in
  String.concat " " (List.map (fun ((a, b), v) -> Printf.sprintf "%d,%d,%s" a b (qhex v)) l)

let interp_query (toks : string list) : string =
  match toks with
  | "GRID" :: nr :: nth :: "|" :: rest ->
    (match fields rest with
     | [radii; angles] ->
       ip_nr := ios nr; ip_nth := ios nth;
       ip_rad := Array.of_list (List.map qf radii); ip_ang := Array.of_list (List.map qf angles);
       Printf.sprintf "%d %d" ((!ip_nr + 1) / 2) (!ip_nth / 2)
     | _ -> "?bad-GRID")
  | ["ROW"; op; a; b] ->
    let nr = z_of_int !ip_nr and nth = z_of_int !ip_nth in
    let a = zs a and b = zs b in
    (match op with
     | "P" | "P0" -> print_row2 (q_P_row nth ip_h ip_k a b)
     | "R" | "R0" -> print_row2 (q_R_row nr nth ip_h ip_k a b)
     | "Pex" | "Pex0" -> print_row2 (q_Pex_row nth a b)
     | "Rex" | "Rex0" -> print_row2 (q_Rex_row nr nth a b)
     | "Inj" -> print_row2 (q_Inj_row a b)
     | "FMG" -> print_row2 (q_FMG_row nr nth ip_h ip_k a b)
     | _ -> "?unknown-op")
  | _ -> "?unknown-query"


(* ---------------- C03 / C04 / C05 discrete operator ---------------- *)
let op_nr = ref 0 and op_nth = ref 0 and op_dirbc = ref false
let op_rad : q array ref = ref [||] and op_ang : q array ref = ref [||]
let op_arr : q array ref = ref [||] and op_att : q array ref = ref [||] and op_art : q array ref = ref [||]
let op_det : q array ref = ref [||] and op_beta : q array ref = ref [||]
let op_h i = let i = int_of_z i in if i >= 0 && i + 1 < Array.length !op_rad then tq (qsub !op_rad.(i+1) !op_rad.(i)) else tq qzero
let op_k j = let j = int_of_z j in if j >= 0 && j + 1 < Array.length !op_ang then tq (qsub !op_ang.(j+1) !op_ang.(j)) else tq qzero
let op_node (a : q array ref) i j =
  let i = int_of_z i and j = int_of_z j in
  if i >= 0 && i < !op_nr && j >= 0 && j < !op_nth then tq !a.(i * !op_nth + j) else tq qzero
let op_b i = let i = int_of_z i in if i >= 0 && i < !op_nr then tq !op_beta.(i) else tq qzero

let merge_row2 (r : ((Big_int_Z.big_int * Big_int_Z.big_int) * Model.t) list) : ((int * int) * q) list =
  let tbl = Hashtbl.create 16 in
  List.iter (fun ((a, b), w) ->
    let key = (int_of_z a, int_of_z b) in
    let old = try Hashtbl.find tbl key with Not_found -> qzero in
    Hashtbl.replace tbl key (qadd old (qt w))) r;
  let l = Hashtbl.fold (fun k v acc -> (k, v) :: acc) tbl [] in
  List.sort compare (List.filter (fun (_, v) -> Big_int_Z.sign_big_int v.qnum <> 0) l)

(* compare an implementation row "a,b,hex ..." with a model row: same key set, values within tol * row scale *)
let check_row (rhs : string) (model : ((int * int) * q) list) (tol : float) : string =
  let impl = List.map (fun tok -> match String.split_on_char ',' tok with
    | [a; b; v] -> ((ios a, ios b), fl v) | _ -> failwith "bad entry") (split_ws rhs) in
  let impl = List.sort compare impl in
  let mf = List.map (fun (k, v) -> (k, float_of_q v)) model in
  let scale = List.fold_left (fun a (_, v) -> a +. Float.abs v) 0.0 mf in
  let keys_i = List.map fst impl and keys_m = List.map fst mf in
  if keys_i <> keys_m then
    Printf.sprintf "CHECK FAIL structure: model has %s" (String.concat " " (List.map (fun ((a, b), v) -> Printf.sprintf "%d,%d,%h" a b v) mf))
  else begin
    let dev = List.fold_left2 (fun a (_, x) (_, y) -> Float.max a (Float.abs (x -. y))) 0.0 impl mf in
    if dev <= tol *. (Float.max scale 1e-300) && List.for_all (fun (_, x) -> Float.is_finite x) impl
    then Printf.sprintf "CHECK ok dev=%.2e" (dev /. Float.max scale 1e-300)
    else Printf.sprintf "CHECK FAIL value: dev/scale=%.3e model has %s" (dev /. Float.max scale 1e-300)
           (String.concat " " (List.map (fun ((a, b), v) -> Printf.sprintf "%d,%d,%h" a b v) mf))
  end

let operator_query (toks : string list) (rhs : string) : string =
  match toks with
  | "OGRID" :: nr :: nth :: dirbc :: "|" :: rest ->
    (match fields rest with
     | [radii; angles] ->
       op_nr := ios nr; op_nth := ios nth; op_dirbc := (dirbc = "1");
       op_rad := Array.of_list (List.map qf radii); op_ang := Array.of_list (List.map qf angles); "ok"
     | _ -> "?bad-OGRID")
  | "COEF" :: "|" :: rest ->
    (match fields rest with
     | [a; t; m; d; b] ->
       let arr l = Array.of_list (List.map qf l) in
       op_arr := arr a; op_att := arr t; op_art := arr m; op_det := arr d; op_beta := arr b; "ok"
     | _ -> "?bad-COEF")
  | ["ROW"; op; i; j] ->
    let nr = z_of_int !op_nr and nth = z_of_int !op_nth in
    let r0 = tq !op_rad.(0) in
    let row = (match op with
      | "take" | "csrtake" ->
        q_A_take_row nr nth op_h op_k r0 (op_node op_arr) (op_node op_att) (op_node op_art) (op_node op_det) op_b !op_dirbc (zs i) (zs j)
      | "give1" | "giveN" | "csrgive" ->
        q_A_give_row nr nth op_h op_k r0 (op_node op_arr) (op_node op_att) (op_node op_art) (op_node op_det) op_b !op_dirbc (zs i) (zs j)
      | _ -> failwith "unknown operator") in
    check_row rhs (merge_row2 row) 1e-11
  | "RHSW" :: "|" :: ws ->
    let nr = z_of_int !op_nr and nth = z_of_int !op_nth in
    let r0 = tq !op_rad.(0) in
    let bad = ref None in
    List.iteri (fun k s ->
        let i = k / !op_nth and j = k mod !op_nth in
        let m = float_of_q (qt (q_rhs_weight nr nth op_h op_k r0 (op_node op_det) !op_dirbc (z_of_int i) (z_of_int j))) in
        let v = fl s in
        if !bad = None && Float.abs (v -. m) > 1e-12 *. Float.max (Float.abs m) 1e-300 then bad := Some (i, j, m)) ws;
    (match !bad with
     | None -> "CHECK ok"
     | Some (i, j, m) -> Printf.sprintf "CHECK FAIL rhs weight at node (%d,%d): model %h" i j m)
  | "PROP" :: _ -> "ok"
  | _ -> "?unknown-query"


(* ---------------- C06 / C07 smoothers ---------------- *)
let sm_nsc = ref 0 and sm_ext = ref false
let sm_rowA i j =
  let nr = z_of_int !op_nr and nth = z_of_int !op_nth in
  q_A_take_row nr nth op_h op_k (tq !op_rad.(0)) (op_node op_arr) (op_node op_att) (op_node op_art) (op_node op_det) op_b !op_dirbc i j

let smoother_query (toks : string list) (rhs : string) : string =
  match toks with
  | "OGRID" :: _ | "COEF" :: _ -> operator_query toks rhs
  | ["SGRID"; nsc; kind] -> sm_nsc := ios nsc; sm_ext := (kind = "ext"); "ok"
  | "SW" :: _impl :: _kind :: _idx :: "|" :: rest ->
    (match fields rest with
     | [x0; f0; ximpl] ->
       let nr = z_of_int !op_nr and nth = z_of_int !op_nth and nsc = z_of_int !sm_nsc in
       let x0q = List.map qfl x0 and fq = List.map qfl f0 in
       let blocks = if !sm_ext then q_ext_smoother_blocks nr nth nsc else q_smoother_blocks nr nth nsc in
       (* run the sweep block by block and certify each update: exact zero residual on the block *)
       let cert = ref true in
       let xq = List.fold_left (fun acc u ->
           let acc' = q_block_update nth sm_rowA u acc fq in
           List.iter (fun p -> let r = qt (q_resid nth sm_rowA acc' fq p) in
                       if Big_int_Z.sign_big_int r.qnum <> 0 then cert := false) u;
           acc') x0q blocks in
       let xm = List.map (fun v -> float_of_q (qt v)) xq in
       let xi = List.map fl ximpl in
       let scale = Float.max (fmax xm) 1e-300 in
       let dev = List.fold_left2 (fun a p q -> Float.max a (Float.abs (p -. q))) 0.0 xi xm in
       let ok = !cert && dev <= 1e-9 *. scale && List.for_all Float.is_finite xi in
       Printf.sprintf "CHECK %s dev=%.3e certified=%b" (if ok then "ok" else "FAIL") (dev /. scale) !cert
     | _ -> "?bad-SW")
  | "PROP" :: _ -> "ok"
  | _ -> "?unknown-query"


(* ---------------- C10 / C09b / C01 / C13 control flow ---------------- *)
let bk_name = function Sol -> "sol" | Rhs -> "rhs" | Res -> "res" | Err -> "err"
let bref_name ((l, k) : nat * bk) = Printf.sprintf "L%d.%s" (int_of_nat l) (bk_name k)
let op_name = function
  | OSmooth -> "smooth" | OExtSmooth -> "extsmooth" | OResid -> "resid" | ODirect -> "direct" | ORestrict -> "restrict"
  | OProlong -> "prolong" | OExRestrict -> "exrestrict" | OExProlong -> "exprolong" | OInject -> "inject" | OFMG -> "fmg"
  | OAssign0 -> "assign0" | OAdd -> "add" | OLinComb -> "lincomb" | OExtResid -> "extresid" | OCopy -> "copy"
  | OExactErr -> "exacterr" | ONorm -> "norm" | OConverged -> "converged"
let leveled = function OAssign0 | OAdd | OLinComb | ONorm | OConverged | OExactErr -> false | _ -> true
let render_ev (e : ev) : string =
  let op = op_name e.e_op in
  let bufs = String.concat "," (List.map bref_name e.e_bufs) in
  if leveled e.e_op then Printf.sprintf "%s@%d:%s" op (int_of_nat e.e_lvl) bufs else Printf.sprintf "%s:%s" op bufs
let render_trace (l : ev list) : string = String.concat ";" (List.map render_ev l)
let ckind_of = function 0 -> KV | 1 -> KW | _ -> KF

(* spec trace of  initializeSolution ; solve loop  for one configuration, from a given smoothing flag *)
let model_solve_trace ~l ~k ~pre ~post ~extrap_mode ~has_exact ~tol ~fmg ~fk ~iters ~maxit ~fgs0 ~(oracle : (bool * bool) list) =
  let extrap = extrap_mode <> 0 and combined = extrap_mode = 3 in
  let n = nat_of_int in
  let init = init_ops fmg (ckind_of fk) (n iters) (n pre) (n post) extrap fgs0 (n l) in
  let ((evs, itf), fgsf) = solve_loop (ckind_of k) (n l) (n pre) (n post) extrap combined has_exact tol fgs0 (n 0) (n maxit) oracle in
  (init @ evs, int_of_nat itf, fgsf)
let fgs_of_mode m = (m = 0 || m = 2 || m = 3)
let parse_oracle toks = List.map (fun s -> match String.split_on_char ',' s with
  | [c; sl] -> (c = "1", sl = "1") | _ -> failwith "bad oracle") toks

let cycle_query (toks : string list) (rhs : string) : string =
  match toks with
  | ["CONV"; at; rt; rn; reln] ->
    let opt s = if s = "-" then None else Some (tq (qf s)) in
    if q_stop_decision (opt at) (opt rt) (tq (qf rn)) (tq (qf reln)) then "1" else "0"
  | "TR" :: l :: k :: pre :: post :: ex :: exact :: tol :: fmg :: fk :: iters :: maxit :: "|" :: orc ->
    let (evs, _, _) = model_solve_trace ~l:(ios l) ~k:(ios k) ~pre:(ios pre) ~post:(ios post) ~extrap_mode:(ios ex)
        ~has_exact:(exact = "1") ~tol:(tol = "1") ~fmg:(fmg = "1") ~fk:(ios fk) ~iters:(ios iters) ~maxit:(ios maxit)
        ~fgs0:(fgs_of_mode (ios ex)) ~oracle:(parse_oracle orc) in
    render_trace evs
  | "HIST" :: l :: k :: pre :: post :: ex :: exact :: tol :: fmg :: fk :: iters :: maxit :: "|" :: orc ->
    (* the last solve of a history must be the solve of a FRESH object: model started from the fresh state *)
    let (evs, _, _) = model_solve_trace ~l:(ios l) ~k:(ios k) ~pre:(ios pre) ~post:(ios post) ~extrap_mode:(ios ex)
        ~has_exact:(exact = "1") ~tol:(tol = "1") ~fmg:(fmg = "1") ~fk:(ios fk) ~iters:(ios iters) ~maxit:(ios maxit)
        ~fgs0:(fgs_of_mode (ios ex)) ~oracle:(parse_oracle orc) in
    render_trace evs
  | "PROP" :: _ -> "ok"
  | _ -> "?unknown-query"

(* ---------------- C18 grid generation ---------------- *)
let rec split_bar (toks : string list) : string list list =
  match toks with
  | [] -> [[]]
  | "|" :: r -> [] :: split_bar r
  | x :: r -> (match split_bar r with h :: t -> (x :: h) :: t | [] -> [[x]])

let q_int (n : int) : q = { qnum = z_of_int n; qden = Big_int_Z.unit_big_int }
let qop f (a : q) (b : q) : q = qt (f (tq a) (tq b))
let q_lt (a : q) (b : q) : bool = qsc.sltb (tq a) (tq b)
let q_floor (x : q) : int = int_of_z (Big_int_Z.div_big_int x.qnum x.qden)   (* floor division (qden > 0) *)

let gridgen_query (toks : string list) (rhs : string) : string =
  match toks with
  | ["ANISO"; nr_exp; a; p] ->
    (match aniso_indices (zs nr_exp) (zs a) (zs p) with
     | None -> "none"
     | Some x -> Printf.sprintf "%s %s %s %s" (zi x.an_se) (zi x.an_ee) (zi x.an_nref) (zi x.an_nequi))
  | ["GEN"; r0; rmax; nr_exp; nt_exp; rr; a; dv; p] ->
    let impl = split_ws rhs in
    let r0q = qf r0 and rmq = qf rmax and rrq = qf rr in
    let a = ios a and dvi = ios dv and nr_exp = ios nr_exp and nt_exp = ios nt_exp in
    let sizes_ok nr_temp_opt =
      (match impl with
       | ["ok"; nr; nt] ->
         let nr = ios nr and nt = ios nt in
         let two_dv = 1 lsl dvi in
         if (nr - 1) mod two_dv <> 0 then "CHECK FAIL nr - 1 is not divisible by 2^divideBy2"
         else begin
           let nr_mid = (nr - 1) / two_dv + 1 in
           let exp_nt = int_of_z (gen_ntheta (z_of_int nt_exp) (z_of_int nr_mid) (z_of_int dvi)) in
           let exp_nr = (match nr_temp_opt with Some t -> int_of_z (gen_nr (z_of_int t) (z_of_int dvi)) | None -> nr) in
           if nr_mid mod 2 = 0 then "CHECK FAIL the number of radii before divideBy2 is even"
           else if nr <> exp_nr then Printf.sprintf "CHECK FAIL nr: model %d" exp_nr
           else if nt <> exp_nt then Printf.sprintf "CHECK FAIL ntheta: model %d" exp_nt
           else "CHECK ok"
         end
       | _ -> "CHECK FAIL the model accepts these parameters, the implementation rejected them") in
    if a = 0 then sizes_ok (Some ((1 lsl (nr_exp - 1)) + 1))
    else begin
      let pct_ok = not (q_lt rrq r0q) && q_lt rrq rmq in
      if not pct_ok then (if impl = ["rejected"] then "CHECK ok" else "CHECK FAIL refinement radius outside [R0,Rmax) must be rejected")
      else begin
        let pz = if p = "-" then z_of_int 0 else zs p in
        match aniso_accept (z_of_int nr_exp) (z_of_int a) pz with
        | None -> if impl = ["rejected"] then "CHECK ok" else "CHECK FAIL the window does not fit (model rejects), the implementation accepted"
        | Some x ->
          if p = "-" then "CHECK FAIL no window indices were traced for an accepted anisotropic division"
          else if not (aniso_in_bounds x) then "CHECK FAIL accepted window reads out of bounds"
          else begin
            (* p = floor(nr * percentage) against the exact value (one unit of slack only at an integer boundary) *)
            let v = qop qsc.smul (q_int (int_of_z x.an_nr)) (qop qsc.sdiv (qop qsc.ssub rrq r0q) (qop qsc.ssub rmq r0q)) in
            let fl_v = q_floor v in
            let frac = float_of_q (qop qsc.ssub v (q_int fl_v)) in
            let pi = ios p in
            if pi <> fl_v && not ((frac < 1e-9 && pi = fl_v - 1) || (frac > 1.0 -. 1e-9 && pi = fl_v + 1))
            then Printf.sprintf "CHECK FAIL floor(nr*percentage): exact %d" fl_v
            else sizes_ok None
          end
      end
    end
  | "RADU" :: r0 :: rmax :: nr_exp :: dv :: "|" :: radii ->
    let m = q_gen_radii_uniform (tq (qf r0)) (tq (qf rmax)) (nat_of_int (ios nr_exp)) (nat_of_int (ios dv)) in
    let eps = q_of_float (1e-14 *. fl rmax) in
    if q_close_b (tq eps) (List.map (fun s -> tq (qf s)) radii) m then "CHECK ok"
    else Printf.sprintf "CHECK FAIL model (%d radii): %s" (List.length m) (String.concat " " (List.map (fun x -> qhex (qt x)) m))
  | "RADV" :: r0 :: rmax :: "|" :: radii ->
    let l = List.map (fun s -> tq (qf s)) radii in
    let eps = tq (q_of_float (1e-14 *. fl rmax)) in
    if q_radii_valid_b (tq (qf r0)) (tq (qf rmax)) eps l then "CHECK ok"
    else if not (q_increasing_b l) then "CHECK FAIL radii are not strictly increasing"
    else if not (q_midpoints_b eps l) then "CHECK FAIL an odd-numbered radius is not the midpoint of its neighbours"
    else "CHECK FAIL the first / last radius is not exactly R0 / Rmax"
  | "ANG" :: n :: dv :: "|" :: angles ->
    let l = List.map qf angles in
    let tau = List.nth l (List.length l - 1) in
    let m = q_gen_angles (tq tau) (nat_of_int (ios n)) (nat_of_int (ios dv)) in
    let eps = q_of_float (1e-14 *. float_of_q tau) in
    if q_close_b (tq eps) (List.map tq l) m && ios n mod 2 = 0 then "CHECK ok"
    else Printf.sprintf "CHECK FAIL model (%d angles): %s" (List.length m) (String.concat " " (List.map (fun x -> qhex (qt x)) m))
  | "NEST" :: "|" :: rest ->
    (match split_bar rest with
     | [fine; coarse] ->
       let f = List.map qf fine and c = List.map qf coarse in
       let mx = List.fold_left (fun acc x -> Float.max acc (Float.abs (float_of_q x))) 0.0 f in
       let eps = q_of_float (1e-14 *. mx) in
       if q_close_b (tq eps) (List.map tq (every_second f)) (List.map tq c) then "CHECK ok"
       else "CHECK FAIL the grid of one refinement less is not the every-second-node subgrid"
     | _ -> "?malformed")
  | ["LEV"; nr; nt; ml] ->
    (match choose_levels (zs nr) (zs nt) (zs ml) with None -> "rejected" | Some l -> zi l)
  | "PROP" :: _ -> "ok"
  | _ -> "?unknown-query"

(* ---------------- C11 parallel regions ---------------- *)
let par_dims = ref { d_nr = z0; d_nt = z0; d_nsc = z0 }
let arr_of = function "x" -> AX | "rhs" -> ARhs | "temp" -> ATemp | "res" -> ARes | "mat" -> AMat | s -> failwith ("array " ^ s)
let arr_name = function AX -> "x" | ARhs -> "rhs" | ATemp -> "temp" | ARes -> "res" | ASolverC -> "circle-solver" | ASolverR -> "radial-solver" | AScratch -> "scratch" | AMat -> "matrix-row"
let task_of op task idx colour =
  let i = zs idx in
  let white = (colour = "white") in
  match op, task with
  | "residualGive", "circle" -> ResGiveCircle i
  | "residualGive", "radial" -> ResGiveRadial i
  | "residualTake", "circle" -> ResTakeCircle i
  | "residualTake", "radial" -> ResTakeRadial i
  | "directGive", "asmCircle" -> AsmGiveCircle i
  | "directGive", "asmRadial" -> AsmGiveRadial i
  | "directTake", "asmCircle" -> AsmTakeCircle i
  | "directTake", "asmRadial" -> AsmTakeRadial i
  | ("smootherGive" | "extSmootherGive"), "ascCircle" -> AscCircle (true, i, white)
  | ("smootherGive" | "extSmootherGive"), "ascRadial" -> AscRadial (true, i, white)
  | ("smootherTake" | "extSmootherTake"), "ascCircle" -> AscCircle (false, i, white)
  | ("smootherTake" | "extSmootherTake"), "ascRadial" -> AscRadial (false, i, white)
  | _, "solveCircle" -> SolveCircle (true, i)
  | _, "solveRadial" -> SolveRadial (true, i)
  | _ -> failwith "task"
let rec task_str = function
  | ResGiveCircle i -> "ResidualGive::applyCircleSection(" ^ zi i ^ ")"
  | ResGiveRadial i -> "ResidualGive::applyRadialSection(" ^ zi i ^ ")"
  | ResTakeCircle i -> "ResidualTake::applyCircleSection(" ^ zi i ^ ")"
  | ResTakeRadial i -> "ResidualTake::applyRadialSection(" ^ zi i ^ ")"
  | AsmGiveCircle i -> "DirectSolverGiveCustomLU::buildSolverMatrixCircleSection(" ^ zi i ^ ")"
  | AsmGiveRadial i -> "DirectSolverGiveCustomLU::buildSolverMatrixRadialSection(" ^ zi i ^ ")"
  | AsmTakeCircle i -> "DirectSolverTakeCustomLU::buildSolverMatrixCircleSection(" ^ zi i ^ ")"
  | AsmTakeRadial i -> "DirectSolverTakeCustomLU::buildSolverMatrixRadialSection(" ^ zi i ^ ")"
  | AscCircle (g, i, w) -> Printf.sprintf "%s::applyAscOrthoCircleSection(%s,%s)" (if g then "give" else "take") (zi i) (if w then "White" else "Black")
  | AscRadial (g, i, w) -> Printf.sprintf "%s::applyAscOrthoRadialSection(%s,%s)" (if g then "give" else "take") (zi i) (if w then "White" else "Black")
  | SolveCircle (p, i) -> Printf.sprintf "solveCircleSection(%s)%s" (zi i) (if p then "" else "[shared scratch]")
  | SolveRadial (p, i) -> Printf.sprintf "solveRadialSection(%s)%s" (zi i) (if p then "" else "[shared scratch]")

let par_regions = [ ("residual_give", gen_residual_give); ("residual_take", gen_residual_take);
                    ("direct_give_assembly", gen_direct_give_assembly); ("direct_take_assembly", gen_direct_take_assembly); ("smoother_give", gen_smoother_give);
                    ("smoother_take", gen_smoother_take); ("ext_smoother_give", gen_ext_smoother_give); ("ext_smoother_take", gen_ext_smoother_take) ]

let par_query (toks : string list) (_rhs : string) : string =
  match toks with
  | ["DIMS"; nr; nt; nsc; _; _] -> par_dims := { d_nr = zs nr; d_nt = zs nt; d_nsc = zs nsc }; "ok"
  | "FP" :: op :: task :: idx :: colour :: "|" :: rest ->
    let t = task_of op task idx colour in
    let bad = ref [] in
    let rec go kind = function
      | [] -> ()
      | "|" :: r -> go kind r
      | ("W" | "R" as k) :: cellspec :: r ->
        (match String.split_on_char ':' cellspec with
         | [a; ij] ->
           (match String.split_on_char ',' ij with
            | [i; j] ->
              let c = ((arr_of a, zs i), zs j) in
              let ok = if k = "W" then observed_write_ok !par_dims t c else observed_read_ok !par_dims t c in
              if not ok && List.length !bad < 4 then bad := (k ^ " " ^ cellspec) :: !bad
            | _ -> failwith "cell")
         | _ -> failwith "cell");
        go kind r
      | _ -> failwith "footprint line" in
    go "W" rest;
    if !bad = [] then "CHECK ok" else "CHECK FAIL the task touches elements outside the model footprint: " ^ String.concat " " (List.rev !bad)
  | ["RACE"; region; nr; nt; nsc] ->
    (match List.assoc_opt region par_regions with
     | None -> "?unknown-region"
     | Some r ->
       (match find_race r { d_nr = zs nr; d_nt = zs nt; d_nsc = zs nsc } with
        | None -> "none"
        | Some ((t1, t2), ((a, i), j)) -> Printf.sprintf "race %s || %s @ %s[%s,%s]" (task_str t1) (task_str t2) (arr_name a) (zi i) (zi j)))
  | "PROP" :: _ -> "ok"
  | _ -> "?unknown-query"

(* ---------------- C12 vector kernels ---------------- *)
let kin_x i = q_of_float (float_of_int ((i * 37 + 11) mod 101 - 50) /. 64.0)
let kin_y i = q_of_float (float_of_int ((i * 53 + 7) mod 89 - 44) /. 32.0)
let kernel_cache : (string * int, string) Hashtbl.t = Hashtbl.create 16
let kernels_query (toks : string list) (_rhs : string) : string =
  match toks with
  | ["RED"; name; n; _t; _rep] ->
    let n = ios n in
    (match Hashtbl.find_opt kernel_cache (name, n) with
     | Some v -> v
     | None ->
       let xs = List.init n (fun i -> tq (kin_x i)) and ys = List.init n (fun i -> tq (kin_y i)) in
       let v = (match name with
           | "dot" -> q_k_dot xs ys | "l1" -> q_k_l1 xs | "l2sq" -> q_k_l2sq xs | "inf" -> q_k_inf ys
           | _ -> failwith "kernel") in
       let r = qhex (qt v) in
       Hashtbl.replace kernel_cache (name, n) r; r)
  | "PROP" :: _ -> "ok"
  | _ -> "?unknown-query"

let () =
  let mode = if Array.length Sys.argv > 1 then Sys.argv.(1) else "" in
  let handler = match mode with
    | "grid" -> (fun t _ -> grid_query t)
    | "linalg" -> (fun t _ -> linalg_query t)
    | "interp" -> (fun t _ -> interp_query t)
    | "operator" -> operator_query
    | "smoother" -> smoother_query
    | "cycle" -> cycle_query
    | "gridgen" -> gridgen_query
    | "par" -> par_query
    | "kernels" -> kernels_query
    | _ -> prerr_endline ("unknown mode " ^ mode); exit 2 in
  try
    while true do
      let line = input_line stdin in
      if String.length line > 0 && line.[0] <> '#' then begin
        let (lhs, rhs) = split_arrow line in
        let res = (try handler (split_ws lhs) rhs with e -> "?exception " ^ Printexc.to_string e) in
        print_string lhs; print_string " => "; print_endline res
      end
    done
  with End_of_file -> ()
