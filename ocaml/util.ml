(* Hand-written glue between text files and the extracted Coq datatypes. *)
open Model

let rec pos_of_int (n : int) : positive =
  if n <= 1 then XH else if n land 1 = 0 then XO (pos_of_int (n lsr 1)) else XI (pos_of_int (n lsr 1))

let z_of_int (n : int) : z = if n = 0 then Z0 else if n > 0 then Zpos (pos_of_int n) else Zneg (pos_of_int (-n))

let rec int_of_pos (p : positive) : int =
  match p with XH -> 1 | XO q -> 2 * int_of_pos q | XI q -> 2 * int_of_pos q + 1

let int_of_z (x : z) : int = match x with Z0 -> 0 | Zpos p -> int_of_pos p | Zneg p -> - (int_of_pos p)

let rec nat_of_int (n : int) : nat = if n <= 0 then O else S (nat_of_int (n - 1))
let rec int_of_nat (n : nat) : int = match n with O -> 0 | S m -> 1 + int_of_nat m

let rec pos_shift (p : positive) (k : int) : positive = if k <= 0 then p else pos_shift (XO p) (k - 1)

(* exact conversion double -> Q *)
let q_of_float (f : float) : q =
  if f = 0.0 then { qnum = Z0; qden = XH }
  else begin
    if Float.is_nan f || Float.is_integer f = false && Float.abs f = Float.infinity then failwith "q_of_float: not finite";
    if Float.abs f = Float.infinity then failwith "q_of_float: infinite";
    let (m, e) = Float.frexp f in                (* f = m * 2^e, 0.5 <= |m| < 1 *)
    let mi = Int64.to_int (Int64.of_float (Float.ldexp m 53)) in   (* exact: |mi| < 2^53 *)
    let e2 = e - 53 in
    (* strip trailing zero bits *)
    let rec strip mi e2 = if mi land 1 = 0 && mi <> 0 then strip (mi asr 1) (e2 + 1) else (mi, e2) in
    let (mi, e2) = strip mi e2 in
    let am = abs mi in
    if e2 >= 0 then
      let p = pos_shift (pos_of_int am) e2 in
      { qnum = (if mi > 0 then Zpos p else Zneg p); qden = XH }
    else
      { qnum = (if mi > 0 then Zpos (pos_of_int am) else Zneg (pos_of_int am)); qden = pos_shift XH (-e2) }
  end

let bits_msb_first (p : positive) : int list =
  let rec go p acc = match p with XH -> 1 :: acc | XO q -> go q (0 :: acc) | XI q -> go q (1 :: acc) in
  go p []

(* positive -> (mantissa as float using the top 62 bits, binary exponent of the dropped part) *)
let float_parts (p : positive) : float * int =
  let bits = bits_msb_first p in
  let rec go bits n m = match bits with
    | [] -> (m, 0)
    | b :: rest -> if n >= 62 then (m, List.length bits) else go rest (n + 1) (m *. 2.0 +. float_of_int b) in
  go bits 0 0.0

let float_of_q (x : q) : float =
  match x.qnum with
  | Z0 -> 0.0
  | Zpos p | Zneg p ->
    let (mn, en) = float_parts p in
    let (md, ed) = float_parts x.qden in
    let r = Float.ldexp (mn /. md) (en - ed) in
    (match x.qnum with Zneg _ -> -. r | _ -> r)

let hex (f : float) : string = Printf.sprintf "%h" f
let fl (s : string) : float = float_of_string s
let qf (s : string) : q = q_of_float (fl s)
let qhex (x : q) : string = hex (float_of_q x)

let split_ws (s : string) : string list = List.filter (fun x -> x <> "") (String.split_on_char ' ' (String.trim s))

(* split "lhs => rhs" *)
let split_arrow (s : string) : string * string =
  match Str.bounded_split_delim (Str.regexp_string " => ") s 2 with
  | [a; b] -> (a, b)
  | [a] -> (a, "")
  | _ -> (s, "")
