(* Hand-written glue between text files and the extracted Coq datatypes. *)
module ZZ = Z
open Model
type string = Stdlib.String.t
module String = Stdlib.String
module List = Stdlib.List

(* Z / positive / N are zarith integers (ExtrOcamlZBigInt); nat stays Peano *)
let z_of_int (n : int) = Big_int_Z.big_int_of_int n
let int_of_z x = Big_int_Z.int_of_big_int x
let pos_of_int = z_of_int
let int_of_pos = int_of_z

let rec nat_of_int (n : int) : nat = if n <= 0 then O else S (nat_of_int (n - 1))
let rec int_of_nat (n : nat) : int = match n with O -> 0 | S m -> 1 + int_of_nat m

(* exact conversion double -> Q *)
let q_of_float (f : float) : q =
  if f = 0.0 then { qnum = Big_int_Z.zero_big_int; qden = Big_int_Z.unit_big_int }
  else begin
    if Float.is_nan f || Float.abs f = Float.infinity then failwith "q_of_float: not finite";
    let (m, e) = Float.frexp f in                (* f = m * 2^e, 0.5 <= |m| < 1 *)
    let mi = Int64.to_int (Int64.of_float (Float.ldexp m 53)) in   (* exact: |mi| < 2^53 *)
    let e2 = e - 53 in
    let rec strip mi e2 = if mi land 1 = 0 && mi <> 0 then strip (mi asr 1) (e2 + 1) else (mi, e2) in
    let (mi, e2) = strip mi e2 in
    if e2 >= 0 then { qnum = Big_int_Z.shift_left_big_int (Big_int_Z.big_int_of_int mi) e2; qden = Big_int_Z.unit_big_int }
    else { qnum = Big_int_Z.big_int_of_int mi; qden = Big_int_Z.shift_left_big_int Big_int_Z.unit_big_int (-e2) }
  end

(* Q -> nearest-ish double (error below 2 ulp; exact when the value is a double) *)
let float_parts (p : ZZ.t) : float * int =
  let nb = ZZ.numbits p in
  if nb <= 62 then (ZZ.to_float p, 0) else (ZZ.to_float (ZZ.shift_right p (nb - 62)), nb - 62)

let float_of_q (x : q) : float =
  let s = Big_int_Z.sign_big_int x.qnum in
  if s = 0 then 0.0 else begin
    let (mn, en) = float_parts (ZZ.abs x.qnum) in
    let (md, ed) = float_parts x.qden in
    let r = Float.ldexp (mn /. md) (en - ed) in
    if s < 0 then -. r else r
  end

let hex (f : float) : string = Printf.sprintf "%h" f
let fl (s : string) : float = float_of_string s
let qf (s : string) : q = q_of_float (fl s)
let qhex (x : q) : string = hex (float_of_q x)

let split_ws (s : string) : string list = List.filter (fun x -> x <> "") (String.split_on_char ' ' (String.trim s))

(* split "lhs => rhs" *)
let split_arrow (s : string) : string * string =
  match Str.bounded_split_delim (Str.regexp_string " => ") s 2 with
  | [a; b] -> (a, b)
  | [a] -> (a, "")
  | _ -> (s, "")
