#!/bin/bash
# tools/confirm_seed.sh <id> <seed dir> : confirm a seeded change in a scratch worktree of /repo (never in /repo itself):
#   with the change: it applies to /repo's HEAD, the tree builds, the pinned test suite passes, the demo exits non-zero;
#   without it: the demo exits 0.
# On success the seed is stored as /verif/seeded/<id>/ (patch.diff, demo files, confirm.log); the worktree is removed.
id=$1; sd=$2; dest=${3:-$1}
wt=/tmp/confirm_$id
log=/tmp/confirm_$id.log
: > $log
git -C /repo worktree remove --force $wt >/dev/null 2>&1
git -C /repo worktree add --detach $wt HEAD >>$log 2>&1 || exit 2
cd $wt
git apply --check $sd/patch.diff >>$log 2>&1 || { echo "$id: patch does not apply to HEAD" | tee -a $log; exit 2; }
git apply $sd/patch.diff
cmake -Wno-dev -G Ninja -S . -B build -DCMAKE_BUILD_TYPE=Release -DFETCHCONTENT_SOURCE_DIR_GOOGLETEST=/usr/src/googletest >>$log 2>&1
cmake --build build -j${JOBS:-6} >>$log 2>&1 || { echo "$id: build fails with the change" | tee -a $log; exit 3; }
ctest --test-dir build -j${JOBS:-6} --timeout 900 > /tmp/confirm_$id.ctest 2>&1
tail -3 /tmp/confirm_$id.ctest >> $log
grep -q "100% tests passed" /tmp/confirm_$id.ctest; t=$?
bash $sd/build_and_run.sh $wt > /tmp/confirm_$id.with 2>&1; w=$?
git checkout -- . ; git status --short >> $log
bash $sd/build_and_run.sh $wt > /tmp/confirm_$id.without 2>&1; wo=$?
echo "$id: ctest_with_change_passes=$((1-t)) demo_exit_with_change=$w demo_exit_without_change=$wo" | tee -a $log
if [ $t -eq 0 ] && [ $w -ne 0 ] && [ $wo -eq 0 ]; then
  d=/verif/seeded/$dest; mkdir -p $d
  cp $sd/patch.diff $sd/demo.cpp $sd/build_and_run.sh $d/
  [ -f $sd/notes.md ] && cp $sd/notes.md $d/
  tail -25 /tmp/confirm_$id.with > $d/demo_with_change.txt
  tail -8 /tmp/confirm_$id.without > $d/demo_without_change.txt
  cp $log $d/confirm.log
  echo "$id: CONFIRMED" | tee -a $log
fi
cd /; git -C /repo worktree remove --force $wt; rm -rf $wt /tmp/confirm_$id.ctest /tmp/confirm_$id.with /tmp/confirm_$id.without
