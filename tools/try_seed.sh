#!/bin/bash
# tools/try_seed.sh <property id> <patch file> [more property ids...] : apply a seeded change to /repo, run the quick check(s), undo it.
# Evidence files and the regenerated Coq files are restored afterwards, so that what is committed always comes from the unchanged tree.
id=$1; patch=$2; shift 2
cd /repo || exit 2
git apply --check "$patch" || { echo "patch does not apply"; exit 2; }
bk=$(mktemp -d)
cp -a /verif/evidence "$bk/evidence"
git apply "$patch"
for p in $id "$@"; do
  echo "== check $p with $(basename $(dirname $patch))"
  ( cd /verif && timeout 3000 ./check $p --tier quick; echo "exit=$?" )
done
git -C /repo checkout -- .
git -C /repo status --short | head
rm -rf /verif/evidence && mv "$bk/evidence" /verif/evidence && rmdir "$bk"
( cd /verif && for t in translate/t*.py; do python3 "$t" /repo >/dev/null; done )
