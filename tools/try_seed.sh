#!/bin/bash
# tools/try_seed.sh <property id> <patch file> [more property ids...] : apply a seeded change to /repo, run the quick check(s), undo it.
id=$1; patch=$2; shift 2
cd /repo || exit 2
git apply --check "$patch" || { echo "patch does not apply"; exit 2; }
git apply "$patch"
for p in $id "$@"; do
  echo "== check $p with $(basename $(dirname $patch))"
  ( cd /verif && timeout 1800 ./check $p --tier quick; echo "exit=$?" )
done
git -C /repo checkout -- .
git -C /repo status --short | head
