#!/bin/bash
# tools/mk_seed_worktree.sh <tag> : scratch worktree of /repo's HEAD for a seeding sub-agent (outside /repo and /verif)
wt=/tmp/seedwt_$1
git -C /repo worktree remove --force $wt >/dev/null 2>&1; rm -rf $wt
git -C /repo worktree add --detach $wt HEAD >/dev/null 2>&1 && mkdir -p $wt/seed && echo $wt
