#!/usr/bin/env python3
"""T11: GMGPolar::selectTestCase (src/GMGPolar/select_test_case.cpp)  ->  coq/gen/SelectGen.v

The function is a sequence of nested `switch` statements over geometry_, problem_, alpha_, beta_ whose leaves are
   member_ = std::make_unique<Class>(args);      |      throw std::runtime_error(...);
The translator parses exactly that grammar, interprets the function for every combination of the four enumerations
(include/common/global_definitions.h) and writes the resulting table: per combination either None (an exception) or the
five (class name, constructor arguments) pairs selected for domain_geometry_, density_profile_coefficients_,
exact_solution_, boundary_conditions_, source_term_.  Properties_C19 proves over the whole (finite) table that every accepted
combination selects a consistent (exact solution, coefficients, geometry, boundary, source term) tuple."""
import os
import re
import sys

sys.path.insert(0, os.path.dirname(os.path.abspath(__file__)))
from cexpr import strip_comments, TranslateError, match_braces, find_function_body

REPO = sys.argv[1] if len(sys.argv) > 1 else '/repo'
OUT = os.path.join(os.path.dirname(os.path.abspath(__file__)), '..', 'coq', 'gen', 'SelectGen.v')
ENUMS = {'geometry_': 'GeometryType', 'problem_': 'ProblemType', 'alpha_': 'AlphaCoeff', 'beta_': 'BetaCoeff'}
MEMBERS = ['domain_geometry_', 'density_profile_coefficients_', 'exact_solution_', 'boundary_conditions_', 'source_term_']


def enum_values(hdr, name):
    m = re.search(r'enum\s+class\s+' + name + r'\s*\{([^}]*)\}', hdr)
    if not m:
        raise TranslateError('enum %s not found' % name)
    vals = []
    for item in m.group(1).split(','):
        item = item.strip()
        if not item:
            continue
        mm = re.match(r'(\w+)\s*=\s*(\d+)$', item)
        if not mm:
            raise TranslateError('enumerator outside the grammar: %r' % item)
        vals.append((mm.group(1), int(mm.group(2))))
    return vals


def skip(s, i):
    while i < len(s) and s[i].isspace():
        i += 1
    return i


def parse_stmts(s):
    """[('switch', var, [(label|None, stmts)]) | ('assign', member, cls, args) | ('throw',) | ('break',)]"""
    out = []
    i = 0
    while True:
        i = skip(s, i)
        if i >= len(s):
            return out
        m = re.match(r'switch\s*\(\s*(\w+)\s*\)\s*', s[i:])
        if m:
            j = i + m.end()
            if s[j] != '{':
                raise TranslateError('switch without a block')
            body = match_braces(s, j)
            i = j + len(body) + 2
            out.append(('switch', m.group(1), parse_cases(body)))
            continue
        j = s.find(';', i)
        if j < 0:
            raise TranslateError('statement without ; : %r' % s[i:i + 40])
        st = ' '.join(s[i:j].split())
        i = j + 1
        if st == 'break':
            out.append(('break',))
        elif st.startswith('throw '):
            out.append(('throw',))
        else:
            m = re.match(r'(\w+)\s*=\s*std::make_unique<\s*(\w+)\s*>\s*\((.*)\)$', st)
            if not m:
                raise TranslateError('statement outside the grammar: %r' % st)
            out.append(('assign', m.group(1), m.group(2), ', '.join(a.strip() for a in m.group(3).split(','))))


def parse_cases(body):
    cases = []
    pos = [(m.start(), m.end(), m.group(1)) for m in re.finditer(r'\b(?:case\s+(\w+::\w+)|default)\s*:(?!:)', body)]
    # only labels at nesting depth 0 of this block
    top = []
    for st, en, lab in pos:
        depth = body.count('{', 0, st) - body.count('}', 0, st)
        if depth == 0:
            top.append((st, en, lab))
    if body[:top[0][0]].strip() if top else body.strip():
        raise TranslateError('statements before the first case label')
    for k, (st, en, lab) in enumerate(top):
        end = top[k + 1][0] if k + 1 < len(top) else len(body)
        cases.append((lab, parse_stmts(body[en:end])))
    return cases


class Thrown(Exception):
    pass


def run(stmts, env, state):
    """returns True when a `break` was executed (leaves the innermost switch)"""
    for st in stmts:
        if st[0] == 'break':
            return True
        if st[0] == 'throw':
            raise Thrown()
        if st[0] == 'assign':
            if st[1] not in MEMBERS:
                raise TranslateError('assignment to an unknown member %s' % st[1])
            state[st[1]] = (st[2], st[3])
        else:
            _, var, cases = st
            if var not in env:
                raise TranslateError('switch over an unknown variable %s' % var)
            val = env[var]
            idx = None
            for k, (lab, _) in enumerate(cases):
                if lab is not None and lab == ENUMS[var] + '::' + val:
                    idx = k
            if idx is None:
                for k, (lab, _) in enumerate(cases):
                    if lab is None:
                        idx = k
            if idx is None:
                continue
            # C++ fall-through semantics: execute from the matching label until a break
            for k in range(idx, len(cases)):
                if run(cases[k][1], env, state):
                    break
    return False


def write_if_changed(path, text):
    """keep the time stamp when nothing changed, so that make does not rebuild the proofs"""
    try:
        if open(path).read() == text:
            return
    except OSError:
        pass
    with open(path, 'w') as f:
        f.write(text)


def main():
    try:
        hdr = strip_comments(open(os.path.join(REPO, 'include/common/global_definitions.h')).read())
        enums = {v: enum_values(hdr, e) for v, e in ENUMS.items()}
        src = strip_comments(open(os.path.join(REPO, 'src/GMGPolar/select_test_case.cpp')).read())
        body = find_function_body(src, r'void\s+GMGPolar::selectTestCase\s*\(\s*\)')
        prog = parse_stmts(body)
        rows = []
        for g, gi in enums['geometry_']:
            for p, pi in enums['problem_']:
                for a, ai in enums['alpha_']:
                    for b, bi in enums['beta_']:
                        state = {}
                        try:
                            run(prog, {'geometry_': g, 'problem_': p, 'alpha_': a, 'beta_': b}, state)
                            sel = [state.get(m) for m in MEMBERS]
                        except Thrown:
                            sel = None
                        rows.append(((g, gi), (p, pi), (a, ai), (b, bi), sel))
    except (TranslateError, ValueError, IndexError) as ex:
        write_if_changed(OUT, '(* T11 could not translate the current source: %s *)\nT11_translation_failed.\n' % str(ex).replace('*)', '* )'))
        print('T11 FAILED:', ex)
        return 1
    out = ['(* GENERATED by translate/t11_select.py from src/GMGPolar/select_test_case.cpp and include/common/global_definitions.h;',
           '   do not edit: rewritten from /repo on every run.  One row per (geometry, problem, alpha, beta) combination: the enumerator',
           '   values, and None (selectTestCase throws) or the (class, constructor arguments) selected for',
           '   domain_geometry_, density_profile_coefficients_, exact_solution_, boundary_conditions_, source_term_ (None = left unset). *)',
           'From Coq Require Import List ZArith String.', 'Import ListNotations.', 'Local Open Scope string_scope.', '',
           'Definition sel := option (string * string).',
           'Definition gen_select_table : list ((Z * Z * Z * Z) * option (sel * sel * sel * sel * sel)) := [']
    lines = []
    for (g, gi), (p, pi), (a, ai), (b, bi), sel in rows:
        if sel is None:
            s = 'None'
        else:
            s = 'Some (%s)' % ', '.join('None' if x is None else 'Some ("%s", "%s")' % x for x in sel)
        lines.append('  ((%d, %d, %d, %d)%%Z, %s)  (* %s %s %s %s *)' % (gi, pi, ai, bi, s, g, p, a, b))
    # the comment must precede the separating semicolon
    out.append(';\n'.join(re.sub(r'\)  \(\*', ') (*', l) for l in lines))
    out.append('].')
    for v, name in (('geometry_', 'geometry'), ('problem_', 'problem'), ('alpha_', 'alpha'), ('beta_', 'beta')):
        out.append('Definition gen_enum_%s : list (string * Z) := [%s].' % (name, '; '.join('("%s", %d%%Z)' % e for e in enums[v])))
    write_if_changed(OUT, '\n'.join(out) + '\n')
    print('T11 ok: %s (%d combinations, %d accepted)' % (OUT, len(rows), sum(1 for r in rows if r[4] is not None)))
    return 0


if __name__ == '__main__':
    sys.exit(main())
